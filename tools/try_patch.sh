#!/bin/bash
# usage: tools/try_patch.sh <patch.diff> <Cxx> [more Cxx...]  -- applies the patch to /repo, runs the quick checks, reverts.
patch=$1; shift
cd /verif
if ! git -C /repo diff --quiet; then echo "/repo has uncommitted changes"; exit 2; fi
git -C /repo apply "$patch" || { echo "patch does not apply"; exit 2; }
for p in "$@"; do
  VERIF_SECONDS=${VERIF_SECONDS:-12} python3 check.py $p --tier quick 2>&1 | grep -E "VIOLATION|KNOWN|quick:|INFRA|why" | cut -c1-400 | head -6
done
git -C /repo checkout -- . 
git -C /repo status --short | grep -v '^??' | head -3
