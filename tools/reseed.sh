#!/bin/bash
# usage: tools/reseed.sh <seed-name> <Cxx> [more checks]  -- re-evaluates a stored seed against the current checks (updates seeded/<name>/meta.json)
name=$1; shift
rm -rf /tmp/rerun; mkdir -p /tmp/rerun
cp /verif/seeded/$name/patch.diff /verif/seeded/$name/demo.py /verif/seeded/$name/meta.json /tmp/rerun/
cd /verif && python3 tools/keep_seed.py /tmp/rerun $name "$@" 2>&1 | tail -1
