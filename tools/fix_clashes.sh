#!/bin/bash
# usage: fix_clashes.sh <file-to-rename-in> <suffix>   (run in lean/): renames declarations of <file> that clash with already imported ones
f=$1; suf=$2
for i in $(seq 1 30); do
  out=$(lake build CardVerif 2>&1 | grep "environment already contains" | head -1)
  [ -z "$out" ] && break
  name=$(echo "$out" | sed -E "s/.*already contains '([^']+)'.*/\1/"); short=${name##*.}
  echo "clash: $name"
  sed -i -E "s/(^|[^A-Za-z0-9_'.])${short}([^A-Za-z0-9_']|$)/\1${short}_${suf}\2/g" "$f"
done
