#!/usr/bin/env python3
"""Records the shape of every function of card_utils at the revision the model was written against:
model_map.json = {repo_head, functions: {"<file>::<qualified name>": <hash of the AST without docstrings>}}.
At run time (harness/srcmap.py) the working tree is hashed the same way; functions that differ are listed in the
evidence (`changed_source_functions`) and a property whose anchored files contain one gets three times the budget.
Regenerate after every 'fix:' commit to /repo:  python3 tools/gen_model_map.py"""
import json, os, sys
HERE = os.path.dirname(os.path.dirname(os.path.abspath(__file__)))
sys.path.insert(0, HERE)
from harness import srcmap, core

if __name__ == "__main__":
    m = {"repo_head": core.repo_head(), "functions": srcmap.function_hashes(core.REPO)}
    with open(os.path.join(HERE, "model_map.json"), "w") as fh:
        json.dump(m, fh, indent=0, sort_keys=True)
    print(len(m["functions"]), "functions recorded at", m["repo_head"])
