#!/usr/bin/env python3
"""usage: keep_seed.py <out-dir with patch.diff demo.py meta.json> <seed-name> <Cxx> [more checks to run...]
Confirms a seeded change in a scratch worktree of /repo (tests pass with it; demo fails with it and passes without it),
runs the named /verif quick checks against it (applied to /repo, reverted straight afterwards) and stores it under seeded/."""
import json, os, shutil, subprocess, sys, tempfile
out, name, *checks = sys.argv[1:]
V = "/verif"
wt = tempfile.mkdtemp(prefix="seedwt_", dir="/tmp")
os.rmdir(wt)
run = lambda *a, **k: subprocess.run(*a, capture_output=True, text=True, **k)
assert run(["git", "-C", "/repo", "diff", "--quiet"]).returncode == 0, "/repo dirty"
run(["git", "-C", "/repo", "worktree", "add", "-q", wt, "HEAD"])
res = {}
try:
    d0 = run(["/venv/bin/python", os.path.join(out, "demo.py"), wt], cwd=wt)
    res["demo_without_patch_exit"] = d0.returncode
    a = run(["git", "-C", wt, "apply", os.path.join(out, "patch.diff")])
    res["patch_applies"] = a.returncode == 0
    t = run(["/venv/bin/python", "-m", "pytest", "-q", "-p", "no:cacheprovider", "--timeout=900"], cwd=wt)
    res["tests_with_patch"] = t.stdout.strip().splitlines()[-1] if t.stdout.strip() else t.stderr[-200:]
    d1 = run(["/venv/bin/python", os.path.join(out, "demo.py"), wt], cwd=wt)
    res["demo_with_patch_exit"] = d1.returncode
    res["demo_with_patch_output"] = (d1.stdout + d1.stderr)[-600:]
except Exception as e:
    res["error"] = str(e)
ok = res.get("patch_applies") and res["demo_without_patch_exit"] == 0 and res["demo_with_patch_exit"] != 0 and "passed" in res["tests_with_patch"] and "failed" not in res["tests_with_patch"]
res["confirmed"] = bool(ok)
caught = {}
try:
    if ok:
        # the checks run against the patched scratch worktree ($CARD_UTILS_REPO), /repo itself stays untouched
        for c in checks:
            env = dict(os.environ, VERIF_SECONDS=os.environ.get("VERIF_SECONDS", "12"), CARD_UTILS_REPO=wt)
            p = run(["python3", "check.py", c, "--tier", "quick"], cwd=V, env=env)
            lines = [l for l in p.stdout.splitlines() if l.startswith("VIOLATION") or l.strip().startswith("why:")]
            caught[c] = {"exit": p.returncode, "first": [l[:300] for l in lines[:2]]}
finally:
    run(["git", "-C", "/repo", "worktree", "remove", "--force", wt])
meta = json.load(open(os.path.join(out, "meta.json")))
meta["confirmation"] = res
meta["what_i_ran"] = ("scratch worktree of /repo HEAD: demo.py (exit 0), git apply patch.diff, pytest (all pass), demo.py (exit != 0); "
                      "then the /verif quick checks with CARD_UTILS_REPO pointing at the patched worktree (same code path as /repo); worktree removed")
meta["checks"] = caught
dst = os.path.join(V, "seeded", name)
if ok:
    os.makedirs(dst, exist_ok=True)
    shutil.copy(os.path.join(out, "patch.diff"), dst); shutil.copy(os.path.join(out, "demo.py"), dst)
    json.dump(meta, open(os.path.join(dst, "meta.json"), "w"), indent=1)
print(json.dumps({"name": name, "confirmed": ok, "tests": res.get("tests_with_patch"), "demo": [res.get("demo_without_patch_exit"), res.get("demo_with_patch_exit")],
                  "caught": {c: v["exit"] for c, v in caught.items()}}))
