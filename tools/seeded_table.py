#!/usr/bin/env python3
"""prints the markdown table of seeded changes (seeded/*/meta.json) for DESIGN.md"""
import json, glob, os
rows = []
for d in sorted(glob.glob(os.path.join(os.path.dirname(os.path.dirname(os.path.abspath(__file__))), "seeded", "*"))):
    m = json.load(open(os.path.join(d, "meta.json")))
    name = os.path.basename(d)
    checks = m.get("checks", {})
    caught = ", ".join(f"{c}" for c, v in checks.items() if v["exit"] == 1) or "-"
    missed = ", ".join(f"{c}" for c, v in checks.items() if v["exit"] == 0)
    rows.append(f"| {name} | {m.get('property')} | {m.get('summary','')[:170].replace('|','/')} | {m.get('needs','')[:150].replace('|','/')} | {caught}{' (silent, as expected: ' + missed + ')' if missed else ''} |")
print("| seed | breaks | change | needs | quick checks that report a VIOLATION |")
print("|---|---|---|---|---|")
print("\n".join(rows))
