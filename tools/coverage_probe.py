#!/usr/bin/env python3
"""Which lines of card_utils do the checks' generators actually execute?

For every registered property: corpus + N generated cases are run through `prop.impl` (the real code) in this process
under `sys.settrace`, collecting executed (file, line) pairs inside $CARD_UTILS_REPO/card_utils.  Reports, per source
file, the executable lines that NO property reached -- the blind spots of the correspondence (a seeded change there can
only be caught by luck).  An engineering aid; writes coverage_report.json (not evidence: evidence is written by the checks).

usage: python3 tools/coverage_probe.py [N per property, default 300] [Cxx ...]
"""
import os, sys, json, random, dis, types, time
HERE = os.path.dirname(os.path.dirname(os.path.abspath(__file__)))
sys.path.insert(0, HERE)
if os.environ.get("PYTHONHASHSEED") != "0":
    os.environ["PYTHONHASHSEED"] = "0"
    os.execv(sys.executable, [sys.executable] + sys.argv)
from harness import core, registry

ROOT = os.path.join(os.path.realpath(core.REPO), "card_utils") + os.sep


def executable_lines(path):
    src = open(path, encoding="utf-8").read()
    code = compile(src, path, "exec")
    lines = set()
    todo = [code]
    while todo:
        c = todo.pop()
        for _, _, ln in c.co_lines():
            if ln is not None:
                lines.add(ln)
        for k in c.co_consts:
            if isinstance(k, types.CodeType):
                todo.append(k)
    return lines


def main():
    args = sys.argv[1:]
    n = int(args[0]) if args and args[0].isdigit() else 300
    pids = [a for a in args if a.startswith("C")] or sorted(registry.REGISTRY)
    hit = {}          # file -> set(lines)
    per = {}

    def tracer(frame, event, arg):
        fn = frame.f_code.co_filename
        if not fn.startswith(ROOT):
            return None
        s = hit.setdefault(fn, set())

        def local(frame, event, arg):
            if event == "line":
                s.add(frame.f_lineno)
            return local
        s.add(frame.f_lineno)
        return local

    for pid in pids:
        prop = registry.REGISTRY[pid]()
        prop.setup()
        rng = random.Random(12345)
        cases = list(prop.corpus())
        gen = prop.generate(rng, "quick", 0)
        t0 = time.time()
        for c in gen:
            cases.append(c)
            if len(cases) >= n or time.time() - t0 > 60:
                break
        before = sum(len(v) for v in hit.values())
        sys.settrace(tracer)
        try:
            for c in cases:
                try:
                    prop.impl(c)
                except Exception:
                    pass
        finally:
            sys.settrace(None)
        per[pid] = {"cases": len(cases), "new_lines": sum(len(v) for v in hit.values()) - before}
        print(pid, per[pid], flush=True)

    report = {}
    tot_exec = tot_hit = 0
    for dp, _, files in os.walk(ROOT):
        for f in files:
            if not f.endswith(".py"):
                continue
            path = os.path.join(dp, f)
            ex = executable_lines(path)
            h = hit.get(path, set()) & ex
            # module-level lines run at import time (before tracing): count def/class/import lines as reached
            src = open(path, encoding="utf-8").read().split("\n")
            missed = sorted(l for l in ex - h)
            missed = [l for l in missed if not _is_decl(src, l)]
            tot_exec += len(ex); tot_hit += len(ex) - len(missed)
            if missed:
                report[os.path.relpath(path, os.path.dirname(ROOT.rstrip(os.sep)))] = {
                    "missed": missed, "text": {str(l): src[l - 1].strip()[:100] for l in missed}}
    out = {"per_property": per, "executable_lines": tot_exec, "reached": tot_hit, "unreached": report}
    with open(os.path.join(HERE, "coverage_report.json"), "w") as fh:
        json.dump(out, fh, indent=1)
    print(f"reached {tot_hit}/{tot_exec} executable lines")
    for f, r in sorted(report.items()):
        print(f"\n{f}: {len(r['missed'])} unreached")
        for l in r["missed"]:
            print(f"   {l:4d}  {r['text'][str(l)]}")


_HDR = {}


def _headers(src):
    """line numbers that belong to a def/class header (signature, decorators, default arguments) or a docstring"""
    import ast
    key = hash("\n".join(src))
    if key in _HDR:
        return _HDR[key]
    out = set()
    try:
        tree = ast.parse("\n".join(src))
        for node in ast.walk(tree):
            if isinstance(node, (ast.FunctionDef, ast.AsyncFunctionDef, ast.ClassDef)):
                first = node.body[0]
                start = min([node.lineno] + [d.lineno for d in node.decorator_list])
                out.update(range(start, first.lineno))
                if isinstance(first, ast.Expr) and isinstance(getattr(first, "value", None), ast.Constant) and isinstance(first.value.value, str):
                    out.update(range(first.lineno, first.end_lineno + 1))
            if isinstance(node, ast.Raise):
                # continuation lines of a multi-line raise: keep only its first line
                out.update(range(node.lineno + 1, node.end_lineno + 1))
    except SyntaxError:
        pass
    _HDR[key] = out
    return out


def _is_decl(src, l):
    """lines executed at import time only (module / class body level): not reachable by calls, so not blind spots"""
    if l in _headers(src):
        return True
    t = src[l - 1]
    ind = len(t) - len(t.lstrip())
    st = t.strip()
    if ind == 0:
        return True
    if st.startswith(("def ", "class ", "@", '"""', "'''")):
        return True
    # class-body assignments (indent 4 directly under a class): find enclosing def/class
    for k in range(l - 2, -1, -1):
        u = src[k]
        if not u.strip():
            continue
        ui = len(u) - len(u.lstrip())
        if ui < ind and u.strip().startswith(("def ", "async def ")):
            return False
        if ui < ind and u.strip().startswith("class "):
            return True
    return False


if __name__ == "__main__":
    main()
