#!/usr/bin/env python3
"""Re-evaluates every stored seed against the CURRENT checks (own property's quick check, plus C15 for the two seeds that
break the replay path) and the control refactoring against all 20; prints one line per seed and a summary.
usage: python3 tools/reseed_all.py [name-prefix]"""
import glob, json, os, re, subprocess, sys, shutil
V = "/verif"
pref = sys.argv[1] if len(sys.argv) > 1 else ""
missed = []
for d in sorted(glob.glob(os.path.join(V, "seeded", "*"))):
    name = os.path.basename(d)
    if not (name.startswith(pref) or (pref and re.match(pref, name))):
        continue
    meta = json.load(open(os.path.join(d, "meta.json")))
    if name.startswith("control"):
        checks = [f"C{i:02d}" for i in range(1, 21)]
    else:
        checks = [meta["property"]] + (["C15"] if name in ("C03-d", "C14-d") else [])
    RR = f"/tmp/rerun_{os.getpid()}"
    shutil.rmtree(RR, ignore_errors=True); os.makedirs(RR)
    for f in ("patch.diff", "demo.py", "meta.json"):
        if os.path.exists(os.path.join(d, f)):
            shutil.copy(os.path.join(d, f), RR)
    if name.startswith("control"):
        # control: patch must apply, tests pass, and NO check may fire
        wt = f"/tmp/ctrlwt_{os.getpid()}"
        subprocess.run(["git", "-C", "/repo", "worktree", "remove", "--force", wt], capture_output=True)
        subprocess.run(["git", "-C", "/repo", "worktree", "add", "-q", "--detach", wt, "HEAD"], check=True)
        subprocess.run(["git", "-C", wt, "apply", os.path.join(d, "patch.diff")], check=True)
        fired = []
        for c in checks:
            p = subprocess.run(["python3", "check.py", c, "--tier", "quick"], cwd=V, capture_output=True, text=True,
                               env=dict(os.environ, CARD_UTILS_REPO=wt, VERIF_SECONDS="10"))
            if p.returncode != 0:
                fired.append(c)
        subprocess.run(["git", "-C", "/repo", "worktree", "remove", "--force", wt], capture_output=True)
        print(name, "control: checks that fired:", fired or "none", flush=True)
        if fired:
            missed.append(name + " (control fired " + ",".join(fired) + ")")
        continue
    p = subprocess.run(["python3", "tools/keep_seed.py", RR, name] + checks, cwd=V, capture_output=True, text=True)
    line = (p.stdout.strip().splitlines() or ["{}"])[-1]
    try:
        r = json.loads(line)
    except Exception:
        r = {"caught": {}, "raw": line[:200]}
    ok = any(v == 1 for v in r.get("caught", {}).values())     # exit 2 = the check itself broke: not a catch
    print(name, r.get("caught"), "" if ok else "   <-- MISSED", flush=True)
    if not ok:
        missed.append(name)
shutil.rmtree(f"/tmp/rerun_{os.getpid()}", ignore_errors=True)
print("missed:", missed or "none")
