#!/usr/bin/env python3
"""usage: run_control.py <worktree with a behaviour-preserving patch applied> <out-dir with patch.diff meta.json> <name>
Runs all 20 quick checks against the worktree; stores the control under seeded/<name>/ with the list of checks that fired
(must be empty)."""
import json, os, shutil, subprocess, sys
wt, out, name = sys.argv[1:4]
V = "/verif"
t = subprocess.run(["/venv/bin/python", "-m", "pytest", "-q", "-p", "no:cacheprovider", "--timeout=900"], cwd=wt, capture_output=True, text=True)
tests = t.stdout.strip().splitlines()[-1] if t.stdout.strip() else t.stderr[-200:]
fired = {}
for i in range(1, 21):
    c = f"C{i:02d}"
    p = subprocess.run(["python3", "check.py", c, "--tier", "quick"], cwd=V, capture_output=True, text=True,
                       env=dict(os.environ, CARD_UTILS_REPO=wt, VERIF_SECONDS=os.environ.get("VERIF_SECONDS", "10")))
    if p.returncode != 0:
        lines = [l for l in p.stdout.splitlines() if l.startswith("VIOLATION") or l.strip().startswith("why:") or l.startswith("INFRA")]
        fired[c] = {"exit": p.returncode, "first": [l[:400] for l in lines[:3]]}
    print(c, p.returncode, flush=True)
meta = json.load(open(os.path.join(out, "meta.json")))
meta["property"] = "none (control)"
meta.setdefault("needs", "nothing: no property is broken")
meta["tests_with_patch"] = tests
meta["checks_fired"] = fired
dst = os.path.join(V, "seeded", name)
os.makedirs(dst, exist_ok=True)
shutil.copy(os.path.join(out, "patch.diff"), dst)
json.dump(meta, open(os.path.join(dst, "meta.json"), "w"), indent=1)
print(json.dumps({"name": name, "tests": tests, "fired": fired})[:3000])
