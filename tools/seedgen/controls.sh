#!/bin/bash
# re-run every stored control refactoring against all 20 quick checks
cd /verif
for d in ${@:-seeded/control-refactor-*}; do
  name=$(basename $d)
  wt=/tmp/ctl_$name
  git -C /repo worktree add -q $wt HEAD && git -C $wt apply /verif/$d/patch.diff || { echo "$name: patch does not apply"; continue; }
  mkdir -p /tmp/ctl_out_$name && cp $d/patch.diff $d/meta.json /tmp/ctl_out_$name/
  VERIF_SECONDS=8 python3 tools/run_control.py $wt /tmp/ctl_out_$name $name 2>&1 | tail -1 | cut -c1-1500 >> /tmp/mut/controls.txt
  git -C /repo worktree remove --force $wt; rm -rf /tmp/ctl_out_$name
done
git -C /repo worktree prune
