#!/bin/bash
# usage: proc.sh <ROUND letter upper> C11 C20 ...
R=$1; shift; r=$(echo $R | tr 'A-Z' 'a-z')
cd /verif
for p in "$@"; do
  if [ -f /tmp/mut/${p}${R}.out/patch.diff ]; then
    python3 tools/keep_seed.py /tmp/mut/${p}${R}.out ${p}-${r} ${p} 2>&1 | tail -1 >> /tmp/mut/results_${R}.txt
    git -C /repo worktree remove --force /tmp/mut/${p}${R} 2>/dev/null
  else
    echo "{\"name\": \"${p}-${r}\", \"missing\": true}" >> /tmp/mut/results_${R}.txt
  fi
done
git -C /repo worktree prune
