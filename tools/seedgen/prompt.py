import json, sys
pid, tag, angle = sys.argv[1], sys.argv[2], sys.argv[3]
ANG = {
 "pair": ("Prefer a change made of TWO cooperating edits in different functions (or different files) that each look "
          "harmless or even correct when reviewed alone (e.g. a helper that slightly changes what it returns and a caller "
          "elsewhere that relies on the old meaning only in a rare branch; a field that is now updated lazily and one reader "
          "that was not told), or a change in code OUTSIDE the functions the property text most obviously points at "
          "(base classes, shared helper modules, constants, enum-like classes, __init__ files, default arguments) whose "
          "effect reaches the property only through a rarely combined set of optional constructor parameters "
          "(e.g. preset boards / preset deck / all_in_runouts / ante with short stacks / rake settings / max_turns / "
          "shuffles / end_cards_in_deck / n_cards / first_turn / given public map / given points)."),
 "alias": ("Prefer a change about OBJECT IDENTITY AND OWNERSHIP: a result that now shares mutable structure with the library's internal "
           "state, with one of the caller's inputs, or with a result handed out earlier/later (so that a caller who keeps, edits, sorts or "
           "drains one of them changes the other); an input container that is now modified, reordered or kept by reference; a value "
           "that is now computed lazily and read after the caller has legitimately changed something; attributes that a "
           "documented public entry point (constructor with explicit optional fields, from_action_dicts, reset_state_from_action_dicts, "
           "to_dict / state_dict round trips, deal helpers, new_game) now fills differently from normal play. The trigger must be "
           "something a normal application does (keeping a table object around, storing and restoring a game in its own field "
           "order, evaluating the same list twice), not reaching into private attributes."),
 "shape": ("Prefer a change that is wrong only for a RARE STRUCTURED SHAPE of input that uniform random sampling essentially never "
           "produces and that needs an exact coincidence of two or three features: e.g. a specific texture of board plus hole cards, "
           "a specific combination of overlapping melds, a pot whose contributions and tie pattern line up in one particular way, "
           "a table where a blind, an ante and a short stack coincide exactly, a betting line that only exists with four or more "
           "seats and a particular order of all-ins, a gin ending that needs a particular card in a particular place. Estimate the "
           "frequency under uniform random inputs / random legal play and aim below one in 100,000."),
 "reject": ("Prefer a change in how the library behaves AROUND REJECTED OR UNUSUAL CALLS and RESTORED OBJECTS: a call that is correctly "
            "refused but leaves a trace (a counter, a cached value, a partially updated container, a consumed iterator) that changes a "
            "LATER accepted call; validation done in a different order so that one particular illegal call is now accepted or one legal "
            "call refused only in a particular state; an object rebuilt through the constructor's optional fields (or from_action_dicts / "
            "reset_state_from_action_dicts / to_dict-state_dict round trips) that behaves like the original except in one later situation "
            "(a particular street, the last card of the stock, the second reshuffle, a completed round); a method called at a moment when "
            "it is normally not called (a query between two moves, a second call of an idempotent-looking method). The first visible wrong "
            "behaviour must come at least two calls AFTER the triggering call."),
 "late": ("Prefer a change whose effect appears only LATE in a long or unusual history: after many streets or many turns, "
          "after a second reshuffle, after a specific earlier rejected call, after a reset or a resume at one particular "
          "moment, on the last seat of a large table, on the very last card of the stock, at exact equality of two "
          "quantities that are normally different (stack == amount owed, deadwood == limit, cap == computed rake, two "
          "equal side-pot layers), or at a numeric boundary (zero, one chip, one card, an empty list that is normally non-empty)."),
}
p = [json.loads(l) for l in open('/verif/properties.jsonl') if json.loads(l)['id'] == pid][0]
wt = f"/tmp/mut/{pid}{tag}"
out = f"/tmp/mut/{pid}{tag}.out"
print(f"""You are helping to test a verification tool by writing a deliberately subtle BUG into a Python library.

The library is cdrappi/card_utils (poker betting state machine with side pots, Omaha/Hold'em evaluators, gin rummy / gin ricky
game state and meld finding). Create your own scratch git worktree of it and work ONLY there:

    git -C /repo worktree add {wt} HEAD

Never edit /repo itself, and do not read, list or use anything under /verif (that directory is off limits: your work must be
independent of it). Python to use: /venv/bin/python (the library is importable from the worktree when you run with
cwd={wt} or PYTHONPATH={wt}). The test suite is run with: cd {wt} && /venv/bin/python -m pytest -q -p no:cacheprovider --timeout=900

PROPERTY that your change must break ({pid}: {p['title']}):

  {p['statement']}

  It is claimed {p['quantifier']['text']}.

  Code the property is anchored in: {', '.join(p['anchors']['files'])}

YOUR TASK: make a small, realistic change to the library (the kind of slip or 'optimisation' a maintainer could really commit)
such that
  1. the library still imports and ALL existing tests still pass (47 tests);
  2. the property above is violated by the public behaviour of the library for SOME inputs / histories;
  3. the violation does NOT show in ordinary use: it needs something specific to manifest. {ANG[angle]}
     Do NOT make a change that most random play-outs or most random inputs would expose at once: a random-input differential
     tester running for ten seconds should have a hard time, unless its generators deliberately reach the needed situation.
  3b. Assume the property is ALREADY checked by a differential tester that drives the public API with structured generated inputs
     against a reference model and judges outputs by the rules of the game. It already does all of this, so avoid bugs that
     need only these: dense card inputs full of pairs/trips/flushes/straights and overlapping melds; hands built from melds;
     tables of 2-22 seats with short stacks, antes, equal or reversed blinds, rake, 1-3 run-outs, preset boards and decks of
     any length; all five gin entry points probed at every state incl. illegal melds; action strings / cards as fresh (non-interned)
     str objects; 1/0 instead of True/False; sets / tuples / frozensets as hands; positional calls; calls of the public helper
     functions with unusual flags before the evaluation; deep copies of live objects continued later; objects rebuilt mid-hand
     through the constructor with dicts in another key order and gin hands in another card order; replays and resets on the same
     object incl. take-backs to another line; earlier deals kept alive while later ones are made; several games interleaved in one
     process; callers that edit or empty every view / candidate list / valid-action set / payout and rake dict / helper result
     they are handed and then ask again; one ranking list reused for several settlements and one blinds list for several tables;
     the own action log re-applied lazily; ten-digit stacks; python -O; logging off; four threads; different str hash seeds. Put the bug where such a tester would STILL not look.
  4. the change looks natural: no 'if cards == [...]' special-casing of a literal input, no random behaviour, no time/env checks.

Deliver THREE files in the directory {out}/ (create it):
  * patch.diff  - `git -C {wt} diff` of your change (must apply to /repo HEAD with `git apply`); library files only, no tests.
  * demo.py     - a self-contained program run as `/venv/bin/python demo.py <path-to-a-checkout>`; it must insert that path at the
                  front of sys.path, import card_utils from it, exercise the PUBLIC API only, and exit 0 when the property holds
                  on the scenario it plays and exit 1 (printing what is wrong) when the property is violated. It must exit 0 on an
                  unchanged checkout (verify with `/venv/bin/python demo.py /repo`) and exit 1 on your worktree. It must judge the
                  behaviour against the PROPERTY TEXT (the rules of the game), not against the old code's output.
  * meta.json   - {{"property": "{pid}", "summary": "<what was changed, 1-3 sentences>", "needs": "<what exactly is needed for the violation to
                  manifest>", "files": ["<changed files>"], "tests_pass": true}}

Before you finish: run the test suite in the worktree (all must pass), run demo.py against /repo (exit 0) and against the worktree (exit 1).
Leave the worktree in place (it will be removed by me). In your final answer, state in three lines what you changed, what it needs, and the exit codes you observed.""")
