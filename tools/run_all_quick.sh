#!/bin/bash
# runs every registered quick check on the current /repo working tree, 4 at a time; prints one summary line each
cd /verif
ids=${@:-C01 C02 C03 C04 C05 C06 C07 C08 C09 C10 C11 C12 C13 C14 C15 C16 C17 C18 C19 C20}
(cd lean && lake build CardVerif cvdriver >/dev/null 2>&1)
printf "%s\n" $ids | xargs -P 4 -I{} sh -c 'python3 check.py {} --tier quick > /tmp/quick_{}.log 2>&1; echo "{} exit=$? $(grep -E "quick:" /tmp/quick_{}.log | tail -1 | cut -c1-160)"; grep -E "^VIOLATION|^INFRA" /tmp/quick_{}.log | head -3'
