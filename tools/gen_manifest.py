#!/usr/bin/env python3
"""Regenerates MANIFEST.json from the table below (kept valid against /root/.vp/MANIFEST.schema.json)."""
import json, os, sys
HERE = os.path.dirname(os.path.dirname(os.path.abspath(__file__)))
ALL = [f"C{i:02d}" for i in range(1, 21)]

# pid -> (category, text, note, technique, design_ref)
CLAIMS = {
 "C02": ("proof",
   "Lean 4 theorems about the hand-written model Pot.settle: conservation of chips through every increment of the "
   "settlement loop and (Props/C02) equality with the unit-layer side-pot spec; the model is tied to pot.py on every run "
   "by differential execution (random + boundary pots, thorough: all pots of <=4 seats with every ordered ranking) and the "
   "implementation's own payouts are judged against the Lean spec `specPayout`.",
   "Trusted: Lean kernel + standard axioms; the correspondence is testing (reach reported in evidence); payout floats "
   "compared at 1e-9; chips < 2^53.",
   "Lean 4 proof (induction over tiers/increments) about a hand-written model + differential correspondence with pot.py",
   "DESIGN.md §7 C02, App. A.1"),
 "C14": ("proof",
   "Lean 4 theorems about the model of get_rake_per_player for any monotone integer-fixing rounding function (instantiated "
   "with exact and with IEEE-754 binary64 arithmetic): bounds, monotonicity, cap, order preservation; the model equals "
   "CPython's float behaviour by differential execution on boundary fractions, and the inequalities are re-judged on the "
   "implementation's own rake vectors.",
   "Trusted: Lean kernel + standard axioms; Float53.rnd as the model of CPython double arithmetic (validated differentially); "
   "correspondence is testing.",
   "Lean 4 proof (loop invariant over contribution levels) + differential correspondence with pot.py",
   "DESIGN.md §7 C14"),
}
NOT_YET = "model/theorems for this property are not built yet in this revision (work in progress, see DESIGN.md §7)"

def main():
    checks = []
    for pid in ALL:
        if pid not in CLAIMS:
            continue
        cat, text, note, tech, ref = CLAIMS[pid]
        checks.append({
            "property_id": pid,
            "quick_cmd": f"python3 check.py {pid} --tier quick",
            "thorough_cmd": f"python3 check.py {pid} --tier thorough",
            "evidence_file": f"evidence/{pid}.json",
            "replay_cmd_template": "python3 check.py --replay {path}",
            "engine": "lean4-model+correspondence",
            "level_claimed": {"category": cat, "text": text, "design_ref": ref},
            "level_note": note,
            "technique": tech,
        })
    man = {
        "version": 1,
        "setup_cmd": "cd lean && lake build CardVerif cvdriver",
        "hooks": {"guard": "CARD_UTILS_VERIF",
                  "enable": "none needed: no instrumentation in /repo; randomness is injected from the harness by replacing random.shuffle/random.sample for the duration of a call",
                  "baseline_off_cmd": "cd /repo && /venv/bin/python -m pytest -q -p no:cacheprovider --timeout=900",
                  "source_commits": [], "add_only": True},
        "engines": [{"name": "lean4-model+correspondence", "path": "lean/ + harness/ + check.py",
                     "serves_properties": sorted(CLAIMS),
                     "kind_free_text": "Lean 4 executable model + theorems (lake build), native driver cvdriver, Python differential harness with spec oracles"}],
        "checks": checks,
        "not_applicable": [{"property_id": p, "reason": NOT_YET} for p in ALL if p not in CLAIMS],
        "notes": "All commands run with cwd=/verif; the repository under test is $CARD_UTILS_REPO (default /repo), imported from its working tree. "
                 "Genuine defects repaired in /repo are logged in known_findings.json (status fixed); open ones are matched by named deviation predicates.",
    }
    with open(os.path.join(HERE, "MANIFEST.json"), "w") as fh:
        json.dump(man, fh, indent=1)
    try:
        import jsonschema
        jsonschema.validate(man, json.load(open("/root/.vp/MANIFEST.schema.json")))
        print("MANIFEST.json valid;", len(checks), "checks")
    except ImportError:
        print("MANIFEST.json written (jsonschema not available to validate)")

if __name__ == "__main__":
    main()
