#!/usr/bin/env python3
"""Regenerates MANIFEST.json (kept valid against /root/.vp/MANIFEST.schema.json).
A property is claimed at level `proof` when lean/CardVerif/Audit/<id>.lean exists (its property theorems are all
proved and audited on every run), otherwise at level `other` (model + spec oracle + correspondence, theorems pending)."""
import json, os, sys
HERE = os.path.dirname(os.path.dirname(os.path.abspath(__file__)))
ALL = [f"C{i:02d}" for i in range(1, 21)]

# pid -> (what the Lean theorems state, design ref)
DESC = {
 "C01": ("conservation of stacks+pot and non-negativity by induction over every reachable state; at completion payouts+rake=pot, "
         "payouts >= 0, pnl sums to -rake (exact rationals, any monotone integer-fixing rounding)", "§7 C01"),
 "C02": ("Pot.settle = the unit-layer side-pot spec for every contribution vector and every ranking holding a maximal contributor "
         "(settle_eq_spec) with corollaries (conservation, non-negativity, folded seats get nothing, unmatched chips return, "
         "nobody collects more than he matched)", "§7 C02, App. A.1"),
 "C03": ("is_action_closed = the closure rule on every table whose top contribution is held by a non-folded seat (hence every "
         "reachable state); one-step theorems: next live seat clockwise, fold-out / run-out end the hand at once without dealing, "
         "next street deals exactly 3/1/1 from the top of the deck and opens on the first live seat; construction facts", "§7 C03, App. A.2"),
 "C04": ("exact characterisation accept <-> LegalWith(engine's own minimum) for every candidate action; effect of an accepted action; "
         "history invariant gap <= max(bb, lastRaise), hence nothing legal is refused and everything accepted is legal or in the F5 "
         "deviation set; machine-checked F5 witness", "§7 C04, App. A.3"),
 "C05": ("five_card_hand_rank = the rules' key for every list of five distinct cards in every order (kernel-evaluated table over all "
         "6,188 rank multisets x flush flag + permutation-invariance lemmas), order independence, suit blindness", "§7 C05"),
 "C06": ("brute-force Omaha and Hold'em strength = best key among exactly the 60 / 21 legal five-card hands (structural); size guards. "
         "optimised Omaha evaluator = the rules' strength = brute force on every valid deal (omaha_fast_eq_spec / _eq_brute: structural "
         "decomposition into a suit-free and a flush part, order independence, and two finite tables -- 10,995,985 rank patterns and "
         "503,217 flush patterns -- evaluated by compiled code: 70 native_decide axioms, the only ones in the project)", "§7 C06, §0"),
 "C07": ("get_best_hands_generic returns tiers that partition the contenders, group equal strengths and are strictly descending; "
         "mapping back to seats; fold-out and showdown payouts are the (averaged) side-pot settlements under those tiers; run-out "
         "boards are five distinct cards disjoint from hole cards", "§7 C07"),
 "C08": ("meld enumeration exact; best split is a legal arrangement with minimum deadwood over ALL arrangements; candidate list "
         "sound/complete/stop-on-gin", "§7 C08, App. A.4"),
 "C09": ("stock+discard+hands is a permutation of the deal without duplicates in every reachable state for every permuting shuffle; "
         "hand sizes; frame lemmas per move", "§7 C09"),
 "C10": ("accept <-> Allowed for every move in every reachable in-progress state; transition relation", "§7 C10"),
 "C11": ("complete <-> gin / knock / wall / turn limit; points per ending; winner shows zero; gin priority on the last turn", "§7 C11"),
 "C12": ("lay-offs legal, partition of the hand, deadwood minimal", "§7 C12, App. A.5"),
 "C13": ("a legal action exists in every in-progress state; an accepted action never fails inside advance_action (no 'money left', "
         "a seat to move to exists, samples fit, evaluator total); explicit bound on the number of accepted actions via a "
         "lexicographic measure; shape of a complete hand", "§7 C13"),
 "C14": ("rake: none without a flop; <= contribution; equal for equal contributions; order of stakes preserved (any monotone "
         "integer-fixing rounding); non-negative, monotone, <= cap, <= fraction of the pot (exact arithmetic)", "§7 C14"),
 "C15": ("replay / reset / resume as functions of the modelled fields", "§7 C15"),
 "C16": ("the model reads the process-global Action sets but never writes them; transcripts are functions of the game's own inputs", "§7 C16"),
 "C17": ("public card map sound, never names a stock card, secrecy w.r.t. the public history, view content, wait iff off turn", "§7 C17"),
 "C18": ("symmetry of every evaluator under card order and suit relabelling; canonical form; equity shares", "§7 C18"),
 "C19": ("ricky value = 0 iff disjoint 3+4 melds, otherwise best single meld; sorted hand is a permutation with melds first", "§7 C19"),
 "C20": ("dealing helpers partition the shuffled deck for every permutation; oversize gin deals rejected", "§7 C20"),
}


def main():
    checks = []
    claimed = []
    for pid in ALL:
        what, ref = DESC[pid]
        has_thms = os.path.exists(os.path.join(HERE, "lean", "CardVerif", "Audit", f"{pid}.lean"))
        impl_ok = os.path.exists(os.path.join(HERE, "harness")) and pid in REGISTERED
        if not impl_ok:
            continue
        claimed.append(pid)
        if has_thms:
            cat = "proof"
            text = (f"Lean 4 theorems (kernel-checked, no sorry, axioms audited each run) about a hand-written executable model: {what}. "
                    "Every property theorem is also applied to a concrete non-degenerate instance with all hypotheses proved "
                    "(Props/Witness). The model is tied to /repo's working tree on every run in two ways: its tables and constants (and "
                    "complete tables of small pure functions) are re-derived from the source and re-checked by the Lean kernel "
                    "(harness/srcfacts.py: generated theorems), and its functions and state machines by a differential correspondence "
                    "(structured generators, boundary probes, callers that edit what they are handed, corpus of past failures; thorough "
                    "tier adds small-scope exhaustion); the implementation's own outputs are judged by an independent rendering of the "
                    "spec; a disagreement is minimised and replayed.")
            tech = ("Lean 4 machine-checked proof about a hand-written model + source facts regenerated from the code and kernel-checked "
                    "each run + differential correspondence with the Python implementation")
        else:
            cat = "other"
            text = (f"Executable Lean 4 model + spec of: {what}. In this revision the property theorems are "
                    f"{'only partly proved (see text)' if pid == 'C06' else 'not yet proved'}; the check is the differential correspondence "
                    "between the real code and the Lean model plus an independent spec oracle on the implementation's outputs. "
                    "Level lowered from proof to other accordingly (DESIGN.md §8).")
            tech = "executable Lean 4 model and spec (proofs pending/partial) + differential correspondence and spec oracle"
        checks.append({
            "property_id": pid,
            "quick_cmd": f"python3 check.py {pid} --tier quick",
            "thorough_cmd": f"python3 check.py {pid} --tier thorough",
            "evidence_file": f"evidence/{pid}.json",
            "replay_cmd_template": "python3 check.py --replay {path}",
            "engine": "lean4-model+correspondence",
            "level_claimed": {"category": cat, "text": text, "design_ref": "DESIGN.md " + ref},
            "level_note": (("Trusted IN ADDITION for this property only: the Lean compiler and the native code of the CardModel library "
                            "(70 `native_decide` table chunks, axioms OmahaD.tabR_*/tabF_*._native.native_decide.ax_*), used by omaha_fast_eq_spec "
                            "and its corollaries; the other C06 theorems use the three standard axioms only. " if pid == "C06" else "") +
                           "Trusted: Lean 4.33 kernel, axioms propext/Classical.choice/Quot.sound only; the Lean Spec/ definitions as the formal "
                           "reading of the statement; the correspondence is differential testing (its reach is reported in the evidence, "
                           "not asserted); CPython semantics listed in DESIGN.md §6; payout floats compared at 1e-9; randomness injected."),
            "technique": tech,
        })
    man = {
        "version": 1,
        "setup_cmd": "cd lean && lake build CardVerif cvdriver",
        "hooks": {"guard": "CARD_UTILS_VERIF",
                  "enable": "none needed: no instrumentation in /repo; randomness is injected from the harness by replacing the `random` module object inside card_utils modules for the duration of a call",
                  "baseline_off_cmd": "cd /repo && /venv/bin/python -m pytest -q -p no:cacheprovider --timeout=900",
                  "source_commits": [], "add_only": True},
        "engines": [{"name": "lean4-model+correspondence", "path": "lean/ + harness/ + check.py",
                     "serves_properties": claimed,
                     "kind_free_text": "Lean 4 executable model + specs + theorems + non-vacuity witnesses (lake build), source facts generated from the working tree and checked by Lean on every run, native driver cvdriver (JSON lines), Python differential harness with spec oracles, corpus and known-findings file"}],
        "checks": checks,
        "not_applicable": [{"property_id": p, "reason": "check not built yet in this revision (see DESIGN.md §7)"} for p in ALL if p not in claimed],
        "notes": "All commands run with cwd=/verif; the repository under test is $CARD_UTILS_REPO (default /repo), imported from its working tree. "
                 "Genuine defects repaired in /repo are logged in known_findings.json (status fixed, 'fix:' commits); open ones (F5, F6, F9) are matched by named deviation predicates and print KNOWN-FINDING.",
    }
    with open(os.path.join(HERE, "MANIFEST.json"), "w") as fh:
        json.dump(man, fh, indent=1)
    try:
        import jsonschema
        jsonschema.validate(man, json.load(open("/root/.vp/MANIFEST.schema.json")))
        print("MANIFEST.json valid;", len(checks), "checks;", [c["property_id"] + ":" + c["level_claimed"]["category"] for c in checks])
    except ImportError:
        print("MANIFEST.json written (jsonschema not available to validate)")


sys.path.insert(0, HERE)
os.environ.setdefault("PYTHONHASHSEED", "0")
from harness import registry
REGISTERED = set(registry.REGISTRY)

if __name__ == "__main__":
    main()
