import Driver.Codec
import CardModel.Model.GinGame
open Lean CardVerif CardVerif.Codec CardVerif.Gin

namespace CardVerif.Driver

/-- the deterministic stand-ins for `random.shuffle` shared with the Python harness -/
def shuffleRule (mode k : Nat) (l : List Card) : List Card :=
  match mode with
  | 0 => l
  | 1 => l.reverse
  | 2 => if l.isEmpty then l else l.rotateLeft (k % l.length)
  | _ => -- interleave the two halves
    let h := l.length / 2
    let a := l.take h; let b := l.drop h
    (List.range l.length).filterMap fun i => if i % 2 == 0 then b[i / 2]? else a[i / 2]?

def candJ (c : Candidate) : Json :=
  Json.mkObj [("dw", natJ c.deadwood), ("melds", listJ cardsJ c.melds), ("um", cardsJ c.unmelded)]

def optIntJ : Option Int → Json | none => Json.null | some i => intJ i

def viewJ : Except Err View → Json
  | .error e => Json.str ("!" ++ e.name)
  | .ok v => Json.mkObj [("hand", cardsJ v.hand), ("points", intJ v.points), ("top", optJ cardJ v.topOfDiscard),
      ("lfd", optJ Json.bool v.lastFromDiscard), ("deck_length", natJ v.deckLength),
      ("hud", listJ (fun (e : Card × ViewLoc) => Json.arr #[cardJ e.1, Json.str e.2.name]) v.hud),
      ("action", Json.str v.action.name), ("drawn", optJ cardJ v.drawnCard)]

def gstateJ (g : GState) : Json :=
  Json.mkObj [("deck", cardsJ g.deck), ("discard", cardsJ g.discard), ("p1", cardsJ g.p1), ("p2", cardsJ g.p2),
    ("turn", Json.str g.turn.name), ("complete", Json.bool g.complete), ("turns", natJ g.turns),
    ("shuffles", natJ g.shuffles), ("p1_points", optIntJ g.p1Points), ("p2_points", optIntJ g.p2Points),
    ("hud", listJ (fun (e : Card × Hud) => Json.arr #[cardJ e.1, Json.str e.2.name]) g.hud),
    ("last_draw", optJ cardJ g.lastDraw), ("lfd", optJ Json.bool g.lastFromDiscard),
    ("v1", if g.complete then Json.null else viewJ (g.view true)),
    ("v2", if g.complete then Json.null else viewJ (g.view false)),
    ("a1", Json.str (g.getAction true).name), ("a2", Json.str (g.getAction false).name),
    ("kc", listJ candJ g.knockCandidates)]

def Hud.ofString? : String → Option Hud
  | "1" => some .p1 | "2" => some .p2 | "t" => some .top | "d" => some .disc | _ => none

/-- one entry `[card, loc]` of a public card map, in the encoding `gstateJ` prints (`Hud.name`) -/
def asHudEntry (j : Json) : P (Card × Hud) := do
  match ← asArr j with
  | [c, l] => match Hud.ofString? (← asStr l) with
    | some l => pure (← asCard c, l)
    | none => throw "hud0: location"
  | _ => throw "hud0: expected [card, loc]"

/-- op "gin": play operations on a gin rummy / ricky game; the optional `hud0` is the constructor's `public_hud`
(absent / null: none given; an array of `[card, loc]` pairs, `[]` for the empty map) -/
def opGin (j : Json) : P Json := do
  let variant ← asStr (← fld j "variant")
  let maxTurns ← asOpt asNat (fldD j "max_turns" Json.null)
  let params := if variant == "rummy" then Params.rummy maxTurns else Params.ricky maxTurns
  let sh ← asList asNat (fldD j "shuffle" (Json.arr #[Json.num 0, Json.num 0]))
  let shuffle := shuffleRule (sh.getD 0 0) (sh.getD 1 0)
  let turn ← match Turn.ofString? (← asStr (← fld j "turn")) with | some t => pure t | none => throw "turn"
  -- `dict(pairs)`: a card listed twice keeps its first position and its last location
  let hud0 := (← asOpt (asList asHudEntry) (fldD j "hud0" Json.null)).map
    fun l => l.foldl (fun h e => hudSet h e.1 e.2) []
  let g0 := newGameWith params (← asCards (← fld j "deck")) (← asCards (← fld j "discard"))
              (← asCards (← fld j "p1")) (← asCards (← fld j "p2")) turn hud0
  match g0 with
  | .error e => pure (Json.mkObj [("ctor", errJ e), ("steps", Json.arr #[])])
  | .ok g0 =>
    let mut g := g0
    let mut out : Array Json := #[]
    for o in ← asArr (fldD j "ops" (Json.arr #[])) do
      let k ← asStr (← fld o "k")
      if k == "reorder" then
        -- the game is stored and restored with the hands written in another order (harness only; answers nothing):
        -- the lists must hold exactly the cards of the current hands
        let p1 ← asCards (← fld o "p1")
        let p2 ← asCards (← fld o "p2")
        if p1.length != g.p1.length || p2.length != g.p2.length || !(p1.all (· ∈ g.p1)) || !(p2.all (· ∈ g.p2))
            || !(g.p1.all (· ∈ p1)) || !(g.p2.all (· ∈ p2)) then
          continue      -- not the model's hands (the implementation has lost or gained cards): ignored, the difference shows in the next state
        g := { g with p1 := p1, p2 := p2 }
        continue
      let probe ← asBool (fldD o "probe" (Json.bool false))
      let r : Except Err GState ← match k with
        | "pass" => pure g.firstTurnPass
        | "draw" => do pure (g.drawCard (← asBool (← fld o "d")))
        | "discard" => do pure (g.discardCard shuffle (← asCard (← fld o "c")))
        | "knock" => do
            let melds ← asOpt (asList asCards) (fldD o "melds" Json.null)
            pure (g.decideKnock shuffle (← asBool (← fld o "knocks")) melds)
        | _ => throw s!"gin op {k}"
      match r with
      | .error e => out := out.push (Json.mkObj [("r", Json.str e.name)])
      | .ok g' =>
        out := out.push (Json.mkObj [("r", Json.str "ok"), ("s", gstateJ g')])
        if !probe then g := g'
    pure (Json.mkObj [("ctor", gstateJ g0), ("steps", Json.arr out)])

/-- op "melds": {hand, max_dw|null, stop} → candidates, best split, all melds -/
def opMelds (j : Json) : P Json := do
  let hand ← asCards (← fld j "hand")
  let maxDw ← asOpt asNat (fldD j "max_dw" Json.null)
  let stop ← asBool (fldD j "stop" (Json.bool true))
  let split := match splitMelds hand with | .ok c => candJ c | .error e => Json.str ("!" ++ e.name)
  pure (Json.mkObj [("cands", listJ candJ (getCandidateMelds hand maxDw stop)), ("split", split),
                    ("all", listJ cardsJ (allMelds hand))])

/-- op "layoff": {hand, opp, stop} → result -/
def opLayoff (j : Json) : P Json := do
  let hand ← asCards (← fld j "hand")
  let opp ← asList asCards (← fld j "opp")
  let stop ← asBool (fldD j "stop" (Json.bool true))
  match layoffDeadwood hand opp stop with
  | .error e => pure (errJ e)
  | .ok r => pure (Json.mkObj [("dw", natJ r.deadwood), ("melds", listJ cardsJ r.melds),
                               ("lo", cardsJ r.laidOff), ("um", cardsJ r.unmelded)])

/-- op "ricky": {hand} → points, sorted hand -/
def opRicky (j : Json) : P Json := do
  let hand ← asCards (← fld j "hand")
  match sortedHandPoints hand with
  | .error e => pure (errJ e)
  | .ok (h, p) => pure (Json.mkObj [("points", natJ p), ("sorted", cardsJ h)])

end CardVerif.Driver
