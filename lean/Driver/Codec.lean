import Lean.Data.Json
import CardModel.Model.Basic
/-! JSON helpers for the line protocol (driver only; not part of the verified model). -/
open Lean
namespace CardVerif.Codec

abbrev P := Except String

def fld (j : Json) (k : String) : P Json := j.getObjVal? k
def fldD (j : Json) (k : String) (d : Json) : Json := (j.getObjVal? k).toOption.getD d

def asInt (j : Json) : P Int := j.getInt?
def asNat (j : Json) : P Nat := j.getNat?
def asBool (j : Json) : P Bool := j.getBool?
def asStr (j : Json) : P String := j.getStr?
def asArr (j : Json) : P (List Json) := do let a ← j.getArr?; pure a.toList
def asList {α} (f : Json → P α) (j : Json) : P (List α) := do (← asArr j).mapM f
def asOpt {α} (f : Json → P α) (j : Json) : P (Option α) := if j.isNull then pure none else some <$> f j

/-- rationals travel as `[num, den]` -/
def asRat (j : Json) : P Rat := do
  match ← asArr j with
  | [n, d] => do let n ← asInt n; let d ← asNat d; if d = 0 then throw "den=0" else pure (mkRat n d)
  | _ => throw "rat: expected [num,den]"

def ratJ (q : Rat) : Json := Json.arr #[Json.num (JsonNumber.fromInt q.num), Json.num (JsonNumber.fromNat q.den)]
def intJ (i : Int) : Json := Json.num (JsonNumber.fromInt i)
def natJ (n : Nat) : Json := Json.num (JsonNumber.fromNat n)
def listJ {α} (f : α → Json) (l : List α) : Json := Json.arr (l.map f).toArray
def optJ {α} (f : α → Json) : Option α → Json | none => Json.null | some a => f a
def errJ (e : Err) : Json := Json.mkObj [("err", Json.str e.name)]

def rankOfChar : Char → Option Nat
  | 'T' => some 10 | 'J' => some 11 | 'Q' => some 12 | 'K' => some 13 | 'A' => some 14
  | c => if '2' ≤ c ∧ c ≤ '9' then some (c.toNat - '0'.toNat) else none
def suitOfChar : Char → Option Nat
  | 'c' => some 0 | 'd' => some 1 | 'h' => some 2 | 's' => some 3 | _ => none
def charOfRank (r : Nat) : Char :=
  match r with
  | 10 => 'T' | 11 => 'J' | 12 => 'Q' | 13 => 'K' | 14 => 'A' | 1 => 'A'
  | n => Char.ofNat (n + '0'.toNat)
def charOfSuit (s : Nat) : Char := match s with | 0 => 'c' | 1 => 'd' | 2 => 'h' | _ => 's'

def asCard (j : Json) : P Card := do
  let s ← asStr j
  match s.toList with
  | [r, u] => match rankOfChar r, suitOfChar u with
    | some r, some u => pure ⟨r, u⟩
    | _, _ => throw s!"bad card {s}"
  | _ => throw s!"bad card {s}"
def cardS (c : Card) : String := String.ofList [charOfRank c.rank, charOfSuit c.suit]
def cardJ (c : Card) : Json := Json.str (cardS c)
def cardsJ (l : List Card) : Json := listJ cardJ l
def asCards (j : Json) : P (List Card) := asList asCard j

end CardVerif.Codec
