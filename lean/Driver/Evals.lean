import Driver.Codec
import CardVerif.Model.Evaluators
import CardVerif.Spec.Poker5
open Lean CardVerif CardVerif.Codec

namespace CardVerif.Driver

def keyJ : Except Err (List Nat) → Json
  | .ok k => listJ natJ k
  | .error e => Json.str ("!" ++ e.name)

/-- op "rank5": {hands:[[5 cards]...]} → {model:[key|"!err"], spec:[key]} -/
def opRank5 (j : Json) : P Json := do
  let hands ← asList asCards (← fld j "hands")
  pure (Json.mkObj [("model", listJ (fun h => keyJ (Rank5.rank5 h)) hands),
                    ("spec", listJ (fun h => listJ natJ (Poker5.specKey h)) hands)])

end CardVerif.Driver
