import Driver.Codec
import CardModel.Model.Evaluators
import CardModel.Spec.Poker5
import CardModel.Spec.Strength
import CardModel.Model.Omaha
open Lean CardVerif CardVerif.Codec

namespace CardVerif.Driver

def keyJ : Except Err (List Nat) → Json
  | .ok k => listJ natJ k
  | .error e => Json.str ("!" ++ e.name)

/-- op "rank5": {hands:[[5 cards]...]} → {model:[key|"!err"], spec:[key]} -/
def opRank5 (j : Json) : P Json := do
  let hands ← asList asCards (← fld j "hands")
  pure (Json.mkObj [("model", listJ (fun h => keyJ (Rank5.rank5 h)) hands),
                    ("spec", listJ (fun h => listJ natJ (Poker5.specKey h)) hands)])

/-- op "omaha": {deals:[[board, hand]...]} → {fast, brute, spec} per deal -/
def opOmaha (j : Json) : P Json := do
  let deals ← asList (asList asCards) (← fld j "deals")
  let one (d : List (List Card)) : Json :=
    match d with
    | [b, h] => Json.mkObj [("fast", keyJ (Omaha.handStrengthFast b h)), ("brute", keyJ (Eval.omahaBrute b h)),
                            ("spec", listJ natJ (Strength.omahaSpec b h))]
    | _ => Json.null
  pure (Json.mkObj [("out", listJ one deals)])

/-- op "holdem": {deals:[[board, hand]...]} → {model, spec} per deal -/
def opHoldem (j : Json) : P Json := do
  let deals ← asList (asList asCards) (← fld j "deals")
  let one (d : List (List Card)) : Json :=
    match d with
    | [b, h] => Json.mkObj [("model", keyJ (Eval.holdemStrength b h)), ("spec", listJ natJ (Strength.holdemSpec b h))]
    | _ => Json.null
  pure (Json.mkObj [("out", listJ one deals)])

/-- op "tiers": {game, board, hands} → tiers | "!err" -/
def opTiers (j : Json) : P Json := do
  let board ← asCards (← fld j "board")
  let hands ← asList asCards (← fld j "hands")
  let f := if (← asStr (← fld j "game")) == "PLO" then Omaha.handStrengthFast else Eval.holdemStrength
  match Eval.bestHandsGeneric f board hands with
  | .ok t => pure (Json.mkObj [("tiers", listJ (listJ natJ) t)])
  | .error e => pure (errJ e)

/-- op "strength": {cases:[[board, hand4, hand2]...]} → per case {fast, brute, ospec, holdem, hspec} -/
def opStrength (j : Json) : P Json := do
  let cs ← asList (asList asCards) (← fld j "cases")
  let one (d : List (List Card)) : Json :=
    match d with
    | [b, h4, h2] => Json.mkObj [("fast", keyJ (Omaha.handStrengthFast b h4)), ("brute", keyJ (Eval.omahaBrute b h4)),
        ("ospec", listJ natJ (Strength.omahaSpec b h4)), ("holdem", keyJ (Eval.holdemStrength b h2)),
        ("hspec", listJ natJ (Strength.holdemSpec b h2))]
    | _ => Json.null
  pure (Json.mkObj [("out", listJ one cs)])

end CardVerif.Driver
