import Driver.Codec
import CardModel.Model.Betting
import CardModel.Model.Omaha
open Lean CardVerif CardVerif.Codec CardVerif.Betting

namespace CardVerif.Driver

def asGame (j : Json) : P Game := do
  match ← asStr j with
  | "NLHE" => pure .nlhe | "PLO" => pure .plo | g => throw s!"game {g}"

def rankFnOf : Game → RankFn
  | .nlhe => Eval.holdemBrute
  | .plo => Omaha.handStrengthFast

def asCfg (j : Json) : P Cfg := do
  let samp ← asList asNat (fldD j "samp" (Json.arr #[Json.num 0, Json.num 0]))
  pure {
    game := ← asGame (← fld j "game"), n := ← asNat (← fld j "n"),
    deck := ← asCards (← fld j "deck"), hands := ← asList asCards (← fld j "hands"),
    startingStacks := ← asList asInt (← fld j "stacks"), board := ← asCards (fldD j "board" (Json.arr #[])),
    ante := ← asInt (fldD j "ante" (Json.num 0)), blinds := ← asOpt (asList asInt) (fldD j "blinds" Json.null),
    runouts := ← asNat (fldD j "runouts" (Json.num 1)),
    rake := ⟨← asRat (fldD j "f" (Json.arr #[Json.num 0, Json.num 1])), ← asInt (fldD j "cap" (Json.num 0))⟩,
    sampler := ⟨samp.getD 0 0, samp.getD 1 0⟩ }

def asActOpt (j : Json) : P (Option ActType) := do
  if j.isNull then pure none else pure (ActType.ofString? (← asStr j))

/-- an op travels as `[player, "TYPE", amount|null]` -/
def asOp (j : Json) : P Op := do
  match ← asArr j with
  | [p, a, amt] => pure ⟨← asInt p, ← asActOpt a, ← asOpt asInt amt⟩
  | _ => throw "op: expected [player, type, amount]"

def asLogEntry (j : Json) : P LogEntry := do
  match ← asArr j with
  | [p, a, amt] => match ActType.ofString? (← asStr a) with
    | some t => pure ⟨← asInt p, t, ← asInt amt⟩
    | none => throw "log entry type"
  | _ => throw "log entry"

def asResume (j : Json) : P Resume := do
  pure { stacks := ← asList asInt (← fld j "stacks"), pot := ← asList asInt (← fld j "pot"),
         street := ← asNat (← fld j "street"), action := ← asNat (← fld j "action"),
         lastActions := ← asList asActOpt (← fld j "last"), log := ← asList asLogEntry (← fld j "log") }

def actJ : Option ActType → Json | none => Json.null | some a => Json.str a.name

def exceptJ {α} (f : α → Json) : Except Err α → Json
  | .ok a => f a | .error e => Json.str ("!" ++ e.name)

def stateJ (w : World) (s : State) : Json :=
  Json.mkObj [
    ("stacks", listJ intJ s.stacks), ("pot", listJ intJ s.pot), ("street", natJ s.street),
    ("action", optJ natJ s.action), ("board", cardsJ s.board), ("deck", cardsJ s.deck),
    ("last", listJ actJ s.lastActions), ("complete", Json.bool s.complete),
    ("pay", optJ (listJ ratJ) s.payouts), ("rake", optJ (listJ ratJ) s.rakePaid),
    ("log", listJ (fun (e : LogEntry) => Json.arr #[intJ e.player, Json.str e.act.name, intJ e.amount]) s.log),
    ("toCall", exceptJ intJ s.amountToCall), ("minBet", exceptJ intJ s.minBet), ("maxBet", exceptJ intJ s.maxBet),
    ("valid", exceptJ (listJ fun (a : ActType) => Json.str a.name) (s.validActions w)),
    ("closed", exceptJ Json.bool s.isActionClosed),
    ("pnl", listJ ratJ ((List.range s.n).map s.pnl))]

/-- op "poker": construct (or resume / replay) a hand and apply operations; report the state after each -/
def opPoker (j : Json) : P Json := do
  let w := World.std
  let cfg ← asCfg j
  let env : Env := ⟨w, Float53.rnd, rankFnOf cfg.game⟩
  let resume ← asOpt asResume (fldD j "resume" Json.null)
  let pre ← asOpt (asList asOp) (fldD j "pre" Json.null)
  let ops ← asArr (fldD j "ops" (Json.arr #[]))
  let s0 : Except Err State := match pre with
    | some pre => fromActionDicts env cfg pre
    | none => construct cfg resume
  match s0 with
  | .error e => pure (Json.mkObj [("ctor", errJ e), ("steps", Json.arr #[])])
  | .ok s0 =>
    let mut s := s0
    let mut dead := false       -- an operation failed *after* mutating (internal error): stop
    let mut out : Array Json := #[]
    for o in ops do
      if dead then
        out := out.push (Json.mkObj [("r", Json.str "dead")])
      else
      let kind := (fldD o "k" (Json.str "act"))
      if kind == Json.str "reset" then
        let log ← asList asOp (← fld o "log")
        match s.resetFromActionDicts env log with
        | .ok s' => s := s'; out := out.push (Json.mkObj [("r", Json.str "ok"), ("s", stateJ w s')])
        | .error e => dead := true; out := out.push (Json.mkObj [("r", Json.str e.name)])
      else
        let op ← asOp (← fld o "o")
        let probe ← asBool (fldD o "probe" (Json.bool false))
        match s.appendAction w op.player op.ty op.amount with
        | .error e => out := out.push (Json.mkObj [("r", Json.str e.name)])
        | .ok s1 =>
          match s1.advanceAction env with
          | .error e =>
            if !probe then dead := true
            out := out.push (Json.mkObj [("r", Json.str ("internal:" ++ e.name))])
          | .ok s2 =>
            out := out.push (Json.mkObj [("r", Json.str "ok"), ("s", stateJ w s2)])
            if !probe then s := s2
    pure (Json.mkObj [("ctor", stateJ w s0), ("steps", Json.arr out)])

end CardVerif.Driver
