import Driver.Codec
import CardModel.Model.Pot
import CardModel.Spec.SidePot
import Driver.Poker
import Driver.Evals
import Driver.Gin
import Driver.MiscOps
open Lean CardVerif CardVerif.Codec

namespace CardVerif.Driver

def flOf (j : Json) : P (Rat → Rat) := do
  match (fldD j "fl" (Json.str "f53")) with
  | Json.str "exact" => pure id
  | _ => pure Float53.rnd

/-- op "rake": {bal, f, cap, rake_pot} → {rake} -/
def opRake (j : Json) : P Json := do
  let bal ← asList asInt (← fld j "bal")
  let f ← asRat (← fld j "f")
  let cap ← asInt (← fld j "cap")
  let rp ← asBool (fldD j "rake_pot" (Json.bool true))
  let fl ← flOf j
  pure (Json.mkObj [("rake", listJ intJ (Pot.rakePerPlayer fl ⟨f, cap⟩ bal rp))])

/-- op "settle": {bal, tiers, f, cap, rake_pot} → {pay, rake} | {err} -/
def opSettle (j : Json) : P Json := do
  let bal ← asList asInt (← fld j "bal")
  let tiers ← asList (asList asNat) (← fld j "tiers")
  let f ← asRat (← fld j "f")
  let cap ← asInt (← fld j "cap")
  let rp ← asBool (fldD j "rake_pot" (Json.bool false))
  let fl ← flOf j
  -- optional: the implementation's own rake, to judge its payouts against the unit-layer spec
  let implRake ← asOpt (asList asInt) (fldD j "impl_rake" Json.null)
  let specOn : List (String × Json) := match implRake with
    | some r => [("spec_on_impl", listJ ratJ (SidePot.specPayout ((bal.zip r).map fun (b, x) => b - x) tiers))]
    | none => []
  match Pot.settleShowdown fl ⟨f, cap⟩ bal tiers rp with
  | .ok (pay, rake) => pure (Json.mkObj ([("pay", listJ ratJ pay), ("rake", listJ intJ rake)] ++ specOn))
  | .error e => pure (Json.mkObj ([("err", Json.str e.name), ("rake", listJ intJ (Pot.rakePerPlayer fl ⟨f, cap⟩ bal rp))] ++ specOn))

partial def handle (j : Json) : P Json := do
  match ← asStr (← fld j "op") with
  | "multi" => do let rs ← (← asArr (← fld j "reqs")).mapM handle; pure (Json.arr rs.toArray)
  | "rake" => opRake j
  | "settle" => opSettle j
  | "poker" => opPoker j
  | "rank5" => opRank5 j
  | "omaha" => opOmaha j
  | "holdem" => opHoldem j
  | "tiers" => opTiers j
  | "strength" => opStrength j
  | "hutch" => opHutch j
  | "canon" => opCanon j
  | "equity" => opEquity j
  | "deal" => opDeal j
  | "gindeal" => opGinDeal j
  | "gin" => opGin j
  | "melds" => opMelds j
  | "layoff" => opLayoff j
  | "ricky" => opRicky j
  | op => throw s!"unknown op {op}"

end CardVerif.Driver

partial def loop (h : IO.FS.Stream) (out : IO.FS.Stream) : IO Unit := do
  let line ← h.getLine
  if line.isEmpty then return ()
  let res := match Json.parse line with
    | .ok j => match CardVerif.Driver.handle j with
      | .ok r => r
      | .error e => Json.mkObj [("driver_error", Json.str e)]
    | .error e => Json.mkObj [("driver_error", Json.str e)]
  out.putStrLn res.compress
  loop h out

def main : IO Unit := do
  loop (← IO.getStdin) (← IO.getStdout)
