import Driver.Codec
import CardModel.Model.Misc
import CardModel.Model.Omaha
open Lean CardVerif CardVerif.Codec CardVerif.Misc

namespace CardVerif.Driver

/-- op "hutch": {hands:[[4 cards]..]} → {out:[int..]} -/
def opHutch (j : Json) : P Json := do
  let hands ← asList asCards (← fld j "hands")
  pure (Json.mkObj [("out", listJ (fun h => intJ (hiPointCount h)) hands)])

/-- op "canon": {hands:[[cards]..]} → {out:[{hand, map}]} -/
def opCanon (j : Json) : P Json := do
  let hands ← asList asCards (← fld j "hands")
  pure (Json.mkObj [("out", listJ (fun h =>
    let (c, m) := canonizeHand h
    Json.mkObj [("hand", cardsJ c),
                ("map", listJ (fun (e : Nat × Nat) => Json.arr #[Json.str (String.singleton (charOfSuit e.1)),
                                                                   Json.str (String.singleton (charOfSuit e.2))]) m)]) hands)])

/-- op "equity": {game, board, hands, samples} → {shares} -/
def opEquity (j : Json) : P Json := do
  let board ← asCards (← fld j "board")
  let hands ← asList asCards (← fld j "hands")
  let samples ← asList asCards (← fld j "samples")
  let f := if (← asStr (← fld j "game")) == "PLO" then Omaha.handStrengthFast else Eval.holdemStrength
  match simulateEquity (Eval.bestHandsGeneric f) board hands samples with
  | .ok sh => pure (Json.mkObj [("shares", listJ ratJ sh)])
  | .error e => pure (errJ e)

/-- op "deal": {d, nh, nc} → {rest, hands};  op "gindeal": {d, n} → {p1,p2,discard,deck} | err -/
def opDeal (j : Json) : P Json := do
  let d ← asCards (← fld j "d")
  let (rest, hands) := dealRandomHands d (← asNat (← fld j "nh")) (← asNat (← fld j "nc"))
  pure (Json.mkObj [("rest", cardsJ rest), ("hands", listJ cardsJ hands)])

def opGinDeal (j : Json) : P Json := do
  let d ← asCards (← fld j "d")
  match newGameDeal d (← asNat (← fld j "n")) with
  | .ok g => pure (Json.mkObj [("p1", cardsJ g.p1), ("p2", cardsJ g.p2), ("discard", cardsJ g.discard), ("deck", cardsJ g.deck)])
  | .error e => pure (errJ e)

end CardVerif.Driver
