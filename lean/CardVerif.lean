import CardVerif.Model.Basic
import CardVerif.Model.Float53
import CardVerif.Model.Pot
import CardVerif.Spec.SidePot
