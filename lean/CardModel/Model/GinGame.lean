import CardModel.Model.GinMelds
/-!
# The gin turn machine

Transcription of `gin/game_state.py: AbstractGinGameState` with the two concrete variants
`gin/rummy/game_state.py` and `gin/ricky/game_state.py` (`get_deadwood`, `advance_turn`, constants).
`random.shuffle` is the parameter `shuffle`; theorems quantify over every `shuffle` that permutes its input.
-/
namespace CardVerif.Gin

inductive Turn
  | p1DrawsFirst | p2DrawsFirst | p1DrawsFromDeck | p2DrawsFromDeck
  | p1Draws | p2Draws | p1Discards | p2Discards | p1MayKnock | p2MayKnock
deriving DecidableEq, Repr, Inhabited

def Turn.name : Turn → String
  | .p1DrawsFirst => "p1-draws-first" | .p2DrawsFirst => "p2-draws-first"
  | .p1DrawsFromDeck => "p1-draws-from-deck" | .p2DrawsFromDeck => "p2-draws-from-deck"
  | .p1Draws => "p1-draws" | .p2Draws => "p2-draws" | .p1Discards => "p1-discards" | .p2Discards => "p2-discards"
  | .p1MayKnock => "p1-may-knock" | .p2MayKnock => "p2-may-knock"

def Turn.ofString? : String → Option Turn
  | "p1-draws-first" => some .p1DrawsFirst | "p2-draws-first" => some .p2DrawsFirst
  | "p1-draws-from-deck" => some .p1DrawsFromDeck | "p2-draws-from-deck" => some .p2DrawsFromDeck
  | "p1-draws" => some .p1Draws | "p2-draws" => some .p2Draws | "p1-discards" => some .p1Discards
  | "p2-discards" => some .p2Discards | "p1-may-knock" => some .p1MayKnock | "p2-may-knock" => some .p2MayKnock
  | _ => none

/-- `RummyTurn.p1()` (note: the transient `P1_DRAWS_FROM_DECK` is not in the set) -/
def Turn.p1 : Turn → Bool
  | .p1Draws | .p1DrawsFirst | .p1Discards | .p1MayKnock => true
  | _ => false
def Turn.isFirstDraw : Turn → Bool | .p1DrawsFirst | .p2DrawsFirst => true | _ => false
def Turn.isDrawFromDeck : Turn → Bool | .p1DrawsFromDeck | .p2DrawsFromDeck => true | _ => false
def Turn.isDraw : Turn → Bool | .p1Draws | .p2Draws => true | _ => false
def Turn.isDiscard : Turn → Bool | .p1Discards | .p2Discards => true | _ => false
def Turn.isKnock : Turn → Bool | .p1MayKnock | .p2MayKnock => true | _ => false
/-- whose hand receives a drawn card (`_add_to_hand`) -/
def Turn.drawsP1 : Turn → Option Bool
  | .p1Draws | .p1DrawsFirst | .p1DrawsFromDeck => some true
  | .p2Draws | .p2DrawsFirst | .p2DrawsFromDeck => some false
  | _ => none

inductive Hud | p1 | p2 | top | disc
deriving DecidableEq, Repr, Inhabited
def Hud.name : Hud → String | .p1 => "1" | .p2 => "2" | .top => "t" | .disc => "d"

inductive Variant | rummy | ricky
deriving DecidableEq, Repr, Inhabited

structure Params where
  variant : Variant
  cardsDealt : Nat
  maxShuffles : Option Nat
  endCardsInDeck : Nat
  maxTurns : Option Nat
  underknockBonus : Int
  ginBonus : Int
deriving Repr, DecidableEq

def Params.rummy (maxTurns : Option Nat) : Params := ⟨.rummy, 10, some 1, 2, maxTurns, 20, 20⟩
def Params.ricky (maxTurns : Option Nat) : Params := ⟨.ricky, 7, none, 0, maxTurns, 0, 0⟩

structure GState where
  params : Params
  deck : List Card
  discard : List Card            -- top of the pile is the LAST element
  p1 : List Card
  p2 : List Card
  turn : Turn
  firstTurn : Turn
  lastDraw : Option Card
  lastFromDiscard : Option Bool
  hud : List (Card × Hud)        -- insertion-ordered dict
  complete : Bool
  turns : Nat
  shuffles : Nat
  p1Points : Option Int
  p2Points : Option Int
deriving Repr

inductive EndGame | knock | gin | wall
deriving DecidableEq, Repr

/-- dict assignment `hud[c] = v` (keeps the position of an existing key) -/
def hudSet (hud : List (Card × Hud)) (c : Card) (v : Hud) : List (Card × Hud) :=
  if hud.any (·.1 == c) then hud.map fun e => if e.1 == c then (c, v) else e else hud ++ [(c, v)]

/-- `get_deadwood(hand, melds, opp_melds)` of the variant -/
def getDeadwood (v : Variant) (hand : List Card) (melds : Option (List (List Card)))
    (oppMelds : Option (List (List Card))) : Except Err Int :=
  match v with
  | .ricky => do let p ← handPoints hand; pure (p : Int)
  | .rummy =>
    match oppMelds with
    | some om => do let r ← layoffDeadwood hand om true; pure (r.deadwood : Int)
    | none =>
      match melds with
      | some ms => pure ((splitMeldsWith hand ms).deadwood : Int)
      | none => do let c ← splitMelds hand; pure (c.deadwood : Int)

/-- `advance_turn` of the variant -/
def advanceTurn (v : Variant) (current : Turn) (fromDiscard : Bool) (firstTurn : Turn) (deadwood : Int) :
    Except Err Turn :=
  match current with
  | .p1DrawsFirst =>
    if fromDiscard then .ok .p1Discards
    else if firstTurn == .p2DrawsFirst then .ok .p2DrawsFromDeck else .ok .p2DrawsFirst
  | .p2DrawsFirst =>
    if fromDiscard then .ok .p2Discards
    else if firstTurn == .p1DrawsFirst then .ok .p1DrawsFromDeck else .ok .p1DrawsFirst
  | .p1DrawsFromDeck => .ok .p1Discards
  | .p2DrawsFromDeck => .ok .p2Discards
  | .p1Draws => .ok .p1Discards
  | .p2Draws => .ok .p2Discards
  | .p1Discards =>
    match v with
    | .rummy => if deadwood ≤ 10 then .ok .p1MayKnock else .ok .p2Draws
    | .ricky => .ok .p2Draws
  | .p2Discards =>
    match v with
    | .rummy => if deadwood ≤ 10 then .ok .p2MayKnock else .ok .p1Draws
    | .ricky => .ok .p1Draws
  | .p1MayKnock => match v with | .rummy => .ok .p2Draws | .ricky => .error .invalidTurn
  | .p2MayKnock => match v with | .rummy => .ok .p1Draws | .ricky => .error .invalidTurn

def GState.hitMaxShuffles (g : GState) : Bool :=
  match g.params.maxShuffles with | none => false | some m => g.shuffles ≥ m
def GState.hitMaxTurns (g : GState) : Bool :=
  match g.params.maxTurns with | none => false | some m => g.turns ≥ m

/-- `end_game` -/
def GState.endGame (g : GState) (how : EndGame) (p1dw p2dw : Int) : GState :=
  let p1 := g.turn.p1
  let (a, b) : Int × Int := match how with
    | .wall => (0, 0)
    | .knock =>
      if p1 && p2dw ≤ p1dw then (p1dw + g.params.underknockBonus, p2dw)
      else if !p1 && p1dw ≤ p2dw then (p1dw, p2dw + g.params.underknockBonus)
      else (p1dw, p2dw)
    | .gin => if p1 then (p1dw, p2dw + g.params.ginBonus) else (p1dw + g.params.ginBonus, p2dw)
  -- winner always gets 0 points
  let (a, b) := if a > b then (a - b, 0) else if b > a then (0, b - a) else (a, b)
  { g with complete := true, p1Points := some a, p2Points := some b }

/-- `draw_card(from_discard)` -/
def GState.drawCard (g : GState) (fromDiscard : Bool) : Except Err GState := do
  if !(g.turn.isDraw || g.turn.isFirstDraw || g.turn.isDrawFromDeck) then .error .notYourTurn else
  if g.turn == .p1Draws && g.p1.length != g.params.cardsDealt then .error .badHandSize else
  if g.turn == .p2Draws && g.p2.length != g.params.cardsDealt then .error .badHandSize else
  if g.turn.isFirstDraw && !fromDiscard then .error .notYourTurn else
  if fromDiscard && g.discard.isEmpty then .error .emptyPile else
  let toP1 ← match g.turn.drawsP1 with | some b => pure b | none => .error .notYourTurn
  let (card, g) ←
    if fromDiscard then
      match g.discard.getLast? with
      | none => .error .emptyPile
      | some c =>
        let g := if toP1 then { g with p1 := g.p1 ++ [c] } else { g with p2 := g.p2 ++ [c] }
        pure (c, { g with discard := g.discard.dropLast,
                          hud := hudSet g.hud c (if g.turn.p1 then .p1 else .p2) })
    else
      match g.deck with
      | [] => .error .emptyPile
      | c :: rest =>
        let g := if toP1 then { g with p1 := g.p1 ++ [c] } else { g with p2 := g.p2 ++ [c] }
        let g := { g with deck := rest }
        -- stock exhausted: both hands are deducible
        let g := if rest.isEmpty then
            { g with hud := (g.p1.map fun x => (x, Hud.p1)).foldl (fun h e => hudSet h e.1 e.2) []
                            |> fun h => (g.p2.map fun x => (x, Hud.p2)).foldl (fun h e => hudSet h e.1 e.2) h }
          else g
        pure (c, g)
  let t ← advanceTurn g.params.variant g.turn fromDiscard g.firstTurn 0
  pure { g with turn := t, lastDraw := some card, lastFromDiscard := some fromDiscard }

/-- `first_turn_pass` -/
def GState.firstTurnPass (g : GState) : Except Err GState := do
  if !g.turn.isFirstDraw then .error .notYourTurn else
  let t ← advanceTurn g.params.variant g.turn false g.firstTurn 10
  let g := { g with turns := g.turns + 1, turn := t }
  if t.isDrawFromDeck then g.drawCard false else pure g

/-- `_check_wall`: returns (game ended?, new state) -/
def GState.checkWall (shuffle : List Card → List Card) (g : GState) : Bool × GState :=
  if g.deck.length == g.params.endCardsInDeck then
    let g := { g with shuffles := g.shuffles + 1 }
    if g.hitMaxShuffles then (true, g.endGame .wall 0 0)
    else (false, { g with deck := shuffle (g.discard ++ g.deck), discard := [],
                          hud := g.hud.filter fun e => e.2 != .top && e.2 != .disc })
  else (false, g)

/-- `discard_card(card)` -/
def GState.discardCard (shuffle : List Card → List Card) (g : GState) (card : Card) : Except Err GState := do
  if !g.turn.isDiscard then .error .notYourTurn else
  let isP1 := g.turn == .p1Discards
  let hand := if isP1 then g.p1 else g.p2
  if hand.length != g.params.cardsDealt + 1 then .error .badHandSize else
  if !hand.contains card then .error .notInHand else
  let hand' := hand.filter (· != card)
  let g := if isP1 then { g with p1 := hand' } else { g with p2 := hand' }
  let dw ← getDeadwood g.params.variant hand' none none
  let g ← if dw == 0 then do
      let opp := if isP1 then g.p2 else g.p1
      let oppDw ← getDeadwood g.params.variant opp none none
      pure (g.endGame .gin (if isP1 then 0 else oppDw) (if isP1 then oppDw else 0))
    else pure g
  let t ← advanceTurn g.params.variant g.turn false g.firstTurn dw
  let g := { g with turn := t }
  let hud := match g.discard.getLast? with | some top => hudSet g.hud top .disc | none => g.hud
  let g := { g with hud := hudSet hud card .top, discard := g.discard ++ [card] }
  let g := if !g.turn.isKnock then (g.checkWall shuffle).2 else g
  let g := { g with turns := g.turns + 1 }
  if g.hitMaxTurns && !g.complete then pure (g.endGame .wall 0 0) else pure g

/-- `decide_knock(knocks, melds)` -/
def GState.decideKnock (shuffle : List Card → List Card) (g : GState) (knocks : Bool)
    (melds : Option (List (List Card))) : Except Err GState := do
  if !g.turn.isKnock then .error .notYourTurn else
  if !knocks then
    let (ended, g) := g.checkWall shuffle
    if ended then pure g else
    let t ← advanceTurn g.params.variant g.turn false g.firstTurn 10
    pure { g with turn := t }
  else
    let v := g.params.variant
    if g.turn == .p1MayKnock then
      let a ← getDeadwood v g.p1 melds none
      let b ← getDeadwood v g.p2 none melds
      pure (g.endGame .knock a b)
    else
      let b ← getDeadwood v g.p2 melds none
      let a ← getDeadwood v g.p1 none melds
      pure (g.endGame .knock a b)

/-- `get_knock_candidates` -/
def GState.knockCandidates (g : GState) : List Candidate :=
  if !g.turn.isKnock then [] else
  getCandidateMelds (if g.turn.p1 then g.p1 else g.p2) (some 10) true

/-! ## views -/

inductive Action | draw | discard | knock | complete | wait | nothing
deriving DecidableEq, Repr
def Action.name : Action → String
  | .draw => "draw" | .discard => "discard" | .knock => "knock" | .complete => "complete" | .wait => "wait"
  | .nothing => "none"

/-- `get_action(is_p1)` -/
def GState.getAction (g : GState) (isP1 : Bool) : Action :=
  if g.complete then .complete
  else if isP1 != g.turn.p1 then .wait
  else if g.turn.isDraw then .draw
  else if g.turn.isDiscard then .discard
  else if g.turn.isKnock then .knock
  else .nothing

inductive ViewLoc | user | opponent | top | disc
deriving DecidableEq, Repr
def ViewLoc.name : ViewLoc → String | .user => "u" | .opponent => "o" | .top => "t" | .disc => "d"

/-- `player_hud(is_player_1)` -/
def GState.playerHud (g : GState) (isP1 : Bool) : List (Card × ViewLoc) :=
  let tr : Hud → ViewLoc := fun
    | .p1 => if isP1 then .user else .opponent
    | .p2 => if isP1 then .opponent else .user
    | .top => .top
    | .disc => .disc
  let base : List (Card × ViewLoc) := g.hud.map fun e => (e.1, tr e.2)
  let hand := if isP1 then g.p1 else g.p2
  hand.foldl (fun h c => if h.any (·.1 == c) then h.map fun e => if e.1 == c then (c, ViewLoc.user) else e
                         else h ++ [(c, ViewLoc.user)]) base

structure View where
  hand : List Card
  points : Int
  topOfDiscard : Option Card
  lastFromDiscard : Option Bool
  deckLength : Nat
  hud : List (Card × ViewLoc)
  action : Action
  drawnCard : Option Card       -- only present when the viewer has to discard
deriving Repr

/-- `_incomplete_game_to_dict(is_player_1)` -/
def GState.view (g : GState) (isP1 : Bool) : Except Err View := do
  let own := if isP1 then g.p1 else g.p2
  let hand ← match g.params.variant with
    | .rummy => do let c ← splitMelds own; pure (c.melds.flatten ++ c.unmelded)
    | .ricky => sortHand own
  let pts ← getDeadwood g.params.variant hand none none
  let act := g.getAction isP1
  pure { hand := hand, points := pts, topOfDiscard := g.discard.getLast?, lastFromDiscard := g.lastFromDiscard,
         deckLength := g.deck.length, hud := g.playerHud isP1, action := act,
         drawnCard := if act == .discard then g.lastDraw else none }

/-- a fresh game as the variants' constructors build it -/
def newGame (params : Params) (deck discard p1 p2 : List Card) (turn : Turn) : Except Err GState :=
  match discard.getLast? with
  | none => .error .indexError      -- `self.discard[-1]` on an empty pile
  | some top =>
    .ok { params := params, deck := deck, discard := discard, p1 := p1, p2 := p2, turn := turn, firstTurn := turn,
          lastDraw := none, lastFromDiscard := none, hud := [(top, .top)], complete := false, turns := 0,
          shuffles := 0, p1Points := none, p2Points := none }

/-- the constructor with its optional `public_hud` argument: `None` is `newGame` (`{self.discard[-1]: TOP}`, an
`IndexError` on an empty pile); an explicit map – e.g. `{}` from a caller restoring a stored game – is taken as it
is (`self.discard[-1]` is then not evaluated, so an empty pile is accepted) -/
def newGameWith (params : Params) (deck discard p1 p2 : List Card) (turn : Turn)
    (hud0 : Option (List (Card × Hud))) : Except Err GState :=
  match hud0 with
  | none => newGame params deck discard p1 p2 turn
  | some h =>
    .ok { params := params, deck := deck, discard := discard, p1 := p1, p2 := p2, turn := turn, firstTurn := turn,
          lastDraw := none, lastFromDiscard := none, hud := h, complete := false, turns := 0,
          shuffles := 0, p1Points := none, p2Points := none }

/-- without a map the constructor is `newGame` -/
theorem newGame_eq_newGameWith (params : Params) (deck discard p1 p2 : List Card) (turn : Turn) :
    newGame params deck discard p1 p2 turn = newGameWith params deck discard p1 p2 turn none := rfl

/-- on a non-empty pile the constructor is `newGame` with `hud := hud0.getD [(top, .top)]` -/
theorem newGameWith_hud (params : Params) (deck discard p1 p2 : List Card) (turn : Turn)
    (hud0 : Option (List (Card × Hud))) (top : Card) (ht : discard.getLast? = some top) :
    newGameWith params deck discard p1 p2 turn hud0 =
      (newGame params deck discard p1 p2 turn).map fun g => { g with hud := hud0.getD [(top, .top)] } := by
  cases hud0 <;> simp [newGameWith, newGame, ht, Except.map]

end CardVerif.Gin
