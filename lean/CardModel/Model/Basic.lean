/-!
# Basic vocabulary shared by every model

Core Lean only (no Mathlib): these files are linked into the native driver `cvdriver`.

Conventions (DESIGN.md §3): chips are `Int`, payouts `Rat`; a Python `raise` is `Except.error`
with the guard that fired; partial built-ins (`max([])`, `l[0]`, `next()`) are errors, never defaulted.
-/
namespace CardVerif

/-- Which guard fired.  The correspondence compares accept/reject, and the class of the error only
where a property names it, so the enum is deliberately small. -/
inductive Err
  | badLength        -- a length guard (`len(hand) != 5`, one hand per seat, ...)
  | badConfig        -- constructor guard
  | emptyMax         -- `max([])` / `min([])`
  | stopIteration    -- `next()` on an exhausted generator
  | indexError       -- `l[i]` out of range
  | zeroDiv          -- division by zero
  | moneyLeft        -- "still money in the pot" in `Pot.settle_showdown`
  | handComplete     -- `append_action` after `is_complete`
  | wrongSeat        -- action from a seat that is not to act
  | invalidType      -- `Action.__init__`: unknown action type
  | invalidAction    -- action type not in `valid_actions`
  | badAmount        -- amount guard in `Action.__init__` / `build_action`
  | overStack        -- wager larger than the stack
  | belowMin         -- aggression below `min_bet`
  | aboveMax         -- aggression above `max_bet`
  | noAction         -- `action is None` where a seat is needed
  | notYourTurn      -- gin: move not allowed by the turn
  | badHandSize      -- gin: internal hand-size guard
  | notInHand        -- gin: discard of a card not held
  | emptyPile        -- gin: draw from an empty discard pile / empty stock
  | invalidTurn      -- gin: `advance_turn` on a turn it does not know
  | invalidMeld      -- gin: `_split_sets_runs` on something that is neither set nor run
  | unpack           -- tuple-unpacking of the wrong length
  | internal         -- "there is a bug. Fix me" style internal errors
  | fuel             -- model loop bound exhausted (proved unreachable)
deriving DecidableEq, Repr, Inhabited

def Err.name : Err → String
  | .badLength => "badLength" | .badConfig => "badConfig" | .emptyMax => "emptyMax"
  | .stopIteration => "stopIteration" | .indexError => "indexError" | .zeroDiv => "zeroDiv"
  | .moneyLeft => "moneyLeft" | .handComplete => "handComplete" | .wrongSeat => "wrongSeat"
  | .invalidType => "invalidType" | .invalidAction => "invalidAction" | .badAmount => "badAmount"
  | .overStack => "overStack" | .belowMin => "belowMin" | .aboveMax => "aboveMax"
  | .noAction => "noAction" | .notYourTurn => "notYourTurn" | .badHandSize => "badHandSize"
  | .notInHand => "notInHand" | .emptyPile => "emptyPile" | .invalidTurn => "invalidTurn"
  | .invalidMeld => "invalidMeld" | .unpack => "unpack" | .internal => "internal" | .fuel => "fuel"

deriving instance DecidableEq for Except

/-- A playing card: `rank ∈ 2..14` (ace = 14), `suit ∈ 0..3` = `c d h s`. -/
structure Card where
  rank : Nat
  suit : Nat
deriving DecidableEq, Repr, Inhabited

def Card.Valid (c : Card) : Prop := 2 ≤ c.rank ∧ c.rank ≤ 14 ∧ c.suit < 4
instance (c : Card) : Decidable c.Valid := by unfold Card.Valid; exact inferInstance

/-- `card_utils.deck.cards` : `[f"{r}{s}" for r in ranks for s in suits]` -/
def deckCards : List Card :=
  (List.range' 2 13).flatMap fun r => (List.range 4).map fun s => ⟨r, s⟩

/-! ## sums -/

def sumI (l : List Int) : Int := l.foldr (· + ·) 0
def sumN (l : List Nat) : Nat := l.foldr (· + ·) 0
def sumQ (l : List Rat) : Rat := l.foldr (· + ·) 0

@[simp] theorem sumI_nil : sumI [] = 0 := rfl
@[simp] theorem sumI_cons (x : Int) (l) : sumI (x :: l) = x + sumI l := rfl
@[simp] theorem sumN_nil : sumN [] = 0 := rfl
@[simp] theorem sumN_cons (x : Nat) (l) : sumN (x :: l) = x + sumN l := rfl
@[simp] theorem sumQ_nil : sumQ [] = 0 := rfl
@[simp] theorem sumQ_cons (x : Rat) (l) : sumQ (x :: l) = x + sumQ l := rfl

/-! ## stable insertion sort (Python's `sorted` is stable; structural, so the kernel can run it) -/

section SortSec
variable {α : Type} (le : α → α → Bool)

/-- insert `x` in front of the first element `y` with `le x y` -/
def insertBy (x : α) : List α → List α
  | [] => [x]
  | y :: ys => if le x y then x :: y :: ys else y :: insertBy x ys

/-- stable sort: `sorted(l, key=…)` with `le a b := key a ≤ key b` -/
def sortBy (l : List α) : List α := l.foldr (insertBy le) []
end SortSec

def sortI (l : List Int) : List Int := sortBy (fun a b => decide (a ≤ b)) l
def sortN (l : List Nat) : List Nat := sortBy (fun a b => decide (a ≤ b)) l
/-- `sorted(l, reverse=True)` on ints: stable w.r.t. equal keys, descending -/
def sortNDesc (l : List Nat) : List Nat := sortBy (fun a b => decide (b ≤ a)) l

/-- `sorted(set(l))` for naturals -/
def dedup {α : Type} [DecidableEq α] : List α → List α
  | [] => []
  | x :: xs => if x ∈ xs then dedup xs else x :: dedup xs

/-- first-occurrence de-duplication (order of first insertion, like a Python dict's keys) -/
def dedupFirst {α : Type} [DecidableEq α] (l : List α) : List α :=
  (l.foldl (fun acc x => if x ∈ acc then acc else acc ++ [x]) [])

/-! ## Python's partial built-ins -/

def maxI? : List Int → Option Int
  | [] => none
  | x :: xs => some (xs.foldl max x)

def maxN? : List Nat → Option Nat
  | [] => none
  | x :: xs => some (xs.foldl max x)

def minN? : List Nat → Option Nat
  | [] => none
  | x :: xs => some (xs.foldl min x)

def maxI (l : List Int) : Except Err Int :=
  match maxI? l with | some m => .ok m | none => .error .emptyMax

def maxN (l : List Nat) : Except Err Nat :=
  match maxN? l with | some m => .ok m | none => .error .emptyMax

/-- python: `inverse_cumulative_sum` -/
def invCumsum : List Int → List Int
  | [] => []
  | x :: xs => x :: go x xs
where go : Int → List Int → List Int
  | _, [] => []
  | prev, y :: ys => (y - prev) :: go y ys

/-- `l[i]` on ints with a default used only where an invariant guarantees the index -/
def getI (l : List Int) (i : Nat) : Int := match l[i]? with | some b => b | none => 0

/-- `itertools.combinations(l, k)` in itertools' order -/
def combinations {α : Type} : Nat → List α → List (List α)
  | 0, _ => [[]]
  | _ + 1, [] => []
  | k + 1, x :: xs => (combinations k xs).map (x :: ·) ++ combinations (k + 1) xs

/-- Python tuple / list comparison on naturals: lexicographic, a proper prefix is smaller -/
def lexLt : List Nat → List Nat → Bool
  | [], [] => false
  | [], _ :: _ => true
  | _ :: _, [] => false
  | a :: as, b :: bs => if a < b then true else if b < a then false else lexLt as bs

def lexLe (a b : List Nat) : Bool := !lexLt b a

/-- `max(iterable, key=f)`: first maximal element -/
def maxByKey {α : Type} (key : α → List Nat) : List α → Option α
  | [] => none
  | x :: xs => some (xs.foldl (fun best y => if lexLt (key best) (key y) then y else best) x)

end CardVerif
