import CardModel.Model.Evaluators
import CardModel.Model.Rank5
/-!
# Dealing helpers, Hutchinson point count, canonical hand form, all-in equity

* `deck/utils.py: random_deck`, `poker/util.py: deal_random_hands`, `gin/utils.py: new_game`
* `poker/community/omaha/hutchinson/__init__.py`
* `games/__init__.py: canonize_hand`
* `poker/community/utils.py: simulate_all_in_equity`
`random.shuffle` is the parameter `perm` (the shuffled deck itself), `random.sample` the list of sampled run-outs.
-/
namespace CardVerif.Misc
open CardVerif.Rank5 (withAceLow)

/-! ## dealing -/

/-- `random_deck()`: the shuffle's result `d` is a permutation of `deckCards` (hypothesis of the theorems) -/
def randomDeck (shuffle : List Card → List Card) : List Card := shuffle deckCards

/-- `deal_random_hands(n_hands, n_cards)` on the shuffled deck `d` → (remaining deck, hands) -/
def dealRandomHands (d : List Card) (nHands nCards : Nat) : List Card × List (List Card) :=
  (d.drop (nCards * nHands), (List.range nHands).map fun i => (d.drop (nCards * i)).take nCards)

structure GinDeal where
  p1 : List Card
  p2 : List Card
  discard : List Card
  deck : List Card
deriving Repr, DecidableEq

/-- `new_game(n_cards)` on the shuffled deck `d` -/
def newGameDeal (d : List Card) (n : Nat) : Except Err GinDeal :=
  if 2 * n + 1 ≥ deckCards.length then .error .badConfig
  else .ok { p1 := d.take n, p2 := (d.drop n).take n, discard := (d.drop (2 * n)).take 1, deck := d.drop (2 * n + 1) }

/-! ## Hutchinson -/

def flushValue (r : Nat) : Nat :=
  match r with | 14 => 8 | 13 => 6 | 12 => 5 | 11 => 4 | 10 => 3 | 9 => 3 | 8 => 2 | _ => 1
def pairValue (r : Nat) : Nat :=
  match r with | 14 => 18 | 13 => 16 | 12 => 14 | 11 => 13 | 10 => 12 | 9 => 10 | 8 => 8 | _ => 7
def straightValue (k : Nat) : Nat := match k with | 4 => 25 | 3 => 18 | 2 => 8 | _ => 0

def suitGroups (hand : List Card) : List (Nat × List Nat) :=
  (dedupFirst (hand.map (·.suit))).map fun s => (s, (hand.filter (·.suit == s)).map (·.rank))
def rankGroups (hand : List Card) : List (Nat × List Nat) :=
  (dedupFirst (hand.map (·.rank))).map fun r => (r, (hand.filter (·.rank == r)).map (·.suit))

/-- `flushes_contribution` -/
def flushesContribution (hand : List Card) : Nat :=
  sumN ((suitGroups hand).map fun g => if g.2.length ≥ 2 then (g.2.map flushValue).foldl max 0 else 0)

/-- `pairs_contribution` -/
def pairsContribution (hand : List Card) : Nat :=
  sumN ((rankGroups hand).map fun g => if g.2.length == 2 then pairValue g.1 else 0)

/-- `_straights_sub_contribution` (Python ints: the result can be computed in `Int`) -/
def subContribution (vs : List Nat) : Int :=
  match maxN? vs, minN? vs with
  | some mx, some mn =>
    let gaps : Int := (mx : Int) - mn - vs.length + 1
    if gaps ≤ 3 then
      (straightValue vs.length : Int) - 2 * gaps - (if vs.contains 14 || vs.contains 1 then 4 else 0)
    else 0
  | _, _ => 0

/-- `_straights_contribution(sorted_values, k)` → (count, start indices of contributing windows) -/
def straightsContributionK (vs : List Nat) (k : Nat) : Int × List Nat :=
  (List.range (vs.length + 1 - k)).foldl (fun (acc : Int × List Nat) ii =>
    let sc := subContribution ((vs.drop ii).take k)
    if sc != 0 then (acc.1 + sc, acc.2 ++ [ii]) else acc) (0, [])

/-- `straights_contribution` -/
def straightsContribution (hand : List Card) : Int :=
  let vs := sortN (withAceLow (dedup (hand.map (·.rank))))
  let (four, _) := straightsContributionK vs 4
  if four != 0 then four else
  let (three, idx) := straightsContributionK vs 3
  if three != 0 then
    match idx with
    | [] => three
    | i0 :: rest =>
      -- max(indices, key=sub contribution): first maximal window
      let best := rest.foldl (fun b i =>
        if subContribution ((vs.drop b).take 3) < subContribution ((vs.drop i).take 3) then i else b) i0
      let (i1, i2, i3) := (best, best + 1, best + 2)
      let low := if i1 > 0 then (straightsContributionK (vs.take i2) 2).1 else 0
      let high := if i3 < 4 then (straightsContributionK (vs.drop i3) 2).1 else 0
      three + low + high
  else (straightsContributionK vs 2).1

/-- `hi_point_count` -/
def hiPointCount (hand : List Card) : Int :=
  (flushesContribution hand : Int) + (pairsContribution hand : Int) + straightsContribution hand

/-! ## canonical form -/

/-- `canonize_hand(hand)` → (canonical hand, suit map as pairs old → new):
suits ordered by (−#cards, sorted ace-high values, suit), mapped to c, d, h, s in that order -/
def canonizeHand (hand : List Card) : List Card × List (Nat × Nat) :=
  let groups := suitGroups hand
  let keyed := groups.map fun g => (g.1, sortN g.2)
  let le := fun (a b : Nat × List Nat) =>
    decide (b.2.length < a.2.length) ||
    (a.2.length == b.2.length && (lexLt a.2 b.2 || (a.2 == b.2 && decide (a.1 ≤ b.1))))
  let ordered := sortBy le keyed
  let suitMap := (ordered.map (·.1)).zip (List.range 4)
  (ordered.zipIdx.flatMap fun (g, i) => g.2.map fun r => (⟨r, i⟩ : Card), suitMap)

/-! ## equity -/

/-- `simulate_all_in_equity` given the run-outs `samples` (one list of sampled cards per simulation) and the
tier function of the game -/
def simulateEquity (tiersOf : List Card → List (List Card) → Except Err (List (List Nat)))
    (board : List Card) (hands : List (List Card)) (samples : List (List Card)) : Except Err (List Rat) := do
  let n := samples.length
  let zero : List Rat := hands.map fun _ => 0
  samples.foldlM (fun (shares : List Rat) sample => do
    let tiers ← tiersOf (board ++ sample) hands
    match tiers with
    | [] => .error .indexError
    | t0 :: _ =>
      if t0.length = 0 then .error .zeroDiv else
      pure (t0.foldl (fun sh p => sh.modify p (· + 1 / (t0.length : Rat) / (n : Rat))) shares)) zero

end CardVerif.Misc
