import CardModel.Model.Basic
/-!
# `card_utils.games.poker.five_card_hand_rank`

`rank5 hand` returns the rank tuple as a `List Nat` (Python tuples compare lexicographically, `lexLt`).
-/
namespace CardVerif.Rank5

def count (v : Nat) (l : List Nat) : Nat := (l.filter (· == v)).length

/-- `ranks_to_sorted_values(aces_low=True, aces_high=True)` before sorting: an ace contributes 1 and 14 -/
def withAceLow (vs : List Nat) : List Nat := vs.flatMap fun v => if v == 14 then [1, 14] else [v]

/-- `_best_straight_from_sorted_distinct_values` on a list of length 5 -/
def straight5 (l : List Nat) : Nat :=
  match maxN? l, minN? l with
  | some mx, some mn => if mx - mn == 4 then mx else 0
  | _, _ => 0

/-- `_best_straight_from_sorted_distinct_values` -/
def bestStraight (sdv : List Nat) : Nat :=
  if sdv.length == 5 then straight5 sdv
  else if sdv.length == 6 then max (straight5 sdv.dropLast) (straight5 sdv.tail)
  else 0

/-- `_get_inverse_ah_value_counts(...)[c]`: the values occurring exactly `c` times, highest first -/
def withCount (vs : List Nat) (c : Nat) : List Nat :=
  sortNDesc (dedup (vs.filter fun v => count v vs == c))

/-- the body of `five_card_hand_rank` on ace-high values and the flush flag -/
def rank5v (vs : List Nat) (flush : Bool) : Except Err (List Nat) :=
  let sv := sortN (withAceLow vs)
  let sdv := sortN (dedup sv)
  let st := bestStraight sdv
  if flush && st != 0 then .ok [8, st] else
  let c4 := withCount vs 4; let c3 := withCount vs 3; let c2 := withCount vs 2; let c1 := withCount vs 1
  match c4, c1 with
  | q :: _, k :: _ => .ok [7, q, k]
  | _, _ =>
  match c3, c2 with
  | t :: _, p :: _ => .ok [6, t, p]
  | _, _ =>
  if flush then .ok (5 :: c1) else
  if st != 0 then .ok [4, st] else
  match c3 with
  | t :: _ =>
    match c1 with
    | [k1, k2] => if k1 ≤ k2 then .error .internal else .ok [3, t, k1, k2]
    | _ => .error .unpack
  | [] =>
  if c2.length == 2 && c1.length == 1 then .ok (2 :: (c2 ++ c1)) else
  if c2.length == 1 && c1.length == 3 then .ok (1 :: (c2 ++ c1)) else
  if c1.length != 5 then .error .internal else
  .ok (0 :: c1)

def isFlush (hand : List Card) : Bool := (dedup (hand.map (·.suit))).length == 1

/-- `five_card_hand_rank` -/
def rank5 (hand : List Card) : Except Err (List Nat) :=
  if hand.length != 5 then .error .badLength else rank5v (hand.map (·.rank)) (isFlush hand)

end CardVerif.Rank5
