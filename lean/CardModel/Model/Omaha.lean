import CardModel.Model.Evaluators
/-!
# The optimised Omaha evaluator

Transcription of `poker/community/omaha/utils.py: get_hand_strength_fast` and its helpers, function by function.
Python dicts (`count_items`, `board_values`) are association lists in first-insertion order; `max(set(...))` on an
empty set is the error `.emptyMax` (`_get_highest_except` raises there).
-/
namespace CardVerif.Omaha
open CardVerif.Rank5 (withAceLow)

abbrev Counts := List (Nat × Nat)          -- value → count, insertion-ordered

/-- `count_items` -/
def countItems (vs : List Nat) : Counts :=
  (dedupFirst vs).map fun v => (v, (vs.filter (· == v)).length)

/-- `LightDefaultDict(int).__getitem__`: 0 for a missing key -/
def look (d : Counts) (v : Nat) : Nat := match d.find? (·.1 == v) with | some e => e.2 | none => 0
def keys (d : Counts) : List Nat := d.map (·.1)

/-- `_get_highest_except(values, excluded)` = `max(set(values) - excluded)` -/
def highestExcept (values excluded : List Nat) : Except Err Nat :=
  maxN (values.filter fun v => !excluded.contains v)

/-- `tuple > tuple` -/
def gt (a b : List Nat) : Bool := lexLt b a

/-- `ranks_to_sorted_values(ranks, aces_high=True, aces_low=True, distinct=True)` -/
def distinctValuesAceBoth (ranks : List Nat) : List Nat := sortN (withAceLow (dedup ranks))

/-- `_get_value_triplets_to_search` -/
def tripletsToSearch (values : List Nat) : List (Nat × Nat × Nat) :=
  (combinations 3 values).filterMap fun t => match t with
    | [v1, v2, v3] => if v3 - v1 ≤ 4 then some (v1, v2, v3) else none
    | _ => none

/-- `_get_connecting_values(v1, v2, v3)`: the pairs of hole values completing a straight, with that straight's top.
(`max({v3, *connectors})` is the top of the window) -/
def connectingValues (v1 v2 v3 : Nat) : Except Err (List ((Nat × Nat) × Nat)) :=
  let worst := max 1 (v3 - 4)
  let best := min 10 v1
  (List.range' worst (best + 1 - worst)).mapM fun bottom =>
    let straight := List.range' bottom 5
    match straight.filter (fun x => !(x == v1 || x == v2 || x == v3)) with
    | [a, b] => .ok ((a, b), max v3 (max a b))
    | _ => .error .internal       -- "Omaha connectors must be length 2 only!"

/-- `get_possible_straights(ranks)`: connectors → highest straight they make -/
def possibleStraights (ranks : List Nat) : Except Err (List ((Nat × Nat) × Nat)) := do
  if ranks.length < 3 then return []
  let values := distinctValuesAceBoth ranks
  let all ← (tripletsToSearch values).mapM fun (v1, v2, v3) => connectingValues v1 v2 v3
  let flat := all.flatten
  let ks := dedupFirst (flat.map (·.1))
  return ks.map fun k => (k, ((flat.filter (·.1 == k)).map (·.2)).foldl max 0)

/-- `get_best_straight(possible_straights, hand)` on the hand's ranks -/
def bestStraight (ps : List ((Nat × Nat) × Nat)) (handRanks : List Nat) : Nat :=
  let hv := withAceLow handRanks
  ps.foldl (fun best e => if hv.contains e.1.1 && hv.contains e.1.2 && e.2 > best then e.2 else best) 0

/-- `_get_best_flush(hand_flush_values)` -/
def bestFlush (handFlushValues : List Nat) : Except Err (List Nat) := do
  let d := dedup handFlushValues
  if d.length ≥ 2 then
    let m ← maxN d
    let s ← highestExcept d [m]
    return [m, s]
  else return []

/-- `_get_best_quads` -/
def bestQuads (hv bv : Counts) : Except Err (List Nat) :=
  bv.foldlM (fun best (e : Nat × Nat) => do
    let (b, ct) := e
    if ct == 2 && look hv b == 2 then
      let k ← highestExcept (keys bv) [b]
      return if gt [b, k] best then [b, k] else best
    else if ct == 3 && look hv b == 1 then
      let k ← highestExcept (keys hv) [b]
      return if gt [b, k] best then [b, k] else best
    else return best) []

/-- `_get_best_full_house` -/
def bestFullHouse (hv bv : Counts) : Except Err (List Nat) := do
  let pairsOnBoard := (bv.filter fun e => e.2 ≥ 2).map (·.1)
  bv.foldlM (fun best (e : Nat × Nat) => do
    let (b, ct) := e
    if ct ≥ 3 then
      return hv.foldl (fun best (h : Nat × Nat) => if h.2 ≥ 2 && gt [b, h.1] best then [b, h.1] else best) best
    else if ct == 2 then
      let best := hv.foldl (fun best (h : Nat × Nat) =>
        if h.2 ≥ 2 && look bv h.1 == 1 && gt [h.1, b] best then [h.1, b] else best) best
      if look hv b == 1 then
        let others := (hv.filter fun h => h.1 != b && look bv h.1 ≥ 1).map (·.1)
        return others.foldl (fun best o => if gt [b, o] best then [b, o] else best) best
      else return best
    else if ct == 1 && !pairsOnBoard.isEmpty then
      if look hv b ≥ 2 then
        let mp ← maxN pairsOnBoard
        return if gt [b, mp] best then [b, mp] else best
      else return best
    else return best) []

/-- `_get_best_three_of_a_kind` -/
def bestThreeOfAKind (hv bv : Counts) : Except Err (List Nat) :=
  bv.foldlM (fun best (e : Nat × Nat) => do
    let (b, ct) := e
    if ct ≥ 3 then
      if ((keys hv).filter (· != b)).length ≥ 2 then
        let k1 ← highestExcept (keys hv) [b]
        let k2 ← highestExcept (keys hv) [b, k1]
        return if gt [b, k1, k2] best then [b, k1, k2] else best
      else return best
    else if ct == 2 then
      if look hv b == 1 then
        let union := keys bv ++ keys hv
        let k1 ← highestExcept union [b]
        let inB := (keys bv).contains k1
        let inH := (keys hv).contains k1
        let k2 ← if inB && !inH then highestExcept (keys hv) [b]
                 else if inH && !inB then highestExcept (keys bv) [b]
                 else highestExcept union [b, k1]
        return if gt [b, k1, k2] best then [b, k1, k2] else best
      else return best
    else if ct == 1 then
      if look hv b ≥ 2 && bv.length ≥ 3 then
        let k1 ← highestExcept (keys bv) [b]
        let k2 ← highestExcept (keys bv) [b, k1]
        return if gt [b, k1, k2] best then [b, k1, k2] else best
      else return best
    else return best) []

/-- `_get_best_two_pair` -/
def bestTwoPair (hv bv : Counts) : Except Err (List Nat) := do
  let pairsOnBoard := (bv.filter fun e => e.2 ≥ 2).map (·.1)
  let pairsInHand := (hv.filter fun e => e.2 ≥ 2).map (·.1)
  let mut best : List Nat := []
  if !pairsOnBoard.isEmpty && !pairsInHand.isEmpty then
    let top ← maxN (pairsOnBoard ++ pairsInHand)
    let second ← if pairsOnBoard.contains top then maxN pairsInHand else maxN pairsOnBoard
    let kicker ← highestExcept (keys bv) [top, second]
    best := [top, second, kicker]
  if !pairsOnBoard.isEmpty then
    let nonPairs := (keys bv).filter fun v => !pairsOnBoard.contains v
    let pairedWithHole := nonPairs.filter fun v => (keys hv).contains v
    if !pairedWithHole.isEmpty then
      let boardPair ← maxN pairsOnBoard
      let conn ← maxN pairedWithHole
      let kicker ← highestExcept (keys hv) [conn]
      let tp := if boardPair > conn then [boardPair, conn, kicker] else [conn, boardPair, kicker]
      if gt tp best then best := tp
  let common := (keys bv).filter fun v => (keys hv).contains v
  if common.length ≥ 2 then
    let first ← maxN common
    let second ← highestExcept common [first]
    let kicker ← highestExcept (keys bv) [first, second]
    if gt [first, second, kicker] best then best := [first, second, kicker]
  return best

/-- `_get_best_pair` -/
def bestPair (hv bv : Counts) : Except Err (List Nat) := do
  let pairsOnBoard := (bv.filter fun e => e.2 ≥ 2).map (·.1)
  let pairsInHand := (hv.filter fun e => e.2 ≥ 2).map (·.1)
  let mut best : List Nat := []
  if !pairsOnBoard.isEmpty then
    let bp ← maxN pairsOnBoard
    let bk ← highestExcept (keys bv) [bp]
    let hk1 ← highestExcept (keys hv) [bp, bk]
    let hk2 ← highestExcept (keys hv) [bp, bk, hk1]
    let p := bp :: sortNDesc [bk, hk1, hk2]
    if gt p best then best := p
  if !pairsInHand.isEmpty then
    let pp ← maxN pairsInHand
    let bk1 ← maxN (keys bv)
    let bk2 ← highestExcept (keys bv) [bk1]
    let bk3 ← highestExcept (keys bv) [bk1, bk2]
    let p := [pp, bk1, bk2, bk3]
    if gt p best then best := p
  let common := (keys bv).filter fun v => (keys hv).contains v
  if !common.isEmpty then
    let pv ← maxN common
    let hk ← highestExcept (keys hv) [pv]
    let bk1 ← highestExcept (keys bv) [pv]
    let bk2 ← highestExcept (keys bv) [pv, bk1]
    let p := pv :: sortNDesc [hk, bk1, bk2]
    if gt p best then best := p
  return best

/-- `_get_best_high_card` -/
def bestHighCard (hv bv : Counts) : List Nat :=
  sortNDesc ((sortNDesc (keys bv)).take 3 ++ (sortNDesc (keys hv)).take 2)

/-- suit → ranks of that suit, in first-insertion order (`suit_partition`) -/
def suitPartition (cards : List Card) : List (Nat × List Nat) :=
  (dedupFirst (cards.map (·.suit))).map fun s => (s, (cards.filter (·.suit == s)).map (·.rank))

/-- `get_hand_strength_fast(board, hand)` -/
def handStrengthFast (board hand : List Card) : Except Err (List Nat) := do
  if board.length != 5 then throw .badLength
  if hand.length != 4 then throw .badLength
  let bySuit := suitPartition board
  let flushSuit := bySuit.find? fun e => e.2.length ≥ 3
  -- straight flush
  match flushSuit with
  | some (fs, ranks) =>
    let ps ← possibleStraights ranks
    if !ps.isEmpty then
      let sf := bestStraight ps ((hand.filter (·.suit == fs)).map (·.rank))
      if sf != 0 then return [8, sf]
  | none => pure ()
  let bv : Counts := countItems (board.map (·.rank))
  let isPaired := bv.any fun e => e.2 > 1
  let hv : Counts := countItems (hand.map (·.rank))
  if isPaired then
    let q ← bestQuads hv bv
    if !q.isEmpty then return 7 :: q
    let fh ← bestFullHouse hv bv
    if !fh.isEmpty then return 6 :: fh
  match flushSuit with
  | some (fs, ranks) =>
    let bf ← bestFlush ((hand.filter (·.suit == fs)).map (·.rank))
    if !bf.isEmpty then
      return 5 :: sortNDesc ((sortNDesc ranks).take 3 ++ bf)
  | none => pure ()
  let ps ← possibleStraights (board.map (·.rank))
  if !ps.isEmpty then
    let st := bestStraight ps (hand.map (·.rank))
    if st != 0 then return [4, st]
  let t ← bestThreeOfAKind hv bv
  if !t.isEmpty then return 3 :: t
  let tp ← bestTwoPair hv bv
  if !tp.isEmpty then return 2 :: tp
  let p ← bestPair hv bv
  if !p.isEmpty then return 1 :: p
  return 0 :: bestHighCard hv bv

end CardVerif.Omaha
