import CardModel.Model.Basic
/-!
# IEEE-754 binary64 arithmetic as correctly rounded rationals

`rnd q` is `q` rounded to the nearest rational with a 53-bit significand, ties to even.  CPython's
`float * int`, `float - int`, `float / int` are one correctly rounded IEEE operation each (ints below
2^53 convert exactly), so `rnd (a * b)` etc. reproduce them.  Subnormals / overflow are ignored: chip
counts are far below 2^53 and above 2^-1022.
-/
namespace CardVerif.Float53

def pow2 (e : Int) : Rat := if e ≥ 0 then ((2 ^ e.toNat : Nat) : Rat) else 1 / ((2 ^ (-e).toNat : Nat) : Rat)

/-- `⌊log₂ q⌋` for `q > 0` -/
def ilog2 (q : Rat) : Int :=
  let e0 : Int := (Nat.log2 q.num.toNat : Int) - (Nat.log2 q.den : Int)
  if q < pow2 e0 then e0 - 1 else if pow2 (e0 + 1) ≤ q then e0 + 1 else e0

/-- round a non-negative rational to the nearest integer, ties to even -/
def roundHalfEven (m : Rat) : Int :=
  let fl := m.floor
  let frac := m - (fl : Rat)
  if frac < 1/2 then fl else if 1/2 < frac then fl + 1 else if fl % 2 = 0 then fl else fl + 1

def rndPos (q : Rat) : Rat :=
  let e := ilog2 q
  let ulp := pow2 (e - 52)
  (roundHalfEven (q / ulp) : Rat) * ulp

/-- round to nearest binary64, ties to even -/
def rnd (q : Rat) : Rat := if q = 0 then 0 else if 0 < q then rndPos q else - rndPos (-q)

end CardVerif.Float53
