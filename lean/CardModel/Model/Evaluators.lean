import CardModel.Model.Rank5
/-!
# Brute-force evaluators, showdown tiers

* `holdem/brute_force.py: brute_force_holdem_rank`, `holdem/utils.py: get_hand_strength_fast`
* `omaha/brute_force.py: brute_force_omaha_hi_rank`
* `poker/util.py: get_best_hands_generic`
-/
namespace CardVerif.Eval
open CardVerif.Rank5

/-- `max(combos, key=five_card_hand_rank)` then `five_card_hand_rank(best)`; an error in any key propagates
(Python evaluates every key) -/
def bestRank (combos : List (List Card)) : Except Err (List Nat) := do
  let keys ← combos.mapM rank5
  match keys with
  | [] => .error .emptyMax
  | k :: ks => .ok (ks.foldl (fun best y => if lexLt best y then y else best) k)

/-- `brute_force_holdem_rank(board, hand)` -/
def holdemBrute (board hand : List Card) : Except Err (List Nat) :=
  bestRank (combinations 5 (board ++ hand))

/-- holdem `get_hand_strength_fast`: validates sizes, then brute force -/
def holdemStrength (board hand : List Card) : Except Err (List Nat) :=
  if board.length != 5 then .error .badLength
  else if hand.length != 2 then .error .badLength
  else holdemBrute board hand

/-- `brute_force_omaha_hi_rank(board, hand)`: board triples outer loop, hole pairs inner loop -/
def omahaBrute (board hand : List Card) : Except Err (List Nat) :=
  bestRank ((combinations 3 board).flatMap fun b => (combinations 2 hand).map fun h => b ++ h)

/-- `get_best_hands_generic(f, board, hands)`: group indices by strength, strongest first -/
def bestHandsGeneric (f : List Card → List Card → Except Err (List Nat)) (board : List Card)
    (hands : List (List Card)) : Except Err (List (List Nat)) := do
  let strengths ← hands.mapM (f board)
  let idx := List.range strengths.length
  let keys := dedupFirst strengths
  let sorted := sortBy (fun a b => lexLe b a) keys       -- sorted(hand_strengths, reverse=True)
  .ok (sorted.map fun k => idx.filter fun i => strengths[i]? == some k)

end CardVerif.Eval
