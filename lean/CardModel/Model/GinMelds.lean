import CardModel.Model.Basic
/-!
# Gin meld search, lay-offs, ricky hand value

Transcription of `gin/utils.py` (`get_sets`, `rank_straights`, `sort_cards_by_rank`), `gin/rummy/utils.py`
(`get_candidate_melds`, `split_melds`, `layoff_deadwood` and helpers) and `gin/ricky/utils.py`
(`sorted_hand_points`).  Python `set`s of cards become lists; where Python's result depends on `str` hashing
(order of equal-rank cards, choice among equal-deadwood arrangements) the model fixes one order and no theorem
speaks about it.
-/
namespace CardVerif.Gin

/-- `deck.rank_to_value` (ace low): A = 1 … K = 13 -/
def lowValue (r : Nat) : Nat := if r == 14 then 1 else r
def Card.low (c : Card) : Nat := lowValue c.rank
/-- gin rummy pip value: `min(10, rank_to_value)` -/
def pip (c : Card) : Nat := min 10 (lowValue c.rank)
/-- `get_deadwood` -/
def deadwood (cards : List Card) : Nat := sumN (cards.map pip)
/-- `deck.value_to_rank`: 1 and 14 are the ace -/
def rankOfValue (v : Nat) : Nat := if v == 1 then 14 else v

/-- character code of the rank letter, for Python's `sorted` on rank / card strings -/
def rankChar (r : Nat) : Nat :=
  match r with
  | 10 => 84 | 11 => 74 | 12 => 81 | 13 => 75 | 14 => 65 | n => 48 + n
def suitChar (s : Nat) : Nat := match s with | 0 => 99 | 1 => 100 | 2 => 104 | _ => 115

/-- `sort_cards_by_rank` (stable, ace low) -/
def sortByRank (cards : List Card) : List Card := sortBy (fun a b => decide (Card.low a ≤ Card.low b)) cards
/-- `sorted(cards)` on card strings -/
def sortByString (cards : List Card) : List Card :=
  sortBy (fun a b => decide (rankChar a.rank < rankChar b.rank ∨
    (rankChar a.rank = rankChar b.rank ∧ suitChar a.suit ≤ suitChar b.suit))) cards

/-- `rank_partition`: rank → suits, keys in first-insertion order -/
def rankPartition (cards : List Card) : List (Nat × List Nat) :=
  (dedupFirst (cards.map (·.rank))).map fun r => (r, (cards.filter (·.rank == r)).map (·.suit))
/-- `suit_partition`: suit → ranks, keys in first-insertion order -/
def suitPartition (cards : List Card) : List (Nat × List Nat) :=
  (dedupFirst (cards.map (·.suit))).map fun s => (s, (cards.filter (·.suit == s)).map (·.rank))

/-- `get_sets` → (sets_3, sets_4) -/
def getSets (hand : List Card) : List (List Card) × List (List Card) :=
  let rp := rankPartition hand
  let s3 := rp.flatMap fun (r, suits) =>
    if suits.length == 4 then (combinations 3 suits).map fun sc => sc.map fun s => (⟨r, s⟩ : Card)
    else if suits.length == 3 then [suits.map fun s => (⟨r, s⟩ : Card)] else []
  let s4 := rp.flatMap fun (r, suits) =>
    if suits.length == 4 then [suits.map fun s => (⟨r, s⟩ : Card)] else []
  (s3, s4)

/-- `ranks_to_sorted_values(ranks, aces_high=True, aces_low=True)`: an ace counts as 1 and as 14 -/
def sortedValues (ranks : List Nat) : List Nat :=
  sortN (ranks.flatMap fun r => if r == 14 then [1, 14] else [r])

/-- straights ending at `value` when `inRow + 1` consecutive values end there: `(top value, length)` -/
def lengthsFor (minLen maxLen inRow value : Nat) : List (Nat × Nat) :=
  ((List.range' minLen (maxLen + 1 - minLen)).filter fun L => decide (L ≤ inRow + 1)).map fun L => (value, L)

/-- the `for ii, value in enumerate(values[1:])` loop of `rank_straights`, with its early exit -/
def rsLoop (minLen maxLen numValues : Nat) : Nat → Nat → Nat → List Nat → List (Nat × Nat)
  | _, _, _, [] => []
  | ii, inRow, last, v :: rest =>
    let inRow' := if last + 1 == v then inRow + 1 else 0
    let out := lengthsFor minLen maxLen inRow' v
    if numValues + inRow' < minLen + ii then out
    else out ++ rsLoop minLen maxLen numValues (ii + 1) inRow' v rest

/-- `rank_straights(ranks, min_len, max_len, True, True, suit)` as `(top value, length)` pairs -/
def rankStraightsV (ranks : List Nat) (minLen maxLen : Nat) : List (Nat × Nat) :=
  if ranks.length < minLen then [] else
  match sortedValues ranks with
  | [] => []
  | v0 :: rest => rsLoop minLen maxLen (rest.length + 1) 0 0 v0 rest

/-- the cards of a straight: values `top-len+1 .. top` in `suit` -/
def straightCards (suit : Nat) (tl : Nat × Nat) : List Card :=
  (List.range' (tl.1 + 1 - tl.2) tl.2).map fun v => (⟨rankOfValue v, suit⟩ : Card)

def rankStraights (ranks : List Nat) (minLen maxLen suit : Nat) : List (List Card) :=
  (rankStraightsV ranks minLen maxLen).map (straightCards suit)

/-- `_get_runs` (rummy): all runs of length ≥ 3 -/
def getRunsAll (hand : List Card) : List (List Card) :=
  (suitPartition hand).flatMap fun (s, ranks) => rankStraights ranks 3 13 s

/-- `all_melds = _get_sets(hand) + _get_runs(hand)` -/
def allMelds (hand : List Card) : List (List Card) :=
  let (s3, s4) := getSets hand
  s3 ++ s4 ++ getRunsAll hand

structure Candidate where
  deadwood : Nat
  melds : List (List Card)
  unmelded : List Card
deriving Repr, DecidableEq

/-- cards of `hand` not in any of `melds` -/
def removeMelded (hand : List Card) (melds : List (List Card)) : List Card :=
  hand.filter fun c => !(melds.any fun m => m.contains c)

def disjointMelds (melds : List (List Card)) : Bool :=
  (dedup melds.flatten).length == melds.flatten.length

/-- the combos loop of `get_candidate_melds`; returns `Sum.inl gin` on the early exit -/
def candLoop (hand : List Card) (maxDw : Option Nat) (stopOnGin : Bool) :
    List (List (List Card)) → List Candidate → Sum Candidate (List Candidate)
  | [], acc => .inr acc
  | melds :: rest, acc =>
    if disjointMelds melds then
      let um := sortByRank (removeMelded hand melds)
      let dw := deadwood um
      let ml := melds.map sortByRank
      if dw == 0 && stopOnGin then .inl ⟨0, ml, []⟩
      else if (match maxDw with | none => true | some d => dw ≤ d) then
        candLoop hand maxDw stopOnGin rest (acc ++ [⟨dw, ml, um⟩])
      else candLoop hand maxDw stopOnGin rest acc
    else candLoop hand maxDw stopOnGin rest acc

/-- `get_candidate_melds(hand, max_deadwood, stop_on_gin)` -/
def getCandidateMelds (hand : List Card) (maxDw : Option Nat) (stopOnGin : Bool) : List Candidate :=
  let am := allMelds hand
  let full := deadwood hand
  let c0 : List Candidate :=
    if (match maxDw with | none => true | some d => full ≤ d) then [⟨full, [], sortByRank hand⟩] else []
  let combos := (List.range' 1 (min 3 am.length)).flatMap fun k => combinations k am
  match candLoop hand maxDw stopOnGin combos c0 with
  | .inl gin => [gin]
  | .inr cs => cs

/-- first candidate of minimum deadwood (`min(candidates)` up to ties) -/
def minCandidate : List Candidate → Option Candidate
  | [] => none
  | c :: cs => some (cs.foldl (fun best x => if x.deadwood < best.deadwood then x else best) c)

/-- `split_melds(hand)` -/
def splitMelds (hand : List Card) : Except Err Candidate :=
  match minCandidate (getCandidateMelds hand none true) with
  | some c => .ok c
  | none => .error .emptyMax

/-- `split_melds(hand, melds)`: the knocker's chosen melds are taken as given -/
def splitMeldsWith (hand : List Card) (melds : List (List Card)) : Candidate :=
  let um := sortByRank (hand.filter fun c => !(melds.any fun m => m.contains c))
  ⟨deadwood um, melds, um⟩

/-! ## lay-offs -/

/-- `_split_sets_runs`: ranks of the knocker's 3-sets (sorted as rank strings) and, per suit in first-appearance
order, the `(low, high)` end values of each run (low in 1..13, high in 2..14) -/
def splitSetsRuns (melds : List (List Card)) : Except Err (List Nat × List (Nat × List (Nat × Nat))) := do
  let classified ← melds.mapM fun meld =>
    let sp := suitPartition meld
    let rp := rankPartition meld
    match sp with
    | [(suit, ranks)] =>
      -- a run: sort ranks ace-low; A…K present means the ace is high
      let sorted := sortBy (fun a b => decide (lowValue a ≤ lowValue b)) ranks
      match sorted.head?, sorted.getLast? with
      | some lo, some hi =>
        if lo == 14 && hi == 13 then
          -- ace-high run: the ace moves to the top
          match sorted.tail.head? with
          | some lo' => .ok (Sum.inr (suit, (lowValue lo', 14)))
          | none => .error .indexError
        else .ok (Sum.inr (suit, (lowValue lo, if hi == 14 then 14 else hi)))
      | _, _ => .error .indexError
    | _ =>
      match rp with
      | [(rank, suits)] => .ok (Sum.inl (rank, suits.length))
      | _ => .error .invalidMeld
  let sets := classified.filterMap fun c => match c with
    | .inl (r, k) => if k == 3 then some r else none
    | .inr _ => none
  let runs := classified.filterMap fun c => match c with | .inr x => some x | .inl _ => none
  let suits := dedupFirst (runs.map (·.1))
  .ok (sortBy (fun a b => decide (rankChar a ≤ rankChar b)) sets,
       suits.map fun s => (s, (runs.filter (·.1 == s)).map (·.2)))

/-- `_get_set_layoffs` -/
def getSetLayoffs (hand : List Card) (sets : List Nat) : List Card :=
  let rp := rankPartition hand
  sets.filterMap fun r => match rp.find? (·.1 == r) with
    | some (_, s :: _) => some ⟨r, s⟩
    | _ => none

/-- extend downwards from value `lowV`: ranks taken from `avail` -/
def extendLow : Nat → Nat → List Nat → List Nat × List Nat
  | 0, _, avail => ([], avail)
  | fuel + 1, lowV, avail =>
    if lowV ≤ 1 then ([], avail) else
    let r := rankOfValue (lowV - 1)
    if avail.contains r then
      let (more, avail') := extendLow fuel (lowV - 1) (avail.erase r)
      (r :: more, avail')
    else ([], avail)

def extendHigh : Nat → Nat → List Nat → List Nat × List Nat
  | 0, _, avail => ([], avail)
  | fuel + 1, highV, avail =>
    if highV ≥ 14 then ([], avail) else
    let r := rankOfValue (highV + 1)          -- 2..13 are themselves, 14 is the ace
    if avail.contains r then
      let (more, avail') := extendHigh fuel (highV + 1) (avail.erase r)
      (r :: more, avail')
    else ([], avail)

/-- `_get_suit_run_layoffs` -/
def suitRunLayoffs (suitRanks : List Nat) (runs : List (Nat × Nat)) : List (List Nat) :=
  if suitRanks.isEmpty then [] else
  (runs.foldl (fun (acc : List (List Nat) × List Nat) (run : Nat × Nat) =>
    let (chunks, avail) := acc
    let (lo, avail1) := extendLow 14 run.1 avail
    let chunks := if lo.isEmpty then chunks else chunks ++ [lo]
    let (hi, avail2) := extendHigh 14 run.2 avail1
    let chunks := if hi.isEmpty then chunks else chunks ++ [hi]
    (chunks, avail2)) ([], dedup suitRanks)).1

/-- `_get_run_layoffs` -/
def getRunLayoffs (hand : List Card) (runs : List (Nat × List (Nat × Nat))) : List (List Card) :=
  let sp := suitPartition hand
  runs.flatMap fun (suit, suitRuns) =>
    let ranks := match sp.find? (·.1 == suit) with | some (_, rs) => rs | none => []
    (suitRunLayoffs ranks suitRuns).map fun chunk => chunk.map fun r => (⟨r, suit⟩ : Card)

/-- `powerset` in itertools order: by size, then combinations order -/
def powerset {α : Type} (l : List α) : List (List α) :=
  (List.range (l.length + 1)).flatMap fun k => combinations k l

structure LayoffResult where
  deadwood : Nat
  melds : List (List Card)
  laidOff : List Card
  unmelded : List Card
deriving Repr, DecidableEq

/-- all (own arrangement, set lay-offs, run lay-off chunks) candidates in the implementation's order -/
def layoffCandidates (hand : List Card) (sets : List Nat) (runs : List (Nat × List (Nat × Nat))) :
    List LayoffResult :=
  (getCandidateMelds hand none true).flatMap fun cand =>
    let sls := getSetLayoffs cand.unmelded sets
    (powerset sls).flatMap fun loSets =>
      let um := cand.unmelded.filter fun c => !loSets.contains c
      let rls := getRunLayoffs (sortByString um) runs
      (powerset rls).map fun chunks =>
        let loRuns := chunks.flatten
        let rest := um.filter fun c => !loRuns.contains c
        ⟨deadwood (sortByString rest), cand.melds, loSets ++ loRuns, sortByRank rest⟩

/-- `layoff_deadwood(hand, opp_melds, stop_on_zero)` -/
def layoffDeadwood (hand : List Card) (oppMelds : List (List Card)) (stopOnZero : Bool) :
    Except Err LayoffResult := do
  let (sets, runs) ← splitSetsRuns oppMelds
  let cands := layoffCandidates hand sets runs
  match (if stopOnZero then cands.find? (·.deadwood == 0) else none) with
  | some z => .ok z
  | none =>
    match cands with
    | [] => .error .emptyMax
    | c :: cs => .ok (cs.foldl (fun best x => if x.deadwood < best.deadwood then x else best) c)

/-! ## gin ricky -/

/-- `sum_points_by_ranks`: ace 1 … king 13 -/
def rickyPoints (hand : List Card) : Nat := sumN (hand.map Card.low)

/-- ricky `get_runs` → (runs_3, runs_4) -/
def getRuns34 (hand : List Card) : List (List Card) × List (List Card) :=
  let sp := suitPartition hand
  (sp.flatMap fun (s, ranks) => rankStraights ranks 3 3 s, sp.flatMap fun (s, ranks) => rankStraights ranks 4 4 s)

/-- points of a hand, an 8-card hand being valued without its highest card -/
def rickyValue (n : Nat) (cards : List Card) : Except Err Nat :=
  if n == 8 then
    match maxN? (cards.map Card.low) with
    | some m => .ok (rickyPoints cards - m)
    | none => .error .emptyMax
  else .ok (rickyPoints cards)

/-- `sorted_hand_points(hand)` → (sorted hand, points) -/
def sortedHandPoints (hand : List Card) : Except Err (List Card × Nat) := do
  let (r3, r4) := getRuns34 hand
  let (s3, s4) := getSets hand
  let m3 := r3 ++ s3
  let m4 := r4 ++ s4
  let sorted := sortByRank hand
  let pts ← rickyValue hand.length hand
  if (m3 ++ m4).isEmpty then return (sorted, pts)
  let pairs := m3.flatMap fun a => m4.map fun b => (a, b)
  match pairs.find? (fun (a, b) => (dedup (a ++ b)).length == 7) with
  | some (a, b) => return (b ++ a ++ hand.filter (fun c => !(a ++ b).contains c), 0)
  | none =>
    (m3 ++ m4).foldlM (fun (acc : List Card × Nat) meld => do
      let without := hand.filter fun c => !meld.contains c
      let mp ← rickyValue hand.length without
      if mp < acc.2 then pure (meld ++ sortByRank without, mp) else pure acc) (sorted, pts)

/-- `hand_points` -/
def handPoints (hand : List Card) : Except Err Nat := do let (_, p) ← sortedHandPoints hand; pure p
/-- `sort_hand` -/
def sortHand (hand : List Card) : Except Err (List Card) := do let (h, _) ← sortedHandPoints hand; pure h

end CardVerif.Gin
