import CardModel.Model.Pot
import CardModel.Model.Evaluators
/-!
# The betting state machine

Transcription of `poker/action.py`, `poker/util.py: is_action_closed`, `poker/game_state.py: PokerGameState`,
`poker/community/game_state.py: CommunityGameState`, and the `max_bet` overrides of `NLHEGameState` /
`PLOGameState`.  One Python method = one Lean function of the same name; `self` mutation becomes a new `State`.

The hand evaluator is a parameter (`rankFn board hand`), so every theorem about betting, conservation and
termination holds whatever the evaluator is; the driver instantiates it with the Hold'em / Omaha models.
-/
namespace CardVerif.Betting

inductive ActType | check | bet | fold | call | raise | draw
deriving DecidableEq, Repr, Inhabited

def ActType.name : ActType → String
  | .check => "CHECK" | .bet => "BET" | .fold => "FOLD" | .call => "CALL" | .raise => "RAISE" | .draw => "DRAW"

def ActType.ofString? : String → Option ActType
  | "CHECK" => some .check | "BET" => some .bet | "FOLD" => some .fold | "CALL" => some .call
  | "RAISE" => some .raise | "DRAW" => some .draw | _ => none

/-- The class-level sets of `Action`: process-global, shared by every game object (C16).
The model only ever *reads* them. -/
structure World where
  actions : List ActType
  zeros : List ActType
  wagers : List ActType
  aggressions : List ActType
  zeroToCall : List ActType
  nonzeroToCall : List ActType
deriving DecidableEq, Repr

def World.std : World where
  actions := [.fold, .check, .draw, .call, .bet, .raise]
  zeros := [.fold, .check, .draw]
  wagers := [.call, .bet, .raise]
  aggressions := [.bet, .raise]
  zeroToCall := [.bet, .check]
  nonzeroToCall := [.fold, .call, .raise]

inductive Game | nlhe | plo
deriving DecidableEq, Repr, Inhabited

def Game.holeCards : Game → Nat | .nlhe => 2 | .plo => 4

/-- how the harness replaces `random.sample(deck, k)`: run-out `i` of a settlement takes the `k` cards at
positions `off + i*step + j (mod len)`; theorems quantify over every duplicate-free sample instead -/
structure Sampler where
  off : Nat
  step : Nat
deriving Repr, DecidableEq

def Sampler.sample (sm : Sampler) (deck : List Card) (k i : Nat) : Except Err (List Card) :=
  if k > deck.length then .error .badLength      -- ValueError: sample larger than population
  else (List.range k).mapM fun j =>
    match deck[(sm.off + i * sm.step + j) % deck.length]? with
    | some c => .ok c
    | none => .error .indexError

/-- constructor arguments -/
structure Cfg where
  game : Game
  n : Nat
  deck : List Card
  hands : List (List Card)
  startingStacks : List Int
  board : List Card                 -- `boards=[board]`; `[]` when not supplied
  ante : Int
  blinds : Option (List Int)        -- `None` → `[1, 2]`
  runouts : Nat                     -- all_in_runouts
  rake : Pot.RakeCfg
  sampler : Sampler
deriving Repr

structure LogEntry where
  player : Int
  act : ActType
  amount : Int
deriving DecidableEq, Repr

/-- the mutable attributes of a `CommunityGameState` -/
structure State where
  game : Game
  n : Nat
  hands : List (List Card)
  startingStacks : List Int
  ante : Int
  blinds : List Int                 -- after the heads-up flip
  runouts : Nat
  rake : Pot.RakeCfg
  sampler : Sampler
  deck : List Card
  board : List Card
  stacks : List Int
  pot : List Int
  lastActions : List (Option ActType)
  street : Nat
  action : Option Nat
  log : List LogEntry
  payouts : Option (List Rat)       -- `{}` until the hand is complete
  rakePaid : Option (List Rat)
  complete : Bool
deriving Repr

abbrev RankFn := List Card → List Card → Except Err (List Nat)

/-- everything a step reads besides the game's own state: the process-global `Action` sets, the float
rounding of the rake arithmetic, and the hand evaluator -/
structure Env where
  w : World
  fl : Rat → Rat
  rankFn : RankFn

def showdownStreet : Nat := 4

/-! ## `is_action_closed` -/

/-- `card_utils.games.poker.util.is_action_closed` -/
def isActionClosedFn (n : Nat) (lastActions : List (Option ActType)) (pot stacks : List Int) :
    Except Err Bool := do
  let seats := List.range n
  let la := fun p => (lastActions[p]?).join
  let allIn := fun p => getI stacks p == 0
  let folders := (seats.filter fun p => la p == some .fold).length
  let checkers := (seats.filter fun p => la p == some .check).length
  let allInLastStreet := (seats.filter fun p => la p == none && allIn p).length
  let notYetActed := (seats.filter fun p => la p == none && !allIn p).length
  let notAllIn := seats.filter fun p => la p != some .fold && !allIn p
  let mx ← maxI pot
  let bals := dedup ((notAllIn.map (getI pot)) ++ [mx])
  if bals.length > 1 then return false
  if folders + 1 == n then return true
  if folders + allInLastStreet + 1 == n then return true
  if folders + checkers + allInLastStreet == n then return true
  return notYetActed == 0

def State.isActionClosed (s : State) : Except Err Bool :=
  isActionClosedFn s.n s.lastActions s.pot s.stacks

/-! ## money -/

def State.isAllIn (s : State) (p : Nat) : Bool := getI s.stacks p == 0

/-- `put_money_in_pot` -/
def State.putMoneyInPot (s : State) (p : Nat) (amount : Int) : Except Err State :=
  if p ≥ s.n then .error .indexError else
  if amount > getI s.stacks p then .error .overStack else
  .ok { s with stacks := s.stacks.modify p (· - amount), pot := s.pot.modify p (· + amount) }

/-- `extract_antes` -/
def State.extractAntes (s : State) : Except Err State :=
  (List.range s.n).foldlM (fun s p => s.putMoneyInPot p (min (getI s.stacks p) s.ante)) s

/-- `extract_blinds` -/
def State.extractBlinds (s : State) : Except Err State :=
  (List.range s.blinds.length).foldlM
    (fun s p => s.putMoneyInPot p (min (getI s.stacks p) (getI s.blinds p))) s

def State.bigBlindPlayer (s : State) : Nat := if s.n == 2 then 0 else 1
def State.utgPreflop (s : State) : Nat := if s.n == 2 then 1 else 2

/-- `cannot_act` -/
def State.cannotAct (s : State) (p : Nat) : Bool :=
  s.isAllIn p || (s.lastActions[p]?).join == some .fold

/-- `get_starting_action` (community games) -/
def State.getStartingAction (s : State) : Except Err Nat :=
  if s.street == 0 then .ok s.utgPreflop
  else match (List.range s.n).find? (fun p => !s.cannotAct p) with
    | some p => .ok p
    | none => .error .stopIteration

/-! ## bet sizes -/

/-- `amount_to_call` -/
def State.amountToCall (s : State) : Except Err Int := do
  match s.action with
  | none => .error .noAction
  | some a =>
    let mx ← maxI s.pot
    .ok (min (getI s.stacks a) (mx - getI s.pot a))

def State.biggestBlind (s : State) : Int := (s.blinds.foldl max s.ante)

/-- `min_bet` -/
def State.minBet (s : State) : Except Err Int := do
  match s.action with
  | none => .error .noAction
  | some a =>
    let bb := s.biggestBlind
    let sorted := (sortI s.pot).reverse
    let toCall ← s.amountToCall
    let stack := getI s.stacks a
    if toCall == 0 then .ok (min bb stack) else
    match sorted with
    | t0 :: t1 :: _ => .ok (min (max (t0 - t1) bb + toCall) stack)
    | _ => .error .indexError

/-- `pot_sized_bet` -/
def State.potSizedBet (s : State) : Except Err Int := do
  let toCall ← s.amountToCall
  .ok (2 * toCall + sumI s.pot)

/-- `max_bet` (NLHE: the stack; PLO: capped by the pot-sized raise) -/
def State.maxBet (s : State) : Except Err Int := do
  match s.action with
  | none => .error .noAction
  | some a =>
    let stack := getI s.stacks a
    match s.game with
    | .nlhe => .ok stack
    | .plo => do let psb ← s.potSizedBet; .ok (min stack psb)

/-- `is_acting_last_preflop` -/
def State.isActingLastPreflop (s : State) : Bool :=
  s.street == 0 && s.action == some s.bigBlindPlayer && s.blinds.any (· != 0)

/-- `valid_actions` (a fresh set: the class-level sets of `World` are only read) -/
def State.validActions (w : World) (s : State) : Except Err (List ActType) := do
  let toCall ← s.amountToCall
  let base := if toCall == 0 then w.zeroToCall else w.nonzeroToCall
  .ok (if s.isActingLastPreflop && !base.contains .raise then base ++ [.raise] else base)

/-! ## `append_action` -/

/-- `build_action` + `Action.__init__`: fills in the amount and validates it against the action type.
`ty = none` stands for a string that is not an action type. -/
def State.buildAction (w : World) (s : State) (player : Int) (ty : Option ActType) (amount : Option Int) :
    Except Err LogEntry := do
  let amt ← match amount with
    | some a => pure a
    | none =>
      if ty == some .call then s.amountToCall
      else match ty with
        | some t => if w.zeros.contains t then pure 0 else .error .badAmount
        | none => .error .badAmount
  match ty with
  | none => .error .invalidType
  | some t =>
    if !w.actions.contains t then .error .invalidType else
    if amt < 0 then .error .badAmount else
    if w.zeros.contains t then
      if amt != 0 then .error .badAmount else .ok ⟨player, t, amt⟩
    else if w.wagers.contains t then
      if amt ≤ 0 then .error .badAmount else .ok ⟨player, t, amt⟩
    else .ok ⟨player, t, amt⟩

/-- `validate_action` -/
def State.validateAction (w : World) (s : State) (a : LogEntry) : Except Err Unit := do
  match s.action with
  | none => .error .wrongSeat
  | some seat =>
    if a.player != (seat : Int) then .error .wrongSeat else
    let valid ← s.validActions w
    if !valid.contains a.act then .error .invalidAction else
    if getI s.stacks seat < a.amount then .error .overStack else
    if a.act == .call then
      let toCall ← s.amountToCall
      if a.amount != toCall then .error .badAmount else pure ()
    if w.aggressions.contains a.act then
      let mn ← s.minBet
      if a.amount < mn then .error .belowMin else
      let mx ← s.maxBet
      if a.amount > mx then .error .aboveMax else pure ()
    pure ()

/-- `update_state_with_action` -/
def State.updateStateWithAction (w : World) (s : State) (a : LogEntry) : Except Err State := do
  let seat := a.player.toNat
  let s ← if w.wagers.contains a.act then s.putMoneyInPot seat a.amount else pure s
  .ok { s with lastActions := s.lastActions.set seat (some a.act) }

/-- `append_action` -/
def State.appendAction (w : World) (s : State) (player : Int) (ty : Option ActType) (amount : Option Int) :
    Except Err State := do
  if s.complete then .error .handComplete else
  let a ← s.buildAction w player ty amount
  s.validateAction w a
  let s := { s with log := s.log ++ [a] }
  s.updateStateWithAction w a

/-! ## `advance_action` -/

/-- `move_action`: next seat clockwise that can act (`fuel` bounds the Python `while`) -/
def State.moveAction (s : State) : Except Err State :=
  match s.action with
  | none => .error .noAction
  | some a =>
    let rec go (fuel : Nat) (p : Nat) : Except Err Nat :=
      match fuel with
      | 0 => .error .fuel
      | fuel + 1 => if s.cannotAct p then go fuel ((p + 1) % s.n) else .ok p
    do let p ← go (s.n + 1) ((a + 1) % s.n); .ok { s with action := some p }

/-- `deal_cards_to_board` -/
def State.dealCardsToBoard (s : State) (k : Nat) : State :=
  { s with deck := s.deck.drop k, board := s.board ++ s.deck.take k }

/-- `CommunityGameState.move_street` (including `PokerGameState.move_street`) -/
def State.moveStreet (s : State) : Except Err State := do
  let s := { s with street := s.street + 1,
                    lastActions := s.lastActions.map fun a => if a == some ActType.fold then a else none }
  if ← s.isActionClosed then
    .ok { s with action := none }
  else
    let a ← match s.getStartingAction with
      | .ok a => pure a
      | .error _ => .error .internal      -- "there is a bug. Fix me"
    let s := { s with action := some a }
    if s.street == 1 && (s.board.take 3).isEmpty then .ok (s.dealCardsToBoard 3)
    else if s.street == 2 && ((s.board.drop 3).take 1).isEmpty then .ok (s.dealCardsToBoard 1)
    else if s.street == 3 && ((s.board.drop 4).take 1).isEmpty then .ok (s.dealCardsToBoard 1)
    else .ok s

/-- `should_rake_pot`: no flop, no drop -/
def State.shouldRakePot (s : State) : Bool := !(s.board.take 3).isEmpty

def handStrength (g : Game) (rankFn : RankFn) : RankFn := fun board hand =>
  if board.length != 5 then .error .badLength
  else if hand.length != g.holeCards then .error .badLength
  else rankFn board hand

/-- `order_hands(players_at_showdown)` -/
def State.orderHands (rankFn : RankFn) (s : State) (players : List Nat) : Except Err (List (List Nat)) := do
  let hands ← players.mapM fun p => match s.hands[p]? with | some h => .ok h | none => .error .indexError
  let tiers ← Eval.bestHandsGeneric (handStrength s.game rankFn) s.board hands
  tiers.mapM fun t => t.mapM fun i => match players[i]? with | some p => .ok p | none => .error .indexError

def addQ (a b : List Rat) : List Rat := (a.zip b).map fun (x, y) => x + y

/-- `get_payouts_and_rake` -/
def State.getPayoutsAndRake (env : Env) (s : State) : Except Err (List Rat × List Rat) := do
  let atShowdown := (List.range s.n).filter fun p => (s.lastActions[p]?).join != some .fold
  if atShowdown.length < 2 then
    let (pay, rake) ← Pot.settleShowdown env.fl s.rake s.pot [atShowdown] s.shouldRakePot
    .ok (pay, rake.map fun (r : Int) => (r : Rat))
  else
    let cardsRemaining := 5 - s.board.length
    let numRunouts := if cardsRemaining != 0 && s.action.isNone then s.runouts else 1
    let zero : List Rat := (List.range s.n).map fun _ => 0
    (List.range numRunouts).foldlM (fun (acc : List Rat × List Rat) i => do
      let runout ← s.sampler.sample s.deck cardsRemaining i
      let s' := { s with board := s.board ++ runout }
      let winners ← s'.orderHands env.rankFn atShowdown
      let (pay, rake) ← Pot.settleShowdown env.fl s.rake s.pot winners s'.shouldRakePot
      pure (addQ acc.1 (pay.map (· / (numRunouts : Rat))),
            addQ acc.2 (rake.map fun (r : Int) => (r : Rat) / (numRunouts : Rat)))) (zero, zero)

/-- `advance_action` -/
def State.advanceAction (env : Env) (s : State) : Except Err State := do
  let closed ← s.isActionClosed
  let s ← if !closed then s.moveAction else
    let rec streets (fuel : Nat) (s : State) : Except Err State :=
      match fuel with
      | 0 => .error .fuel
      | fuel + 1 => do
        if s.street < showdownStreet then
          let s ← s.moveStreet
          if ← s.isActionClosed then streets fuel s else .ok s
        else .ok s
    streets 6 s
  if s.street ≥ showdownStreet then
    let (pay, rake) ← s.getPayoutsAndRake env
    .ok { s with payouts := some pay, rakePaid := some rake, complete := true }
  else .ok s

/-- `act(player, action, amount)` -/
def State.act (env : Env) (s : State) (player : Int) (ty : Option ActType)
    (amount : Option Int) : Except Err State := do
  let s ← s.appendAction env.w player ty amount
  s.advanceAction env

/-! ## construction, replay, resume -/

/-- fields handed to the constructor when a hand is resumed from a snapshot -/
structure Resume where
  stacks : List Int
  pot : List Int
  street : Nat
  action : Nat
  lastActions : List (Option ActType)
  log : List LogEntry
deriving Repr

/-- `CommunityGameState.__init__` / `PokerGameState.__init__` -/
def construct (cfg : Cfg) (resume : Option Resume := none) : Except Err State := do
  -- CommunityGameState.__init__
  if cfg.hands.any (fun h => h.length != cfg.game.holeCards) then .error .badLength else
  let blinds0 := match cfg.blinds with | some b => b | none => [1, 2]
  let blinds ← if cfg.n == 2 then
      match blinds0 with
      | b0 :: b1 :: rest => pure (if b0 < b1 then [b1, b0] else b0 :: b1 :: rest)
      | _ => .error .indexError
    else pure blinds0
  -- PokerGameState.__init__
  if cfg.n < 2 then .error .badConfig else
  if cfg.hands.length != cfg.n then .error .badConfig else
  if cfg.startingStacks.length != cfg.n then .error .badConfig else
  if cfg.ante == 0 && !(blinds.any (· != 0)) then .error .badConfig else
  let base : State := {
    game := cfg.game, n := cfg.n, hands := cfg.hands, startingStacks := cfg.startingStacks, ante := cfg.ante,
    blinds := blinds, runouts := cfg.runouts, rake := cfg.rake, sampler := cfg.sampler,
    deck := cfg.deck, board := cfg.board,
    stacks := cfg.startingStacks, pot := cfg.startingStacks.map fun _ => 0,
    lastActions := cfg.startingStacks.map fun _ => none, street := 0, action := none, log := [],
    payouts := none, rakePaid := none, complete := false }
  match resume with
  | some r =>
    .ok { base with stacks := r.stacks, pot := r.pot, street := r.street, action := some r.action,
                    lastActions := r.lastActions, log := r.log }
  | none =>
    let s ← base.extractAntes
    let s ← s.extractBlinds
    let a ← s.getStartingAction
    .ok { s with action := some a }

/-- one operation of the log -/
structure Op where
  player : Int
  ty : Option ActType
  amount : Option Int
deriving Repr

/-- `reset_state_from_action_dicts` -/
def State.resetFromActionDicts (env : Env) (s : State) (ops : List Op) : Except Err State := do
  let s := { s with stacks := s.startingStacks, pot := s.startingStacks.map fun _ => 0,
                    lastActions := s.startingStacks.map fun _ => none, payouts := none, rakePaid := none,
                    log := [], complete := false, street := 0 }
  let s ← s.extractAntes
  let s ← s.extractBlinds
  let a ← s.getStartingAction
  let s := { s with action := some a }
  ops.foldlM (fun s o => s.act env o.player o.ty o.amount) s

/-- `from_action_dicts` -/
def fromActionDicts (env : Env) (cfg : Cfg) (ops : List Op) : Except Err State := do
  let s ← construct cfg
  s.resetFromActionDicts env ops

/-- `player_pnl` -/
def State.pnl (s : State) (p : Nat) : Rat :=
  (match s.payouts with | some pay => (pay[p]?).getD 0 | none => 0) + ((getI s.stacks p - getI s.startingStacks p : Int) : Rat)

end CardVerif.Betting
