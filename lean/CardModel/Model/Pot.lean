import CardModel.Model.Float53
/-!
# `card_utils.games.poker.pot.Pot`

`fl` is the rounding applied after every float operation (`Float53.rnd` for CPython; `id` gives
exact arithmetic).  Balances are a list indexed by seat.
-/
namespace CardVerif.Pot

/-- Python `int(x)` on a float: truncation toward zero -/
def pyInt (q : Rat) : Int := if 0 ≤ q then q.floor else q.ceil

structure RakeCfg where
  f : Rat      -- rake_fraction (exact value of the double)
  cap : Int    -- max_rake
deriving Repr

/-- `Pot.get_max_total_rake`: `min(self.max_rake, self.rake_fraction * self.total_money)` -/
def maxTotalRake (fl : Rat → Rat) (cfg : RakeCfg) (bal : List Int) : Rat :=
  let x := fl (cfg.f * ((sumI bal : Int) : Rat))
  if x < (cfg.cap : Rat) then x else (cfg.cap : Rat)

/-- `sorted(set(self.balances.values()))` -/
def levels (bal : List Int) : List Int := sortI (dedup bal)

/-- the body of the `for level, diff in zip(balance_levels, balance_diffs)` loop -/
def rakeLoop (fl : Rat → Rat) (cfg : RakeCfg) (bal : List Int) (mtr : Rat) :
    List (Int × Int) → List Int → List Int
  | [], rake => rake
  | (level, diff) :: rest, rake =>
    let atLevel : List Bool := bal.map fun b => decide (level ≤ b)
    let left := fl (mtr - ((sumI rake : Int) : Rat))
    if left = 0 then rake else
    let k : Nat := (atLevel.filter id).length
    let maxAtLevel := pyInt (fl (left / (k : Rat)))
    let fracAtLevel := pyInt (fl (((diff : Int) : Rat) * cfg.f))
    let r := min maxAtLevel fracAtLevel
    rakeLoop fl cfg bal mtr rest ((rake.zip atLevel).map fun (x, at_) => if at_ then x + r else x)

/-- `Pot.get_rake_per_player` -/
def rakePerPlayer (fl : Rat → Rat) (cfg : RakeCfg) (bal : List Int) (rakePot : Bool) : List Int :=
  let zero := bal.map fun _ => (0 : Int)
  if !rakePot then zero else
  let lv := levels bal
  rakeLoop fl cfg bal (maxTotalRake fl cfg bal) (lv.zip (invCumsum lv)) zero

structure St where
  bal : List Int
  pay : List Rat
deriving Repr

/-- one `inc_amt` iteration of the inner loop of `settle_showdown` -/
def stepInc (tier : List Nat) (st : St) (inc : Int) : Except Err St :=
  let chop := tier.filter fun w => decide (inc ≤ getI st.bal w)
  if st.bal.length = 0 then .ok st else      -- `sum` over no balances never divides
  if chop.length = 0 then .error .zeroDiv else
  let k : Rat := (chop.length : Nat)
  let mpw : Rat := sumQ (st.bal.map fun b => ((min b inc : Int) : Rat) / k)
  .ok { bal := st.bal.map fun b => max 0 (b - inc),
        pay := chop.foldl (fun pay w => pay.modify w (· + mpw)) st.pay }

def stepIncs (tier : List Nat) : St → List Int → Except Err St
  | st, [] => .ok st
  | st, inc :: incs => do let st' ← stepInc tier st inc; stepIncs tier st' incs

/-- the `for winner_tier in winning_players` loop -/
def settleTiers : St → List (List Nat) → Except Err St
  | _, [] => .error .moneyLeft
  | st, tier :: tiers => do
      let incs := invCumsum (sortI (tier.map (getI st.bal)))
      let st' ← stepIncs tier st incs
      if sumI st'.bal = 0 then .ok st' else settleTiers st' tiers

/-- unraked settlement of contributions `bal` under the ranking `tiers` -/
def settle (bal : List Int) (tiers : List (List Nat)) : Except Err (List Rat) := do
  if !(tiers.all fun t => t.all fun w => decide (w < bal.length)) then .error .indexError else
  let st ← settleTiers { bal := bal, pay := bal.map fun _ => 0 } tiers
  .ok st.pay

/-- `Pot.settle_showdown(winning_players, rake_pot)` → (payouts, rake_per_player) -/
def settleShowdown (fl : Rat → Rat) (cfg : RakeCfg) (bal : List Int) (tiers : List (List Nat))
    (rakePot : Bool) : Except Err (List Rat × List Int) := do
  let rake := rakePerPlayer fl cfg bal rakePot
  let bal' := (bal.zip rake).map fun (b, r) => b - r
  let pay ← settle bal' tiers
  .ok (pay, rake)

end CardVerif.Pot
