import CardModel.Model.GinMelds
/-!
# Gin melds, arrangements, lay-offs, ricky value – the rules (C08, C12, C19)
-/
namespace CardVerif.Gin

/-- the cards of the run of `len` consecutive values starting at `lo` in `suit` (value 1 and 14 are the ace) -/
def runCards (suit lo len : Nat) : List Card := (List.range' lo len).map fun v => (⟨rankOfValue v, suit⟩ : Card)

/-- three or four cards of one rank -/
def IsSet (m : List Card) : Prop := m.Nodup ∧ (m.length = 3 ∨ m.length = 4) ∧ ∃ r, ∀ c ∈ m, c.rank = r

/-- three or more consecutive cards of one suit, ace low (value 1) or high (value 14), never wrapping:
at most 13 cards, values within 1..14 -/
def IsRun (m : List Card) : Prop :=
  ∃ suit lo len, 3 ≤ len ∧ len ≤ 13 ∧ 1 ≤ lo ∧ lo + len ≤ 15 ∧ m.Perm (runCards suit lo len)

def LegalMeld (m : List Card) : Prop := IsSet m ∨ IsRun m

/-- pairwise-disjoint legal melds drawn from the hand -/
structure Arrangement (hand : List Card) (ms : List (List Card)) : Prop where
  legal : ∀ m ∈ ms, LegalMeld m
  sub : ∀ m ∈ ms, ∀ c ∈ m, c ∈ hand
  disjoint : ms.flatten.Nodup

/-- the cards of `hand` outside the melds -/
def restOf (hand : List Card) (ms : List (List Card)) : List Card := hand.filter fun c => !ms.flatten.contains c

/-- a standard hand: distinct valid cards -/
def HandOK (hand : List Card) : Prop := hand.Nodup ∧ ∀ c ∈ hand, c.Valid

/-- what the meld enumeration must deliver: exactly the legal melds inside the hand, each once (up to order) -/
structure AllMeldsExact (hand : List Card) : Prop where
  sound : ∀ m ∈ allMelds hand, LegalMeld m ∧ ∀ c ∈ m, c ∈ hand
  complete : ∀ m, LegalMeld m → (∀ c ∈ m, c ∈ hand) → ∃ m' ∈ allMelds hand, m'.Perm m
  once : (allMelds hand).Pairwise fun a b => ¬ a.Perm b

/-! ## ricky -/

/-- ricky melds: sets or runs of exactly `k` cards -/
def RickyMeld (k : Nat) (m : List Card) : Prop := m.length = k ∧ LegalMeld m

/-- pip total, ace 1 … king 13; an eight-card hand is valued without its highest card -/
def rickyVal (n : Nat) (cards : List Card) : Nat :=
  if n = 8 then rickyPoints cards - (match maxN? (cards.map Card.low) with | some m => m | none => 0)
  else rickyPoints cards

end CardVerif.Gin

namespace CardVerif.Gin

/-! ## lay-offs (C12) -/

/-- `c` is the fourth card of one of the knocker's three-card sets -/
def SetLayoff (K : List (List Card)) (c : Card) : Prop :=
  ∃ m ∈ K, IsSet m ∧ m.length = 3 ∧ ∀ x ∈ m, x.rank = c.rank

/-- `c` extends one of the knocker's runs at its low or high end, every card between the run's end and `c` being laid
off too (`L`); values stay within 1..14, so a run that already ends in the ace is not extended past it -/
def RunLayoff (K : List (List Card)) (L : List Card) (c : Card) : Prop :=
  ∃ m ∈ K, ∃ suit lo len, 3 ≤ len ∧ len ≤ 13 ∧ 1 ≤ lo ∧ lo + len ≤ 15 ∧ m.Perm (runCards suit lo len) ∧
    c.suit = suit ∧
    ((∃ v, 1 ≤ v ∧ v < lo ∧ c.rank = rankOfValue v ∧ ∀ u, v < u → u < lo → (⟨rankOfValue u, suit⟩ : Card) ∈ L) ∨
     (∃ v, lo + len ≤ v ∧ v ≤ 14 ∧ c.rank = rankOfValue v ∧
        ∀ u, lo + len ≤ u → u < v → (⟨rankOfValue u, suit⟩ : Card) ∈ L))

/-- a legal set of lay-offs on the knocker's melds `K` -/
def LayoffOK (K : List (List Card)) (L : List Card) : Prop :=
  L.Nodup ∧ ∀ c ∈ L, SetLayoff K c ∨ RunLayoff K L c

/-- the knocker's melds: legal, pairwise disjoint, and disjoint from the defender's hand -/
structure KnockOK (hand : List Card) (K : List (List Card)) : Prop where
  legal : ∀ m ∈ K, LegalMeld m
  disjoint : (K.flatten ++ hand).Nodup
  valid : ∀ c ∈ K.flatten, c.Valid

end CardVerif.Gin
