import CardModel.Spec.Strength
import CardModel.Model.Omaha
/-!
# Decomposition of the Omaha evaluators into a suit-free part and a flush-suit part (C06, hard half)

Both the rules (`Strength.omahaSpec`, best of the 60 two-plus-three hands) and the optimised evaluator
(`Omaha.handStrengthFast`) split into

* a **suit-free part** that reads only the board's and the hand's rank lists, and
* a **flush part** that reads only the ranks the board and the hand hold in the one suit with three or more board cards,

and the result is the lexicographic maximum of the two parts.  The definitions here are the two parts on each side and
the finite domains over which the two parts are compared by evaluation.
-/
namespace CardVerif.OmahaD
open CardVerif CardVerif.Poker5 CardVerif.Omaha

/-- lexicographic maximum of two keys (the first wins ties) -/
def lexMax (a b : List Nat) : List Nat := if lexLt a b then b else a

/-- the value lists of the 3+2 hands: three board values followed by two hole values (same order as `omahaHands`) -/
def combosV (bv hv : List Nat) : List (List Nat) :=
  (combinations 3 bv).flatMap fun b => (combinations 2 hv).map fun h => b ++ h

/-- the best rule key among the 3+2 value combinations, all read with the same flush flag; `[]` when there is none -/
def bestV (flush : Bool) (bv hv : List Nat) : List Nat :=
  (combosV bv hv).foldl (fun best vs => lexMax best (specKeyV vs flush)) []

/-- rules, suit-free part: every 3+2 hand read as if it were not a flush -/
def specR (br hr : List Nat) : List Nat := bestV false br hr
/-- rules, flush part: the 3+2 hands inside the flush suit (`[]` if the hand holds fewer than two cards of it) -/
def specF (bfr hfr : List Nat) : List Nat := bestV true bfr hfr

/-- optimised evaluator, suit-free part: the cascade of `get_hand_strength_fast` with the straight-flush and flush
steps removed -/
def fastR (br hr : List Nat) : Except Err (List Nat) := do
  let bv : Counts := countItems br
  let isPaired := bv.any fun e => e.2 > 1
  let hv : Counts := countItems hr
  if isPaired then
    let q ← bestQuads hv bv
    if !q.isEmpty then return 7 :: q
    let fh ← bestFullHouse hv bv
    if !fh.isEmpty then return 6 :: fh
  let ps ← possibleStraights br
  if !ps.isEmpty then
    let st := bestStraight ps hr
    if st != 0 then return [4, st]
  let t ← bestThreeOfAKind hv bv
  if !t.isEmpty then return 3 :: t
  let tp ← bestTwoPair hv bv
  if !tp.isEmpty then return 2 :: tp
  let p ← bestPair hv bv
  if !p.isEmpty then return 1 :: p
  return 0 :: bestHighCard hv bv

/-- optimised evaluator, flush part: the straight-flush step and the flush step on the flush suit's ranks
(`bfr`: the board's ranks in that suit, three or more; `hfr`: the hand's) -/
def fastF (bfr hfr : List Nat) : Except Err (List Nat) := do
  let ps ← possibleStraights bfr
  let sf := if ps.isEmpty then 0 else bestStraight ps hfr
  if sf != 0 then return [8, sf]
  let bf ← bestFlush hfr
  if !bf.isEmpty then return 5 :: sortNDesc ((sortNDesc bfr).take 3 ++ bf)
  return []

/-! ## Reading the two parts off a deal -/

def ranksOf (l : List Card) : List Nat := l.map (·.rank)
/-- the ranks of the cards of suit `s`, in the order of the list -/
def ranksIn (s : Nat) (l : List Card) : List Nat := (l.filter (·.suit == s)).map (·.rank)
/-- the suit holding three or more board cards (the evaluator's `flush_suit`), with the board's ranks in it -/
def flushSuit (board : List Card) : Option (Nat × List Nat) := (suitPartition board).find? fun e => e.2.length ≥ 3

/-! ## The finite domains -/

/-- ascending lists of `k` values in `[lo, 14]`, repetitions allowed -/
def multisets : Nat → Nat → List (List Nat)
  | 0, _ => [[]]
  | k + 1, lo => (List.range' lo (15 - lo)).flatMap fun v => (multisets k v).map (v :: ·)

/-- strictly ascending lists of `k` values in `[lo, 14]` -/
def subsets : Nat → Nat → List (List Nat)
  | 0, _ => [[]]
  | k + 1, lo => (List.range' lo (15 - lo)).flatMap fun v => (subsets k (v + 1)).map (v :: ·)

/-- no value occurs more than four times among board and hand -/
def countsOK (br hr : List Nat) : Bool :=
  (List.range' 2 13).all fun v => (br.filter (· == v)).length + (hr.filter (· == v)).length ≤ 4

/-- the suit-free table restricted to boards whose lowest value is `lo` -/
def tableR (lo : Nat) : Bool :=
  ((multisets 4 lo).map (lo :: ·)).all fun br =>
    (multisets 4 2).all fun hr => !countsOK br hr || fastR br hr == .ok (specR br hr)

/-- the flush table for `kb` board cards of the suit with lowest value `lo` -/
def tableF (kb lo : Nat) : Bool :=
  ((subsets (kb - 1) (lo + 1)).map (lo :: ·)).all fun bfr =>
    (List.range 5).all fun kh =>
      (subsets kh 2).all fun hfr => hfr.any (bfr.contains ·) || fastF bfr hfr == .ok (specF bfr hfr)

end CardVerif.OmahaD
