import CardModel.Model.Betting
/-!
# The betting rules, stated over a state and its history (C03, C13) – independent of the implementation

* `live p`   : seat `p` has not folded and still has chips – it is *able to bet*.
* `Closed`   : the round is over: at most one seat has not folded, or every live seat has matched the highest
               contribution and either every live seat has acted on this street, or there is a single live seat
               and nobody (who has not folded) has acted on this street yet (everybody else was already all-in).
  "Acted on this street" is `lastActions p ≠ none` (the engine clears non-fold entries at each new street);
  a bet or raise re-opens the action because the others no longer match it.
-/
namespace CardVerif.Betting

def folded (la : List (Option ActType)) (p : Nat) : Bool := (la[p]?).join == some .fold
def liveSeat (la : List (Option ActType)) (stacks : List Int) (p : Nat) : Bool :=
  !folded la p && getI stacks p != 0
def acted (la : List (Option ActType)) (p : Nat) : Bool := (la[p]?).join != none

/-- the closure rule (Boolean so that it can be evaluated on the implementation's states as well) -/
def closedSpec (n : Nat) (la : List (Option ActType)) (pot stacks : List Int) : Bool :=
  let seats := List.range n
  let nonFolded := seats.filter fun p => !folded la p
  let live := seats.filter fun p => liveSeat la stacks p
  let m := match maxI? pot with | some m => m | none => 0
  nonFolded.length ≤ 1 ||
  (live.all (fun p => getI pot p == m) &&
    (live.all (fun p => acted la p) || (live.length == 1 && nonFolded.all fun p => !acted la p)))

def State.live (s : State) (p : Nat) : Bool := liveSeat s.lastActions s.stacks p
def State.closedSpec (s : State) : Bool := Betting.closedSpec s.n s.lastActions s.pot s.stacks

/-- first live seat strictly after `p`, clockwise -/
def State.nextLive (s : State) (p : Nat) : Option Nat :=
  ((List.range s.n).map fun k => (p + 1 + k) % s.n).find? fun q => s.live q

/-! ## configurations the constructor accepts (the domain of the theorems) -/

structure Cfg.Valid (cfg : Cfg) : Prop where
  n_ge : 2 ≤ cfg.n
  hands_len : cfg.hands.length = cfg.n
  hole : ∀ h ∈ cfg.hands, h.length = cfg.game.holeCards
  stacks_len : cfg.startingStacks.length = cfg.n
  stacks_nonneg : ∀ x ∈ cfg.startingStacks, 0 ≤ x
  ante_nonneg : 0 ≤ cfg.ante
  blinds_ok : match cfg.blinds with
    | none => True
    | some [] => 0 < cfg.ante ∧ 3 ≤ cfg.n
    | some [a, b] => 0 ≤ a ∧ 0 ≤ b ∧ (0 < a ∨ 0 < b ∨ 0 < cfg.ante)
    | some _ => False
  /-- with three or more seats the blinds are given small first (heads-up either order is accepted) -/
  blinds_ordered : match cfg.blinds with
    | some [a, b] => cfg.n = 2 ∨ a ≤ b
    | _ => True
  runouts_pos : 1 ≤ cfg.runouts
  f_nonneg : 0 ≤ cfg.rake.f
  f_le_one : cfg.rake.f ≤ 1
  cap_nonneg : 0 ≤ cfg.rake.cap
  board_len : cfg.board.length = 0 ∨ cfg.board.length = 3 ∨ cfg.board.length = 4 ∨ cfg.board.length = 5
  cards : 5 ≤ cfg.deck.length + cfg.board.length

/-- states reachable by accepted actions from the constructor -/
inductive Reachable (env : Env) (cfg : Cfg) : State → Prop
  | init {s : State} : construct cfg = .ok s → Reachable env cfg s
  | step {s s' : State} (p : Int) (ty : Option ActType) (amt : Option Int) :
      Reachable env cfg s → s.act env p ty amt = .ok s' → Reachable env cfg s'

/-- the evaluator never fails on a five-card board and a hand of the game's size -/
def RankTotal (g : Game) (rankFn : RankFn) : Prop :=
  ∀ board hand : List Card, board.length = 5 → hand.length = g.holeCards → ∃ k, rankFn board hand = .ok k

end CardVerif.Betting
