import CardModel.Model.Pot
/-!
# The rake, layer by layer (C14, "the charge is exact")

The pot is cut into horizontal layers at the distinct contribution levels.  The layers are charged from
the bottom up.  Every seat that contributed to a layer (its contribution reaches the top of the layer) pays
the same whole number of chips for it: the rake fraction of the layer's height, rounded down, but no more
than an equal whole-chip share of what is still missing to the total cap.  Once nothing is missing nothing
more is charged.  A seat's rake is the sum of the charges of the layers it contributed to.

Nothing here threads a per-seat vector through a loop: the only running quantity is the NUMBER of chips
collected so far.  `fl` is the rounding applied after each float operation (`id` = exact arithmetic) and
`pyInt` is Python's `int()`; `exactLayerCharges` is the same recipe with the rounding erased.
-/
namespace CardVerif.RakeSpec
open CardVerif CardVerif.Pot

/-- each level paired with its height above the previous level, starting above `prev` -/
def heightsFrom : Int → List Int → List (Int × Int)
  | _, [] => []
  | prev, L :: Ls => (L, L - prev) :: heightsFrom L Ls

/-- the layers `(top, height)`, bottom-up: the distinct contribution levels in ascending order, each with
its height above the previous level, the first measured from `0`.  (A seat that contributed nothing makes
`0` a level; that "layer" has height `0` – see `rake_zero_layer_exact`.) -/
def layersOf (bal : List Int) : List (Int × Int) := heightsFrom 0 (levels bal)

/-- the number of seats that contributed to the layer whose top is `L` -/
def contributors (bal : List Int) (L : Int) : Nat := (bal.filter fun b => decide (L ≤ b)).length

/-- what each of the `k` contributors to a layer of height `h` pays when `collected` chips have been
collected from the layers below and `mtr` is the total cap -/
def layerCharge (fl : Rat → Rat) (cfg : RakeCfg) (mtr : Rat) (k : Nat) (h collected : Int) : Int :=
  let left := fl (mtr - (collected : Rat))
  if left = 0 then 0 else
  min (pyInt (fl (left / (k : Rat)))) (pyInt (fl ((h : Rat) * cfg.f)))

/-- the layers bottom-up, each top `L` paired with its per-contributor charge `r`; `collected` grows by
`k * r` per layer -/
def layerCharges (fl : Rat → Rat) (cfg : RakeCfg) (bal : List Int) (mtr : Rat) :
    List (Int × Int) → Int → List (Int × Int)
  | [], _ => []
  | (L, h) :: rest, collected =>
    let k := contributors bal L
    let r := layerCharge fl cfg mtr k h collected
    (L, r) :: layerCharges fl cfg bal mtr rest (collected + (k : Int) * r)

/-- `(top, charge)` for every layer of the pot -/
def charges (fl : Rat → Rat) (cfg : RakeCfg) (bal : List Int) : List (Int × Int) :=
  layerCharges fl cfg bal (maxTotalRake fl cfg bal) (layersOf bal) 0

/-- the rake of seat `p`: the charges of the layers it contributed to -/
def specRake (fl : Rat → Rat) (cfg : RakeCfg) (bal : List Int) (p : Nat) : Int :=
  sumI (((charges fl cfg bal).filter fun (L, _) => decide (L ≤ getI bal p)).map fun (_, r) => r)

/-- the total collected: every layer's charge times its number of contributors -/
def specTotal (fl : Rat → Rat) (cfg : RakeCfg) (bal : List Int) : Int :=
  sumI ((charges fl cfg bal).map fun (L, r) => (contributors bal L : Int) * r)

/-! ### the same recipe in exact arithmetic: no `fl`, no `pyInt`, no test for `left = 0` -/

/-- the total cap: `max_rake` or the rake fraction of the whole pot, whichever is smaller -/
def exactCap (cfg : RakeCfg) (bal : List Int) : Rat :=
  min (cfg.cap : Rat) (cfg.f * ((sumI bal : Int) : Rat))

/-- `r = min ⌊(cap − collected) / k⌋ ⌊h · f⌋` -/
def exactLayerCharges (cfg : RakeCfg) (bal : List Int) (mtr : Rat) :
    List (Int × Int) → Int → List (Int × Int)
  | [], _ => []
  | (L, h) :: rest, collected =>
    let k := contributors bal L
    let r := min ((mtr - (collected : Rat)) / (k : Rat)).floor ((h : Rat) * cfg.f).floor
    (L, r) :: exactLayerCharges cfg bal mtr rest (collected + (k : Int) * r)

def exactCharges (cfg : RakeCfg) (bal : List Int) : List (Int × Int) :=
  exactLayerCharges cfg bal (exactCap cfg bal) (layersOf bal) 0

end CardVerif.RakeSpec
