import CardModel.Model.Basic
/-!
# Suit relabellings and reorderings (C18)
-/
namespace CardVerif.Sym

/-- a suit bijection: injective on the four suits and mapping them to suits -/
structure SuitPerm (σ : Nat → Nat) : Prop where
  inj : ∀ a b, a < 4 → b < 4 → σ a = σ b → a = b
  range : ∀ a, a < 4 → σ a < 4

def relabel (σ : Nat → Nat) (c : Card) : Card := ⟨c.rank, σ c.suit⟩

/-- `l'` is `l` with suits relabelled by `σ` and the cards reordered -/
def Image (σ : Nat → Nat) (l l' : List Card) : Prop := l'.Perm (l.map (relabel σ))

end CardVerif.Sym
