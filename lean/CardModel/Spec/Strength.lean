import CardModel.Spec.Poker5
import CardModel.Model.Evaluators
/-!
# Omaha / Hold'em strength by the rules (C06) and showdown tiers (C07)

Omaha: the best key among the 60 hands made of exactly two hole cards and exactly three board cards.
Hold'em: the best key among the 21 five-card subsets of board + hole cards.
-/
namespace CardVerif.Strength
open CardVerif.Poker5

/-- the lexicographically largest key -/
def bestKey (hands : List (List Card)) : List Nat :=
  hands.foldl (fun best h => let k := specKey h; if lexLt best k then k else best) []

def omahaHands (board hand : List Card) : List (List Card) :=
  (combinations 3 board).flatMap fun b => (combinations 2 hand).map fun h => b ++ h

def omahaSpec (board hand : List Card) : List Nat := bestKey (omahaHands board hand)
def holdemSpec (board hand : List Card) : List Nat := bestKey (combinations 5 (board ++ hand))

/-- showdown tiers by the rules: contenders grouped by equal strength, strongest first -/
def TiersOK (strength : Nat → List Nat) (k : Nat) (tiers : List (List Nat)) : Prop :=
  tiers.flatten.Perm (List.range k) ∧
  (∀ t ∈ tiers, t ≠ [] ∧ ∀ i ∈ t, ∀ j ∈ t, strength i = strength j) ∧
  tiers.Pairwise fun t u => ∀ i ∈ t, ∀ j ∈ u, lexLt (strength j) (strength i) = true

end CardVerif.Strength
