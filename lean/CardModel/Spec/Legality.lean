import CardModel.Spec.BettingRules
/-!
# Wager legality (C04), stated over the state and the round's history

`Legal` is the rule of the game: it mentions the seat to act, what that seat owes, its stack, the pot (for
pot-limit), the big blind and `lastRaise` – the largest amount by which a single bet or raise lifted the
highest wager in the current betting round.  The engine does not record `lastRaise`; it is a ghost value
carried next to the state by `GReachable`.
-/
namespace CardVerif.Betting

def State.maxPot (s : State) : Int := match maxI? s.pot with | some m => m | none => 0
/-- what seat `a` owes, capped by its stack -/
def State.owed (s : State) (a : Nat) : Int := min (getI s.stacks a) (s.maxPot - getI s.pot a)
/-- the big blind's option: the big-blind seat, before the flop, in a game with blinds -/
def State.bbOption (s : State) (a : Nat) : Bool :=
  s.street == 0 && a == s.bigBlindPlayer && s.blinds.any (· != 0)

/-- a bet / raise size `x` is acceptable when the minimum raise increment is `lr` -/
def State.SizeOK (s : State) (a : Nat) (lr : Int) (x : Int) : Prop :=
  0 < x ∧ x ≤ getI s.stacks a ∧ (s.game = .plo → x ≤ 2 * s.owed a + sumI s.pot) ∧
  (x = getI s.stacks a ∨ (s.biggestBlind ≤ x ∧ max s.biggestBlind lr ≤ x - s.owed a))

/-- the legal actions when the minimum raise increment is `lr` -/
def State.LegalWith (s : State) (lr : Int) (player : Int) (ty : Option ActType) (amount : Option Int) : Prop :=
  s.complete = false ∧ ∃ a : Nat, s.action = some a ∧ player = (a : Int) ∧
    match ty with
    | some .check => s.owed a = 0 ∧ (amount = none ∨ amount = some 0)
    | some .fold => 0 < s.owed a ∧ (amount = none ∨ amount = some 0)
    | some .call => 0 < s.owed a ∧ (amount = none ∨ amount = some (s.owed a))
    | some .bet => s.owed a = 0 ∧ ∃ x, amount = some x ∧ s.SizeOK a lr x
    | some .raise => (0 < s.owed a ∨ s.bbOption a = true) ∧ ∃ x, amount = some x ∧ s.SizeOK a lr x
    | _ => False

/-- **the rule**: legal w.r.t. the largest raise of the round -/
def State.Legal (s : State) (lastRaise : Int) := s.LegalWith lastRaise

/-- the gap between the two largest contributions of the hand -/
def State.topGap (s : State) : Int :=
  match (sortI s.pot).reverse with
  | t0 :: t1 :: _ => t0 - t1
  | _ => 0

/-- the minimum raise increment the engine actually enforces (open finding F5): nothing beyond the big blind when
nothing is owed, otherwise the gap between the two largest contributions -/
def State.implLr (s : State) : Int :=
  match s.action with
  | some a => if s.owed a = 0 then 0 else s.topGap
  | none => 0

/-- basic well-formedness of a state (what `accept_iff` needs; proved for every reachable state in C01/C03) -/
structure State.WF (s : State) : Prop where
  n_ge : 2 ≤ s.n
  stacks_len : s.stacks.length = s.n
  pot_len : s.pot.length = s.n
  la_len : s.lastActions.length = s.n
  stacks_nonneg : ∀ x ∈ s.stacks, 0 ≤ x
  bb_nonneg : 0 ≤ s.biggestBlind
  action_lt : ∀ a, s.action = some a → a < s.n
  action_some : s.complete = false → s.action.isSome

/-- state + ghost history (largest raise of the current round) -/
structure GState where
  s : State
  lastRaise : Int

def ghostStep (g : GState) (ty : Option ActType) (s' : State) : GState :=
  if s'.street != g.s.street then ⟨s', 0⟩
  else if (ty == some .bet || ty == some .raise) && g.s.maxPot < s'.maxPot then
    ⟨s', max g.lastRaise (s'.maxPot - g.s.maxPot)⟩
  else ⟨s', g.lastRaise⟩

inductive GReachable (env : Env) (cfg : Cfg) : GState → Prop
  | init {s : State} : construct cfg = .ok s → GReachable env cfg ⟨s, 0⟩
  | step {g : GState} {s' : State} (p : Int) (ty : Option ActType) (amt : Option Int) :
      GReachable env cfg g → g.s.act env p ty amt = .ok s' → GReachable env cfg (ghostStep g ty s')

/-- the deviation set of F5: accepted by the engine's minimum, refused by the rule's -/
def State.F5Dev (s : State) (lastRaise : Int) (player : Int) (ty : Option ActType) (amount : Option Int) : Prop :=
  s.LegalWith s.implLr player ty amount ∧ ¬ s.LegalWith lastRaise player ty amount

end CardVerif.Betting
