import CardModel.Model.Pot
/-!
# Side pots, stated chip by chip (C02)

The pot is cut into unit layers.  Layer `h ≥ 1` holds one chip from every seat whose contribution is
at least `h`; it goes to the best-ranked contenders who contributed to that layer, split equally.
Nothing here mentions increments, sorted balances or running totals.
-/
namespace CardVerif.SidePot

/-- seats that put a chip into layer `h` -/
def contributors (c : List Int) (h : Int) : List Nat :=
  (List.range c.length).filter fun p => decide (h ≤ getI c p)

/-- the best tier that has a member in layer `h`, restricted to those members -/
def winners (c : List Int) (tiers : List (List Nat)) (h : Int) : List Nat :=
  match tiers.find? (fun t => t.any fun p => decide (h ≤ getI c p)) with
  | some t => t.filter fun p => decide (h ≤ getI c p)
  | none => []

/-- what seat `p` receives from layer `h` -/
def share (c : List Int) (tiers : List (List Nat)) (h : Int) (p : Nat) : Rat :=
  let w := winners c tiers h
  if p ∈ w then ((contributors c h).length : Rat) / (w.length : Rat) else 0

/-- number of layers = the largest contribution -/
def height (c : List Int) : Nat := match maxI? c with | some m => m.toNat | none => 0

def specPayoutOf (c : List Int) (tiers : List (List Nat)) (p : Nat) : Rat :=
  sumQ ((List.range' 1 (height c)).map fun (h : Nat) => share c tiers (h : Int) p)

def specPayout (c : List Int) (tiers : List (List Nat)) : List Rat :=
  (List.range c.length).map (specPayoutOf c tiers)

/-- the ranking is usable: seats in range, no seat twice, and some contender holds the maximum -/
def RankingOK (c : List Int) (tiers : List (List Nat)) : Prop :=
  (∀ t ∈ tiers, ∀ p ∈ t, p < c.length) ∧ tiers.flatten.Nodup ∧
  (∃ p ∈ tiers.flatten, ∀ q, q < c.length → getI c q ≤ getI c p)

end CardVerif.SidePot
