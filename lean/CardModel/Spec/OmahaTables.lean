import CardModel.Spec.OmahaDecomp
/-!
# Finer chunks of the suit-free Omaha table (C06, hard half)

`OmahaDecomp.tableR lo` chunks the suit-free table by the board's lowest value, which is badly unbalanced (lowest
value 2 holds 29 % of the boards).  `tableRc a blo bhi` chunks by the board's lowest value `a` and an interval
`[blo, bhi]` for its second-lowest value, so that the chunks can be made of comparable cost and evaluated in parallel.
The entry checked is literally the one of `tableR`.
-/
namespace CardVerif.OmahaD
open CardVerif CardVerif.Poker5 CardVerif.Omaha

/-- one entry of the suit-free table: unless some value occurs five times, the evaluator's suit-free part equals the
rules' suit-free part -/
def entryR (br hr : List Nat) : Bool := !countsOK br hr || fastR br hr == .ok (specR br hr)

/-- the suit-free table restricted to the ascending boards `a :: b :: t` with `b ∈ [blo, bhi]` -/
def tableRc (a blo bhi : Nat) : Bool :=
  (List.range' blo (bhi + 1 - blo)).all fun b =>
    ((multisets 3 b).map fun t => a :: b :: t).all fun br =>
      (multisets 4 2).all fun hr => entryR br hr

end CardVerif.OmahaD
