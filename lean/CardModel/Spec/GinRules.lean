import CardModel.Model.GinGame
/-!
# Gin: what the turn allows, how a game ends and scores, what the views may show (C09, C10, C11, C17)

Stated over the state (and, for secrecy, the history) without reference to how the engine is coded.
-/
namespace CardVerif.Gin

/-- the moves a client can make -/
inductive Move
  | pass
  | draw (fromDiscard : Bool)
  | discard (c : Card)
  | knock (knocks : Bool) (melds : Option (List (List Card)))
deriving Repr

/-- the engine's entry point for each move -/
def GState.apply (shuffle : List Card → List Card) (g : GState) : Move → Except Err GState
  | .pass => g.firstTurnPass
  | .draw d => g.drawCard d
  | .discard c => g.discardCard shuffle c
  | .knock k ms => g.decideKnock shuffle k ms

def GState.allCards (g : GState) : List Card := g.deck ++ g.discard ++ g.p1 ++ g.p2

/-- a legal initial deal: two hands of the dealt size, one up-card, all cards distinct, at least one stock card
beyond the end size so that the forced draw after two passes is possible -/
structure Deal (g0 : GState) : Prop where
  fresh : ∃ params deck up p1 p2 turn, turn.isFirstDraw = true ∧
    newGame params deck [up] p1 p2 turn = .ok g0
  variant : g0.params = Params.rummy g0.params.maxTurns ∨ g0.params = Params.ricky g0.params.maxTurns
  p1_len : g0.p1.length = g0.params.cardsDealt
  p2_len : g0.p2.length = g0.params.cardsDealt
  nodup : g0.allCards.Nodup
  stock : g0.params.endCardsInDeck < g0.deck.length

/-- states reachable from `g0` by accepted moves while the game is in progress -/
inductive Reach (shuffle : List Card → List Card) (g0 : GState) : GState → Prop
  | init : Reach shuffle g0 g0
  | step {g g' : GState} (m : Move) : Reach shuffle g0 g → g.complete = false → g.apply shuffle m = .ok g' →
      Reach shuffle g0 g'

/-- whose turn it is (true = player 1), for the observable turns -/
def Turn.owner : Turn → Bool
  | .p1DrawsFirst | .p1DrawsFromDeck | .p1Draws | .p1Discards | .p1MayKnock => true
  | _ => false

def GState.handOf (g : GState) (p1 : Bool) : List Card := if p1 then g.p1 else g.p2

/-- **C10**: what the turn allows -/
def Allowed (g : GState) : Move → Prop
  | .pass => g.turn.isFirstDraw = true
  | .draw true => (g.turn.isFirstDraw = true ∨ g.turn.isDraw = true) ∧ g.discard ≠ []
  | .draw false => g.turn.isDraw = true ∧ g.deck ≠ []
  | .discard c => g.turn.isDiscard = true ∧ c ∈ g.handOf g.turn.owner
  | .knock k ms => g.turn.isKnock = true ∧
      (k = true → ∀ l, ms = some l → ∀ m ∈ l, (suitPartition m).length = 1 ∨ (rankPartition m).length = 1)

/-- every location the public card map asserts is true -/
def HudSound (g : GState) : Prop :=
  ∀ e ∈ g.hud, match e.2 with
    | .p1 => e.1 ∈ g.p1
    | .p2 => e.1 ∈ g.p2
    | .top => g.discard.getLast? = some e.1
    | .disc => e.1 ∈ g.discard

/-- the other player's draw turn -/
def oppDraws (p1 : Bool) : Turn := if p1 then .p2Draws else .p1Draws
def ownDiscards (p1 : Bool) : Turn := if p1 then .p1Discards else .p2Discards
def ownMayKnock (p1 : Bool) : Turn := if p1 then .p1MayKnock else .p2MayKnock
def oppDrawsFirst (p1 : Bool) : Turn := if p1 then .p2DrawsFirst else .p1DrawsFirst

/-- "the turn limit is reached by this discard" -/
def GState.hitsTurnLimit (g : GState) : Prop := ∃ m, g.params.maxTurns = some m ∧ m ≤ g.turns + 1

/-- state + what is public about each hand (C17): cards a player took from the discard pile and still holds; both
whole hands from the moment the stock is exhausted (they are then deducible), minus later discards -/
structure PState where
  g : GState
  pub1 : List Card
  pub2 : List Card

def pubStep (ps : PState) (m : Move) (g' : GState) : PState :=
  let p1 := ps.g.turn.owner
  let (a, b) : List Card × List Card := match m with
    | .draw true => match ps.g.discard.getLast? with
      | some c => if p1 then (ps.pub1 ++ [c], ps.pub2) else (ps.pub1, ps.pub2 ++ [c])
      | none => (ps.pub1, ps.pub2)
    | .discard c => if p1 then (ps.pub1.filter (· != c), ps.pub2) else (ps.pub1, ps.pub2.filter (· != c))
    | _ => (ps.pub1, ps.pub2)
  if g'.deck.isEmpty && !ps.g.deck.isEmpty then ⟨g', g'.p1, g'.p2⟩ else ⟨g', a, b⟩

inductive PReach (shuffle : List Card → List Card) (g0 : GState) : PState → Prop
  | init : PReach shuffle g0 ⟨g0, [], []⟩
  | step {ps : PState} {g' : GState} (m : Move) : PReach shuffle g0 ps → ps.g.complete = false →
      ps.g.apply shuffle m = .ok g' → PReach shuffle g0 (pubStep ps m g')

/-! ### games started from an explicit public card map (C17, `public_hud=` of the constructor) -/

/-- a game handed to the constructor together with a public card map (a restored game; `{}` for "nothing seen so
far"): the map is truthful and a dict (every card at most once).  The turn may be ANY observable turn (all but the
transient forced stock draws, which never last beyond the pass that causes them) as long as the hand sizes, the
variant and the stock fit it: a fresh deal (`Deal`) is the special case "first-draw turn, one up-card, the map is
`{up-card: TOP}`"; the pile may be anything, also empty (the state after a gin ricky reshuffle).  The fields the
model's constructor does not take (`last_draw`, counters, points) are those of a new game. -/
structure DealH (g0 : GState) : Prop where
  fresh : ∃ params deck discard p1 p2 turn h, newGameWith params deck discard p1 p2 turn (some h) = .ok g0
  variant : g0.params = Params.rummy g0.params.maxTurns ∨ g0.params = Params.ricky g0.params.maxTurns
  observable : g0.turn.isDrawFromDeck = false
  knock_rummy : g0.turn.isKnock = true → g0.params.variant = .rummy
  p1_len : g0.p1.length = g0.params.cardsDealt + (if g0.turn = .p1Discards then 1 else 0)
  p2_len : g0.p2.length = g0.params.cardsDealt + (if g0.turn = .p2Discards then 1 else 0)
  nodup : g0.allCards.Nodup
  /-- a player who has to draw finds a stock card beyond the end size -/
  stock : g0.turn.isDiscard = false → g0.turn.isKnock = false → g0.params.endCardsInDeck < g0.deck.length
  stock_le : g0.params.endCardsInDeck ≤ g0.deck.length
  hud_keys : (g0.hud.map (·.1)).Nodup
  hud_sound : HudSound g0

/-- the cards a map places in the hand `l` (`.p1` / `.p2`) -/
def hudHand (hud : List (Card × Hud)) (l : Hud) : List Card := (hud.filter (·.2 == l)).map (·.1)

/-- what is public at the start of a game handed over with a map: what the map says -/
def PState.initH (g0 : GState) : PState := ⟨g0, hudHand g0.hud .p1, hudHand g0.hud .p2⟩

/-- `PReach` for a game that starts with the public knowledge its map records -/
inductive PReachH (shuffle : List Card → List Card) (g0 : GState) : PState → Prop
  | init : PReachH shuffle g0 (PState.initH g0)
  | step {ps : PState} {g' : GState} (m : Move) : PReachH shuffle g0 ps → ps.g.complete = false →
      ps.g.apply shuffle m = .ok g' → PReachH shuffle g0 (pubStep ps m g')

/-- points after normalisation: the winner shows zero -/
def normPoints (a b : Int) : Int × Int := if a > b then (a - b, 0) else if b > a then (0, b - a) else (a, b)

end CardVerif.Gin
