import CardModel.Model.Rank5
/-!
# The rules of high poker for five cards (C05), stated without reference to the implementation

Sort the distinct values by (multiplicity descending, value descending) – `order`; `pattern` is the list of
their multiplicities.  The hand is a straight iff it has five distinct values spanning 4, or is A-5-4-3-2
(which counts as five-high).  The key is `category :: tie-breakers`; hands compare by `lexLt` on keys.
-/
namespace CardVerif.Poker5
open CardVerif.Rank5 (count)

/-- distinct values, highest first -/
def distinctDesc (vs : List Nat) : List Nat := sortNDesc (dedup vs)

def specKeyV (vs : List Nat) (flush : Bool) : List Nat :=
  let d := distinctDesc vs
  let grp := fun c => d.filter fun v => count v vs == c
  let order := grp 4 ++ grp 3 ++ grp 2 ++ grp 1
  let pattern := order.map fun v => count v vs
  let isWheel := d == [14, 5, 4, 3, 2]
  let spread4 := match d with
    | [a, _, _, _, e] => a - e == 4
    | _ => false
  let isStr := spread4 || isWheel
  let top := if isWheel then 5 else d.headD 0
  if isStr && flush then [8, top]
  else if pattern == [4, 1] then 7 :: order
  else if pattern == [3, 2] then 6 :: order
  else if flush then 5 :: order
  else if isStr then [4, top]
  else if pattern == [3, 1, 1] then 3 :: order
  else if pattern == [2, 2, 1] then 2 :: order
  else if pattern == [2, 1, 1, 1] then 1 :: order
  else 0 :: order

/-- all five cards of one suit -/
def allSameSuit : List Card → Bool
  | [] => false
  | c :: cs => cs.all fun d => d.suit == c.suit

/-- the rank key of a five-card hand according to the rules -/
def specKey (hand : List Card) : List Nat := specKeyV (hand.map (·.rank)) (allSameSuit hand)

end CardVerif.Poker5
