import CardModel.Spec.BettingRules
/-!
# Totality of the evaluator on the cards a game can actually show (C13)

`RankTotal` asks the evaluator to succeed on EVERY five-card board and hand, duplicates and invalid cards included;
no real evaluator of the model does (`rank5` fails on five equal cards).  `RankTotalOn` asks for success only on
distinct valid cards, which is what a game dealt from one deck presents to it (`Cfg.Dealt`).
-/
namespace CardVerif.Betting

/-- the evaluator never fails on a five-card board and a hand of the game's size made of distinct valid cards -/
def RankTotalOn (g : Game) (rankFn : RankFn) : Prop :=
  ∀ board hand : List Card, board.length = 5 → hand.length = g.holeCards → (board ++ hand).Nodup →
    (∀ c ∈ board ++ hand, c.Valid) → ∃ k, rankFn board hand = .ok k

theorem RankTotal.toOn {g : Game} {f : RankFn} (h : RankTotal g f) : RankTotalOn g f :=
  fun board hand hb hh _ _ => h board hand hb hh

/-- the configured cards come from one deck: every hand together with the preset board and the deck consists of
distinct valid cards (two hands are not compared with each other: the evaluator never sees two hands at once) -/
structure Cfg.Dealt (cfg : Cfg) : Prop where
  nodup : ∀ h ∈ cfg.hands, (cfg.board ++ cfg.deck ++ h).Nodup
  valid : ∀ h ∈ cfg.hands, ∀ c ∈ cfg.board ++ cfg.deck ++ h, c.Valid

/-- the usual way to get `Cfg.Dealt`: board, deck and all hole cards are distinct valid cards -/
theorem Cfg.Dealt.of_distinct {cfg : Cfg} (hnd : (cfg.board ++ cfg.deck ++ cfg.hands.flatten).Nodup)
    (hval : ∀ c ∈ cfg.board ++ cfg.deck ++ cfg.hands.flatten, c.Valid) : cfg.Dealt := by
  rw [List.nodup_append] at hnd
  obtain ⟨h1, h2, h3⟩ := hnd
  constructor
  · intro h hh
    rw [List.nodup_append]
    refine ⟨h1, ?_, fun a ha b hb => h3 a ha b (List.mem_flatten.2 ⟨h, hh, hb⟩)⟩
    exact h2.sublist (List.sublist_flatten_of_mem hh)
  · intro h hh c hc
    apply hval
    rw [List.mem_append] at hc ⊢
    rcases hc with hc | hc
    · exact Or.inl hc
    · exact Or.inr (List.mem_flatten.2 ⟨h, hh, hc⟩)

end CardVerif.Betting
