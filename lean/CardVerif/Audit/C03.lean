import CardVerif.Props.C03
#print axioms CardVerif.C03.max_holder_not_folded
#print axioms CardVerif.C03.closed_iff
#print axioms CardVerif.C03.closed_iff_reachable
#print axioms CardVerif.C03.construct_actor
#print axioms CardVerif.C03.blind_flip
#print axioms CardVerif.C03.actor_live
#print axioms CardVerif.C03.step_open
#print axioms CardVerif.C03.step_closed_no_more_betting
#print axioms CardVerif.C03.step_closed_next_street
#print axioms CardVerif.C03.street_le
#print axioms CardVerif.Betting.reachable_tab
#print axioms CardVerif.Betting.reachable_cards
