import CardVerif.Props.C05
/-! # Axiom audit for C05 -/
#print axioms CardVerif.C05.rank5_eq_spec
#print axioms CardVerif.C05.rank5_perm
#print axioms CardVerif.C05.specKey_perm
#print axioms CardVerif.C05.rank5_bad_length
#print axioms CardVerif.C05.rank5_suit_blind
