import CardVerif.Props.C02
#print axioms CardVerif.C02.settle_sum
#print axioms CardVerif.C02.settle_nonneg
#print axioms CardVerif.C02.settle_eq_spec
#print axioms CardVerif.C02.spec_folded_zero
#print axioms CardVerif.C02.spec_le_matched
#print axioms CardVerif.C02.spec_unmatched_returns
