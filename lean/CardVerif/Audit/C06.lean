import CardVerif.Props.C06
import CardVerif.Props.C06b
/-! # Axiom audit for C06 -/
#print axioms CardVerif.C06.bestKey_max
#print axioms CardVerif.C06.omahaHands_spec
#print axioms CardVerif.C06.omahaHands_count
#print axioms CardVerif.C06.holdemHands_spec
#print axioms CardVerif.C06.holdemHands_count
#print axioms CardVerif.C06.omaha_brute_eq_spec
#print axioms CardVerif.C06.holdem_eq_spec
#print axioms CardVerif.C06.holdem_bad_sizes
#print axioms CardVerif.C06.omaha_fast_bad_sizes
#print axioms CardVerif.C06.omaha_fast_eq_spec
#print axioms CardVerif.C06.omaha_fast_eq_brute
#print axioms CardVerif.C06.omaha_fast_sym
#print axioms CardVerif.C06.plo_no_internal_error
#print axioms CardVerif.C06.plo_no_internal_error_f53
