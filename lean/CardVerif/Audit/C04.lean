import CardVerif.Props.C04

#print axioms CardVerif.C04.accept_iff
#print axioms CardVerif.C04.accept_effect
#print axioms CardVerif.C04.gap_le_lastRaise
#print axioms CardVerif.C04.legal_accepted
#print axioms CardVerif.C04.accepted_legal_or_F5
#print axioms CardVerif.C04.F5_witness
#print axioms CardVerif.Betting.UnorderedBlinds.counterexample
