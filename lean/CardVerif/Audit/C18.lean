import CardVerif.Props.C18
import CardVerif.Props.C18b
import CardVerif.Props.C18c
/-! # Axiom audit for C18 (part a) -/
#print axioms CardVerif.C18.rank5_sym
#print axioms CardVerif.C18.specKey_sym
#print axioms CardVerif.C18.omahaSpec_sym
#print axioms CardVerif.C18.omaha_brute_sym
#print axioms CardVerif.C18.holdem_sym
#print axioms CardVerif.C18.tiers_sym
#print axioms CardVerif.C18.hutchinson_sym
#print axioms CardVerif.C18.equity_shares
#print axioms CardVerif.C18.canon_iso
#print axioms CardVerif.C18.canon_idem
#print axioms CardVerif.C18.canon_invariant
#print axioms CardVerif.C18.split_deadwood_sym
#print axioms CardVerif.C18.ricky_value_sym
#print axioms CardVerif.C18.layoff_deadwood_sym
