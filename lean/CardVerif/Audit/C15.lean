import CardVerif.Props.C15
#print axioms CardVerif.C15.log_grows
#print axioms CardVerif.C15.act_filled
#print axioms CardVerif.C15.replay
#print axioms CardVerif.C15.resume
#print axioms CardVerif.C15.resume_bisim
#print axioms CardVerif.Betting.act_filled_amount
#print axioms CardVerif.Betting.reset_construct
#print axioms CardVerif.Betting.reachable_fold_log
#print axioms CardVerif.Betting.construct_snapshot
#print axioms CardVerif.C15.reset_own_log
#print axioms CardVerif.C15.reset_idempotent
