import CardVerif.Props.C13

#print axioms CardVerif.C13.legal_exists
#print axioms CardVerif.C13.no_internal_error
#print axioms CardVerif.C13.complete_shape
#print axioms CardVerif.C13.terminates
#print axioms CardVerif.C13.no_internal_error_B
#print axioms CardVerif.C13.no_internal_error_f53
