import CardVerif.Props.C13

#print axioms CardVerif.C13.legal_exists
#print axioms CardVerif.C13.no_internal_error
#print axioms CardVerif.C13.complete_shape
#print axioms CardVerif.C13.terminates
#print axioms CardVerif.C13.no_internal_error_B
#print axioms CardVerif.C13.no_internal_error_f53
#print axioms CardVerif.C13.no_internal_error_on
#print axioms CardVerif.C13.no_internal_error_on_B
#print axioms CardVerif.C13.no_internal_error_on_f53
#print axioms CardVerif.C13.no_internal_error_nlhe
#print axioms CardVerif.C13.no_internal_error_nlhe_f53
#print axioms CardVerif.C13.no_internal_error_nlhe_brute
#print axioms CardVerif.C13.no_internal_error_nlhe_brute_f53
#print axioms CardVerif.C13.no_internal_error_plo_brute
#print axioms CardVerif.C13.no_internal_error_plo_brute_f53
