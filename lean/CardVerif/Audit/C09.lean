import CardVerif.Props.C09
/-! Axiom audit for C09 (gin: stock, pile and hands partition the deal). -/
#print axioms CardVerif.C09.partition
#print axioms CardVerif.C09.hand_sizes
#print axioms CardVerif.C09.stock_available
#print axioms CardVerif.C09.draw_discard_frame
#print axioms CardVerif.C09.draw_stock_frame
#print axioms CardVerif.C09.discard_frame
#print axioms CardVerif.C09.knock_frame
#print axioms CardVerif.Gin.reach_inv
