import CardVerif.Props.C09
import CardVerif.Props.C09b
/-! Axiom audit for C09 (gin: stock, pile and hands partition the deal). -/
#print axioms CardVerif.C09.partition
#print axioms CardVerif.C09.hand_sizes
#print axioms CardVerif.C09.stock_available
#print axioms CardVerif.C09.draw_discard_frame
#print axioms CardVerif.C09.draw_stock_frame
#print axioms CardVerif.C09.discard_frame
#print axioms CardVerif.C09.knock_frame
#print axioms CardVerif.Gin.reach_inv
#print axioms CardVerif.C09.partition_from
#print axioms CardVerif.C09.hand_sizes_from
#print axioms CardVerif.C09.stock_available_from
#print axioms CardVerif.C09.stock_floor_from
#print axioms CardVerif.C09.first_turn_from
