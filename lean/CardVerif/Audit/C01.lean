import CardVerif.Props.C01
#print axioms CardVerif.C01.construct_ok
#print axioms CardVerif.C01.conservation
#print axioms CardVerif.C01.reachable_wf
#print axioms CardVerif.C01.completion
#print axioms CardVerif.C01.in_progress_no_payouts
#print axioms CardVerif.C01.completion_B
#print axioms CardVerif.C01.completion_f53
