import CardVerif.Props.C10
import CardVerif.Props.C10b
/-! Axiom audit for C10 (gin: only the move the turn allows is accepted; the transition relation). -/
#print axioms CardVerif.C10.accept_iff_allowed
#print axioms CardVerif.C10.pass_next
#print axioms CardVerif.C10.draw_next
#print axioms CardVerif.C10.discard_next_rummy
#print axioms CardVerif.C10.discard_next_ricky
#print axioms CardVerif.C10.decline_next
#print axioms CardVerif.Gin.splitSetsRuns_ok_iff
#print axioms CardVerif.Gin.layoffDeadwood_ok_iff
#print axioms CardVerif.Gin.handPoints_total
#print axioms CardVerif.C10.accept_iff_allowed_from
#print axioms CardVerif.C10.pass_next_from
#print axioms CardVerif.C10.draw_next_from
#print axioms CardVerif.C10.discard_next_rummy_from
#print axioms CardVerif.C10.discard_next_ricky_from
#print axioms CardVerif.C10.decline_next_from
#print axioms CardVerif.C10.pass_never_from
