import CardVerif.Props.C12
#print axioms CardVerif.C12.layoff_total
#print axioms CardVerif.C12.layoff_sound
#print axioms CardVerif.C12.layoff_optimal
#print axioms CardVerif.C12.layoff_stop_irrelevant
