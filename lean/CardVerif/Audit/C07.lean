import CardVerif.Props.C07

#print axioms CardVerif.C07.tiers_ok
#print axioms CardVerif.C07.order_hands_seats
#print axioms CardVerif.C07.foldout_payouts
#print axioms CardVerif.C07.showdown_payouts
#print axioms CardVerif.C07.runout_board
