import CardVerif.Props.C11
/-! Axiom audit for C11 (gin: how a game ends and scores). -/
#print axioms CardVerif.C11.pass_draw_never_end
#print axioms CardVerif.C11.discard_end
#print axioms CardVerif.C11.knock_end
#print axioms CardVerif.C11.decline_end
#print axioms CardVerif.C11.winner_zero
#print axioms CardVerif.Gin.reach_goodScore
