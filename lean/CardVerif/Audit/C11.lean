import CardVerif.Props.C11
import CardVerif.Props.C11b
/-! Axiom audit for C11 (gin: how a game ends and scores). -/
#print axioms CardVerif.C11.pass_draw_never_end
#print axioms CardVerif.C11.discard_end
#print axioms CardVerif.C11.knock_end
#print axioms CardVerif.C11.decline_end
#print axioms CardVerif.C11.winner_zero
#print axioms CardVerif.Gin.reach_goodScore
#print axioms CardVerif.C11.discard_end_from
#print axioms CardVerif.C11.winner_zero_from
#print axioms CardVerif.C11.counters_from
