import CardVerif.Props.C17
/-! Axiom audit for C17 (gin views: the public card map is truthful, hidden cards stay hidden). -/
#print axioms CardVerif.C17.hud_sound
#print axioms CardVerif.C17.hud_no_stock_card
#print axioms CardVerif.C17.hud_secrecy
#print axioms CardVerif.C17.view_hud
#print axioms CardVerif.C17.view_content
#print axioms CardVerif.C17.wait_iff_off_turn
