import CardVerif.Props.C17
import CardVerif.Props.C17b
/-! Axiom audit for C17 (gin views: the public card map is truthful, hidden cards stay hidden). -/
#print axioms CardVerif.C17.hud_sound
#print axioms CardVerif.C17.hud_no_stock_card
#print axioms CardVerif.C17.hud_secrecy
#print axioms CardVerif.C17.view_hud
#print axioms CardVerif.C17.view_content
#print axioms CardVerif.C17.wait_iff_off_turn
#print axioms CardVerif.C17.deal_is_dealH
#print axioms CardVerif.C17.preach_is_preachH
#print axioms CardVerif.C17.hud_sound_from
#print axioms CardVerif.C17.hud_no_stock_card_from
#print axioms CardVerif.C17.hud_secrecy_from
#print axioms CardVerif.C17.view_hud_from
#print axioms CardVerif.C17.view_content_from
#print axioms CardVerif.C17.wait_iff_off_turn_from
#print axioms CardVerif.C17.hud_keys_nodup_from
#print axioms CardVerif.C17.exDeal_dealH
