import CardVerif.Props.C08
import CardVerif.Props.C08b
#print axioms CardVerif.C08.allMelds_exact
#print axioms CardVerif.C08.split_legal
#print axioms CardVerif.C08.split_total
#print axioms CardVerif.C08.split_optimal
#print axioms CardVerif.C08.candidates_sound
#print axioms CardVerif.C08.candidates_complete
#print axioms CardVerif.C08.candidates_stop_on_gin
#print axioms CardVerif.C08.SameArrangement.refl
#print axioms CardVerif.C08.SameArrangement.trans
#print axioms CardVerif.C08.SameArrangement.symm
#print axioms CardVerif.C08.SameArrangement.symm_of_arrangement
#print axioms CardVerif.C08.candidates_once
#print axioms CardVerif.C08.candidates_nodup
#print axioms CardVerif.C08.candidates_stop_no_gin
#print axioms CardVerif.C08.candidates_exact
