import CardVerif.Props.C08
#print axioms CardVerif.C08.allMelds_exact
#print axioms CardVerif.C08.split_legal
#print axioms CardVerif.C08.split_total
#print axioms CardVerif.C08.split_optimal
#print axioms CardVerif.C08.candidates_sound
#print axioms CardVerif.C08.candidates_complete
#print axioms CardVerif.C08.candidates_stop_on_gin
