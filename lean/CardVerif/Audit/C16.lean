import CardVerif.Props.C16
#print axioms CardVerif.C16.world_invariant
#print axioms CardVerif.C16.process_world_invariant
#print axioms CardVerif.C16.isolation
