import CardVerif.Props.C14
#print axioms CardVerif.C14.flSpec_id
#print axioms CardVerif.C14.rake_not_raked
#print axioms CardVerif.C14.rake_length
#print axioms CardVerif.C14.rake_equal
#print axioms CardVerif.C14.rake_le_contribution
#print axioms CardVerif.C14.order_preserved
#print axioms CardVerif.C14.rake_nonneg_exact
#print axioms CardVerif.C14.rake_mono_exact
#print axioms CardVerif.C14.rake_total_le_cap_exact
#print axioms CardVerif.C14.rake_total_le_fraction_exact
