import CardVerif.Props.C20
#print axioms CardVerif.C20.deckCards_length
#print axioms CardVerif.C20.deckCards_nodup
#print axioms CardVerif.C20.deckCards_valid
#print axioms CardVerif.C20.random_deck
#print axioms CardVerif.C20.deal_hands_partition
#print axioms CardVerif.C20.deal_hands_sizes
#print axioms CardVerif.C20.deal_hands_nodup
#print axioms CardVerif.C20.gin_deal_accept_iff
#print axioms CardVerif.C20.gin_deal_partition
