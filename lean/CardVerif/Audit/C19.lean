import CardVerif.Props.C19
#print axioms CardVerif.C19.ricky_zero_iff
#print axioms CardVerif.C19.ricky_value
#print axioms CardVerif.C19.sort_hand_perm
#print axioms CardVerif.C19.sort_hand_melds_first
