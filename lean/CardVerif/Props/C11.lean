import CardModel.Spec.GinRules
import CardVerif.Proofs.GinScoring
/-!
# C11 — gin ending and scoring

A game ends exactly on gin, a knock, or the wall (stock at its end size with the permitted passes through the deck
used up, or the turn limit), and not otherwise; the points follow the rules; the winner shows zero; a gin made on
the last permitted turn still scores as gin.  `dw`/`a`/`b` are the engine's deadwood values (C08, C12, C19 say
what they are).
-/
namespace CardVerif.C11
open CardVerif CardVerif.Gin

def IsShuffle (shuffle : List Card → List Card) : Prop := ∀ l, (shuffle l).Perm l

/-- passing and drawing never end the game -/
theorem pass_draw_never_end (g g' : GState) (hc : g.complete = false)
    (h : g.firstTurnPass = .ok g' ∨ ∃ d, g.drawCard d = .ok g') : g'.complete = false := by
  rw [pass_draw_complete h, hc]

/-- a discard ends the game exactly on gin, at the turn limit, or (rummy, no knock offer) when the stock is down
to its end size; gin has priority and scores the opponent's deadwood plus the gin bonus; otherwise 0–0 -/
theorem discard_end (shuffle : List Card → List Card) (hs : IsShuffle shuffle) {g0 g g' : GState} (hd : Deal g0)
    (h : Reach shuffle g0 g) (hc : g.complete = false) (c : Card) (hp : g.discardCard shuffle c = .ok g') :
    ∃ dw : Int, getDeadwood g.params.variant ((g.handOf g.turn.owner).filter (· != c)) none none = .ok dw ∧
      (g'.complete = true ↔
        dw = 0 ∨ g.hitsTurnLimit ∨
        (g.params.variant = .rummy ∧ 10 < dw ∧ g.deck.length = g.params.endCardsInDeck)) ∧
      (g'.complete = true → dw = 0 →
        ∃ od : Int, getDeadwood g.params.variant (g.handOf (!g.turn.owner)) none none = .ok od ∧
          (g'.p1Points, g'.p2Points) =
            (if g.turn.owner then (some 0, some (od + g.params.ginBonus))
             else (some (od + g.params.ginBonus), some 0))) ∧
      (g'.complete = true → dw ≠ 0 → (g'.p1Points, g'.p2Points) = (some 0, some 0)) := by
  exact discardCard_end (reach_inv hs hd h).variant hc hp

/-- a knock ends the game: the difference of the deadwoods against the defender – or, when the defender's
deadwood (after lay-offs) is not greater, the difference plus the undercut bonus against the knocker -/
theorem knock_end (shuffle : List Card → List Card) (g g' : GState) (ms : Option (List (List Card)))
    (ht : g.turn.isKnock = true) (hp : g.decideKnock shuffle true ms = .ok g') :
    ∃ kd od : Int,
      getDeadwood g.params.variant (g.handOf g.turn.owner) ms none = .ok kd ∧
      getDeadwood g.params.variant (g.handOf (!g.turn.owner)) none ms = .ok od ∧
      g'.complete = true ∧
      (let k := if od ≤ kd then kd + g.params.underknockBonus else kd
       let (x, y) := normPoints k od
       (g'.p1Points, g'.p2Points) = if g.turn.owner then (some x, some y) else (some y, some x)) := by
  have _ := ht  -- implied by `hp`; kept in the statement for readability
  obtain ⟨kd, od, hkd, hod, hc, hpts⟩ := decideKnock_true_end hp
  exact ⟨kd, od, hkd, hod, hc, hpts⟩

/-- a declined knock ends the game exactly at the wall, 0–0 -/
theorem decline_end (shuffle : List Card → List Card) (g g' : GState) (ms : Option (List (List Card)))
    (hp : g.decideKnock shuffle false ms = .ok g') (hc : g.complete = false) :
    (g'.complete = true ↔ g.deck.length = g.params.endCardsInDeck ∧
        ∃ m, g.params.maxShuffles = some m ∧ m ≤ g.shuffles + 1) ∧
    (g'.complete = true → (g'.p1Points, g'.p2Points) = (some 0, some 0)) := by
  exact decideKnock_false_end hp hc

/-- the winner always shows zero points and nobody shows a negative score -/
theorem winner_zero (shuffle : List Card → List Card) (hs : IsShuffle shuffle) {g0 g : GState} (hd : Deal g0)
    (h : Reach shuffle g0 g) (hc : g.complete = true) :
    ∃ x y : Int, g.p1Points = some x ∧ g.p2Points = some y ∧ 0 ≤ x ∧ 0 ≤ y ∧ (x = 0 ∨ y = 0) := by
  exact reach_goodScore hs hd h hc

end CardVerif.C11
