import CardModel.Spec.RakeLayers
import CardVerif.Props.C14
import CardVerif.Proofs.RakeLayers
/-!
# C14b — within its bounds the rake charge is exact

"Contribution layers are charged from the bottom up, every contributor to a layer paying the rake fraction
of the layer's height rounded down to whole chips, reduced to an equal whole-chip share of what remains
under the total cap."

`CardModel/Spec/RakeLayers.lean` states this recipe (`RakeSpec.specRake`) without a per-seat vector: the
only running quantity is the number of chips collected so far.  Here the model `Pot.rakePerPlayer`
(transcription of `Pot.get_rake_per_player`) is proved equal to it

* for **every** rounding function `fl`, without any hypothesis on `fl`, `cfg` or the contributions
  (`rake_layers_exact`, `rake_layers_exact_list`, `rake_total_layers`, `rake_stops`);
* in **exact** arithmetic the rounding, Python's `int()` and the early exit disappear: each layer charges
  `min ⌊(cap − collected) / k⌋ ⌊h · f⌋` (`rake_layer_charge_exact`, `rake_layers_exact_id`), never a negative
  amount, never more than `⌊h · f⌋`, and nothing at all for the empty "layer" below a zero contribution
  (`rake_layer_bounds_exact`, `rake_zero_layer_exact`).
-/
namespace CardVerif.C14
open CardVerif CardVerif.Pot CardVerif.RakeSpec

/-- **exactness, per seat, any rounding**: a seat pays the charges of the layers it contributed to -/
theorem rake_layers_exact (fl : Rat → Rat) (cfg : RakeCfg) (bal : List Int) (p : Nat)
    (hp : p < bal.length) :
    getI (rakePerPlayer fl cfg bal true) p = specRake fl cfg bal p := by
  rw [rl_rakePerPlayer, rl_getI_rakeLoop fl cfg bal _ p hp _ _ (by simp), getI_map_zero,
    sumI_map_zero]
  simp [specRake, charges, rl_seatSum]

/-- the same for the whole rake vector -/
theorem rake_layers_exact_list (fl : Rat → Rat) (cfg : RakeCfg) (bal : List Int) :
    rakePerPlayer fl cfg bal true = (List.range bal.length).map (specRake fl cfg bal) := by
  have hl := rake_length fl cfg bal true
  refine List.ext_getElem (by simp [hl]) ?_
  intro p h1 h2
  have hp : p < bal.length := by rw [← hl]; exact h1
  have := rake_layers_exact fl cfg bal p hp
  simp only [getI, List.getElem?_eq_getElem h1] at this
  simp [this]

/-- **exactness, in total, any rounding**: the rake collected is the sum over the layers of
`contributors * charge` -/
theorem rake_total_layers (fl : Rat → Rat) (cfg : RakeCfg) (bal : List Int) :
    sumI (rakePerPlayer fl cfg bal true) = specTotal fl cfg bal := by
  rw [rl_rakePerPlayer, rl_sumI_rakeLoop fl cfg bal _ _ _ (by simp), sumI_map_zero]
  simp [specTotal, charges, rl_totalSum]

/-- the early exit of the code: once nothing is left under the cap, no further layer is charged -/
theorem rake_stops (fl : Rat → Rat) (cfg : RakeCfg) (bal : List Int) (mtr : Rat)
    (layers : List (Int × Int)) (collected : Int) (h : fl (mtr - (collected : Rat)) = 0) :
    ∀ Lr ∈ layerCharges fl cfg bal mtr layers collected, Lr.2 = 0 :=
  rl_stop fl cfg bal mtr layers collected h

/-! ### exact arithmetic -/

/-- **each layer's charge in exact arithmetic** is `min ⌊(cap − collected) / k⌋ ⌊h · f⌋`, all quantities
being the exact rationals: `fl`, `pyInt` and the `left = 0` test are gone (see `exactLayerCharges`) -/
theorem rake_layer_charge_exact (cfg : RakeCfg) (bal : List Int)
    (hf0 : 0 ≤ cfg.f) (hcap : 0 ≤ cfg.cap) (hbal : ∀ b ∈ bal, 0 ≤ b) :
    charges id cfg bal = exactCharges cfg bal := by
  unfold charges exactCharges
  rw [← rl_exactCap]
  refine rl_layerCharges_id cfg hf0 bal _ _ 0
    (fun Lh hm => (rl_heights_nonneg _ 0 (levels_chain hbal) Lh hm).1) ?_
  simpa using maxTotalRake_id_nonneg cfg bal hf0 hcap hbal

/-- the model against the rounding-free recipe -/
theorem rake_layers_exact_id (cfg : RakeCfg) (bal : List Int)
    (hf0 : 0 ≤ cfg.f) (hcap : 0 ≤ cfg.cap) (hbal : ∀ b ∈ bal, 0 ≤ b) (p : Nat) (hp : p < bal.length) :
    getI (rakePerPlayer id cfg bal true) p =
      sumI (((exactCharges cfg bal).filter fun (L, _) => decide (L ≤ getI bal p)).map fun (_, r) => r) := by
  rw [rake_layers_exact id cfg bal p hp, specRake, rake_layer_charge_exact cfg bal hf0 hcap hbal]

/-- in exact arithmetic a layer never charges a negative amount, nor more than `⌊h · f⌋` for its height `h`
(which is non-negative and at most the layer's top) -/
theorem rake_layer_bounds_exact (cfg : RakeCfg) (bal : List Int)
    (hf0 : 0 ≤ cfg.f) (hcap : 0 ≤ cfg.cap) (hbal : ∀ b ∈ bal, 0 ≤ b) :
    ∀ Lr ∈ charges id cfg bal, ∃ h, (Lr.1, h) ∈ layersOf bal ∧ 0 ≤ h ∧ h ≤ Lr.1 ∧
      0 ≤ Lr.2 ∧ Lr.2 ≤ ((h : Rat) * cfg.f).floor := by
  intro Lr hm
  have hh := rl_heights_nonneg (levels bal) 0 (levels_chain hbal)
  obtain ⟨h, hmem, h0, h1⟩ := rl_exact_bounds cfg hf0 bal _ (layersOf bal) 0
    (fun Lh hm => (hh Lh hm).1)
    (by simpa using maxTotalRake_id_nonneg cfg bal hf0 hcap hbal) Lr hm
  have := hh _ hmem
  exact ⟨h, hmem, this.1, by simpa using this.2, h0, h1⟩

/-- a seat that contributed nothing makes `0` a level; that "layer" has no height and charges nothing -/
theorem rake_zero_layer_exact (cfg : RakeCfg) (bal : List Int)
    (hf0 : 0 ≤ cfg.f) (hcap : 0 ≤ cfg.cap) (hbal : ∀ b ∈ bal, 0 ≤ b) (r : Int)
    (hm : (0, r) ∈ charges id cfg bal) : r = 0 := by
  obtain ⟨h, _, h0, h1, hr0, hr1⟩ := rake_layer_bounds_exact cfg bal hf0 hcap hbal (0, r) hm
  have hh : h = 0 := by simp only at h1; omega
  subst hh
  simp only [Int.cast_zero, zero_mul] at hr1
  rw [show Rat.floor 0 = 0 from by decide] at hr1
  simp only at hr0
  omega

/-! ### non-vacuity: rake 1/2, four seats, three layers `(top, height) = (2,2), (6,4), (10,4)` -/

example : layersOf [2, 6, 6, 10] = [(2, 2), (6, 4), (10, 4)] := by decide +kernel

/-- cap 7 binds in the second layer (`⌊3/3⌋ = 1 < ⌊4/2⌋ = 2`) and leaves nothing for the third -/
example : charges id ⟨1/2, 7⟩ [2, 6, 6, 10] = [(2, 1), (6, 1), (10, 0)]
    ∧ (List.range 4).map (specRake id ⟨1/2, 7⟩ [2, 6, 6, 10]) = [1, 2, 2, 2]
    ∧ specTotal id ⟨1/2, 7⟩ [2, 6, 6, 10] = 7
    ∧ rakePerPlayer id ⟨1/2, 7⟩ [2, 6, 6, 10] true = [1, 2, 2, 2] := by decide +kernel

/-- cap 5: the second layer's equal share of the remaining chip is `⌊1/3⌋ = 0`, the third layer's single
contributor pays it -/
example : charges id ⟨1/2, 5⟩ [2, 6, 6, 10] = [(2, 1), (6, 0), (10, 1)]
    ∧ exactCharges ⟨1/2, 5⟩ [2, 6, 6, 10] = [(2, 1), (6, 0), (10, 1)]
    ∧ (List.range 4).map (specRake id ⟨1/2, 5⟩ [2, 6, 6, 10]) = [1, 1, 1, 2]
    ∧ specTotal id ⟨1/2, 5⟩ [2, 6, 6, 10] = 5
    ∧ rakePerPlayer id ⟨1/2, 5⟩ [2, 6, 6, 10] true = [1, 1, 1, 2] := by decide +kernel

/-- the zero level is part of the code's loop and, for a rounding with `fl 0 ≠ 0`, it is charged: the
specification must (and does) keep it -/
example : charges (fun x => if x = 0 then 3 else x) ⟨1/2, 5⟩ [0, 6, 6, 10] = [(0, 1), (6, 0), (10, 1)]
    ∧ rakePerPlayer (fun x => if x = 0 then 3 else x) ⟨1/2, 5⟩ [0, 6, 6, 10] true = [1, 1, 1, 2] := by
  decide +kernel

end CardVerif.C14
