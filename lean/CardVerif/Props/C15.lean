import CardModel.Spec.Legality
import CardVerif.Proofs.Replay
import CardVerif.Proofs.ResetIdem
/-!
# C15 — replay and snapshot

* `log_grows` – the action log is exactly the accepted actions with their amounts filled in.
* `replay` – rebuilding a hand from the same inputs and its own log (`from_action_dicts`) yields the identical state
  (stacks, pot, street, seat to act, board, deck, completion flag, payouts, log – everything), with the same injected
  randomness.
* `resume` – for a hand in progress, the constructor applied to the serialisable fields (stacks, pot contributions,
  street, seat to act, last actions, board, deck, log) yields the identical state; hence every continuation behaves
  identically (`resume_bisim`).  A *completed* hand cannot be resumed this way: open finding F9.
* `reset_own_log`, `reset_idempotent` – re-applying a hand's own log to the *same object* (`reset_state_from_action_dicts`,
  which keeps the object's board and deck) reproduces the object exactly, any number of times.
-/
namespace CardVerif.C15
open CardVerif CardVerif.Betting

-- `hw` is kept in the statement of `resume`, which turns out not to need it
set_option linter.unusedVariables false

/-- the log entry as the operation that is replayed -/
def opOf (e : LogEntry) : Op := ⟨e.player, some e.act, some e.amount⟩

theorem log_grows (env : Env) (hw : env.w = World.std) (s s' : State) (hwf : s.WF) (p : Int) (ty : Option ActType)
    (amt : Option Int) (h : s.act env p ty amt = .ok s') :
    ∃ e : LogEntry, s'.log = s.log ++ [e] ∧ e.player = p ∧ ty = some e.act ∧ (∀ x, amt = some x → e.amount = x) := by
  obtain ⟨t, x, hty, hlog, hx, _⟩ := act_filled_amount hw hwf h
  exact ⟨⟨p, t, x⟩, hlog, rfl, hty, hx⟩

/-- replaying an accepted action with its amount filled in has the same effect -/
theorem act_filled (env : Env) (hw : env.w = World.std) (s s' : State) (hwf : s.WF) (p : Int) (ty : Option ActType)
    (amt : Option Int) (h : s.act env p ty amt = .ok s') (e : LogEntry) (he : s'.log = s.log ++ [e]) :
    s.act env (opOf e).player (opOf e).ty (opOf e).amount = .ok s' := by
  obtain ⟨t, x, _, hlog, _, hre⟩ := act_filled_amount hw hwf h
  rw [hlog] at he
  have he' : e = ⟨p, t, x⟩ := by
    have := List.append_cancel_left he
    simpa using this.symm
  subst he'
  exact hre

theorem replay (env : Env) (cfg : Cfg) (hw : env.w = World.std) (hv : cfg.Valid) {s : State}
    (h : Reachable env cfg s) : fromActionDicts env cfg (s.log.map opOf) = .ok s := by
  exact fromActionDicts_log hw hv h

/-- the configuration handed to the constructor when resuming from `s` -/
def resumeCfg (cfg : Cfg) (s : State) : Cfg := { cfg with deck := s.deck, board := s.board, blinds := some s.blinds }

theorem resume (env : Env) (cfg : Cfg) (hw : env.w = World.std) (hv : cfg.Valid) {s : State}
    (h : Reachable env cfg s) (hc : s.complete = false) (a : Nat) (ha : s.action = some a) :
    construct (resumeCfg cfg s) (some ⟨s.stacks, s.pot, s.street, a, s.lastActions, s.log⟩) = .ok s := by
  exact construct_snapshot hv h hc ha

/-- consequently the resumed hand accepts and rejects the same actions and reaches the same results, for ever -/
theorem resume_bisim (env : Env) (cfg : Cfg) (hw : env.w = World.std) (hv : cfg.Valid) {s r : State}
    (h : Reachable env cfg s) (hc : s.complete = false) (a : Nat) (ha : s.action = some a)
    (hr : construct (resumeCfg cfg s) (some ⟨s.stacks, s.pot, s.street, a, s.lastActions, s.log⟩) = .ok r)
    (ops : List Op) :
    ops.foldlM (fun st o => st.act env o.player o.ty o.amount) r =
    ops.foldlM (fun st o => st.act env o.player o.ty o.amount) s := by
  rw [resume env cfg hw hv h hc a ha] at hr
  rw [Except.ok.inj hr]

/-- re-applying a hand's own log to the same object reproduces the object -/
theorem reset_own_log (env : Env) (cfg : Cfg) (hw : env.w = World.std) (hv : cfg.Valid) {s : State}
    (h : Reachable env cfg s) : s.resetFromActionDicts env (s.log.map opOf) = .ok s :=
  Betting.reset_own_log env cfg hw hv h

/-- ... any number of times -/
theorem reset_idempotent (env : Env) (cfg : Cfg) (hw : env.w = World.std) (hv : cfg.Valid) {s : State}
    (h : Reachable env cfg s) (k : Nat) : iterReset env (s.log.map opOf) k s = .ok s :=
  Betting.reset_idempotent env cfg hw hv h k

end CardVerif.C15
