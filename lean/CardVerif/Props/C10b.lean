import CardVerif.Props.C10
import CardVerif.Props.C17b
import CardVerif.Proofs.GinInvH
/-!
# C10b — the gin turn protocol for games restored from an explicit public card map

`C10.lean` assumes a fresh `Deal g0`.  Here the same six statements are proved for every game handed to the
constructor with an explicit map (`DealH g0`: any observable turn, any pile, any truthful map).

**No statement had to be adjusted**: each `…_from` theorem is literally the theorem of `C10.lean` with `Deal` replaced
by `DealH`.

* `accept_iff_allowed_from` – neither acceptance nor `Allowed` looks at `lastDraw` (the only thing a game restored
  on a discard turn lacks) or at the counters; what acceptance does look at – hand sizes at a draw / discard, a stock
  card for the forced draw after the second pass, the variant at a knock decision – is in `DealH` and is preserved;
* `pass_next_from` – compares the turn with the recorded first turn, which for a restored game is the turn it was
  restored at.  A pass is accepted on an opening turn only, and an opening turn occurs only in a game restored on an
  opening turn (`C09.first_turn_from`), so `firstTurn` is an opening turn whenever the statement says anything;
  `turns` counts from the restart (`g'.turns = g.turns + 1` is relative);
* `draw_next_from`, `discard_next_rummy_from`, `discard_next_ricky_from`, `decline_next_from` – hold for every state
  (the reachability hypotheses are kept, as in `C10.lean`, for uniformity).

`pass_never_from` is the one thing specific to restored games: picked up after the opening, a game never accepts a
pass again.
-/
namespace CardVerif.C10
open CardVerif CardVerif.Gin

-- the statements keep the reachability hypotheses even where a proof does not need them
set_option linter.unusedVariables false

/-- **accepted iff allowed**, in every in-progress state of a game restored at any observable turn -/
theorem accept_iff_allowed_from (shuffle : List Card → List Card) (hs : IsShuffle shuffle) {g0 g : GState}
    (hd : DealH g0) (h : Reach shuffle g0 g) (hc : g.complete = false) (m : Move) :
    (∃ g', g.apply shuffle m = .ok g') ↔ Allowed g m := by
  have hi := gih_reach_inv hs hd h
  exact gih_accept_iff_allowed shuffle hi.variant hi.nodup (hi.live hc) m

/-- first pass: the other player gets the opening option; second pass: the first player draws the top stock card
and must discard ("first" = the player on turn when the game was restored) -/
theorem pass_next_from (shuffle : List Card → List Card) (hs : IsShuffle shuffle) {g0 g g' : GState} (hd : DealH g0)
    (h : Reach shuffle g0 g) (hc : g.complete = false) (hp : g.firstTurnPass = .ok g') :
    g'.complete = false ∧ g'.turns = g.turns + 1 ∧
    (g.turn = g.firstTurn → g'.turn = oppDrawsFirst g.turn.owner ∧ g'.deck = g.deck ∧ g'.p1 = g.p1 ∧ g'.p2 = g.p2) ∧
    (g.turn ≠ g.firstTurn → g'.turn = ownDiscards g.firstTurn.owner ∧
        ∃ c rest, g.deck = c :: rest ∧ g'.deck = rest ∧ g'.handOf g.firstTurn.owner = g.handOf g.firstTurn.owner ++ [c]) := by
  exact gih_pass_next (gih_reach_inv hs hd h).first_draw hc hp

/-- a draw is followed by the drawer's discard -/
theorem draw_next_from (shuffle : List Card → List Card) (hs : IsShuffle shuffle) {g0 g g' : GState} (hd : DealH g0)
    (h : Reach shuffle g0 g) (hc : g.complete = false) (d : Bool) (hp : g.drawCard d = .ok g') :
    g'.complete = false ∧ g'.turn = ownDiscards g.turn.owner := by
  exact draw_next_of_ok hc hp

/-- gin rummy: after a discard the player is offered the knock decision exactly when his deadwood is ten or less;
otherwise the opponent draws.  (`dw` is the best-split deadwood of the hand after discarding.) -/
theorem discard_next_rummy_from (shuffle : List Card → List Card) (hs : IsShuffle shuffle) {g0 g g' : GState}
    (hd : DealH g0) (h : Reach shuffle g0 g) (hc : g.complete = false) (hv : g.params.variant = .rummy) (c : Card)
    (hp : g.discardCard shuffle c = .ok g') (hc' : g'.complete = false) :
    ∃ cand, splitMelds ((g.handOf g.turn.owner).filter (· != c)) = .ok cand ∧
      g'.turn = (if cand.deadwood ≤ 10 then ownMayKnock g.turn.owner else oppDraws g.turn.owner) := by
  obtain ⟨dw, hdw, ht⟩ := discard_next_of_ok hp
  rw [hv] at hdw ht
  obtain ⟨cand, hcand, hdw'⟩ := getDeadwood_rummy_split ((g.handOf g.turn.owner).filter (· != c))
  rw [hdw'] at hdw
  injection hdw with hdw
  subst hdw
  refine ⟨cand, hcand, ?_⟩
  rw [ht, discardTurn]
  by_cases h10 : cand.deadwood ≤ 10
  · rw [if_pos ⟨rfl, by omega⟩, if_pos h10]
  · rw [if_neg (fun h => h10 (by omega)), if_neg h10]

/-- gin ricky: after a discard the opponent draws -/
theorem discard_next_ricky_from (shuffle : List Card → List Card) (hs : IsShuffle shuffle) {g0 g g' : GState}
    (hd : DealH g0) (h : Reach shuffle g0 g) (hc : g.complete = false) (hv : g.params.variant = .ricky) (c : Card)
    (hp : g.discardCard shuffle c = .ok g') : g'.turn = oppDraws g.turn.owner := by
  obtain ⟨dw, -, ht⟩ := discard_next_of_ok hp
  rw [ht, hv, discardTurn, if_neg (by simp)]

/-- a declined knock passes the draw to the opponent (unless the wall ends the game) -/
theorem decline_next_from (shuffle : List Card → List Card) (hs : IsShuffle shuffle) {g0 g g' : GState}
    (hd : DealH g0) (h : Reach shuffle g0 g) (hc : g.complete = false) (ms : Option (List (List Card)))
    (hp : g.decideKnock shuffle false ms = .ok g') (hc' : g'.complete = false) :
    g'.turn = oppDraws g.turn.owner := by
  exact decline_next_of_ok hp hc'

/-- a game restored after the opening never accepts a pass -/
theorem pass_never_from (shuffle : List Card → List Card) (hs : IsShuffle shuffle) {g0 g : GState} (hd : DealH g0)
    (h0 : g0.turn.isFirstDraw = false) (h : Reach shuffle g0 g) (g' : GState) : g.firstTurnPass ≠ .ok g' := by
  intro hp
  have h1 := (firstTurnPass_ok.1 hp).1
  rw [(gih_reach_inv hs hd h).no_first_draw h0] at h1
  cases h1

/-! ## the theorems of `C10.lean` are instances -/

example (shuffle : List Card → List Card) (hs : IsShuffle shuffle) {g0 g : GState} (hd : Deal g0)
    (h : Reach shuffle g0 g) (hc : g.complete = false) (m : Move) :
    (∃ g', g.apply shuffle m = .ok g') ↔ Allowed g m :=
  accept_iff_allowed_from shuffle hs (C17.deal_is_dealH hd) h hc m

example (shuffle : List Card → List Card) (hs : IsShuffle shuffle) {g0 g g' : GState} (hd : Deal g0)
    (h : Reach shuffle g0 g) (hc : g.complete = false) (hp : g.firstTurnPass = .ok g') :
    g'.complete = false ∧ g'.turns = g.turns + 1 ∧
    (g.turn = g.firstTurn → g'.turn = oppDrawsFirst g.turn.owner ∧ g'.deck = g.deck ∧ g'.p1 = g.p1 ∧ g'.p2 = g.p2) ∧
    (g.turn ≠ g.firstTurn → g'.turn = ownDiscards g.firstTurn.owner ∧
        ∃ c rest, g.deck = c :: rest ∧ g'.deck = rest ∧ g'.handOf g.firstTurn.owner = g.handOf g.firstTurn.owner ++ [c]) :=
  pass_next_from shuffle hs (C17.deal_is_dealH hd) h hc hp

/-! ## non-vacuity: a gin ricky game restored with the empty map on player 1's discard turn (`C17.exDeal`) -/

/-- restored with eight cards in hand, player 1 may discard any of them – here the first, the two of suit 0 – and
nothing else: a draw, a pass and a discard of a card he does not hold are rejected -/
example (shuffle : List Card → List Card) (hs : IsShuffle shuffle) :
    ∃ g0, C17.exDeal .p1Discards [] = .ok g0 ∧ DealH g0 ∧
      (∃ g', g0.apply shuffle (.discard ⟨2, 0⟩) = .ok g') ∧
      (¬ ∃ g', g0.apply shuffle (.discard ⟨14, 3⟩) = .ok g') ∧
      (∀ d, ¬ ∃ g', g0.apply shuffle (.draw d) = .ok g') ∧ (¬ ∃ g', g0.apply shuffle .pass = .ok g') := by
  have hd : DealH _ := C17.exDeal_dealH (turn := .p1Discards) (hud0 := []) rfl rfl rfl List.nodup_nil
    (fun _ h => by cases h)
  have key := accept_iff_allowed_from shuffle hs hd .init rfl
  refine ⟨_, rfl, hd, ?_, ?_, ?_, ?_⟩
  · rw [key]
    exact ⟨rfl, by decide⟩
  · rw [key]
    rintro ⟨-, hm⟩
    revert hm
    decide
  · intro d
    rw [key]
    cases d
    · rintro ⟨ht, -⟩; cases ht
    · rintro ⟨ht | ht, -⟩ <;> cases ht
  · rw [key]
    intro ht
    cases ht

end CardVerif.C10
