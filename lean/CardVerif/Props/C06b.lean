import CardVerif.Props.C06
import CardVerif.Proofs.Omaha.FastDecomp
import CardVerif.Proofs.Omaha.FastPerm2
import CardVerif.Proofs.Omaha.SpecDecomp
import CardVerif.Proofs.Omaha.Tables
import CardVerif.Proofs.Omaha.Assemble
import CardVerif.Proofs.SymPoker
import CardVerif.Props.C13
/-!
# C06, hard half — the optimised Omaha evaluator returns the rules' strength on every deal

Structure of the proof (`Proofs/Omaha/`): the evaluator's cascade is the lexicographic maximum of a suit-free part `fastR`
(a function of the two rank lists) and a flush part `fastF` (a function of the ranks held in the one suit with three or
more board cards) — `FastDecomp`; the rules' strength splits the same way into `specR` and `specF` — `SpecDecomp`; all
four are invariant under reordering their arguments — `FastPerm1/2`, `SpecDecomp.bestV_perm`; on every ascending rank
pattern in which no value occurs five times (10,995,985 of 11,262,160 enumerated) `fastR = specR`, and on every pair of
disjoint strictly ascending flush-rank sets (503,217) `fastF = specF` — `Tables`; `Assemble` sorts the ranks of an
arbitrary valid deal into the tables' domain.

**Trusted base of this file only:** the two finite tables are evaluated by compiled code (`native_decide`, 70 theorems
`OmahaD.tabR_*` / `OmahaD.tabF_*` in `Proofs/OmahaTab*.lean`), so `omaha_fast_eq_spec` and its corollaries depend, besides
propext / Classical.choice / Quot.sound, on one `._native.native_decide.ax_*` axiom per table chunk, i.e. on the Lean
compiler and the native code of the `CardModel` library.  Everything else (decomposition, order independence, covering
lemmas, assembly) is checked by the kernel alone.  No other property uses `native_decide`.

`plo_no_internal_error(_f53)` is the C13 statement "an accepted action never ends in an internal error" for Omaha with
this evaluator (the one the game code and the native driver run); it lives here, not in `Props/C13.lean`, because the
evaluator's totality on valid deals is `omaha_fast_eq_spec` and so inherits the table axioms.
-/
namespace CardVerif.C06
open CardVerif CardVerif.Strength CardVerif.OmahaD

/-- `get_hand_strength_fast(board, hand)` = the best key among the 60 legal five-card hands, for every valid deal -/
theorem omaha_fast_eq_spec (board hand : List Card) (hd : DealOK board hand 4) :
    Omaha.handStrengthFast board hand = .ok (omahaSpec board hand) :=
  asm_omaha_fast_eq_spec board hand hd

/-- the optimised evaluator and the brute-force evaluator agree on every valid deal -/
theorem omaha_fast_eq_brute (board hand : List Card) (hd : DealOK board hand 4) :
    Omaha.handStrengthFast board hand = Eval.omahaBrute board hand := by
  rw [omaha_fast_eq_spec board hand hd, omaha_brute_eq_spec board hand hd]

/-- consequently the optimised evaluator is blind to suit names and to the order of the cards (C18 for this evaluator) -/
theorem omaha_fast_sym (σ : Nat → Nat) (hσ : Sym.SuitPerm σ) (b b' h h' : List Card) (hd : DealOK b h 4)
    (hb : Sym.Image σ b b') (hh : Sym.Image σ h h') :
    Omaha.handStrengthFast b' h' = Omaha.handStrengthFast b h := by
  rw [omaha_fast_eq_spec b' h' (Sym.dealOK_image hσ hd hb hh), omaha_fast_eq_spec b h hd,
    Sym.omahaSpec_image hσ (Sym.dealOK_suits hd) hb hh]

section C13
open CardVerif.Betting

/-- the optimised evaluator never fails on distinct valid cards -/
theorem rankTotalOn_omahaFast : RankTotalOn .plo Omaha.handStrengthFast :=
  fun board hand hb hh hnd hval => ⟨_, omaha_fast_eq_spec board hand ⟨hb, hh, hnd, hval⟩⟩

/-- **C13 `no_internal_error` for Omaha with the optimised evaluator**: an action that `append_action` accepts is
carried through `advance_action` without any error, cards dealt from one deck; no hypothesis on the evaluator -/
theorem plo_no_internal_error (env : Env) (cfg : Cfg) (hw : env.w = World.std) (hfl : C14.FlSpec env.fl)
    (hv : cfg.Valid) (hd : cfg.Dealt) (hg : cfg.game = .plo) (hr : env.rankFn = Omaha.handStrengthFast)
    {s s1 : State} (h : Reachable env cfg s)
    (p : Int) (ty : Option ActType) (amt : Option Int) (h1 : s.appendAction env.w p ty amt = .ok s1) :
    ∃ s', s1.advanceAction env = .ok s' :=
  C13.no_internal_error_on env cfg hw hfl hv hd (by rw [hg, hr]; exact rankTotalOn_omahaFast) h p ty amt h1

/-- `plo_no_internal_error` for IEEE doubles (what the native driver executes), at most `2^53` chips on the table -/
theorem plo_no_internal_error_f53 (env : Env) (cfg : Cfg) (hw : env.w = World.std)
    (hfl : env.fl = Float53.rnd) (hv : cfg.Valid) (hB : sumI cfg.startingStacks ≤ 2 ^ 53) (hd : cfg.Dealt)
    (hg : cfg.game = .plo) (hr : env.rankFn = Omaha.handStrengthFast)
    {s s1 : State} (h : Reachable env cfg s)
    (p : Int) (ty : Option ActType) (amt : Option Int) (h1 : s.appendAction env.w p ty amt = .ok s1) :
    ∃ s', s1.advanceAction env = .ok s' :=
  C13.no_internal_error_on_f53 env cfg hw hfl hv hB hd (by rw [hg, hr]; exact rankTotalOn_omahaFast) h p ty amt h1

end C13

/-- non-vacuity: a concrete deal meets the hypothesis (royal flush on board + two hole cards of the suit) -/
example : DealOK [⟨14, 0⟩, ⟨13, 0⟩, ⟨12, 0⟩, ⟨7, 1⟩, ⟨2, 2⟩] [⟨11, 0⟩, ⟨10, 0⟩, ⟨3, 3⟩, ⟨4, 3⟩] 4 :=
  ⟨by decide, by decide, by decide, by decide⟩

end CardVerif.C06
