import CardVerif.Props.C01
import CardVerif.Props.C03
import CardVerif.Props.C04
import CardVerif.Props.C13
import CardVerif.Props.C15
import CardVerif.Props.C15b
import CardVerif.Props.C16
/-!
# Non-vacuity witnesses for C01, C03, C04, C13, C15, C15b, C16 (betting state machine)

No VACUITY FINDING: every property theorem of the seven files is applied below to a concrete, non-degenerate
instance all of whose hypotheses are proved.

NOTE on `RankTotal` (hypothesis `hrank` of `C13.no_internal_error`, `_B`, `_f53`): it is satisfiable (a total evaluator
is used below) but **not by the library's own evaluators** `Eval.holdemBrute` / `Eval.omahaBrute`, because it
quantifies over arbitrary card lists, duplicates included, and `five_card_hand_rank` fails on e.g. seven deuces
(`H.holdemBrute_not_rankTotal`, `H.omahaBrute_not_rankTotal`).  Those three theorems therefore do not apply verbatim to
the evaluator the driver runs; their witnesses use `rankT` / `rankTO`, the library evaluator with an error mapped to the
lowest rank, which coincide with it on the deals played here (checked).
The real evaluators are covered by `C13.no_internal_error_on` (hypothesis `RankTotalOn`: success on distinct valid cards,
plus `cfg.Dealt`) and its hypothesis-free instances `C13.no_internal_error_nlhe(_brute)(_f53)`,
`C13.no_internal_error_plo_brute(_f53)`; section `C13R` below applies them to the hand `H` played with
`Eval.holdemStrength` and with `Eval.holdemBrute` (the driver's `rankFnOf .nlhe`), exact rationals and IEEE doubles,
at the river check that triggers the showdown, and to the PLO hand `A` played with `Eval.omahaBrute`.
(`C06.plo_no_internal_error`, the optimised Omaha evaluator, is witnessed where the table axioms are allowed.)

Instances:
* `H`  – four-handed NLHE, stacks 300/40/500/200, ante 1, blinds 5/10, rake 5 % cap 10; fourteen actions: raise, fold,
         call, short all-in re-raise, calls, flop bet/call, turn check/bet/raise/call, river check/check; showdown with a
         main pot (seat 1) and a side pot (seat 0), rake 4+1+4.  Played with exact rationals and with IEEE doubles.
* `A`  – three-handed PLO, stacks 31/26/60, pot-sized raise and two all-in calls before the flop, two run-outs,
         `fl = Float53.rnd`, rake fraction the double 0.05; fractional payouts 95/2, 75/2, 4.
* `HU` – heads-up PLO with ante, blinds given small-first (flipped by the constructor).
-/
namespace CardVerif.Witness.Betting
open CardVerif CardVerif.Betting

-- decidable equality of states (payouts are exact rationals): whole-state equations are then checked by the kernel
deriving instance DecidableEq for Pot.RakeCfg
deriving instance DecidableEq for State

/-! ## the shared instance `H`: four-handed NLHE, ante, short all-in, side pot, rake

Seats 0..3 hold A♠A♥ / K♣K♠ / Q♥J♥ / 8♦3♣ and start with 300 / 40 / 500 / 200 chips; ante 1, blinds 5 / 10
(seat 0 small, seat 1 big), rake 5 % capped at 10, one run-out.  Pre-flop: seat 2 raises 30, seat 3 folds, seat 0
calls 25, seat 1 (big blind, 29 behind) raises all-in 29, seats 2 and 0 call 9.  Flop K♦7♣2♠: seat 0 bets 50, seat 2
calls.  Turn 9♥: check, seat 2 bets 60, seat 0 raises 150, seat 2 calls 90.  River 4♣: check, check.  Showdown:
seat 1 (set of kings) takes the main pot, seat 0 (aces) the side pot; rake 4 + 1 + 4 = 9. -/
namespace H

/-- the Hold'em brute-force evaluator of the library, made total (an evaluator error ranks lowest); on every deal
of distinct cards it *is* `Eval.holdemBrute` -/
def rankT : RankFn := fun b h => match Eval.holdemBrute b h with | .ok k => .ok k | .error _ => .ok []

def envOf (fl : Rat → Rat) : Env := ⟨World.std, fl, rankT⟩
/-- exact rational arithmetic -/
def env : Env := envOf id
/-- IEEE doubles, as the native driver runs it -/
def envF : Env := envOf Float53.rnd

def hands : List (List Card) := [[⟨14, 3⟩, ⟨14, 2⟩], [⟨13, 0⟩, ⟨13, 3⟩], [⟨12, 2⟩, ⟨11, 2⟩], [⟨8, 1⟩, ⟨3, 0⟩]]
def deck0 : List Card := [⟨13, 1⟩, ⟨7, 0⟩, ⟨2, 3⟩, ⟨9, 2⟩, ⟨4, 0⟩, ⟨10, 1⟩, ⟨5, 2⟩, ⟨6, 3⟩]

def cfg : Cfg :=
  { game := .nlhe, n := 4, deck := deck0, hands := hands,
    startingStacks := [300, 40, 500, 200], board := [], ante := 1, blinds := some [5, 10], runouts := 1,
    rake := ⟨1/20, 10⟩, sampler := ⟨0, 1⟩ }

/-- a state of the hand: `k` cards of the deck are on the board -/
def st (k : Nat) (street : Nat) (pot stk : List Int) (la : List (Option ActType)) (a : Nat) (log : List LogEntry)
    (pay rk : Option (List Rat) := none) (complete : Bool := false) : State :=
  { game := .nlhe, n := 4, hands := hands, startingStacks := [300, 40, 500, 200], ante := 1, blinds := [5, 10],
    runouts := 1, rake := ⟨1/20, 10⟩, sampler := ⟨0, 1⟩, deck := deck0.drop k, board := deck0.take k,
    «stacks» := stk, pot := pot, lastActions := la, street := street, action := some a, log := log,
    payouts := pay, rakePaid := rk, complete := complete }

def log14 : List LogEntry :=
  [⟨2, .raise, 30⟩, ⟨3, .fold, 0⟩, ⟨0, .call, 25⟩, ⟨1, .raise, 29⟩, ⟨2, .call, 9⟩, ⟨0, .call, 9⟩,
   ⟨0, .bet, 50⟩, ⟨2, .call, 50⟩,
   ⟨0, .check, 0⟩, ⟨2, .bet, 60⟩, ⟨0, .raise, 150⟩, ⟨2, .call, 90⟩,
   ⟨0, .check, 0⟩, ⟨2, .check, 0⟩]

/-- antes and blinds posted; seat 2 (left of the big blind) to act -/
def w0 : State := st 0 0 [6, 11, 1, 1] [294, 29, 499, 199] [none, none, none, none] 2 []
def w1 : State := st 0 0 [6, 11, 31, 1] [294, 29, 469, 199] [none, none, some .raise, none] 3 (log14.take 1)
def w2 : State := st 0 0 [6, 11, 31, 1] [294, 29, 469, 199] [none, none, some .raise, some .fold] 0 (log14.take 2)
def w3 : State := st 0 0 [31, 11, 31, 1] [269, 29, 469, 199] [some .call, none, some .raise, some .fold] 1
  (log14.take 3)
/-- the big blind is all-in for 40, a raise of 9 over 31 -/
def w4 : State := st 0 0 [31, 40, 31, 1] [269, 0, 469, 199] [some .call, some .raise, some .raise, some .fold] 2
  (log14.take 4)
def w5 : State := st 0 0 [31, 40, 40, 1] [269, 0, 460, 199] [some .call, some .raise, some .call, some .fold] 0
  (log14.take 5)
/-- flop dealt; seat 0 first to act -/
def w6 : State := st 3 1 [40, 40, 40, 1] [260, 0, 460, 199] [none, none, none, some .fold] 0 (log14.take 6)
def w7 : State := st 3 1 [90, 40, 40, 1] [210, 0, 460, 199] [some .bet, none, none, some .fold] 2 (log14.take 7)
/-- turn dealt -/
def w8 : State := st 4 2 [90, 40, 90, 1] [210, 0, 410, 199] [none, none, none, some .fold] 0 (log14.take 8)
def w9 : State := st 4 2 [90, 40, 90, 1] [210, 0, 410, 199] [some .check, none, none, some .fold] 2 (log14.take 9)
def w10 : State := st 4 2 [90, 40, 150, 1] [210, 0, 350, 199] [some .check, none, some .bet, some .fold] 0
  (log14.take 10)
def w11 : State := st 4 2 [240, 40, 150, 1] [60, 0, 350, 199] [some .raise, none, some .bet, some .fold] 2
  (log14.take 11)
/-- river dealt -/
def w12 : State := st 5 3 [240, 40, 240, 1] [60, 0, 260, 199] [none, none, none, some .fold] 0 (log14.take 12)
def w13 : State := st 5 3 [240, 40, 240, 1] [60, 0, 260, 199] [some .check, none, none, some .fold] 2 (log14.take 13)
/-- showdown: main pot 121 − 3 to seat 1, side pot 400 − 6 to seat 0 -/
def w14 : State := st 5 4 [240, 40, 240, 1] [60, 0, 260, 199] [none, none, none, some .fold] 0 log14
  (some [394, 118, 0, 0]) (some [4, 1, 4, 0]) true

theorem valid : cfg.Valid where
  n_ge := by decide
  hands_len := rfl
  hole := by decide
  stacks_len := rfl
  stacks_nonneg := by decide
  ante_nonneg := by decide
  blinds_ok := by show (0 : Int) ≤ 5 ∧ (0 : Int) ≤ 10 ∧ ((0 : Int) < 5 ∨ (0 : Int) < 10 ∨ (0 : Int) < 1); decide
  blinds_ordered := by show 4 = 2 ∨ (5 : Int) ≤ 10; decide
  runouts_pos := by decide
  f_nonneg := by decide +kernel
  f_le_one := by decide +kernel
  cap_nonneg := by decide
  board_len := by decide
  cards := by decide

set_option maxRecDepth 8192

theorem h0 : construct cfg = .ok w0 := by rfl
theorem a1 (fl) : w0.act (envOf fl) 2 (some .raise) (some 30) = .ok w1 := by rfl
theorem a2 (fl) : w1.act (envOf fl) 3 (some .fold) none = .ok w2 := by rfl
theorem a3 (fl) : w2.act (envOf fl) 0 (some .call) none = .ok w3 := by rfl
theorem a4 (fl) : w3.act (envOf fl) 1 (some .raise) (some 29) = .ok w4 := by rfl
theorem a5 (fl) : w4.act (envOf fl) 2 (some .call) none = .ok w5 := by rfl
theorem a6 (fl) : w5.act (envOf fl) 0 (some .call) (some 9) = .ok w6 := by rfl
theorem a7 (fl) : w6.act (envOf fl) 0 (some .bet) (some 50) = .ok w7 := by rfl
theorem a8 (fl) : w7.act (envOf fl) 2 (some .call) none = .ok w8 := by rfl
theorem a9 (fl) : w8.act (envOf fl) 0 (some .check) none = .ok w9 := by rfl
theorem a10 (fl) : w9.act (envOf fl) 2 (some .bet) (some 60) = .ok w10 := by rfl
theorem a11 (fl) : w10.act (envOf fl) 0 (some .raise) (some 150) = .ok w11 := by rfl
theorem a12 (fl) : w11.act (envOf fl) 2 (some .call) none = .ok w12 := by rfl
theorem a13 (fl) : w12.act (envOf fl) 0 (some .check) none = .ok w13 := by rfl
theorem a14 : w13.act env 2 (some .check) none = .ok w14 := by decide +kernel
theorem a14F : w13.act envF 2 (some .check) none = .ok w14 := by decide +kernel

/-! ### the hand is reachable (with the ghost "largest raise of the round" next to every state) -/

theorem r0 (fl) : GReachable (envOf fl) cfg ⟨w0, 0⟩ := GReachable.init h0
theorem r1 (fl) : GReachable (envOf fl) cfg ⟨w1, 20⟩ :=
  GReachable.step (g := ⟨w0, 0⟩) 2 (some .raise) (some 30) (r0 fl) (a1 fl)
theorem r2 (fl) : GReachable (envOf fl) cfg ⟨w2, 20⟩ :=
  GReachable.step (g := ⟨w1, 20⟩) 3 (some .fold) none (r1 fl) (a2 fl)
theorem r3 (fl) : GReachable (envOf fl) cfg ⟨w3, 20⟩ :=
  GReachable.step (g := ⟨w2, 20⟩) 0 (some .call) none (r2 fl) (a3 fl)
/-- the all-in raise of 9 does not lower the largest raise of the round (20) -/
theorem r4 (fl) : GReachable (envOf fl) cfg ⟨w4, 20⟩ :=
  GReachable.step (g := ⟨w3, 20⟩) 1 (some .raise) (some 29) (r3 fl) (a4 fl)
theorem r5 (fl) : GReachable (envOf fl) cfg ⟨w5, 20⟩ :=
  GReachable.step (g := ⟨w4, 20⟩) 2 (some .call) none (r4 fl) (a5 fl)
theorem r6 (fl) : GReachable (envOf fl) cfg ⟨w6, 0⟩ :=
  GReachable.step (g := ⟨w5, 20⟩) 0 (some .call) (some 9) (r5 fl) (a6 fl)
theorem r7 (fl) : GReachable (envOf fl) cfg ⟨w7, 50⟩ :=
  GReachable.step (g := ⟨w6, 0⟩) 0 (some .bet) (some 50) (r6 fl) (a7 fl)
theorem r8 (fl) : GReachable (envOf fl) cfg ⟨w8, 0⟩ :=
  GReachable.step (g := ⟨w7, 50⟩) 2 (some .call) none (r7 fl) (a8 fl)
theorem r9 (fl) : GReachable (envOf fl) cfg ⟨w9, 0⟩ :=
  GReachable.step (g := ⟨w8, 0⟩) 0 (some .check) none (r8 fl) (a9 fl)
theorem r10 (fl) : GReachable (envOf fl) cfg ⟨w10, 60⟩ :=
  GReachable.step (g := ⟨w9, 0⟩) 2 (some .bet) (some 60) (r9 fl) (a10 fl)
theorem r11 (fl) : GReachable (envOf fl) cfg ⟨w11, 90⟩ :=
  GReachable.step (g := ⟨w10, 60⟩) 0 (some .raise) (some 150) (r10 fl) (a11 fl)
theorem r12 (fl) : GReachable (envOf fl) cfg ⟨w12, 0⟩ :=
  GReachable.step (g := ⟨w11, 90⟩) 2 (some .call) none (r11 fl) (a12 fl)
theorem r13 (fl) : GReachable (envOf fl) cfg ⟨w13, 0⟩ :=
  GReachable.step (g := ⟨w12, 0⟩) 0 (some .check) none (r12 fl) (a13 fl)
theorem r14 : GReachable env cfg ⟨w14, 0⟩ :=
  GReachable.step (g := ⟨w13, 0⟩) 2 (some .check) none (r13 id) a14
theorem r14F : GReachable envF cfg ⟨w14, 0⟩ :=
  GReachable.step (g := ⟨w13, 0⟩) 2 (some .check) none (r13 Float53.rnd) a14F

/-- mid-hand, turn: seat 2 faces a raise -/
theorem reach11 : Reachable env cfg w11 := (r11 id).reachable
/-- complete -/
theorem reach14 : Reachable env cfg w14 := r14.reachable
theorem reach14F : Reachable envF cfg w14 := r14F.reachable

theorem rankT_total : RankTotal .nlhe rankT := fun b h _ _ => by
  unfold rankT; split <;> exact ⟨_, rfl⟩

/-- NOTE (see the header): the library's own evaluators do *not* satisfy `RankTotal`, because `RankTotal` quantifies
over arbitrary card lists, duplicates included: seven deuces of mixed suits make `five_card_hand_rank` fail -/
theorem holdemBrute_not_rankTotal : ¬ RankTotal .nlhe Eval.holdemBrute := fun h => by
  obtain ⟨k, hk⟩ := h [⟨2, 0⟩, ⟨2, 1⟩, ⟨2, 2⟩, ⟨2, 3⟩, ⟨2, 0⟩] [⟨2, 1⟩, ⟨2, 2⟩] rfl rfl
  have e : Eval.holdemBrute [⟨2, 0⟩, ⟨2, 1⟩, ⟨2, 2⟩, ⟨2, 3⟩, ⟨2, 0⟩] [⟨2, 1⟩, ⟨2, 2⟩] = .error .internal := by
    decide +kernel
  rw [e] at hk; cases hk
theorem omahaBrute_not_rankTotal : ¬ RankTotal .plo Eval.omahaBrute := fun h => by
  obtain ⟨k, hk⟩ := h [⟨2, 0⟩, ⟨2, 1⟩, ⟨2, 2⟩, ⟨2, 3⟩, ⟨2, 0⟩] [⟨2, 1⟩, ⟨2, 2⟩, ⟨2, 3⟩, ⟨2, 0⟩] rfl rfl
  have e : Eval.omahaBrute [⟨2, 0⟩, ⟨2, 1⟩, ⟨2, 2⟩, ⟨2, 3⟩, ⟨2, 0⟩] [⟨2, 1⟩, ⟨2, 2⟩, ⟨2, 3⟩, ⟨2, 0⟩] =
      .error .internal := by decide +kernel
  rw [e] at hk; cases hk

/-- on the deal of `H` the total evaluator is the library's brute-force evaluator -/
example : ∀ h ∈ hands, rankT (deck0.take 5) h = Eval.holdemBrute (deck0.take 5) h := by decide +kernel

end H

/-! ## the instance `A`: three-handed PLO, everybody all-in before the flop, two run-outs, IEEE doubles

Stacks 31 / 26 / 60, blinds 5 / 10, no ante, rake `0.05` (the double) capped at 3, two run-outs.  Seat 2 raises the pot
(35 = 2·10 + 15), seat 0 calls all-in 26, seat 1 calls all-in 16: one seat can still bet, so the hand ends at once.
Run-out 1 (K♦7♣2♠9♥4♣) gives the main pot to seat 1 (set of kings), run-out 2 (T♦5♥6♠A♣3♠) to seat 0;
payouts 95/2, 75/2 and 4 (the uncalled part of seat 2's raise), rake 1 + 1 + 1. -/
namespace A

def rankTO : RankFn := fun b h => match Eval.omahaBrute b h with | .ok k => .ok k | .error _ => .ok []
def env : Env := ⟨World.std, Float53.rnd, rankTO⟩

def hands : List (List Card) :=
  [[⟨14, 3⟩, ⟨14, 2⟩, ⟨9, 0⟩, ⟨8, 0⟩], [⟨13, 0⟩, ⟨13, 3⟩, ⟨5, 1⟩, ⟨4, 1⟩], [⟨12, 2⟩, ⟨11, 2⟩, ⟨10, 2⟩, ⟨7, 3⟩]]
def deck0 : List Card :=
  [⟨13, 1⟩, ⟨7, 0⟩, ⟨2, 3⟩, ⟨9, 2⟩, ⟨4, 0⟩, ⟨10, 1⟩, ⟨5, 2⟩, ⟨6, 3⟩, ⟨14, 0⟩, ⟨3, 3⟩, ⟨8, 2⟩, ⟨12, 0⟩]
/-- the double nearest to 0.05 -/
def f005 : Rat := 3602879701896397 / 72057594037927936

def cfg : Cfg :=
  { game := .plo, n := 3, deck := deck0, hands := hands,
    startingStacks := [31, 26, 60], board := [], ante := 0, blinds := some [5, 10], runouts := 2,
    rake := ⟨f005, 3⟩, sampler := ⟨0, 5⟩ }

def st (pot stk : List Int) (la : List (Option ActType)) (street : Nat) (a : Option Nat) (log : List LogEntry)
    (pay rk : Option (List Rat) := none) (complete : Bool := false) : State :=
  { game := .plo, n := 3, hands := hands, startingStacks := [31, 26, 60], ante := 0, blinds := [5, 10],
    runouts := 2, rake := ⟨f005, 3⟩, sampler := ⟨0, 5⟩, deck := deck0, board := [],
    «stacks» := stk, pot := pot, lastActions := la, street := street, action := a, log := log,
    payouts := pay, rakePaid := rk, complete := complete }

def log3 : List LogEntry := [⟨2, .raise, 35⟩, ⟨0, .call, 26⟩, ⟨1, .call, 16⟩]

def w0 : State := st [5, 10, 0] [26, 16, 60] [none, none, none] 0 (some 2) []
def w1 : State := st [5, 10, 35] [26, 16, 25] [none, none, some .raise] 0 (some 0) (log3.take 1)
def w2 : State := st [31, 10, 35] [0, 16, 25] [some .call, none, some .raise] 0 (some 1) (log3.take 2)
/-- after `append_action` of seat 1's call, before `advance_action` -/
def m3 : State := st [31, 26, 35] [0, 0, 25] [some .call, some .call, some .raise] 0 (some 1) log3
def w3 : State := st [31, 26, 35] [0, 0, 25] [none, none, none] 4 none log3
  (some [95/2, 75/2, 4]) (some [1, 1, 1]) true

theorem valid : cfg.Valid where
  n_ge := by decide
  hands_len := rfl
  hole := by decide
  stacks_len := rfl
  stacks_nonneg := by decide
  ante_nonneg := by decide
  blinds_ok := by show (0 : Int) ≤ 5 ∧ (0 : Int) ≤ 10 ∧ ((0 : Int) < 5 ∨ (0 : Int) < 10 ∨ (0 : Int) < 0); decide
  blinds_ordered := by show 3 = 2 ∨ (5 : Int) ≤ 10; decide
  runouts_pos := by decide
  f_nonneg := by decide +kernel
  f_le_one := by decide +kernel
  cap_nonneg := by decide
  board_len := by decide
  cards := by decide

set_option maxRecDepth 8192

theorem h0 : construct cfg = .ok w0 := by decide +kernel
theorem a1 : w0.act env 2 (some .raise) (some 35) = .ok w1 := by decide +kernel
theorem a2 : w1.act env 0 (some .call) none = .ok w2 := by decide +kernel
theorem a3 : w2.act env 1 (some .call) none = .ok w3 := by decide +kernel
theorem ap3 : w2.appendAction env.w 1 (some .call) none = .ok m3 := by decide +kernel
theorem adv3 : m3.advanceAction env = .ok w3 := by decide +kernel

/-- pot-limit: one chip more than the pot-sized raise is refused -/
example : w0.appendAction World.std 2 (some .raise) (some 36) = .error .aboveMax := by decide +kernel

theorem reach0 : Reachable env cfg w0 := .init h0
theorem reach1 : Reachable env cfg w1 := .step 2 (some .raise) (some 35) reach0 a1
theorem reach2 : Reachable env cfg w2 := .step 0 (some .call) none reach1 a2
theorem reach3 : Reachable env cfg w3 := .step 1 (some .call) none reach2 a3

theorem rankTO_total : RankTotal .plo rankTO := fun b h _ _ => by
  unfold rankTO; split <;> exact ⟨_, rfl⟩

end A

/-! ## the instance `HU`: heads-up PLO with the blinds given small-first -/
namespace HU

def cfg : Cfg :=
  { game := .plo, n := 2, deck := A.deck0, hands := A.hands.take 2,
    startingStacks := [200, 150], board := [], ante := 2, blinds := some [5, 10], runouts := 1,
    rake := ⟨0, 0⟩, sampler := ⟨0, 0⟩ }

/-- the bigger blind went to seat 0; seat 1 (the button) acts first -/
def w0 : State :=
  { game := .plo, n := 2, hands := A.hands.take 2, startingStacks := [200, 150], ante := 2, blinds := [10, 5],
    runouts := 1, rake := ⟨0, 0⟩, sampler := ⟨0, 0⟩, deck := A.deck0, board := [],
    «stacks» := [188, 143], pot := [12, 7], lastActions := [none, none], street := 0, action := some 1, log := [],
    payouts := none, rakePaid := none, complete := false }

theorem valid : cfg.Valid where
  n_ge := by decide
  hands_len := rfl
  hole := by decide
  stacks_len := rfl
  stacks_nonneg := by decide
  ante_nonneg := by decide
  blinds_ok := by show (0 : Int) ≤ 5 ∧ (0 : Int) ≤ 10 ∧ ((0 : Int) < 5 ∨ (0 : Int) < 10 ∨ (0 : Int) < 2); decide
  blinds_ordered := by show 2 = 2 ∨ (5 : Int) ≤ 10; decide
  runouts_pos := by decide
  f_nonneg := by decide +kernel
  f_le_one := by decide +kernel
  cap_nonneg := by decide
  board_len := by decide
  cards := by decide

theorem h0 : construct cfg = .ok w0 := by decide +kernel

end HU

/-! ## C03 -/
namespace C03W
open H

/-- `w4` after `append_action` of seat 2's call of 9: seat 0 still owes 9, the round is open -/
def m5 : State := { w5 with action := some 2 }
/-- `w5` after seat 0's call: the pre-flop round is closed, seats 0 and 2 can still bet -/
def m6 : State := st 0 0 [40, 40, 40, 1] [260, 0, 460, 199] [some .call, some .raise, some .call, some .fold] 0
  (log14.take 6)
/-- `w13` after seat 2's check on the river -/
def m14 : State := st 5 3 [240, 40, 240, 1] [60, 0, 260, 199] [some .check, none, some .check, some .fold] 2 log14

set_option maxRecDepth 8192

theorem ap5 : w4.appendAction env.w 2 (some .call) none = .ok m5 := by decide +kernel
theorem ap6 : w5.appendAction env.w 0 (some .call) (some 9) = .ok m6 := by decide +kernel
theorem adv6 : m6.advanceAction env = .ok w6 := by decide +kernel
theorem ap14 : w13.appendAction env.w 2 (some .check) none = .ok m14 := by decide +kernel
theorem adv14 : m14.advanceAction env = .ok w14 := by decide +kernel

theorem reach4 : Reachable env cfg w4 := (r4 id).reachable
theorem reach5 : Reachable env cfg w5 := (r5 id).reachable
theorem reach13 : Reachable env cfg w13 := (r13 id).reachable

/-- on the turn seat 3 has folded and seat 0 holds the highest contribution -/
theorem max_holder_not_folded_inst :
    ∃ p, p < w11.n ∧ folded w11.lastActions p = false ∧ ∀ q, q < w11.n → getI w11.pot q ≤ getI w11.pot p :=
  C03.max_holder_not_folded env cfg rfl valid reach11
example : (0 : Nat) < w11.n ∧ folded w11.lastActions 0 = false ∧ ∀ q, q < w11.n → getI w11.pot q ≤ getI w11.pot 0 := by
  decide

/-- the table of `m6`: a folded seat, an all-in seat, everybody else matched -/
theorem closed_iff_inst :
    isActionClosedFn 4 m6.lastActions m6.pot m6.stacks = .ok (closedSpec 4 m6.lastActions m6.pot m6.stacks) :=
  C03.closed_iff 4 m6.lastActions m6.pot m6.stacks (by decide) rfl rfl rfl ⟨0, by decide⟩
example : closedSpec 4 m6.lastActions m6.pot m6.stacks = true := by decide
/-- the table of `m5`: still open -/
theorem closed_iff_open_inst :
    isActionClosedFn 4 m5.lastActions m5.pot m5.stacks = .ok (closedSpec 4 m5.lastActions m5.pot m5.stacks) :=
  C03.closed_iff 4 m5.lastActions m5.pot m5.stacks (by decide) rfl rfl rfl ⟨1, by decide⟩
example : closedSpec 4 m5.lastActions m5.pot m5.stacks = false := by decide

theorem closed_iff_reachable_inst : w11.isActionClosed = .ok w11.closedSpec :=
  C03.closed_iff_reachable env cfg rfl valid reach11
example : w11.closedSpec = false := by decide
theorem closed_iff_reachable_final_inst : w14.isActionClosed = .ok w14.closedSpec :=
  C03.closed_iff_reachable env cfg rfl valid reach14

theorem construct_actor_inst :
    w0.street = 0 ∧ w0.action = some (if cfg.n = 2 then 1 else 2) ∧ w0.complete = false ∧
    w0.board = cfg.board ∧ w0.deck = cfg.deck ∧ (∀ p, p < cfg.n → (w0.lastActions[p]?).join = none) :=
  C03.construct_actor cfg valid h0
/-- heads-up the button acts first -/
theorem construct_actor_hu_inst :
    HU.w0.street = 0 ∧ HU.w0.action = some (if HU.cfg.n = 2 then 1 else 2) ∧ HU.w0.complete = false ∧
    HU.w0.board = HU.cfg.board ∧ HU.w0.deck = HU.cfg.deck ∧
    (∀ p, p < HU.cfg.n → (HU.w0.lastActions[p]?).join = none) :=
  C03.construct_actor HU.cfg HU.valid HU.h0

theorem blind_flip_inst : HU.w0.blinds = [max 5 10, min 5 10] :=
  C03.blind_flip HU.cfg HU.valid rfl 5 10 rfl HU.h0
example : HU.w0.blinds = [10, 5] := rfl

/-- after seat 2's call the action skips the folded seat 3 and lands on seat 0 -/
theorem actor_live_inst : ∃ a, w5.action = some a ∧ a < w5.n ∧ w5.live a = true :=
  C03.actor_live env cfg rfl valid reach4 2 (some .call) none (a5 id) rfl
example : w5.action = some 0 ∧ w5.live 0 = true ∧ w5.live 1 = false ∧ w5.live 3 = false := by decide

theorem step_open_inst :
    ∃ s' a, m5.advanceAction env = .ok s' ∧ m5.action = some a ∧ s'.action = m5.nextLive a ∧ s'.action.isSome ∧
      s'.street = m5.street ∧ s'.board = m5.board ∧ s'.deck = m5.deck ∧ s'.complete = false ∧
      s'.stacks = m5.stacks ∧ s'.pot = m5.pot ∧ s'.lastActions = m5.lastActions :=
  C03.step_open env cfg rfl valid reach4 2 (some .call) none ap5 (by decide)
example : m5.advanceAction env = .ok w5 ∧ m5.nextLive 2 = some 0 := by decide +kernel

/-- instance `A`: both short stacks are all-in, one seat can still bet: the hand ends before the flop, the board stays
empty and the deck untouched although two boards were run out -/
theorem step_closed_no_more_betting_inst :
    A.w3.complete = true ∧ A.w3.street = 4 ∧ A.w3.action = none ∧ A.w3.board = A.m3.board ∧ A.w3.deck = A.m3.deck ∧
    A.w3.stacks = A.m3.stacks ∧ A.w3.pot = A.m3.pot :=
  C03.step_closed_no_more_betting A.env A.cfg rfl A.valid A.reach2 1 (some .call) none A.ap3 (by decide) (by decide)
    A.adv3
example : C03.liveCount A.m3 = 1 ∧ C03.nonFoldedCount A.m3 = 3 := by decide

/-- pre-flop round closes with two seats able to bet: the flop (3 cards) comes off the deck, seat 0 acts first -/
theorem step_closed_next_street_inst :
    w6.street = m6.street + 1 ∧ w6.stacks = m6.stacks ∧ w6.pot = m6.pot ∧
    (m6.street = 3 → w6.complete = true ∧ w6.board = m6.board ∧ w6.deck = m6.deck) ∧
    (m6.street < 3 → w6.complete = false ∧
      w6.board = m6.board ++ m6.deck.take (C03.dealCount w6.street m6.board.length) ∧
      w6.deck = m6.deck.drop (C03.dealCount w6.street m6.board.length) ∧
      w6.action = (List.range m6.n).find? (fun q => m6.live q) ∧ w6.action.isSome ∧
      ∀ q, q < m6.n → (w6.lastActions[q]?).join = if folded m6.lastActions q then some .fold else none) :=
  C03.step_closed_next_street env cfg rfl valid reach5 0 (some .call) (some 9) ap6 (by decide) (by decide) adv6
example : C03.dealCount w6.street m6.board.length = 3 ∧ C03.liveCount m6 = 2 ∧ w6.board = deck0.take 3 := by decide

/-- the river round closes: showdown -/
theorem step_closed_river_inst :
    w14.street = m14.street + 1 ∧ w14.stacks = m14.stacks ∧ w14.pot = m14.pot ∧
    (m14.street = 3 → w14.complete = true ∧ w14.board = m14.board ∧ w14.deck = m14.deck) ∧
    (m14.street < 3 → w14.complete = false ∧
      w14.board = m14.board ++ m14.deck.take (C03.dealCount w14.street m14.board.length) ∧
      w14.deck = m14.deck.drop (C03.dealCount w14.street m14.board.length) ∧
      w14.action = (List.range m14.n).find? (fun q => m14.live q) ∧ w14.action.isSome ∧
      ∀ q, q < m14.n → (w14.lastActions[q]?).join = if folded m14.lastActions q then some .fold else none) :=
  C03.step_closed_next_street env cfg rfl valid reach13 2 (some .check) none ap14 (by decide) (by decide) adv14

theorem street_le_inst : w11.street ≤ 4 ∧ (w11.complete = true ↔ w11.street = 4) :=
  C03.street_le env cfg rfl valid reach11
theorem street_le_final_inst : w14.street ≤ 4 ∧ (w14.complete = true ↔ w14.street = 4) :=
  C03.street_le env cfg rfl valid reach14

end C03W

/-! ## C01 -/
namespace C01W
open H

theorem construct_ok_inst : ∃ s, construct cfg = .ok s := C01.construct_ok cfg valid
example : construct cfg = .ok w0 := h0

/-- mid-hand (turn, 521 − 90 chips in the pot) -/
theorem conservation_inst :
    sumI w11.stacks + sumI w11.pot = sumI cfg.startingStacks ∧ (∀ x ∈ w11.stacks, 0 ≤ x) ∧ (∀ x ∈ w11.pot, 0 ≤ x) ∧
    w11.stacks.length = cfg.n ∧ w11.pot.length = cfg.n := C01.conservation env cfg rfl valid reach11
example : sumI w11.stacks + sumI w11.pot = 1040 ∧ sumI w11.pot = 431 ∧ sumI cfg.startingStacks = 1040 := by decide

/-- at the showdown -/
theorem conservation_final_inst :
    sumI w14.stacks + sumI w14.pot = sumI cfg.startingStacks ∧ (∀ x ∈ w14.stacks, 0 ≤ x) ∧ (∀ x ∈ w14.pot, 0 ≤ x) ∧
    w14.stacks.length = cfg.n ∧ w14.pot.length = cfg.n := C01.conservation env cfg rfl valid reach14
example : sumI w14.stacks + sumI w14.pot = 1040 ∧ sumI w14.pot = 521 := by decide

theorem reachable_wf_inst : w11.WF := C01.reachable_wf env cfg rfl valid reach11
theorem reachable_wf_final_inst : w14.WF := C01.reachable_wf env cfg rfl valid reach14

theorem completion_inst :
    ∃ pay rake, w14.payouts = some pay ∧ w14.rakePaid = some rake ∧ pay.length = cfg.n ∧ rake.length = cfg.n ∧
      sumQ pay + sumQ rake = ((sumI w14.pot : Int) : Rat) ∧ (∀ x ∈ pay, 0 ≤ x) ∧
      sumQ ((List.range cfg.n).map w14.pnl) = - sumQ rake :=
  C01.completion env cfg rfl C14.flSpec_id valid reach14 rfl
/-- independently: 394 + 118 + (4 + 1 + 4) = 521, and the four results +154, +78, −240, −1 sum to −9 -/
example : w14.payouts = some [394, 118, 0, 0] ∧ w14.rakePaid = some [4, 1, 4, 0] ∧
    sumQ [394, 118, 0, 0] + sumQ [4, 1, 4, 0] = ((sumI w14.pot : Int) : Rat) ∧
    (List.range cfg.n).map w14.pnl = [154, 78, -240, -1] ∧ sumQ [154, 78, -240, -1] = - sumQ [4, 1, 4, 0] := by
  decide +kernel

/-- rounding exact up to `B = 2000` (here: exact arithmetic), 1040 chips on the table -/
theorem completion_B_inst :
    ∃ pay rake, w14.payouts = some pay ∧ w14.rakePaid = some rake ∧ pay.length = cfg.n ∧ rake.length = cfg.n ∧
      sumQ pay + sumQ rake = ((sumI w14.pot : Int) : Rat) ∧ (∀ x ∈ pay, 0 ≤ x) ∧
      sumQ ((List.range cfg.n).map w14.pnl) = - sumQ rake :=
  C01.completion_B env cfg rfl (B := 2000) (C14.flSpec_id.toB 2000) valid (by decide) reach14 rfl

/-- the same hand played with IEEE doubles -/
theorem completion_f53_inst :
    ∃ pay rake, w14.payouts = some pay ∧ w14.rakePaid = some rake ∧ pay.length = cfg.n ∧ rake.length = cfg.n ∧
      sumQ pay + sumQ rake = ((sumI w14.pot : Int) : Rat) ∧ (∀ x ∈ pay, 0 ≤ x) ∧
      sumQ ((List.range cfg.n).map w14.pnl) = - sumQ rake :=
  C01.completion_f53 envF cfg rfl rfl valid (by decide) reach14F rfl

/-- instance `A`: PLO, two run-outs, rake fraction the double `0.05`; fractional payouts 95/2 and 75/2 -/
theorem completion_f53_A_inst :
    ∃ pay rake, A.w3.payouts = some pay ∧ A.w3.rakePaid = some rake ∧ pay.length = A.cfg.n ∧ rake.length = A.cfg.n ∧
      sumQ pay + sumQ rake = ((sumI A.w3.pot : Int) : Rat) ∧ (∀ x ∈ pay, 0 ≤ x) ∧
      sumQ ((List.range A.cfg.n).map A.w3.pnl) = - sumQ rake :=
  C01.completion_f53 A.env A.cfg rfl rfl A.valid (by decide) A.reach3 rfl
example : A.w3.payouts = some [95/2, 75/2, 4] ∧ A.w3.rakePaid = some [1, 1, 1] ∧
    sumQ [95/2, 75/2, 4] + sumQ [1, 1, 1] = ((sumI A.w3.pot : Int) : Rat) ∧
    (List.range A.cfg.n).map A.w3.pnl = [33/2, 23/2, -31] := by decide +kernel
theorem conservation_A_inst :
    sumI A.w3.stacks + sumI A.w3.pot = sumI A.cfg.startingStacks ∧ (∀ x ∈ A.w3.stacks, 0 ≤ x) ∧
    (∀ x ∈ A.w3.pot, 0 ≤ x) ∧ A.w3.stacks.length = A.cfg.n ∧ A.w3.pot.length = A.cfg.n :=
  C01.conservation A.env A.cfg rfl A.valid A.reach3

theorem in_progress_no_payouts_inst : w11.payouts = none ∧ w11.rakePaid = none :=
  C01.in_progress_no_payouts env cfg reach11 rfl

end C01W
/-! ## C04 -/
namespace C04W
open H

set_option maxRecDepth 8192

theorem wf4 : w4.WF := C01.reachable_wf env cfg rfl valid C03W.reach4
theorem wf10 : w10.WF := C01.reachable_wf env cfg rfl valid (r10 id).reachable
theorem wf11 : w11.WF := C01W.reachable_wf_inst

/-- turn, seat 2 (350 behind) faces seat 0's raise to 240 over its own 150: owes 90, the two largest contributions
differ by 90, so the smallest re-raise is 90 + 90 = 180 -/
theorem accept_iff_inst :
    (∃ s1, w11.appendAction World.std 2 (some .raise) (some 180) = .ok s1) ↔
      w11.LegalWith w11.implLr 2 (some .raise) (some 180) :=
  C04.accept_iff w11 wf11 2 (some .raise) (some 180)
/-- left to right: the engine accepts it, hence it is legal w.r.t. the engine's increment -/
theorem accept_iff_mp_inst : w11.LegalWith w11.implLr 2 (some .raise) (some 180) :=
  accept_iff_inst.1 ⟨_, by rfl⟩
/-- right to left, contrapositive: 179 is refused, hence not legal -/
theorem accept_iff_refused_inst : ¬ w11.LegalWith w11.implLr 2 (some .raise) (some 179) := fun h => by
  obtain ⟨s1, h1⟩ := (C04.accept_iff w11 wf11 2 (some .raise) (some 179)).2 h
  have e : w11.appendAction World.std 2 (some .raise) (some 179) = .error .belowMin := by decide +kernel
  rw [e] at h1; cases h1
example : w11.implLr = 90 ∧ w11.owed 2 = 90 := by decide

/-- `w10` after `append_action` of seat 0's raise of 150 -/
def m11 : State := { w11 with action := some 0 }
theorem ap11 : w10.appendAction World.std 0 (some .raise) (some 150) = .ok m11 := by decide +kernel

theorem accept_effect_inst :
    ∃ a t, w10.action = some a ∧ some ActType.raise = some t ∧
      m11.stacks = w10.stacks.modify a (· - C04.movedAmount w10 a t (some 150)) ∧
      m11.pot = w10.pot.modify a (· + C04.movedAmount w10 a t (some 150)) ∧
      m11.lastActions = w10.lastActions.set a (some t) ∧
      m11.log = w10.log ++ [⟨0, t, C04.movedAmount w10 a t (some 150)⟩] ∧
      m11.street = w10.street ∧ m11.action = w10.action ∧ m11.board = w10.board ∧ m11.deck = w10.deck ∧
      m11.complete = false ∧ 0 ≤ C04.movedAmount w10 a t (some 150) ∧
      C04.movedAmount w10 a t (some 150) ≤ getI w10.stacks a :=
  C04.accept_effect w10 m11 wf10 0 (some .raise) (some 150) ap11

/-- a call without amount moves exactly what is owed -/
theorem accept_effect_call_inst :
    ∃ a t, w4.action = some a ∧ some ActType.call = some t ∧
      C03W.m5.stacks = w4.stacks.modify a (· - C04.movedAmount w4 a t none) ∧
      C03W.m5.pot = w4.pot.modify a (· + C04.movedAmount w4 a t none) ∧
      C03W.m5.lastActions = w4.lastActions.set a (some t) ∧
      C03W.m5.log = w4.log ++ [⟨2, t, C04.movedAmount w4 a t none⟩] ∧
      C03W.m5.street = w4.street ∧ C03W.m5.action = w4.action ∧ C03W.m5.board = w4.board ∧
      C03W.m5.deck = w4.deck ∧ C03W.m5.complete = false ∧ 0 ≤ C04.movedAmount w4 a t none ∧
      C04.movedAmount w4 a t none ≤ getI w4.stacks a :=
  C04.accept_effect w4 C03W.m5 wf4 2 (some .call) none C03W.ap5
example : C04.movedAmount w4 2 .call none = 9 := by decide

/-- turn: the engine's increment is the rule's (90) -/
theorem gap_le_lastRaise_inst : (w11.implLr ≤ max w11.biggestBlind 90 ∧ (0 : Int) ≤ 90) :=
  C04.gap_le_lastRaise env cfg rfl valid (g := ⟨w11, 90⟩) (r11 id) rfl
/-- pre-flop after the short all-in: the engine's increment (9) is *smaller* than the rule's (20) -/
theorem gap_le_lastRaise_short_inst : (w4.implLr ≤ max w4.biggestBlind 20 ∧ (0 : Int) ≤ 20) :=
  C04.gap_le_lastRaise env cfg rfl valid (g := ⟨w4, 20⟩) (r4 id) rfl
example : w4.implLr = 9 ∧ w4.biggestBlind = 10 ∧ w11.biggestBlind = 10 := by decide

/-- the re-raise of 180 is legal by the rule (largest raise of the round: 90) ... -/
theorem legal180 : w11.Legal 90 2 (some .raise) (some 180) := by
  refine ⟨rfl, 2, rfl, rfl, Or.inl (by decide), 180, rfl, ?_⟩
  unfold State.SizeOK
  decide
/-- ... hence accepted -/
theorem legal_accepted_inst : ∃ s1, w11.appendAction World.std 2 (some .raise) (some 180) = .ok s1 :=
  C04.legal_accepted env cfg rfl valid (g := ⟨w11, 90⟩) (r11 id) 2 (some .raise) (some 180) legal180

/-- all-in (350) is legal whatever the increment -/
theorem legalAllIn : w11.Legal 90 2 (some .raise) (some 350) := by
  refine ⟨rfl, 2, rfl, rfl, Or.inl (by decide), 350, rfl, ?_⟩
  unfold State.SizeOK
  decide
theorem legal_accepted_allin_inst : ∃ s1, w11.appendAction World.std 2 (some .raise) (some 350) = .ok s1 :=
  C04.legal_accepted env cfg rfl valid (g := ⟨w11, 90⟩) (r11 id) 2 (some .raise) (some 350) legalAllIn

/-- an accepted action that is legal ... -/
theorem accepted_legal_or_F5_inst :
    w11.Legal 90 2 (some .raise) (some 180) ∨ w11.F5Dev 90 2 (some .raise) (some 180) :=
  C04.accepted_legal_or_F5 env cfg rfl valid (g := ⟨w11, 90⟩) (r11 id) 2 (some .raise) (some 180) _ (by rfl)

/-- ... and one in the F5 deviation set, arising naturally in `H`: after the big blind's all-in raise of 9 (to 40)
over seat 2's raise of 20 (to 31), the engine lets seat 2 re-raise by 19 = call 9 + 10, where the rule asks for
call 9 + 20 -/
def m5r : State := st 0 0 [31, 40, 50, 1] [269, 0, 450, 199] [some .call, some .raise, some .raise, some .fold] 2
  (log14.take 4 ++ [⟨2, .raise, 19⟩])
theorem ap5r : w4.appendAction World.std 2 (some .raise) (some 19) = .ok m5r := by decide +kernel
theorem accepted_legal_or_F5_dev_inst :
    w4.Legal 20 2 (some .raise) (some 19) ∨ w4.F5Dev 20 2 (some .raise) (some 19) :=
  C04.accepted_legal_or_F5 env cfg rfl valid (g := ⟨w4, 20⟩) (r4 id) 2 (some .raise) (some 19) m5r ap5r
/-- it is the second alternative that holds -/
theorem not_legal19 : ¬ w4.Legal 20 2 (some .raise) (some 19) := by
  rintro ⟨_, a, ha, _, _, x, hx, hs⟩
  have ha2 : a = 2 := by
    have : w4.action = some 2 := rfl
    rw [this] at ha; cases ha; rfl
  subst ha2
  cases hx
  revert hs
  unfold State.SizeOK
  decide
theorem F5Dev19 : w4.F5Dev 20 2 (some .raise) (some 19) := accepted_legal_or_F5_dev_inst.resolve_left not_legal19

theorem F5_witness_inst : ∃ (env : Env) (cfg : Cfg) (g : GState) (p : Int) (amt : Int),
    env.w = World.std ∧ cfg.Valid ∧ GReachable env cfg g ∧
    (∃ s1, g.s.appendAction World.std p (some .raise) (some amt) = .ok s1) ∧
    ¬ g.s.Legal g.lastRaise p (some .raise) (some amt) := C04.F5_witness
/-- `H` gives a second, independent witness of the same statement -/
theorem F5_witness_H : ∃ (env : Env) (cfg : Cfg) (g : GState) (p : Int) (amt : Int),
    env.w = World.std ∧ cfg.Valid ∧ GReachable env cfg g ∧
    (∃ s1, g.s.appendAction World.std p (some .raise) (some amt) = .ok s1) ∧
    ¬ g.s.Legal g.lastRaise p (some .raise) (some amt) :=
  ⟨env, cfg, ⟨w4, 20⟩, 2, 19, rfl, valid, r4 id, ⟨_, ap5r⟩, not_legal19⟩

end C04W

/-! ## C13 -/
namespace C13W
open H

set_option maxRecDepth 8192

/-- seat 2 owes 90 on the turn: it may fold or call -/
theorem legal_exists_inst :
    ∃ a : Nat, w11.action = some a ∧
      (w11.owed a = 0 → ∃ s1, w11.appendAction World.std a (some .check) none = .ok s1) ∧
      (0 < w11.owed a → (∃ s1, w11.appendAction World.std a (some .fold) none = .ok s1) ∧
                       (∃ s1, w11.appendAction World.std a (some .call) none = .ok s1)) :=
  C13.legal_exists env cfg rfl valid reach11 rfl
example : w11.action = some 2 ∧ 0 < w11.owed 2 := by decide
/-- seat 0 owes nothing when the turn opens: it may check -/
theorem legal_exists_check_inst :
    ∃ a : Nat, w8.action = some a ∧
      (w8.owed a = 0 → ∃ s1, w8.appendAction World.std a (some .check) none = .ok s1) ∧
      (0 < w8.owed a → (∃ s1, w8.appendAction World.std a (some .fold) none = .ok s1) ∧
                       (∃ s1, w8.appendAction World.std a (some .call) none = .ok s1)) :=
  C13.legal_exists env cfg rfl valid (r8 id).reachable rfl
example : w8.action = some 0 ∧ w8.owed 0 = 0 := by decide

/-- the last check on the river: showdown with side pot and rake goes through -/
theorem no_internal_error_inst : ∃ s', C03W.m14.advanceAction env = .ok s' :=
  C13.no_internal_error env cfg rfl C14.flSpec_id valid rankT_total C03W.reach13 2 (some .check) none C03W.ap14
example : C03W.m14.advanceAction env = .ok w14 := C03W.adv14

theorem no_internal_error_B_inst : ∃ s', C03W.m14.advanceAction env = .ok s' :=
  C13.no_internal_error_B env cfg rfl (B := 2000) (C14.flSpec_id.toB 2000) valid (by decide) rankT_total
    C03W.reach13 2 (some .check) none C03W.ap14

/-- instance `A` (PLO, IEEE doubles): the call that puts the last short stack all-in triggers two run-outs -/
theorem no_internal_error_f53_inst : ∃ s', A.m3.advanceAction A.env = .ok s' :=
  C13.no_internal_error_f53 A.env A.cfg rfl rfl A.valid (by decide) A.rankTO_total A.reach2 1 (some .call) none A.ap3
example : A.m3.advanceAction A.env = .ok A.w3 := A.adv3
/-- and `H` with doubles -/
theorem no_internal_error_f53_H_inst : ∃ s', C03W.m14.advanceAction envF = .ok s' :=
  C13.no_internal_error_f53 envF cfg rfl rfl valid (by decide) rankT_total (r13 Float53.rnd).reachable
    2 (some .check) none C03W.ap14

/-- the fourteen actions of `H` as a `Run` -/
theorem run14 : C13.Run env w0 14 w14 :=
  .step 2 (some .check) none (.step 0 (some .check) none (.step 2 (some .call) none
  (.step 0 (some .raise) (some 150) (.step 2 (some .bet) (some 60) (.step 0 (some .check) none
  (.step 2 (some .call) none (.step 0 (some .bet) (some 50) (.step 0 (some .call) (some 9)
  (.step 2 (some .call) none (.step 1 (some .raise) (some 29) (.step 0 (some .call) none
  (.step 3 (some .fold) none (.step 2 (some .raise) (some 30) (.refl w0)
  (a1 id)) (a2 id)) (a3 id)) (a4 id)) (a5 id)) (a6 id)) (a7 id)) (a8 id)) (a9 id)) (a10 id)) (a11 id)) (a12 id))
  (a13 id)) a14

theorem terminates_inst : 14 ≤ ((sumI cfg.startingStacks).toNat + 1) * 5 * (cfg.n + 2) :=
  C13.terminates env cfg rfl valid h0 run14
example : ((sumI cfg.startingStacks).toNat + 1) * 5 * (cfg.n + 2) = 31230 := by decide

theorem complete_shape_inst :
    w14.street = 4 ∧ (∃ pay, w14.payouts = some pay ∧ pay.length = cfg.n) ∧
    ∀ (p : Int) (ty : Option ActType) (amt : Option Int), w14.act env p ty amt = .error .handComplete :=
  C13.complete_shape env cfg rfl valid reach14 rfl
example : w14.act env 0 (some .check) none = .error .handComplete := by decide +kernel

theorem complete_shape_A_inst :
    A.w3.street = 4 ∧ (∃ pay, A.w3.payouts = some pay ∧ pay.length = A.cfg.n) ∧
    ∀ (p : Int) (ty : Option ActType) (amt : Option Int), A.w3.act A.env p ty amt = .error .handComplete :=
  C13.complete_shape A.env A.cfg rfl A.valid A.reach3 rfl

end C13W
/-! ## C15 -/
namespace C15W
open H

set_option maxRecDepth 8192

/-- running a list of operations (the expression used in the statements of C15 / C15b) -/
abbrev run (e : Env) (s : State) (ops : List Op) : Except Err State :=
  ops.foldlM (fun st o => st.act e o.player o.ty o.amount) s

/-- how `H` continues from the turn state `w11` -/
def ops3 : List Op := [⟨2, some .call, none⟩, ⟨0, some .check, none⟩, ⟨2, some .check, none⟩]
/-- a continuation that is refused at its second operation (seat 2 acts out of turn) -/
def opsBad : List Op := [⟨2, some .call, none⟩, ⟨2, some .check, none⟩, ⟨0, some .check, none⟩]

theorem run3 : run env w11 ops3 = .ok w14 := by decide +kernel
theorem runBad : run env w11 opsBad = .error .wrongSeat := by decide +kernel

/-- a raise with an explicit amount -/
theorem log_grows_inst :
    ∃ e : LogEntry, w11.log = w10.log ++ [e] ∧ e.player = 0 ∧ some ActType.raise = some e.act ∧
      (∀ x, some (150 : Int) = some x → e.amount = x) :=
  C15.log_grows env rfl w10 w11 C04W.wf10 0 (some .raise) (some 150) (a11 id)
/-- a call without amount: the log records the 9 chips -/
theorem log_grows_call_inst :
    ∃ e : LogEntry, w5.log = w4.log ++ [e] ∧ e.player = 2 ∧ some ActType.call = some e.act ∧
      (∀ x, (none : Option Int) = some x → e.amount = x) :=
  C15.log_grows env rfl w4 w5 C04W.wf4 2 (some .call) none (a5 id)
example : w5.log = w4.log ++ [⟨2, .call, 9⟩] := by decide

theorem act_filled_inst :
    w4.act env (C15.opOf ⟨2, .call, 9⟩).player (C15.opOf ⟨2, .call, 9⟩).ty (C15.opOf ⟨2, .call, 9⟩).amount = .ok w5 :=
  C15.act_filled env rfl w4 w5 C04W.wf4 2 (some .call) none (a5 id) ⟨2, .call, 9⟩ (by decide)
example : w4.act env 2 (some .call) (some 9) = .ok w5 := by decide +kernel

/-- the complete hand is rebuilt from its own fourteen log entries -/
theorem replay_inst : fromActionDicts env cfg (w14.log.map C15.opOf) = .ok w14 :=
  C15.replay env cfg rfl valid reach14
example : fromActionDicts env cfg (w14.log.map C15.opOf) = .ok w14 := by decide +kernel
/-- and so is the hand in progress -/
theorem replay_mid_inst : fromActionDicts env cfg (w11.log.map C15.opOf) = .ok w11 :=
  C15.replay env cfg rfl valid reach11
/-- instance `A` (two run-outs, doubles) -/
theorem replay_A_inst : fromActionDicts A.env A.cfg (A.w3.log.map C15.opOf) = .ok A.w3 :=
  C15.replay A.env A.cfg rfl A.valid A.reach3

theorem resume_inst :
    construct (C15.resumeCfg cfg w11) (some ⟨w11.stacks, w11.pot, w11.street, 2, w11.lastActions, w11.log⟩) = .ok w11 :=
  C15.resume env cfg rfl valid reach11 rfl 2 rfl
example : construct (C15.resumeCfg cfg w11)
    (some ⟨[60, 0, 350, 199], [240, 40, 150, 1], 2, 2, [some .raise, none, some .bet, some .fold], log14.take 11⟩) =
    .ok w11 := by decide +kernel

theorem resume_bisim_inst : run env w11 ops3 = run env w11 ops3 :=
  C15.resume_bisim env cfg rfl valid reach11 rfl 2 rfl resume_inst ops3
theorem resume_bisim_bad_inst : run env w11 opsBad = run env w11 opsBad :=
  C15.resume_bisim env cfg rfl valid reach11 rfl 2 rfl resume_inst opsBad

theorem reset_own_log_inst : w14.resetFromActionDicts env (w14.log.map C15.opOf) = .ok w14 :=
  C15.reset_own_log env cfg rfl valid reach14
theorem reset_own_log_mid_inst : w11.resetFromActionDicts env (w11.log.map C15.opOf) = .ok w11 :=
  C15.reset_own_log env cfg rfl valid reach11
example : w11.resetFromActionDicts env (w11.log.map C15.opOf) = .ok w11 := by decide +kernel

theorem reset_idempotent_inst : iterReset env (w14.log.map C15.opOf) 3 w14 = .ok w14 :=
  C15.reset_idempotent env cfg rfl valid reach14 3

end C15W

/-! ## C15b -/
namespace C15bW
open H C15W

set_option maxRecDepth 8192

/-- `w11` resumed without its log -/
def n11 : State := { w11 with log := [] }
/-- `w11` resumed with a log that has nothing to do with the hand -/
def junk : List LogEntry := [⟨7, .draw, -3⟩, ⟨0, .bet, 1000⟩]
def j11 : State := { w11 with log := junk }
/-- the showdown state without the first eleven log entries -/
def n14 : State := { w14 with log := log14.drop 11 }

theorem eqm : C15.EqModLog n11 w11 := rfl

theorem eqModLog_iff_inst :
    C15.EqModLog n11 w11 ↔
      n11.game = w11.game ∧ n11.n = w11.n ∧ n11.hands = w11.hands ∧ n11.startingStacks = w11.startingStacks ∧
      n11.ante = w11.ante ∧ n11.blinds = w11.blinds ∧ n11.runouts = w11.runouts ∧ n11.rake = w11.rake ∧
      n11.sampler = w11.sampler ∧ n11.deck = w11.deck ∧ n11.board = w11.board ∧ n11.stacks = w11.stacks ∧
      n11.pot = w11.pot ∧ n11.lastActions = w11.lastActions ∧ n11.street = w11.street ∧ n11.action = w11.action ∧
      n11.payouts = w11.payouts ∧ n11.rakePaid = w11.rakePaid ∧ n11.complete = w11.complete :=
  C15.eqModLog_iff n11 w11
/-- states that differ elsewhere are told apart -/
theorem eqModLog_iff_neg_inst : ¬ C15.EqModLog w10 w11 := fun h => by
  have := ((C15.eqModLog_iff w10 w11).1 h).2.2.2.2.2.2.2.2.2.2.2.1
  revert this; decide

theorem EqModLog_refl_inst : C15.EqModLog w11 w11 := C15.EqModLog.refl w11
theorem EqModLog_symm_inst : C15.EqModLog w11 n11 := C15.EqModLog.symm eqm
theorem EqModLog_trans_inst : C15.EqModLog j11 n11 :=
  C15.EqModLog.trans (a := j11) (b := w11) (c := n11) rfl (C15.EqModLog.symm eqm)
theorem eqModLog_setLog_inst : C15.EqModLog { w11 with log := junk } w11 := C15.eqModLog_setLog w11 junk
theorem EqModLog_eq_of_log_inst : ({ j11 with log := log14.take 11 } : State) = w11 :=
  C15.EqModLog.eq_of_log (a := { j11 with log := log14.take 11 }) (b := w11) rfl rfl

/-- the call is accepted on both and the new states agree up to the log -/
theorem act_modlog_inst : C15.ResEqModLog (n11.act env 2 (some .call) none) (w11.act env 2 (some .call) none) :=
  C15.act_modlog env eqm 2 (some .call) none
def n12 : State := { w12 with log := [⟨2, .call, 90⟩] }
theorem an12 : n11.act env 2 (some .call) none = .ok n12 := by decide +kernel
theorem act_modlog_ok_inst : ∃ b', w11.act env 2 (some .call) none = .ok b' ∧ C15.EqModLog n12 b' :=
  C15.act_modlog_ok env eqm 2 (some .call) none an12
/-- an under-raise is refused on both with the same error -/
theorem bad11 : n11.act env 2 (some .raise) (some 179) = .error .belowMin := by decide +kernel
theorem act_modlog_error_inst : w11.act env 2 (some .raise) (some 179) = .error .belowMin :=
  C15.act_modlog_error env eqm 2 (some .raise) (some 179) .belowMin bad11
example : w11.act env 2 (some .raise) (some 179) = .error .belowMin := by decide +kernel

theorem run_modlog_inst : C15.ResEqModLog (run env n11 ops3) (run env w11 ops3) := C15.run_modlog env eqm ops3
theorem run_modlog_bad_inst : C15.ResEqModLog (run env n11 opsBad) (run env w11 opsBad) :=
  C15.run_modlog env eqm opsBad
theorem runN3 : run env n11 ops3 = .ok n14 := by decide +kernel
theorem runNBad : run env n11 opsBad = .error .wrongSeat := by decide +kernel

theorem resEqModLog_iff_inst :
    C15.ResEqModLog (run env n11 ops3) (run env w11 ops3) ↔
      (∃ e, run env n11 ops3 = .error e ∧ run env w11 ops3 = .error e) ∨
      (∃ a b, run env n11 ops3 = .ok a ∧ run env w11 ops3 = .ok b ∧ C15.EqModLog a b) :=
  C15.resEqModLog_iff _ _
theorem ResEqModLog_ok_inst : ∃ b, run env w11 ops3 = .ok b ∧ C15.EqModLog n14 b :=
  C15.ResEqModLog.ok run_modlog_inst runN3
theorem ResEqModLog_error_inst : run env w11 opsBad = .error .wrongSeat :=
  C15.ResEqModLog.error run_modlog_bad_inst runNBad
theorem ResEqModLog_symm_inst : C15.ResEqModLog (run env w11 ops3) (run env n11 ops3) :=
  C15.ResEqModLog.symm run_modlog_inst
theorem resEqModLog_of_erased_inst : C15.ResEqModLog (.ok n14) (.ok w14) :=
  C15.resEqModLog_of_erased (x := .ok n14) (y := .ok w14) rfl

theorem resume_nolog_inst :
    construct (C15.resumeCfg cfg w11) (some ⟨w11.stacks, w11.pot, w11.street, 2, w11.lastActions, junk⟩) =
      .ok { w11 with log := junk } :=
  C15.resume_nolog env cfg rfl valid reach11 rfl 2 rfl junk
theorem resume_nolog_nil_inst :
    construct (C15.resumeCfg cfg w11) (some ⟨w11.stacks, w11.pot, w11.street, 2, w11.lastActions, []⟩) =
      .ok { w11 with log := [] } :=
  C15.resume_nolog_nil env cfg rfl valid reach11 rfl 2 rfl
example : construct (C15.resumeCfg cfg w11)
    (some ⟨[60, 0, 350, 199], [240, 40, 150, 1], 2, 2, [some .raise, none, some .bet, some .fold], []⟩) = .ok n11 := by
  decide +kernel

theorem resume_nolog_bisim_inst : C15.ResEqModLog (run env j11 ops3) (run env w11 ops3) :=
  C15.resume_nolog_bisim env cfg rfl valid reach11 rfl 2 rfl junk resume_nolog_inst ops3
theorem resume_nolog_bisim_bad_inst : C15.ResEqModLog (run env n11 opsBad) (run env w11 opsBad) :=
  C15.resume_nolog_bisim env cfg rfl valid reach11 rfl 2 rfl [] resume_nolog_nil_inst opsBad

theorem resume_nolog_fields_inst :
    (∀ e, run env n11 ops3 = .error e ↔ run env w11 ops3 = .error e) ∧
    (∀ s', run env w11 ops3 = .ok s' →
      ∃ r', run env n11 ops3 = .ok r' ∧
        r'.stacks = s'.stacks ∧ r'.pot = s'.pot ∧ r'.street = s'.street ∧ r'.action = s'.action ∧
        r'.board = s'.board ∧ r'.deck = s'.deck ∧ r'.lastActions = s'.lastActions ∧ r'.complete = s'.complete ∧
        r'.payouts = s'.payouts ∧ r'.rakePaid = s'.rakePaid ∧
        r'.game = s'.game ∧ r'.n = s'.n ∧ r'.hands = s'.hands ∧ r'.startingStacks = s'.startingStacks ∧
        r'.ante = s'.ante ∧ r'.blinds = s'.blinds ∧ r'.runouts = s'.runouts ∧ r'.rake = s'.rake ∧
        r'.sampler = s'.sampler) ∧
    (∀ r', run env n11 ops3 = .ok r' → ∃ s', run env w11 ops3 = .ok s' ∧ C15.EqModLog r' s') :=
  C15.resume_nolog_fields env cfg rfl valid reach11 rfl 2 rfl resume_nolog_nil_inst ops3
/-- used: the resumed hand reaches the same showdown (payouts 394 / 118, rake 4 + 1 + 4) -/
theorem resumed_showdown : ∃ r', run env n11 ops3 = .ok r' ∧ r'.payouts = some [394, 118, 0, 0] ∧
    r'.rakePaid = some [4, 1, 4, 0] := by
  obtain ⟨r', h, _, _, _, _, _, _, _, _, hp, hr, _⟩ := resume_nolog_fields_inst.2.1 w14 run3
  exact ⟨r', h, hp, hr⟩

end C15bW
/-! ## C16 -/
namespace C16W
open H CardVerif.C16

/-- a gin ricky game: seven cards each, 5♥ turned up, player 1 to take it or pass -/
def gin0 : Gin.GState :=
  { params := Gin.Params.ricky none, deck := deckCards.drop 15, discard := [⟨5, 2⟩],
    p1 := deckCards.take 7, p2 := (deckCards.drop 7).take 7, turn := .p1DrawsFirst, firstTurn := .p1DrawsFirst,
    lastDraw := none, lastFromDiscard := none, hud := [(⟨5, 2⟩, .top)], complete := false, turns := 0,
    shuffles := 0, p1Points := none, p2Points := none }

/-- one process: the hand `H` on the turn, the PLO hand `A` just constructed, and the gin game -/
def pr : Process := ⟨World.std, [.poker w11, .poker A.w0, .gin gin0]⟩

/-- an interleaving: `H` is played to its showdown (and then pokes at the complete hand), `A` gets a raise, the gin
game a pass, a draw from the pile and a discard; one operation addresses a game that does not exist, one is of the
wrong kind -/
def sched : List (Nat × GameOp) :=
  [(0, .act 2 (some .call) none), (2, .move .pass), (1, .act 2 (some .raise) (some 35)), (0, .act 0 (some .check) none),
   (2, .move (.draw true)), (5, .act 0 (some .check) none), (1, .move .pass), (0, .act 2 (some .check) none),
   (2, .move (.discard ⟨3, 3⟩)), (0, .act 0 (some .bet) (some 10)), (1, .act 0 (some .raise) (some 500))]

def Result.tag : Result → String
  | .pokerOk _ => "pokerOk" | .pokerErr e => "pokerErr " ++ e.name | .ginOk _ => "ginOk"
  | .ginErr e => "ginErr " ++ e.name | .wrongKind => "wrongKind"

set_option maxRecDepth 8192

/-- what happens in the interleaving (independent evaluation) -/
example : (runProcess id rankT id pr sched).2.map (fun r => (r.1, Result.tag r.2)) =
    [(0, "pokerOk"), (2, "ginOk"), (1, "pokerOk"), (0, "pokerOk"), (2, "ginOk"), (1, "wrongKind"), (0, "pokerOk"),
     (2, "ginOk"), (0, "pokerErr handComplete"), (1, "pokerErr overStack")] := by decide +kernel

theorem world_invariant_inst :
    (stepGame id rankT id World.std (.poker w13) (.act 2 (some .check) none)).1 = World.std :=
  C16.world_invariant id rankT id World.std (.poker w13) (.act 2 (some .check) none)
theorem world_invariant_gin_inst : (stepGame id rankT id World.std (.gin gin0) (.move .pass)).1 = World.std :=
  C16.world_invariant id rankT id World.std (.gin gin0) (.move .pass)

theorem process_world_invariant_inst : (runProcess id rankT id pr sched).1.world = pr.world :=
  C16.process_world_invariant id rankT id pr sched

/-- the hand `H` inside the interleaving = `H` alone -/
theorem isolation_inst :
    ((runProcess id rankT id pr sched).2.filter (·.1 == 0)).map (·.2) =
      runAlone id rankT id pr.world (.poker w11) ((sched.filter (·.1 == 0)).map (·.2)) :=
  C16.isolation id rankT id pr sched 0 (.poker w11) rfl
/-- the gin game inside the interleaving = the gin game alone -/
theorem isolation_gin_inst :
    ((runProcess id rankT id pr sched).2.filter (·.1 == 2)).map (·.2) =
      runAlone id rankT id pr.world (.gin gin0) ((sched.filter (·.1 == 2)).map (·.2)) :=
  C16.isolation id rankT id pr sched 2 (.gin gin0) rfl
theorem isolation_A_inst :
    ((runProcess id rankT id pr sched).2.filter (·.1 == 1)).map (·.2) =
      runAlone id rankT id pr.world (.poker A.w0) ((sched.filter (·.1 == 1)).map (·.2)) :=
  C16.isolation id rankT id pr sched 1 (.poker A.w0) rfl

/-- the right-hand side of `isolation_inst`, evaluated: `H` alone reaches the showdown `w14` -/
example : (runAlone id rankT id World.std (.poker w11) ((sched.filter (·.1 == 0)).map (·.2))).map Result.tag =
    ["pokerOk", "pokerOk", "pokerOk", "pokerErr handComplete"] := by decide +kernel

end C16W
/-! ## axioms used by the witnesses -/
/-! ## C13 with the REAL evaluators (`RankTotalOn`, `Cfg.Dealt`) -/
namespace C13R
open H

set_option maxRecDepth 8192

/-- the hand `H` in an environment with any rounding and any evaluator (no step before the showdown evaluates a hand) -/
def envWith (fl : Rat → Rat) (rk : RankFn) : Env := ⟨World.std, fl, rk⟩

theorem b1 (fl rk) : w0.act (envWith fl rk) 2 (some .raise) (some 30) = .ok w1 := by rfl
theorem b2 (fl rk) : w1.act (envWith fl rk) 3 (some .fold) none = .ok w2 := by rfl
theorem b3 (fl rk) : w2.act (envWith fl rk) 0 (some .call) none = .ok w3 := by rfl
theorem b4 (fl rk) : w3.act (envWith fl rk) 1 (some .raise) (some 29) = .ok w4 := by rfl
theorem b5 (fl rk) : w4.act (envWith fl rk) 2 (some .call) none = .ok w5 := by rfl
theorem b6 (fl rk) : w5.act (envWith fl rk) 0 (some .call) (some 9) = .ok w6 := by rfl
theorem b7 (fl rk) : w6.act (envWith fl rk) 0 (some .bet) (some 50) = .ok w7 := by rfl
theorem b8 (fl rk) : w7.act (envWith fl rk) 2 (some .call) none = .ok w8 := by rfl
theorem b9 (fl rk) : w8.act (envWith fl rk) 0 (some .check) none = .ok w9 := by rfl
theorem b10 (fl rk) : w9.act (envWith fl rk) 2 (some .bet) (some 60) = .ok w10 := by rfl
theorem b11 (fl rk) : w10.act (envWith fl rk) 0 (some .raise) (some 150) = .ok w11 := by rfl
theorem b12 (fl rk) : w11.act (envWith fl rk) 2 (some .call) none = .ok w12 := by rfl
theorem b13 (fl rk) : w12.act (envWith fl rk) 0 (some .check) none = .ok w13 := by rfl

/-- the river, seat 2 still to act: reachable whatever the rounding and the evaluator -/
theorem reach13 (fl rk) : Reachable (envWith fl rk) cfg w13 :=
  .step 0 (some .check) none (.step 2 (some .call) none (.step 0 (some .raise) (some 150)
  (.step 2 (some .bet) (some 60) (.step 0 (some .check) none (.step 2 (some .call) none
  (.step 0 (some .bet) (some 50) (.step 0 (some .call) (some 9) (.step 2 (some .call) none
  (.step 1 (some .raise) (some 29) (.step 0 (some .call) none (.step 3 (some .fold) none
  (.step 2 (some .raise) (some 30) (.init h0) (b1 fl rk)) (b2 fl rk)) (b3 fl rk)) (b4 fl rk)) (b5 fl rk)) (b6 fl rk))
  (b7 fl rk)) (b8 fl rk)) (b9 fl rk)) (b10 fl rk)) (b11 fl rk)) (b12 fl rk)) (b13 fl rk)

/-- the sixteen cards of `H` (eight in the deck, eight hole cards) are distinct valid cards -/
theorem dealt : cfg.Dealt := Cfg.Dealt.of_distinct (by decide) (by decide)

/-- the real evaluators are not `RankTotal` (header NOTE) but are `RankTotalOn` -/
example : ¬ RankTotal .nlhe Eval.holdemBrute ∧ RankTotalOn .nlhe Eval.holdemBrute :=
  ⟨holdemBrute_not_rankTotal, rankTotalOn_holdemBrute⟩

theorem no_internal_error_on_inst : ∃ s', C03W.m14.advanceAction (envWith id Eval.holdemStrength) = .ok s' :=
  C13.no_internal_error_on (envWith id Eval.holdemStrength) cfg rfl C14.flSpec_id valid dealt
    rankTotalOn_holdemStrength (reach13 _ _) 2 (some .check) none C03W.ap14

theorem no_internal_error_on_B_inst : ∃ s', C03W.m14.advanceAction (envWith id Eval.holdemStrength) = .ok s' :=
  C13.no_internal_error_on_B (envWith id Eval.holdemStrength) cfg rfl (B := 2000) (C14.flSpec_id.toB 2000) valid
    (by decide) dealt rankTotalOn_holdemStrength (reach13 _ _) 2 (some .check) none C03W.ap14

theorem no_internal_error_on_f53_inst :
    ∃ s', C03W.m14.advanceAction (envWith Float53.rnd Eval.holdemStrength) = .ok s' :=
  C13.no_internal_error_on_f53 (envWith Float53.rnd Eval.holdemStrength) cfg rfl rfl valid (by decide) dealt
    rankTotalOn_holdemStrength (reach13 _ _) 2 (some .check) none C03W.ap14

/-- `H` with `get_hand_strength_fast`, exact rationals: the river check that triggers the showdown -/
theorem no_internal_error_nlhe_inst : ∃ s', C03W.m14.advanceAction (envWith id Eval.holdemStrength) = .ok s' :=
  C13.no_internal_error_nlhe (envWith id Eval.holdemStrength) cfg rfl C14.flSpec_id valid dealt rfl rfl
    (reach13 _ _) 2 (some .check) none C03W.ap14
/-- and the showdown it reaches is the one of `H` (same ranking as with the idealised evaluator) -/
example : C03W.m14.advanceAction (envWith id Eval.holdemStrength) = .ok w14 := by decide +kernel

/-- `H` with `get_hand_strength_fast`, IEEE doubles -/
theorem no_internal_error_nlhe_f53_inst :
    ∃ s', C03W.m14.advanceAction (envWith Float53.rnd Eval.holdemStrength) = .ok s' :=
  C13.no_internal_error_nlhe_f53 (envWith Float53.rnd Eval.holdemStrength) cfg rfl rfl valid (by decide) dealt rfl rfl
    (reach13 _ _) 2 (some .check) none C03W.ap14

/-- `H` exactly as the native driver runs it: `rankFnOf .nlhe = Eval.holdemBrute`, `fl = Float53.rnd` -/
theorem no_internal_error_nlhe_brute_f53_inst :
    ∃ s', C03W.m14.advanceAction (envWith Float53.rnd Eval.holdemBrute) = .ok s' :=
  C13.no_internal_error_nlhe_brute_f53 (envWith Float53.rnd Eval.holdemBrute) cfg rfl rfl valid (by decide) dealt
    rfl rfl (reach13 _ _) 2 (some .check) none C03W.ap14
example : C03W.m14.advanceAction (envWith Float53.rnd Eval.holdemBrute) = .ok w14 := by decide +kernel

theorem no_internal_error_nlhe_brute_inst : ∃ s', C03W.m14.advanceAction (envWith id Eval.holdemBrute) = .ok s' :=
  C13.no_internal_error_nlhe_brute (envWith id Eval.holdemBrute) cfg rfl C14.flSpec_id valid dealt rfl rfl
    (reach13 _ _) 2 (some .check) none C03W.ap14

/-! the PLO hand `A` (two run-outs, IEEE doubles) with the brute-force Omaha evaluator -/

def envA : Env := ⟨World.std, Float53.rnd, Eval.omahaBrute⟩
theorem c1 : A.w0.act envA 2 (some .raise) (some 35) = .ok A.w1 := by decide +kernel
theorem c2 : A.w1.act envA 0 (some .call) none = .ok A.w2 := by decide +kernel
theorem reachA2 : Reachable envA A.cfg A.w2 :=
  .step 0 (some .call) none (.step 2 (some .raise) (some 35) (.init A.h0) c1) c2
theorem dealtA : A.cfg.Dealt := Cfg.Dealt.of_distinct (by decide) (by decide)

/-- the call that puts the last short stack all-in: two run-outs are sampled, each ranked by `brute_force_omaha_hi_rank` -/
theorem no_internal_error_plo_brute_f53_inst : ∃ s', A.m3.advanceAction envA = .ok s' :=
  C13.no_internal_error_plo_brute_f53 envA A.cfg rfl rfl A.valid (by decide) dealtA rfl rfl reachA2
    1 (some .call) none A.ap3
example : A.m3.advanceAction envA = .ok A.w3 := by decide +kernel

def envAQ : Env := ⟨World.std, id, Eval.omahaBrute⟩
theorem d1 : A.w0.act envAQ 2 (some .raise) (some 35) = .ok A.w1 := by decide +kernel
theorem d2 : A.w1.act envAQ 0 (some .call) none = .ok A.w2 := by decide +kernel
/-- the same with exact rationals -/
theorem no_internal_error_plo_brute_inst : ∃ s', A.m3.advanceAction envAQ = .ok s' :=
  C13.no_internal_error_plo_brute envAQ A.cfg rfl C14.flSpec_id A.valid dealtA rfl rfl
    (.step 0 (some .call) none (.step 2 (some .raise) (some 35) (.init A.h0) d1) d2) 1 (some .call) none A.ap3

end C13R

#print axioms C03W.max_holder_not_folded_inst
#print axioms C03W.closed_iff_inst
#print axioms C03W.closed_iff_open_inst
#print axioms C03W.closed_iff_reachable_inst
#print axioms C03W.closed_iff_reachable_final_inst
#print axioms C03W.construct_actor_inst
#print axioms C03W.construct_actor_hu_inst
#print axioms C03W.blind_flip_inst
#print axioms C03W.actor_live_inst
#print axioms C03W.step_open_inst
#print axioms C03W.step_closed_no_more_betting_inst
#print axioms C03W.step_closed_next_street_inst
#print axioms C03W.step_closed_river_inst
#print axioms C03W.street_le_inst
#print axioms C03W.street_le_final_inst
#print axioms C01W.construct_ok_inst
#print axioms C01W.conservation_inst
#print axioms C01W.conservation_final_inst
#print axioms C01W.reachable_wf_inst
#print axioms C01W.reachable_wf_final_inst
#print axioms C01W.completion_inst
#print axioms C01W.completion_B_inst
#print axioms C01W.completion_f53_inst
#print axioms C01W.completion_f53_A_inst
#print axioms C01W.conservation_A_inst
#print axioms C01W.in_progress_no_payouts_inst
#print axioms C04W.accept_iff_inst
#print axioms C04W.accept_iff_mp_inst
#print axioms C04W.accept_iff_refused_inst
#print axioms C04W.accept_effect_inst
#print axioms C04W.accept_effect_call_inst
#print axioms C04W.gap_le_lastRaise_inst
#print axioms C04W.gap_le_lastRaise_short_inst
#print axioms C04W.legal_accepted_inst
#print axioms C04W.legal_accepted_allin_inst
#print axioms C04W.accepted_legal_or_F5_inst
#print axioms C04W.accepted_legal_or_F5_dev_inst
#print axioms C04W.F5_witness_inst
#print axioms C13W.legal_exists_inst
#print axioms C13W.legal_exists_check_inst
#print axioms C13W.no_internal_error_inst
#print axioms C13W.no_internal_error_B_inst
#print axioms C13W.no_internal_error_f53_inst
#print axioms C13W.no_internal_error_f53_H_inst
#print axioms C13W.terminates_inst
#print axioms C13W.complete_shape_inst
#print axioms C13W.complete_shape_A_inst
#print axioms C15W.log_grows_inst
#print axioms C15W.log_grows_call_inst
#print axioms C15W.act_filled_inst
#print axioms C15W.replay_inst
#print axioms C15W.replay_mid_inst
#print axioms C15W.replay_A_inst
#print axioms C15W.resume_inst
#print axioms C15W.resume_bisim_inst
#print axioms C15W.resume_bisim_bad_inst
#print axioms C15W.reset_own_log_inst
#print axioms C15W.reset_own_log_mid_inst
#print axioms C15W.reset_idempotent_inst
#print axioms C15bW.eqModLog_iff_inst
#print axioms C15bW.eqModLog_iff_neg_inst
#print axioms C15bW.EqModLog_refl_inst
#print axioms C15bW.EqModLog_symm_inst
#print axioms C15bW.EqModLog_trans_inst
#print axioms C15bW.eqModLog_setLog_inst
#print axioms C15bW.EqModLog_eq_of_log_inst
#print axioms C15bW.act_modlog_inst
#print axioms C15bW.act_modlog_ok_inst
#print axioms C15bW.act_modlog_error_inst
#print axioms C15bW.run_modlog_inst
#print axioms C15bW.run_modlog_bad_inst
#print axioms C15bW.resEqModLog_iff_inst
#print axioms C15bW.ResEqModLog_ok_inst
#print axioms C15bW.ResEqModLog_error_inst
#print axioms C15bW.ResEqModLog_symm_inst
#print axioms C15bW.resEqModLog_of_erased_inst
#print axioms C15bW.resume_nolog_inst
#print axioms C15bW.resume_nolog_nil_inst
#print axioms C15bW.resume_nolog_bisim_inst
#print axioms C15bW.resume_nolog_bisim_bad_inst
#print axioms C15bW.resume_nolog_fields_inst
#print axioms C16W.world_invariant_inst
#print axioms C16W.world_invariant_gin_inst
#print axioms C16W.process_world_invariant_inst
#print axioms C16W.isolation_inst
#print axioms C16W.isolation_gin_inst
#print axioms C16W.isolation_A_inst
#print axioms H.holdemBrute_not_rankTotal
#print axioms H.omahaBrute_not_rankTotal
#print axioms C04W.F5Dev19
#print axioms C04W.F5_witness_H
#print axioms C13R.no_internal_error_on_inst
#print axioms C13R.no_internal_error_on_B_inst
#print axioms C13R.no_internal_error_on_f53_inst
#print axioms C13R.no_internal_error_nlhe_inst
#print axioms C13R.no_internal_error_nlhe_f53_inst
#print axioms C13R.no_internal_error_nlhe_brute_inst
#print axioms C13R.no_internal_error_nlhe_brute_f53_inst
#print axioms C13R.no_internal_error_plo_brute_inst
#print axioms C13R.no_internal_error_plo_brute_f53_inst

end CardVerif.Witness.Betting
