import CardVerif.Props.C08
import CardVerif.Props.C08b
import CardVerif.Props.C12
import CardVerif.Props.C19
import CardVerif.Props.C18
import CardVerif.Props.C18b
import CardVerif.Props.C18c
import CardVerif.Props.C20
/-!
# Non-vacuity witnesses: gin melds (C08, C08b), lay-offs (C12), ricky (C19), symmetry (C18*), dealing (C20)

No vacuity finding: every property theorem of C08, C08b, C12, C18 (a, b, c), C19 and C20 is applied below to a concrete
non-degenerate instance all of whose hypotheses are proved.  Two hypotheses are negated existentials over all meld
lists (`hno` of `C19.ricky_value` and of `C08.candidates_stop_no_gin`); they are established for the instance from the
computed value together with `C19.ricky_zero_iff` / `C08.split_optimal` (hand worth 24 ≠ 0, best split leaves 17 ≠ 0).
-/
namespace CardVerif.Witness.MeldsSym
open CardVerif CardVerif.Gin CardVerif.Misc CardVerif.Sym

/-! ## helpers to build the spec predicates on concrete lists -/

theorem isSet_of (m : List Card) (r : Nat)
    (h : m.Nodup ∧ (m.length = 3 ∨ m.length = 4) ∧ ∀ c ∈ m, c.rank = r) : LegalMeld m :=
  Or.inl ⟨h.1, h.2.1, r, h.2.2⟩

theorem isRun_of (m : List Card) (suit lo len : Nat)
    (h : 3 ≤ len ∧ len ≤ 13 ∧ 1 ≤ lo ∧ lo + len ≤ 15 ∧ m.Perm (runCards suit lo len)) : LegalMeld m :=
  Or.inr ⟨suit, lo, len, h⟩

theorem all1 {α} {P : α → Prop} {a : α} (ha : P a) : ∀ x ∈ [a], P x := by simp [ha]
theorem all2 {α} {P : α → Prop} {a b : α} (ha : P a) (hb : P b) : ∀ x ∈ [a, b], P x := by simp [ha, hb]
theorem all3 {α} {P : α → Prop} {a b c : α} (ha : P a) (hb : P b) (hc : P c) : ∀ x ∈ [a, b, c], P x := by
  simp [ha, hb, hc]

-- card names: suits c = 0, d = 1, h = 2, s = 3
abbrev cd (r s : Nat) : Card := ⟨r, s⟩

/-! ## C08 / C08b — an eleven-card hand in which 7h belongs to a set (7c 7d 7h) and to runs (5h..8h) -/
namespace C08W

def hand : List Card :=
  [cd 7 0, cd 13 3, cd 5 2, cd 7 1, cd 14 0, cd 6 2, cd 13 0, cd 7 2, cd 2 3, cd 8 2, cd 13 1]

theorem hok : HandOK hand := by unfold HandOK; decide
theorem hlen : hand.length ≤ 11 := by decide

/-- the best split: K-set and the heart run 5..8, deadwood A 2 7 7 = 17 -/
def best : Candidate :=
  ⟨17, [[cd 13 3, cd 13 0, cd 13 1], [cd 5 2, cd 6 2, cd 7 2, cd 8 2]], [cd 14 0, cd 2 3, cd 7 0, cd 7 1]⟩

theorem split_eq : splitMelds hand = .ok best := by decide +kernel

/-- a worse arrangement using the overlapping card 7h in the set instead (melds and cards in scrambled order) -/
def msSet : List (List Card) := [[cd 13 1, cd 13 3, cd 13 0], [cd 7 2, cd 7 0, cd 7 1]]

theorem arrSet : Arrangement hand msSet where
  legal := all2 (isSet_of _ 13 (by decide)) (isSet_of _ 7 (by decide))
  sub := by decide
  disjoint := by decide

theorem allMelds_exact_inst : AllMeldsExact hand := C08.allMelds_exact hand hok hlen

theorem split_legal_inst :
    Arrangement hand best.melds ∧ best.unmelded.Perm (restOf hand best.melds) ∧
      best.deadwood = deadwood best.unmelded := C08.split_legal hand hok hlen best split_eq

theorem split_total_inst : ∃ c, splitMelds hand = .ok c := C08.split_total hand

theorem split_optimal_inst : best.deadwood ≤ deadwood (restOf hand msSet) :=
  C08.split_optimal hand hok hlen best split_eq msSet arrSet
example : best.deadwood = 17 ∧ deadwood (restOf hand msSet) = 22 := by decide

/-- the candidate that melds 7h in the set -/
def cSet : Candidate :=
  ⟨22, [[cd 7 0, cd 7 1, cd 7 2], [cd 13 3, cd 13 0, cd 13 1]], [cd 14 0, cd 2 3, cd 5 2, cd 6 2, cd 8 2]⟩

theorem cSet_mem : cSet ∈ getCandidateMelds hand (some 25) false := by decide +kernel

theorem candidates_sound_inst :
    Arrangement hand cSet.melds ∧ cSet.melds.length ≤ 3 ∧ cSet.unmelded.Perm (restOf hand cSet.melds) ∧
      cSet.deadwood = deadwood cSet.unmelded ∧ (∀ d, some 25 = some d → cSet.deadwood ≤ d) :=
  C08.candidates_sound hand hok hlen (some 25) false cSet cSet_mem

theorem hd25 : ∀ d, some 25 = some d → deadwood (restOf hand msSet) ≤ d := by
  intro d h; cases h; decide

theorem candidates_complete_inst :
    ∃ c ∈ getCandidateMelds hand (some 25) false, c.melds.length = msSet.length ∧
      (∀ m ∈ msSet, ∃ m' ∈ c.melds, m'.Perm m) ∧ c.deadwood = deadwood (restOf hand msSet) :=
  C08.candidates_complete hand hok hlen (some 25) msSet arrSet (by decide) hd25
-- independently: `cSet` is that candidate
example : cSet.melds.length = msSet.length ∧ (∀ m ∈ msSet, ∃ m' ∈ cSet.melds, m'.Perm m) ∧
    cSet.deadwood = deadwood (restOf hand msSet) := by decide

/-! ### C08b on the same hand -/

/-- the same arrangement in a third order -/
def msSet' : List (List Card) := [[cd 7 1, cd 7 2, cd 7 0], [cd 13 0, cd 13 1, cd 13 3]]

theorem same1 : C08.SameArrangement msSet cSet.melds := by unfold C08.SameArrangement; decide
theorem same2 : C08.SameArrangement cSet.melds msSet' := by unfold C08.SameArrangement; decide

theorem same_refl_inst : C08.SameArrangement msSet msSet := C08.SameArrangement.refl msSet
theorem same_trans_inst : C08.SameArrangement msSet msSet' := C08.SameArrangement.trans same1 same2
theorem same_symm_inst : C08.SameArrangement cSet.melds msSet :=
  C08.SameArrangement.symm (by decide) (by decide) same1
theorem same_symm_of_arrangement_inst : C08.SameArrangement cSet.melds msSet :=
  C08.SameArrangement.symm_of_arrangement arrSet same1

theorem candidates_once_inst :
    (getCandidateMelds hand (some 25) false).Pairwise (fun a b => ¬ C08.SameArrangement a.melds b.melds) :=
  C08.candidates_once hand hok hlen (some 25)
example : (getCandidateMelds hand (some 25) false).length = 4 := by decide +kernel

theorem candidates_nodup_inst : (getCandidateMelds hand none false).Nodup :=
  C08.candidates_nodup hand hok hlen none
example : (getCandidateMelds hand none false).length = 10 := by decide +kernel

/-- no gin in this hand: every arrangement leaves at least 17 (by optimality of the best split) -/
theorem no_gin : ¬ ∃ ms, Arrangement hand ms ∧ ms.length ≤ 3 ∧ ms ≠ [] ∧ deadwood (restOf hand ms) = 0 := by
  rintro ⟨ms, harr, -, -, hz⟩
  have h := C08.split_optimal hand hok hlen best split_eq ms harr
  rw [hz] at h
  exact absurd h (by decide)

theorem candidates_stop_no_gin_inst :
    getCandidateMelds hand (some 25) true = getCandidateMelds hand (some 25) false :=
  C08.candidates_stop_no_gin hand hok hlen (some 25) no_gin
example : getCandidateMelds hand (some 25) true = getCandidateMelds hand (some 25) false := by decide +kernel

theorem candidates_exact_inst :
    (∀ c ∈ getCandidateMelds hand (some 25) false,
      Arrangement hand c.melds ∧ c.melds.length ≤ 3 ∧ c.unmelded.Perm (restOf hand c.melds) ∧
      c.deadwood = deadwood c.unmelded ∧ (∀ d, some 25 = some d → c.deadwood ≤ d)) ∧
    (∀ ms, Arrangement hand ms → ms.length ≤ 3 → (∀ d, some 25 = some d → deadwood (restOf hand ms) ≤ d) →
      ∃ l₁ c l₂, getCandidateMelds hand (some 25) false = l₁ ++ c :: l₂ ∧ C08.SameArrangement ms c.melds ∧
        c.unmelded.Perm (restOf hand ms) ∧ c.deadwood = deadwood (restOf hand ms) ∧
        ∀ c' ∈ l₁ ++ l₂, ¬ C08.SameArrangement ms c'.melds) :=
  C08.candidates_exact hand hok hlen (some 25)

/-- its completeness half applied to the scrambled set arrangement -/
theorem candidates_exact_msSet_inst :
    ∃ l₁ c l₂, getCandidateMelds hand (some 25) false = l₁ ++ c :: l₂ ∧ C08.SameArrangement msSet c.melds ∧
      c.unmelded.Perm (restOf hand msSet) ∧ c.deadwood = deadwood (restOf hand msSet) ∧
      ∀ c' ∈ l₁ ++ l₂, ¬ C08.SameArrangement msSet c'.melds :=
  candidates_exact_inst.2 msSet arrSet (by decide) hd25

end C08W

/-! ## C08 gin stop — an eleven-card gin hand: 7h is in the four sevens and in the heart run -/
namespace GinW

def hand : List Card :=
  [cd 7 0, cd 13 3, cd 5 2, cd 7 1, cd 13 2, cd 6 2, cd 13 0, cd 7 2, cd 7 3, cd 8 2, cd 13 1]

theorem hok : HandOK hand := by unfold HandOK; decide
theorem hlen : hand.length ≤ 11 := by decide

/-- 3 + 4 + 4: sevens without 7h, the heart run 5..8, the four kings -/
def ms : List (List Card) :=
  [[cd 7 3, cd 7 0, cd 7 1], [cd 8 2, cd 7 2, cd 6 2, cd 5 2], [cd 13 0, cd 13 1, cd 13 2, cd 13 3]]

theorem arr : Arrangement hand ms where
  legal := all3 (isSet_of _ 7 (by decide)) (isRun_of _ 2 5 4 (by decide)) (isSet_of _ 13 (by decide))
  sub := by decide
  disjoint := by decide

theorem candidates_stop_on_gin_inst : ∃ c, getCandidateMelds hand (some 25) true = [c] ∧ c.deadwood = 0 :=
  C08.candidates_stop_on_gin hand hok hlen (some 25) ms arr (by decide) (by decide) (by decide)
example : getCandidateMelds hand (some 25) true =
    [⟨0, [[cd 7 0, cd 7 1, cd 7 3], [cd 13 3, cd 13 2, cd 13 0, cd 13 1], [cd 5 2, cd 6 2, cd 7 2, cd 8 2]], []⟩] := by
  decide +kernel

end GinW
/-! ## C12 — the defender's 9h fits the knocker's set of nines and the knocker's heart run 6-7-8;
3s is in the defender's own set of threes and in the spade run 3-4-5 -/
namespace C12W

/-- knocker: 9c 9s 9d, 8h 6h 7h, four queens -/
def K : List (List Card) :=
  [[cd 9 0, cd 9 3, cd 9 1], [cd 8 2, cd 6 2, cd 7 2], [cd 12 0, cd 12 1, cd 12 2, cd 12 3]]

/-- defender (ten cards) -/
def hand : List Card := [cd 11 0, cd 9 2, cd 3 0, cd 4 3, cd 10 2, cd 3 1, cd 13 1, cd 3 3, cd 5 3, cd 2 1]

theorem hok : HandOK hand := by unfold HandOK; decide
theorem hlen : hand.length ≤ 11 := by decide

theorem hk : KnockOK hand K where
  legal := all3 (isSet_of _ 9 (by decide)) (isRun_of _ 2 6 3 (by decide)) (isSet_of _ 12 (by decide))
  disjoint := by decide
  valid := by decide

/-- spade run kept, 9h 10h laid off on the heart run, deadwood 2 3 3 J K = 28 -/
def r : LayoffResult :=
  ⟨28, [[cd 3 3, cd 4 3, cd 5 3]], [cd 9 2, cd 10 2], [cd 2 1, cd 3 0, cd 3 1, cd 11 0, cd 13 1]⟩

theorem run_true : layoffDeadwood hand K true = .ok r := by decide +kernel
theorem run_false : layoffDeadwood hand K false = .ok r := by decide +kernel

theorem layoff_total_inst : ∃ r, layoffDeadwood hand K true = .ok r := C12.layoff_total hand K hk true

theorem layoff_sound_inst :
    Arrangement hand r.melds ∧ LayoffOK K r.laidOff ∧
      (r.melds.flatten ++ r.laidOff ++ r.unmelded).Perm hand ∧ r.deadwood = deadwood r.unmelded :=
  C12.layoff_sound hand hok hlen K hk false r run_false

/-- a competing play: keep the three threes (3s in the set instead of the run) and lay off 10h and 9h; 9h is
justified as the fourth nine, 10h as a run lay-off two above 8h, reaching the run through 9h ∈ L -/
def A : List (List Card) := [[cd 3 1, cd 3 3, cd 3 0]]
def L : List Card := [cd 10 2, cd 9 2]

theorem arrA : Arrangement hand A where
  legal := all1 (isSet_of _ 3 (by decide))
  sub := by decide
  disjoint := by decide

theorem hsub : ∀ c ∈ L, c ∈ restOf hand A := by decide

theorem hlo : LayoffOK K L := by
  refine ⟨by decide, all2 (Or.inr ?_) (Or.inl ?_)⟩
  · -- 10h: above the run 6h..8h, with 9h in L
    refine ⟨[cd 8 2, cd 6 2, cd 7 2], by decide, 2, 6, 3, by decide, by decide, by decide, by decide, by decide, rfl,
      Or.inr ⟨10, by decide, by decide, rfl, ?_⟩⟩
    intro u h1 h2
    have hu : u = 9 := by omega
    subst hu
    decide
  · -- 9h: fourth nine
    exact ⟨[cd 9 0, cd 9 3, cd 9 1], by decide, ⟨by decide, by decide, 9, by decide⟩, rfl, by decide⟩

theorem layoff_optimal_inst : r.deadwood ≤ deadwood ((restOf hand A).filter fun c => !L.contains c) :=
  C12.layoff_optimal hand hok hlen K hk true r run_true A L arrA hsub hlo
example : r.deadwood = 28 ∧ deadwood ((restOf hand A).filter fun c => !L.contains c) = 31 := by decide

theorem layoff_stop_irrelevant_inst : r.deadwood = r.deadwood :=
  C12.layoff_stop_irrelevant hand hok hlen K hk r r run_true run_false

end C12W

/-! ## C19 — gin ricky -/
namespace C19W

/-- eight cards with a 3 + 4 gin: 5c 5d 5h + 5s 6s 7s 8s (or 5555 + 6s 7s 8s), Kd over -/
def gin8 : List Card := [cd 5 0, cd 13 1, cd 6 3, cd 5 1, cd 8 3, cd 5 2, cd 5 3, cd 7 3]

theorem gin8_ok : HandOK gin8 := by unfold HandOK; decide
theorem gin8_len : gin8.length = 7 ∨ gin8.length = 8 := by decide

def m3 : List Card := [cd 5 1, cd 5 2, cd 5 0]
def m4 : List Card := [cd 7 3, cd 5 3, cd 8 3, cd 6 3]

theorem m3_ricky : RickyMeld 3 m3 := ⟨rfl, isSet_of _ 5 (by decide)⟩
theorem m4_ricky : RickyMeld 4 m4 := ⟨rfl, isRun_of _ 3 5 4 (by decide)⟩

theorem gin8_pair : ∃ m3 m4, RickyMeld 3 m3 ∧ RickyMeld 4 m4 ∧ (∀ c ∈ m3, c ∈ gin8) ∧ (∀ c ∈ m4, c ∈ gin8) ∧
    (m3 ++ m4).Nodup := ⟨m3, m4, m3_ricky, m4_ricky, by decide, by decide, by decide⟩

/-- right to left on the gin hand -/
theorem ricky_zero_iff_inst : handPoints gin8 = .ok 0 := (C19.ricky_zero_iff gin8 gin8_ok gin8_len).2 gin8_pair
example : handPoints gin8 = .ok 0 := by decide +kernel

theorem sort_hand_melds_first_inst :
    ∃ s, sortHand gin8 = .ok s ∧ RickyMeld 4 (s.take 4) ∧ RickyMeld 3 ((s.drop 4).take 3) :=
  C19.sort_hand_melds_first gin8 gin8_ok gin8_len ricky_zero_iff_inst
example : sortHand gin8 = .ok [cd 5 0, cd 5 1, cd 5 2, cd 5 3, cd 6 3, cd 7 3, cd 8 3, cd 13 1] := by decide +kernel

theorem sort_hand_perm_gin_inst : ∃ s, sortHand gin8 = .ok s ∧ s.Perm gin8 :=
  C19.sort_hand_perm gin8 gin8_ok gin8_len

/-- eight cards without a gin: 5h is in the set of fives and in the heart run 5-6-7; no four-card meld -/
def hand8 : List Card := [cd 5 0, cd 13 1, cd 6 2, cd 5 1, cd 2 3, cd 5 2, cd 7 2, cd 12 2]

theorem hand8_ok : HandOK hand8 := by unfold HandOK; decide
theorem hand8_len : hand8.length = 7 ∨ hand8.length = 8 := by decide

theorem hand8_pts : handPoints hand8 = .ok 24 := by decide +kernel

/-- left to right of `ricky_zero_iff`, contraposed: worth 24, hence no 3 + 4 pair of melds -/
theorem hand8_no_pair : ¬ ∃ m3 m4, RickyMeld 3 m3 ∧ RickyMeld 4 m4 ∧ (∀ c ∈ m3, c ∈ hand8) ∧
    (∀ c ∈ m4, c ∈ hand8) ∧ (m3 ++ m4).Nodup := by
  intro h
  have hz := (C19.ricky_zero_iff hand8 hand8_ok hand8_len).2 h
  rw [hand8_pts] at hz
  exact absurd hz (by decide)

theorem ricky_value_inst :
    ∃ v, handPoints hand8 = .ok v ∧ v ≤ rickyVal hand8.length hand8 ∧
      (∀ m, (RickyMeld 3 m ∨ RickyMeld 4 m) → (∀ c ∈ m, c ∈ hand8) →
        v ≤ rickyVal hand8.length (hand8.filter fun c => !m.contains c)) ∧
      (v = rickyVal hand8.length hand8 ∨
       ∃ m, (RickyMeld 3 m ∨ RickyMeld 4 m) ∧ (∀ c ∈ m, c ∈ hand8) ∧
         v = rickyVal hand8.length (hand8.filter fun c => !m.contains c)) :=
  C19.ricky_value hand8 hand8_ok hand8_len hand8_no_pair

/-- the conclusion used: 24 is at most the value left after setting aside the three fives -/
theorem ricky_value_fives_inst : 24 ≤ rickyVal hand8.length (hand8.filter fun c => !m3.contains c) := by
  obtain ⟨v, hv, -, hall, -⟩ := ricky_value_inst
  rw [hand8_pts] at hv
  injection hv with hv
  subst hv
  exact hall m3 (Or.inl m3_ricky) (by decide)
-- full value 55 - 13, without the fives 40 - 13, without 5h 6h 7h 37 - 13 = 24
example : rickyVal hand8.length hand8 = 42 ∧
    rickyVal hand8.length (hand8.filter fun c => !m3.contains c) = 27 ∧
    rickyVal hand8.length (hand8.filter fun c => ![cd 5 2, cd 6 2, cd 7 2].contains c) = 24 := by decide

theorem sort_hand_perm_inst : ∃ s, sortHand hand8 = .ok s ∧ s.Perm hand8 :=
  C19.sort_hand_perm hand8 hand8_ok hand8_len
example : sortHand hand8 = .ok [cd 5 2, cd 6 2, cd 7 2, cd 2 3, cd 5 0, cd 5 1, cd 12 2, cd 13 1] := by decide +kernel

/-- the seven-card case (`hlen` left disjunct): the same hand without Qh, worth 38 - 5h 6h 7h = 25 -/
def hand7 : List Card := [cd 5 0, cd 13 1, cd 6 2, cd 5 1, cd 2 3, cd 5 2, cd 7 2]
theorem hand7_ok : HandOK hand7 := by unfold HandOK; decide
theorem hand7_pts : handPoints hand7 = .ok 25 := by decide +kernel

theorem ricky_value7_inst :
    ∃ v, handPoints hand7 = .ok v ∧ v ≤ rickyVal hand7.length hand7 ∧
      (∀ m, (RickyMeld 3 m ∨ RickyMeld 4 m) → (∀ c ∈ m, c ∈ hand7) →
        v ≤ rickyVal hand7.length (hand7.filter fun c => !m.contains c)) ∧
      (v = rickyVal hand7.length hand7 ∨
       ∃ m, (RickyMeld 3 m ∨ RickyMeld 4 m) ∧ (∀ c ∈ m, c ∈ hand7) ∧
         v = rickyVal hand7.length (hand7.filter fun c => !m.contains c)) :=
  C19.ricky_value hand7 hand7_ok (Or.inl rfl) (fun h =>
    absurd ((C19.ricky_zero_iff hand7 hand7_ok (Or.inl rfl)).2 h) (by rw [hand7_pts]; decide))

end C19W

/-! ## C20 — dealing from a deck shuffled by a non-trivial permutation (rotate by 17, then reverse) -/
namespace C20W

def shuffle (l : List Card) : List Card := (l.rotate 17).reverse

theorem shuffle_perm : ∀ l, (shuffle l).Perm l := fun l => (List.reverse_perm _).trans (List.rotate_perm l 17)

def d : List Card := randomDeck shuffle

example : d.take 3 = [cd 6 0, cd 5 3, cd 5 2] ∧ d ≠ deckCards := by decide +kernel

theorem deckCards_length_inst : deckCards.length = 52 := C20.deckCards_length
theorem deckCards_nodup_inst : deckCards.Nodup := C20.deckCards_nodup
theorem deckCards_valid_inst : (cd 14 3).Valid := C20.deckCards_valid (cd 14 3) (by decide +kernel)

theorem random_deck_inst : d.Perm deckCards ∧ d.Nodup ∧ d.length = 52 := C20.random_deck shuffle shuffle_perm

/-- four hands of five -/
theorem deal_hands_partition_inst :
    (dealRandomHands d 4 5).2.flatten ++ (dealRandomHands d 4 5).1 = d := C20.deal_hands_partition d 4 5
example : (dealRandomHands d 4 5).2.getLast? = some [cd 2 1, cd 2 0, cd 14 3, cd 14 2, cd 14 1] := by decide +kernel

theorem deal_hands_sizes_inst :
    (dealRandomHands d 4 5).2.length = 4 ∧ (∀ h ∈ (dealRandomHands d 4 5).2, h.length = 5) ∧
      (dealRandomHands d 4 5).1.length = d.length - 4 * 5 :=
  C20.deal_hands_sizes d 4 5 (by decide +kernel)
example : (dealRandomHands d 4 5).1.length = 32 := by decide +kernel

theorem deal_hands_nodup_inst :
    ((dealRandomHands d 4 5).2.flatten ++ (dealRandomHands d 4 5).1).Nodup ∧
      ((dealRandomHands d 4 5).2.flatten ++ (dealRandomHands d 4 5).1).Perm deckCards :=
  C20.deal_hands_nodup d random_deck_inst.1 4 5

/-- both directions: ten cards each fit, twenty-six each do not -/
theorem gin_deal_accept_inst : ∃ g, newGameDeal d 10 = .ok g := (C20.gin_deal_accept_iff d 10).2 (by decide)
theorem gin_deal_reject_inst : ¬ ∃ g, newGameDeal d 26 = .ok g :=
  fun h => absurd ((C20.gin_deal_accept_iff d 26).1 h) (by decide)
example : newGameDeal d 26 = .error .badConfig := by decide +kernel

def g : GinDeal :=
  { p1 := d.take 10, p2 := (d.drop 10).take 10, discard := (d.drop 20).take 1, deck := d.drop 21 }

theorem deal_eq : newGameDeal d 10 = .ok g := by decide +kernel

theorem gin_deal_partition_inst :
    g.p1 ++ g.p2 ++ g.discard ++ g.deck = d ∧ g.p1.length = 10 ∧ g.p2.length = 10 ∧ g.discard.length = 1 ∧
      g.deck.length = 52 - (2 * 10 + 1) ∧ (g.p1 ++ g.p2 ++ g.discard ++ g.deck).Nodup :=
  C20.gin_deal_partition d random_deck_inst.1 10 g deal_eq
example : g.discard = [cd 14 0] ∧ g.deck.length = 31 := by decide +kernel

end C20W

/-! ## C18 — the suit relabelling c→h, d→c, h→s, s→d (a 4-cycle) together with reorderings -/
namespace C18W
open CardVerif.Strength

def σ (s : Nat) : Nat := match s with | 0 => 2 | 1 => 0 | 2 => 3 | 3 => 1 | n => n

theorem hσ : SuitPerm σ where
  inj := by
    intro a b ha hb h
    have h4a : a = 0 ∨ a = 1 ∨ a = 2 ∨ a = 3 := by omega
    have h4b : b = 0 ∨ b = 1 ∨ b = 2 ∨ b = 3 := by omega
    rcases h4a with rfl | rfl | rfl | rfl <;> rcases h4b with rfl | rfl | rfl | rfl <;>
      first | rfl | exact absurd h (by decide)
  range := by
    intro a ha
    have h4a : a = 0 ∨ a = 1 ∨ a = 2 ∨ a = 3 := by omega
    rcases h4a with rfl | rfl | rfl | rfl <;> decide

/-! ### poker (C18 part a) -/

/-- a heart flush -/
def f5 : List Card := [cd 13 2, cd 9 2, cd 4 2, cd 2 2, cd 11 2]
def f5' : List Card := [cd 2 3, cd 11 3, cd 13 3, cd 4 3, cd 9 3]
theorem f5_img : Image σ f5 f5' := by unfold Image; decide

theorem rank5_sym_inst : Rank5.rank5 f5' = Rank5.rank5 f5 := C18.rank5_sym σ hσ f5 f5' (by decide) f5_img
example : Rank5.rank5 f5 = .ok [5, 13, 11, 9, 4, 2] := by decide +kernel

theorem specKey_sym_inst : Poker5.specKey f5' = Poker5.specKey f5 :=
  C18.specKey_sym σ hσ f5 f5' (by decide) f5_img

/-- board Th Jh 4c 9d Ah -/
def board : List Card := [cd 10 2, cd 11 2, cd 4 0, cd 9 1, cd 14 2]
def board' : List Card := [cd 9 0, cd 14 3, cd 10 3, cd 4 2, cd 11 3]
theorem board_img : Image σ board board' := by unfold Image; decide

/-- Omaha hole cards Qh 2h Kc Qd: ace-high heart flush with Qh 2h -/
def oh : List Card := [cd 12 2, cd 2 2, cd 13 0, cd 12 1]
def oh' : List Card := [cd 12 0, cd 13 2, cd 2 3, cd 12 3]
theorem oh_img : Image σ oh oh' := by unfold Image; decide
theorem oh_deal : C06.DealOK board oh 4 := ⟨by decide, by decide, by decide, by decide⟩

theorem omahaSpec_sym_inst : omahaSpec board' oh' = omahaSpec board oh :=
  C18.omahaSpec_sym σ hσ board board' oh oh' (by decide) board_img oh_img

theorem omaha_brute_sym_inst : Eval.omahaBrute board' oh' = Eval.omahaBrute board oh :=
  C18.omaha_brute_sym σ hσ board board' oh oh' oh_deal board_img oh_img
example : Eval.omahaBrute board oh = .ok [5, 14, 12, 11, 10, 2] := by decide +kernel

theorem hutchinson_sym_inst : hiPointCount oh' = hiPointCount oh :=
  C18.hutchinson_sym σ hσ oh oh' (by decide) (by decide) oh_img
example : hiPointCount oh = 27 := by decide +kernel

/-- four Hold'em hands: Qh 2h (flush), Qs Kc and Qc Kd (the same straight: a tie), Ac Ad (set) -/
def hs : List (List Card) := [[cd 12 2, cd 2 2], [cd 12 3, cd 13 0], [cd 12 0, cd 13 1], [cd 14 0, cd 14 1]]
def hs' : List (List Card) := [[cd 2 3, cd 12 3], [cd 13 2, cd 12 1], [cd 12 2, cd 13 0], [cd 14 0, cd 14 2]]

theorem hs_deal : ∀ x ∈ hs, C06.DealOK board x 2 := by
  intro x hx
  simp only [hs, List.mem_cons, List.mem_nil_iff, or_false] at hx
  rcases hx with rfl | rfl | rfl | rfl <;> exact ⟨by decide, by decide, by decide, by decide⟩

theorem hs_img : ∀ i, i < hs.length → ∀ x y, hs[i]? = some x → hs'[i]? = some y → Image σ x y := by
  intro i hi x y hx hy
  have hi4 : i = 0 ∨ i = 1 ∨ i = 2 ∨ i = 3 := by have : i < 4 := hi; omega
  rcases hi4 with rfl | rfl | rfl | rfl <;> (cases hx; cases hy; unfold Image; decide)

theorem holdem_sym_inst : Eval.holdemStrength board' [cd 2 3, cd 12 3] = Eval.holdemStrength board [cd 12 2, cd 2 2] :=
  C18.holdem_sym σ hσ board board' _ _ (hs_deal _ (by decide)) board_img (by unfold Image; decide)
example : Eval.holdemStrength board [cd 12 2, cd 2 2] = .ok [5, 14, 12, 11, 10, 2] := by decide +kernel

/-- the hypothesis `heq` of `tiers_sym` is supplied by `holdem_sym` at every seat -/
theorem tiers_sym_inst :
    Eval.bestHandsGeneric Eval.holdemStrength board' hs' = Eval.bestHandsGeneric Eval.holdemStrength board hs :=
  C18.tiers_sym Eval.holdemStrength Eval.holdemStrength board board' hs hs' rfl
    (fun i hi x y hx hy =>
      C18.holdem_sym σ hσ board board' x y (hs_deal x (List.mem_of_getElem? hx)) board_img (hs_img i hi x y hx hy))
example : Eval.bestHandsGeneric Eval.holdemStrength board hs = .ok [[0], [1, 2], [3]] := by decide +kernel

/-- equity: flop Th Jh 4c, four sampled turn-river pairs, the real Hold'em tier function -/
def tiersOf := Eval.bestHandsGeneric Eval.holdemStrength
def flop : List Card := [cd 10 2, cd 11 2, cd 4 0]
def samples : List (List Card) := [[cd 9 1, cd 14 2], [cd 4 1, cd 4 2], [cd 3 3, cd 7 3], [cd 14 3, cd 3 0]]
def shares : List Rat := [1 / 4, 1 / 8, 1 / 8, 1 / 2]

theorem tiers_vals : samples.map (fun s => tiersOf (flop ++ s) hs) =
    [.ok [[0], [1, 2], [3]], .ok [[3], [0], [1, 2]], .ok [[3], [1, 2], [0]], .ok [[1, 2], [3], [0]]] := by
  decide +kernel

theorem htiers : ∀ s ∈ samples, ∀ t, tiersOf (flop ++ s) hs = .ok t →
    ∃ t0 rest, t = t0 :: rest ∧ t0 ≠ [] ∧ t0.Nodup ∧ ∀ p ∈ t0, p < hs.length := by
  have hv := tiers_vals
  simp only [samples, List.map_cons, List.map_nil, List.cons.injEq, and_true] at hv
  obtain ⟨h1, h2, h3, h4⟩ := hv
  intro s hs t ht
  simp only [samples, List.mem_cons, List.mem_nil_iff, or_false] at hs
  rcases hs with rfl | rfl | rfl | rfl
  · rw [h1] at ht; cases ht; exact ⟨_, _, rfl, by decide, by decide, by decide⟩
  · rw [h2] at ht; cases ht; exact ⟨_, _, rfl, by decide, by decide, by decide⟩
  · rw [h3] at ht; cases ht; exact ⟨_, _, rfl, by decide, by decide, by decide⟩
  · rw [h4] at ht; cases ht; exact ⟨_, _, rfl, by decide, by decide, by decide⟩

theorem equity_eq : simulateEquity tiersOf flop hs samples = .ok shares := by decide +kernel

theorem equity_shares_inst : shares.length = hs.length ∧ (∀ x ∈ shares, 0 ≤ x) ∧ sumQ shares = 1 :=
  C18.equity_shares tiersOf flop hs samples (by decide) shares htiers equity_eq

/-! ### canonical form and gin (C18 parts b, c) on the hands of C08 / C12 / C19, relabelled and reordered -/

/-- `C08W.hand` relabelled by σ and reordered -/
def g11' : List Card :=
  [cd 7 0, cd 5 3, cd 13 1, cd 7 2, cd 13 0, cd 8 3, cd 2 1, cd 7 3, cd 13 2, cd 6 3, cd 14 2]
theorem g11_img : Image σ C08W.hand g11' := by unfold Image; decide
theorem g11_suits : ∀ c ∈ C08W.hand, c.suit < 4 := by decide

def canon11 : List Card :=
  [cd 5 0, cd 6 0, cd 7 0, cd 8 0, cd 7 1, cd 13 1, cd 14 1, cd 2 2, cd 13 2, cd 7 3, cd 13 3]
theorem canon_eq : canonizeHand C08W.hand = (canon11, [(2, 0), (0, 1), (3, 2), (1, 3)]) := by decide +kernel
theorem canon_eq' : canonizeHand g11' = (canon11, [(3, 0), (2, 1), (1, 2), (0, 3)]) := by decide +kernel

theorem canon_iso_inst :
    (∀ e ∈ [(2, 0), (0, 1), (3, 2), (1, 3)], e.1 < 4 ∧ e.2 < 4) ∧
    (([(2, 0), (0, 1), (3, 2), (1, 3)] : List (Nat × Nat)).map (·.2)).Nodup ∧
    (([(2, 0), (0, 1), (3, 2), (1, 3)] : List (Nat × Nat)).map (·.1)).Nodup ∧
    canon11.Perm (C08W.hand.map fun x => ⟨x.rank,
      match ([(2, 0), (0, 1), (3, 2), (1, 3)] : List (Nat × Nat)).find? (·.1 == x.suit) with
      | some e => e.2 | none => x.suit⟩) := by
  have h := C18.canon_iso C08W.hand g11_suits
  rw [canon_eq] at h
  exact h

theorem canon_idem_inst : (canonizeHand (canonizeHand C08W.hand).1).1 = (canonizeHand C08W.hand).1 :=
  C18.canon_idem C08W.hand g11_suits C08W.hok.1
example : (canonizeHand canon11).1 = canon11 := by decide +kernel

theorem canon_invariant_inst : (canonizeHand g11').1 = (canonizeHand C08W.hand).1 :=
  C18.canon_invariant σ hσ C08W.hand g11' g11_suits C08W.hok.1 g11_img

def best' : Candidate :=
  ⟨17, [[cd 13 1, cd 13 0, cd 13 2], [cd 5 3, cd 6 3, cd 7 3, cd 8 3]], [cd 14 2, cd 2 1, cd 7 0, cd 7 2]⟩
theorem split_eq' : splitMelds g11' = .ok best' := by decide +kernel

theorem split_deadwood_sym_inst : best'.deadwood = C08W.best.deadwood :=
  C18.split_deadwood_sym σ hσ C08W.hand g11' C08W.hok C08W.hlen g11_img C08W.best best' C08W.split_eq split_eq'

/-- `C19W.hand8` and the gin hand `C19W.gin8`, relabelled and reordered -/
def r8' : List Card := [cd 5 0, cd 6 3, cd 13 0, cd 5 2, cd 12 3, cd 7 3, cd 5 3, cd 2 1]
theorem r8_img : Image σ C19W.hand8 r8' := by unfold Image; decide
def gin8' : List Card := [cd 7 1, cd 5 1, cd 5 3, cd 8 1, cd 5 0, cd 6 1, cd 13 0, cd 5 2]
theorem gin8_img : Image σ C19W.gin8 gin8' := by unfold Image; decide

theorem ricky_value_sym_inst : handPoints r8' = handPoints C19W.hand8 :=
  C18.ricky_value_sym σ hσ C19W.hand8 r8' C19W.hand8_ok C19W.hand8_len r8_img
example : handPoints r8' = .ok 24 := by decide +kernel

theorem ricky_value_sym_gin_inst : handPoints gin8' = handPoints C19W.gin8 :=
  C18.ricky_value_sym σ hσ C19W.gin8 gin8' C19W.gin8_ok C19W.gin8_len gin8_img
example : handPoints gin8' = .ok 0 := by decide +kernel

/-- the defender hand and the knocker melds of C12, relabelled; cards, melds and cards inside melds reordered -/
def dh' : List Card := [cd 4 1, cd 3 2, cd 9 3, cd 11 2, cd 2 0, cd 5 1, cd 3 1, cd 13 0, cd 3 0, cd 10 3]
theorem dh_img : Image σ C12W.hand dh' := by unfold Image; decide
def K0 : List (List Card) := [[cd 9 2, cd 9 0, cd 9 1], [cd 8 3, cd 7 3, cd 6 3], [cd 12 1, cd 12 3, cd 12 0, cd 12 2]]
def K' : List (List Card) := [[cd 12 1, cd 12 3, cd 12 0, cd 12 2], [cd 9 2, cd 9 0, cd 9 1], [cd 8 3, cd 7 3, cd 6 3]]

theorem hK : ∃ K0, K'.Perm K0 ∧ List.Forall₂ (Image σ) C12W.K K0 :=
  ⟨K0, by decide, .cons (by unfold Image; decide) (.cons (by unfold Image; decide)
    (.cons (by unfold Image; decide) .nil))⟩

def r' : LayoffResult :=
  ⟨28, [[cd 3 1, cd 4 1, cd 5 1]], [cd 9 3, cd 10 3], [cd 2 0, cd 3 2, cd 3 0, cd 11 2, cd 13 0]⟩
theorem run' : layoffDeadwood dh' K' false = .ok r' := by decide +kernel

theorem layoff_deadwood_sym_inst : r'.deadwood = C12W.r.deadwood :=
  C18.layoff_deadwood_sym σ hσ C12W.hand dh' C12W.K K' C12W.hok C12W.hlen C12W.hk dh_img hK true false
    C12W.r r' C12W.run_true run'

end C18W

/-! ## axioms -/
#print axioms C08W.allMelds_exact_inst
#print axioms C08W.split_legal_inst
#print axioms C08W.split_total_inst
#print axioms C08W.split_optimal_inst
#print axioms C08W.candidates_sound_inst
#print axioms C08W.candidates_complete_inst
#print axioms C08W.same_refl_inst
#print axioms C08W.same_trans_inst
#print axioms C08W.same_symm_inst
#print axioms C08W.same_symm_of_arrangement_inst
#print axioms C08W.candidates_once_inst
#print axioms C08W.candidates_nodup_inst
#print axioms C08W.candidates_stop_no_gin_inst
#print axioms C08W.candidates_exact_inst
#print axioms C08W.candidates_exact_msSet_inst
#print axioms GinW.candidates_stop_on_gin_inst
#print axioms C12W.layoff_total_inst
#print axioms C12W.layoff_sound_inst
#print axioms C12W.layoff_optimal_inst
#print axioms C12W.layoff_stop_irrelevant_inst
#print axioms C19W.ricky_zero_iff_inst
#print axioms C19W.sort_hand_melds_first_inst
#print axioms C19W.sort_hand_perm_gin_inst
#print axioms C19W.ricky_value_inst
#print axioms C19W.ricky_value7_inst
#print axioms C19W.ricky_value_fives_inst
#print axioms C19W.sort_hand_perm_inst
#print axioms C20W.deckCards_length_inst
#print axioms C20W.deckCards_nodup_inst
#print axioms C20W.deckCards_valid_inst
#print axioms C20W.random_deck_inst
#print axioms C20W.deal_hands_partition_inst
#print axioms C20W.deal_hands_sizes_inst
#print axioms C20W.deal_hands_nodup_inst
#print axioms C20W.gin_deal_accept_inst
#print axioms C20W.gin_deal_reject_inst
#print axioms C20W.gin_deal_partition_inst
#print axioms C18W.rank5_sym_inst
#print axioms C18W.specKey_sym_inst
#print axioms C18W.omahaSpec_sym_inst
#print axioms C18W.omaha_brute_sym_inst
#print axioms C18W.hutchinson_sym_inst
#print axioms C18W.holdem_sym_inst
#print axioms C18W.tiers_sym_inst
#print axioms C18W.equity_shares_inst
#print axioms C18W.canon_iso_inst
#print axioms C18W.canon_idem_inst
#print axioms C18W.canon_invariant_inst
#print axioms C18W.split_deadwood_sym_inst
#print axioms C18W.ricky_value_sym_inst
#print axioms C18W.ricky_value_sym_gin_inst
#print axioms C18W.layoff_deadwood_sym_inst

end CardVerif.Witness.MeldsSym
