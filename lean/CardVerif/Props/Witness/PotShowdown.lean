import CardVerif.Props.C02
import CardVerif.Props.C07
import CardVerif.Props.C14
import CardVerif.Props.C14b
import CardVerif.Props.C14c
import CardVerif.Props.C05
import CardVerif.Props.C06
import CardVerif.Props.C06b
import CardVerif.Props.Witness.Betting
/-!
# Non-vacuity witnesses: side pots (C02), showdown (C07), rake (C14, C14b, C14c), evaluators (C05, C06, C06b)

One hand of no-limit Hold'em is played through the model and every property theorem of the files above is applied
to it (or to the numbers it produces).

**The hand.**  Five seats with stacks `[30, 60, 200, 100, 130]`, blinds 5 / 10, rake `float(0.05)` capped at 10 chips,
IEEE-double rake arithmetic, the real Hold'em evaluator, two all-in run-outs.
Pre-flop seat 2 raises to 20 and everybody calls.  On the flop `K♣ 8♦ 3♥` seat 0 bets his last 10, seat 1 raises
all-in (60 in total), seat 2 folds (20 stay in the pot), seat 3 raises all-in (100), seat 4 raises all-in (130).
Contributions `[30, 60, 20, 100, 130]`: four contenders with four different amounts, one folded contributor, 30
unmatched chips of seat 4.  The rake budget `0.05 * 340 = 17` is above the cap, and the cap binds inside the fourth
layer: rake `[1, 2, 1, 3, 3]`, total `10 = cap`.
Run-out 0 (`5♠ J♦`): seats 0 and 1 tie with kings and an ace, then seat 3 (queens), then seat 4 (eights).
Run-out 1 (`Q♥ 7♦`): seat 3 (three queens), seat 4 (two pair), then seats 0 and 1 tied.
Payouts `[33¾, 77¼, 0, 189, 30]`.

A second line of play (everybody folds to seat 0's flop bet) is the witness of the fold-out theorem.

No vacuity finding: every hypothesis of every theorem of C02, C07, C14, C14b, C14c, C05, C06, C06b is met by this hand
(or, for the evaluator theorems, by its cards and one Omaha deal).  Note on axioms: `omaha_fast_eq_spec_inst`,
`omaha_fast_eq_brute_inst`, `omaha_fast_sym_inst` and `plo_no_internal_error(_f53)_inst` inherit the table axioms of the C06b theorems they apply
(documented in `Props/C06b.lean`); nothing in this file adds an axiom, and every other `_inst` theorem depends on at most
propext / Classical.choice / Quot.sound.
-/
namespace CardVerif.Witness.PotShowdown
open CardVerif CardVerif.Betting CardVerif.Pot CardVerif.SidePot CardVerif.Strength

/-! ## the hand -/

deriving instance DecidableEq for Pot.RakeCfg
deriving instance DecidableEq for State

/-- `float(0.05)` -/
def f05 : Rat := 3602879701896397 / 72057594037927936

def env : Env := ⟨World.std, Float53.rnd, Eval.holdemStrength⟩

def hands : List (List Card) :=
  [[⟨14, 3⟩, ⟨13, 1⟩], [⟨14, 2⟩, ⟨13, 3⟩], [⟨9, 3⟩, ⟨2, 1⟩], [⟨12, 0⟩, ⟨12, 1⟩], [⟨8, 0⟩, ⟨7, 0⟩]]

def flop : List Card := [⟨13, 0⟩, ⟨8, 1⟩, ⟨3, 2⟩]
def stub : List Card := [⟨5, 3⟩, ⟨11, 1⟩, ⟨12, 2⟩, ⟨7, 1⟩, ⟨4, 0⟩, ⟨6, 2⟩]

def cfg : Cfg :=
  { game := .nlhe, n := 5, deck := flop ++ stub, hands := hands,
    startingStacks := [30, 60, 200, 100, 130], board := [], ante := 0, blinds := some [5, 10], runouts := 2,
    rake := ⟨f05, 10⟩, sampler := ⟨0, 2⟩ }

theorem valid : cfg.Valid where
  n_ge := by decide
  hands_len := rfl
  hole := by decide
  stacks_len := rfl
  stacks_nonneg := by decide
  ante_nonneg := by decide
  blinds_ok := by show (0 : Int) ≤ 5 ∧ (0 : Int) ≤ 10 ∧ ((0 : Int) < 5 ∨ (0 : Int) < 10 ∨ (0 : Int) < 0); decide
  blinds_ordered := by show 5 = 2 ∨ (5 : Int) ≤ 10; decide
  runouts_pos := by decide
  f_nonneg := by decide +kernel
  f_le_one := by decide +kernel
  cap_nonneg := by decide
  board_len := by decide
  cards := by decide

/-- a state of this hand -/
def st (deck board : List Card) (stk pot : List Int) (la : List (Option ActType)) (street : Nat)
    (a : Option Nat) (log : List LogEntry) (pay rk : Option (List Rat)) (complete : Bool) : State :=
  { game := .nlhe, n := 5, hands := hands, startingStacks := [30, 60, 200, 100, 130], ante := 0, blinds := [5, 10],
    runouts := 2, rake := ⟨f05, 10⟩, sampler := ⟨0, 2⟩, deck := deck, board := board, «stacks» := stk, pot := pot,
    lastActions := la, street := street, action := a, log := log, payouts := pay, rakePaid := rk,
    complete := complete }

def pre (stk pot : List Int) (la : List (Option ActType)) (a : Nat) (log : List LogEntry) : State :=
  st (flop ++ stub) [] stk pot la 0 (some a) log none none false

def post (stk pot : List Int) (la : List (Option ActType)) (a : Nat) (log : List LogEntry) : State :=
  st stub flop stk pot la 1 (some a) log none none false

def logPre : List LogEntry := [⟨2, .raise, 20⟩, ⟨3, .call, 20⟩, ⟨4, .call, 20⟩, ⟨0, .call, 15⟩, ⟨1, .call, 10⟩]

def w0 : State := pre [25, 50, 200, 100, 130] [5, 10, 0, 0, 0] [none, none, none, none, none] 2 []
def w1 : State := pre [25, 50, 180, 100, 130] [5, 10, 20, 0, 0] [none, none, some .raise, none, none] 3
  (logPre.take 1)
def w2 : State := pre [25, 50, 180, 80, 130] [5, 10, 20, 20, 0] [none, none, some .raise, some .call, none] 4
  (logPre.take 2)
def w3 : State := pre [25, 50, 180, 80, 110] [5, 10, 20, 20, 20]
  [none, none, some .raise, some .call, some .call] 0 (logPre.take 3)
def w4 : State := pre [10, 50, 180, 80, 110] [20, 10, 20, 20, 20]
  [some .call, none, some .raise, some .call, some .call] 1 (logPre.take 4)
/-- the flop is dealt, seat 0 to act -/
def w5 : State := post [10, 40, 180, 80, 110] [20, 20, 20, 20, 20] [none, none, none, none, none] 0 logPre
def w6 : State := post [0, 40, 180, 80, 110] [30, 20, 20, 20, 20] [some .bet, none, none, none, none] 1
  (logPre ++ [⟨0, .bet, 10⟩])
def w7 : State := post [0, 0, 180, 80, 110] [30, 60, 20, 20, 20] [some .bet, some .raise, none, none, none] 2
  (logPre ++ [⟨0, .bet, 10⟩, ⟨1, .raise, 40⟩])
def w8 : State := post [0, 0, 180, 80, 110] [30, 60, 20, 20, 20]
  [some .bet, some .raise, some .fold, none, none] 3
  (logPre ++ [⟨0, .bet, 10⟩, ⟨1, .raise, 40⟩, ⟨2, .fold, 0⟩])
def w9 : State := post [0, 0, 180, 0, 110] [30, 60, 20, 100, 20]
  [some .bet, some .raise, some .fold, some .raise, none] 4
  (logPre ++ [⟨0, .bet, 10⟩, ⟨1, .raise, 40⟩, ⟨2, .fold, 0⟩, ⟨3, .raise, 80⟩])

def logF : List LogEntry :=
  logPre ++ [⟨0, .bet, 10⟩, ⟨1, .raise, 40⟩, ⟨2, .fold, 0⟩, ⟨3, .raise, 80⟩, ⟨4, .raise, 110⟩]

/-- everybody is all-in or has folded; the hand is settled over two run-outs -/
def wF : State := st stub flop [0, 0, 180, 0, 0] [30, 60, 20, 100, 130] [none, none, some .fold, none, none] 4
  none logF (some [135 / 4, 309 / 4, 0, 189, 30]) (some [1, 2, 1, 3, 3]) true

set_option maxRecDepth 8192 in
theorem h0 : construct cfg = .ok w0 := by rfl
set_option maxRecDepth 8192 in
theorem h1 : w0.act env 2 (some .raise) (some 20) = .ok w1 := by rfl
set_option maxRecDepth 8192 in
theorem h2 : w1.act env 3 (some .call) none = .ok w2 := by rfl
set_option maxRecDepth 8192 in
theorem h3 : w2.act env 4 (some .call) none = .ok w3 := by rfl
set_option maxRecDepth 8192 in
theorem h4 : w3.act env 0 (some .call) none = .ok w4 := by rfl
set_option maxRecDepth 8192 in
theorem h5 : w4.act env 1 (some .call) none = .ok w5 := by rfl
set_option maxRecDepth 8192 in
theorem h6 : w5.act env 0 (some .bet) (some 10) = .ok w6 := by rfl
set_option maxRecDepth 8192 in
theorem h7 : w6.act env 1 (some .raise) (some 40) = .ok w7 := by rfl
set_option maxRecDepth 8192 in
theorem h8 : w7.act env 2 (some .fold) none = .ok w8 := by rfl
set_option maxRecDepth 8192 in
theorem h9 : w8.act env 3 (some .raise) (some 80) = .ok w9 := by rfl

/-- the last step runs the evaluator and the double-precision rake: checked by the kernel alone -/
theorem hF : w9.act env 4 (some .raise) (some 110) = .ok wF := by decide +kernel

theorem reach : Reachable env cfg wF :=
  (((((((((((Reachable.init h0).step _ _ _ h1).step _ _ _ h2).step _ _ _ h3).step _ _ _ h4).step _ _ _ h5).step
    _ _ _ h6).step _ _ _ h7).step _ _ _ h8).step _ _ _ h9).step _ _ _ hF)

/-! ### the other line: everybody folds to seat 0's bet on the flop -/

def logV : List LogEntry := logPre ++ [⟨0, .bet, 10⟩, ⟨1, .fold, 0⟩, ⟨2, .fold, 0⟩, ⟨3, .fold, 0⟩, ⟨4, .fold, 0⟩]

def v7 : State := post [0, 40, 180, 80, 110] [30, 20, 20, 20, 20] [some .bet, some .fold, none, none, none] 2
  (logV.take 7)
def v8 : State := post [0, 40, 180, 80, 110] [30, 20, 20, 20, 20] [some .bet, some .fold, some .fold, none, none] 3
  (logV.take 8)
def v9 : State := post [0, 40, 180, 80, 110] [30, 20, 20, 20, 20]
  [some .bet, some .fold, some .fold, some .fold, none] 4 (logV.take 9)
/-- seat 0 collects the pot less the rake (there is a flop, so the pot is raked) -/
def vF : State := st stub flop [0, 40, 180, 80, 110] [30, 20, 20, 20, 20]
  [none, some .fold, some .fold, some .fold, some .fold] 4 none logV (some [105, 0, 0, 0, 0])
  (some [1, 1, 1, 1, 1]) true

set_option maxRecDepth 8192 in
theorem k7 : w6.act env 1 (some .fold) none = .ok v7 := by rfl
set_option maxRecDepth 8192 in
theorem k8 : v7.act env 2 (some .fold) none = .ok v8 := by rfl
set_option maxRecDepth 8192 in
theorem k9 : v8.act env 3 (some .fold) none = .ok v9 := by rfl
theorem kF : v9.act env 4 (some .fold) none = .ok vF := by decide +kernel

/-! ## C07 — showdown -/

/-- the contenders, in seat order: seats 0, 1, 3, 4 (seat 2, in between, has folded) -/
def players : List Nat := [0, 1, 3, 4]
def shown : List (List Card) := [[⟨14, 3⟩, ⟨13, 1⟩], [⟨14, 2⟩, ⟨13, 3⟩], [⟨12, 0⟩, ⟨12, 1⟩], [⟨8, 0⟩, ⟨7, 0⟩]]
/-- the board of run-out 0 and of run-out 1 -/
def board0 : List Card := flop ++ [⟨5, 3⟩, ⟨11, 1⟩]
def board1 : List Card := flop ++ [⟨12, 2⟩, ⟨7, 1⟩]

/-- kings with A J 8 twice, queens, eights -/
def strengths0 : List (List Nat) := [[1, 13, 14, 11, 8], [1, 13, 14, 11, 8], [1, 12, 13, 11, 8], [1, 8, 13, 11, 7]]
/-- kings twice, three queens, eights and sevens -/
def strengths1 : List (List Nat) := [[1, 13, 14, 12, 8], [1, 13, 14, 12, 8], [3, 12, 13, 8], [2, 8, 7, 13]]

theorem hs0 : shown.mapM (handStrength .nlhe Eval.holdemStrength board0) = .ok strengths0 := by decide +kernel
theorem hs1 : shown.mapM (handStrength .nlhe Eval.holdemStrength board1) = .ok strengths1 := by decide +kernel

/-- run-out 0: a tie for first place -/
theorem tiers_ok_inst :
    ∃ tiers, Eval.bestHandsGeneric (handStrength .nlhe Eval.holdemStrength) board0 shown = .ok tiers ∧
      TiersOK (fun i => match strengths0[i]? with | some k => k | none => []) shown.length tiers :=
  C07.tiers_ok _ board0 shown strengths0 hs0

/-- run-out 1: the tie is for last place, the order of the others is reversed -/
theorem tiers_ok_inst' :
    ∃ tiers, Eval.bestHandsGeneric (handStrength .nlhe Eval.holdemStrength) board1 shown = .ok tiers ∧
      TiersOK (fun i => match strengths1[i]? with | some k => k | none => []) shown.length tiers :=
  C07.tiers_ok _ board1 shown strengths1 hs1

example : Eval.bestHandsGeneric (handStrength .nlhe Eval.holdemStrength) board0 shown = .ok [[0, 1], [2], [3]] := by
  decide +kernel
example : Eval.bestHandsGeneric (handStrength .nlhe Eval.holdemStrength) board1 shown = .ok [[2], [3], [0, 1]] := by
  decide +kernel

/-- the final state with the board of run-out 0 resp. 1 -/
def wS0 : State := { wF with board := board0 }
def wS1 : State := { wF with board := board1 }

theorem oh0 : wS0.orderHands env.rankFn players = .ok [[0, 1], [3], [4]] := by decide +kernel
theorem oh1 : wS1.orderHands env.rankFn players = .ok [[3], [4], [0, 1]] := by decide +kernel

/-- positions 2 and 3 of the ranking are seats 3 and 4 -/
theorem order_hands_seats_inst :
    [[0, 1], [3], [4]].flatten.Perm players ∧
    ∃ strength : Nat → List Nat,
      (∀ p ∈ players, ∃ hand, wS0.hands[p]? = some hand ∧
          handStrength wS0.game env.rankFn wS0.board hand = .ok (strength p)) ∧
      (∀ t ∈ [[0, 1], [3], [4]], t ≠ [] ∧ ∀ p ∈ t, ∀ q ∈ t, strength p = strength q) ∧
      [[0, 1], [3], [4]].Pairwise fun t u => ∀ p ∈ t, ∀ q ∈ u, lexLt (strength q) (strength p) = true :=
  C07.order_hands_seats env.rankFn wS0 players (by decide) _ oh0

theorem order_hands_seats_inst' :
    [[3], [4], [0, 1]].flatten.Perm players ∧
    ∃ strength : Nat → List Nat,
      (∀ p ∈ players, ∃ hand, wS1.hands[p]? = some hand ∧
          handStrength wS1.game env.rankFn wS1.board hand = .ok (strength p)) ∧
      (∀ t ∈ [[3], [4], [0, 1]], t ≠ [] ∧ ∀ p ∈ t, ∀ q ∈ t, strength p = strength q) ∧
      [[3], [4], [0, 1]].Pairwise fun t u => ∀ p ∈ t, ∀ q ∈ u, lexLt (strength q) (strength p) = true :=
  C07.order_hands_seats env.rankFn wS1 players (by decide) _ oh1

/-- the two run-outs, each settled on its own: payouts and rake -/
def results : List (List Rat × List Int) :=
  [([135 / 2, 309 / 2, 0, 78, 30], [1, 2, 1, 3, 3]), ([0, 0, 0, 300, 30], [1, 2, 1, 3, 3])]

theorem numRunouts_wF : C07.numRunouts wF = 2 := by decide

theorem hres : (List.range (C07.numRunouts wF)).mapM (C07.runoutResult env wF players) = .ok results := by
  decide +kernel

theorem showdown_payouts_inst :
    ∃ pay rake, wF.getPayoutsAndRake env = .ok (pay, rake) ∧ pay.length = wF.n ∧ rake.length = wF.n ∧
      (∀ p, p < wF.n → pay[p]? = some (sumQ (results.map fun r =>
        (match r.1[p]? with | some x => x | none => 0) / (C07.numRunouts wF : Rat)))) ∧
      (∀ p, p < wF.n → rake[p]? = some (sumQ (results.map fun r =>
        ((getI r.2 p : Int) : Rat) / (C07.numRunouts wF : Rat)))) :=
  C07.showdown_payouts env wF players (by decide) (by decide) rfl results hres

/-- independently: what the settlement returns is what the last step stored in the state -/
example : wF.getPayoutsAndRake env = .ok ([135 / 4, 309 / 4, 0, 189, 30], [1, 2, 1, 3, 3]) := by decide +kernel
example : wF.payouts = some [135 / 4, 309 / 4, 0, 189, 30] ∧ wF.rakePaid = some [1, 2, 1, 3, 3] := ⟨rfl, rfl⟩
/-- payouts + rake = pot -/
example : sumQ [135 / 4, 309 / 4, 0, 189, 30] + sumQ [1, 2, 1, 3, 3] = ((sumI wF.pot : Int) : Rat) := by
  decide +kernel

/-- everybody but seat 0 has folded -/
theorem foldout_payouts_inst :
    vF.getPayoutsAndRake env =
      (do let (pay, rake) ← Pot.settleShowdown env.fl vF.rake vF.pot [[0]] vF.shouldRakePot
          pure (pay, rake.map fun (r : Int) => (r : Rat))) :=
  C07.foldout_payouts env vF 0 (by decide)

example : vF.getPayoutsAndRake env = .ok ([105, 0, 0, 0, 0], [1, 1, 1, 1, 1]) := by decide +kernel
example : vF.shouldRakePot = true := by decide

def runout1 : List Card := [⟨12, 2⟩, ⟨7, 1⟩]

theorem sample1 : wF.sampler.sample wF.deck (5 - wF.board.length) 1 = .ok runout1 := by decide +kernel

theorem runout_board_inst :
    (wF.board ++ runout1).length = 5 ∧ (wF.board ++ runout1).Nodup ∧
      ∀ c ∈ wF.board ++ runout1, c ∉ wF.hands.flatten :=
  C07.runout_board wF 1 runout1 (by decide) (by decide) sample1

/-! ## C02 — side pots

The contributions of the hand after rake, `[30, 60, 20, 100, 130] - [1, 2, 1, 3, 3]`, under the ranking of run-out 0:
seats 0 and 1 tie, seat 2 has folded, seat 4 has 30 chips nobody matched. -/

def c : List Int := [29, 58, 19, 97, 127]
def tiers : List (List Nat) := [[0, 1], [3], [4]]
def pay : List Rat := [135 / 2, 309 / 2, 0, 78, 30]

example : c = (wF.pot.zip [1, 2, 1, 3, 3]).map fun (b, r) => b - r := by decide

theorem hc : ∀ b ∈ c, 0 ≤ b := by decide
theorem hr : RankingOK c tiers := by
  refine ⟨by decide, by decide, 4, by decide, ?_⟩
  decide
theorem hsettle : settle c tiers = .ok pay := by decide +kernel

theorem settle_sum_inst : sumQ pay = ((sumI c : Int) : Rat) ∧ pay.length = c.length :=
  C02.settle_sum c tiers pay hc hsettle
example : sumQ pay = 330 := by decide +kernel

theorem settle_nonneg_inst : ∀ x ∈ pay, 0 ≤ x := C02.settle_nonneg c tiers pay hc hsettle

theorem settle_eq_spec_inst : settle c tiers = .ok (specPayout c tiers) := C02.settle_eq_spec c tiers hc hr
example : specPayout c tiers = pay := by decide +kernel

/-- the folded seat 2 collects nothing -/
theorem spec_folded_zero_inst : specPayoutOf c tiers 2 = 0 := C02.spec_folded_zero c tiers 2 (by decide)

/-- seat 1 (58 chips in, co-winner) collects at most `29 + 58 + 19 + 58 + 58 = 222` -/
theorem spec_le_matched_inst :
    specPayoutOf c tiers 1 ≤ ((sumI (c.map fun b => min b (getI c 1)) : Int) : Rat) :=
  C02.spec_le_matched c tiers hc 1 (by decide)
example : specPayoutOf c tiers 1 = 309 / 2 ∧ sumI (c.map fun b => min b (getI c 1)) = 222 := by decide +kernel

/-- seat 4, ranked last, still gets back the 30 chips above the second-largest contribution 97 -/
theorem spec_unmatched_returns_inst : ((getI c 4 - 97 : Int) : Rat) ≤ specPayoutOf c tiers 4 :=
  C02.spec_unmatched_returns c tiers hc hr 4 (by decide) 97 (by decide) (by decide) (by decide)
example : specPayoutOf c tiers 4 = 30 := by decide +kernel

/-! ## C14 — rake bounds

`bal` = the contributions of the hand, `cfgR` = its rake (`float(0.05)`, cap 10, IEEE doubles), `cfgE` = the same rake
with the exact fraction `1/20` for the exact-arithmetic theorems.  The cap binds: `0.05 * 340 = 17 > 10`. -/

def bal : List Int := [30, 60, 20, 100, 130]
def cfgR : RakeCfg := ⟨f05, 10⟩
def cfgE : RakeCfg := ⟨1 / 20, 10⟩
/-- the pot of the fold-out line: four equal contributions -/
def balV : List Int := [30, 20, 20, 20, 20]

example : bal = wF.pot ∧ cfgR = wF.rake ∧ balV = vF.pot := ⟨rfl, rfl, rfl⟩

theorem hbal : ∀ b ∈ bal, 0 ≤ b := by decide
theorem hbal53 : ∀ b ∈ bal, b ≤ 2 ^ 53 := by decide +kernel
theorem hbal1000 : ∀ b ∈ bal, b ≤ 1000 := by decide
theorem hR0 : 0 ≤ cfgR.f := by decide +kernel
theorem hR1 : cfgR.f ≤ 1 := by decide +kernel
theorem hE0 : 0 ≤ cfgE.f := by decide +kernel
theorem hE1 : cfgE.f ≤ 1 := by decide +kernel
theorem hcapR : 0 ≤ cfgR.cap := by decide
theorem hcapE : 0 ≤ cfgE.cap := by decide

/-- the rake of the hand, in doubles and exactly; the cap binds in both -/
theorem rakeR : rakePerPlayer Float53.rnd cfgR bal true = [1, 2, 1, 3, 3] := by decide +kernel
theorem rakeE : rakePerPlayer id cfgE bal true = [1, 2, 1, 3, 3] := by decide +kernel
example : cfgR.cap < Float53.rnd (cfgR.f * ((sumI bal : Int) : Rat)) ∧ maxTotalRake Float53.rnd cfgR bal = 10 := by
  decide +kernel

theorem flSpec_id_inst : C14.FlSpec id := C14.flSpec_id
theorem flSpecB_id_inst : C14.FlSpecB 1000 id := C14.FlSpec.toB C14.flSpec_id 1000
theorem flSpecB_f53_inst : C14.FlSpecB (2 ^ 53) Float53.rnd := C14.flSpecB_f53
theorem flSpecB_anti_inst : C14.FlSpecB 1000 Float53.rnd := C14.FlSpecB.anti C14.flSpecB_f53 (by decide +kernel)

/-- had the hand ended before the flop, nothing would be raked -/
theorem rake_not_raked_inst : rakePerPlayer Float53.rnd cfgR bal false = bal.map fun _ => 0 :=
  C14.rake_not_raked Float53.rnd cfgR bal
example : rakePerPlayer Float53.rnd cfgR bal false = [0, 0, 0, 0, 0] := by decide +kernel

theorem rake_length_inst : (rakePerPlayer Float53.rnd cfgR bal true).length = bal.length :=
  C14.rake_length Float53.rnd cfgR bal true

/-- seats 1 and 4 of the fold-out line put in 20 each and pay the same -/
theorem rake_equal_inst :
    getI (rakePerPlayer Float53.rnd cfgR balV true) 1 = getI (rakePerPlayer Float53.rnd cfgR balV true) 4 :=
  C14.rake_equal Float53.rnd cfgR balV true 1 4 (by decide) (by decide) (by decide)
example : rakePerPlayer Float53.rnd cfgR balV true = [1, 1, 1, 1, 1] := by decide +kernel

theorem rake_le_contribution_inst : getI (rakePerPlayer id cfgE bal true) 3 ≤ getI bal 3 :=
  C14.rake_le_contribution C14.flSpec_id cfgE bal true hE0 hE1 hbal 3 (by decide)

/-- seat 1 (60) against seat 3 (100): `60 - 2 ≤ 100 - 3` -/
theorem order_preserved_inst :
    getI bal 1 - getI (rakePerPlayer id cfgE bal true) 1 ≤ getI bal 3 - getI (rakePerPlayer id cfgE bal true) 3 :=
  C14.order_preserved C14.flSpec_id cfgE bal true hE0 hE1 hbal 1 3 (by decide) (by decide) (by decide)

theorem rake_le_contribution_B_inst : getI (rakePerPlayer Float53.rnd cfgR bal true) 3 ≤ getI bal 3 :=
  C14.rake_le_contribution_B flSpecB_anti_inst cfgR bal true hR0 hR1 hbal hbal1000 3 (by decide)

theorem order_preserved_B_inst :
    getI bal 2 - getI (rakePerPlayer Float53.rnd cfgR bal true) 2
      ≤ getI bal 0 - getI (rakePerPlayer Float53.rnd cfgR bal true) 0 :=
  C14.order_preserved_B flSpecB_anti_inst cfgR bal true hR0 hR1 hbal hbal1000 2 0 (by decide) (by decide) (by decide)

theorem rake_le_contribution_f53_inst : getI (rakePerPlayer Float53.rnd cfgR bal true) 4 ≤ getI bal 4 :=
  C14.rake_le_contribution_f53 cfgR bal true hR0 hR1 hbal hbal53 4 (by decide)

theorem order_preserved_f53_inst :
    getI bal 1 - getI (rakePerPlayer Float53.rnd cfgR bal true) 1
      ≤ getI bal 3 - getI (rakePerPlayer Float53.rnd cfgR bal true) 3 :=
  C14.order_preserved_f53 cfgR bal true hR0 hR1 hbal hbal53 1 3 (by decide) (by decide) (by decide)

theorem rake_nonneg_exact_inst : 0 ≤ getI (rakePerPlayer id cfgE bal true) 2 :=
  C14.rake_nonneg_exact cfgE bal true hE0 hE1 hcapE hbal 2 (by decide)

/-- seat 2 (20 chips) pays no more than seat 0 (30 chips) -/
theorem rake_mono_exact_inst :
    getI (rakePerPlayer id cfgE bal true) 2 ≤ getI (rakePerPlayer id cfgE bal true) 0 :=
  C14.rake_mono_exact cfgE bal true hE0 hE1 hcapE hbal 2 0 (by decide) (by decide) (by decide)

/-- with equality here: the cap binds -/
theorem rake_total_le_cap_exact_inst : sumI (rakePerPlayer id cfgE bal true) ≤ cfgE.cap :=
  C14.rake_total_le_cap_exact cfgE bal true hE0 hE1 hcapE hbal
example : sumI (rakePerPlayer id cfgE bal true) = cfgE.cap := by decide +kernel

theorem rake_total_le_fraction_exact_inst :
    ((sumI (rakePerPlayer id cfgE bal true) : Int) : Rat) ≤ cfgE.f * ((sumI bal : Int) : Rat) :=
  C14.rake_total_le_fraction_exact cfgE bal true hE0 hE1 hcapE hbal
example : cfgE.f * ((sumI bal : Int) : Rat) = 17 := by decide +kernel

/-! ## C14b — the rake is the layer recipe -/

open CardVerif.RakeSpec

/-- layers `(top, height)` of the hand, and what each contributor pays per layer: the fourth layer would charge
`⌊40 · 0.05⌋ = 2` but only `10 − 8 = 2` chips are left for two contributors; the fifth layer gets nothing -/
example : layersOf bal = [(20, 20), (30, 10), (60, 30), (100, 40), (130, 30)] := by decide +kernel
theorem chargesR : charges Float53.rnd cfgR bal = [(20, 1), (30, 0), (60, 1), (100, 1), (130, 0)] := by decide +kernel

theorem rake_layers_exact_inst :
    getI (rakePerPlayer Float53.rnd cfgR bal true) 3 = specRake Float53.rnd cfgR bal 3 :=
  C14.rake_layers_exact Float53.rnd cfgR bal 3 (by decide)
example : specRake Float53.rnd cfgR bal 3 = 3 := by decide +kernel

theorem rake_layers_exact_list_inst :
    rakePerPlayer Float53.rnd cfgR bal true = (List.range bal.length).map (specRake Float53.rnd cfgR bal) :=
  C14.rake_layers_exact_list Float53.rnd cfgR bal
example : (List.range bal.length).map (specRake Float53.rnd cfgR bal) = [1, 2, 1, 3, 3] := by decide +kernel

theorem rake_total_layers_inst :
    sumI (rakePerPlayer Float53.rnd cfgR bal true) = specTotal Float53.rnd cfgR bal :=
  C14.rake_total_layers Float53.rnd cfgR bal
example : specTotal Float53.rnd cfgR bal = 10 := by decide +kernel

/-- with a cap of 8 the budget is used up after the third layer (`5·1 + 4·0 + 3·1 = 8`): the two layers above it
are not charged -/
def cfg8 : RakeCfg := ⟨f05, 8⟩

theorem rake_stops_inst :
    ∀ Lr ∈ layerCharges Float53.rnd cfg8 bal (maxTotalRake Float53.rnd cfg8 bal) ((layersOf bal).drop 3) 8, Lr.2 = 0 :=
  C14.rake_stops Float53.rnd cfg8 bal _ _ 8 (by decide +kernel)
example : layerCharges Float53.rnd cfg8 bal (maxTotalRake Float53.rnd cfg8 bal) ((layersOf bal).drop 3) 8
    = [(100, 0), (130, 0)] ∧ charges Float53.rnd cfg8 bal = [(20, 1), (30, 0), (60, 1), (100, 0), (130, 0)] := by
  decide +kernel

theorem rake_layer_charge_exact_inst : charges id cfgE bal = exactCharges cfgE bal :=
  C14.rake_layer_charge_exact cfgE bal hE0 hcapE hbal
example : exactCharges cfgE bal = [(20, 1), (30, 0), (60, 1), (100, 1), (130, 0)] := by decide +kernel

theorem rake_layers_exact_id_inst :
    getI (rakePerPlayer id cfgE bal true) 1 =
      sumI (((exactCharges cfgE bal).filter fun (L, _) => decide (L ≤ getI bal 1)).map fun (_, r) => r) :=
  C14.rake_layers_exact_id cfgE bal hE0 hcapE hbal 1 (by decide)

theorem rake_layer_bounds_exact_inst :
    ∀ Lr ∈ charges id cfgE bal, ∃ h, (Lr.1, h) ∈ layersOf bal ∧ 0 ≤ h ∧ h ≤ Lr.1 ∧
      0 ≤ Lr.2 ∧ Lr.2 ≤ ((h : Rat) * cfgE.f).floor :=
  C14.rake_layer_bounds_exact cfgE bal hE0 hcapE hbal

/-- six-handed variant: seat 2 folded before putting in a chip, so `0` is a level -/
def bal0 : List Int := [30, 60, 0, 100, 130, 20]

theorem zero_layer_mem : ((0 : Int), (0 : Int)) ∈ charges id cfgE bal0 := by decide +kernel

theorem rake_zero_layer_exact_inst : ∀ r, (0, r) ∈ charges id cfgE bal0 → r = 0 := fun r hm =>
  C14.rake_zero_layer_exact cfgE bal0 hE0 hcapE (by decide) r hm
example : charges id cfgE bal0 = [(0, 0), (20, 1), (30, 0), (60, 1), (100, 1), (130, 0)] := by decide +kernel

/-! ## C14c — the same bounds under IEEE doubles -/

theorem flRake_id_inst : FlRake 1000 id := C14.flRake_id 1000
theorem flRake_f53_inst : FlRake ((2 ^ 53 : Int) : Rat) Float53.rnd := C14.flRake_f53

theorem hcapB : ((cfgR.cap : Int) : Rat) < ((2 ^ 53 : Int) : Rat) := by decide +kernel
theorem hcap53 : cfgR.cap < 2 ^ 53 := by decide +kernel

theorem rake_nonneg_of_flRake_inst : 0 ≤ getI (rakePerPlayer Float53.rnd cfgR bal true) 2 :=
  C14.rake_nonneg_of_flRake C14.flRake_f53 cfgR bal true hR0 hcapR hcapB hbal 2 (by decide)

theorem rake_mono_of_flRake_inst :
    getI (rakePerPlayer id cfgE bal true) 0 ≤ getI (rakePerPlayer id cfgE bal true) 1 :=
  C14.rake_mono_of_flRake (C14.flRake_id 1000) cfgE bal true hE0 hcapE (by decide +kernel) hbal 0 1
    (by decide) (by decide) (by decide)

theorem rake_total_le_budget_of_flRake_inst :
    ((sumI (rakePerPlayer Float53.rnd cfgR bal true) : Int) : Rat) ≤ maxTotalRake Float53.rnd cfgR bal :=
  C14.rake_total_le_budget_of_flRake C14.flRake_f53 cfgR bal true hR0 hcapR hcapB hbal

theorem rake_total_le_cap_of_flRake_inst : sumI (rakePerPlayer Float53.rnd cfgR bal true) ≤ cfgR.cap :=
  C14.rake_total_le_cap_of_flRake C14.flRake_f53 cfgR bal true hR0 hcapR hcapB hbal

theorem rake_nonneg_f53_inst : 0 ≤ getI (rakePerPlayer Float53.rnd cfgR bal true) 0 :=
  C14.rake_nonneg_f53 cfgR bal true hR0 hcapR hcap53 hbal 0 (by decide)

/-- seat 2 (20, folded) against seat 4 (130) -/
theorem rake_mono_f53_inst :
    getI (rakePerPlayer Float53.rnd cfgR bal true) 2 ≤ getI (rakePerPlayer Float53.rnd cfgR bal true) 4 :=
  C14.rake_mono_f53 cfgR bal true hR0 hcapR hcap53 hbal 2 4 (by decide) (by decide) (by decide)

theorem rake_total_le_cap_f53_inst : sumI (rakePerPlayer Float53.rnd cfgR bal true) ≤ cfgR.cap :=
  C14.rake_total_le_cap_f53 cfgR bal true hR0 hcapR hcap53 hbal
example : sumI (rakePerPlayer Float53.rnd cfgR bal true) = cfgR.cap := by decide +kernel

/-- the fold-out pot of 110: the fraction `float(float(0.05) * 110) = 5.5` is below the cap and is the binding bound -/
theorem rake_total_le_fraction_f53_inst :
    ((sumI (rakePerPlayer Float53.rnd cfgR balV true) : Int) : Rat)
      ≤ Float53.rnd (cfgR.f * ((sumI balV : Int) : Rat)) :=
  C14.rake_total_le_fraction_f53 cfgR balV true hR0 hcapR hcap53 (by decide)
example : Float53.rnd (cfgR.f * ((sumI balV : Int) : Rat)) = 11 / 2
    ∧ sumI (rakePerPlayer Float53.rnd cfgR balV true) = 5 := by decide +kernel

/-- a budget that is not an integer: `float(float(0.07) * 700) = 49.00000000000001`, less the 28 chips collected -/
def budget : Rat := Float53.rnd (Float53.rnd (7 / 100) * 700)

theorem budget_repr : Float53.rnd budget = budget := by decide +kernel
theorem budget_lt : budget < ((2 ^ 53 : Int) : Rat) := by decide +kernel
example : budget ≠ 49 ∧ budget.floor = 49 := by decide +kernel

theorem f53_sub_exact_inst : Float53.rnd (budget - ((28 : Int) : Rat)) = budget - ((28 : Int) : Rat) :=
  C14.f53_sub_exact budget 28 budget_repr budget_lt (by decide) (by decide +kernel)

/-- … shared among three contributors -/
theorem f53_floor_div_inst :
    (Float53.rnd (budget / ((3 : Nat) : Rat))).floor = (budget / ((3 : Nat) : Rat)).floor :=
  C14.f53_floor_div budget 3 budget_repr (by decide +kernel) budget_lt (by decide)
example : (budget / ((3 : Nat) : Rat)).floor = 16 := by decide +kernel

/-! ## C05 — five-card rank

The best five cards of seat 0 and of seat 1 on the board of run-out 0: kings with ace, jack, eight, in different suits. -/

open CardVerif.Rank5 CardVerif.Poker5

def five0 : List Card := [⟨13, 0⟩, ⟨8, 1⟩, ⟨11, 1⟩, ⟨14, 3⟩, ⟨13, 1⟩]
def five1 : List Card := [⟨13, 0⟩, ⟨8, 1⟩, ⟨11, 1⟩, ⟨14, 2⟩, ⟨13, 3⟩]
/-- the same cards as `five0`, as a player would arrange them -/
def five0' : List Card := [⟨13, 1⟩, ⟨13, 0⟩, ⟨14, 3⟩, ⟨11, 1⟩, ⟨8, 1⟩]

theorem rank5_eq_spec_inst : rank5 five0 = .ok (specKey five0) :=
  C05.rank5_eq_spec five0 (by decide) (by decide) (by decide)
example : specKey five0 = [1, 13, 14, 11, 8] := by decide +kernel
example : rank5 five0 = .ok [1, 13, 14, 11, 8] := by decide +kernel

theorem rank5_perm_inst : rank5 five0 = rank5 five0' := C05.rank5_perm five0 five0' (by decide)
theorem specKey_perm_inst : specKey five0 = specKey five0' := C05.specKey_perm five0 five0' (by decide)

/-- all seven cards of seat 0 at once are not a five-card hand -/
theorem rank5_bad_length_inst : rank5 (board0 ++ [⟨14, 3⟩, ⟨13, 1⟩]) = .error .badLength :=
  C05.rank5_bad_length _ (by decide)

/-- seats 0 and 1 tie although no card of their hole cards has the same suit -/
theorem rank5_suit_blind_inst : rank5 five0 = rank5 five1 :=
  C05.rank5_suit_blind five0 five1 (by decide) (by decide)

/-! ## C06 — Hold'em and Omaha strength

Hold'em: seat 3 (pocket queens) on the board of run-out 1, `K♣ 8♦ 3♥ Q♥ 7♦` – three queens.
Omaha: board `9♠ 8♠ 7♠ 7♦ 2♣`, hand `A♠ 7♥ 7♣ 6♦` – exactly two hole cards must play, so the ace of spades makes
no flush and the hand is four sevens with the nine. -/

def hhand : List Card := [⟨12, 0⟩, ⟨12, 1⟩]
def oboard : List Card := [⟨9, 3⟩, ⟨8, 3⟩, ⟨7, 3⟩, ⟨7, 1⟩, ⟨2, 0⟩]
def ohand : List Card := [⟨14, 3⟩, ⟨7, 2⟩, ⟨7, 0⟩, ⟨6, 1⟩]
def quads : List Card := [⟨9, 3⟩, ⟨7, 3⟩, ⟨7, 1⟩, ⟨7, 2⟩, ⟨7, 0⟩]

theorem hdeal : C06.DealOK board1 hhand 2 := ⟨by decide, by decide, by decide, by decide⟩
theorem odeal : C06.DealOK oboard ohand 4 := ⟨by decide, by decide, by decide, by decide⟩

theorem omahaHands_ne : omahaHands oboard ohand ≠ [] := by decide

theorem bestKey_max_inst :
    (∃ h ∈ omahaHands oboard ohand, specKey h = bestKey (omahaHands oboard ohand)) ∧
      ∀ h ∈ omahaHands oboard ohand, lexLt (bestKey (omahaHands oboard ohand)) (specKey h) = false :=
  C06.bestKey_max (omahaHands oboard ohand) omahaHands_ne
example : bestKey (omahaHands oboard ohand) = [7, 7, 9] ∧ specKey quads = [7, 7, 9] := by decide +kernel

/-- `9♠ 7♠ 7♦` from the board with `7♥ 7♣` from the hand is one of the hands compared … -/
theorem omahaHands_spec_inst : quads ∈ omahaHands oboard ohand :=
  (C06.omahaHands_spec oboard ohand quads).2
    ⟨[⟨9, 3⟩, ⟨7, 3⟩, ⟨7, 1⟩], [⟨7, 2⟩, ⟨7, 0⟩], by decide, rfl, by decide, rfl, rfl⟩

/-- … and every hand compared has that shape -/
theorem omahaHands_spec_inst' : ∀ h ∈ omahaHands oboard ohand,
    ∃ b c, b.Sublist oboard ∧ b.length = 3 ∧ c.Sublist ohand ∧ c.length = 2 ∧ h = b ++ c :=
  fun h hm => (C06.omahaHands_spec oboard ohand h).1 hm

theorem omahaHands_count_inst : (omahaHands oboard ohand).length = 60 :=
  C06.omahaHands_count oboard ohand (by decide) (by decide)

/-- `Q♣ Q♦ Q♥ K♣ 8♦` is among the Hold'em hands of seat 3 -/
theorem holdemHands_spec_inst : [⟨13, 0⟩, ⟨8, 1⟩, ⟨12, 2⟩, ⟨12, 0⟩, ⟨12, 1⟩] ∈ combinations 5 (board1 ++ hhand) :=
  (C06.holdemHands_spec board1 hhand _).2 ⟨by decide, rfl⟩

theorem holdemHands_count_inst : (combinations 5 (board1 ++ hhand)).length = 21 :=
  C06.holdemHands_count board1 hhand (by decide) (by decide)

theorem omaha_brute_eq_spec_inst : Eval.omahaBrute oboard ohand = .ok (omahaSpec oboard ohand) :=
  C06.omaha_brute_eq_spec oboard ohand odeal
example : omahaSpec oboard ohand = [7, 7, 9] := by decide +kernel
example : Eval.omahaBrute oboard ohand = .ok [7, 7, 9] := by decide +kernel

theorem holdem_eq_spec_inst : Eval.holdemStrength board1 hhand = .ok (holdemSpec board1 hhand) :=
  C06.holdem_eq_spec board1 hhand hdeal
example : holdemSpec board1 hhand = [3, 12, 13, 8] := by decide +kernel

/-- asking for a strength on the flop is rejected -/
theorem holdem_bad_sizes_inst : Eval.holdemStrength flop hhand = .error .badLength :=
  C06.holdem_bad_sizes flop hhand (Or.inl (by decide))

/-- a Hold'em hand handed to the Omaha evaluator is rejected -/
theorem omaha_fast_bad_sizes_inst : Omaha.handStrengthFast oboard hhand = .error .badLength :=
  C06.omaha_fast_bad_sizes oboard hhand (Or.inr (by decide))

/-! ## C06b — the optimised Omaha evaluator (these three inherit the compiled-table axioms of the theorems they apply) -/

theorem omaha_fast_eq_spec_inst : Omaha.handStrengthFast oboard ohand = .ok (omahaSpec oboard ohand) :=
  C06.omaha_fast_eq_spec oboard ohand odeal
example : Omaha.handStrengthFast oboard ohand = .ok [7, 7, 9] := by decide +kernel

theorem omaha_fast_eq_brute_inst : Omaha.handStrengthFast oboard ohand = Eval.omahaBrute oboard ohand :=
  C06.omaha_fast_eq_brute oboard ohand odeal

/-- spades ↔ clubs, diamonds ↔ hearts, and the cards shuffled -/
def σ : Nat → Nat := fun s => 3 - s
def oboard' : List Card := [⟨2, 3⟩, ⟨7, 0⟩, ⟨9, 0⟩, ⟨7, 2⟩, ⟨8, 0⟩]
def ohand' : List Card := [⟨7, 3⟩, ⟨6, 2⟩, ⟨14, 0⟩, ⟨7, 1⟩]

theorem hσ : Sym.SuitPerm σ := ⟨fun a b ha hb h => by simp only [σ] at h; omega, fun a ha => by simp only [σ]; omega⟩

theorem hbImage : Sym.Image σ oboard oboard' := by unfold Sym.Image; decide
theorem hhImage : Sym.Image σ ohand ohand' := by unfold Sym.Image; decide

theorem omaha_fast_sym_inst : Omaha.handStrengthFast oboard' ohand' = Omaha.handStrengthFast oboard ohand :=
  C06.omaha_fast_sym σ hσ oboard oboard' ohand ohand' odeal hbImage hhImage
example : Omaha.handStrengthFast oboard' ohand' = .ok [7, 7, 9] := by decide +kernel

/-! ### C13 for Omaha with the optimised evaluator (`C06.plo_no_internal_error`): the PLO hand `A` of `Witness/Betting.lean`
(three-handed, two all-in calls before the flop, two run-outs) played with `Omaha.handStrengthFast`, as the driver does -/

section PLO
open CardVerif.Witness.Betting

def envFast (fl : Rat → Rat) : Env := ⟨World.std, fl, Omaha.handStrengthFast⟩
theorem pa1 (fl) : A.w0.act (envFast fl) 2 (some .raise) (some 35) = .ok A.w1 := by rfl
theorem pa2 (fl) : A.w1.act (envFast fl) 0 (some .call) none = .ok A.w2 := by rfl
theorem preach2 (fl) : Reachable (envFast fl) A.cfg A.w2 :=
  .step 0 (some .call) none (.step 2 (some .raise) (some 35) (.init A.h0) (pa1 fl)) (pa2 fl)

theorem plo_no_internal_error_inst : ∃ s', A.m3.advanceAction (envFast id) = .ok s' :=
  C06.plo_no_internal_error (envFast id) A.cfg rfl C14.flSpec_id A.valid C13R.dealtA rfl rfl (preach2 id)
    1 (some .call) none A.ap3
theorem plo_no_internal_error_f53_inst : ∃ s', A.m3.advanceAction (envFast Float53.rnd) = .ok s' :=
  C06.plo_no_internal_error_f53 (envFast Float53.rnd) A.cfg rfl rfl A.valid (by decide) C13R.dealtA rfl rfl
    (preach2 Float53.rnd) 1 (some .call) none A.ap3
/-- and the showdown reached is the one of `A` -/
example : A.m3.advanceAction (envFast Float53.rnd) = .ok A.w3 := by decide +kernel

end PLO
/-! ## axioms -/

#print axioms reach
#print axioms tiers_ok_inst
#print axioms tiers_ok_inst'
#print axioms order_hands_seats_inst
#print axioms order_hands_seats_inst'
#print axioms showdown_payouts_inst
#print axioms foldout_payouts_inst
#print axioms runout_board_inst
#print axioms settle_sum_inst
#print axioms settle_nonneg_inst
#print axioms settle_eq_spec_inst
#print axioms spec_folded_zero_inst
#print axioms spec_le_matched_inst
#print axioms spec_unmatched_returns_inst
#print axioms flSpec_id_inst
#print axioms flSpecB_id_inst
#print axioms flSpecB_f53_inst
#print axioms flSpecB_anti_inst
#print axioms rake_not_raked_inst
#print axioms rake_length_inst
#print axioms rake_equal_inst
#print axioms rake_le_contribution_inst
#print axioms order_preserved_inst
#print axioms rake_le_contribution_B_inst
#print axioms order_preserved_B_inst
#print axioms rake_le_contribution_f53_inst
#print axioms order_preserved_f53_inst
#print axioms rake_nonneg_exact_inst
#print axioms rake_mono_exact_inst
#print axioms rake_total_le_cap_exact_inst
#print axioms rake_total_le_fraction_exact_inst
#print axioms rake_layers_exact_inst
#print axioms rake_layers_exact_list_inst
#print axioms rake_total_layers_inst
#print axioms rake_stops_inst
#print axioms rake_layer_charge_exact_inst
#print axioms rake_layers_exact_id_inst
#print axioms rake_layer_bounds_exact_inst
#print axioms rake_zero_layer_exact_inst
#print axioms flRake_id_inst
#print axioms flRake_f53_inst
#print axioms rake_nonneg_of_flRake_inst
#print axioms rake_mono_of_flRake_inst
#print axioms rake_total_le_budget_of_flRake_inst
#print axioms rake_total_le_cap_of_flRake_inst
#print axioms rake_nonneg_f53_inst
#print axioms rake_mono_f53_inst
#print axioms rake_total_le_cap_f53_inst
#print axioms rake_total_le_fraction_f53_inst
#print axioms f53_sub_exact_inst
#print axioms f53_floor_div_inst
#print axioms rank5_eq_spec_inst
#print axioms rank5_perm_inst
#print axioms specKey_perm_inst
#print axioms rank5_bad_length_inst
#print axioms rank5_suit_blind_inst
#print axioms bestKey_max_inst
#print axioms omahaHands_spec_inst
#print axioms omahaHands_spec_inst'
#print axioms omahaHands_count_inst
#print axioms holdemHands_spec_inst
#print axioms holdemHands_count_inst
#print axioms omaha_brute_eq_spec_inst
#print axioms holdem_eq_spec_inst
#print axioms holdem_bad_sizes_inst
#print axioms omaha_fast_bad_sizes_inst
#print axioms omaha_fast_eq_spec_inst
#print axioms omaha_fast_eq_brute_inst
#print axioms omaha_fast_sym_inst
#print axioms plo_no_internal_error_inst
#print axioms plo_no_internal_error_f53_inst

end CardVerif.Witness.PotShowdown
