import CardVerif.Props.C09b
import CardVerif.Props.C10b
import CardVerif.Props.C11b
import CardVerif.Props.C17b
/-!
# Non-vacuity witnesses for the gin properties C09, C09b, C10, C10b, C11, C11b, C17, C17b

Six concrete games, every step checked by kernel evaluation of the model (`decide +kernel`), every hypothesis of
every property theorem discharged, the theorem applied and its conclusion recorded as a `…_inst` theorem.

* `Rummy`  – gin rummy, full 52-card deck, turn limit 40: pass, pass, forced stock draw, discard (deadwood 15, no
  knock offer), stock draw, discard, **take from the discard pile**, discard (deadwood 1, knock offer), then either
  a **knock with three declared melds on which the defender lays off two cards** (25 → 8; score 0–7) or a declined
  knock.  Fresh `Deal`.
* `Ricky`  – gin ricky with a stock of two cards: up-card taken, the stock runs out (both hands become public),
  the next discard **reshuffles** the pile into the stock, player 2 draws and goes **gin** (16–0).  Fresh `Deal`.
* `RummyH` – the `Rummy` game stored after five moves and restored on player 1's draw turn with its public map
  (`DealH`), played to the knock / the declined knock.
* `RummyO` – a gin rummy game restored on player 2's opening turn: both passes and the forced draw.
* `RickyH` – the `Ricky` game restored on player 1's discard turn with an EMPTY stock and the fully revealing map,
  played through the reshuffle to the gin.
* `RummyW` – the two endings at the wall (declined knock on the end-size stock; discard at the turn limit), 0–0.

The shuffle is `List.reverse` everywhere.  No vacuity finding: every theorem of the eight files has an instance
whose hypotheses hold, and none of the instances is degenerate.
-/
namespace CardVerif.Witness.GinGame
open CardVerif CardVerif.Gin

deriving instance DecidableEq for GState
deriving instance DecidableEq for View

/-- the injected shuffle of every witness: the pile turned over (a permutation that is not the identity) -/
def sh : List Card → List Card := List.reverse
theorem sh_perm : ∀ l, (sh l).Perm l := List.reverse_perm

/-- a boolean check of `HudSound` -/
theorem hudSound_of_check (g : GState)
    (h : (g.hud.all fun e => match e.2 with
      | .p1 => decide (e.1 ∈ g.p1)
      | .p2 => decide (e.1 ∈ g.p2)
      | .top => decide (g.discard.getLast? = some e.1)
      | .disc => decide (e.1 ∈ g.discard)) = true) : HudSound g := by
  intro e he
  have := List.all_eq_true.1 h e he
  rcases e with ⟨c, l⟩
  cases l <;> simpa using this

/-! ## the conclusions of the longer theorems, verbatim, as schemas in the states involved -/

/-- conclusion of `C09.hand_sizes` / `hand_sizes_from` -/
def HandSizes (g0 g : GState) : Prop :=
  g.p1.length = g.params.cardsDealt + (if g.turn = .p1Discards then 1 else 0) ∧
  g.p2.length = g.params.cardsDealt + (if g.turn = .p2Discards then 1 else 0) ∧
  g.turn.isDrawFromDeck = false ∧ g.params = g0.params

/-- conclusion of `C09.draw_discard_frame` -/
def DrawDiscardFrame (g g' : GState) : Prop :=
  ∃ c rest, g.discard = rest ++ [c] ∧ g'.discard = rest ∧ g'.deck = g.deck ∧
    ((g'.p1 = g.p1 ++ [c] ∧ g'.p2 = g.p2) ∨ (g'.p2 = g.p2 ++ [c] ∧ g'.p1 = g.p1))

/-- conclusion of `C09.draw_stock_frame` -/
def DrawStockFrame (g g' : GState) : Prop :=
  ∃ c rest, g.deck = c :: rest ∧ g'.deck = rest ∧ g'.discard = g.discard ∧
    ((g'.p1 = g.p1 ++ [c] ∧ g'.p2 = g.p2) ∨ (g'.p2 = g.p2 ++ [c] ∧ g'.p1 = g.p1))

/-- conclusion of `C09.discard_frame` -/
def DiscardFrame (g g' : GState) (c : Card) : Prop :=
  ((g'.p1 = g.p1.filter (· != c) ∧ g'.p2 = g.p2 ∧ g.turn = .p1Discards ∧ c ∈ g.p1) ∨
   (g'.p2 = g.p2.filter (· != c) ∧ g'.p1 = g.p1 ∧ g.turn = .p2Discards ∧ c ∈ g.p2)) ∧
  ((g'.discard = g.discard ++ [c] ∧ g'.deck = g.deck) ∨
   (g'.discard = [] ∧ g'.deck.Perm (g.discard ++ [c] ++ g.deck)))

/-- conclusion of `C09.knock_frame` -/
def KnockFrame (g g' : GState) : Prop :=
  g'.p1 = g.p1 ∧ g'.p2 = g.p2 ∧
  ((g'.discard = g.discard ∧ g'.deck = g.deck) ∨ (g'.discard = [] ∧ g'.deck.Perm (g.discard ++ g.deck)))

/-- conclusion of `C10.pass_next` / `pass_next_from` -/
def PassNext (g g' : GState) : Prop :=
  g'.complete = false ∧ g'.turns = g.turns + 1 ∧
  (g.turn = g.firstTurn → g'.turn = oppDrawsFirst g.turn.owner ∧ g'.deck = g.deck ∧ g'.p1 = g.p1 ∧ g'.p2 = g.p2) ∧
  (g.turn ≠ g.firstTurn → g'.turn = ownDiscards g.firstTurn.owner ∧
      ∃ c rest, g.deck = c :: rest ∧ g'.deck = rest ∧ g'.handOf g.firstTurn.owner = g.handOf g.firstTurn.owner ++ [c])

/-- conclusion of `C10.discard_next_rummy` / `discard_next_rummy_from` -/
def DiscardNextRummy (g g' : GState) (c : Card) : Prop :=
  ∃ cand, splitMelds ((g.handOf g.turn.owner).filter (· != c)) = .ok cand ∧
    g'.turn = (if cand.deadwood ≤ 10 then ownMayKnock g.turn.owner else oppDraws g.turn.owner)

/-- conclusion of `C11.discard_end` / `discard_end_from` -/
def DiscardEnd (g g' : GState) (c : Card) : Prop :=
  ∃ dw : Int, getDeadwood g.params.variant ((g.handOf g.turn.owner).filter (· != c)) none none = .ok dw ∧
    (g'.complete = true ↔
      dw = 0 ∨ g.hitsTurnLimit ∨
      (g.params.variant = .rummy ∧ 10 < dw ∧ g.deck.length = g.params.endCardsInDeck)) ∧
    (g'.complete = true → dw = 0 →
      ∃ od : Int, getDeadwood g.params.variant (g.handOf (!g.turn.owner)) none none = .ok od ∧
        (g'.p1Points, g'.p2Points) =
          (if g.turn.owner then (some 0, some (od + g.params.ginBonus))
           else (some (od + g.params.ginBonus), some 0))) ∧
    (g'.complete = true → dw ≠ 0 → (g'.p1Points, g'.p2Points) = (some 0, some 0))

/-- conclusion of `C11.knock_end` -/
def KnockEnd (g g' : GState) (ms : Option (List (List Card))) : Prop :=
  ∃ kd od : Int,
    getDeadwood g.params.variant (g.handOf g.turn.owner) ms none = .ok kd ∧
    getDeadwood g.params.variant (g.handOf (!g.turn.owner)) none ms = .ok od ∧
    g'.complete = true ∧
    (let k := if od ≤ kd then kd + g.params.underknockBonus else kd
     let (x, y) := normPoints k od
     (g'.p1Points, g'.p2Points) = if g.turn.owner then (some x, some y) else (some y, some x))

/-- conclusion of `C11.decline_end` -/
def DeclineEnd (g g' : GState) : Prop :=
  (g'.complete = true ↔ g.deck.length = g.params.endCardsInDeck ∧
      ∃ m, g.params.maxShuffles = some m ∧ m ≤ g.shuffles + 1) ∧
  (g'.complete = true → (g'.p1Points, g'.p2Points) = (some 0, some 0))

/-- conclusion of `C11.winner_zero` / `winner_zero_from` -/
def WinnerZero (g : GState) : Prop :=
  ∃ x y : Int, g.p1Points = some x ∧ g.p2Points = some y ∧ 0 ≤ x ∧ 0 ≤ y ∧ (x = 0 ∨ y = 0)

/-- conclusion of `C17.hud_secrecy` / `hud_secrecy_from` -/
def Secrecy (ps : PState) : Prop :=
  (∀ e ∈ ps.g.hud, (e.2 = .p1 → e.1 ∈ ps.pub1) ∧ (e.2 = .p2 → e.1 ∈ ps.pub2)) ∧
  (∀ c ∈ ps.pub1, c ∈ ps.g.p1) ∧ (∀ c ∈ ps.pub2, c ∈ ps.g.p2)

/-- conclusion of `C17.view_hud` / `view_hud_from` -/
def ViewHud (g : GState) (isP1 : Bool) : Prop :=
  (∀ e ∈ g.playerHud isP1, e.1 ∉ g.deck) ∧
  (∀ e ∈ g.playerHud isP1, e.2 = .opponent → (e.1, if isP1 then Hud.p2 else Hud.p1) ∈ g.hud) ∧
  (∀ c ∈ g.handOf isP1, (c, ViewLoc.user) ∈ g.playerHud isP1)

/-- conclusion of `C17.view_content` / `view_content_from` -/
def ViewContent (g : GState) (isP1 : Bool) (v : View) : Prop :=
  v.topOfDiscard = g.discard.getLast? ∧ v.deckLength = g.deck.length ∧ v.hud = g.playerHud isP1 ∧
  v.action = g.getAction isP1 ∧ (∀ c, v.drawnCard = some c → c ∈ g.handOf isP1)

/-- conclusion of `C17.wait_iff_off_turn` / `wait_iff_off_turn_from` -/
def WaitIffOffTurn (g : GState) : Prop :=
  g.getAction g.turn.owner ≠ .wait ∧ g.getAction (!g.turn.owner) = .wait

namespace Rummy

def stock0 : List Card :=
  [⟨14, 3⟩, ⟨11, 3⟩, ⟨2, 0⟩, ⟨3, 0⟩, ⟨3, 1⟩, ⟨3, 2⟩, ⟨3, 3⟩, ⟨4, 0⟩, ⟨5, 1⟩, ⟨5, 2⟩, ⟨5, 3⟩, ⟨6, 1⟩, ⟨6, 2⟩, ⟨6, 3⟩, ⟨7, 2⟩, ⟨7, 3⟩, ⟨8, 1⟩, ⟨8, 2⟩, ⟨8, 3⟩, ⟨10, 0⟩, ⟨10, 1⟩, ⟨10, 2⟩, ⟨10, 3⟩, ⟨11, 0⟩, ⟨12, 0⟩, ⟨12, 1⟩, ⟨12, 2⟩, ⟨13, 0⟩, ⟨13, 3⟩, ⟨14, 0⟩, ⟨14, 1⟩]

def g0 : GState :=
  { params := Params.rummy (some 40), deck := stock0,
    discard := [⟨13, 2⟩],
    p1 := [⟨5, 0⟩, ⟨6, 0⟩, ⟨7, 0⟩, ⟨9, 1⟩, ⟨9, 2⟩, ⟨9, 3⟩, ⟨2, 2⟩, ⟨2, 1⟩, ⟨13, 1⟩, ⟨12, 3⟩],
    p2 := [⟨8, 0⟩, ⟨9, 0⟩, ⟨4, 1⟩, ⟨4, 2⟩, ⟨4, 3⟩, ⟨11, 1⟩, ⟨11, 2⟩, ⟨2, 3⟩, ⟨7, 1⟩, ⟨14, 2⟩],
    turn := .p1DrawsFirst, firstTurn := .p1DrawsFirst, lastDraw := none, lastFromDiscard := none,
    hud := [(⟨13, 2⟩, .top)],
    complete := false, turns := 0, shuffles := 0, p1Points := none, p2Points := none }

def g1 : GState :=
  { params := Params.rummy (some 40), deck := stock0,
    discard := [⟨13, 2⟩],
    p1 := [⟨5, 0⟩, ⟨6, 0⟩, ⟨7, 0⟩, ⟨9, 1⟩, ⟨9, 2⟩, ⟨9, 3⟩, ⟨2, 2⟩, ⟨2, 1⟩, ⟨13, 1⟩, ⟨12, 3⟩],
    p2 := [⟨8, 0⟩, ⟨9, 0⟩, ⟨4, 1⟩, ⟨4, 2⟩, ⟨4, 3⟩, ⟨11, 1⟩, ⟨11, 2⟩, ⟨2, 3⟩, ⟨7, 1⟩, ⟨14, 2⟩],
    turn := .p2DrawsFirst, firstTurn := .p1DrawsFirst, lastDraw := none, lastFromDiscard := none,
    hud := [(⟨13, 2⟩, .top)],
    complete := false, turns := 1, shuffles := 0, p1Points := none, p2Points := none }

def g2 : GState :=
  { params := Params.rummy (some 40), deck := stock0.drop 1,
    discard := [⟨13, 2⟩],
    p1 := [⟨5, 0⟩, ⟨6, 0⟩, ⟨7, 0⟩, ⟨9, 1⟩, ⟨9, 2⟩, ⟨9, 3⟩, ⟨2, 2⟩, ⟨2, 1⟩, ⟨13, 1⟩, ⟨12, 3⟩, ⟨14, 3⟩],
    p2 := [⟨8, 0⟩, ⟨9, 0⟩, ⟨4, 1⟩, ⟨4, 2⟩, ⟨4, 3⟩, ⟨11, 1⟩, ⟨11, 2⟩, ⟨2, 3⟩, ⟨7, 1⟩, ⟨14, 2⟩],
    turn := .p1Discards, firstTurn := .p1DrawsFirst, lastDraw := (some ⟨14, 3⟩), lastFromDiscard := (some false),
    hud := [(⟨13, 2⟩, .top)],
    complete := false, turns := 2, shuffles := 0, p1Points := none, p2Points := none }

def g3 : GState :=
  { params := Params.rummy (some 40), deck := stock0.drop 1,
    discard := [⟨13, 2⟩, ⟨13, 1⟩],
    p1 := [⟨5, 0⟩, ⟨6, 0⟩, ⟨7, 0⟩, ⟨9, 1⟩, ⟨9, 2⟩, ⟨9, 3⟩, ⟨2, 2⟩, ⟨2, 1⟩, ⟨12, 3⟩, ⟨14, 3⟩],
    p2 := [⟨8, 0⟩, ⟨9, 0⟩, ⟨4, 1⟩, ⟨4, 2⟩, ⟨4, 3⟩, ⟨11, 1⟩, ⟨11, 2⟩, ⟨2, 3⟩, ⟨7, 1⟩, ⟨14, 2⟩],
    turn := .p2Draws, firstTurn := .p1DrawsFirst, lastDraw := (some ⟨14, 3⟩), lastFromDiscard := (some false),
    hud := [(⟨13, 2⟩, .disc), (⟨13, 1⟩, .top)],
    complete := false, turns := 3, shuffles := 0, p1Points := none, p2Points := none }

def g4 : GState :=
  { params := Params.rummy (some 40), deck := stock0.drop 2,
    discard := [⟨13, 2⟩, ⟨13, 1⟩],
    p1 := [⟨5, 0⟩, ⟨6, 0⟩, ⟨7, 0⟩, ⟨9, 1⟩, ⟨9, 2⟩, ⟨9, 3⟩, ⟨2, 2⟩, ⟨2, 1⟩, ⟨12, 3⟩, ⟨14, 3⟩],
    p2 := [⟨8, 0⟩, ⟨9, 0⟩, ⟨4, 1⟩, ⟨4, 2⟩, ⟨4, 3⟩, ⟨11, 1⟩, ⟨11, 2⟩, ⟨2, 3⟩, ⟨7, 1⟩, ⟨14, 2⟩, ⟨11, 3⟩],
    turn := .p2Discards, firstTurn := .p1DrawsFirst, lastDraw := (some ⟨11, 3⟩), lastFromDiscard := (some false),
    hud := [(⟨13, 2⟩, .disc), (⟨13, 1⟩, .top)],
    complete := false, turns := 3, shuffles := 0, p1Points := none, p2Points := none }

def g5 : GState :=
  { params := Params.rummy (some 40), deck := stock0.drop 2,
    discard := [⟨13, 2⟩, ⟨13, 1⟩, ⟨2, 3⟩],
    p1 := [⟨5, 0⟩, ⟨6, 0⟩, ⟨7, 0⟩, ⟨9, 1⟩, ⟨9, 2⟩, ⟨9, 3⟩, ⟨2, 2⟩, ⟨2, 1⟩, ⟨12, 3⟩, ⟨14, 3⟩],
    p2 := [⟨8, 0⟩, ⟨9, 0⟩, ⟨4, 1⟩, ⟨4, 2⟩, ⟨4, 3⟩, ⟨11, 1⟩, ⟨11, 2⟩, ⟨7, 1⟩, ⟨14, 2⟩, ⟨11, 3⟩],
    turn := .p1Draws, firstTurn := .p1DrawsFirst, lastDraw := (some ⟨11, 3⟩), lastFromDiscard := (some false),
    hud := [(⟨13, 2⟩, .disc), (⟨13, 1⟩, .disc), (⟨2, 3⟩, .top)],
    complete := false, turns := 4, shuffles := 0, p1Points := none, p2Points := none }

def g6 : GState :=
  { params := Params.rummy (some 40), deck := stock0.drop 2,
    discard := [⟨13, 2⟩, ⟨13, 1⟩],
    p1 := [⟨5, 0⟩, ⟨6, 0⟩, ⟨7, 0⟩, ⟨9, 1⟩, ⟨9, 2⟩, ⟨9, 3⟩, ⟨2, 2⟩, ⟨2, 1⟩, ⟨12, 3⟩, ⟨14, 3⟩, ⟨2, 3⟩],
    p2 := [⟨8, 0⟩, ⟨9, 0⟩, ⟨4, 1⟩, ⟨4, 2⟩, ⟨4, 3⟩, ⟨11, 1⟩, ⟨11, 2⟩, ⟨7, 1⟩, ⟨14, 2⟩, ⟨11, 3⟩],
    turn := .p1Discards, firstTurn := .p1DrawsFirst, lastDraw := (some ⟨2, 3⟩), lastFromDiscard := (some true),
    hud := [(⟨13, 2⟩, .disc), (⟨13, 1⟩, .disc), (⟨2, 3⟩, .p1)],
    complete := false, turns := 4, shuffles := 0, p1Points := none, p2Points := none }

def g7 : GState :=
  { params := Params.rummy (some 40), deck := stock0.drop 2,
    discard := [⟨13, 2⟩, ⟨13, 1⟩, ⟨12, 3⟩],
    p1 := [⟨5, 0⟩, ⟨6, 0⟩, ⟨7, 0⟩, ⟨9, 1⟩, ⟨9, 2⟩, ⟨9, 3⟩, ⟨2, 2⟩, ⟨2, 1⟩, ⟨14, 3⟩, ⟨2, 3⟩],
    p2 := [⟨8, 0⟩, ⟨9, 0⟩, ⟨4, 1⟩, ⟨4, 2⟩, ⟨4, 3⟩, ⟨11, 1⟩, ⟨11, 2⟩, ⟨7, 1⟩, ⟨14, 2⟩, ⟨11, 3⟩],
    turn := .p1MayKnock, firstTurn := .p1DrawsFirst, lastDraw := (some ⟨2, 3⟩), lastFromDiscard := (some true),
    hud := [(⟨13, 2⟩, .disc), (⟨13, 1⟩, .disc), (⟨2, 3⟩, .p1), (⟨12, 3⟩, .top)],
    complete := false, turns := 5, shuffles := 0, p1Points := none, p2Points := none }

def g8 : GState :=
  { params := Params.rummy (some 40), deck := stock0.drop 2,
    discard := [⟨13, 2⟩, ⟨13, 1⟩, ⟨12, 3⟩],
    p1 := [⟨5, 0⟩, ⟨6, 0⟩, ⟨7, 0⟩, ⟨9, 1⟩, ⟨9, 2⟩, ⟨9, 3⟩, ⟨2, 2⟩, ⟨2, 1⟩, ⟨14, 3⟩, ⟨2, 3⟩],
    p2 := [⟨8, 0⟩, ⟨9, 0⟩, ⟨4, 1⟩, ⟨4, 2⟩, ⟨4, 3⟩, ⟨11, 1⟩, ⟨11, 2⟩, ⟨7, 1⟩, ⟨14, 2⟩, ⟨11, 3⟩],
    turn := .p1MayKnock, firstTurn := .p1DrawsFirst, lastDraw := (some ⟨2, 3⟩), lastFromDiscard := (some true),
    hud := [(⟨13, 2⟩, .disc), (⟨13, 1⟩, .disc), (⟨2, 3⟩, .p1), (⟨12, 3⟩, .top)],
    complete := true, turns := 5, shuffles := 0, p1Points := (some 0), p2Points := (some 7) }

def g8d : GState :=
  { params := Params.rummy (some 40), deck := stock0.drop 2,
    discard := [⟨13, 2⟩, ⟨13, 1⟩, ⟨12, 3⟩],
    p1 := [⟨5, 0⟩, ⟨6, 0⟩, ⟨7, 0⟩, ⟨9, 1⟩, ⟨9, 2⟩, ⟨9, 3⟩, ⟨2, 2⟩, ⟨2, 1⟩, ⟨14, 3⟩, ⟨2, 3⟩],
    p2 := [⟨8, 0⟩, ⟨9, 0⟩, ⟨4, 1⟩, ⟨4, 2⟩, ⟨4, 3⟩, ⟨11, 1⟩, ⟨11, 2⟩, ⟨7, 1⟩, ⟨14, 2⟩, ⟨11, 3⟩],
    turn := .p2Draws, firstTurn := .p1DrawsFirst, lastDraw := (some ⟨2, 3⟩), lastFromDiscard := (some true),
    hud := [(⟨13, 2⟩, .disc), (⟨13, 1⟩, .disc), (⟨2, 3⟩, .p1), (⟨12, 3⟩, .top)],
    complete := false, turns := 5, shuffles := 0, p1Points := none, p2Points := none }

def v6 : View :=
  { hand := [⟨9, 1⟩, ⟨9, 2⟩, ⟨9, 3⟩, ⟨2, 2⟩, ⟨2, 1⟩, ⟨2, 3⟩, ⟨5, 0⟩, ⟨6, 0⟩, ⟨7, 0⟩, ⟨14, 3⟩, ⟨12, 3⟩], points := 11, topOfDiscard := (some ⟨13, 1⟩), lastFromDiscard := (some true), deckLength := 29,
    hud := [(⟨13, 2⟩, .disc), (⟨13, 1⟩, .disc), (⟨2, 3⟩, .user), (⟨5, 0⟩, .user), (⟨6, 0⟩, .user), (⟨7, 0⟩, .user), (⟨9, 1⟩, .user), (⟨9, 2⟩, .user), (⟨9, 3⟩, .user), (⟨2, 2⟩, .user), (⟨2, 1⟩, .user), (⟨12, 3⟩, .user), (⟨14, 3⟩, .user)],
    action := .discard, drawnCard := (some ⟨2, 3⟩) }

def v6o : View :=
  { hand := [⟨4, 1⟩, ⟨4, 2⟩, ⟨4, 3⟩, ⟨11, 1⟩, ⟨11, 2⟩, ⟨11, 3⟩, ⟨14, 2⟩, ⟨7, 1⟩, ⟨8, 0⟩, ⟨9, 0⟩], points := 25, topOfDiscard := (some ⟨13, 1⟩), lastFromDiscard := (some true), deckLength := 29,
    hud := [(⟨13, 2⟩, .disc), (⟨13, 1⟩, .disc), (⟨2, 3⟩, .opponent), (⟨8, 0⟩, .user), (⟨9, 0⟩, .user), (⟨4, 1⟩, .user), (⟨4, 2⟩, .user), (⟨4, 3⟩, .user), (⟨11, 1⟩, .user), (⟨11, 2⟩, .user), (⟨7, 1⟩, .user), (⟨14, 2⟩, .user), (⟨11, 3⟩, .user)],
    action := .wait, drawnCard := none }

def v7 : View :=
  { hand := [⟨9, 1⟩, ⟨9, 2⟩, ⟨9, 3⟩, ⟨2, 2⟩, ⟨2, 1⟩, ⟨2, 3⟩, ⟨5, 0⟩, ⟨6, 0⟩, ⟨7, 0⟩, ⟨14, 3⟩], points := 1, topOfDiscard := (some ⟨12, 3⟩), lastFromDiscard := (some true), deckLength := 29,
    hud := [(⟨13, 2⟩, .disc), (⟨13, 1⟩, .disc), (⟨2, 3⟩, .user), (⟨12, 3⟩, .top), (⟨5, 0⟩, .user), (⟨6, 0⟩, .user), (⟨7, 0⟩, .user), (⟨9, 1⟩, .user), (⟨9, 2⟩, .user), (⟨9, 3⟩, .user), (⟨2, 2⟩, .user), (⟨2, 1⟩, .user), (⟨14, 3⟩, .user)],
    action := .knock, drawnCard := none }

/-- the knocker's declared melds: the run 5-6-7 of clubs, three nines, three twos -/
def K : Option (List (List Card)) :=
  some [[⟨5, 0⟩, ⟨6, 0⟩, ⟨7, 0⟩], [⟨9, 1⟩, ⟨9, 2⟩, ⟨9, 3⟩], [⟨2, 2⟩, ⟨2, 1⟩, ⟨2, 3⟩]]

theorem deal : Deal g0 where
  fresh := ⟨Params.rummy (some 40), stock0, ⟨13, 2⟩, g0.p1, g0.p2, .p1DrawsFirst, rfl, rfl⟩
  variant := .inl rfl
  p1_len := by decide
  p2_len := by decide
  nodup := by decide +kernel
  stock := by decide

/-! ### the moves, each evaluated by the kernel -/
theorem a1 : g0.apply sh .pass = .ok g1 := by decide +kernel
theorem a2 : g1.apply sh .pass = .ok g2 := by decide +kernel
theorem a3 : g2.apply sh (.discard ⟨13, 1⟩) = .ok g3 := by decide +kernel
theorem a4 : g3.apply sh (.draw false) = .ok g4 := by decide +kernel
theorem a5 : g4.apply sh (.discard ⟨2, 3⟩) = .ok g5 := by decide +kernel
theorem a6 : g5.apply sh (.draw true) = .ok g6 := by decide +kernel
theorem a7 : g6.apply sh (.discard ⟨12, 3⟩) = .ok g7 := by decide +kernel
theorem a8 : g7.apply sh (.knock true K) = .ok g8 := by decide +kernel
theorem a8d : g7.apply sh (.knock false none) = .ok g8d := by decide +kernel

theorem r1 : Reach sh g0 g1 := .step .pass .init rfl a1
theorem r2 : Reach sh g0 g2 := .step .pass r1 rfl a2
theorem r3 : Reach sh g0 g3 := .step (.discard ⟨13, 1⟩) r2 rfl a3
theorem r4 : Reach sh g0 g4 := .step (.draw false) r3 rfl a4
theorem r5 : Reach sh g0 g5 := .step (.discard ⟨2, 3⟩) r4 rfl a5
theorem r6 : Reach sh g0 g6 := .step (.draw true) r5 rfl a6
theorem r7 : Reach sh g0 g7 := .step (.discard ⟨12, 3⟩) r6 rfl a7
theorem r8 : Reach sh g0 g8 := .step (.knock true K) r7 rfl a8
theorem r8d : Reach sh g0 g8d := .step (.knock false none) r7 rfl a8d

/-- what is public: player 1 holds the two of spades he took from the pile -/
def ps7 : PState := ⟨g7, [⟨2, 3⟩], []⟩
theorem pr1 : PReach sh g0 ⟨g1, [], []⟩ := .step .pass .init rfl a1
theorem pr2 : PReach sh g0 ⟨g2, [], []⟩ := .step .pass pr1 rfl a2
theorem pr3 : PReach sh g0 ⟨g3, [], []⟩ := .step (.discard ⟨13, 1⟩) pr2 rfl a3
theorem pr4 : PReach sh g0 ⟨g4, [], []⟩ := .step (.draw false) pr3 rfl a4
theorem pr5 : PReach sh g0 ⟨g5, [], []⟩ := .step (.discard ⟨2, 3⟩) pr4 rfl a5
theorem pr6 : PReach sh g0 ⟨g6, [⟨2, 3⟩], []⟩ := .step (.draw true) pr5 rfl a6
theorem pr7 : PReach sh g0 ps7 := .step (.discard ⟨12, 3⟩) pr6 rfl a7

theorem hv6 : g6.view true = .ok v6 := by decide +kernel
theorem hv6o : g6.view false = .ok v6o := by decide +kernel
theorem hv7 : g7.view true = .ok v7 := by decide +kernel

/-! ### C09 -/

theorem partition_inst : g7.allCards.Perm g0.allCards ∧ g7.allCards.Nodup := C09.partition sh sh_perm deal r7
theorem partition_end_inst : g8.allCards.Perm g0.allCards ∧ g8.allCards.Nodup := C09.partition sh sh_perm deal r8
example : g7.allCards.Nodup := by decide +kernel
example : g7.allCards.length = 52 := by decide

/-- player 1, who took a card and must discard, holds eleven -/
theorem hand_sizes_inst : HandSizes g0 g6 := C09.hand_sizes sh sh_perm deal r6 rfl
/-- … and player 2 after his stock draw -/
theorem hand_sizes_p2_inst : HandSizes g0 g4 := C09.hand_sizes sh sh_perm deal r4 rfl
example : g6.p1.length = 11 ∧ g6.p2.length = 10 ∧ g4.p1.length = 10 ∧ g4.p2.length = 11 := by decide

theorem stock_available_inst : g5.params.endCardsInDeck < g5.deck.length :=
  C09.stock_available sh sh_perm deal r5 rfl ⟨rfl, rfl⟩
theorem stock_available_decl_inst : g8d.params.endCardsInDeck < g8d.deck.length :=
  C09.stock_available sh sh_perm deal r8d rfl ⟨rfl, rfl⟩
example : g5.params.endCardsInDeck = 2 ∧ g5.deck.length = 29 := by decide

/-- the take from the discard pile -/
theorem draw_discard_frame_inst : DrawDiscardFrame g5 g6 := C09.draw_discard_frame g5 g6 a6
/-- player 2's stock draw -/
theorem draw_stock_frame_inst : DrawStockFrame g3 g4 := C09.draw_stock_frame g3 g4 a4
theorem discard_frame_inst : DiscardFrame g6 g7 ⟨12, 3⟩ := C09.discard_frame sh sh_perm g6 g7 ⟨12, 3⟩ a7
theorem knock_frame_inst : KnockFrame g7 g8 := C09.knock_frame sh sh_perm g7 g8 true K a8
theorem knock_frame_decl_inst : KnockFrame g7 g8d := C09.knock_frame sh sh_perm g7 g8d false none a8d

/-! ### C10 -/

/-- the take is accepted iff allowed … -/
theorem accept_iff_allowed_inst : (∃ g', g5.apply sh (.draw true) = .ok g') ↔ Allowed g5 (.draw true) :=
  C10.accept_iff_allowed sh sh_perm deal r5 rfl (.draw true)
/-- … the stock draw is allowed, hence accepted … -/
theorem accept_stock_draw_inst : ∃ g', g5.apply sh (.draw false) = .ok g' :=
  (C10.accept_iff_allowed sh sh_perm deal r5 rfl (.draw false)).2 ⟨rfl, by decide⟩
/-- … a pass, five moves in, is not … -/
theorem reject_pass_inst : ¬ ∃ g', g5.apply sh .pass = .ok g' := fun h => by
  have h' : g5.turn.isFirstDraw = true := (C10.accept_iff_allowed sh sh_perm deal r5 rfl .pass).1 h
  revert h'; decide
/-- … and the accepted knock was made with melds that are runs or sets -/
theorem knock_allowed_inst : Allowed g7 (.knock true K) :=
  (C10.accept_iff_allowed sh sh_perm deal r7 rfl (.knock true K)).1 ⟨g8, a8⟩
/-- a "meld" that is neither is not accepted -/
theorem reject_bad_meld_inst : ¬ ∃ g', g7.apply sh (.knock true (some [[⟨5, 0⟩, ⟨9, 1⟩, ⟨2, 2⟩]])) = .ok g' := fun h => by
  have h' := ((C10.accept_iff_allowed sh sh_perm deal r7 rfl _).1 h).2 rfl _ rfl _ (List.mem_singleton.2 rfl)
  revert h'; decide

theorem pass_next_first_inst : PassNext g0 g1 := C10.pass_next sh sh_perm deal .init rfl a1
theorem pass_next_second_inst : PassNext g1 g2 := C10.pass_next sh sh_perm deal r1 rfl a2
/-- the first pass hands the option over … -/
theorem pass_first : g1.turn = .p2DrawsFirst ∧ g1.deck = g0.deck ∧ g1.p1 = g0.p1 ∧ g1.p2 = g0.p2 :=
  pass_next_first_inst.2.2.1 rfl
/-- … the second forces player 1's stock draw -/
theorem pass_second : g2.turn = .p1Discards ∧
    ∃ c rest, g1.deck = c :: rest ∧ g2.deck = rest ∧ g2.handOf true = g1.handOf true ++ [c] :=
  pass_next_second_inst.2.2.2 (by decide)

theorem draw_next_inst : g6.complete = false ∧ g6.turn = ownDiscards g5.turn.owner :=
  C10.draw_next sh sh_perm deal r5 rfl true a6
theorem draw_next_stock_inst : g4.complete = false ∧ g4.turn = ownDiscards g3.turn.owner :=
  C10.draw_next sh sh_perm deal r3 rfl false a4

/-- deadwood 1: the knock decision is offered -/
theorem discard_next_rummy_inst : DiscardNextRummy g6 g7 ⟨12, 3⟩ :=
  C10.discard_next_rummy sh sh_perm deal r6 rfl rfl ⟨12, 3⟩ a7 rfl
/-- deadwood 15: the opponent draws -/
theorem discard_next_rummy_no_offer_inst : DiscardNextRummy g2 g3 ⟨13, 1⟩ :=
  C10.discard_next_rummy sh sh_perm deal r2 rfl rfl ⟨13, 1⟩ a3 rfl
example : (splitMelds (g6.p1.filter (· != (⟨12, 3⟩ : Card)))).map (·.deadwood) = .ok 1 := by decide +kernel
example : (splitMelds (g2.p1.filter (· != (⟨13, 1⟩ : Card)))).map (·.deadwood) = .ok 15 := by decide +kernel
example : g7.turn = .p1MayKnock ∧ g3.turn = .p2Draws := by decide

theorem decline_next_inst : g8d.turn = oppDraws g7.turn.owner :=
  C10.decline_next sh sh_perm deal r7 rfl none a8d rfl

/-! ### C11 -/

theorem pass_draw_never_end_inst : g2.complete = false := C11.pass_draw_never_end g1 g2 rfl (.inl a2)
theorem pass_draw_never_end_draw_inst : g6.complete = false := C11.pass_draw_never_end g5 g6 rfl (.inr ⟨true, a6⟩)

theorem discard_end_inst : DiscardEnd g6 g7 ⟨12, 3⟩ := C11.discard_end sh sh_perm deal r6 rfl ⟨12, 3⟩ a7
theorem discard_end_no_offer_inst : DiscardEnd g2 g3 ⟨13, 1⟩ := C11.discard_end sh sh_perm deal r2 rfl ⟨13, 1⟩ a3

/-- the knock: knocker 1, defender 8 after laying off the eight and nine of clubs (25 before) -/
theorem knock_end_inst : KnockEnd g7 g8 K := C11.knock_end sh g7 g8 K rfl a8
example : getDeadwood .rummy g7.p1 K none = .ok 1 := by decide +kernel
example : getDeadwood .rummy g7.p2 none K = .ok 8 := by decide +kernel
example : getDeadwood .rummy g7.p2 none none = .ok 25 := by decide +kernel
example : (g8.p1Points, g8.p2Points) = (some 0, some 7) := rfl

theorem decline_end_inst : DeclineEnd g7 g8d := C11.decline_end sh g7 g8d none a8d rfl

theorem winner_zero_inst : WinnerZero g8 := C11.winner_zero sh sh_perm deal r8 rfl

/-! ### C17 -/

theorem hud_sound_inst : HudSound g7 := C17.hud_sound sh sh_perm deal r7
theorem hud_no_stock_card_inst : ∀ e ∈ g7.hud, e.1 ∉ g7.deck := C17.hud_no_stock_card sh sh_perm deal r7
theorem hud_secrecy_inst : Secrecy ps7 := C17.hud_secrecy sh sh_perm deal pr7
/-- player 2 sees the two of spades as the opponent's, and nothing else of that hand -/
theorem view_hud_inst : ViewHud g7 false := C17.view_hud sh sh_perm deal r7 false
theorem view_hud_own_inst : ViewHud g7 true := C17.view_hud sh sh_perm deal r7 true
example : (g7.playerHud false).filter (·.2 == .opponent) = [(⟨2, 3⟩, .opponent)] := by decide +kernel
/-- the mover is shown the card he took -/
theorem view_content_inst : ViewContent g6 true v6 := C17.view_content sh sh_perm deal r6 rfl true v6 hv6
theorem view_content_opp_inst : ViewContent g6 false v6o := C17.view_content sh sh_perm deal r6 rfl false v6o hv6o
theorem view_content_knock_inst : ViewContent g7 true v7 := C17.view_content sh sh_perm deal r7 rfl true v7 hv7
theorem wait_iff_off_turn_inst : WaitIffOffTurn g7 := C17.wait_iff_off_turn sh sh_perm deal r7 rfl

/-! ### C17b: the fresh deal as a game with a map -/

theorem deal_is_dealH_inst : DealH g0 := C17.deal_is_dealH deal
theorem preach_is_preachH_inst : PReachH sh g0 ps7 := C17.preach_is_preachH sh deal pr7

end Rummy

namespace Ricky

def k0 : GState :=
  { params := Params.ricky none, deck := [⟨8, 3⟩, ⟨14, 0⟩],
    discard := [⟨10, 2⟩],
    p1 := [⟨6, 2⟩, ⟨7, 2⟩, ⟨10, 0⟩, ⟨10, 1⟩, ⟨5, 3⟩, ⟨11, 3⟩, ⟨2, 1⟩],
    p2 := [⟨8, 0⟩, ⟨8, 1⟩, ⟨8, 2⟩, ⟨3, 3⟩, ⟨4, 3⟩, ⟨13, 0⟩, ⟨12, 1⟩],
    turn := .p1DrawsFirst, firstTurn := .p1DrawsFirst, lastDraw := none, lastFromDiscard := none,
    hud := [(⟨10, 2⟩, .top)],
    complete := false, turns := 0, shuffles := 0, p1Points := none, p2Points := none }

def k1 : GState :=
  { params := Params.ricky none, deck := [⟨8, 3⟩, ⟨14, 0⟩],
    discard := [],
    p1 := [⟨6, 2⟩, ⟨7, 2⟩, ⟨10, 0⟩, ⟨10, 1⟩, ⟨5, 3⟩, ⟨11, 3⟩, ⟨2, 1⟩, ⟨10, 2⟩],
    p2 := [⟨8, 0⟩, ⟨8, 1⟩, ⟨8, 2⟩, ⟨3, 3⟩, ⟨4, 3⟩, ⟨13, 0⟩, ⟨12, 1⟩],
    turn := .p1Discards, firstTurn := .p1DrawsFirst, lastDraw := (some ⟨10, 2⟩), lastFromDiscard := (some true),
    hud := [(⟨10, 2⟩, .p1)],
    complete := false, turns := 0, shuffles := 0, p1Points := none, p2Points := none }

def k2 : GState :=
  { params := Params.ricky none, deck := [⟨8, 3⟩, ⟨14, 0⟩],
    discard := [⟨11, 3⟩],
    p1 := [⟨6, 2⟩, ⟨7, 2⟩, ⟨10, 0⟩, ⟨10, 1⟩, ⟨5, 3⟩, ⟨2, 1⟩, ⟨10, 2⟩],
    p2 := [⟨8, 0⟩, ⟨8, 1⟩, ⟨8, 2⟩, ⟨3, 3⟩, ⟨4, 3⟩, ⟨13, 0⟩, ⟨12, 1⟩],
    turn := .p2Draws, firstTurn := .p1DrawsFirst, lastDraw := (some ⟨10, 2⟩), lastFromDiscard := (some true),
    hud := [(⟨10, 2⟩, .p1), (⟨11, 3⟩, .top)],
    complete := false, turns := 1, shuffles := 0, p1Points := none, p2Points := none }

def k3 : GState :=
  { params := Params.ricky none, deck := [⟨14, 0⟩],
    discard := [⟨11, 3⟩],
    p1 := [⟨6, 2⟩, ⟨7, 2⟩, ⟨10, 0⟩, ⟨10, 1⟩, ⟨5, 3⟩, ⟨2, 1⟩, ⟨10, 2⟩],
    p2 := [⟨8, 0⟩, ⟨8, 1⟩, ⟨8, 2⟩, ⟨3, 3⟩, ⟨4, 3⟩, ⟨13, 0⟩, ⟨12, 1⟩, ⟨8, 3⟩],
    turn := .p2Discards, firstTurn := .p1DrawsFirst, lastDraw := (some ⟨8, 3⟩), lastFromDiscard := (some false),
    hud := [(⟨10, 2⟩, .p1), (⟨11, 3⟩, .top)],
    complete := false, turns := 1, shuffles := 0, p1Points := none, p2Points := none }

def k4 : GState :=
  { params := Params.ricky none, deck := [⟨14, 0⟩],
    discard := [⟨11, 3⟩, ⟨13, 0⟩],
    p1 := [⟨6, 2⟩, ⟨7, 2⟩, ⟨10, 0⟩, ⟨10, 1⟩, ⟨5, 3⟩, ⟨2, 1⟩, ⟨10, 2⟩],
    p2 := [⟨8, 0⟩, ⟨8, 1⟩, ⟨8, 2⟩, ⟨3, 3⟩, ⟨4, 3⟩, ⟨12, 1⟩, ⟨8, 3⟩],
    turn := .p1Draws, firstTurn := .p1DrawsFirst, lastDraw := (some ⟨8, 3⟩), lastFromDiscard := (some false),
    hud := [(⟨10, 2⟩, .p1), (⟨11, 3⟩, .disc), (⟨13, 0⟩, .top)],
    complete := false, turns := 2, shuffles := 0, p1Points := none, p2Points := none }

def k5 : GState :=
  { params := Params.ricky none, deck := [],
    discard := [⟨11, 3⟩, ⟨13, 0⟩],
    p1 := [⟨6, 2⟩, ⟨7, 2⟩, ⟨10, 0⟩, ⟨10, 1⟩, ⟨5, 3⟩, ⟨2, 1⟩, ⟨10, 2⟩, ⟨14, 0⟩],
    p2 := [⟨8, 0⟩, ⟨8, 1⟩, ⟨8, 2⟩, ⟨3, 3⟩, ⟨4, 3⟩, ⟨12, 1⟩, ⟨8, 3⟩],
    turn := .p1Discards, firstTurn := .p1DrawsFirst, lastDraw := (some ⟨14, 0⟩), lastFromDiscard := (some false),
    hud := [(⟨6, 2⟩, .p1), (⟨7, 2⟩, .p1), (⟨10, 0⟩, .p1), (⟨10, 1⟩, .p1), (⟨5, 3⟩, .p1), (⟨2, 1⟩, .p1), (⟨10, 2⟩, .p1), (⟨14, 0⟩, .p1), (⟨8, 0⟩, .p2), (⟨8, 1⟩, .p2), (⟨8, 2⟩, .p2), (⟨3, 3⟩, .p2), (⟨4, 3⟩, .p2), (⟨12, 1⟩, .p2), (⟨8, 3⟩, .p2)],
    complete := false, turns := 2, shuffles := 0, p1Points := none, p2Points := none }

def k6 : GState :=
  { params := Params.ricky none, deck := [⟨5, 3⟩, ⟨13, 0⟩, ⟨11, 3⟩],
    discard := [],
    p1 := [⟨6, 2⟩, ⟨7, 2⟩, ⟨10, 0⟩, ⟨10, 1⟩, ⟨2, 1⟩, ⟨10, 2⟩, ⟨14, 0⟩],
    p2 := [⟨8, 0⟩, ⟨8, 1⟩, ⟨8, 2⟩, ⟨3, 3⟩, ⟨4, 3⟩, ⟨12, 1⟩, ⟨8, 3⟩],
    turn := .p2Draws, firstTurn := .p1DrawsFirst, lastDraw := (some ⟨14, 0⟩), lastFromDiscard := (some false),
    hud := [(⟨6, 2⟩, .p1), (⟨7, 2⟩, .p1), (⟨10, 0⟩, .p1), (⟨10, 1⟩, .p1), (⟨2, 1⟩, .p1), (⟨10, 2⟩, .p1), (⟨14, 0⟩, .p1), (⟨8, 0⟩, .p2), (⟨8, 1⟩, .p2), (⟨8, 2⟩, .p2), (⟨3, 3⟩, .p2), (⟨4, 3⟩, .p2), (⟨12, 1⟩, .p2), (⟨8, 3⟩, .p2)],
    complete := false, turns := 3, shuffles := 1, p1Points := none, p2Points := none }

def k7 : GState :=
  { params := Params.ricky none, deck := [⟨13, 0⟩, ⟨11, 3⟩],
    discard := [],
    p1 := [⟨6, 2⟩, ⟨7, 2⟩, ⟨10, 0⟩, ⟨10, 1⟩, ⟨2, 1⟩, ⟨10, 2⟩, ⟨14, 0⟩],
    p2 := [⟨8, 0⟩, ⟨8, 1⟩, ⟨8, 2⟩, ⟨3, 3⟩, ⟨4, 3⟩, ⟨12, 1⟩, ⟨8, 3⟩, ⟨5, 3⟩],
    turn := .p2Discards, firstTurn := .p1DrawsFirst, lastDraw := (some ⟨5, 3⟩), lastFromDiscard := (some false),
    hud := [(⟨6, 2⟩, .p1), (⟨7, 2⟩, .p1), (⟨10, 0⟩, .p1), (⟨10, 1⟩, .p1), (⟨2, 1⟩, .p1), (⟨10, 2⟩, .p1), (⟨14, 0⟩, .p1), (⟨8, 0⟩, .p2), (⟨8, 1⟩, .p2), (⟨8, 2⟩, .p2), (⟨3, 3⟩, .p2), (⟨4, 3⟩, .p2), (⟨12, 1⟩, .p2), (⟨8, 3⟩, .p2)],
    complete := false, turns := 3, shuffles := 1, p1Points := none, p2Points := none }

def k8 : GState :=
  { params := Params.ricky none, deck := [⟨13, 0⟩, ⟨11, 3⟩],
    discard := [⟨12, 1⟩],
    p1 := [⟨6, 2⟩, ⟨7, 2⟩, ⟨10, 0⟩, ⟨10, 1⟩, ⟨2, 1⟩, ⟨10, 2⟩, ⟨14, 0⟩],
    p2 := [⟨8, 0⟩, ⟨8, 1⟩, ⟨8, 2⟩, ⟨3, 3⟩, ⟨4, 3⟩, ⟨8, 3⟩, ⟨5, 3⟩],
    turn := .p1Draws, firstTurn := .p1DrawsFirst, lastDraw := (some ⟨5, 3⟩), lastFromDiscard := (some false),
    hud := [(⟨6, 2⟩, .p1), (⟨7, 2⟩, .p1), (⟨10, 0⟩, .p1), (⟨10, 1⟩, .p1), (⟨2, 1⟩, .p1), (⟨10, 2⟩, .p1), (⟨14, 0⟩, .p1), (⟨8, 0⟩, .p2), (⟨8, 1⟩, .p2), (⟨8, 2⟩, .p2), (⟨3, 3⟩, .p2), (⟨4, 3⟩, .p2), (⟨12, 1⟩, .top), (⟨8, 3⟩, .p2)],
    complete := true, turns := 4, shuffles := 1, p1Points := (some 16), p2Points := (some 0) }

def w5 : View :=
  { hand := [⟨10, 0⟩, ⟨10, 1⟩, ⟨10, 2⟩, ⟨14, 0⟩, ⟨2, 1⟩, ⟨5, 3⟩, ⟨6, 2⟩, ⟨7, 2⟩], points := 14, topOfDiscard := (some ⟨13, 0⟩), lastFromDiscard := (some false), deckLength := 0,
    hud := [(⟨6, 2⟩, .user), (⟨7, 2⟩, .user), (⟨10, 0⟩, .user), (⟨10, 1⟩, .user), (⟨5, 3⟩, .user), (⟨2, 1⟩, .user), (⟨10, 2⟩, .user), (⟨14, 0⟩, .user), (⟨8, 0⟩, .opponent), (⟨8, 1⟩, .opponent), (⟨8, 2⟩, .opponent), (⟨3, 3⟩, .opponent), (⟨4, 3⟩, .opponent), (⟨12, 1⟩, .opponent), (⟨8, 3⟩, .opponent)],
    action := .discard, drawnCard := (some ⟨14, 0⟩) }

def w6 : View :=
  { hand := [⟨8, 0⟩, ⟨8, 1⟩, ⟨8, 2⟩, ⟨8, 3⟩, ⟨3, 3⟩, ⟨4, 3⟩, ⟨12, 1⟩], points := 19, topOfDiscard := none, lastFromDiscard := (some false), deckLength := 3,
    hud := [(⟨6, 2⟩, .opponent), (⟨7, 2⟩, .opponent), (⟨10, 0⟩, .opponent), (⟨10, 1⟩, .opponent), (⟨2, 1⟩, .opponent), (⟨10, 2⟩, .opponent), (⟨14, 0⟩, .opponent), (⟨8, 0⟩, .user), (⟨8, 1⟩, .user), (⟨8, 2⟩, .user), (⟨3, 3⟩, .user), (⟨4, 3⟩, .user), (⟨12, 1⟩, .user), (⟨8, 3⟩, .user)],
    action := .draw, drawnCard := none }

def w7 : View :=
  { hand := [⟨8, 0⟩, ⟨8, 1⟩, ⟨8, 2⟩, ⟨8, 3⟩, ⟨3, 3⟩, ⟨4, 3⟩, ⟨5, 3⟩, ⟨12, 1⟩], points := 0, topOfDiscard := none, lastFromDiscard := (some false), deckLength := 2,
    hud := [(⟨6, 2⟩, .opponent), (⟨7, 2⟩, .opponent), (⟨10, 0⟩, .opponent), (⟨10, 1⟩, .opponent), (⟨2, 1⟩, .opponent), (⟨10, 2⟩, .opponent), (⟨14, 0⟩, .opponent), (⟨8, 0⟩, .user), (⟨8, 1⟩, .user), (⟨8, 2⟩, .user), (⟨3, 3⟩, .user), (⟨4, 3⟩, .user), (⟨12, 1⟩, .user), (⟨8, 3⟩, .user), (⟨5, 3⟩, .user)],
    action := .discard, drawnCard := (some ⟨5, 3⟩) }

theorem deal : Deal k0 where
  fresh := ⟨Params.ricky none, k0.deck, ⟨10, 2⟩, k0.p1, k0.p2, .p1DrawsFirst, rfl, rfl⟩
  variant := .inr rfl
  p1_len := by decide
  p2_len := by decide
  nodup := by decide +kernel
  stock := by decide

theorem a1 : k0.apply sh (.draw true) = .ok k1 := by decide +kernel
theorem a2 : k1.apply sh (.discard ⟨11, 3⟩) = .ok k2 := by decide +kernel
theorem a3 : k2.apply sh (.draw false) = .ok k3 := by decide +kernel
theorem a4 : k3.apply sh (.discard ⟨13, 0⟩) = .ok k4 := by decide +kernel
/-- the last stock card: both hands become public -/
theorem a5 : k4.apply sh (.draw false) = .ok k5 := by decide +kernel
/-- the discard on an empty stock: the pile (three cards) is turned over and becomes the stock -/
theorem a6 : k5.apply sh (.discard ⟨5, 3⟩) = .ok k6 := by decide +kernel
theorem a7 : k6.apply sh (.draw false) = .ok k7 := by decide +kernel
/-- gin: four eights and 3-4-5 of spades -/
theorem a8 : k7.apply sh (.discard ⟨12, 1⟩) = .ok k8 := by decide +kernel

theorem r1 : Reach sh k0 k1 := .step (.draw true) .init rfl a1
theorem r2 : Reach sh k0 k2 := .step (.discard ⟨11, 3⟩) r1 rfl a2
theorem r3 : Reach sh k0 k3 := .step (.draw false) r2 rfl a3
theorem r4 : Reach sh k0 k4 := .step (.discard ⟨13, 0⟩) r3 rfl a4
theorem r5 : Reach sh k0 k5 := .step (.draw false) r4 rfl a5
theorem r6 : Reach sh k0 k6 := .step (.discard ⟨5, 3⟩) r5 rfl a6
theorem r7 : Reach sh k0 k7 := .step (.draw false) r6 rfl a7
theorem r8 : Reach sh k0 k8 := .step (.discard ⟨12, 1⟩) r7 rfl a8

/-- public after the stock ran out: both hands of that moment, minus player 1's later discard; the five of spades
player 2 drew from the reshuffled stock is NOT public -/
def ps7 : PState :=
  ⟨k7, [⟨6, 2⟩, ⟨7, 2⟩, ⟨10, 0⟩, ⟨10, 1⟩, ⟨2, 1⟩, ⟨10, 2⟩, ⟨14, 0⟩],
       [⟨8, 0⟩, ⟨8, 1⟩, ⟨8, 2⟩, ⟨3, 3⟩, ⟨4, 3⟩, ⟨12, 1⟩, ⟨8, 3⟩]⟩
theorem pr1 : PReach sh k0 ⟨k1, [⟨10, 2⟩], []⟩ := .step (.draw true) .init rfl a1
theorem pr2 : PReach sh k0 ⟨k2, [⟨10, 2⟩], []⟩ := .step (.discard ⟨11, 3⟩) pr1 rfl a2
theorem pr3 : PReach sh k0 ⟨k3, [⟨10, 2⟩], []⟩ := .step (.draw false) pr2 rfl a3
theorem pr4 : PReach sh k0 ⟨k4, [⟨10, 2⟩], []⟩ := .step (.discard ⟨13, 0⟩) pr3 rfl a4
theorem pr5 : PReach sh k0 ⟨k5, k5.p1, k5.p2⟩ := .step (.draw false) pr4 rfl a5
theorem pr6 : PReach sh k0 ⟨k6, k6.p1, k6.p2⟩ := .step (.discard ⟨5, 3⟩) pr5 rfl a6
theorem pr7 : PReach sh k0 ps7 := .step (.draw false) pr6 rfl a7

theorem hw5 : k5.view true = .ok w5 := by decide +kernel
theorem hw6 : k6.view false = .ok w6 := by decide +kernel
theorem hw7 : k7.view false = .ok w7 := by decide +kernel

/-! ### C09 -/

/-- after the reshuffle -/
theorem partition_inst : k7.allCards.Perm k0.allCards ∧ k7.allCards.Nodup := C09.partition sh sh_perm deal r7
example : k7.allCards.Nodup ∧ k7.allCards.length = 17 := by decide +kernel
theorem hand_sizes_inst : HandSizes k0 k7 := C09.hand_sizes sh sh_perm deal r7 rfl
example : k7.p1.length = 7 ∧ k7.p2.length = 8 := by decide
/-- right after the reshuffle the player to draw finds a stock again -/
theorem stock_available_inst : k6.params.endCardsInDeck < k6.deck.length :=
  C09.stock_available sh sh_perm deal r6 rfl ⟨rfl, rfl⟩
example : k6.params.endCardsInDeck = 0 ∧ k6.deck.length = 3 ∧ k5.deck.length = 0 := by decide
/-- the up-card taken on the opening turn -/
theorem draw_discard_frame_inst : DrawDiscardFrame k0 k1 := C09.draw_discard_frame k0 k1 a1
/-- the draw that empties the stock -/
theorem draw_stock_frame_inst : DrawStockFrame k4 k5 := C09.draw_stock_frame k4 k5 a5
/-- the reshuffling discard: second alternative, the new stock is a permutation of pile + card -/
theorem discard_frame_inst : DiscardFrame k5 k6 ⟨5, 3⟩ := C09.discard_frame sh sh_perm k5 k6 ⟨5, 3⟩ a6
example : k6.discard = [] ∧ k6.deck = [⟨5, 3⟩, ⟨13, 0⟩, ⟨11, 3⟩] ∧ k5.discard ++ [⟨5, 3⟩] ++ k5.deck = [⟨11, 3⟩, ⟨13, 0⟩, ⟨5, 3⟩] := by
  decide

/-! ### C10 -/

/-- on the empty pile after the reshuffle a take is not allowed, hence rejected -/
theorem reject_take_inst : ¬ ∃ g', k6.apply sh (.draw true) = .ok g' := fun h => by
  have h' := ((C10.accept_iff_allowed sh sh_perm deal r6 rfl (.draw true)).1 h).2
  exact h' rfl
theorem accept_iff_allowed_inst : (∃ g', k6.apply sh (.draw false) = .ok g') ↔ Allowed k6 (.draw false) :=
  C10.accept_iff_allowed sh sh_perm deal r6 rfl (.draw false)
/-- gin ricky has no knock: rejected on every turn, here player 2's discard turn -/
theorem reject_knock_inst : ¬ ∃ g', k7.apply sh (.knock false none) = .ok g' := fun h => by
  have h' : k7.turn.isKnock = true := ((C10.accept_iff_allowed sh sh_perm deal r7 rfl _).1 h).1
  revert h'; decide
theorem draw_next_inst : k1.complete = false ∧ k1.turn = ownDiscards k0.turn.owner :=
  C10.draw_next sh sh_perm deal .init rfl true a1
theorem discard_next_ricky_inst : k2.turn = oppDraws k1.turn.owner :=
  C10.discard_next_ricky sh sh_perm deal r1 rfl rfl ⟨11, 3⟩ a2
/-- also across the reshuffle -/
theorem discard_next_ricky_reshuffle_inst : k6.turn = oppDraws k5.turn.owner :=
  C10.discard_next_ricky sh sh_perm deal r5 rfl rfl ⟨5, 3⟩ a6

/-! ### C11 -/

theorem pass_draw_never_end_inst : k5.complete = false := C11.pass_draw_never_end k4 k5 rfl (.inr ⟨false, a5⟩)
/-- the reshuffling discard does not end the game (no shuffle limit in gin ricky) -/
theorem discard_end_reshuffle_inst : DiscardEnd k5 k6 ⟨5, 3⟩ := C11.discard_end sh sh_perm deal r5 rfl ⟨5, 3⟩ a6
/-- the gin: ends the game, the loser's 16 points -/
theorem discard_end_gin_inst : DiscardEnd k7 k8 ⟨12, 1⟩ := C11.discard_end sh sh_perm deal r7 rfl ⟨12, 1⟩ a8
example : getDeadwood .ricky (k7.p2.filter (· != (⟨12, 1⟩ : Card))) none none = .ok 0 := by decide +kernel
example : getDeadwood .ricky k7.p1 none none = .ok 16 := by decide +kernel
example : k8.complete = true ∧ (k8.p1Points, k8.p2Points) = (some 16, some 0) := by decide
theorem winner_zero_inst : WinnerZero k8 := C11.winner_zero sh sh_perm deal r8 rfl

/-! ### C17 -/

theorem hud_sound_inst : HudSound k6 := C17.hud_sound sh sh_perm deal r6
/-- the reshuffled stock holds three cards that had been named by the map (top / discarded); they are gone from it -/
theorem hud_no_stock_card_inst : ∀ e ∈ k6.hud, e.1 ∉ k6.deck := C17.hud_no_stock_card sh sh_perm deal r6
theorem hud_secrecy_inst : Secrecy ps7 := C17.hud_secrecy sh sh_perm deal pr7
theorem view_hud_inst : ViewHud k7 true := C17.view_hud sh sh_perm deal r7 true
example : ((k7.playerHud true).filter (·.2 == .opponent)).map (·.1) = ps7.pub2 := by decide +kernel
theorem view_content_inst : ViewContent k5 true w5 := C17.view_content sh sh_perm deal r5 rfl true w5 hw5
theorem view_content_reshuffled_inst : ViewContent k6 false w6 := C17.view_content sh sh_perm deal r6 rfl false w6 hw6
theorem view_content_drawn_inst : ViewContent k7 false w7 := C17.view_content sh sh_perm deal r7 rfl false w7 hw7
theorem wait_iff_off_turn_inst : WaitIffOffTurn k6 := C17.wait_iff_off_turn sh sh_perm deal r6 rfl

end Ricky

namespace RummyH
open Rummy (stock0)

def h0 : GState :=
  { params := Params.rummy (some 40), deck := stock0.drop 2,
    discard := [⟨13, 2⟩, ⟨13, 1⟩, ⟨2, 3⟩],
    p1 := [⟨5, 0⟩, ⟨6, 0⟩, ⟨7, 0⟩, ⟨9, 1⟩, ⟨9, 2⟩, ⟨9, 3⟩, ⟨2, 2⟩, ⟨2, 1⟩, ⟨12, 3⟩, ⟨14, 3⟩],
    p2 := [⟨8, 0⟩, ⟨9, 0⟩, ⟨4, 1⟩, ⟨4, 2⟩, ⟨4, 3⟩, ⟨11, 1⟩, ⟨11, 2⟩, ⟨7, 1⟩, ⟨14, 2⟩, ⟨11, 3⟩],
    turn := .p1Draws, firstTurn := .p1Draws, lastDraw := none, lastFromDiscard := none,
    hud := [(⟨13, 2⟩, .disc), (⟨13, 1⟩, .disc), (⟨2, 3⟩, .top)],
    complete := false, turns := 0, shuffles := 0, p1Points := none, p2Points := none }

def h1 : GState :=
  { params := Params.rummy (some 40), deck := stock0.drop 2,
    discard := [⟨13, 2⟩, ⟨13, 1⟩],
    p1 := [⟨5, 0⟩, ⟨6, 0⟩, ⟨7, 0⟩, ⟨9, 1⟩, ⟨9, 2⟩, ⟨9, 3⟩, ⟨2, 2⟩, ⟨2, 1⟩, ⟨12, 3⟩, ⟨14, 3⟩, ⟨2, 3⟩],
    p2 := [⟨8, 0⟩, ⟨9, 0⟩, ⟨4, 1⟩, ⟨4, 2⟩, ⟨4, 3⟩, ⟨11, 1⟩, ⟨11, 2⟩, ⟨7, 1⟩, ⟨14, 2⟩, ⟨11, 3⟩],
    turn := .p1Discards, firstTurn := .p1Draws, lastDraw := (some ⟨2, 3⟩), lastFromDiscard := (some true),
    hud := [(⟨13, 2⟩, .disc), (⟨13, 1⟩, .disc), (⟨2, 3⟩, .p1)],
    complete := false, turns := 0, shuffles := 0, p1Points := none, p2Points := none }

def h2 : GState :=
  { params := Params.rummy (some 40), deck := stock0.drop 2,
    discard := [⟨13, 2⟩, ⟨13, 1⟩, ⟨12, 3⟩],
    p1 := [⟨5, 0⟩, ⟨6, 0⟩, ⟨7, 0⟩, ⟨9, 1⟩, ⟨9, 2⟩, ⟨9, 3⟩, ⟨2, 2⟩, ⟨2, 1⟩, ⟨14, 3⟩, ⟨2, 3⟩],
    p2 := [⟨8, 0⟩, ⟨9, 0⟩, ⟨4, 1⟩, ⟨4, 2⟩, ⟨4, 3⟩, ⟨11, 1⟩, ⟨11, 2⟩, ⟨7, 1⟩, ⟨14, 2⟩, ⟨11, 3⟩],
    turn := .p1MayKnock, firstTurn := .p1Draws, lastDraw := (some ⟨2, 3⟩), lastFromDiscard := (some true),
    hud := [(⟨13, 2⟩, .disc), (⟨13, 1⟩, .disc), (⟨2, 3⟩, .p1), (⟨12, 3⟩, .top)],
    complete := false, turns := 1, shuffles := 0, p1Points := none, p2Points := none }

def h3 : GState :=
  { params := Params.rummy (some 40), deck := stock0.drop 2,
    discard := [⟨13, 2⟩, ⟨13, 1⟩, ⟨12, 3⟩],
    p1 := [⟨5, 0⟩, ⟨6, 0⟩, ⟨7, 0⟩, ⟨9, 1⟩, ⟨9, 2⟩, ⟨9, 3⟩, ⟨2, 2⟩, ⟨2, 1⟩, ⟨14, 3⟩, ⟨2, 3⟩],
    p2 := [⟨8, 0⟩, ⟨9, 0⟩, ⟨4, 1⟩, ⟨4, 2⟩, ⟨4, 3⟩, ⟨11, 1⟩, ⟨11, 2⟩, ⟨7, 1⟩, ⟨14, 2⟩, ⟨11, 3⟩],
    turn := .p1MayKnock, firstTurn := .p1Draws, lastDraw := (some ⟨2, 3⟩), lastFromDiscard := (some true),
    hud := [(⟨13, 2⟩, .disc), (⟨13, 1⟩, .disc), (⟨2, 3⟩, .p1), (⟨12, 3⟩, .top)],
    complete := true, turns := 1, shuffles := 0, p1Points := (some 0), p2Points := (some 7) }

def h3d : GState :=
  { params := Params.rummy (some 40), deck := stock0.drop 2,
    discard := [⟨13, 2⟩, ⟨13, 1⟩, ⟨12, 3⟩],
    p1 := [⟨5, 0⟩, ⟨6, 0⟩, ⟨7, 0⟩, ⟨9, 1⟩, ⟨9, 2⟩, ⟨9, 3⟩, ⟨2, 2⟩, ⟨2, 1⟩, ⟨14, 3⟩, ⟨2, 3⟩],
    p2 := [⟨8, 0⟩, ⟨9, 0⟩, ⟨4, 1⟩, ⟨4, 2⟩, ⟨4, 3⟩, ⟨11, 1⟩, ⟨11, 2⟩, ⟨7, 1⟩, ⟨14, 2⟩, ⟨11, 3⟩],
    turn := .p2Draws, firstTurn := .p1Draws, lastDraw := (some ⟨2, 3⟩), lastFromDiscard := (some true),
    hud := [(⟨13, 2⟩, .disc), (⟨13, 1⟩, .disc), (⟨2, 3⟩, .p1), (⟨12, 3⟩, .top)],
    complete := false, turns := 1, shuffles := 0, p1Points := none, p2Points := none }

def vh1 : View :=
  { hand := [⟨9, 1⟩, ⟨9, 2⟩, ⟨9, 3⟩, ⟨2, 2⟩, ⟨2, 1⟩, ⟨2, 3⟩, ⟨5, 0⟩, ⟨6, 0⟩, ⟨7, 0⟩, ⟨14, 3⟩, ⟨12, 3⟩], points := 11, topOfDiscard := (some ⟨13, 1⟩), lastFromDiscard := (some true), deckLength := 29,
    hud := [(⟨13, 2⟩, .disc), (⟨13, 1⟩, .disc), (⟨2, 3⟩, .user), (⟨5, 0⟩, .user), (⟨6, 0⟩, .user), (⟨7, 0⟩, .user), (⟨9, 1⟩, .user), (⟨9, 2⟩, .user), (⟨9, 3⟩, .user), (⟨2, 2⟩, .user), (⟨2, 1⟩, .user), (⟨12, 3⟩, .user), (⟨14, 3⟩, .user)],
    action := .discard, drawnCard := (some ⟨2, 3⟩) }

theorem dealH : DealH h0 where
  fresh := ⟨Params.rummy (some 40), h0.deck, h0.discard, h0.p1, h0.p2, .p1Draws, h0.hud, rfl⟩
  variant := .inl rfl
  observable := rfl
  knock_rummy := fun _ => rfl
  p1_len := by decide
  p2_len := by decide
  nodup := by decide +kernel
  stock := fun _ _ => by decide
  stock_le := by decide
  hud_keys := by decide
  hud_sound := hudSound_of_check h0 (by decide)

theorem a1 : h0.apply sh (.draw true) = .ok h1 := by decide +kernel
theorem a2 : h1.apply sh (.discard ⟨12, 3⟩) = .ok h2 := by decide +kernel
theorem a3 : h2.apply sh (.knock true Rummy.K) = .ok h3 := by decide +kernel
theorem a3d : h2.apply sh (.knock false none) = .ok h3d := by decide +kernel

theorem r1 : Reach sh h0 h1 := .step (.draw true) .init rfl a1
theorem r2 : Reach sh h0 h2 := .step (.discard ⟨12, 3⟩) r1 rfl a2
theorem r3 : Reach sh h0 h3 := .step (.knock true Rummy.K) r2 rfl a3
theorem r3d : Reach sh h0 h3d := .step (.knock false none) r2 rfl a3d

def ps2 : PState := ⟨h2, [⟨2, 3⟩], []⟩
theorem pr0 : PReachH sh h0 ⟨h0, [], []⟩ := .init
theorem pr1 : PReachH sh h0 ⟨h1, [⟨2, 3⟩], []⟩ := .step (.draw true) pr0 rfl a1
theorem pr2 : PReachH sh h0 ps2 := .step (.discard ⟨12, 3⟩) pr1 rfl a2

theorem hvh1 : h1.view true = .ok vh1 := by decide +kernel

/-! ### C09b -/
theorem partition_from_inst : h2.allCards.Perm h0.allCards ∧ h2.allCards.Nodup :=
  C09.partition_from sh sh_perm dealH r2
theorem hand_sizes_from_inst : HandSizes h0 h1 := C09.hand_sizes_from sh sh_perm dealH r1 rfl
example : h1.p1.length = 11 ∧ h1.p2.length = 10 := by decide
theorem stock_available_from_inst : h3d.params.endCardsInDeck < h3d.deck.length :=
  C09.stock_available_from sh sh_perm dealH r3d rfl ⟨rfl, rfl⟩
theorem stock_floor_from_inst : h2.params.endCardsInDeck ≤ h2.deck.length :=
  C09.stock_floor_from sh sh_perm dealH r2 rfl
theorem first_turn_from_inst : h2.firstTurn = h0.turn ∧ (h2.turn.isFirstDraw = true → h0.turn.isFirstDraw = true) :=
  C09.first_turn_from sh sh_perm dealH r2

/-! ### C10b -/
theorem accept_iff_allowed_from_inst :
    (∃ g', h2.apply sh (.knock true Rummy.K) = .ok g') ↔ Allowed h2 (.knock true Rummy.K) :=
  C10.accept_iff_allowed_from sh sh_perm dealH r2 rfl _
theorem accept_take_from_inst : ∃ g', h0.apply sh (.draw true) = .ok g' :=
  (C10.accept_iff_allowed_from sh sh_perm dealH .init rfl (.draw true)).2 ⟨.inr rfl, by decide⟩
theorem reject_discard_from_inst : ¬ ∃ g', h1.apply sh (.discard ⟨13, 1⟩) = .ok g' := fun h => by
  have h' : (⟨13, 1⟩ : Card) ∈ h1.handOf h1.turn.owner :=
    ((C10.accept_iff_allowed_from sh sh_perm dealH r1 rfl _).1 h).2
  revert h'; decide
theorem draw_next_from_inst : h1.complete = false ∧ h1.turn = ownDiscards h0.turn.owner :=
  C10.draw_next_from sh sh_perm dealH .init rfl true a1
theorem discard_next_rummy_from_inst : DiscardNextRummy h1 h2 ⟨12, 3⟩ :=
  C10.discard_next_rummy_from sh sh_perm dealH r1 rfl rfl ⟨12, 3⟩ a2 rfl
theorem decline_next_from_inst : h3d.turn = oppDraws h2.turn.owner :=
  C10.decline_next_from sh sh_perm dealH r2 rfl none a3d rfl
/-- restored after the opening: no pass, ever -/
theorem pass_never_from_inst : ∀ g', h3d.firstTurnPass ≠ .ok g' :=
  C10.pass_never_from sh sh_perm dealH rfl r3d

/-! ### C11b -/
theorem discard_end_from_inst : DiscardEnd h1 h2 ⟨12, 3⟩ := C11.discard_end_from sh sh_perm dealH r1 rfl ⟨12, 3⟩ a2
/-- a game ended by the third move after the restart -/
theorem winner_zero_from_inst : WinnerZero h3 := C11.winner_zero_from sh sh_perm dealH r3 rfl
theorem counters_from_inst :
    h0.complete = false ∧ h0.turns = 0 ∧ h0.shuffles = 0 ∧ h0.p1Points = none ∧ h0.p2Points = none :=
  C11.counters_from dealH
/-- the theorems of `C11.lean` without a deal hypothesis, on the restored game -/
theorem knock_end_inst : KnockEnd h2 h3 Rummy.K := C11.knock_end sh h2 h3 Rummy.K rfl a3
theorem decline_end_inst : DeclineEnd h2 h3d := C11.decline_end sh h2 h3d none a3d rfl

/-! ### C17b -/
theorem hud_sound_from_inst : HudSound h2 := C17.hud_sound_from sh sh_perm dealH r2
theorem hud_no_stock_card_from_inst : ∀ e ∈ h2.hud, e.1 ∉ h2.deck := C17.hud_no_stock_card_from sh sh_perm dealH r2
theorem hud_secrecy_from_inst : Secrecy ps2 := C17.hud_secrecy_from sh sh_perm dealH pr2
theorem view_hud_from_inst : ViewHud h2 false := C17.view_hud_from sh sh_perm dealH r2 false
theorem view_content_from_inst : ViewContent h1 true vh1 := C17.view_content_from sh sh_perm dealH r1 rfl true vh1 hvh1
theorem wait_iff_off_turn_from_inst : WaitIffOffTurn h2 := C17.wait_iff_off_turn_from sh sh_perm dealH r2 rfl
theorem hud_keys_nodup_from_inst : (h2.hud.map (·.1)).Nodup := C17.hud_keys_nodup_from sh dealH r2

end RummyH

namespace RummyO
open Rummy (stock0)

def o0 : GState :=
  { params := Params.rummy (some 40), deck := stock0,
    discard := [⟨13, 2⟩],
    p1 := [⟨5, 0⟩, ⟨6, 0⟩, ⟨7, 0⟩, ⟨9, 1⟩, ⟨9, 2⟩, ⟨9, 3⟩, ⟨2, 2⟩, ⟨2, 1⟩, ⟨13, 1⟩, ⟨12, 3⟩],
    p2 := [⟨8, 0⟩, ⟨9, 0⟩, ⟨4, 1⟩, ⟨4, 2⟩, ⟨4, 3⟩, ⟨11, 1⟩, ⟨11, 2⟩, ⟨2, 3⟩, ⟨7, 1⟩, ⟨14, 2⟩],
    turn := .p2DrawsFirst, firstTurn := .p2DrawsFirst, lastDraw := none, lastFromDiscard := none,
    hud := [(⟨13, 2⟩, .top)],
    complete := false, turns := 0, shuffles := 0, p1Points := none, p2Points := none }

def o1 : GState :=
  { params := Params.rummy (some 40), deck := stock0,
    discard := [⟨13, 2⟩],
    p1 := [⟨5, 0⟩, ⟨6, 0⟩, ⟨7, 0⟩, ⟨9, 1⟩, ⟨9, 2⟩, ⟨9, 3⟩, ⟨2, 2⟩, ⟨2, 1⟩, ⟨13, 1⟩, ⟨12, 3⟩],
    p2 := [⟨8, 0⟩, ⟨9, 0⟩, ⟨4, 1⟩, ⟨4, 2⟩, ⟨4, 3⟩, ⟨11, 1⟩, ⟨11, 2⟩, ⟨2, 3⟩, ⟨7, 1⟩, ⟨14, 2⟩],
    turn := .p1DrawsFirst, firstTurn := .p2DrawsFirst, lastDraw := none, lastFromDiscard := none,
    hud := [(⟨13, 2⟩, .top)],
    complete := false, turns := 1, shuffles := 0, p1Points := none, p2Points := none }

def o2 : GState :=
  { params := Params.rummy (some 40), deck := stock0.drop 1,
    discard := [⟨13, 2⟩],
    p1 := [⟨5, 0⟩, ⟨6, 0⟩, ⟨7, 0⟩, ⟨9, 1⟩, ⟨9, 2⟩, ⟨9, 3⟩, ⟨2, 2⟩, ⟨2, 1⟩, ⟨13, 1⟩, ⟨12, 3⟩],
    p2 := [⟨8, 0⟩, ⟨9, 0⟩, ⟨4, 1⟩, ⟨4, 2⟩, ⟨4, 3⟩, ⟨11, 1⟩, ⟨11, 2⟩, ⟨2, 3⟩, ⟨7, 1⟩, ⟨14, 2⟩, ⟨14, 3⟩],
    turn := .p2Discards, firstTurn := .p2DrawsFirst, lastDraw := (some ⟨14, 3⟩), lastFromDiscard := (some false),
    hud := [(⟨13, 2⟩, .top)],
    complete := false, turns := 2, shuffles := 0, p1Points := none, p2Points := none }

theorem dealH : DealH o0 where
  fresh := ⟨Params.rummy (some 40), o0.deck, o0.discard, o0.p1, o0.p2, .p2DrawsFirst, o0.hud, rfl⟩
  variant := .inl rfl
  observable := rfl
  knock_rummy := fun h => by revert h; decide
  p1_len := by decide
  p2_len := by decide
  nodup := by decide +kernel
  stock := fun _ _ => by decide
  stock_le := by decide
  hud_keys := by decide
  hud_sound := hudSound_of_check o0 (by decide)

theorem a1 : o0.apply sh .pass = .ok o1 := by decide +kernel
theorem a2 : o1.apply sh .pass = .ok o2 := by decide +kernel
theorem r1 : Reach sh o0 o1 := .step .pass .init rfl a1
theorem r2 : Reach sh o0 o2 := .step .pass r1 rfl a2

/-- "first" is the player on turn at the restart: player 2 passes, player 1 gets the option … -/
theorem pass_next_from_first_inst : PassNext o0 o1 := C10.pass_next_from sh sh_perm dealH .init rfl a1
/-- … player 1 passes, player 2 draws the top stock card and must discard -/
theorem pass_next_from_second_inst : PassNext o1 o2 := C10.pass_next_from sh sh_perm dealH r1 rfl a2
theorem pass_first : o1.turn = .p1DrawsFirst ∧ o1.deck = o0.deck ∧ o1.p1 = o0.p1 ∧ o1.p2 = o0.p2 :=
  pass_next_from_first_inst.2.2.1 rfl
theorem pass_second : o2.turn = .p2Discards ∧
    ∃ c rest, o1.deck = c :: rest ∧ o2.deck = rest ∧ o2.handOf false = o1.handOf false ++ [c] :=
  pass_next_from_second_inst.2.2.2 (by decide)
/-- an opening turn occurs: the game was restored on one -/
theorem first_turn_from_inst : o1.firstTurn = o0.turn ∧ (o1.turn.isFirstDraw = true → o0.turn.isFirstDraw = true) :=
  C09.first_turn_from sh sh_perm dealH r1
example : o1.turn.isFirstDraw = true := rfl
theorem hand_sizes_from_inst : HandSizes o0 o2 := C09.hand_sizes_from sh sh_perm dealH r2 rfl
theorem pass_draw_never_end_inst : o2.complete = false := C11.pass_draw_never_end o1 o2 rfl (.inl a2)

end RummyO

namespace RickyH

def j0 : GState :=
  { params := Params.ricky none, deck := [],
    discard := [⟨11, 3⟩, ⟨13, 0⟩],
    p1 := [⟨6, 2⟩, ⟨7, 2⟩, ⟨10, 0⟩, ⟨10, 1⟩, ⟨5, 3⟩, ⟨2, 1⟩, ⟨10, 2⟩, ⟨14, 0⟩],
    p2 := [⟨8, 0⟩, ⟨8, 1⟩, ⟨8, 2⟩, ⟨3, 3⟩, ⟨4, 3⟩, ⟨12, 1⟩, ⟨8, 3⟩],
    turn := .p1Discards, firstTurn := .p1Discards, lastDraw := none, lastFromDiscard := none,
    hud := [(⟨6, 2⟩, .p1), (⟨7, 2⟩, .p1), (⟨10, 0⟩, .p1), (⟨10, 1⟩, .p1), (⟨5, 3⟩, .p1), (⟨2, 1⟩, .p1), (⟨10, 2⟩, .p1), (⟨14, 0⟩, .p1), (⟨8, 0⟩, .p2), (⟨8, 1⟩, .p2), (⟨8, 2⟩, .p2), (⟨3, 3⟩, .p2), (⟨4, 3⟩, .p2), (⟨12, 1⟩, .p2), (⟨8, 3⟩, .p2)],
    complete := false, turns := 0, shuffles := 0, p1Points := none, p2Points := none }

def j1 : GState :=
  { params := Params.ricky none, deck := [⟨5, 3⟩, ⟨13, 0⟩, ⟨11, 3⟩],
    discard := [],
    p1 := [⟨6, 2⟩, ⟨7, 2⟩, ⟨10, 0⟩, ⟨10, 1⟩, ⟨2, 1⟩, ⟨10, 2⟩, ⟨14, 0⟩],
    p2 := [⟨8, 0⟩, ⟨8, 1⟩, ⟨8, 2⟩, ⟨3, 3⟩, ⟨4, 3⟩, ⟨12, 1⟩, ⟨8, 3⟩],
    turn := .p2Draws, firstTurn := .p1Discards, lastDraw := none, lastFromDiscard := none,
    hud := [(⟨6, 2⟩, .p1), (⟨7, 2⟩, .p1), (⟨10, 0⟩, .p1), (⟨10, 1⟩, .p1), (⟨2, 1⟩, .p1), (⟨10, 2⟩, .p1), (⟨14, 0⟩, .p1), (⟨8, 0⟩, .p2), (⟨8, 1⟩, .p2), (⟨8, 2⟩, .p2), (⟨3, 3⟩, .p2), (⟨4, 3⟩, .p2), (⟨12, 1⟩, .p2), (⟨8, 3⟩, .p2)],
    complete := false, turns := 1, shuffles := 1, p1Points := none, p2Points := none }

def j2 : GState :=
  { params := Params.ricky none, deck := [⟨13, 0⟩, ⟨11, 3⟩],
    discard := [],
    p1 := [⟨6, 2⟩, ⟨7, 2⟩, ⟨10, 0⟩, ⟨10, 1⟩, ⟨2, 1⟩, ⟨10, 2⟩, ⟨14, 0⟩],
    p2 := [⟨8, 0⟩, ⟨8, 1⟩, ⟨8, 2⟩, ⟨3, 3⟩, ⟨4, 3⟩, ⟨12, 1⟩, ⟨8, 3⟩, ⟨5, 3⟩],
    turn := .p2Discards, firstTurn := .p1Discards, lastDraw := (some ⟨5, 3⟩), lastFromDiscard := (some false),
    hud := [(⟨6, 2⟩, .p1), (⟨7, 2⟩, .p1), (⟨10, 0⟩, .p1), (⟨10, 1⟩, .p1), (⟨2, 1⟩, .p1), (⟨10, 2⟩, .p1), (⟨14, 0⟩, .p1), (⟨8, 0⟩, .p2), (⟨8, 1⟩, .p2), (⟨8, 2⟩, .p2), (⟨3, 3⟩, .p2), (⟨4, 3⟩, .p2), (⟨12, 1⟩, .p2), (⟨8, 3⟩, .p2)],
    complete := false, turns := 1, shuffles := 1, p1Points := none, p2Points := none }

def j3 : GState :=
  { params := Params.ricky none, deck := [⟨13, 0⟩, ⟨11, 3⟩],
    discard := [⟨12, 1⟩],
    p1 := [⟨6, 2⟩, ⟨7, 2⟩, ⟨10, 0⟩, ⟨10, 1⟩, ⟨2, 1⟩, ⟨10, 2⟩, ⟨14, 0⟩],
    p2 := [⟨8, 0⟩, ⟨8, 1⟩, ⟨8, 2⟩, ⟨3, 3⟩, ⟨4, 3⟩, ⟨8, 3⟩, ⟨5, 3⟩],
    turn := .p1Draws, firstTurn := .p1Discards, lastDraw := (some ⟨5, 3⟩), lastFromDiscard := (some false),
    hud := [(⟨6, 2⟩, .p1), (⟨7, 2⟩, .p1), (⟨10, 0⟩, .p1), (⟨10, 1⟩, .p1), (⟨2, 1⟩, .p1), (⟨10, 2⟩, .p1), (⟨14, 0⟩, .p1), (⟨8, 0⟩, .p2), (⟨8, 1⟩, .p2), (⟨8, 2⟩, .p2), (⟨3, 3⟩, .p2), (⟨4, 3⟩, .p2), (⟨12, 1⟩, .top), (⟨8, 3⟩, .p2)],
    complete := true, turns := 2, shuffles := 1, p1Points := (some 16), p2Points := (some 0) }

def vj2 : View :=
  { hand := [⟨8, 0⟩, ⟨8, 1⟩, ⟨8, 2⟩, ⟨8, 3⟩, ⟨3, 3⟩, ⟨4, 3⟩, ⟨5, 3⟩, ⟨12, 1⟩], points := 0, topOfDiscard := none, lastFromDiscard := (some false), deckLength := 2,
    hud := [(⟨6, 2⟩, .opponent), (⟨7, 2⟩, .opponent), (⟨10, 0⟩, .opponent), (⟨10, 1⟩, .opponent), (⟨2, 1⟩, .opponent), (⟨10, 2⟩, .opponent), (⟨14, 0⟩, .opponent), (⟨8, 0⟩, .user), (⟨8, 1⟩, .user), (⟨8, 2⟩, .user), (⟨3, 3⟩, .user), (⟨4, 3⟩, .user), (⟨12, 1⟩, .user), (⟨8, 3⟩, .user), (⟨5, 3⟩, .user)],
    action := .discard, drawnCard := (some ⟨5, 3⟩) }

def vj0 : View :=
  { hand := [⟨10, 0⟩, ⟨10, 1⟩, ⟨10, 2⟩, ⟨14, 0⟩, ⟨2, 1⟩, ⟨5, 3⟩, ⟨6, 2⟩, ⟨7, 2⟩], points := 14, topOfDiscard := (some ⟨13, 0⟩), lastFromDiscard := none, deckLength := 0,
    hud := [(⟨6, 2⟩, .user), (⟨7, 2⟩, .user), (⟨10, 0⟩, .user), (⟨10, 1⟩, .user), (⟨5, 3⟩, .user), (⟨2, 1⟩, .user), (⟨10, 2⟩, .user), (⟨14, 0⟩, .user), (⟨8, 0⟩, .opponent), (⟨8, 1⟩, .opponent), (⟨8, 2⟩, .opponent), (⟨3, 3⟩, .opponent), (⟨4, 3⟩, .opponent), (⟨12, 1⟩, .opponent), (⟨8, 3⟩, .opponent)],
    action := .discard, drawnCard := none }

theorem dealH : DealH j0 where
  fresh := ⟨Params.ricky none, j0.deck, j0.discard, j0.p1, j0.p2, .p1Discards, j0.hud, rfl⟩
  variant := .inr rfl
  observable := rfl
  knock_rummy := fun h => by revert h; decide
  p1_len := by decide
  p2_len := by decide
  nodup := by decide +kernel
  stock := fun h => by revert h; decide
  stock_le := by decide
  hud_keys := by decide +kernel
  hud_sound := hudSound_of_check j0 (by decide +kernel)

theorem a1 : j0.apply sh (.discard ⟨5, 3⟩) = .ok j1 := by decide +kernel
theorem a2 : j1.apply sh (.draw false) = .ok j2 := by decide +kernel
theorem a3 : j2.apply sh (.discard ⟨12, 1⟩) = .ok j3 := by decide +kernel
theorem r1 : Reach sh j0 j1 := .step (.discard ⟨5, 3⟩) .init rfl a1
theorem r2 : Reach sh j0 j2 := .step (.draw false) r1 rfl a2
theorem r3 : Reach sh j0 j3 := .step (.discard ⟨12, 1⟩) r2 rfl a3

/-- public at the restart: what the map says, i.e. both hands -/
def ps2 : PState :=
  ⟨j2, [⟨6, 2⟩, ⟨7, 2⟩, ⟨10, 0⟩, ⟨10, 1⟩, ⟨2, 1⟩, ⟨10, 2⟩, ⟨14, 0⟩],
       [⟨8, 0⟩, ⟨8, 1⟩, ⟨8, 2⟩, ⟨3, 3⟩, ⟨4, 3⟩, ⟨12, 1⟩, ⟨8, 3⟩]⟩
theorem pr0 : PReachH sh j0 ⟨j0, j0.p1, j0.p2⟩ := .init
theorem pr1 : PReachH sh j0 ⟨j1, j1.p1, j1.p2⟩ := .step (.discard ⟨5, 3⟩) pr0 rfl a1
theorem pr2 : PReachH sh j0 ps2 := .step (.draw false) pr1 rfl a2

theorem hvj0 : j0.view true = .ok vj0 := by decide +kernel
theorem hvj2 : j2.view false = .ok vj2 := by decide +kernel

/-! ### C09b -/
theorem partition_from_inst : j2.allCards.Perm j0.allCards ∧ j2.allCards.Nodup :=
  C09.partition_from sh sh_perm dealH r2
theorem hand_sizes_from_inst : HandSizes j0 j2 := C09.hand_sizes_from sh sh_perm dealH r2 rfl
/-- restored with an EMPTY stock (player 1 to discard): after his discard the stock is there again -/
theorem stock_available_from_inst : j1.params.endCardsInDeck < j1.deck.length :=
  C09.stock_available_from sh sh_perm dealH r1 rfl ⟨rfl, rfl⟩
example : j0.deck.length = 0 ∧ j1.deck.length = 3 := by decide
theorem stock_floor_from_inst : j0.params.endCardsInDeck ≤ j0.deck.length :=
  C09.stock_floor_from sh sh_perm dealH .init rfl
theorem first_turn_from_inst : j2.firstTurn = j0.turn ∧ (j2.turn.isFirstDraw = true → j0.turn.isFirstDraw = true) :=
  C09.first_turn_from sh sh_perm dealH r2

/-! ### C10b -/
theorem accept_iff_allowed_from_inst :
    (∃ g', j1.apply sh (.draw true) = .ok g') ↔ Allowed j1 (.draw true) :=
  C10.accept_iff_allowed_from sh sh_perm dealH r1 rfl _
/-- nothing to take from the empty pile -/
theorem reject_take_from_inst : ¬ ∃ g', j1.apply sh (.draw true) = .ok g' := fun h =>
  (accept_iff_allowed_from_inst.1 h).2 rfl
theorem draw_next_from_inst : j2.complete = false ∧ j2.turn = ownDiscards j1.turn.owner :=
  C10.draw_next_from sh sh_perm dealH r1 rfl false a2
theorem discard_next_ricky_from_inst : j1.turn = oppDraws j0.turn.owner :=
  C10.discard_next_ricky_from sh sh_perm dealH .init rfl rfl ⟨5, 3⟩ a1
theorem pass_never_from_inst : ∀ g', j1.firstTurnPass ≠ .ok g' :=
  C10.pass_never_from sh sh_perm dealH rfl r1

/-! ### C11b -/
/-- the first move after the restart reshuffles … -/
theorem discard_end_from_reshuffle_inst : DiscardEnd j0 j1 ⟨5, 3⟩ :=
  C11.discard_end_from sh sh_perm dealH .init rfl ⟨5, 3⟩ a1
/-- … the third is gin -/
theorem discard_end_from_gin_inst : DiscardEnd j2 j3 ⟨12, 1⟩ := C11.discard_end_from sh sh_perm dealH r2 rfl ⟨12, 1⟩ a3
theorem winner_zero_from_inst : WinnerZero j3 := C11.winner_zero_from sh sh_perm dealH r3 rfl
example : (j3.p1Points, j3.p2Points) = (some 16, some 0) := rfl
theorem counters_from_inst :
    j0.complete = false ∧ j0.turns = 0 ∧ j0.shuffles = 0 ∧ j0.p1Points = none ∧ j0.p2Points = none :=
  C11.counters_from dealH

/-! ### C17b -/
theorem hud_sound_from_inst : HudSound j1 := C17.hud_sound_from sh sh_perm dealH r1
theorem hud_no_stock_card_from_inst : ∀ e ∈ j1.hud, e.1 ∉ j1.deck := C17.hud_no_stock_card_from sh sh_perm dealH r1
theorem hud_secrecy_from_inst : Secrecy ps2 := C17.hud_secrecy_from sh sh_perm dealH pr2
theorem view_hud_from_inst : ViewHud j2 true := C17.view_hud_from sh sh_perm dealH r2 true
/-- restored on a discard turn there is no drawn card to show … -/
theorem view_content_from_restart_inst : ViewContent j0 true vj0 :=
  C17.view_content_from sh sh_perm dealH .init rfl true vj0 hvj0
/-- … two moves later there is -/
theorem view_content_from_inst : ViewContent j2 false vj2 := C17.view_content_from sh sh_perm dealH r2 rfl false vj2 hvj2
theorem wait_iff_off_turn_from_inst : WaitIffOffTurn j1 := C17.wait_iff_off_turn_from sh sh_perm dealH r1 rfl
theorem hud_keys_nodup_from_inst : (j2.hud.map (·.1)).Nodup := C17.hud_keys_nodup_from sh dealH r2

end RickyH

/-! ## the two endings at the wall: a declined knock on the end-size stock, a discard at the turn limit -/
namespace RummyW
open Rummy (stock0)

/-- the `Rummy` game at the knock decision, but with the stock down to its end size of two cards -/
def w0 : GState :=
  { params := Params.rummy (some 40), deck := [⟨3, 0⟩, ⟨3, 1⟩],
    discard := [⟨13, 2⟩, ⟨13, 1⟩, ⟨12, 3⟩],
    p1 := [⟨5, 0⟩, ⟨6, 0⟩, ⟨7, 0⟩, ⟨9, 1⟩, ⟨9, 2⟩, ⟨9, 3⟩, ⟨2, 2⟩, ⟨2, 1⟩, ⟨14, 3⟩, ⟨2, 3⟩],
    p2 := [⟨8, 0⟩, ⟨9, 0⟩, ⟨4, 1⟩, ⟨4, 2⟩, ⟨4, 3⟩, ⟨11, 1⟩, ⟨11, 2⟩, ⟨7, 1⟩, ⟨14, 2⟩, ⟨11, 3⟩],
    turn := .p1MayKnock, firstTurn := .p1MayKnock, lastDraw := none, lastFromDiscard := none,
    hud := [(⟨13, 2⟩, .disc), (⟨13, 1⟩, .disc), (⟨2, 3⟩, .p1), (⟨12, 3⟩, .top)],
    complete := false, turns := 0, shuffles := 0, p1Points := none, p2Points := none }
/-- the knock declined at the wall: over, 0–0 -/
def w1 : GState := { w0 with complete := true, shuffles := 1, p1Points := some 0, p2Points := some 0 }

theorem dealH : DealH w0 where
  fresh := ⟨w0.params, w0.deck, w0.discard, w0.p1, w0.p2, .p1MayKnock, w0.hud, rfl⟩
  variant := .inl rfl
  observable := rfl
  knock_rummy := fun _ => rfl
  p1_len := by decide
  p2_len := by decide
  nodup := by decide +kernel
  stock := fun _ h => by revert h; decide
  stock_le := by decide
  hud_keys := by decide
  hud_sound := hudSound_of_check w0 (by decide)

theorem a1 : w0.apply sh (.knock false none) = .ok w1 := by decide +kernel
theorem r1 : Reach sh w0 w1 := .step (.knock false none) .init rfl a1

/-- `decline_end`, the direction "at the wall the game ends" -/
theorem decline_end_wall_inst : DeclineEnd w0 w1 := C11.decline_end sh w0 w1 none a1 rfl
theorem wall : w1.complete = true ∧ (w1.p1Points, w1.p2Points) = (some 0, some 0) :=
  ⟨decline_end_wall_inst.1.2 ⟨rfl, 1, rfl, by decide⟩, decline_end_wall_inst.2 rfl⟩
theorem knock_frame_wall_inst : KnockFrame w0 w1 := C09.knock_frame sh sh_perm w0 w1 false none a1
theorem winner_zero_from_wall_inst : WinnerZero w1 := C11.winner_zero_from sh sh_perm dealH r1 rfl

/-- the `RummyH` game on player 1's discard turn with a turn limit of one -/
def t0 : GState := { RummyH.h1 with params := Params.rummy (some 1), firstTurn := .p1Discards, lastDraw := none,
                                    lastFromDiscard := none }
/-- the discard reaches the limit: over, 0–0, although a knock would have been on offer -/
def t1 : GState := { RummyH.h2 with params := Params.rummy (some 1), firstTurn := .p1Discards, lastDraw := none,
                                    lastFromDiscard := none, complete := true, p1Points := some 0, p2Points := some 0 }

theorem dealT : DealH t0 where
  fresh := ⟨t0.params, t0.deck, t0.discard, t0.p1, t0.p2, .p1Discards, t0.hud, rfl⟩
  variant := .inl rfl
  observable := rfl
  knock_rummy := fun _ => rfl
  p1_len := by decide
  p2_len := by decide
  nodup := by decide +kernel
  stock := fun h => by revert h; decide
  stock_le := by decide
  hud_keys := by decide
  hud_sound := hudSound_of_check t0 (by decide)

theorem b1 : t0.apply sh (.discard ⟨12, 3⟩) = .ok t1 := by decide +kernel
theorem discard_end_from_limit_inst : DiscardEnd t0 t1 ⟨12, 3⟩ :=
  C11.discard_end_from sh sh_perm dealT .init rfl ⟨12, 3⟩ b1
theorem winner_zero_from_limit_inst : WinnerZero t1 :=
  C11.winner_zero_from sh sh_perm dealT (.step (.discard ⟨12, 3⟩) .init rfl b1) rfl

end RummyW

/-! ## the example deal of `C17b.lean` (`exDeal`) at one more turn and with a two-entry map -/
namespace ExDeal

/-- player 2 holds eight cards and has to discard: 7 + 8 + 1 + 36 -/
theorem exDeal_nodup_inst :
    (deckCards.drop (7 + 8 + 1) ++ (deckCards.drop (7 + 8)).take 1 ++ deckCards.take 7 ++
      (deckCards.drop 7).take 8).Nodup :=
  C17.exDeal_nodup .p2Discards

/-- the map names the up-card and one card of player 2's hand -/
def hud0 : List (Card × Hud) := [(⟨5, 3⟩, .top), (⟨5, 2⟩, .p2)]

theorem exDeal_dealH_inst : ∃ g0, C17.exDeal .p2Discards hud0 = .ok g0 ∧ g0.p2.length = 8 ∧ DealH g0 :=
  ⟨_, rfl, rfl, C17.exDeal_dealH (turn := .p2Discards) (hud0 := hud0) rfl rfl rfl (by decide)
    (hudSound_of_check _ (by decide +kernel))⟩

end ExDeal

/-! ## axioms -/
#print axioms Rummy.partition_inst
#print axioms Rummy.partition_end_inst
#print axioms Rummy.hand_sizes_inst
#print axioms Rummy.hand_sizes_p2_inst
#print axioms Rummy.stock_available_inst
#print axioms Rummy.stock_available_decl_inst
#print axioms Rummy.draw_discard_frame_inst
#print axioms Rummy.draw_stock_frame_inst
#print axioms Rummy.discard_frame_inst
#print axioms Rummy.knock_frame_inst
#print axioms Rummy.knock_frame_decl_inst
#print axioms Rummy.accept_iff_allowed_inst
#print axioms Rummy.accept_stock_draw_inst
#print axioms Rummy.reject_pass_inst
#print axioms Rummy.knock_allowed_inst
#print axioms Rummy.reject_bad_meld_inst
#print axioms Rummy.pass_next_first_inst
#print axioms Rummy.pass_next_second_inst
#print axioms Rummy.draw_next_inst
#print axioms Rummy.draw_next_stock_inst
#print axioms Rummy.discard_next_rummy_inst
#print axioms Rummy.discard_next_rummy_no_offer_inst
#print axioms Rummy.decline_next_inst
#print axioms Rummy.pass_draw_never_end_inst
#print axioms Rummy.pass_draw_never_end_draw_inst
#print axioms Rummy.discard_end_inst
#print axioms Rummy.discard_end_no_offer_inst
#print axioms Rummy.knock_end_inst
#print axioms Rummy.decline_end_inst
#print axioms Rummy.winner_zero_inst
#print axioms Rummy.hud_sound_inst
#print axioms Rummy.hud_no_stock_card_inst
#print axioms Rummy.hud_secrecy_inst
#print axioms Rummy.view_hud_inst
#print axioms Rummy.view_hud_own_inst
#print axioms Rummy.view_content_inst
#print axioms Rummy.view_content_opp_inst
#print axioms Rummy.view_content_knock_inst
#print axioms Rummy.wait_iff_off_turn_inst
#print axioms Rummy.deal_is_dealH_inst
#print axioms Rummy.preach_is_preachH_inst
#print axioms Ricky.partition_inst
#print axioms Ricky.hand_sizes_inst
#print axioms Ricky.stock_available_inst
#print axioms Ricky.draw_discard_frame_inst
#print axioms Ricky.draw_stock_frame_inst
#print axioms Ricky.discard_frame_inst
#print axioms Ricky.reject_take_inst
#print axioms Ricky.accept_iff_allowed_inst
#print axioms Ricky.reject_knock_inst
#print axioms Ricky.draw_next_inst
#print axioms Ricky.discard_next_ricky_inst
#print axioms Ricky.discard_next_ricky_reshuffle_inst
#print axioms Ricky.pass_draw_never_end_inst
#print axioms Ricky.discard_end_reshuffle_inst
#print axioms Ricky.discard_end_gin_inst
#print axioms Ricky.winner_zero_inst
#print axioms Ricky.hud_sound_inst
#print axioms Ricky.hud_no_stock_card_inst
#print axioms Ricky.hud_secrecy_inst
#print axioms Ricky.view_hud_inst
#print axioms Ricky.view_content_inst
#print axioms Ricky.view_content_reshuffled_inst
#print axioms Ricky.view_content_drawn_inst
#print axioms Ricky.wait_iff_off_turn_inst
#print axioms RummyH.partition_from_inst
#print axioms RummyH.hand_sizes_from_inst
#print axioms RummyH.stock_available_from_inst
#print axioms RummyH.stock_floor_from_inst
#print axioms RummyH.first_turn_from_inst
#print axioms RummyH.accept_iff_allowed_from_inst
#print axioms RummyH.accept_take_from_inst
#print axioms RummyH.reject_discard_from_inst
#print axioms RummyH.draw_next_from_inst
#print axioms RummyH.discard_next_rummy_from_inst
#print axioms RummyH.decline_next_from_inst
#print axioms RummyH.pass_never_from_inst
#print axioms RummyH.discard_end_from_inst
#print axioms RummyH.winner_zero_from_inst
#print axioms RummyH.counters_from_inst
#print axioms RummyH.knock_end_inst
#print axioms RummyH.decline_end_inst
#print axioms RummyH.hud_sound_from_inst
#print axioms RummyH.hud_no_stock_card_from_inst
#print axioms RummyH.hud_secrecy_from_inst
#print axioms RummyH.view_hud_from_inst
#print axioms RummyH.view_content_from_inst
#print axioms RummyH.wait_iff_off_turn_from_inst
#print axioms RummyH.hud_keys_nodup_from_inst
#print axioms RummyO.pass_next_from_first_inst
#print axioms RummyO.pass_next_from_second_inst
#print axioms RummyO.first_turn_from_inst
#print axioms RummyO.hand_sizes_from_inst
#print axioms RummyO.pass_draw_never_end_inst
#print axioms RickyH.partition_from_inst
#print axioms RickyH.hand_sizes_from_inst
#print axioms RickyH.stock_available_from_inst
#print axioms RickyH.stock_floor_from_inst
#print axioms RickyH.first_turn_from_inst
#print axioms RickyH.accept_iff_allowed_from_inst
#print axioms RickyH.reject_take_from_inst
#print axioms RickyH.draw_next_from_inst
#print axioms RickyH.discard_next_ricky_from_inst
#print axioms RickyH.pass_never_from_inst
#print axioms RickyH.discard_end_from_reshuffle_inst
#print axioms RickyH.discard_end_from_gin_inst
#print axioms RickyH.winner_zero_from_inst
#print axioms RickyH.counters_from_inst
#print axioms RickyH.hud_sound_from_inst
#print axioms RickyH.hud_no_stock_card_from_inst
#print axioms RickyH.hud_secrecy_from_inst
#print axioms RickyH.view_hud_from_inst
#print axioms RickyH.view_content_from_restart_inst
#print axioms RickyH.view_content_from_inst
#print axioms RickyH.wait_iff_off_turn_from_inst
#print axioms RickyH.hud_keys_nodup_from_inst
#print axioms RummyW.decline_end_wall_inst
#print axioms RummyW.knock_frame_wall_inst
#print axioms RummyW.winner_zero_from_wall_inst
#print axioms RummyW.discard_end_from_limit_inst
#print axioms RummyW.winner_zero_from_limit_inst
#print axioms ExDeal.exDeal_nodup_inst
#print axioms ExDeal.exDeal_dealH_inst

end CardVerif.Witness.GinGame
