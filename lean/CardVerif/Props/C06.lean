import CardModel.Spec.Strength
import CardModel.Model.Omaha
import CardVerif.Props.C05
import CardVerif.Proofs.Strength
/-!
# C06 — Omaha / Hold'em strength = best legal five-card hand

Easy half (structural, no enumeration): the brute-force Omaha evaluator and the Hold'em evaluator return the
largest rule key among the 60 resp. 21 legal five-card hands.  `omahaHands_spec` / `holdemHands_spec` pin down that
the hands compared are exactly "two hole cards + three board cards" resp. "any five of the seven".
-/
namespace CardVerif.C06
open CardVerif CardVerif.Strength CardVerif.Poker5

/-- a deal: five board cards, `k` hole cards, all distinct standard cards -/
structure DealOK (board hand : List Card) (k : Nat) : Prop where
  board_len : board.length = 5
  hand_len : hand.length = k
  nodup : (board ++ hand).Nodup
  valid : ∀ c ∈ board ++ hand, c.Valid

/-- the key returned by `bestKey` is attained and dominates every hand's key -/
theorem bestKey_max (hands : List (List Card)) (hne : hands ≠ []) :
    (∃ h ∈ hands, specKey h = bestKey hands) ∧ ∀ h ∈ hands, lexLt (bestKey hands) (specKey h) = false := by
  exact ⟨bestKey_mem hands hne, fun h hm => bestKey_ge hands h hm⟩

/-- the Omaha hands compared are exactly: three board cards (a sublist of the board) followed by two hole cards -/
theorem omahaHands_spec (board hand h : List Card) :
    h ∈ omahaHands board hand ↔
      ∃ b c, b.Sublist board ∧ b.length = 3 ∧ c.Sublist hand ∧ c.length = 2 ∧ h = b ++ c := by
  unfold omahaHands
  simp only [List.mem_flatMap, List.mem_map, mem_combinations']
  constructor
  · rintro ⟨b, ⟨hb, hbl⟩, c, ⟨hc, hcl⟩, rfl⟩
    exact ⟨b, c, hb, hbl, hc, hcl, rfl⟩
  · rintro ⟨b, c, hb, hbl, hc, hcl, rfl⟩
    exact ⟨b, ⟨hb, hbl⟩, c, ⟨hc, hcl⟩, rfl⟩

theorem omahaHands_count (board hand : List Card) (hb : board.length = 5) (hh : hand.length = 4) :
    (omahaHands board hand).length = 60 := by
  unfold omahaHands
  rw [length_flatMap_map, length_combinations, length_combinations, hb, hh]
  rfl

/-- the Hold'em hands compared are exactly the five-card sublists of board ++ hole cards; there are 21 -/
theorem holdemHands_spec (board hand h : List Card) :
    h ∈ combinations 5 (board ++ hand) ↔ h.Sublist (board ++ hand) ∧ h.length = 5 := by
  exact mem_combinations'

theorem holdemHands_count (board hand : List Card) (hb : board.length = 5) (hh : hand.length = 2) :
    (combinations 5 (board ++ hand)).length = 21 := by
  rw [length_combinations, List.length_append, hb, hh]
  rfl

/-- brute-force Omaha = the rules -/
theorem omaha_brute_eq_spec (board hand : List Card) (hd : DealOK board hand 4) :
    Eval.omahaBrute board hand = .ok (omahaSpec board hand) := by
  unfold Eval.omahaBrute omahaSpec
  have hne : omahaHands board hand ≠ [] := by
    intro h0
    have := omahaHands_count board hand hd.board_len hd.hand_len
    rw [h0] at this
    cases this
  refine bestRank_eq_bestKey (omahaHands board hand) hne ?_
  intro h hm
  obtain ⟨b, c, hb, hbl, hc, hcl, rfl⟩ := (omahaHands_spec board hand _).1 hm
  have hsub : (b ++ c).Sublist (board ++ hand) := hb.append hc
  exact ⟨by rw [List.length_append, hbl, hcl], hd.nodup.sublist hsub,
    fun x hx => hd.valid x (hsub.subset hx)⟩

/-- Hold'em strength = the rules -/
theorem holdem_eq_spec (board hand : List Card) (hd : DealOK board hand 2) :
    Eval.holdemStrength board hand = .ok (holdemSpec board hand) := by
  unfold Eval.holdemStrength
  rw [if_neg (by simp [hd.board_len]), if_neg (by simp [hd.hand_len])]
  unfold Eval.holdemBrute holdemSpec
  have hne : combinations 5 (board ++ hand) ≠ [] := by
    intro h0
    have := holdemHands_count board hand hd.board_len hd.hand_len
    rw [h0] at this
    cases this
  refine bestRank_eq_bestKey _ hne ?_
  intro h hm
  obtain ⟨hsub, hl⟩ := (holdemHands_spec board hand h).1 hm
  exact ⟨hl, hd.nodup.sublist hsub, fun x hx => hd.valid x (hsub.subset hx)⟩

/-- wrong sizes are rejected -/
theorem holdem_bad_sizes (board hand : List Card) (h : board.length ≠ 5 ∨ hand.length ≠ 2) :
    Eval.holdemStrength board hand = .error .badLength := by
  unfold Eval.holdemStrength
  by_cases hb : board.length = 5
  · have hh : hand.length ≠ 2 := by
      rcases h with h | h
      · exact absurd hb h
      · exact h
    rw [if_neg (by simp [hb]), if_pos (by simpa using hh)]
  · rw [if_pos (by simpa using hb)]

theorem omaha_fast_bad_sizes (board hand : List Card) (h : board.length ≠ 5 ∨ hand.length ≠ 4) :
    Omaha.handStrengthFast board hand = .error .badLength := by
  unfold Omaha.handStrengthFast
  by_cases hb : board.length = 5
  · have hh : hand.length ≠ 4 := by
      rcases h with h | h
      · exact absurd hb h
      · exact h
    rw [if_neg (by simp [hb]), if_pos (by simpa using hh)]
    rfl
  · rw [if_pos (by simpa using hb)]
    rfl

end CardVerif.C06
