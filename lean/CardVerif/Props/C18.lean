import CardModel.Spec.Symmetry
import CardModel.Spec.Strength
import CardModel.Model.Misc
import CardVerif.Props.C06
import CardVerif.Proofs.SymPoker
/-!
# C18 (part a) — poker evaluations are invariant under card order and suit relabelling; equity shares

`Image σ l l'` : `l'` is `l` with suits relabelled by the bijection `σ`, in any order.
The optimised Omaha evaluator is not covered here (its equality with the brute-force evaluator is not proved, see
C06); for it the symmetry is checked by the correspondence only.
-/
namespace CardVerif.C18
open CardVerif CardVerif.Sym CardVerif.Strength CardVerif.Misc

theorem rank5_sym (σ : Nat → Nat) (hσ : SuitPerm σ) (h h' : List Card) (hv : ∀ c ∈ h, c.suit < 4) (hi : Image σ h h') :
    Rank5.rank5 h' = Rank5.rank5 h := by
  exact rank5_image hσ hv hi

theorem specKey_sym (σ : Nat → Nat) (hσ : SuitPerm σ) (h h' : List Card) (hv : ∀ c ∈ h, c.suit < 4) (hi : Image σ h h') :
    Poker5.specKey h' = Poker5.specKey h := by
  exact specKey_image hσ hv hi

/-- Omaha strength by the rules (hence the brute-force evaluator on legal deals) -/
theorem omahaSpec_sym (σ : Nat → Nat) (hσ : SuitPerm σ) (b b' h h' : List Card)
    (hv : ∀ c ∈ b ++ h, c.suit < 4) (hb : Image σ b b') (hh : Image σ h h') :
    omahaSpec b' h' = omahaSpec b h := by
  exact omahaSpec_image hσ hv hb hh

theorem omaha_brute_sym (σ : Nat → Nat) (hσ : SuitPerm σ) (b b' h h' : List Card) (hd : C06.DealOK b h 4)
    (hb : Image σ b b') (hh : Image σ h h') : Eval.omahaBrute b' h' = Eval.omahaBrute b h := by
  rw [C06.omaha_brute_eq_spec b' h' (dealOK_image hσ hd hb hh), C06.omaha_brute_eq_spec b h hd,
    omahaSpec_image hσ (dealOK_suits hd) hb hh]

/-- Hold'em strength -/
theorem holdem_sym (σ : Nat → Nat) (hσ : SuitPerm σ) (b b' h h' : List Card) (hd : C06.DealOK b h 2)
    (hb : Image σ b b') (hh : Image σ h h') : Eval.holdemStrength b' h' = Eval.holdemStrength b h := by
  rw [C06.holdem_eq_spec b' h' (dealOK_image hσ hd hb hh), C06.holdem_eq_spec b h hd,
    holdemSpec_image hσ (dealOK_suits hd) hb hh]

/-- showdown tiers depend on the hands only through their strengths: equal strengths, equal tiers -/
theorem tiers_sym (f g : List Card → List Card → Except Err (List Nat)) (b b' : List Card) (hs hs' : List (List Card))
    (hlen : hs.length = hs'.length)
    (heq : ∀ i, i < hs.length → ∀ x y, hs[i]? = some x → hs'[i]? = some y → g b' y = f b x) :
    Eval.bestHandsGeneric g b' hs' = Eval.bestHandsGeneric f b hs := by
  unfold Eval.bestHandsGeneric
  rw [mapM_congr_index (f b) (g b') hs hs' hlen heq]

set_option linter.unusedVariables false in -- `hnd` is not needed by the proof
/-- Hutchinson point count -/
theorem hutchinson_sym (σ : Nat → Nat) (hσ : SuitPerm σ) (h h' : List Card) (hv : ∀ c ∈ h, c.suit < 4)
    (hnd : h.Nodup) (hi : Image σ h h') : hiPointCount h' = hiPointCount h := by
  exact hiPointCount_image hσ hv hi

/-- all-in equity shares are non-negative and sum to one (exact arithmetic, every list of sampled run-outs) -/
theorem equity_shares (tiersOf : List Card → List (List Card) → Except Err (List (List Nat))) (board : List Card)
    (hands : List (List Card)) (samples : List (List Card)) (hne : samples ≠ []) (shares : List Rat)
    (htiers : ∀ s ∈ samples, ∀ t, tiersOf (board ++ s) hands = .ok t →
        ∃ t0 rest, t = t0 :: rest ∧ t0 ≠ [] ∧ t0.Nodup ∧ ∀ p ∈ t0, p < hands.length)
    (h : simulateEquity tiersOf board hands samples = .ok shares) :
    shares.length = hands.length ∧ (∀ x ∈ shares, 0 ≤ x) ∧ sumQ shares = 1 := by
  exact equity_shares_aux tiersOf board hands samples hne shares htiers h

end CardVerif.C18
