import CardModel.Model.Pot
import CardModel.Spec.SidePot
import CardVerif.Proofs.Rake
import CardVerif.Proofs.Float53
/-!
# C14 — rake is bounded, order-preserving, and never breaks settlement

Statements about the model `Pot.rakePerPlayer` (transcription of `Pot.get_rake_per_player`).
`fl` is the rounding applied after each float operation.  Two groups:

* for **every** rounding `fl` that is monotone and fixes integers (`FlSpec`) – in particular for exact
  arithmetic – and, more generally, for every rounding that is monotone and fixes the integers up to a bound `B`
  that the contributions do not exceed (`FlSpecB`) – in particular for IEEE doubles (`Float53.rnd`, `B = 2^53`:
  `flSpecB_f53`, `rake_le_contribution_f53`, `order_preserved_f53`);
* for **exact** arithmetic (`fl = id`) the remaining inequalities (non-negativity, monotonicity, caps).
-/
namespace CardVerif.C14
open CardVerif CardVerif.Pot

/-- what the per-seat theorems need from the rounding function -/
structure FlSpec (fl : Rat → Rat) : Prop where
  mono : ∀ a b : Rat, a ≤ b → fl a ≤ fl b
  fixInt : ∀ z : Int, fl (z : Rat) = (z : Rat)

theorem flSpec_id : FlSpec id := ⟨fun _ _ h => h, fun _ => rfl⟩

/-- no flop, no drop: an unraked pot pays no rake -/
theorem rake_not_raked (fl : Rat → Rat) (cfg : RakeCfg) (bal : List Int) :
    rakePerPlayer fl cfg bal false = bal.map fun _ => 0 := by
  exact rakePerPlayer_false fl cfg bal

theorem rake_length (fl : Rat → Rat) (cfg : RakeCfg) (bal : List Int) (rp : Bool) :
    (rakePerPlayer fl cfg bal rp).length = bal.length := by
  exact length_rakePerPlayer fl cfg bal rp

/-- equal contributions pay equal rake (any rounding whatsoever) -/
theorem rake_equal (fl : Rat → Rat) (cfg : RakeCfg) (bal : List Int) (rp : Bool) (p q : Nat)
    (hp : p < bal.length) (hq : q < bal.length) (h : getI bal p = getI bal q) :
    getI (rakePerPlayer fl cfg bal rp) p = getI (rakePerPlayer fl cfg bal rp) q := by
  exact (eqInv_rakePerPlayer fl cfg bal rp).2 p q hp hq h

/-- nobody pays more rake than he contributed -/
theorem rake_le_contribution {fl : Rat → Rat} (hfl : FlSpec fl) (cfg : RakeCfg) (bal : List Int) (rp : Bool)
    (hf0 : 0 ≤ cfg.f) (hf1 : cfg.f ≤ 1) (hbal : ∀ b ∈ bal, 0 ≤ b) (p : Nat) (hp : p < bal.length) :
    getI (rakePerPlayer fl cfg bal rp) p ≤ getI bal p := by
  exact le_contribution hfl.mono hfl.fixInt cfg hf0 hf1 bal hbal rp p hp

/-- after rake, a player who put in more never has less at stake than one who put in less -/
theorem order_preserved {fl : Rat → Rat} (hfl : FlSpec fl) (cfg : RakeCfg) (bal : List Int) (rp : Bool)
    (hf0 : 0 ≤ cfg.f) (hf1 : cfg.f ≤ 1) (hbal : ∀ b ∈ bal, 0 ≤ b) (p q : Nat)
    (hp : p < bal.length) (hq : q < bal.length) (h : getI bal p ≤ getI bal q) :
    getI bal p - getI (rakePerPlayer fl cfg bal rp) p ≤ getI bal q - getI (rakePerPlayer fl cfg bal rp) q := by
  have := order_kept hfl.mono hfl.fixInt cfg hf0 hf1 bal hbal rp p q hp hq h
  omega

/-! ### rounding that is exact only up to a bound (IEEE doubles) -/

/-- rounding that is monotone and exact on integers up to `B` in absolute value -/
structure FlSpecB (B : Int) (fl : Rat → Rat) : Prop where
  mono : ∀ a b : Rat, a ≤ b → fl a ≤ fl b
  fixInt : ∀ z : Int, |z| ≤ B → fl (z : Rat) = (z : Rat)

theorem FlSpec.toB {fl : Rat → Rat} (h : FlSpec fl) (B : Int) : FlSpecB B fl :=
  ⟨h.mono, fun z _ => h.fixInt z⟩

theorem FlSpecB.anti {fl : Rat → Rat} {B B' : Int} (h : FlSpecB B fl) (hB : B' ≤ B) : FlSpecB B' fl :=
  ⟨h.mono, fun z hz => h.fixInt z (Int.le_trans hz hB)⟩

/-- nobody pays more rake than he contributed (contributions at most `B`) -/
theorem rake_le_contribution_B {fl : Rat → Rat} {B : Int} (hfl : FlSpecB B fl) (cfg : RakeCfg) (bal : List Int)
    (rp : Bool) (hf0 : 0 ≤ cfg.f) (hf1 : cfg.f ≤ 1) (hbal : ∀ b ∈ bal, 0 ≤ b) (hB : ∀ b ∈ bal, b ≤ B) (p : Nat)
    (hp : p < bal.length) :
    getI (rakePerPlayer fl cfg bal rp) p ≤ getI bal p := by
  exact le_contribution_B hfl.mono hfl.fixInt cfg hf0 hf1 bal hbal hB rp p hp

/-- after rake, a player who put in more never has less at stake than one who put in less (contributions at most `B`) -/
theorem order_preserved_B {fl : Rat → Rat} {B : Int} (hfl : FlSpecB B fl) (cfg : RakeCfg) (bal : List Int) (rp : Bool)
    (hf0 : 0 ≤ cfg.f) (hf1 : cfg.f ≤ 1) (hbal : ∀ b ∈ bal, 0 ≤ b) (hB : ∀ b ∈ bal, b ≤ B) (p q : Nat)
    (hp : p < bal.length) (hq : q < bal.length) (h : getI bal p ≤ getI bal q) :
    getI bal p - getI (rakePerPlayer fl cfg bal rp) p ≤ getI bal q - getI (rakePerPlayer fl cfg bal rp) q := by
  have := order_kept_B hfl.mono hfl.fixInt cfg hf0 hf1 bal hbal hB rp p q hp hq h
  omega

/-- **IEEE-754 binary64 rounding** (53-bit significand, ties to even) is monotone and exact on `|z| ≤ 2^53` -/
theorem flSpecB_f53 : FlSpecB (2 ^ 53) Float53.rnd := ⟨Float53.rnd_mono, Float53.rnd_int⟩

theorem rake_le_contribution_f53 (cfg : RakeCfg) (bal : List Int) (rp : Bool)
    (hf0 : 0 ≤ cfg.f) (hf1 : cfg.f ≤ 1) (hbal : ∀ b ∈ bal, 0 ≤ b) (hB : ∀ b ∈ bal, b ≤ 2 ^ 53) (p : Nat)
    (hp : p < bal.length) :
    getI (rakePerPlayer Float53.rnd cfg bal rp) p ≤ getI bal p :=
  rake_le_contribution_B flSpecB_f53 cfg bal rp hf0 hf1 hbal hB p hp

theorem order_preserved_f53 (cfg : RakeCfg) (bal : List Int) (rp : Bool)
    (hf0 : 0 ≤ cfg.f) (hf1 : cfg.f ≤ 1) (hbal : ∀ b ∈ bal, 0 ≤ b) (hB : ∀ b ∈ bal, b ≤ 2 ^ 53) (p q : Nat)
    (hp : p < bal.length) (hq : q < bal.length) (h : getI bal p ≤ getI bal q) :
    getI bal p - getI (rakePerPlayer Float53.rnd cfg bal rp) p
      ≤ getI bal q - getI (rakePerPlayer Float53.rnd cfg bal rp) q :=
  order_preserved_B flSpecB_f53 cfg bal rp hf0 hf1 hbal hB p q hp hq h

/-! ### exact arithmetic -/

-- the hypothesis `hf1 : cfg.f ≤ 1` is part of the stated contract but is not needed by these four proofs
set_option linter.unusedVariables false

theorem rake_nonneg_exact (cfg : RakeCfg) (bal : List Int) (rp : Bool)
    (hf0 : 0 ≤ cfg.f) (hf1 : cfg.f ≤ 1) (hcap : 0 ≤ cfg.cap) (hbal : ∀ b ∈ bal, 0 ≤ b) (p : Nat) (hp : p < bal.length) :
    0 ≤ getI (rakePerPlayer id cfg bal rp) p := by
  exact (exInv_rakePerPlayer cfg bal rp hf0 hcap hbal).2.2.1 p hp

/-- a larger contribution never pays less -/
theorem rake_mono_exact (cfg : RakeCfg) (bal : List Int) (rp : Bool)
    (hf0 : 0 ≤ cfg.f) (hf1 : cfg.f ≤ 1) (hcap : 0 ≤ cfg.cap) (hbal : ∀ b ∈ bal, 0 ≤ b) (p q : Nat)
    (hp : p < bal.length) (hq : q < bal.length) (h : getI bal p ≤ getI bal q) :
    getI (rakePerPlayer id cfg bal rp) p ≤ getI (rakePerPlayer id cfg bal rp) q := by
  exact (exInv_rakePerPlayer cfg bal rp hf0 hcap hbal).2.2.2 p q hp hq h

/-- the total never exceeds the cap -/
theorem rake_total_le_cap_exact (cfg : RakeCfg) (bal : List Int) (rp : Bool)
    (hf0 : 0 ≤ cfg.f) (hf1 : cfg.f ≤ 1) (hcap : 0 ≤ cfg.cap) (hbal : ∀ b ∈ bal, 0 ≤ b) :
    sumI (rakePerPlayer id cfg bal rp) ≤ cfg.cap := by
  have h1 := (exInv_rakePerPlayer cfg bal rp hf0 hcap hbal).2.1
  have h2 := maxTotalRake_id_le_cap cfg bal
  exact_mod_cast le_trans h1 h2

/-- the total never exceeds the rake fraction of the pot -/
theorem rake_total_le_fraction_exact (cfg : RakeCfg) (bal : List Int) (rp : Bool)
    (hf0 : 0 ≤ cfg.f) (hf1 : cfg.f ≤ 1) (hcap : 0 ≤ cfg.cap) (hbal : ∀ b ∈ bal, 0 ≤ b) :
    ((sumI (rakePerPlayer id cfg bal rp) : Int) : Rat) ≤ cfg.f * ((sumI bal : Int) : Rat) := by
  have h1 := (exInv_rakePerPlayer cfg bal rp hf0 hcap hbal).2.1
  exact le_trans h1 (maxTotalRake_id_le_frac cfg bal)

/-- non-vacuity: a three-seat pot with two levels, rake 1/2, cap 3 -/
example : rakePerPlayer id ⟨1/2, 3⟩ [4, 4, 2] true = [1, 1, 1] := by decide +kernel

end CardVerif.C14
