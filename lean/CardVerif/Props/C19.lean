import CardModel.Spec.GinMeldRules
import CardVerif.Proofs.Ricky
/-!
# C19 — the gin ricky hand value follows the three-plus-four meld rule
-/
namespace CardVerif.C19
open CardVerif CardVerif.Gin

/-- a seven- or eight-card hand is worth zero exactly when it contains a three-card meld and a disjoint four-card meld -/
theorem ricky_zero_iff (hand : List Card) (hok : HandOK hand) (hlen : hand.length = 7 ∨ hand.length = 8) :
    handPoints hand = .ok 0 ↔
      ∃ m3 m4, RickyMeld 3 m3 ∧ RickyMeld 4 m4 ∧ (∀ c ∈ m3, c ∈ hand) ∧ (∀ c ∈ m4, c ∈ hand) ∧ (m3 ++ m4).Nodup := by
  have h7 : 7 ≤ hand.length := by omega
  constructor
  · intro hz
    by_contra hno
    obtain ⟨r, hr, hpos, -⟩ := sortedHandPoints_min hok h7 hno
    rw [handPoints_of_ok hr] at hz
    have : r.2 = 0 := by injection hz
    omega
  · intro h
    obtain ⟨a, b, -, -, -, -, -, hr⟩ := sortedHandPoints_found hok h7 h
    exact handPoints_of_ok hr

/-- otherwise: the smaller of the full value and the value left after setting aside any one meld -/
theorem ricky_value (hand : List Card) (hok : HandOK hand) (hlen : hand.length = 7 ∨ hand.length = 8)
    (hno : ¬ ∃ m3 m4, RickyMeld 3 m3 ∧ RickyMeld 4 m4 ∧ (∀ c ∈ m3, c ∈ hand) ∧ (∀ c ∈ m4, c ∈ hand) ∧ (m3 ++ m4).Nodup) :
    ∃ v, handPoints hand = .ok v ∧ v ≤ rickyVal hand.length hand ∧
      (∀ m, (RickyMeld 3 m ∨ RickyMeld 4 m) → (∀ c ∈ m, c ∈ hand) →
        v ≤ rickyVal hand.length (hand.filter fun c => !m.contains c)) ∧
      (v = rickyVal hand.length hand ∨
       ∃ m, (RickyMeld 3 m ∨ RickyMeld 4 m) ∧ (∀ c ∈ m, c ∈ hand) ∧
         v = rickyVal hand.length (hand.filter fun c => !m.contains c)) := by
  have h7 : 7 ≤ hand.length := by omega
  obtain ⟨r, hr, -, h1, h2, h3⟩ := sortedHandPoints_min hok h7 hno
  refine ⟨r.2, handPoints_of_ok hr, h1, h2, ?_⟩
  rcases h3 with rfl | ⟨m, hm, hsub, rfl⟩
  · exact Or.inl rfl
  · exact Or.inr ⟨m, hm, hsub, rfl⟩

/-- the sorted hand is a permutation of the hand -/
theorem sort_hand_perm (hand : List Card) (hok : HandOK hand) (hlen : hand.length = 7 ∨ hand.length = 8) :
    ∃ s, sortHand hand = .ok s ∧ s.Perm hand := by
  have h7 : 7 ≤ hand.length := by omega
  by_cases h : HasPair hand
  · obtain ⟨a, b, ha, hb, sa, sb, hnd, hr⟩ := sortedHandPoints_found hok h7 h
    refine ⟨_, sortHand_of_ok hr, ?_⟩
    have hsub : ∀ c ∈ a ++ b, c ∈ hand := by
      intro c hc
      rcases List.mem_append.1 hc with hc | hc
      · exact sa c hc
      · exact sb c hc
    exact (List.perm_append_comm.append_right _).trans (perm_append_without hok.1 hnd hsub)
  · obtain ⟨r, hr, -, -, -, h3⟩ := sortedHandPoints_min hok h7 h
    refine ⟨_, sortHand_of_ok hr, ?_⟩
    rcases h3 with rfl | ⟨m, hm, hsub, rfl⟩
    · exact MeldSearch.sortByRank_perm hand
    · have hnd : m.Nodup := by
        rcases hm with hm | hm <;> exact legalMeld_nodup hm.2
      exact ((MeldSearch.sortByRank_perm _).append_left m).trans (perm_append_without hok.1 hnd hsub)

/-- when the hand is worth zero the sorted hand lists the four-card meld, then the three-card meld, first -/
theorem sort_hand_melds_first (hand : List Card) (hok : HandOK hand) (hlen : hand.length = 7 ∨ hand.length = 8)
    (hz : handPoints hand = .ok 0) :
    ∃ s, sortHand hand = .ok s ∧ RickyMeld 4 (s.take 4) ∧ RickyMeld 3 ((s.drop 4).take 3) := by
  have h7 : 7 ≤ hand.length := by omega
  obtain ⟨a, b, ha, hb, -, -, -, hr⟩ := sortedHandPoints_found hok h7 ((ricky_zero_iff hand hok hlen).1 hz)
  refine ⟨_, sortHand_of_ok hr, ?_, ?_⟩
  · show RickyMeld 4 ((b ++ a ++ without hand (a ++ b)).take 4)
    rw [List.append_assoc, List.take_left' hb.1]
    exact hb
  · show RickyMeld 3 (((b ++ a ++ without hand (a ++ b)).drop 4).take 3)
    rw [List.append_assoc, List.drop_left' hb.1, List.take_left' ha.1]
    exact ha

end CardVerif.C19
