import CardModel.Spec.BettingRules
import CardModel.Spec.GinRules
/-!
# C16 — games are isolated

The only state shared between game objects of one process are the class-level sets of `Action` (`World`) and the
module constants of `card_utils.deck` (Lean constants here).  A *process* holds the shared `World` and any number of
poker and gin games; an operation addresses one game.  `world_invariant`: no operation changes the `World`.
`isolation`: the sequence of results a game produces inside **any** interleaving with operations on other games is
the sequence it produces alone, started from the same `World`.  (That the Python code really never writes the
shared containers is what the correspondence checks on every run by deep-comparing them.)
-/
namespace CardVerif.C16
open CardVerif CardVerif.Betting CardVerif.Gin

/-- a game object of either kind (a poker game that failed to construct / whose op failed keeps its state) -/
inductive Game
  | poker (s : State)
  | gin (g : GState)

/-- an operation on a game -/
inductive GameOp
  | act (p : Int) (ty : Option ActType) (amt : Option Int)
  | move (m : Move)

/-- the observable result of one operation: accepted or rejected, and the new state's rendering is the state itself -/
inductive Result
  | pokerOk (s : State) | pokerErr (e : Err) | ginOk (g : GState) | ginErr (e : Err) | wrongKind

/-- one operation on one game, reading the shared `World`; returns the (possibly updated) shared `World` too -/
def stepGame (fl : Rat → Rat) (rankFn : RankFn) (shuffle : List Card → List Card) (w : World) (g : Game) (op : GameOp) :
    World × Game × Result :=
  match g, op with
  | .poker s, .act p ty amt =>
    match s.act ⟨w, fl, rankFn⟩ p ty amt with
    | .ok s' => (w, .poker s', .pokerOk s')
    | .error e => (w, .poker s, .pokerErr e)
  | .gin gs, .move m =>
    match gs.apply shuffle m with
    | .ok g' => (w, .gin g', .ginOk g')
    | .error e => (w, .gin gs, .ginErr e)
  | g, _ => (w, g, .wrongKind)

structure Process where
  world : World
  games : List Game

/-- run a schedule of (game index, operation); collects (index, result) -/
def runProcess (fl : Rat → Rat) (rankFn : RankFn) (shuffle : List Card → List Card) :
    Process → List (Nat × GameOp) → Process × List (Nat × Result)
  | pr, [] => (pr, [])
  | pr, (i, op) :: rest =>
    match pr.games[i]? with
    | none => runProcess fl rankFn shuffle pr rest
    | some g =>
      let (w', g', r) := stepGame fl rankFn shuffle pr.world g op
      let (pr', rs) := runProcess fl rankFn shuffle ⟨w', pr.games.set i g'⟩ rest
      (pr', (i, r) :: rs)

/-- a single game run alone -/
def runAlone (fl : Rat → Rat) (rankFn : RankFn) (shuffle : List Card → List Card) (w : World) :
    Game → List GameOp → List Result
  | _, [] => []
  | g, op :: rest =>
    let (w', g', r) := stepGame fl rankFn shuffle w g op
    r :: runAlone fl rankFn shuffle w' g' rest

/-- no operation writes the shared `World` -/
theorem world_invariant (fl : Rat → Rat) (rankFn : RankFn) (shuffle : List Card → List Card) (w : World) (g : Game)
    (op : GameOp) : (stepGame fl rankFn shuffle w g op).1 = w := by
  unfold stepGame
  split
  · split <;> rfl
  · split <;> rfl
  · rfl

theorem process_world_invariant (fl : Rat → Rat) (rankFn : RankFn) (shuffle : List Card → List Card) (pr : Process)
    (sched : List (Nat × GameOp)) : (runProcess fl rankFn shuffle pr sched).1.world = pr.world := by
  induction sched generalizing pr with
  | nil => rfl
  | cons hd rest ih =>
    obtain ⟨j, op⟩ := hd
    unfold runProcess
    cases hj : pr.games[j]? with
    | none => simpa only [] using ih pr
    | some g' =>
      simp only []
      rw [ih]
      exact world_invariant fl rankFn shuffle pr.world g' op

/-- **isolation**: what game `i` produces inside any schedule equals what it produces alone -/
theorem isolation (fl : Rat → Rat) (rankFn : RankFn) (shuffle : List Card → List Card) (pr : Process)
    (sched : List (Nat × GameOp)) (i : Nat) (g : Game) (hg : pr.games[i]? = some g) :
    ((runProcess fl rankFn shuffle pr sched).2.filter (·.1 == i)).map (·.2) =
      runAlone fl rankFn shuffle pr.world g ((sched.filter (·.1 == i)).map (·.2)) := by
  induction sched generalizing pr g with
  | nil => rfl
  | cons hd rest ih =>
    obtain ⟨j, op⟩ := hd
    unfold runProcess
    cases hj : pr.games[j]? with
    | none =>
      have hji : j ≠ i := by
        rintro rfl
        rw [hg] at hj
        cases hj
      have hb : (j == i) = false := by simpa using hji
      simp only [List.filter_cons, hb]
      exact ih pr g hg
    | some g' =>
      have hw := world_invariant fl rankFn shuffle pr.world g' op
      by_cases hji : j = i
      · subst hji
        rw [hg] at hj
        cases hj
        simp only [List.filter_cons, beq_self_eq_true, if_true, List.map_cons]
        rw [runAlone]
        simp only []
        congr 1
        have := ih ⟨(stepGame fl rankFn shuffle pr.world g op).1,
          pr.games.set j (stepGame fl rankFn shuffle pr.world g op).2.1⟩
          (stepGame fl rankFn shuffle pr.world g op).2.1
          (by
            have hlt : j < pr.games.length := by
              rcases List.getElem?_eq_some_iff.mp hg with ⟨h, _⟩
              exact h
            simp [List.getElem?_set_self hlt])
        exact this
      · have hb : (j == i) = false := by simpa using hji
        simp only [List.filter_cons, hb]
        have := ih ⟨(stepGame fl rankFn shuffle pr.world g' op).1,
          pr.games.set j (stepGame fl rankFn shuffle pr.world g' op).2.1⟩ g
          (by simp [List.getElem?_set_ne hji, hg])
        simp only [hw] at this
        simp only [hw]
        exact this

end CardVerif.C16
