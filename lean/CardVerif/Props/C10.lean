import CardModel.Spec.GinRules
import CardVerif.Proofs.GinProtocol
/-!
# C10 — the gin turn protocol: only the move the turn allows is accepted

`accept_iff_allowed` for every reachable in-progress state of both variants and **every** move.  A rejected move is
`Except.error`: no new state, i.e. nothing changes.  The `*_next` theorems are the transition relation.
-/
namespace CardVerif.C10
open CardVerif CardVerif.Gin

-- the statements keep the reachability hypotheses even where a proof does not need them
set_option linter.unusedVariables false

def IsShuffle (shuffle : List Card → List Card) : Prop := ∀ l, (shuffle l).Perm l

theorem accept_iff_allowed (shuffle : List Card → List Card) (hs : IsShuffle shuffle) {g0 g : GState} (hd : Deal g0)
    (h : Reach shuffle g0 g) (hc : g.complete = false) (m : Move) :
    (∃ g', g.apply shuffle m = .ok g') ↔ Allowed g m := by
  exact (reach_inv hs hd h).accept_iff_allowed shuffle hc m

/-- first pass: the other player gets the opening option; second pass: the first player draws the top stock card
and must discard -/
theorem pass_next (shuffle : List Card → List Card) (hs : IsShuffle shuffle) {g0 g g' : GState} (hd : Deal g0)
    (h : Reach shuffle g0 g) (hc : g.complete = false) (hp : g.firstTurnPass = .ok g') :
    g'.complete = false ∧ g'.turns = g.turns + 1 ∧
    (g.turn = g.firstTurn → g'.turn = oppDrawsFirst g.turn.owner ∧ g'.deck = g.deck ∧ g'.p1 = g.p1 ∧ g'.p2 = g.p2) ∧
    (g.turn ≠ g.firstTurn → g'.turn = ownDiscards g.firstTurn.owner ∧
        ∃ c rest, g.deck = c :: rest ∧ g'.deck = rest ∧ g'.handOf g.firstTurn.owner = g.handOf g.firstTurn.owner ++ [c]) := by
  exact (reach_inv hs hd h).pass_next hc hp

/-- a draw is followed by the drawer's discard -/
theorem draw_next (shuffle : List Card → List Card) (hs : IsShuffle shuffle) {g0 g g' : GState} (hd : Deal g0)
    (h : Reach shuffle g0 g) (hc : g.complete = false) (d : Bool) (hp : g.drawCard d = .ok g') :
    g'.complete = false ∧ g'.turn = ownDiscards g.turn.owner := by
  exact draw_next_of_ok hc hp

/-- gin rummy: after a discard the player is offered the knock decision exactly when his deadwood is ten or less;
otherwise the opponent draws.  (`dw` is the best-split deadwood of the hand after discarding.) -/
theorem discard_next_rummy (shuffle : List Card → List Card) (hs : IsShuffle shuffle) {g0 g g' : GState} (hd : Deal g0)
    (h : Reach shuffle g0 g) (hc : g.complete = false) (hv : g.params.variant = .rummy) (c : Card)
    (hp : g.discardCard shuffle c = .ok g') (hc' : g'.complete = false) :
    ∃ cand, splitMelds ((g.handOf g.turn.owner).filter (· != c)) = .ok cand ∧
      g'.turn = (if cand.deadwood ≤ 10 then ownMayKnock g.turn.owner else oppDraws g.turn.owner) := by
  obtain ⟨dw, hdw, ht⟩ := discard_next_of_ok hp
  rw [hv] at hdw ht
  obtain ⟨cand, hcand, hdw'⟩ := getDeadwood_rummy_split ((g.handOf g.turn.owner).filter (· != c))
  rw [hdw'] at hdw
  injection hdw with hdw
  subst hdw
  refine ⟨cand, hcand, ?_⟩
  rw [ht, discardTurn]
  by_cases h10 : cand.deadwood ≤ 10
  · rw [if_pos ⟨rfl, by omega⟩, if_pos h10]
  · rw [if_neg (fun h => h10 (by omega)), if_neg h10]

/-- gin ricky: after a discard the opponent draws -/
theorem discard_next_ricky (shuffle : List Card → List Card) (hs : IsShuffle shuffle) {g0 g g' : GState} (hd : Deal g0)
    (h : Reach shuffle g0 g) (hc : g.complete = false) (hv : g.params.variant = .ricky) (c : Card)
    (hp : g.discardCard shuffle c = .ok g') : g'.turn = oppDraws g.turn.owner := by
  obtain ⟨dw, -, ht⟩ := discard_next_of_ok hp
  rw [ht, hv, discardTurn, if_neg (by simp)]

/-- a declined knock passes the draw to the opponent (unless the wall ends the game) -/
theorem decline_next (shuffle : List Card → List Card) (hs : IsShuffle shuffle) {g0 g g' : GState} (hd : Deal g0)
    (h : Reach shuffle g0 g) (hc : g.complete = false) (ms : Option (List (List Card)))
    (hp : g.decideKnock shuffle false ms = .ok g') (hc' : g'.complete = false) :
    g'.turn = oppDraws g.turn.owner := by
  exact decline_next_of_ok hp hc'

end CardVerif.C10
