import CardModel.Model.Pot
import CardModel.Spec.SidePot
import CardVerif.Proofs.PotConserve
import CardVerif.Proofs.SidePot
/-!
# C02 — side pots: each layer goes to the best eligible hands, split equally

`Pot.settle` is the transcription of the unraked part of `Pot.settle_showdown`;
`SidePot.specPayout` is the chip-by-chip statement of the rule.
-/
namespace CardVerif.C02
open CardVerif CardVerif.Pot CardVerif.SidePot

/-- chips are neither created nor destroyed by settlement (used by C01) -/
theorem settle_sum (c : List Int) (tiers : List (List Nat)) (pay : List Rat)
    (hc : ∀ b ∈ c, 0 ≤ b) (h : settle c tiers = .ok pay) :
    sumQ pay = ((sumI c : Int) : Rat) ∧ pay.length = c.length := by
  have := settle_inv c tiers pay hc h
  exact ⟨this.1, this.2.1⟩

/-- no payout is negative -/
theorem settle_nonneg (c : List Int) (tiers : List (List Nat)) (pay : List Rat)
    (hc : ∀ b ∈ c, 0 ≤ b) (h : settle c tiers = .ok pay) : ∀ x ∈ pay, 0 ≤ x :=
  (settle_inv c tiers pay hc h).2.2

/-- **Main theorem.** For non-negative contributions and a ranking that contains a holder of the largest
contribution, settlement succeeds and pays exactly the unit-layer spec. -/
theorem settle_eq_spec (c : List Int) (tiers : List (List Nat))
    (hc : ∀ b ∈ c, 0 ≤ b) (hr : RankingOK c tiers) :
    settle c tiers = .ok (specPayout c tiers) :=
  settle_eq_specPayout c tiers hc hr

/-- chips of players outside the ranking (folded) go to the contenders: a non-contender collects nothing -/
theorem spec_folded_zero (c : List Int) (tiers : List (List Nat)) (p : Nat) (hp : p ∉ tiers.flatten) :
    specPayoutOf c tiers p = 0 :=
  specPayoutOf_folded c tiers p hp

-- the proof does not need `hp` (an out-of-range seat has `getI c p = 0` and the bound still holds)
set_option linter.unusedVariables false in
/-- nobody collects more from any opponent than he himself put in: `payout p ≤ Σ_q min (c q) (c p)` -/
theorem spec_le_matched (c : List Int) (tiers : List (List Nat)) (hc : ∀ b ∈ c, 0 ≤ b) (p : Nat) (hp : p < c.length) :
    specPayoutOf c tiers p ≤ ((sumI (c.map fun b => min b (getI c p)) : Int) : Rat) :=
  specPayoutOf_le_matched c tiers hc p

-- the proof does not need `hc` (`hm0`, `hpm` and `hm` already pin down the layers above `m`)
set_option linter.unusedVariables false in
/-- chips nobody matched return to their owner: if `p` is a contender and strictly out-contributes everybody,
the layers above the second-largest contribution come back to `p` in full -/
theorem spec_unmatched_returns (c : List Int) (tiers : List (List Nat)) (hc : ∀ b ∈ c, 0 ≤ b)
    (hr : RankingOK c tiers) (p : Nat) (hp : p ∈ tiers.flatten) (m : Int)
    (hm : ∀ q, q < c.length → q ≠ p → getI c q ≤ m) (hpm : m ≤ getI c p) (hm0 : 0 ≤ m) :
    ((getI c p - m : Int) : Rat) ≤ specPayoutOf c tiers p :=
  specPayoutOf_unmatched c tiers hr p hp m hm hpm hm0

/-- non-vacuity: the hypotheses of `settle_eq_spec` are met by a three-way pot with a short all-in winner -/
example : settle [5, 20, 20] [[0], [1, 2]] = .ok [15, 15, 15] := by decide +kernel
example : specPayout [5, 20, 20] [[0], [1, 2]] = [15, 15, 15] := by decide +kernel

end CardVerif.C02
