import CardModel.Model.Misc
/-!
# C20 — the dealing helpers always return a partition of the 52-card deck

For **every** permutation the shuffle can produce (`d.Perm deckCards`), every hand count and hand size.
-/
namespace CardVerif.C20
open CardVerif CardVerif.Misc

/-- the hands dealt so far, flattened, are the first `k * n` cards of the deck -/
private theorem hands_flatten (d : List Card) (k n : Nat) :
    ((List.range n).map fun i => (d.drop (k * i)).take k).flatten = d.take (k * n) := by
  induction n with
  | zero => simp
  | succ n ih =>
    rw [List.range_succ, List.map_append, List.flatten_append, ih]
    simp only [List.map_cons, List.map_nil, List.flatten_cons, List.flatten_nil, List.append_nil]
    rw [Nat.mul_succ, List.take_add]

theorem deckCards_length : deckCards.length = 52 := by
  decide +kernel

theorem deckCards_nodup : deckCards.Nodup := by
  decide +kernel

theorem deckCards_valid : ∀ c ∈ deckCards, c.Valid := by
  decide +kernel

/-- `random_deck()`: 52 distinct standard cards, whatever permutation the shuffle produces -/
theorem random_deck (shuffle : List Card → List Card) (hs : ∀ l, (shuffle l).Perm l) :
    (randomDeck shuffle).Perm deckCards ∧ (randomDeck shuffle).Nodup ∧ (randomDeck shuffle).length = 52 := by
  have hp : (randomDeck shuffle).Perm deckCards := hs deckCards
  exact ⟨hp, hp.nodup_iff.mpr deckCards_nodup, hp.length_eq.trans deckCards_length⟩

/-- hands followed by the remaining deck are the shuffled deck itself: nothing lost, nothing twice -/
theorem deal_hands_partition (d : List Card) (nHands nCards : Nat) :
    (dealRandomHands d nHands nCards).2.flatten ++ (dealRandomHands d nHands nCards).1 = d := by
  simp only [dealRandomHands]
  rw [hands_flatten, List.take_append_drop]

/-- exactly the requested number of hands of exactly the requested size whenever they fit in the deck -/
theorem deal_hands_sizes (d : List Card) (nHands nCards : Nat) (hfit : nHands * nCards ≤ d.length) :
    (dealRandomHands d nHands nCards).2.length = nHands ∧
    (∀ h ∈ (dealRandomHands d nHands nCards).2, h.length = nCards) ∧
    (dealRandomHands d nHands nCards).1.length = d.length - nHands * nCards := by
  simp only [dealRandomHands]
  refine ⟨by simp, ?_, by simp [Nat.mul_comm]⟩
  intro h hh
  rw [List.mem_map] at hh
  obtain ⟨i, hi, rfl⟩ := hh
  rw [List.mem_range] at hi
  rw [List.length_take, List.length_drop]
  have h1 : nCards * (i + 1) ≤ nCards * nHands := Nat.mul_le_mul_left _ hi
  rw [Nat.mul_succ] at h1
  rw [Nat.mul_comm nHands nCards] at hfit
  omega

/-- hence, on a shuffled deck: 52 distinct cards in total, hands pairwise disjoint, the rest is the complement -/
theorem deal_hands_nodup (d : List Card) (hd : d.Perm deckCards) (nHands nCards : Nat) :
    ((dealRandomHands d nHands nCards).2.flatten ++ (dealRandomHands d nHands nCards).1).Nodup ∧
    ((dealRandomHands d nHands nCards).2.flatten ++ (dealRandomHands d nHands nCards).1).Perm deckCards := by
  rw [deal_hands_partition]
  exact ⟨hd.nodup_iff.mpr deckCards_nodup, hd⟩

/-- a gin deal is made iff it fits in one deck -/
theorem gin_deal_accept_iff (d : List Card) (n : Nat) :
    (∃ g, newGameDeal d n = .ok g) ↔ 2 * n + 1 < 52 := by
  unfold newGameDeal
  rw [deckCards_length]
  constructor
  · rintro ⟨g, hg⟩
    split at hg
    · cases hg
    · omega
  · intro h
    rw [if_neg (by omega)]
    exact ⟨_, rfl⟩

/-- a gin deal: two hands of `n`, one up-card, the stock – concatenated they are the shuffled deck -/
theorem gin_deal_partition (d : List Card) (hd : d.Perm deckCards) (n : Nat) (g : GinDeal)
    (h : newGameDeal d n = .ok g) :
    g.p1 ++ g.p2 ++ g.discard ++ g.deck = d ∧ g.p1.length = n ∧ g.p2.length = n ∧ g.discard.length = 1 ∧
    g.deck.length = 52 - (2 * n + 1) ∧ (g.p1 ++ g.p2 ++ g.discard ++ g.deck).Nodup := by
  have hlen : d.length = 52 := hd.length_eq.trans deckCards_length
  have hnd : d.Nodup := hd.nodup_iff.mpr deckCards_nodup
  unfold newGameDeal at h
  rw [deckCards_length] at h
  split at h
  · cases h
  · rename_i hn
    injection h with h
    subst h
    have hcat : d.take n ++ (d.drop n).take n ++ (d.drop (2 * n)).take 1 ++ d.drop (2 * n + 1) = d := by
      have e1 : d.take n ++ (d.drop n).take n = d.take (2 * n) := by
        rw [Nat.two_mul, List.take_add]
      have e2 : d.take (2 * n) ++ (d.drop (2 * n)).take 1 = d.take (2 * n + 1) := by
        rw [List.take_add]
      rw [e1, e2, List.take_append_drop]
    refine ⟨hcat, ?_, ?_, ?_, ?_, ?_⟩
    · simp only [List.length_take]; omega
    · simp only [List.length_take, List.length_drop]; omega
    · simp only [List.length_take, List.length_drop]; omega
    · simp only [List.length_drop]; omega
    · simpa only [hcat] using hnd

end CardVerif.C20
