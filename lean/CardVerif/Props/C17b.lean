import CardVerif.Props.C17
import CardVerif.Proofs.GinViewsH
/-!
# C17b — gin views for games started from an explicit public card map

The constructor takes an optional `public_hud`; `C17.lean` covers `None` (the map starts as `{up-card: TOP}`).  Here
the same six statements are proved for every game built with an explicit map (`newGameWith … (some h)`, `DealH`):
the map `h` is any truthful dict – in particular the empty map `{}` of a caller that restores a stored game – and
the game may be picked up at any observable turn whose hand sizes, variant and stock fit (see `DealH`).

* `deal_is_dealH` – a fresh `Deal` is a `DealH`, and `preach_is_preachH` – its `PReach` is a `PReachH`: the
  theorems of `C17.lean` are instances of the ones below;
* `hud_sound_from`, `hud_no_stock_card_from`, `hud_secrecy_from`, `view_hud_from`, `view_content_from`,
  `wait_iff_off_turn_from` – the statements of `C17.lean` with `Deal` replaced by `DealH` (and `PReach` by
  `PReachH`: what is public at the start is what the map says);
* `hud_keys_nodup_from` – the map stays a dict (no card twice);
* `DealH` states with the empty map (non-vacuity): at the opening turn, mid-play, on a discard turn.
-/
namespace CardVerif.C17
open CardVerif CardVerif.Gin

/-- a fresh deal is a game started from the (truthful, one-entry) map `{up-card: TOP}` on an opening turn -/
theorem deal_is_dealH {g0 : GState} (hd : Deal g0) : DealH g0 := by
  have hinit := hd.init
  have hlive := hd.live
  have hsound := hd.hudSound
  obtain ⟨up, hturn, hfirst, hdisc, hld, hlfd, hhud, hcomp, hturns, hsh, hp1, hp2⟩ := hinit
  refine ⟨?_, hd.variant, hlive.no_draw_from_deck, hlive.knock_rummy, hlive.p1_len, hlive.p2_len, hd.nodup,
    hlive.stock, hlive.stock_le, ?_, hsound⟩
  · obtain ⟨params, deck, up', p1, p2, turn, -, hnew⟩ := hd.fresh
    refine ⟨params, deck, [up'], p1, p2, turn, [(up', .top)], ?_⟩
    rw [← hnew]
    rfl
  · rw [hhud]
    simp

/-- the public knowledge of a fresh deal (nothing) is what its map says -/
theorem preach_is_preachH (shuffle : List Card → List Card) {g0 : GState} {ps : PState} (hd : Deal g0)
    (h : PReach shuffle g0 ps) : PReachH shuffle g0 ps :=
  gvh_preach_of_deal hd h

/-- every location the public card map asserts is true -/
theorem hud_sound_from (shuffle : List Card → List Card) (hs : IsShuffle shuffle) {g0 g : GState} (hd : DealH g0)
    (h : Reach shuffle g0 g) : HudSound g :=
  gvh_reach_hudSound hs hd h

/-- the public card map never names a card that lies in the stock -/
theorem hud_no_stock_card_from (shuffle : List Card → List Card) (hs : IsShuffle shuffle) {g0 g : GState}
    (hd : DealH g0) (h : Reach shuffle g0 g) : ∀ e ∈ g.hud, e.1 ∉ g.deck :=
  (gvh_reach_hudSound hs hd h).not_mem_deck (gvh_reach_inv hs hd h).nodup

/-- secrecy: a card the map places in a player's hand is public knowledge – the initial map said so, or it was taken
from the discard pile, and it is still held; or the stock has been exhausted since -/
theorem hud_secrecy_from (shuffle : List Card → List Card) (hs : IsShuffle shuffle) {g0 : GState} {ps : PState}
    (hd : DealH g0) (h : PReachH shuffle g0 ps) :
    (∀ e ∈ ps.g.hud, (e.2 = .p1 → e.1 ∈ ps.pub1) ∧ (e.2 = .p2 → e.1 ∈ ps.pub2)) ∧
    (∀ c ∈ ps.pub1, c ∈ ps.g.p1) ∧ (∀ c ∈ ps.pub2, c ∈ ps.g.p2) :=
  gvh_preach_secret hs hd h

/-- a player's view: cards marked "opponent" come from the public map's entries for the other player, cards of the
own hand are marked "user", nothing else is added; and no named card lies in the stock -/
theorem view_hud_from (shuffle : List Card → List Card) (hs : IsShuffle shuffle) {g0 g : GState} (hd : DealH g0)
    (h : Reach shuffle g0 g) (isP1 : Bool) :
    (∀ e ∈ g.playerHud isP1, e.1 ∉ g.deck) ∧
    (∀ e ∈ g.playerHud isP1, e.2 = .opponent → (e.1, if isP1 then Hud.p2 else Hud.p1) ∈ g.hud) ∧
    (∀ c ∈ g.handOf isP1, (c, ViewLoc.user) ∈ g.playerHud isP1) :=
  playerHud_spec (gvh_reach_hudSound hs hd h) (gvh_reach_inv hs hd h).nodup isP1

/-- the view shows the true top discard and stock size, and the drawn card it shows is the viewer's own -/
theorem view_content_from (shuffle : List Card → List Card) (hs : IsShuffle shuffle) {g0 g : GState}
    (hd : DealH g0) (h : Reach shuffle g0 g) (hc : g.complete = false) (isP1 : Bool) (v : View)
    (hv : g.view isP1 = .ok v) :
    v.topOfDiscard = g.discard.getLast? ∧ v.deckLength = g.deck.length ∧ v.hud = g.playerHud isP1 ∧
    v.action = g.getAction isP1 ∧ (∀ c, v.drawnCard = some c → c ∈ g.handOf isP1) := by
  obtain ⟨hand, pts, rfl⟩ := view_ok hv
  exact ⟨rfl, rfl, rfl, rfl, fun c hdc => gvh_view_drawn ((gvh_reach_inv hs hd h).live hc) isP1 c hdc⟩

/-- the player on turn is never told to wait and the other player always is -/
theorem wait_iff_off_turn_from (shuffle : List Card → List Card) (hs : IsShuffle shuffle) {g0 g : GState}
    (hd : DealH g0) (h : Reach shuffle g0 g) (hc : g.complete = false) :
    g.getAction g.turn.owner ≠ .wait ∧ g.getAction (!g.turn.owner) = .wait :=
  gvh_getAction_wait hc ((gvh_reach_inv hs hd h).live hc)

/-- the map stays a dict: no card is named twice -/
theorem hud_keys_nodup_from (shuffle : List Card → List Card) {g0 g : GState} (hd : DealH g0)
    (h : Reach shuffle g0 g) : (g.hud.map (·.1)).Nodup :=
  gvh_reach_keys hd h

/-! ## non-vacuity: a gin ricky deal (7 + 7 + 1 + 37) handed over with the EMPTY map -/

/-- the 52 cards in deck order: `p1` the first seven (eight if `p1` has to discard), `p2` the next seven (eight),
then the up-card, the rest is the stock -/
def exDeal (turn : Turn) (hud0 : List (Card × Hud)) : Except Err GState :=
  let k1 := 7 + (if turn = .p1Discards then 1 else 0)
  let k2 := 7 + (if turn = .p2Discards then 1 else 0)
  newGameWith (Params.ricky none) (deckCards.drop (k1 + k2 + 1)) ((deckCards.drop (k1 + k2)).take 1)
    (deckCards.take k1) ((deckCards.drop k1).take k2) turn (some hud0)

theorem exDeal_nodup (turn : Turn) :
    (deckCards.drop ((7 + (if turn = .p1Discards then 1 else 0)) + (7 + (if turn = .p2Discards then 1 else 0)) + 1) ++
      (deckCards.drop ((7 + (if turn = .p1Discards then 1 else 0)) + (7 + (if turn = .p2Discards then 1 else 0)))).take 1 ++
      deckCards.take (7 + (if turn = .p1Discards then 1 else 0)) ++
      (deckCards.drop (7 + (if turn = .p1Discards then 1 else 0))).take
        (7 + (if turn = .p2Discards then 1 else 0))).Nodup := by
  cases turn <;> decide +kernel

/-- at every observable turn of gin ricky and with every truthful dict this is a `DealH` -/
theorem exDeal_dealH {turn : Turn} {hud0 : List (Card × Hud)} {g0 : GState} (h : exDeal turn hud0 = .ok g0)
    (h1 : turn.isDrawFromDeck = false) (h2 : turn.isKnock = false) (hk : (hud0.map (·.1)).Nodup)
    (hsnd : HudSound g0) : DealH g0 := by
  have hg := h
  have hn := exDeal_nodup turn
  cases turn <;> first | exact Bool.noConfusion h1 | exact Bool.noConfusion h2 | skip
  all_goals
    simp only [exDeal, newGameWith, Except.ok.injEq] at hg
    subst hg
    refine ⟨⟨_, _, _, _, _, _, _, h⟩, .inr rfl, rfl, fun h => Bool.noConfusion h, rfl, rfl, hn, ?_,
      Nat.zero_le _, hk, hsnd⟩
    first
      | (intro h; exact Bool.noConfusion h)
      | (intro _ _; show 0 < List.length (List.drop _ deckCards); decide)

/-- a game started with the empty map, at the opening turn -/
example : ∃ g0, exDeal .p1DrawsFirst [] = .ok g0 ∧ g0.hud = [] ∧ DealH g0 :=
  ⟨_, rfl, rfl, exDeal_dealH rfl rfl rfl List.nodup_nil (fun _ h => by cases h)⟩

/-- … picked up mid-play with player 2 to draw -/
example : ∃ g0, exDeal .p2Draws [] = .ok g0 ∧ g0.hud = [] ∧ DealH g0 :=
  ⟨_, rfl, rfl, exDeal_dealH rfl rfl rfl List.nodup_nil (fun _ h => by cases h)⟩

/-- … and with player 1 holding eight cards, to discard -/
example : ∃ g0, exDeal .p1Discards [] = .ok g0 ∧ g0.hud = [] ∧ DealH g0 :=
  ⟨_, rfl, rfl, exDeal_dealH rfl rfl rfl List.nodup_nil (fun _ h => by cases h)⟩

/-- a non-empty map: the up-card, and a card player 1 is known to hold -/
example : ∃ g0, exDeal .p1DrawsFirst [(⟨5, 2⟩, .top), (⟨2, 0⟩, .p1)] = .ok g0 ∧ DealH g0 :=
  ⟨_, rfl, exDeal_dealH rfl rfl rfl (by decide) (by
    intro e he
    simp only [List.mem_cons, List.not_mem_nil, or_false] at he
    rcases he with rfl | rfl <;> decide)⟩

end CardVerif.C17
