import CardModel.Spec.Strength
import CardModel.Spec.BettingRules
import CardVerif.Props.C02
import CardVerif.Proofs.Showdown
/-!
# C07 — showdown: tiers follow true strength and payouts follow the tiers
-/
namespace CardVerif.C07
open CardVerif CardVerif.Betting CardVerif.Strength

/-- grouping by strength: every contender exactly once, tied hands together, strongest tier first – for any
strength function that succeeds on every hand -/
theorem tiers_ok (f : List Card → List Card → Except Err (List Nat)) (board : List Card) (hands : List (List Card))
    (strengths : List (List Nat)) (hs : hands.mapM (f board) = .ok strengths) :
    ∃ tiers, Eval.bestHandsGeneric f board hands = .ok tiers ∧
      TiersOK (fun i => match strengths[i]? with | some k => k | none => []) hands.length tiers :=
  bestHandsGeneric_tiersOK f board hands strengths hs

/-- mapping tiers back to seats keeps the grouping, whatever folded seats lie in between -/
theorem order_hands_seats (rankFn : RankFn) (s : State) (players : List Nat) (hnd : players.Nodup)
    (tiers : List (List Nat)) (h : s.orderHands rankFn players = .ok tiers) :
    tiers.flatten.Perm players ∧
    ∃ strength : Nat → List Nat,
      (∀ p ∈ players, ∃ hand, s.hands[p]? = some hand ∧
          handStrength s.game rankFn s.board hand = .ok (strength p)) ∧
      (∀ t ∈ tiers, t ≠ [] ∧ ∀ p ∈ t, ∀ q ∈ t, strength p = strength q) ∧
      tiers.Pairwise fun t u => ∀ p ∈ t, ∀ q ∈ u, lexLt (strength q) (strength p) = true :=
  orderHands_spec hnd h

/-- a hand won because everybody else folded: the single contender is paid by the side-pot rule with himself as the
only tier, raked iff a flop is on the board, and no evaluator is consulted (the statement holds for every `rankFn`) -/
theorem foldout_payouts (env : Env) (s : State) (p : Nat)
    (hnf : (List.range s.n).filter (fun q => (s.lastActions[q]?).join != some .fold) = [p]) :
    s.getPayoutsAndRake env =
      (do let (pay, rake) ← Pot.settleShowdown env.fl s.rake s.pot [[p]] s.shouldRakePot
          pure (pay, rake.map fun (r : Int) => (r : Rat))) := by
  unfold State.getPayoutsAndRake
  simp only [hnf, List.length_singleton, Nat.one_lt_ofNat, if_true]
  rfl

/-- number of run-out boards: the configured number iff cards are still to come and nobody is left to act -/
def numRunouts (s : State) : Nat :=
  if 5 - s.board.length != 0 && s.action.isNone then s.runouts else 1

/-- the payouts of run-out `i` alone -/
def runoutResult (env : Env) (s : State) (players : List Nat) (i : Nat) : Except Err (List Rat × List Int) := do
  let runout ← s.sampler.sample s.deck (5 - s.board.length) i
  let s' := { s with board := s.board ++ runout }
  let winners ← s'.orderHands env.rankFn players
  Pot.settleShowdown env.fl s.rake s.pot winners s'.shouldRakePot

/-- showdown: payouts and rake are the averages over the run-out boards of the side-pot settlement of the final
contributions under that board's ranking.

`hpot` (one contribution per seat) is necessary: with `n = 3`, `pot = [5, 5]`, seat 2 folded, a five-card board and a
constant evaluator, `getPayoutsAndRake` returns `([5, 5], [0, 0])`, of length `2 ≠ s.n` (`zip` truncates). -/
theorem showdown_payouts (env : Env) (s : State) (players : List Nat)
    (hpl : players = (List.range s.n).filter (fun q => (s.lastActions[q]?).join != some .fold))
    (h2 : 2 ≤ players.length) (hpot : s.pot.length = s.n) (results : List (List Rat × List Int))
    (hres : (List.range (numRunouts s)).mapM (runoutResult env s players) = .ok results) :
    ∃ pay rake, s.getPayoutsAndRake env = .ok (pay, rake) ∧ pay.length = s.n ∧ rake.length = s.n ∧
      (∀ p, p < s.n → pay[p]? = some (sumQ (results.map fun r => (match r.1[p]? with | some x => x | none => 0) / (numRunouts s : Rat)))) ∧
      (∀ p, p < s.n → rake[p]? = some (sumQ (results.map fun r => ((getI r.2 p : Int) : Rat) / (numRunouts s : Rat)))) := by
  have hlen : ∀ r ∈ results, r.1.length = s.n ∧ r.2.length = s.n := by
    intro r hr
    obtain ⟨i, _, hi⟩ := mapM_ok_mem _ _ _ hres r hr
    unfold runoutResult at hi
    rw [bind_ok] at hi
    obtain ⟨runout, _, hi⟩ := hi
    rw [bind_ok] at hi
    obtain ⟨winners, _, hi⟩ := hi
    have := settleShowdown_len (pay := r.1) (rake := r.2) hi
    rw [hpot] at this
    exact this
  unfold State.getPayoutsAndRake
  simp only [← hpl]
  rw [if_neg (by omega)]
  obtain ⟨res, h1, l1, l2, p1, p2⟩ := foldlM_avg (runoutResult env s players) (numRunouts s : Rat) s.n _
    (fun acc i => by
      simp only [runoutResult, bind_assoc]
      rfl)
    (List.range (numRunouts s)) results ((List.range s.n).map fun _ => (0 : Rat), (List.range s.n).map fun _ => (0 : Rat))
    hres (by simp) (by simp) hlen
  refine ⟨res.1, res.2, h1, l1, l2, ?_, ?_⟩
  · intro p hp
    have h0 : (((List.range s.n).map fun _ => (0 : Rat))[p]?).getD 0 = 0 := by simp [hp]
    rw [p1 p hp, h0, zero_add]
    rfl
  · intro p hp
    have h0 : (((List.range s.n).map fun _ => (0 : Rat))[p]?).getD 0 = 0 := by simp [hp]
    rw [p2 p hp, h0, zero_add]

/-- every run-out board has five distinct cards, none of them a hole card, when deck, board and hole cards are
distinct; the state's own board is not modified by settlement (`getPayoutsAndRake` returns only numbers) -/
theorem runout_board (s : State) (i : Nat) (runout : List Card)
    (hnd : (s.deck ++ s.board ++ s.hands.flatten).Nodup) (hlen : s.board.length ≤ 5)
    (h : s.sampler.sample s.deck (5 - s.board.length) i = .ok runout) :
    (s.board ++ runout).length = 5 ∧ (s.board ++ runout).Nodup ∧ ∀ c ∈ s.board ++ runout, c ∉ s.hands.flatten := by
  rw [List.nodup_append] at hnd
  obtain ⟨hdb, hh, hdisj⟩ := hnd
  rw [List.nodup_append] at hdb
  obtain ⟨hd, hb, hdb⟩ := hdb
  obtain ⟨hl, hrn, hsub⟩ := sample_spec s.sampler s.deck _ i runout hd h
  refine ⟨by rw [List.length_append, hl]; omega, ?_, ?_⟩
  · rw [List.nodup_append]
    refine ⟨hb, hrn, ?_⟩
    intro a ha b hb' hab
    subst hab
    exact hdb a (hsub a hb') a ha rfl
  · intro c hc hch
    rw [List.mem_append] at hc
    rcases hc with hc | hc
    · exact hdisj c (List.mem_append.2 (Or.inr hc)) c hch rfl
    · exact hdisj c (List.mem_append.2 (Or.inl (hsub c hc))) c hch rfl

end CardVerif.C07
