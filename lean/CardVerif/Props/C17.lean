import CardModel.Spec.GinRules
import CardVerif.Proofs.GinViews
/-!
# C17 — gin views: the public card map is truthful and hidden cards stay hidden
-/
namespace CardVerif.C17
open CardVerif CardVerif.Gin

def IsShuffle (shuffle : List Card → List Card) : Prop := ∀ l, (shuffle l).Perm l

/-- every location the public card map asserts is true -/
theorem hud_sound (shuffle : List Card → List Card) (hs : IsShuffle shuffle) {g0 g : GState} (hd : Deal g0)
    (h : Reach shuffle g0 g) : HudSound g :=
  reach_hudSound hs hd h

/-- the public card map never names a card that lies in the stock -/
theorem hud_no_stock_card (shuffle : List Card → List Card) (hs : IsShuffle shuffle) {g0 g : GState} (hd : Deal g0)
    (h : Reach shuffle g0 g) : ∀ e ∈ g.hud, e.1 ∉ g.deck :=
  (reach_hudSound hs hd h).not_mem_deck (reach_inv hs hd h).nodup

/-- secrecy: a card the map places in a player's hand is public knowledge – it was taken from the discard pile and
is still held, or the stock has been exhausted since -/
theorem hud_secrecy (shuffle : List Card → List Card) (hs : IsShuffle shuffle) {g0 : GState} {ps : PState}
    (hd : Deal g0) (h : PReach shuffle g0 ps) :
    (∀ e ∈ ps.g.hud, (e.2 = .p1 → e.1 ∈ ps.pub1) ∧ (e.2 = .p2 → e.1 ∈ ps.pub2)) ∧
    (∀ c ∈ ps.pub1, c ∈ ps.g.p1) ∧ (∀ c ∈ ps.pub2, c ∈ ps.g.p2) :=
  preach_secret hs hd h

/-- a player's view: cards marked "opponent" come from the public map's entries for the other player, cards of the
own hand are marked "user", nothing else is added; and no named card lies in the stock -/
theorem view_hud (shuffle : List Card → List Card) (hs : IsShuffle shuffle) {g0 g : GState} (hd : Deal g0)
    (h : Reach shuffle g0 g) (isP1 : Bool) :
    (∀ e ∈ g.playerHud isP1, e.1 ∉ g.deck) ∧
    (∀ e ∈ g.playerHud isP1, e.2 = .opponent → (e.1, if isP1 then Hud.p2 else Hud.p1) ∈ g.hud) ∧
    (∀ c ∈ g.handOf isP1, (c, ViewLoc.user) ∈ g.playerHud isP1) :=
  playerHud_spec (reach_hudSound hs hd h) (reach_inv hs hd h).nodup isP1

/-- the view shows the true top discard and stock size, and the drawn card it shows is the viewer's own -/
theorem view_content (shuffle : List Card → List Card) (hs : IsShuffle shuffle) {g0 g : GState} (hd : Deal g0)
    (h : Reach shuffle g0 g) (hc : g.complete = false) (isP1 : Bool) (v : View) (hv : g.view isP1 = .ok v) :
    v.topOfDiscard = g.discard.getLast? ∧ v.deckLength = g.deck.length ∧ v.hud = g.playerHud isP1 ∧
    v.action = g.getAction isP1 ∧ (∀ c, v.drawnCard = some c → c ∈ g.handOf isP1) := by
  obtain ⟨hand, pts, rfl⟩ := view_ok hv
  refine ⟨rfl, rfl, rfl, rfl, ?_⟩
  intro c hdc
  by_cases ha : g.getAction isP1 = .discard
  · obtain ⟨-, hp, ht⟩ := getAction_eq_discard ha
    obtain ⟨c', hld, hmem⟩ := ((reach_inv hs hd h).live hc).last_draw ht
    have : g.lastDraw = some c := by simpa [ha] using hdc
    rw [hld] at this
    cases this
    rw [hp]; exact hmem
  · simp [ha] at hdc

/-- the player on turn is never told to wait and the other player always is -/
theorem wait_iff_off_turn (shuffle : List Card → List Card) (hs : IsShuffle shuffle) {g0 g : GState} (hd : Deal g0)
    (h : Reach shuffle g0 g) (hc : g.complete = false) :
    g.getAction g.turn.owner ≠ .wait ∧ g.getAction (!g.turn.owner) = .wait :=
  getAction_wait hc ((reach_inv hs hd h).live hc)

end CardVerif.C17
