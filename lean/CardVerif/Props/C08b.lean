import CardModel.Spec.GinMeldRules
import CardVerif.Props.C08
import CardVerif.Proofs.MeldOnce
/-!
# C08 (continued) — the candidate list: each arrangement once; the gin stop without a gin

`Props/C08.lean` proves that the candidate list offered to a knocking player is sound (`candidates_sound`) and
complete (`candidates_complete`), and that it is a single gin arrangement when asked to stop at gin and a gin
arrangement exists (`candidates_stop_on_gin`).  The two remaining clauses of the informal property:

* `candidates_once` — without the gin stop no two positions of the list hold the same arrangement;
* `candidates_stop_no_gin` — asking to stop at gin changes nothing when there is no gin arrangement of one to
  three melds.  (The early exit of `candLoop` is taken only inside the loop over the 1..3-meld combos, on a
  disjoint combo whose unmelded cards have zero deadwood; the no-meld arrangement is never a reason to stop, not
  even for an empty hand – an empty hand has no melds, hence no combos, and the loop body is never entered.)

`candidates_exact` puts soundness, completeness and `candidates_once` together: every arrangement of at most three
melds within the limit sits at exactly one position of the list.
-/
namespace CardVerif.C08
open CardVerif CardVerif.Gin

/-- `ms'` is the arrangement `ms` up to the order of the melds and of the cards inside the melds: as many melds,
and every meld of `ms` is – as a set of cards – a meld of `ms'`.

This is the relation `candidates_complete` establishes between an arrangement and its listed candidate.  It is
reflexive and transitive, and it is symmetric whenever the melds of `ms` are non-empty and pairwise disjoint
(`SameArrangement.symm`; in particular between any two arrangements, whose melds have at least three cards), in
which case it says that `ms` and `ms'` are the same set of card-sets. -/
def SameArrangement (ms ms' : List (List Card)) : Prop :=
  ms.length = ms'.length ∧ ∀ m ∈ ms, ∃ m' ∈ ms', m'.Perm m

theorem SameArrangement.refl (ms : List (List Card)) : SameArrangement ms ms :=
  ⟨rfl, fun m hm => ⟨m, hm, List.Perm.refl m⟩⟩

theorem SameArrangement.trans {a b c : List (List Card)} (hab : SameArrangement a b) (hbc : SameArrangement b c) :
    SameArrangement a c := by
  exact MeldOnce.mo_same_trans hab hbc

/-- symmetric on pairwise disjoint non-empty melds -/
theorem SameArrangement.symm {ms ms' : List (List Card)} (hne : ∀ m ∈ ms, m ≠ []) (hd : ms.flatten.Nodup)
    (h : SameArrangement ms ms') : SameArrangement ms' ms := by
  exact MeldOnce.mo_same_symm hne hd h.1 h.2

/-- in particular symmetric when the left side is an arrangement of some hand -/
theorem SameArrangement.symm_of_arrangement {hand : List Card} {ms ms' : List (List Card)}
    (harr : Arrangement hand ms) (h : SameArrangement ms ms') : SameArrangement ms' ms := by
  exact h.symm (MeldOnce.mo_arrangement_ne_nil harr) harr.disjoint

/-- **each once**: without the gin stop, no two positions of the candidate list hold the same arrangement (up to
the order of the melds and of the cards inside melds).  Both directions hold for every pair, `SameArrangement`
being symmetric on arrangements (`candidates_sound`, `SameArrangement.symm_of_arrangement`). -/
theorem candidates_once (hand : List Card) (hok : HandOK hand) (hlen : hand.length ≤ 11) (maxDw : Option Nat) :
    (getCandidateMelds hand maxDw false).Pairwise (fun a b => ¬ SameArrangement a.melds b.melds) := by
  exact candidates_once_of hand hok hlen (allMelds_exact_thm hand hok hlen) maxDw

/-- in particular the listed candidates are pairwise distinct -/
theorem candidates_nodup (hand : List Card) (hok : HandOK hand) (hlen : hand.length ≤ 11) (maxDw : Option Nat) :
    (getCandidateMelds hand maxDw false).Nodup := by
  exact (candidates_once hand hok hlen maxDw).imp
    fun {a b} (h : ¬ SameArrangement a.melds b.melds) (heq : a = b) => h (heq ▸ SameArrangement.refl a.melds)

/-- asking to stop at gin changes nothing when no arrangement of one to three melds leaves zero deadwood -/
theorem candidates_stop_no_gin (hand : List Card) (hok : HandOK hand) (hlen : hand.length ≤ 11)
    (maxDw : Option Nat)
    (hno : ¬ ∃ ms, Arrangement hand ms ∧ ms.length ≤ 3 ∧ ms ≠ [] ∧ deadwood (restOf hand ms) = 0) :
    getCandidateMelds hand maxDw true = getCandidateMelds hand maxDw false := by
  exact candidates_stop_no_gin_of hand hok hlen (allMelds_exact_thm hand hok hlen) maxDw hno

/-- **exactly**: without the gin stop, every listed candidate is an arrangement of at most three melds within the
limit, with the rest of the hand as unmelded cards and their pip total as deadwood; and every such arrangement is
listed – up to order – at exactly one position, with those fields -/
theorem candidates_exact (hand : List Card) (hok : HandOK hand) (hlen : hand.length ≤ 11) (maxDw : Option Nat) :
    (∀ c ∈ getCandidateMelds hand maxDw false,
      Arrangement hand c.melds ∧ c.melds.length ≤ 3 ∧ c.unmelded.Perm (restOf hand c.melds) ∧
      c.deadwood = deadwood c.unmelded ∧ (∀ d, maxDw = some d → c.deadwood ≤ d)) ∧
    (∀ ms, Arrangement hand ms → ms.length ≤ 3 → (∀ d, maxDw = some d → deadwood (restOf hand ms) ≤ d) →
      ∃ l₁ c l₂, getCandidateMelds hand maxDw false = l₁ ++ c :: l₂ ∧ SameArrangement ms c.melds ∧
        c.unmelded.Perm (restOf hand ms) ∧ c.deadwood = deadwood (restOf hand ms) ∧
        ∀ c' ∈ l₁ ++ l₂, ¬ SameArrangement ms c'.melds) := by
  exact ⟨fun c hc => candidates_sound hand hok hlen maxDw false c hc,
    fun ms harr h3 hd => candidates_exact_of hand hok hlen (allMelds_exact_thm hand hok hlen) maxDw ms harr h3 hd⟩

end CardVerif.C08
