import CardModel.Spec.Legality
import CardVerif.Proofs.Accept
import CardVerif.Proofs.RaiseHistory
/-!
# C04 — wager legality

* `accept_iff` – **exact** characterisation of what `append_action` accepts, for every candidate (any seat, any
  type including unknown strings, any integer or missing amount): it is `LegalWith` the engine's own minimum raise
  increment `implLr` (the gap between the two largest contributions; 0 when nothing is owed).
* `accept_effect` – what an accepted action does: only the actor's stack/contribution move, by exactly the amount
  (a call: exactly what is owed, capped by the stack), the actor's last action is recorded and the log grows by one.
* `gap_le_lastRaise` – history invariant: the engine's increment never exceeds the rule's `max bigBlind lastRaise`;
  hence `legal_accepted` (nothing legal is ever refused) and `accepted_legal_or_F5` (whatever is accepted is legal,
  or lies in the deviation set of the open finding F5).
* `F5_witness` – the negation witness: a reachable state and an accepted raise that the rule forbids
  (bet 10, raise to 30, call; a re-raise of 22 = call 20 + 2).
A rejected action yields no new state (`Except.error`), i.e. it leaves the state unchanged by construction.
-/
namespace CardVerif.C04
open CardVerif CardVerif.Betting

theorem accept_iff (s : State) (hwf : s.WF) (player : Int) (ty : Option ActType) (amount : Option Int) :
    (∃ s1, s.appendAction World.std player ty amount = .ok s1) ↔ s.LegalWith s.implLr player ty amount :=
  accept_iff_thm s hwf player ty amount

-- the amount an accepted action moves: `Betting.movedAmount` (defined in `Proofs/Accept.lean`)
export CardVerif.Betting (movedAmount)

theorem accept_effect (s s1 : State) (hwf : s.WF) (player : Int) (ty : Option ActType) (amount : Option Int)
    (h : s.appendAction World.std player ty amount = .ok s1) :
    ∃ a t, s.action = some a ∧ ty = some t ∧
      s1.stacks = s.stacks.modify a (· - movedAmount s a t amount) ∧
      s1.pot = s.pot.modify a (· + movedAmount s a t amount) ∧
      s1.lastActions = s.lastActions.set a (some t) ∧
      s1.log = s.log ++ [⟨player, t, movedAmount s a t amount⟩] ∧
      s1.street = s.street ∧ s1.action = s.action ∧ s1.board = s.board ∧ s1.deck = s.deck ∧
      s1.complete = false ∧ 0 ≤ movedAmount s a t amount ∧ movedAmount s a t amount ≤ getI s.stacks a :=
  accept_effect_thm s s1 hwf player ty amount h

/-- history invariant behind the min-raise comparison.

The proof (`Proofs/RaiseHistory.lean`) carries the invariant `RInv`: `0 ≤ lastRaise`; the seat to act has not
folded; clockwise from the seat to act no live seat that has matched the highest contribution precedes a live seat
that has not; and whenever some live seat has not matched, `topGap ≤ max bigBlind lastRaise`.

It relies on `Cfg.Valid.blinds_ordered` (with three or more seats the small blind comes first).  Without that field
the statement is false – `Betting.UnorderedBlinds.counterexample`: three seats with 100 chips, no ante, blinds
`some [5, 2]`; seat 2 `FOLD`, seat 0 (who already holds the highest contribution, 5) `BET 5`.  Then
`pot = [10, 2, 0]`, `lastRaise = 5 = biggestBlind`, seat 1 owes 8 and `implLr = topGap = 8 > max 5 5`; the legal
`RAISE 13` (call 8 + 5) is refused by the engine, which asks for 16, so `legal_accepted` fails as well. -/
theorem gap_le_lastRaise (env : Env) (cfg : Cfg) (hw : env.w = World.std) (hv : cfg.Valid) {g : GState}
    (h : GReachable env cfg g) (hc : g.s.complete = false) :
    g.s.implLr ≤ max g.s.biggestBlind g.lastRaise ∧ 0 ≤ g.lastRaise :=
  gap_le_lastRaise_thm env cfg hw hv h hc

/-- nothing legal is ever refused -/
theorem legal_accepted (env : Env) (cfg : Cfg) (hw : env.w = World.std) (hv : cfg.Valid) {g : GState}
    (h : GReachable env cfg g) (player : Int) (ty : Option ActType) (amount : Option Int)
    (hl : g.s.Legal g.lastRaise player ty amount) :
    ∃ s1, g.s.appendAction World.std player ty amount = .ok s1 := by
  have hwf := (reachable_inv hw hv h.reachable).wf hv
  have hg := (gap_le_lastRaise env cfg hw hv h hl.1).1
  refine (accept_iff g.s hwf player ty amount).2 (State.LegalWith.mono ?_ hl)
  omega

/-- whatever is accepted is legal, or is exactly the F5 deviation -/
theorem accepted_legal_or_F5 (env : Env) (cfg : Cfg) (hw : env.w = World.std) (hv : cfg.Valid) {g : GState}
    (h : GReachable env cfg g) (player : Int) (ty : Option ActType) (amount : Option Int) (s1 : State)
    (ha : g.s.appendAction World.std player ty amount = .ok s1) :
    g.s.Legal g.lastRaise player ty amount ∨ g.s.F5Dev g.lastRaise player ty amount := by
  have hwf := (reachable_inv hw hv h.reachable).wf hv
  by_cases hl : g.s.Legal g.lastRaise player ty amount
  · exact Or.inl hl
  · exact Or.inr ⟨(accept_iff g.s hwf player ty amount).1 ⟨s1, ha⟩, hl⟩

/-- F5 witness: a reachable state and a raise that the engine accepts although the rule forbids it -/
theorem F5_witness : ∃ (env : Env) (cfg : Cfg) (g : GState) (p : Int) (amt : Int),
    env.w = World.std ∧ cfg.Valid ∧ GReachable env cfg g ∧
    (∃ s1, g.s.appendAction World.std p (some .raise) (some amt) = .ok s1) ∧
    ¬ g.s.Legal g.lastRaise p (some .raise) (some amt) :=
  ⟨F5W.env, F5W.cfg, ⟨F5W.w3, 20⟩, 2, 22, rfl, F5W.valid, F5W.reach, F5W.accepted, F5W.not_legal⟩

end CardVerif.C04
