import CardModel.Spec.Legality
import CardVerif.Props.C14
import CardVerif.Proofs.Progress
import CardVerif.Proofs.Termination
import CardVerif.Proofs.EvalTotal
/-!
# C13 — progress and termination

* `legal_exists` – in every in-progress state the seat to act can CHECK (nothing owed) or FOLD and CALL (chips owed).
* `no_internal_error` – an action that `append_action` accepts is carried through `advance_action` without any error:
  a seat to move to exists, a starting seat exists on each new street, the run-out samples fit the deck, the
  evaluator is applied to a five-card board, the showdown ranking contains a holder of the largest contribution
  (also after rake), so settlement distributes the whole pot and never raises "still money in the pot".
  The evaluator hypothesis comes in two strengths.  `no_internal_error(_B/_f53)` assume `RankTotal`: the evaluator
  succeeds on EVERY five-card board and hand, duplicates included – no evaluator of the model satisfies that (`rank5`
  fails on five equal cards), so these forms only apply to idealised evaluators.  `no_internal_error_on(_B/_f53)` assume
  `RankTotalOn` – success on distinct valid cards only – together with `cfg.Dealt` (each hand, the preset board and the
  deck are distinct valid cards): board and deck of a reachable state always hold the configured cards and a run-out
  takes distinct cards of the deck, so the evaluator never sees anything else.  The real evaluators satisfy
  `RankTotalOn` by C06, which gives the hypothesis-free instances `no_internal_error_nlhe(_f53)` (`Eval.holdemStrength`),
  `no_internal_error_nlhe_brute(_f53)` (`Eval.holdemBrute`, what the driver runs) and `no_internal_error_plo_brute(_f53)`
  (`Eval.omahaBrute`).  The optimised Omaha evaluator `Omaha.handStrengthFast` (what the driver runs for PLO) is covered
  by `C06.plo_no_internal_error(_f53)` in `Props/C06b.lean`, because its totality rests on the compiled-code tables of
  C06; nothing in this file depends on them.
* `terminates` – every sequence of accepted actions is bounded in length by an explicit function of the
  configuration (lexicographic measure: chips behind, streets left, seats still to act).
* `complete_shape` – a complete hand is on the showdown street, has a payout for every seat and rejects every action.
-/
namespace CardVerif.C13
open CardVerif CardVerif.Betting

theorem legal_exists (env : Env) (cfg : Cfg) (hw : env.w = World.std) (hv : cfg.Valid) {s : State}
    (h : Reachable env cfg s) (hc : s.complete = false) :
    ∃ a : Nat, s.action = some a ∧
      (s.owed a = 0 → ∃ s1, s.appendAction World.std a (some .check) none = .ok s1) ∧
      (0 < s.owed a → (∃ s1, s.appendAction World.std a (some .fold) none = .ok s1) ∧
                       (∃ s1, s.appendAction World.std a (some .call) none = .ok s1)) := by
  have hi := reachable_inv hw hv h
  have hwf := hi.wf hv
  obtain ⟨a, ha⟩ := Option.isSome_iff_exists.1 (hi.action_some hc)
  refine ⟨a, ha, fun h0 => ?_, fun hpos => ⟨?_, ?_⟩⟩
  · exact (accept_iff_thm s hwf a (some .check) none).2 ⟨hc, a, ha, rfl, h0, Or.inl rfl⟩
  · exact (accept_iff_thm s hwf a (some .fold) none).2 ⟨hc, a, ha, rfl, hpos, Or.inl rfl⟩
  · exact (accept_iff_thm s hwf a (some .call) none).2 ⟨hc, a, ha, rfl, hpos, Or.inl rfl⟩

theorem no_internal_error (env : Env) (cfg : Cfg) (hw : env.w = World.std) (hfl : C14.FlSpec env.fl)
    (hv : cfg.Valid) (hrank : RankTotal cfg.game env.rankFn) {s s1 : State} (h : Reachable env cfg s)
    (p : Int) (ty : Option ActType) (amt : Option Int) (h1 : s.appendAction env.w p ty amt = .ok s1) :
    ∃ s', s1.advanceAction env = .ok s' :=
  advanceAction_total_of_reachable hw hfl hv hrank h h1

/-- `no_internal_error` for a rounding that is exact only up to `B`, with at most `B` chips on the table -/
theorem no_internal_error_B (env : Env) (cfg : Cfg) (hw : env.w = World.std) {B : Int}
    (hfl : C14.FlSpecB B env.fl) (hv : cfg.Valid) (hB : sumI cfg.startingStacks ≤ B)
    (hrank : RankTotal cfg.game env.rankFn) {s s1 : State} (h : Reachable env cfg s)
    (p : Int) (ty : Option ActType) (amt : Option Int) (h1 : s.appendAction env.w p ty amt = .ok s1) :
    ∃ s', s1.advanceAction env = .ok s' :=
  advanceAction_total_of_reachable_B hw hfl hv hB hrank h h1

/-- **`no_internal_error` for IEEE doubles** (`fl := Float53.rnd`, what the native driver executes), provided the chips
on the table do not exceed `2^53` -/
theorem no_internal_error_f53 (env : Env) (cfg : Cfg) (hw : env.w = World.std) (hfl : env.fl = Float53.rnd)
    (hv : cfg.Valid) (hB : sumI cfg.startingStacks ≤ 2 ^ 53) (hrank : RankTotal cfg.game env.rankFn)
    {s s1 : State} (h : Reachable env cfg s)
    (p : Int) (ty : Option ActType) (amt : Option Int) (h1 : s.appendAction env.w p ty amt = .ok s1) :
    ∃ s', s1.advanceAction env = .ok s' :=
  no_internal_error_B env cfg hw (by rw [hfl]; exact C14.flSpecB_f53) hv hB hrank h p ty amt h1

/-! ### the same for evaluators that are total on distinct valid cards only (the real ones) -/

/-- **`no_internal_error` for an evaluator that only succeeds on distinct valid cards**, cards dealt from one deck -/
theorem no_internal_error_on (env : Env) (cfg : Cfg) (hw : env.w = World.std) (hfl : C14.FlSpec env.fl)
    (hv : cfg.Valid) (hd : cfg.Dealt) (hrank : RankTotalOn cfg.game env.rankFn) {s s1 : State}
    (h : Reachable env cfg s)
    (p : Int) (ty : Option ActType) (amt : Option Int) (h1 : s.appendAction env.w p ty amt = .ok s1) :
    ∃ s', s1.advanceAction env = .ok s' :=
  advanceAction_total_of_reachable_on hw hfl hv hd hrank h h1

/-- `no_internal_error_on` for a rounding that is exact only up to `B`, with at most `B` chips on the table -/
theorem no_internal_error_on_B (env : Env) (cfg : Cfg) (hw : env.w = World.std) {B : Int}
    (hfl : C14.FlSpecB B env.fl) (hv : cfg.Valid) (hB : sumI cfg.startingStacks ≤ B) (hd : cfg.Dealt)
    (hrank : RankTotalOn cfg.game env.rankFn) {s s1 : State} (h : Reachable env cfg s)
    (p : Int) (ty : Option ActType) (amt : Option Int) (h1 : s.appendAction env.w p ty amt = .ok s1) :
    ∃ s', s1.advanceAction env = .ok s' :=
  advanceAction_total_of_reachable_B_on hw hfl hv hB hd hrank h h1

/-- `no_internal_error_on` for IEEE doubles, at most `2^53` chips on the table -/
theorem no_internal_error_on_f53 (env : Env) (cfg : Cfg) (hw : env.w = World.std) (hfl : env.fl = Float53.rnd)
    (hv : cfg.Valid) (hB : sumI cfg.startingStacks ≤ 2 ^ 53) (hd : cfg.Dealt)
    (hrank : RankTotalOn cfg.game env.rankFn) {s s1 : State} (h : Reachable env cfg s)
    (p : Int) (ty : Option ActType) (amt : Option Int) (h1 : s.appendAction env.w p ty amt = .ok s1) :
    ∃ s', s1.advanceAction env = .ok s' :=
  no_internal_error_on_B env cfg hw (by rw [hfl]; exact C14.flSpecB_f53) hv hB hd hrank h p ty amt h1

/-- **Hold'em with the real evaluator** (`get_hand_strength_fast`): no hypothesis on the evaluator -/
theorem no_internal_error_nlhe (env : Env) (cfg : Cfg) (hw : env.w = World.std) (hfl : C14.FlSpec env.fl)
    (hv : cfg.Valid) (hd : cfg.Dealt) (hg : cfg.game = .nlhe) (hr : env.rankFn = Eval.holdemStrength)
    {s s1 : State} (h : Reachable env cfg s)
    (p : Int) (ty : Option ActType) (amt : Option Int) (h1 : s.appendAction env.w p ty amt = .ok s1) :
    ∃ s', s1.advanceAction env = .ok s' :=
  no_internal_error_on env cfg hw hfl hv hd (by rw [hg, hr]; exact rankTotalOn_holdemStrength) h p ty amt h1

theorem no_internal_error_nlhe_f53 (env : Env) (cfg : Cfg) (hw : env.w = World.std) (hfl : env.fl = Float53.rnd)
    (hv : cfg.Valid) (hB : sumI cfg.startingStacks ≤ 2 ^ 53) (hd : cfg.Dealt) (hg : cfg.game = .nlhe)
    (hr : env.rankFn = Eval.holdemStrength) {s s1 : State} (h : Reachable env cfg s)
    (p : Int) (ty : Option ActType) (amt : Option Int) (h1 : s.appendAction env.w p ty amt = .ok s1) :
    ∃ s', s1.advanceAction env = .ok s' :=
  no_internal_error_on_f53 env cfg hw hfl hv hB hd (by rw [hg, hr]; exact rankTotalOn_holdemStrength) h p ty amt h1

/-- **Hold'em with the brute-force evaluator** (`brute_force_holdem_rank`, the native driver's `rankFnOf .nlhe`) -/
theorem no_internal_error_nlhe_brute (env : Env) (cfg : Cfg) (hw : env.w = World.std) (hfl : C14.FlSpec env.fl)
    (hv : cfg.Valid) (hd : cfg.Dealt) (hg : cfg.game = .nlhe) (hr : env.rankFn = Eval.holdemBrute)
    {s s1 : State} (h : Reachable env cfg s)
    (p : Int) (ty : Option ActType) (amt : Option Int) (h1 : s.appendAction env.w p ty amt = .ok s1) :
    ∃ s', s1.advanceAction env = .ok s' :=
  no_internal_error_on env cfg hw hfl hv hd (by rw [hg, hr]; exact rankTotalOn_holdemBrute) h p ty amt h1

theorem no_internal_error_nlhe_brute_f53 (env : Env) (cfg : Cfg) (hw : env.w = World.std)
    (hfl : env.fl = Float53.rnd) (hv : cfg.Valid) (hB : sumI cfg.startingStacks ≤ 2 ^ 53) (hd : cfg.Dealt)
    (hg : cfg.game = .nlhe) (hr : env.rankFn = Eval.holdemBrute) {s s1 : State} (h : Reachable env cfg s)
    (p : Int) (ty : Option ActType) (amt : Option Int) (h1 : s.appendAction env.w p ty amt = .ok s1) :
    ∃ s', s1.advanceAction env = .ok s' :=
  no_internal_error_on_f53 env cfg hw hfl hv hB hd (by rw [hg, hr]; exact rankTotalOn_holdemBrute) h p ty amt h1

/-- **Omaha with the brute-force evaluator** (`brute_force_omaha_hi_rank`) -/
theorem no_internal_error_plo_brute (env : Env) (cfg : Cfg) (hw : env.w = World.std) (hfl : C14.FlSpec env.fl)
    (hv : cfg.Valid) (hd : cfg.Dealt) (hg : cfg.game = .plo) (hr : env.rankFn = Eval.omahaBrute)
    {s s1 : State} (h : Reachable env cfg s)
    (p : Int) (ty : Option ActType) (amt : Option Int) (h1 : s.appendAction env.w p ty amt = .ok s1) :
    ∃ s', s1.advanceAction env = .ok s' :=
  no_internal_error_on env cfg hw hfl hv hd (by rw [hg, hr]; exact rankTotalOn_omahaBrute) h p ty amt h1

theorem no_internal_error_plo_brute_f53 (env : Env) (cfg : Cfg) (hw : env.w = World.std)
    (hfl : env.fl = Float53.rnd) (hv : cfg.Valid) (hB : sumI cfg.startingStacks ≤ 2 ^ 53) (hd : cfg.Dealt)
    (hg : cfg.game = .plo) (hr : env.rankFn = Eval.omahaBrute) {s s1 : State} (h : Reachable env cfg s)
    (p : Int) (ty : Option ActType) (amt : Option Int) (h1 : s.appendAction env.w p ty amt = .ok s1) :
    ∃ s', s1.advanceAction env = .ok s' :=
  no_internal_error_on_f53 env cfg hw hfl hv hB hd (by rw [hg, hr]; exact rankTotalOn_omahaBrute) h p ty amt h1

/-- `k` accepted actions lead from `s` to `s'` -/
inductive Run (env : Env) : State → Nat → State → Prop
  | refl (s : State) : Run env s 0 s
  | step {s s' s'' : State} {k : Nat} (p : Int) (ty : Option ActType) (amt : Option Int) :
      Run env s k s' → s'.act env p ty amt = .ok s'' → Run env s (k + 1) s''

theorem terminates (env : Env) (cfg : Cfg) (hw : env.w = World.std) (hv : cfg.Valid) {s0 s : State} {k : Nat}
    (h0 : construct cfg = .ok s0) (hr : Run env s0 k s) :
    k ≤ ((sumI cfg.startingStacks).toNat + 1) * 5 * (cfg.n + 2) := by
  have conv : ∀ {a b : State} {m : Nat}, Run env a m b → RunK env a m b := by
    intro a b m h
    induction h with
    | refl => exact RunK.refl _
    | step p ty amt _ hact ih => exact RunK.step p ty amt ih hact
  exact terminates_thm env cfg hw hv h0 (conv hr)

theorem complete_shape (env : Env) (cfg : Cfg) (hw : env.w = World.std) (hv : cfg.Valid) {s : State}
    (h : Reachable env cfg s) (hc : s.complete = true) :
    s.street = 4 ∧ (∃ pay, s.payouts = some pay ∧ pay.length = cfg.n) ∧
    ∀ (p : Int) (ty : Option ActType) (amt : Option Int), s.act env p ty amt = .error .handComplete := by
  obtain ⟨hst, hpay⟩ := (reachable_inv2 hw hv h).done hc
  refine ⟨hst, hpay, fun p ty amt => ?_⟩
  unfold State.act State.appendAction
  rw [if_pos hc]
  rfl

end CardVerif.C13
