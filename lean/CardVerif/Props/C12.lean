import CardModel.Spec.GinMeldRules
import CardVerif.Proofs.Layoff
/-!
# C12 — gin lay-offs: the defender's deadwood is the true minimum and the lay-offs are legal
-/
namespace CardVerif.C12
open CardVerif CardVerif.Gin

/-- the lay-off computation succeeds on legal knocker melds -/
theorem layoff_total (hand : List Card) (K : List (List Card)) (hk : KnockOK hand K) (stop : Bool) :
    ∃ r, layoffDeadwood hand K stop = .ok r := by
  obtain ⟨sets, runs, hsr, _⟩ := Layoff.splitSetsRuns_spec hk
  exact (layoffDeadwood_ok_iff hand K stop).2 ⟨_, hsr⟩

/-- **soundness**: own melds form a legal arrangement, every laid-off card is a legal lay-off (given the others), and
melds, lay-offs and deadwood cards partition the hand; the reported deadwood is the pip total of the deadwood cards -/
theorem layoff_sound (hand : List Card) (hok : HandOK hand) (hlen : hand.length ≤ 11) (K : List (List Card))
    (hk : KnockOK hand K) (stop : Bool) (r : LayoffResult) (h : layoffDeadwood hand K stop = .ok r) :
    Arrangement hand r.melds ∧ LayoffOK K r.laidOff ∧
    (r.melds.flatten ++ r.laidOff ++ r.unmelded).Perm hand ∧ r.deadwood = deadwood r.unmelded := by
  obtain ⟨sets, runs, hsr, hs⟩ := Layoff.splitSetsRuns_spec hk
  obtain ⟨sets', runs', hsr', hmem, _⟩ := Layoff.layoffDeadwood_spec h
  rw [hsr] at hsr'
  injection hsr' with hsr'
  injection hsr' with h1 h2
  subst h1 h2
  exact Layoff.candidate_sound hok hlen hs hmem

/-- **optimality**: no way of melding the hand and laying off legally leaves less deadwood -/
theorem layoff_optimal (hand : List Card) (hok : HandOK hand) (hlen : hand.length ≤ 11) (K : List (List Card))
    (hk : KnockOK hand K) (stop : Bool) (r : LayoffResult) (h : layoffDeadwood hand K stop = .ok r)
    (A : List (List Card)) (L : List Card) (harr : Arrangement hand A)
    (hsub : ∀ c ∈ L, c ∈ restOf hand A) (hlo : LayoffOK K L) :
    r.deadwood ≤ deadwood ((restOf hand A).filter fun c => !L.contains c) := by
  obtain ⟨sets, runs, hsr, hs⟩ := Layoff.splitSetsRuns_spec hk
  obtain ⟨sets', runs', hsr', _, hmin⟩ := Layoff.layoffDeadwood_spec h
  rw [hsr] at hsr'
  injection hsr' with hsr'
  injection hsr' with h1 h2
  subst h1 h2
  obtain ⟨x, hx, hle⟩ := Layoff.candidate_optimal hok hlen hk hs harr hsub hlo
  exact Nat.le_trans (hmin x hx) hle

-- the statement keeps `hok` / `hlen` / `hk` although the proof does not need them
set_option linter.unusedVariables false in
/-- the result does not depend on whether the search stops at zero -/
theorem layoff_stop_irrelevant (hand : List Card) (hok : HandOK hand) (hlen : hand.length ≤ 11)
    (K : List (List Card)) (hk : KnockOK hand K) (r1 r2 : LayoffResult)
    (h1 : layoffDeadwood hand K true = .ok r1) (h2 : layoffDeadwood hand K false = .ok r2) :
    r1.deadwood = r2.deadwood := by
  obtain ⟨sets, runs, hsr, hm1, hmin1⟩ := Layoff.layoffDeadwood_spec h1
  obtain ⟨sets', runs', hsr', hm2, hmin2⟩ := Layoff.layoffDeadwood_spec h2
  rw [hsr] at hsr'
  injection hsr' with hsr'
  injection hsr' with e1 e2
  subst e1 e2
  exact Nat.le_antisymm (hmin1 r2 hm2) (hmin2 r1 hm1)

end CardVerif.C12
