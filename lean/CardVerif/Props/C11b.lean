import CardVerif.Props.C11
import CardVerif.Props.C17b
import CardVerif.Proofs.GinInvH
/-!
# C11b — gin ending and scoring for games restored from an explicit public card map

`C11.lean` assumes a fresh `Deal g0` in `discard_end` and `winner_zero`; `pass_draw_never_end`, `knock_end` and
`decline_end` have no deal hypothesis and hold as they are.  Here the two are proved for every game handed to the
constructor with an explicit map (`DealH g0`: any observable turn, any pile, any truthful map).

**No statement had to be adjusted**: `discard_end_from` and `winner_zero_from` are literally `discard_end` and
`winner_zero` with `Deal` replaced by `DealH`.  What to keep in mind when reading them for a restored game:

* `g.hitsTurnLimit` (in `discard_end`) reads the turn counter, and `decline_end` the shuffle counter; the model's
  constructor takes neither, so both count **from the restart** (`DealH.gvh_init`: `turns = shuffles = 0` in `g0`).
  The statements are about the counters the engine holds, hence true as they stand; `counters_from` records the
  starting values;
* a game restored on a knock turn can be ended by the very first move, a game restored on a discard turn by a gin
  or (`maxTurns = some 0` or `some 1`) by the turn limit: `winner_zero_from` covers these (the state `g0` itself is
  never complete).
-/
namespace CardVerif.C11
open CardVerif CardVerif.Gin

/-- a discard ends the game exactly on gin, at the turn limit, or (rummy, no knock offer) when the stock is down
to its end size; gin has priority and scores the opponent's deadwood plus the gin bonus; otherwise 0–0 -/
theorem discard_end_from (shuffle : List Card → List Card) (hs : IsShuffle shuffle) {g0 g g' : GState}
    (hd : DealH g0) (h : Reach shuffle g0 g) (hc : g.complete = false) (c : Card)
    (hp : g.discardCard shuffle c = .ok g') :
    ∃ dw : Int, getDeadwood g.params.variant ((g.handOf g.turn.owner).filter (· != c)) none none = .ok dw ∧
      (g'.complete = true ↔
        dw = 0 ∨ g.hitsTurnLimit ∨
        (g.params.variant = .rummy ∧ 10 < dw ∧ g.deck.length = g.params.endCardsInDeck)) ∧
      (g'.complete = true → dw = 0 →
        ∃ od : Int, getDeadwood g.params.variant (g.handOf (!g.turn.owner)) none none = .ok od ∧
          (g'.p1Points, g'.p2Points) =
            (if g.turn.owner then (some 0, some (od + g.params.ginBonus))
             else (some (od + g.params.ginBonus), some 0))) ∧
      (g'.complete = true → dw ≠ 0 → (g'.p1Points, g'.p2Points) = (some 0, some 0)) := by
  exact discardCard_end (gih_reach_inv hs hd h).variant hc hp

/-- the winner always shows zero points and nobody shows a negative score -/
theorem winner_zero_from (shuffle : List Card → List Card) (hs : IsShuffle shuffle) {g0 g : GState} (hd : DealH g0)
    (h : Reach shuffle g0 g) (hc : g.complete = true) :
    ∃ x y : Int, g.p1Points = some x ∧ g.p2Points = some y ∧ 0 ≤ x ∧ 0 ≤ y ∧ (x = 0 ∨ y = 0) := by
  exact gih_reach_goodScore hs hd h hc

/-- a restored game is in progress, without points, and its turn and shuffle counters start at zero -/
theorem counters_from {g0 : GState} (hd : DealH g0) :
    g0.complete = false ∧ g0.turns = 0 ∧ g0.shuffles = 0 ∧ g0.p1Points = none ∧ g0.p2Points = none := by
  obtain ⟨-, -, -, h1, h2, h3, h4, h5⟩ := hd.gvh_init
  exact ⟨h1, h2, h3, h4, h5⟩

/-! ## the theorems of `C11.lean` are instances -/

example (shuffle : List Card → List Card) (hs : IsShuffle shuffle) {g0 g : GState} (hd : Deal g0)
    (h : Reach shuffle g0 g) (hc : g.complete = true) :
    ∃ x y : Int, g.p1Points = some x ∧ g.p2Points = some y ∧ 0 ≤ x ∧ 0 ≤ y ∧ (x = 0 ∨ y = 0) :=
  winner_zero_from shuffle hs (C17.deal_is_dealH hd) h hc

example (shuffle : List Card → List Card) (hs : IsShuffle shuffle) {g0 g g' : GState} (hd : Deal g0)
    (h : Reach shuffle g0 g) (hc : g.complete = false) (c : Card) (hp : g.discardCard shuffle c = .ok g') :
    ∃ dw : Int, getDeadwood g.params.variant ((g.handOf g.turn.owner).filter (· != c)) none none = .ok dw ∧
      (g'.complete = true ↔
        dw = 0 ∨ g.hitsTurnLimit ∨
        (g.params.variant = .rummy ∧ 10 < dw ∧ g.deck.length = g.params.endCardsInDeck)) ∧
      (g'.complete = true → dw = 0 →
        ∃ od : Int, getDeadwood g.params.variant (g.handOf (!g.turn.owner)) none none = .ok od ∧
          (g'.p1Points, g'.p2Points) =
            (if g.turn.owner then (some 0, some (od + g.params.ginBonus))
             else (some (od + g.params.ginBonus), some 0))) ∧
      (g'.complete = true → dw ≠ 0 → (g'.p1Points, g'.p2Points) = (some 0, some 0)) :=
  discard_end_from shuffle hs (C17.deal_is_dealH hd) h hc c hp

end CardVerif.C11
