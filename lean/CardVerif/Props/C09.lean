import CardModel.Spec.GinRules
import CardVerif.Proofs.GinInv
/-!
# C09 — stock, discard pile and hands always partition the deal

For both variants, every legal deal, every turn limit, every accepted move sequence and **every** shuffle that
permutes its input.
-/
namespace CardVerif.C09
open CardVerif CardVerif.Gin

/-- the injected shuffle only permutes -/
def IsShuffle (shuffle : List Card → List Card) : Prop := ∀ l, (shuffle l).Perm l

/-- each card of the initial deal exactly once, nothing else -/
theorem partition (shuffle : List Card → List Card) (hs : IsShuffle shuffle) {g0 g : GState} (hd : Deal g0)
    (h : Reach shuffle g0 g) : g.allCards.Perm g0.allCards ∧ g.allCards.Nodup := by
  have hi := reach_inv hs hd h
  exact ⟨hi.perm, hi.nodup⟩

/-- each hand holds the dealt number of cards; the player who must discard holds one more -/
theorem hand_sizes (shuffle : List Card → List Card) (hs : IsShuffle shuffle) {g0 g : GState} (hd : Deal g0)
    (h : Reach shuffle g0 g) (hc : g.complete = false) :
    g.p1.length = g.params.cardsDealt + (if g.turn = .p1Discards then 1 else 0) ∧
    g.p2.length = g.params.cardsDealt + (if g.turn = .p2Discards then 1 else 0) ∧
    g.turn.isDrawFromDeck = false ∧ g.params = g0.params := by
  have hi := reach_inv hs hd h
  have hl := hi.live hc
  exact ⟨hl.p1_len, hl.p2_len, hl.no_draw_from_deck, hi.params⟩

/-- the stock never runs dry while a player may have to draw from it -/
theorem stock_available (shuffle : List Card → List Card) (hs : IsShuffle shuffle) {g0 g : GState} (hd : Deal g0)
    (h : Reach shuffle g0 g) (hc : g.complete = false) (ht : g.turn.isDiscard = false ∧ g.turn.isKnock = false) :
    g.params.endCardsInDeck < g.deck.length :=
  ((reach_inv hs hd h).live hc).stock ht.1 ht.2

/-- a draw from the discard pile moves exactly its top card into the mover's hand -/
theorem draw_discard_frame (g g' : GState) (h : g.drawCard true = .ok g') :
    ∃ c rest, g.discard = rest ++ [c] ∧ g'.discard = rest ∧ g'.deck = g.deck ∧
      ((g'.p1 = g.p1 ++ [c] ∧ g'.p2 = g.p2) ∨ (g'.p2 = g.p2 ++ [c] ∧ g'.p1 = g.p1)) := by
  obtain ⟨c, rest, -, -, -, hdisc, rfl⟩ := drawCard_true_ok.1 h
  refine ⟨c, rest, hdisc, rfl, rfl, ?_⟩
  cases g.turn.owner
  · exact .inr ⟨rfl, rfl⟩
  · exact .inl ⟨rfl, rfl⟩

/-- a draw from the stock moves exactly its top card into the mover's hand -/
theorem draw_stock_frame (g g' : GState) (h : g.drawCard false = .ok g') :
    ∃ c rest, g.deck = c :: rest ∧ g'.deck = rest ∧ g'.discard = g.discard ∧
      ((g'.p1 = g.p1 ++ [c] ∧ g'.p2 = g.p2) ∨ (g'.p2 = g.p2 ++ [c] ∧ g'.p1 = g.p1)) := by
  obtain ⟨c, rest, -, -, -, hdeck, rfl⟩ := drawCard_false_ok.1 h
  refine ⟨c, rest, hdeck, rfl, rfl, ?_⟩
  cases g.turn.owner
  · exact .inr ⟨rfl, rfl⟩
  · exact .inl ⟨rfl, rfl⟩

/-- a discard removes exactly the named card from the mover's hand and puts it on top of the pile – unless the pile
(with that card) is reshuffled into the stock, in which case the stock is a permutation of pile + stock -/
theorem discard_frame (shuffle : List Card → List Card) (hs : IsShuffle shuffle) (g g' : GState) (c : Card)
    (h : g.discardCard shuffle c = .ok g') :
    ((g'.p1 = g.p1.filter (· != c) ∧ g'.p2 = g.p2 ∧ g.turn = .p1Discards ∧ c ∈ g.p1) ∨
     (g'.p2 = g.p2.filter (· != c) ∧ g'.p1 = g.p1 ∧ g.turn = .p2Discards ∧ c ∈ g.p2)) ∧
    ((g'.discard = g.discard ++ [c] ∧ g'.deck = g.deck) ∨
     (g'.discard = [] ∧ g'.deck.Perm (g.discard ++ [c] ++ g.deck))) := by
  obtain ⟨hturn, -, hmem, dw, -, hg'⟩ := discardCard_ok.1 h
  -- in both outcomes (gin or not) `g'` is `discardFinish` of a `discardCore` with the same cards as `g`
  obtain ⟨g1, t, rfl, hp1, hp2, hdk, hdc, ht1⟩ : ∃ g1 t, g' = discardFinish shuffle (discardCore g1 c t) ∧
      g1.p1 = g.p1 ∧ g1.p2 = g.p2 ∧ g1.deck = g.deck ∧ g1.discard = g.discard ∧ g1.turn = g.turn := by
    rcases hg' with ⟨-, rfl⟩ | ⟨-, oppDw, -, rfl⟩
    · exact ⟨_, _, rfl, rfl, rfl, rfl, rfl, rfl⟩
    · exact ⟨_, _, rfl, rfl, rfl, rfl, rfl, rfl⟩
  constructor
  · simp only [discardFinish_p1, discardFinish_p2, discardCore_p1, discardCore_p2, ht1, hp1, hp2]
    cases hT : g.turn <;> simp [hT, Turn.isDiscard] at hturn <;>
      simp [hT, Turn.owner, GState.handOf] at hmem ⊢ <;> exact hmem
  · simp only [discardFinish_deck, discardFinish_discard]
    rcases discardPre_piles shuffle (discardCore g1 c t) hs with ⟨h1, h2⟩ | ⟨-, -, -, -, h1, h2⟩
    · exact .inl ⟨by rw [h1, discardCore_discard, hdc], by rw [h2, discardCore_deck, hdk]⟩
    · refine .inr ⟨h1, ?_⟩
      rw [discardCore_discard, discardCore_deck, hdc, hdk] at h2
      exact h2

/-- passing and the knock decision move no card (a declined knock may reshuffle) -/
theorem knock_frame (shuffle : List Card → List Card) (hs : IsShuffle shuffle) (g g' : GState) (k : Bool)
    (ms : Option (List (List Card))) (h : g.decideKnock shuffle k ms = .ok g') :
    g'.p1 = g.p1 ∧ g'.p2 = g.p2 ∧
    ((g'.discard = g.discard ∧ g'.deck = g.deck) ∨ (g'.discard = [] ∧ g'.deck.Perm (g.discard ++ g.deck))) := by
  have hw : (g.checkWall shuffle).2.p1 = g.p1 ∧ (g.checkWall shuffle).2.p2 = g.p2 ∧
      (((g.checkWall shuffle).2.discard = g.discard ∧ (g.checkWall shuffle).2.deck = g.deck) ∨
       ((g.checkWall shuffle).2.discard = [] ∧ (g.checkWall shuffle).2.deck.Perm (g.discard ++ g.deck))) := by
    refine ⟨checkWall_p1 shuffle g, checkWall_p2 shuffle g, ?_⟩
    rcases checkWall_piles shuffle g hs with h1 | ⟨-, -, -, h1, h2⟩
    · exact .inl h1
    · exact .inr ⟨h1, h2⟩
  obtain ⟨-, ⟨-, ⟨-, rfl⟩ | ⟨-, -, rfl⟩⟩ | ⟨-, a, b, -, -, rfl⟩⟩ := decideKnock_ok.1 h
  · exact hw
  · exact hw
  · exact ⟨rfl, rfl, .inl ⟨rfl, rfl⟩⟩

end CardVerif.C09
