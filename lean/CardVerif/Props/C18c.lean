import CardModel.Spec.Symmetry
import CardVerif.Props.C12
import CardVerif.Props.C19
import CardVerif.Proofs.SymGin2
/-!
# C18 (part c) — gin ricky value and lay-off deadwood under card order and suit relabelling
-/
namespace CardVerif.C18
open CardVerif CardVerif.Sym CardVerif.Gin

/-- gin ricky hand value -/
theorem ricky_value_sym (σ : Nat → Nat) (hσ : SuitPerm σ) (h h' : List Card) (hok : HandOK h)
    (hlen : h.length = 7 ∨ h.length = 8) (hi : Image σ h h') : handPoints h' = handPoints h :=
  handPoints_image hσ hok hlen hi

/-- defender deadwood after lay-offs: relabelling suits consistently in the hand and in the knocker's melds, and
reordering the hand, the melds and the cards inside each meld, does not change it -/
theorem layoff_deadwood_sym (σ : Nat → Nat) (hσ : SuitPerm σ) (hand hand' : List Card) (K K' : List (List Card))
    (hok : HandOK hand) (hlen : hand.length ≤ 11) (hk : KnockOK hand K) (hi : Image σ hand hand')
    (hK : ∃ K0, K'.Perm K0 ∧ List.Forall₂ (Image σ) K K0) (stop stop' : Bool) (r r' : LayoffResult)
    (h : layoffDeadwood hand K stop = .ok r) (h' : layoffDeadwood hand' K' stop' = .ok r') :
    r'.deadwood = r.deadwood :=
  layoff_deadwood_image hσ hok hlen hk hi hK stop stop' r r' h h'

end CardVerif.C18
