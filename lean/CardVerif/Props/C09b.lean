import CardVerif.Props.C09
import CardVerif.Props.C17b
import CardVerif.Proofs.GinInvH
/-!
# C09b — stock, discard pile and hands partition the cards of a game restored from an explicit public card map

`C09.lean` assumes a fresh `Deal g0` (opening turn, one up-card).  Here the same three statements are proved for
every game handed to the constructor with an explicit map (`newGameWith … (some h)`, `DealH g0`): any observable turn
(also a discard turn with eleven/eight cards in the mover's hand, also a knock decision), any pile (also empty), any
truthful map.  `C17.deal_is_dealH` makes the theorems of `C09.lean` instances of these.

**No statement had to be adjusted**: `partition_from`, `hand_sizes_from`, `stock_available_from` are literally
`partition`, `hand_sizes`, `stock_available` with `Deal` replaced by `DealH`.

* `hand_sizes` already said "the player who must discard holds one more" – which is what `DealH.p1_len` /
  `DealH.p2_len` say about the start;
* `stock_available` is, at the start, the field `DealH.stock` (a player who has to draw finds a stock card beyond the
  end size); `DealH.stock_le` is what carries it through a first move that is a discard or a declined knock;
* none of the statements mentions `lastDraw` or the counters.

The frame lemmas of `C09.lean` (`draw_discard_frame`, `draw_stock_frame`, `discard_frame`, `knock_frame`) have no deal
hypothesis and hold as they are.
-/
namespace CardVerif.C09
open CardVerif CardVerif.Gin

/-- each card of the restored game exactly once, nothing else -/
theorem partition_from (shuffle : List Card → List Card) (hs : IsShuffle shuffle) {g0 g : GState} (hd : DealH g0)
    (h : Reach shuffle g0 g) : g.allCards.Perm g0.allCards ∧ g.allCards.Nodup := by
  have hi := gih_reach_inv hs hd h
  exact ⟨hi.perm, hi.nodup⟩

/-- each hand holds the dealt number of cards; the player who must discard holds one more -/
theorem hand_sizes_from (shuffle : List Card → List Card) (hs : IsShuffle shuffle) {g0 g : GState} (hd : DealH g0)
    (h : Reach shuffle g0 g) (hc : g.complete = false) :
    g.p1.length = g.params.cardsDealt + (if g.turn = .p1Discards then 1 else 0) ∧
    g.p2.length = g.params.cardsDealt + (if g.turn = .p2Discards then 1 else 0) ∧
    g.turn.isDrawFromDeck = false ∧ g.params = g0.params := by
  have hi := gih_reach_inv hs hd h
  have hl := hi.live hc
  exact ⟨hl.p1_len, hl.p2_len, hl.no_draw_from_deck, hi.params⟩

/-- the stock never runs dry while a player may have to draw from it -/
theorem stock_available_from (shuffle : List Card → List Card) (hs : IsShuffle shuffle) {g0 g : GState}
    (hd : DealH g0) (h : Reach shuffle g0 g) (hc : g.complete = false)
    (ht : g.turn.isDiscard = false ∧ g.turn.isKnock = false) :
    g.params.endCardsInDeck < g.deck.length :=
  ((gih_reach_inv hs hd h).live hc).stock ht.1 ht.2

/-- … and is never below its end size (what `stock_available` rests on across discard and knock turns) -/
theorem stock_floor_from (shuffle : List Card → List Card) (hs : IsShuffle shuffle) {g0 g : GState}
    (hd : DealH g0) (h : Reach shuffle g0 g) (hc : g.complete = false) :
    g.params.endCardsInDeck ≤ g.deck.length :=
  ((gih_reach_inv hs hd h).live hc).stock_le

/-- the recorded first turn is the turn the game was restored at; the opening turns (on which a pass is possible)
occur only in a game restored on one -/
theorem first_turn_from (shuffle : List Card → List Card) (hs : IsShuffle shuffle) {g0 g : GState}
    (hd : DealH g0) (h : Reach shuffle g0 g) :
    g.firstTurn = g0.turn ∧ (g.turn.isFirstDraw = true → g0.turn.isFirstDraw = true) := by
  have hi := gih_reach_inv hs hd h
  exact ⟨hi.firstTurn, fun ht => by rw [← hi.firstTurn]; exact hi.first_draw ht⟩

/-! ## the theorems of `C09.lean` are instances -/

example (shuffle : List Card → List Card) (hs : IsShuffle shuffle) {g0 g : GState} (hd : Deal g0)
    (h : Reach shuffle g0 g) : g.allCards.Perm g0.allCards ∧ g.allCards.Nodup :=
  partition_from shuffle hs (C17.deal_is_dealH hd) h

example (shuffle : List Card → List Card) (hs : IsShuffle shuffle) {g0 g : GState} (hd : Deal g0)
    (h : Reach shuffle g0 g) (hc : g.complete = false) :
    g.p1.length = g.params.cardsDealt + (if g.turn = .p1Discards then 1 else 0) ∧
    g.p2.length = g.params.cardsDealt + (if g.turn = .p2Discards then 1 else 0) ∧
    g.turn.isDrawFromDeck = false ∧ g.params = g0.params :=
  hand_sizes_from shuffle hs (C17.deal_is_dealH hd) h hc

example (shuffle : List Card → List Card) (hs : IsShuffle shuffle) {g0 g : GState} (hd : Deal g0)
    (h : Reach shuffle g0 g) (hc : g.complete = false) (ht : g.turn.isDiscard = false ∧ g.turn.isKnock = false) :
    g.params.endCardsInDeck < g.deck.length :=
  stock_available_from shuffle hs (C17.deal_is_dealH hd) h hc ht

/-! ## non-vacuity: a gin ricky game restored with the empty map on a discard turn (`C17.exDeal`) -/

/-- player 1 holds eight cards and has to discard, player 2 holds seven -/
example : ∃ g0, C17.exDeal .p1Discards [] = .ok g0 ∧ DealH g0 ∧ g0.p1.length = 8 ∧ g0.p2.length = 7 :=
  ⟨_, rfl, C17.exDeal_dealH rfl rfl rfl List.nodup_nil (fun _ h => by cases h), rfl, rfl⟩

end CardVerif.C09
