import CardModel.Model.Rank5
import CardModel.Spec.Poker5
import CardVerif.Proofs.Rank5Lift
/-!
# C05 — the five-card rank orders all hands exactly by the rules of poker

`Rank5.rank5` transcribes `five_card_hand_rank`; `Poker5.specKey` is the textbook rule.  The theorem covers
every list of five distinct valid cards, in every order – all 2,598,960 hands × 120 orders.
Comparison of hands is comparison of keys (`lexLt`), so order, ties and categories all follow from equality
with the spec key; suits cannot break ties because `specKey` reads suits only through `allSameSuit`.
-/
namespace CardVerif.C05
open CardVerif CardVerif.Rank5 CardVerif.Poker5

/-- **Main theorem**: on every five-card hand of distinct standard cards the implementation's tuple is the key the
rules prescribe. -/
theorem rank5_eq_spec (hand : List Card) (hlen : hand.length = 5) (hnd : hand.Nodup)
    (hv : ∀ c ∈ hand, c.Valid) : rank5 hand = .ok (specKey hand) := by
  have hr : ∀ v ∈ hand.map (·.rank), 2 ≤ v ∧ v ≤ 14 := by
    intro v hm
    obtain ⟨c, hc, rfl⟩ := List.mem_map.1 hm
    exact ⟨(hv c hc).1, (hv c hc).2.1⟩
  rw [specKey_eq]
  unfold rank5
  rw [if_neg (by simp [hlen])]
  exact rank5v_eq_specKeyV _ _ (by simp [hlen]) hr (validV_hand hand hlen hnd hv)

/-- the result does not depend on the order in which the cards are given (any list, valid or not) -/
theorem rank5_perm (h₁ h₂ : List Card) (hp : h₁.Perm h₂) : rank5 h₁ = rank5 h₂ := by
  unfold rank5
  rw [hp.length_eq, isFlush_congr hp, rank5v_congr (hp.map (·.rank))]

/-- the spec key is itself order-independent -/
theorem specKey_perm (h₁ h₂ : List Card) (hp : h₁.Perm h₂) : specKey h₁ = specKey h₂ := by
  rw [specKey_eq, specKey_eq, isFlush_congr hp, specKeyV_congr (hp.map (·.rank))]

/-- anything but five cards is rejected -/
theorem rank5_bad_length (hand : List Card) (h : hand.length ≠ 5) : rank5 hand = .error .badLength := by
  unfold rank5
  rw [if_pos (by simpa using h)]

/-- suits never break ties: two hands with the same values and the same flush status get the same tuple -/
theorem rank5_suit_blind (h₁ h₂ : List Card) (hr : h₁.map (·.rank) = h₂.map (·.rank))
    (hf : isFlush h₁ = isFlush h₂) : rank5 h₁ = rank5 h₂ := by
  have hl : h₁.length = h₂.length := by
    have := congrArg List.length hr
    simpa using this
  unfold rank5
  rw [hl, hr, hf]

/-- non-vacuity: the wheel straight flush and a full house -/
example : rank5 [⟨14, 0⟩, ⟨2, 0⟩, ⟨3, 0⟩, ⟨4, 0⟩, ⟨5, 0⟩] = .ok [8, 5] := by decide +kernel
example : specKey [⟨9, 0⟩, ⟨9, 1⟩, ⟨4, 0⟩, ⟨4, 2⟩, ⟨9, 3⟩] = [6, 9, 4] := by decide +kernel

end CardVerif.C05
