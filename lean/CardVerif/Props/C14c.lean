import CardVerif.Props.C14
import CardVerif.Proofs.RakeFloat
/-!
# C14c — rake is non-negative, capped and monotone under the real float arithmetic

`Props/C14.lean` proves non-negativity, monotonicity and the cap only for exact arithmetic (`fl = id`): a rounding
that is merely monotone and exact on integers may round `left / k` up to the next integer and overspend the budget.
Here the same three inequalities are proved

* for **every** rounding with the properties `FlRake B fl` (`Proofs/RakeFloat.lean`: monotone, `fl 0 = 0`,
  idempotent, exact on the integers in `[0, B)`, exact subtraction of a smaller integer from a representable number
  below `B`, and `k * ⌊fl (x / k)⌋ ≤ x` for representable `0 ≤ x < B`), provided the cap is below `B`;
* for **IEEE-754 binary64** (`Float53.rnd`), which is such a rounding for `B = 2^53` (`flRake_f53`), so the only
  numeric hypothesis is `cfg.cap < 2^53`.  No bound on the number of seats, on the chip total, or on `cfg.f` from
  above is needed, and `cfg.f` need not be a double.  The bound `2^53` is sharp (last example).
-/
namespace CardVerif.C14
open CardVerif CardVerif.Pot

/-! ### any `FlRake` rounding -/

theorem rake_nonneg_of_flRake {B : Rat} {fl : Rat → Rat} (hfl : FlRake B fl) (cfg : RakeCfg) (bal : List Int)
    (rp : Bool) (hf0 : 0 ≤ cfg.f) (hcap : 0 ≤ cfg.cap) (hcapB : (cfg.cap : Rat) < B)
    (hbal : ∀ b ∈ bal, 0 ≤ b) (p : Nat) (hp : p < bal.length) :
    0 ≤ getI (rakePerPlayer fl cfg bal rp) p :=
  (rf_exInv_rakePerPlayer hfl cfg bal rp hf0 hcap hcapB hbal).2.2.1 p hp

theorem rake_mono_of_flRake {B : Rat} {fl : Rat → Rat} (hfl : FlRake B fl) (cfg : RakeCfg) (bal : List Int)
    (rp : Bool) (hf0 : 0 ≤ cfg.f) (hcap : 0 ≤ cfg.cap) (hcapB : (cfg.cap : Rat) < B)
    (hbal : ∀ b ∈ bal, 0 ≤ b) (p q : Nat) (hp : p < bal.length) (hq : q < bal.length)
    (h : getI bal p ≤ getI bal q) :
    getI (rakePerPlayer fl cfg bal rp) p ≤ getI (rakePerPlayer fl cfg bal rp) q :=
  (rf_exInv_rakePerPlayer hfl cfg bal rp hf0 hcap hcapB hbal).2.2.2 p q hp hq h

/-- the total never exceeds the budget `min(cap, fl (f * total))` -/
theorem rake_total_le_budget_of_flRake {B : Rat} {fl : Rat → Rat} (hfl : FlRake B fl) (cfg : RakeCfg)
    (bal : List Int) (rp : Bool) (hf0 : 0 ≤ cfg.f) (hcap : 0 ≤ cfg.cap) (hcapB : (cfg.cap : Rat) < B)
    (hbal : ∀ b ∈ bal, 0 ≤ b) :
    ((sumI (rakePerPlayer fl cfg bal rp) : Int) : Rat) ≤ maxTotalRake fl cfg bal :=
  (rf_exInv_rakePerPlayer hfl cfg bal rp hf0 hcap hcapB hbal).2.1

theorem rake_total_le_cap_of_flRake {B : Rat} {fl : Rat → Rat} (hfl : FlRake B fl) (cfg : RakeCfg)
    (bal : List Int) (rp : Bool) (hf0 : 0 ≤ cfg.f) (hcap : 0 ≤ cfg.cap) (hcapB : (cfg.cap : Rat) < B)
    (hbal : ∀ b ∈ bal, 0 ≤ b) :
    sumI (rakePerPlayer fl cfg bal rp) ≤ cfg.cap := by
  have h1 := rake_total_le_budget_of_flRake hfl cfg bal rp hf0 hcap hcapB hbal
  have h2 := rf_maxTotalRake_le_cap fl cfg bal
  exact_mod_cast le_trans h1 h2

/-- exact arithmetic is an instance: the `_exact` theorems of `Props/C14.lean` are special cases -/
theorem flRake_id (B : Rat) : FlRake B id := rf_flRake_id B

/-! ### IEEE doubles -/

/-- **IEEE-754 binary64 rounding** has all the properties the rake loop needs, below `2^53` -/
theorem flRake_f53 : FlRake ((2 ^ 53 : Int) : Rat) Float53.rnd := Float53.rf_flRake_f53

theorem rake_nonneg_f53 (cfg : RakeCfg) (bal : List Int) (rp : Bool)
    (hf0 : 0 ≤ cfg.f) (hcap : 0 ≤ cfg.cap) (hcap53 : cfg.cap < 2 ^ 53) (hbal : ∀ b ∈ bal, 0 ≤ b)
    (p : Nat) (hp : p < bal.length) :
    0 ≤ getI (rakePerPlayer Float53.rnd cfg bal rp) p :=
  rake_nonneg_of_flRake flRake_f53 cfg bal rp hf0 hcap (by exact_mod_cast hcap53) hbal p hp

/-- a larger contribution never pays less -/
theorem rake_mono_f53 (cfg : RakeCfg) (bal : List Int) (rp : Bool)
    (hf0 : 0 ≤ cfg.f) (hcap : 0 ≤ cfg.cap) (hcap53 : cfg.cap < 2 ^ 53) (hbal : ∀ b ∈ bal, 0 ≤ b)
    (p q : Nat) (hp : p < bal.length) (hq : q < bal.length) (h : getI bal p ≤ getI bal q) :
    getI (rakePerPlayer Float53.rnd cfg bal rp) p ≤ getI (rakePerPlayer Float53.rnd cfg bal rp) q :=
  rake_mono_of_flRake flRake_f53 cfg bal rp hf0 hcap (by exact_mod_cast hcap53) hbal p q hp hq h

/-- the total never exceeds the cap -/
theorem rake_total_le_cap_f53 (cfg : RakeCfg) (bal : List Int) (rp : Bool)
    (hf0 : 0 ≤ cfg.f) (hcap : 0 ≤ cfg.cap) (hcap53 : cfg.cap < 2 ^ 53) (hbal : ∀ b ∈ bal, 0 ≤ b) :
    sumI (rakePerPlayer Float53.rnd cfg bal rp) ≤ cfg.cap :=
  rake_total_le_cap_of_flRake flRake_f53 cfg bal rp hf0 hcap (by exact_mod_cast hcap53) hbal

/-- the total never exceeds the rounded rake fraction of the pot, `float(f * total)` -/
theorem rake_total_le_fraction_f53 (cfg : RakeCfg) (bal : List Int) (rp : Bool)
    (hf0 : 0 ≤ cfg.f) (hcap : 0 ≤ cfg.cap) (hcap53 : cfg.cap < 2 ^ 53) (hbal : ∀ b ∈ bal, 0 ≤ b) :
    ((sumI (rakePerPlayer Float53.rnd cfg bal rp) : Int) : Rat)
      ≤ Float53.rnd (cfg.f * ((sumI bal : Int) : Rat)) := by
  have h1 := rake_total_le_budget_of_flRake flRake_f53 cfg bal rp hf0 hcap (by exact_mod_cast hcap53) hbal
  refine le_trans h1 ?_
  unfold maxTotalRake
  simp only
  split
  · exact le_refl _
  · rename_i h; exact not_lt.1 h

/-- the two float facts behind `flRake_f53`, in the form the informal argument states them:
a double below `2^53` minus a smaller non-negative integer is a double … -/
theorem f53_sub_exact (a : Rat) (n : Int) (ha : Float53.rnd a = a) (h53 : a < ((2 ^ 53 : Int) : Rat))
    (hn : 0 ≤ n) (hna : (n : Rat) ≤ a) : Float53.rnd (a - (n : Rat)) = a - (n : Rat) :=
  flRake_f53.subExact a n ha h53 hn hna

/-- … and rounding the quotient of a double `0 ≤ x < 2^53` by an integer `k ≥ 1` does not change its floor -/
theorem f53_floor_div (x : Rat) (k : Nat) (hx : Float53.rnd x = x) (h0 : 0 ≤ x)
    (h53 : x < ((2 ^ 53 : Int) : Rat)) (hk : 1 ≤ k) :
    (Float53.rnd (x / ((k : Nat) : Rat))).floor = (x / ((k : Nat) : Rat)).floor :=
  Float53.rf_floor_rnd_div x k hx h0 (by rw [Float53.pow2_53]; exact h53) hk

/-! ### non-vacuity and sharpness -/

/-- four seats, three levels, rake fraction `float(0.05)`, cap 30 -/
example : rakePerPlayer Float53.rnd ⟨3602879701896397 / 72057594037927936, 30⟩ [100, 250, 250, 40] true
    = [5, 11, 11, 2] := by decide +kernel

/-- the budget `float(float(0.07) * 700) = 49.00000000000001` is not an integer; the subtraction
`budget - collected` stays exact -/
example : rakePerPlayer Float53.rnd ⟨Float53.rnd (7 / 100), 1000⟩ [100, 300, 300] true = [7, 21, 21] := by
  decide +kernel

/-- the bound `2^53` on the cap is sharp: with `cap = 2^53 + 6` the budget left after collecting `3` chips,
`2^53 + 3`, is a tie that rounds up to `2^53 + 4`, and the total exceeds the cap by one chip -/
example : sumI (rakePerPlayer Float53.rnd ⟨1, 2 ^ 53 + 6⟩ [1, 1, 2 ^ 54 + 1] true) = (2 ^ 53 + 6) + 1 := by
  decide +kernel

end CardVerif.C14
