import CardModel.Spec.Legality
import CardVerif.Proofs.Protocol
/-!
# C03 — the betting protocol: who acts, when a round closes, when the hand ends

`closed_iff` identifies the implementation's four-case closure test with the rule `closedSpec`
("everybody able to bet has acted since the last raise and matched it").  The step theorems describe what one
accepted action does next, by cases on the rule: round still open → the next live seat clockwise; all but one
folded → hand over, nothing dealt; at most one seat can still bet → run-out, no further action; otherwise the
next street with exactly 3/1/1 cards from the top of the deck (unless already on the board) and the first live
seat to act.  `s1` is the state right after `append_action`, `s'` the state after `advance_action`.

Open finding F6 concerns the *constructed* state only (the opener may be all-in): `construct_actor` gives the
seat, `StartOK` is the extra hypothesis under which it is live; every state after an accepted action is covered
unconditionally by `actor_live`.
-/
namespace CardVerif.C03
open CardVerif CardVerif.Betting

-- some hypotheses (`hw`, `hv`) are kept in statements that turn out not to need them
set_option linter.unusedVariables false

/-- the highest contribution is always held by a seat that has not folded (invariant I1) -/
theorem max_holder_not_folded (env : Env) (cfg : Cfg) (hw : env.w = World.std) (hv : cfg.Valid) {s : State}
    (h : Reachable env cfg s) :
    ∃ p, p < s.n ∧ folded s.lastActions p = false ∧ ∀ q, q < s.n → getI s.pot q ≤ getI s.pot p := by
  exact (reachable_tab hw hv h).i1

/-- **closure rule**: the implementation's test is the rule, on every table whose highest contribution is held by a
non-folded seat (in particular on every reachable state) -/
theorem closed_iff (n : Nat) (la : List (Option ActType)) (pot «stacks» : List Int) (hn : 2 ≤ n)
    (hla : la.length = n) (hp : pot.length = n) (hs : «stacks».length = n)
    (hI1 : ∃ p, p < n ∧ folded la p = false ∧ ∀ q, q < n → getI pot q ≤ getI pot p) :
    isActionClosedFn n la pot «stacks» = .ok (closedSpec n la pot «stacks») := by
  exact closed_iff_fn n la pot «stacks» hn hla hp hs hI1

theorem closed_iff_reachable (env : Env) (cfg : Cfg) (hw : env.w = World.std) (hv : cfg.Valid) {s : State}
    (h : Reachable env cfg s) : s.isActionClosed = .ok s.closedSpec := by
  exact (reachable_tab hw hv h).closed

/-- construction: pre-flop, action on the seat left of the big blind (the button heads-up), forced bets posted
(heads-up the bigger blind goes to seat 0 whichever order was given) -/
theorem construct_actor (cfg : Cfg) (hv : cfg.Valid) {s : State} (h : construct cfg = .ok s) :
    s.street = 0 ∧ s.action = some (if cfg.n = 2 then 1 else 2) ∧ s.complete = false ∧
    s.board = cfg.board ∧ s.deck = cfg.deck ∧ (∀ p, p < cfg.n → (s.lastActions[p]?).join = none) := by
  obtain ⟨hn, _, _, _, _, _, _, _, _, hdeck, hboard, hst, _, hla, _, _, hc, hact, _, _⟩ := construct_frame h
  refine ⟨hst, ?_, hc, hboard, hdeck, ?_⟩
  · rw [hact]
    unfold State.utgPreflop
    rw [hn]
    by_cases h2 : cfg.n = 2 <;> simp [h2]
  · intro p _
    rw [hla, List.getElem?_map]
    cases cfg.startingStacks[p]? <;> rfl

theorem blind_flip (cfg : Cfg) (hv : cfg.Valid) (hn : cfg.n = 2) (a b : Int) (hb : cfg.blinds = some [a, b])
    {s : State} (h : construct cfg = .ok s) : s.blinds = [max a b, min a b] := by
  obtain ⟨_, _, _, _, _, hbl, _⟩ := construct_frame h
  unfold cfgBlinds at hbl
  rw [hb] at hbl
  simp only [hn, beq_self_eq_true, if_true, pure, Except.pure, Except.ok.injEq] at hbl
  rw [← hbl]
  by_cases hab : a < b
  · rw [if_pos hab, max_eq_right (by omega), min_eq_left (by omega)]
  · rw [if_neg hab, max_eq_left (by omega), min_eq_right (by omega)]

/-- after every accepted action of a hand still in progress the seat asked to act is live -/
theorem actor_live (env : Env) (cfg : Cfg) (hw : env.w = World.std) (hv : cfg.Valid) {s s' : State}
    (h : Reachable env cfg s) (p : Int) (ty : Option ActType) (amt : Option Int)
    (hact : s.act env p ty amt = .ok s') (hc : s'.complete = false) :
    ∃ a, s'.action = some a ∧ a < s'.n ∧ s'.live a = true := by
  obtain ⟨s1, h1, h2⟩ := act_ok.1 hact
  have hn : 0 < s1.n := by
    rw [(appendAction_frame h1).1.n, (reachable_cfgOf h).n]
    have := hv.n_ge; omega
  exact advanceAction_actor_live hn h2 hc

/-- round still open ⇒ nothing moves except the action, which passes to the next live seat clockwise -/
theorem step_open (env : Env) (cfg : Cfg) (hw : env.w = World.std) (hv : cfg.Valid) {s s1 : State}
    (h : Reachable env cfg s) (p : Int) (ty : Option ActType) (amt : Option Int)
    (h1 : s.appendAction env.w p ty amt = .ok s1) (hopen : s1.closedSpec = false) :
    ∃ s' a, s1.advanceAction env = .ok s' ∧ s1.action = some a ∧ s'.action = s1.nextLive a ∧ s'.action.isSome ∧
      s'.street = s1.street ∧ s'.board = s1.board ∧ s'.deck = s1.deck ∧ s'.complete = false ∧
      s'.stacks = s1.stacks ∧ s'.pot = s1.pot ∧ s'.lastActions = s1.lastActions := by
  rw [hw] at h1
  have hwf := (reachable_inv hw hv h).wf hv
  have ht1 := appendAction_tab hwf (reachable_tab hw hv h) h1
  have hc := (appendAction_ok.1 h1).1
  obtain ⟨_, t1, r1⟩ := appendAction_frame h1
  have hst : s1.street < 4 := by
    obtain ⟨hle, hiff⟩ := reachable_street h
    rw [t1.street]
    have : s.street ≠ 4 := fun e => by have := hiff.2 e; rw [hc] at this; cases this
    omega
  obtain ⟨a, ha⟩ := Option.isSome_iff_exists.1 (hwf.action_some hc)
  have ha1 : s1.action = some a := by rw [t1.action]; exact ha
  obtain ⟨q, hq, hadv⟩ := advanceAction_open env ht1 hopen hst a ha1
  exact ⟨_, a, hadv, ha1, hq.symm, rfl, rfl, rfl, rfl, by show s1.complete = false; rw [r1.complete, hc],
    rfl, rfl, rfl⟩

def nonFoldedCount (s : State) : Nat := ((List.range s.n).filter fun p => !folded s.lastActions p).length
def liveCount (s : State) : Nat := ((List.range s.n).filter fun p => s.live p).length

/-- round closed with at most one seat able to bet (everyone else folded or all-in) ⇒ the hand ends at once:
showdown street, no seat to act, and neither board nor deck changes (run-out boards are restored) -/
theorem step_closed_no_more_betting (env : Env) (cfg : Cfg) (hw : env.w = World.std) (hv : cfg.Valid)
    {s s1 s' : State} (h : Reachable env cfg s) (p : Int) (ty : Option ActType) (amt : Option Int)
    (h1 : s.appendAction env.w p ty amt = .ok s1) (hcl : s1.closedSpec = true) (hlive : liveCount s1 ≤ 1)
    (hadv : s1.advanceAction env = .ok s') :
    s'.complete = true ∧ s'.street = 4 ∧ s'.action = none ∧ s'.board = s1.board ∧ s'.deck = s1.deck ∧
    s'.stacks = s1.stacks ∧ s'.pot = s1.pot := by
  rw [hw] at h1
  have hwf := (reachable_inv hw hv h).wf hv
  have ht1 := appendAction_tab hwf (reachable_tab hw hv h) h1
  have hc := (appendAction_ok.1 h1).1
  obtain ⟨_, t1, r1⟩ := appendAction_frame h1
  have hst : s1.street < 4 := by
    obtain ⟨hle, hiff⟩ := reachable_street h
    rw [t1.street]
    have : s.street ≠ 4 := fun e => by have := hiff.2 e; rw [hc] at this; cases this
    omega
  obtain ⟨a1, a2, a3, a4, a5, a6, a7, _⟩ := advanceAction_runout ht1 hcl hlive hst hadv
  exact ⟨a1, a2, a3, a4, a5, a6, a7⟩

/-- cards dealt when street `st` opens on a board of `len` cards: 3, 1, 1 – nothing if they were supplied -/
def dealCount (st len : Nat) : Nat :=
  if st = 1 ∧ len = 0 then 3 else if st = 2 ∧ len ≤ 3 then 1 else if st = 3 ∧ len ≤ 4 then 1 else 0

/-- round closed with at least two seats able to bet ⇒ exactly one street further: after the river the hand is
complete; otherwise the new street's cards come off the top of the deck, last actions are cleared (folds stay),
and the first live seat (lowest index) acts -/
theorem step_closed_next_street (env : Env) (cfg : Cfg) (hw : env.w = World.std) (hv : cfg.Valid)
    {s s1 s' : State} (h : Reachable env cfg s) (p : Int) (ty : Option ActType) (amt : Option Int)
    (h1 : s.appendAction env.w p ty amt = .ok s1) (hcl : s1.closedSpec = true) (hlive : 2 ≤ liveCount s1)
    (hadv : s1.advanceAction env = .ok s') :
    s'.street = s1.street + 1 ∧ s'.stacks = s1.stacks ∧ s'.pot = s1.pot ∧
    (s1.street = 3 → s'.complete = true ∧ s'.board = s1.board ∧ s'.deck = s1.deck) ∧
    (s1.street < 3 → s'.complete = false ∧
      s'.board = s1.board ++ s1.deck.take (dealCount s'.street s1.board.length) ∧
      s'.deck = s1.deck.drop (dealCount s'.street s1.board.length) ∧
      s'.action = (List.range s1.n).find? (fun q => s1.live q) ∧ s'.action.isSome ∧
      ∀ q, q < s1.n → (s'.lastActions[q]?).join = if folded s1.lastActions q then some .fold else none) := by
  rw [hw] at h1
  have hwf := (reachable_inv hw hv h).wf hv
  have ht1 := appendAction_tab hwf (reachable_tab hw hv h) h1
  have hc := (appendAction_ok.1 h1).1
  obtain ⟨_, t1, r1⟩ := appendAction_frame h1
  have hst : s1.street < 4 := by
    obtain ⟨hle, hiff⟩ := reachable_street h
    rw [t1.street]
    have : s.street ≠ 4 := fun e => by have := hiff.2 e; rw [hc] at this; cases this
    omega
  obtain ⟨a, hfind, hcase⟩ := advanceAction_nextStreet ht1 hcl hlive hst hadv
  rcases hcase with ⟨hlt, rfl⟩ | ⟨h3, pay, rake, rfl⟩
  · refine ⟨rfl, rfl, rfl, fun e => by omega, fun _ => ⟨?_, rfl, rfl, hfind.symm, rfl, ?_⟩⟩
    · show s1.complete = false
      rw [r1.complete, hc]
    · intro q _
      exact join_resetLA s1.lastActions q
  · exact ⟨rfl, rfl, rfl, fun _ => ⟨rfl, rfl, rfl⟩, fun e => by omega⟩

/-- the street never exceeds the showdown street and a complete hand is on it -/
theorem street_le (env : Env) (cfg : Cfg) (hw : env.w = World.std) (hv : cfg.Valid) {s : State}
    (h : Reachable env cfg s) : s.street ≤ 4 ∧ (s.complete = true ↔ s.street = 4) := by
  exact reachable_street h

end CardVerif.C03
