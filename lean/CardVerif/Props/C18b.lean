import CardModel.Spec.Symmetry
import CardModel.Model.Misc
import CardVerif.Props.C08
import CardVerif.Proofs.SymGin
/-!
# C18 (part b) — canonical form; gin evaluations under card order and suit relabelling
-/
namespace CardVerif.C18
open CardVerif CardVerif.Sym CardVerif.Misc CardVerif.Gin

/-- the canonical form is the hand with suits relabelled by the returned map, in some order -/
theorem canon_iso (h : List Card) (hv : ∀ c ∈ h, c.suit < 4) :
    let (c, m) := canonizeHand h
    (∀ e ∈ m, e.1 < 4 ∧ e.2 < 4) ∧ (m.map (·.2)).Nodup ∧ (m.map (·.1)).Nodup ∧
    c.Perm (h.map fun x => ⟨x.rank, match m.find? (·.1 == x.suit) with | some e => e.2 | none => x.suit⟩) := by
  have h1 := canon_iso_aux h hv
  revert h1
  generalize canonizeHand h = p
  obtain ⟨c, m⟩ := p
  exact id

-- `hv`, `hnd` are not needed: idempotence holds for every list of cards
set_option linter.unusedVariables false in
/-- canonising twice changes nothing -/
theorem canon_idem (h : List Card) (hv : ∀ c ∈ h, c.suit < 4) (hnd : h.Nodup) :
    (canonizeHand (canonizeHand h).1).1 = (canonizeHand h).1 := by
  exact canon_idem_aux h

-- `hnd` is not needed: duplicate cards do not matter
set_option linter.unusedVariables false in
/-- suit-isomorphic hands, in whatever order, have the same canonical form -/
theorem canon_invariant (σ : Nat → Nat) (hσ : SuitPerm σ) (h h' : List Card) (hv : ∀ c ∈ h, c.suit < 4)
    (hnd : h.Nodup) (hi : Image σ h h') : (canonizeHand h').1 = (canonizeHand h).1 := by
  exact canon_invariant_aux hσ hv hi

/-- gin deadwood of the best split -/
theorem split_deadwood_sym (σ : Nat → Nat) (hσ : SuitPerm σ) (h h' : List Card) (hok : HandOK h)
    (hlen : h.length ≤ 11) (hi : Image σ h h') (c c' : Candidate)
    (hc : splitMelds h = .ok c) (hc' : splitMelds h' = .ok c') : c'.deadwood = c.deadwood := by
  exact split_deadwood_sym_aux hσ hok hlen hi c c' hc hc'

end CardVerif.C18
