import CardVerif.Props.C15
import CardVerif.Proofs.LogFree
/-!
# C15b — resuming a hand *without* the action log

The informal property lists the serialisable fields of a hand in progress as "stacks, pot contributions, street, seat
to act, last actions, board, deck" — the action log is not among them.  `C15.resume` hands the log back to the
constructor; here it is shown that the log does not matter:

* `EqModLog a b` – `a` and `b` agree in every field except `log`; `ResEqModLog x y` – two results of the engine are
  the same error, or both accepted with states that agree except for the log.
* `act_modlog` – **the engine never reads the log**: `act` on two states that agree except for the log accepts or
  rejects alike (same error) and the new states again agree except for the log.  `run_modlog` – the same for any
  sequence of operations.
* `resume_nolog` – the constructor applied to the serialisable fields of a reachable hand in progress and *any* log
  `l` (in particular `[]`: no log at all) gives back the state with `log := l`; the constructor does not validate the
  log in any way.
* `resume_nolog_bisim` – hence the hand resumed without its log (or with any other log) accepts and rejects the same
  actions and reaches the same results for ever; `resume_nolog_fields` spells "the same results" out field by field:
  only `log` may differ.
-/
namespace CardVerif.C15
open CardVerif CardVerif.Betting

-- `hw` is kept in the statements for uniformity with `C15.resume`
set_option linter.unusedVariables false

/-! ## equality up to the log -/

/-- equal in every field except the log -/
def EqModLog (a b : State) : Prop := { a with log := [] } = { b with log := [] }

/-- `EqModLog` means what it says: the nineteen fields other than `log` coincide -/
theorem eqModLog_iff (a b : State) :
    EqModLog a b ↔
      a.game = b.game ∧ a.n = b.n ∧ a.hands = b.hands ∧ a.startingStacks = b.startingStacks ∧ a.ante = b.ante ∧
      a.blinds = b.blinds ∧ a.runouts = b.runouts ∧ a.rake = b.rake ∧ a.sampler = b.sampler ∧ a.deck = b.deck ∧
      a.board = b.board ∧ a.stacks = b.stacks ∧ a.pot = b.pot ∧ a.lastActions = b.lastActions ∧
      a.street = b.street ∧ a.action = b.action ∧ a.payouts = b.payouts ∧ a.rakePaid = b.rakePaid ∧
      a.complete = b.complete := by
  constructor
  · intro h
    have p : ∀ {α : Type} (f : State → α), f { a with log := [] } = f { b with log := [] } :=
      fun f => congrArg f h
    exact ⟨p State.game, p State.n, p State.hands, p State.startingStacks, p State.ante, p State.blinds,
      p State.runouts, p State.rake, p State.sampler, p State.deck, p State.board, p State.stacks, p State.pot,
      p State.lastActions, p State.street, p State.action, p State.payouts, p State.rakePaid, p State.complete⟩
  · rintro ⟨h1, h2, h3, h4, h5, h6, h7, h8, h9, h10, h11, h12, h13, h14, h15, h16, h18, h19, h20⟩
    exact State.ext' h1 h2 h3 h4 h5 h6 h7 h8 h9 h10 h11 h12 h13 h14 h15 h16 rfl h18 h19 h20

theorem EqModLog.refl (a : State) : EqModLog a a := rfl
theorem EqModLog.symm {a b : State} (h : EqModLog a b) : EqModLog b a := Eq.symm h
theorem EqModLog.trans {a b c : State} (h1 : EqModLog a b) (h2 : EqModLog b c) : EqModLog a c := Eq.trans h1 h2

/-- replacing the log gives a state equal up to the log -/
theorem eqModLog_setLog (s : State) (l : List LogEntry) : EqModLog { s with log := l } s := rfl

/-- two states equal up to the log with the same log are equal -/
theorem EqModLog.eq_of_log {a b : State} (h : EqModLog a b) (hl : a.log = b.log) : a = b := by
  have := lf_eq_setLog h
  rw [hl] at this
  exact this

/-- two results of the engine that agree up to the log: the same error, or both accepted with states equal up to
the log -/
def ResEqModLog : Except Err State → Except Err State → Prop
  | .ok a, .ok b => EqModLog a b
  | .error e, .error e' => e = e'
  | _, _ => False

theorem resEqModLog_iff (x y : Except Err State) :
    ResEqModLog x y ↔
      (∃ e, x = .error e ∧ y = .error e) ∨ (∃ a b, x = .ok a ∧ y = .ok b ∧ EqModLog a b) := by
  cases x <;> cases y <;> simp [ResEqModLog]
  exact eq_comm

/-- accepted on one side ⇒ accepted on the other, with a state equal up to the log -/
theorem ResEqModLog.ok {x y : Except Err State} (h : ResEqModLog x y) {a : State} (hx : x = .ok a) :
    ∃ b, y = .ok b ∧ EqModLog a b := by
  subst hx
  cases y with
  | error e => exact h.elim
  | ok b => exact ⟨b, rfl, h⟩

/-- rejected on one side ⇒ rejected on the other with the same error -/
theorem ResEqModLog.error {x y : Except Err State} (h : ResEqModLog x y) {e : Err} (hx : x = .error e) :
    y = .error e := by
  subst hx
  cases y with
  | error e' => exact congrArg Except.error (Eq.symm h)
  | ok b => exact h.elim

theorem ResEqModLog.symm {x y : Except Err State} (h : ResEqModLog x y) : ResEqModLog y x := by
  cases x <;> cases y
  · exact Eq.symm h
  · exact h
  · exact h
  · exact EqModLog.symm h

theorem resEqModLog_of_erased {x y : Except Err State}
    (h : x.map (lf_setLog []) = y.map (lf_setLog [])) : ResEqModLog x y := by
  rcases lf_erased_cases h with ⟨e, rfl, rfl⟩ | ⟨a, b, rfl, rfl, hab⟩
  · exact rfl
  · exact hab

/-! ## the engine never reads the log -/

/-- **`act` never reads the log.**  On two states that agree except for the log, every call of `act` is either
rejected on both with the same error, or accepted on both with new states that again agree except for the log. -/
theorem act_modlog (env : Env) {a b : State} (h : EqModLog a b) (p : Int) (ty : Option ActType) (amt : Option Int) :
    ResEqModLog (a.act env p ty amt) (b.act env p ty amt) :=
  resEqModLog_of_erased (lf_act env h p ty amt)

/-- `act_modlog`, accepted case -/
theorem act_modlog_ok (env : Env) {a b a' : State} (h : EqModLog a b) (p : Int) (ty : Option ActType)
    (amt : Option Int) (ha : a.act env p ty amt = .ok a') : ∃ b', b.act env p ty amt = .ok b' ∧ EqModLog a' b' :=
  (act_modlog env h p ty amt).ok ha

/-- `act_modlog`, rejected case -/
theorem act_modlog_error (env : Env) {a b : State} (h : EqModLog a b) (p : Int) (ty : Option ActType)
    (amt : Option Int) (e : Err) (ha : a.act env p ty amt = .error e) : b.act env p ty amt = .error e :=
  (act_modlog env h p ty amt).error ha

/-- **the same for a whole sequence of operations** (stopping at the first rejected one, as `foldlM` does) -/
theorem run_modlog (env : Env) {a b : State} (h : EqModLog a b) (ops : List Op) :
    ResEqModLog (ops.foldlM (fun st o => st.act env o.player o.ty o.amount) a)
      (ops.foldlM (fun st o => st.act env o.player o.ty o.amount) b) :=
  resEqModLog_of_erased (lf_run env ops h)

/-! ## resuming without the log -/

/-- **resume with any log**: the constructor applied to the serialisable fields of a reachable hand in progress and an
arbitrary log `l` gives back the state with `log := l`.  With `l := []` this is resuming *without* the log; with
`l := s.log` it is `C15.resume`.  (The constructor only copies the log; it does not check it against the other
fields, so this holds for every `l`.) -/
theorem resume_nolog (env : Env) (cfg : Cfg) (hw : env.w = World.std) (hv : cfg.Valid) {s : State}
    (h : Reachable env cfg s) (hc : s.complete = false) (a : Nat) (ha : s.action = some a) (l : List LogEntry) :
    construct (resumeCfg cfg s) (some ⟨s.stacks, s.pot, s.street, a, s.lastActions, l⟩) = .ok { s with log := l } := by
  have key := lf_construct_log (resumeCfg cfg s) ⟨s.stacks, s.pot, s.street, a, s.lastActions, s.log⟩ l
  rw [resume env cfg hw hv h hc a ha] at key
  exact key

/-- the special case named in the property: no log at all -/
theorem resume_nolog_nil (env : Env) (cfg : Cfg) (hw : env.w = World.std) (hv : cfg.Valid) {s : State}
    (h : Reachable env cfg s) (hc : s.complete = false) (a : Nat) (ha : s.action = some a) :
    construct (resumeCfg cfg s) (some ⟨s.stacks, s.pot, s.street, a, s.lastActions, []⟩) = .ok { s with log := [] } :=
  resume_nolog env cfg hw hv h hc a ha []

/-- **the hand resumed without its log behaves like the original for ever**: if `r` is what the constructor returns
for the serialisable fields of `s` and the log `l` (`l := []`: no log), then every sequence of operations is rejected
at the same point with the same error on `r` and on `s`, or accepted on both with final states that agree except for
the log -/
theorem resume_nolog_bisim (env : Env) (cfg : Cfg) (hw : env.w = World.std) (hv : cfg.Valid) {s r : State}
    (h : Reachable env cfg s) (hc : s.complete = false) (a : Nat) (ha : s.action = some a) (l : List LogEntry)
    (hr : construct (resumeCfg cfg s) (some ⟨s.stacks, s.pot, s.street, a, s.lastActions, l⟩) = .ok r)
    (ops : List Op) :
    ResEqModLog (ops.foldlM (fun st o => st.act env o.player o.ty o.amount) r)
      (ops.foldlM (fun st o => st.act env o.player o.ty o.amount) s) := by
  rw [resume_nolog env cfg hw hv h hc a ha l] at hr
  rw [← Except.ok.inj hr]
  exact run_modlog env (eqModLog_setLog s l) ops

/-- `resume_nolog_bisim` for `l := []`, spelled out: the runs from the hand `r` resumed without the log and from the
original `s` fail alike (same error), and when one succeeds so does the other and the two final states have the same
stacks, pot, street, seat to act, board, deck, last actions, completion flag, payouts and rake (and the same
configuration fields): everything except `log` -/
theorem resume_nolog_fields (env : Env) (cfg : Cfg) (hw : env.w = World.std) (hv : cfg.Valid) {s r : State}
    (h : Reachable env cfg s) (hc : s.complete = false) (a : Nat) (ha : s.action = some a)
    (hr : construct (resumeCfg cfg s) (some ⟨s.stacks, s.pot, s.street, a, s.lastActions, []⟩) = .ok r)
    (ops : List Op) :
    (∀ e, ops.foldlM (fun st o => st.act env o.player o.ty o.amount) r = .error e ↔
          ops.foldlM (fun st o => st.act env o.player o.ty o.amount) s = .error e) ∧
    (∀ s', ops.foldlM (fun st o => st.act env o.player o.ty o.amount) s = .ok s' →
      ∃ r', ops.foldlM (fun st o => st.act env o.player o.ty o.amount) r = .ok r' ∧
        r'.stacks = s'.stacks ∧ r'.pot = s'.pot ∧ r'.street = s'.street ∧ r'.action = s'.action ∧
        r'.board = s'.board ∧ r'.deck = s'.deck ∧ r'.lastActions = s'.lastActions ∧ r'.complete = s'.complete ∧
        r'.payouts = s'.payouts ∧ r'.rakePaid = s'.rakePaid ∧
        r'.game = s'.game ∧ r'.n = s'.n ∧ r'.hands = s'.hands ∧ r'.startingStacks = s'.startingStacks ∧
        r'.ante = s'.ante ∧ r'.blinds = s'.blinds ∧ r'.runouts = s'.runouts ∧ r'.rake = s'.rake ∧
        r'.sampler = s'.sampler) ∧
    (∀ r', ops.foldlM (fun st o => st.act env o.player o.ty o.amount) r = .ok r' →
      ∃ s', ops.foldlM (fun st o => st.act env o.player o.ty o.amount) s = .ok s' ∧ EqModLog r' s') := by
  have key := resume_nolog_bisim env cfg hw hv h hc a ha [] hr ops
  refine ⟨fun e => ⟨fun he => key.error he, fun he => key.symm.error he⟩, ?_, fun r' hr' => key.ok hr'⟩
  intro s' hs'
  obtain ⟨r', hr', hm⟩ := key.symm.ok hs'
  obtain ⟨h1, h2, h3, h4, h5, h6, h7, h8, h9, h10, h11, h12, h13, h14, h15, h16, h18, h19, h20⟩ :=
    (eqModLog_iff r' s').1 hm.symm
  exact ⟨r', hr', h12, h13, h15, h16, h11, h10, h14, h20, h18, h19, h1, h2, h3, h4, h5, h6, h7, h8, h9⟩

end CardVerif.C15
