import CardModel.Spec.Legality
import CardVerif.Props.C02
import CardVerif.Props.C14
import CardVerif.Proofs.BettingInv
/-!
# C01 — chips are conserved

By induction over the accepted actions (`Reachable`), for every valid configuration: any number of seats,
any stacks (including shorter than the forced bets), antes, blinds, rake and run-out settings, and any hand
evaluator (`env.rankFn` is arbitrary).  A rejected action produces no new state in the model, so "after every
accepted or rejected operation" is covered by the reachable states.
-/
namespace CardVerif.C01
open CardVerif CardVerif.Betting

/-- the constructor accepts every valid configuration -/
theorem construct_ok (cfg : Cfg) (hv : cfg.Valid) : ∃ s, construct cfg = .ok s := by
  obtain ⟨s, h, _⟩ := construct_total hv
  exact ⟨s, h⟩

/-- stacks + pot = starting stacks, nothing negative, after construction and after every action -/
theorem conservation (env : Env) (cfg : Cfg) (hw : env.w = World.std) (hv : cfg.Valid) {s : State}
    (h : Reachable env cfg s) :
    sumI s.stacks + sumI s.pot = sumI cfg.startingStacks ∧ (∀ x ∈ s.stacks, 0 ≤ x) ∧ (∀ x ∈ s.pot, 0 ≤ x) ∧
    s.stacks.length = cfg.n ∧ s.pot.length = cfg.n := by
  have c := (reachable_inv hw hv h).chips
  exact ⟨c.total, c.stacks_nonneg, c.pot_nonneg, c.stacks_len, c.pot_len⟩

/-- every reachable state is well-formed (used by C03, C04, C13) -/
theorem reachable_wf (env : Env) (cfg : Cfg) (hw : env.w = World.std) (hv : cfg.Valid) {s : State}
    (h : Reachable env cfg s) : s.WF :=
  (reachable_inv hw hv h).wf hv

/-- at completion: payouts + rake = pot, no payout negative, profit-and-loss sums to minus the rake
(exact rationals; any rounding function `fl` that is monotone and fixes integers) -/
theorem completion (env : Env) (cfg : Cfg) (hw : env.w = World.std) (hfl : C14.FlSpec env.fl) (hv : cfg.Valid)
    {s : State} (h : Reachable env cfg s) (hc : s.complete = true) :
    ∃ pay rake, s.payouts = some pay ∧ s.rakePaid = some rake ∧ pay.length = cfg.n ∧ rake.length = cfg.n ∧
      sumQ pay + sumQ rake = ((sumI s.pot : Int) : Rat) ∧ (∀ x ∈ pay, 0 ≤ x) ∧
      sumQ ((List.range cfg.n).map s.pnl) = - sumQ rake := by
  obtain ⟨pay, rake, hp, hr, l1, l2, hsum, hnn⟩ := reachable_complete hw hfl hv h hc
  have hi := reachable_inv hw hv h
  refine ⟨pay, rake, hp, hr, l1, l2, hsum, hnn, ?_⟩
  have hn := hi.cfgOf.n
  have := sum_pnl s pay hp (by rw [l1, hn]) (by rw [hn]; exact hi.chips.stacks_len)
    (by rw [hi.cfgOf.startingStacks, hn]; exact hv.stacks_len)
  rw [hn] at this
  rw [this, hi.cfgOf.startingStacks]
  have ht := hi.chips.total
  have e : sumI s.stacks - sumI cfg.startingStacks = - sumI s.pot := by omega
  rw [e]
  push_cast
  linarith

/-- `completion` for a rounding that is exact only up to `B`, with at most `B` chips on the table -/
theorem completion_B (env : Env) (cfg : Cfg) (hw : env.w = World.std) {B : Int} (hfl : C14.FlSpecB B env.fl)
    (hv : cfg.Valid) (hB : sumI cfg.startingStacks ≤ B) {s : State} (h : Reachable env cfg s)
    (hc : s.complete = true) :
    ∃ pay rake, s.payouts = some pay ∧ s.rakePaid = some rake ∧ pay.length = cfg.n ∧ rake.length = cfg.n ∧
      sumQ pay + sumQ rake = ((sumI s.pot : Int) : Rat) ∧ (∀ x ∈ pay, 0 ≤ x) ∧
      sumQ ((List.range cfg.n).map s.pnl) = - sumQ rake := by
  obtain ⟨pay, rake, hp, hr, l1, l2, hsum, hnn⟩ := reachable_complete_B hw hfl hv hB h hc
  have hi := reachable_inv hw hv h
  refine ⟨pay, rake, hp, hr, l1, l2, hsum, hnn, ?_⟩
  have hn := hi.cfgOf.n
  have := sum_pnl s pay hp (by rw [l1, hn]) (by rw [hn]; exact hi.chips.stacks_len)
    (by rw [hi.cfgOf.startingStacks, hn]; exact hv.stacks_len)
  rw [hn] at this
  rw [this, hi.cfgOf.startingStacks]
  have ht := hi.chips.total
  have e : sumI s.stacks - sumI cfg.startingStacks = - sumI s.pot := by omega
  rw [e]
  push_cast
  linarith

/-- **`completion` for IEEE doubles**: the engine run with `fl := Float53.rnd` (round to nearest, ties to even, 53-bit
significand — what the native driver executes) settles every hand exactly, provided the chips on the table do not
exceed `2^53` -/
theorem completion_f53 (env : Env) (cfg : Cfg) (hw : env.w = World.std) (hfl : env.fl = Float53.rnd) (hv : cfg.Valid)
    (hB : sumI cfg.startingStacks ≤ 2 ^ 53) {s : State} (h : Reachable env cfg s) (hc : s.complete = true) :
    ∃ pay rake, s.payouts = some pay ∧ s.rakePaid = some rake ∧ pay.length = cfg.n ∧ rake.length = cfg.n ∧
      sumQ pay + sumQ rake = ((sumI s.pot : Int) : Rat) ∧ (∀ x ∈ pay, 0 ≤ x) ∧
      sumQ ((List.range cfg.n).map s.pnl) = - sumQ rake :=
  completion_B env cfg hw (by rw [hfl]; exact C14.flSpecB_f53) hv hB h hc

/-- while the hand is in progress nothing has been paid out -/
theorem in_progress_no_payouts (env : Env) (cfg : Cfg) {s : State} (h : Reachable env cfg s)
    (hc : s.complete = false) : s.payouts = none ∧ s.rakePaid = none :=
  reachable_no_payouts h hc

end CardVerif.C01
