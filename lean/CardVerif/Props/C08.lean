import CardModel.Spec.GinMeldRules
import CardVerif.Proofs.MeldEnum
import CardVerif.Proofs.MeldSearch
/-!
# C08 — the gin rummy meld search returns a legal arrangement with minimum deadwood

`allMelds_exact`: the enumeration (`get_sets` + `rank_straights` per suit) lists exactly the legal melds inside the
hand, each once.  On top of it: the best split is a legal arrangement, its unmelded cards are the rest of the hand,
its deadwood is their pip total, and **no** arrangement of the hand has lower deadwood (an arrangement of at most
11 cards has at most 3 melds, and every ≤ 3-subset of the meld list is tried).  The candidate list offered to a
knocker is exactly the arrangements of ≤ 3 melds within the limit – or a single gin arrangement when asked to stop.
-/
namespace CardVerif.C08
open CardVerif CardVerif.Gin

theorem allMelds_exact (hand : List Card) (hok : HandOK hand) (hlen : hand.length ≤ 11) : AllMeldsExact hand := by
  exact allMelds_exact_thm hand hok hlen

/-- the best split is a legal arrangement of the hand, the unmelded cards are exactly the rest, and the reported
deadwood is their pip total -/
theorem split_legal (hand : List Card) (hok : HandOK hand) (hlen : hand.length ≤ 11) (c : Candidate)
    (h : splitMelds hand = .ok c) :
    Arrangement hand c.melds ∧ c.unmelded.Perm (restOf hand c.melds) ∧ c.deadwood = deadwood c.unmelded := by
  exact split_legal_of hand hok hlen (allMelds_exact_thm hand hok hlen) c h

/-- `split_melds` never fails -/
theorem split_total (hand : List Card) : ∃ c, splitMelds hand = .ok c := by
  exact split_total_thm hand

/-- **optimality**: no legal arrangement of the hand has lower deadwood -/
theorem split_optimal (hand : List Card) (hok : HandOK hand) (hlen : hand.length ≤ 11) (c : Candidate)
    (h : splitMelds hand = .ok c) (ms : List (List Card)) (harr : Arrangement hand ms) :
    c.deadwood ≤ deadwood (restOf hand ms) := by
  exact split_optimal_of hand hok hlen (allMelds_exact_thm hand hok hlen) c h ms harr

/-- every listed candidate is a legal arrangement of at most three melds within the limit -/
theorem candidates_sound (hand : List Card) (hok : HandOK hand) (hlen : hand.length ≤ 11) (maxDw : Option Nat)
    (stop : Bool) (c : Candidate) (hc : c ∈ getCandidateMelds hand maxDw stop) :
    Arrangement hand c.melds ∧ c.melds.length ≤ 3 ∧ c.unmelded.Perm (restOf hand c.melds) ∧
    c.deadwood = deadwood c.unmelded ∧ (∀ d, maxDw = some d → c.deadwood ≤ d) := by
  exact candidates_sound_of hand hok hlen (allMelds_exact_thm hand hok hlen) maxDw stop c hc

/-- without the gin stop, every arrangement of at most three melds within the limit is listed (up to the order of
cards inside melds and of the melds) -/
theorem candidates_complete (hand : List Card) (hok : HandOK hand) (hlen : hand.length ≤ 11) (maxDw : Option Nat)
    (ms : List (List Card)) (harr : Arrangement hand ms) (h3 : ms.length ≤ 3)
    (hd : ∀ d, maxDw = some d → deadwood (restOf hand ms) ≤ d) :
    ∃ c ∈ getCandidateMelds hand maxDw false, c.melds.length = ms.length ∧
      (∀ m ∈ ms, ∃ m' ∈ c.melds, m'.Perm m) ∧ c.deadwood = deadwood (restOf hand ms) := by
  exact candidates_complete_of hand hok hlen (allMelds_exact_thm hand hok hlen) maxDw ms harr h3 hd

/-- with the gin stop: if some arrangement of at most three melds has zero deadwood, the list is a single
zero-deadwood arrangement -/
theorem candidates_stop_on_gin (hand : List Card) (hok : HandOK hand) (hlen : hand.length ≤ 11) (maxDw : Option Nat)
    (ms : List (List Card)) (harr : Arrangement hand ms) (h3 : ms.length ≤ 3) (hne : ms ≠ [])
    (hz : deadwood (restOf hand ms) = 0) :
    ∃ c, getCandidateMelds hand maxDw true = [c] ∧ c.deadwood = 0 := by
  exact candidates_stop_on_gin_of hand hok hlen (allMelds_exact_thm hand hok hlen) maxDw ms harr h3 hne hz

end CardVerif.C08
