import CardVerif.Proofs.Rank5TableDefs
/-! # C05 — the finite table, lowest value 5 (kernel evaluation by `decide +kernel`) -/
namespace CardVerif.C05
set_option maxRecDepth 1000000

theorem table_5 : checkFrom 5 = true := by decide +kernel

end CardVerif.C05
