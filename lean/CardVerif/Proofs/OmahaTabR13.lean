import CardModel.Spec.OmahaTables
/-! # C06 — suit-free Omaha table, module 13 of 15 (compiled evaluation, `native_decide`; 408 board multisets × 1,820 hand multisets)

`tabR_a_blo_bhi`: the table holds on the ascending boards whose lowest value is `a` and whose second value lies in `[blo, bhi]`. -/
namespace CardVerif.OmahaD

/-- 204 boards -/
theorem tabR_6_7_8 : tableRc 6 7 8 = true := by native_decide

/-- 204 boards -/
theorem tabR_2_7_8 : tableRc 2 7 8 = true := by native_decide

end CardVerif.OmahaD
