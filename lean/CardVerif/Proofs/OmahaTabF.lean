import CardModel.Spec.OmahaDecomp
/-! # C06 — flush-suit Omaha table (compiled evaluation, `native_decide`)

`tabF_kb_lo`: the table holds on the flush-suit boards of `kb` ranks with lowest rank `lo`. -/
namespace CardVerif.OmahaD

theorem tabF_5_2 : tableF 5 2 = true := by native_decide
theorem tabF_5_3 : tableF 5 3 = true := by native_decide
theorem tabF_5_4 : tableF 5 4 = true := by native_decide
theorem tabF_5_5 : tableF 5 5 = true := by native_decide
theorem tabF_5_6 : tableF 5 6 = true := by native_decide
theorem tabF_5_7 : tableF 5 7 = true := by native_decide
theorem tabF_5_8 : tableF 5 8 = true := by native_decide
theorem tabF_5_9 : tableF 5 9 = true := by native_decide
theorem tabF_5_10 : tableF 5 10 = true := by native_decide

theorem tabF_4_2 : tableF 4 2 = true := by native_decide
theorem tabF_4_3 : tableF 4 3 = true := by native_decide
theorem tabF_4_4 : tableF 4 4 = true := by native_decide
theorem tabF_4_5 : tableF 4 5 = true := by native_decide
theorem tabF_4_6 : tableF 4 6 = true := by native_decide
theorem tabF_4_7 : tableF 4 7 = true := by native_decide
theorem tabF_4_8 : tableF 4 8 = true := by native_decide
theorem tabF_4_9 : tableF 4 9 = true := by native_decide
theorem tabF_4_10 : tableF 4 10 = true := by native_decide
theorem tabF_4_11 : tableF 4 11 = true := by native_decide

theorem tabF_3_2 : tableF 3 2 = true := by native_decide
theorem tabF_3_3 : tableF 3 3 = true := by native_decide
theorem tabF_3_4 : tableF 3 4 = true := by native_decide
theorem tabF_3_5 : tableF 3 5 = true := by native_decide
theorem tabF_3_6 : tableF 3 6 = true := by native_decide
theorem tabF_3_7 : tableF 3 7 = true := by native_decide
theorem tabF_3_8 : tableF 3 8 = true := by native_decide
theorem tabF_3_9 : tableF 3 9 = true := by native_decide
theorem tabF_3_10 : tableF 3 10 = true := by native_decide
theorem tabF_3_11 : tableF 3 11 = true := by native_decide
theorem tabF_3_12 : tableF 3 12 = true := by native_decide

end CardVerif.OmahaD
