import CardVerif.Proofs.Omaha.FastPerm1
import CardVerif.Proofs.Rank5
import CardVerif.Proofs.SymPoker
/-!
# Order independence of the optimised Omaha evaluator's two parts (part 2 and assembly)
-/
namespace CardVerif.OmahaD
open CardVerif CardVerif.Omaha

theorem fp2_maxN?_perm {l l' : List Nat} (h : l.Perm l') : maxN? l = maxN? l' := by
  have e : ∀ l : List Nat, maxN? l = if l = [] then none else some (l.foldl max 0) := by
    intro l
    cases l with
    | nil => rfl
    | cons x xs => simp [maxN?]
  rw [e, e]
  have h1 : l.foldl max 0 = l'.foldl max 0 := List.Perm.foldl_eq' h (fun x _ y _ z => by omega) 0
  have h2 : l = [] ↔ l' = [] := ⟨fun e => (e ▸ h).symm.eq_nil, fun e => (e ▸ h).eq_nil⟩
  rw [h1]
  by_cases hl : l = []
  · rw [if_pos hl, if_pos (h2.1 hl)]
  · rw [if_neg hl, if_neg (fun e => hl (h2.2 e))]

theorem fp2_maxN_perm {l l' : List Nat} (h : l.Perm l') : maxN l = maxN l' := by
  unfold maxN; rw [fp2_maxN?_perm h]

theorem fp2_isEmpty_perm {α : Type} {l l' : List α} (h : l.Perm l') : l.isEmpty = l'.isEmpty := by
  rw [Bool.eq_iff_iff, List.isEmpty_iff, List.isEmpty_iff]
  exact ⟨fun e => (e ▸ h).symm.eq_nil, fun e => (e ▸ h).eq_nil⟩

theorem fp2_contains_perm {l l' : List Nat} (h : l.Perm l') (x : Nat) : l.contains x = l'.contains x := by
  rw [Bool.eq_iff_iff, List.contains_iff_mem, List.contains_iff_mem]
  exact h.mem_iff

theorem fp2_highestExcept_perm {l l' : List Nat} (h : l.Perm l') (ex : List Nat) :
    highestExcept l ex = highestExcept l' ex := by
  unfold highestExcept
  exact fp2_maxN_perm (h.filter _)


theorem fp2_any_perm {α : Type} {l l' : List α} (h : l.Perm l') (p : α → Bool) : l.any p = l'.any p := by
  rw [Bool.eq_iff_iff, List.any_eq_true, List.any_eq_true]
  exact ⟨fun ⟨x, hx, hp⟩ => ⟨x, h.mem_iff.1 hx, hp⟩, fun ⟨x, hx, hp⟩ => ⟨x, h.mem_iff.2 hx, hp⟩⟩

theorem countItems_perm {l l' : List Nat} (h : l.Perm l') : (countItems l).Perm (countItems l') := by
  unfold countItems
  have e : (fun v => (v, (l.filter (· == v)).length)) = fun v => (v, (l'.filter (· == v)).length) := by
    funext v
    rw [(h.filter _).length_eq]
  rw [e]
  exact (Sym.dedupFirst_perm h).map _

theorem countItems_keys_nodup (l : List Nat) : (keys (countItems l)).Nodup := by
  unfold keys countItems
  rw [List.map_map]
  have : ((fun x : Nat × Nat => x.1) ∘ fun v => (v, (l.filter (· == v)).length)) = id := rfl
  rw [this, List.map_id]
  exact Sym.nodup_dedupFirst l

theorem bestTwoPair_perm {hv hv' bv bv' : Counts} (hh : hv.Perm hv') (hb : bv.Perm bv')
    (hhn : (keys hv).Nodup) (hbn : (keys bv).Nodup) : bestTwoPair hv bv = bestTwoPair hv' bv' := by
  have _ := hhn; have _ := hbn
  have hkb : (keys bv).Perm (keys bv') := hb.map _
  have hkh : (keys hv).Perm (keys hv') := hh.map _
  have hpb : (List.map (fun x : Nat × Nat => x.1) (List.filter (fun e => decide (e.2 ≥ 2)) bv)).Perm
      (List.map (fun x : Nat × Nat => x.1) (List.filter (fun e => decide (e.2 ≥ 2)) bv')) := (hb.filter _).map _
  have hph : (List.map (fun x : Nat × Nat => x.1) (List.filter (fun e => decide (e.2 ≥ 2)) hv)).Perm
      (List.map (fun x : Nat × Nat => x.1) (List.filter (fun e => decide (e.2 ≥ 2)) hv')) := (hh.filter _).map _
  unfold bestTwoPair
  generalize List.map (fun x : Nat × Nat => x.1) (List.filter (fun e => decide (e.2 ≥ 2)) bv) = pob at hpb ⊢
  generalize List.map (fun x : Nat × Nat => x.1) (List.filter (fun e => decide (e.2 ≥ 2)) bv') = pob' at hpb ⊢
  generalize List.map (fun x : Nat × Nat => x.1) (List.filter (fun e => decide (e.2 ≥ 2)) hv) = pih at hph ⊢
  generalize List.map (fun x : Nat × Nat => x.1) (List.filter (fun e => decide (e.2 ≥ 2)) hv') = pih' at hph ⊢
  generalize keys bv = kb at hkb ⊢
  generalize keys bv' = kb' at hkb ⊢
  generalize keys hv = kh at hkh ⊢
  generalize keys hv' = kh' at hkh ⊢
  have e1 := fp2_isEmpty_perm hpb
  have e2 := fp2_isEmpty_perm hph
  have e3 := fp2_maxN_perm (hpb.append hph)
  have e4 := fp2_contains_perm hpb
  have e5 := fp2_maxN_perm hpb
  have e6 := fp2_maxN_perm hph
  have e7 := fp2_highestExcept_perm hkb
  have e8 := fp2_highestExcept_perm hkh
  have e9 := fp2_contains_perm hkh
  have hnp : (List.filter (fun v => !pob'.contains v) kb).Perm (List.filter (fun v => !pob'.contains v) kb') :=
    hkb.filter _
  have hpw : (List.filter (fun v => kh'.contains v) (List.filter (fun v => !pob'.contains v) kb)).Perm
     (List.filter (fun v => kh'.contains v) (List.filter (fun v => !pob'.contains v) kb')) := hnp.filter _
  have e10 := fp2_isEmpty_perm hpw
  have e11 := fp2_maxN_perm hpw
  have hc : (List.filter (fun v => kh'.contains v) kb).Perm (List.filter (fun v => kh'.contains v) kb') :=
    hkb.filter _
  have e12 := hc.length_eq
  have e13 := fp2_maxN_perm hc
  have e14 := fp2_highestExcept_perm hc
  simp only [e1, e2, e3, e4, e5, e6, e7, e8, e9, e10, e11, e12, e13, e14]
theorem bestPair_perm {hv hv' bv bv' : Counts} (hh : hv.Perm hv') (hb : bv.Perm bv')
    (hhn : (keys hv).Nodup) (hbn : (keys bv).Nodup) : bestPair hv bv = bestPair hv' bv' := by
  have _ := hhn; have _ := hbn
  have hkb : (keys bv).Perm (keys bv') := hb.map _
  have hkh : (keys hv).Perm (keys hv') := hh.map _
  have hpb : (List.map (fun x : Nat × Nat => x.1) (List.filter (fun e => decide (e.2 ≥ 2)) bv)).Perm
      (List.map (fun x : Nat × Nat => x.1) (List.filter (fun e => decide (e.2 ≥ 2)) bv')) := (hb.filter _).map _
  have hph : (List.map (fun x : Nat × Nat => x.1) (List.filter (fun e => decide (e.2 ≥ 2)) hv)).Perm
      (List.map (fun x : Nat × Nat => x.1) (List.filter (fun e => decide (e.2 ≥ 2)) hv')) := (hh.filter _).map _
  unfold bestPair
  generalize List.map (fun x : Nat × Nat => x.1) (List.filter (fun e => decide (e.2 ≥ 2)) bv) = pob at hpb ⊢
  generalize List.map (fun x : Nat × Nat => x.1) (List.filter (fun e => decide (e.2 ≥ 2)) bv') = pob' at hpb ⊢
  generalize List.map (fun x : Nat × Nat => x.1) (List.filter (fun e => decide (e.2 ≥ 2)) hv) = pih at hph ⊢
  generalize List.map (fun x : Nat × Nat => x.1) (List.filter (fun e => decide (e.2 ≥ 2)) hv') = pih' at hph ⊢
  generalize keys bv = kb at hkb ⊢
  generalize keys bv' = kb' at hkb ⊢
  generalize keys hv = kh at hkh ⊢
  generalize keys hv' = kh' at hkh ⊢
  have e1 := fp2_isEmpty_perm hpb
  have e2 := fp2_isEmpty_perm hph
  have e5 := fp2_maxN_perm hpb
  have e6 := fp2_maxN_perm hph
  have e7 := fp2_highestExcept_perm hkb
  have e8 := fp2_highestExcept_perm hkh
  have e9 := fp2_contains_perm hkh
  have e10 := fp2_maxN_perm hkb
  have hc : (List.filter (fun v => kh'.contains v) kb).Perm (List.filter (fun v => kh'.contains v) kb') :=
    hkb.filter _
  have e12 := fp2_isEmpty_perm hc
  have e13 := fp2_maxN_perm hc
  simp only [e1, e2, e5, e6, e7, e8, e9, e10, e12, e13]

theorem bestHighCard_perm {hv hv' bv bv' : Counts} (hh : hv.Perm hv') (hb : bv.Perm bv') :
    bestHighCard hv bv = bestHighCard hv' bv' := by
  unfold bestHighCard
  have hkb : (keys bv).Perm (keys bv') := hb.map _
  have hkh : (keys hv).Perm (keys hv') := hh.map _
  rw [sortNDesc_congr hkb, sortNDesc_congr hkh]

theorem fp2_distinctValuesAceBoth_perm {l l' : List Nat} (h : l.Perm l') :
    distinctValuesAceBoth l = distinctValuesAceBoth l' := by
  unfold distinctValuesAceBoth
  exact sortN_congr (C05.withAceLow_perm (dedup_perm h))

theorem possibleStraights_perm {l l' : List Nat} (h : l.Perm l') : possibleStraights l = possibleStraights l' := by
  unfold possibleStraights
  rw [fp2_distinctValuesAceBoth_perm h, h.length_eq]

theorem bestStraight_perm (ps : List ((Nat × Nat) × Nat)) {l l' : List Nat} (h : l.Perm l') :
    bestStraight ps l = bestStraight ps l' := by
  unfold bestStraight
  have e := fp2_contains_perm (C05.withAceLow_perm h)
  simp only [e]

theorem bestFlush_perm {l l' : List Nat} (h : l.Perm l') : bestFlush l = bestFlush l' := by
  unfold bestFlush
  have hd : (dedup l).Perm (dedup l') := dedup_perm h
  generalize dedup l = d at hd ⊢
  generalize dedup l' = d' at hd ⊢
  have e1 := hd.length_eq
  have e2 := fp2_maxN_perm hd
  have e3 := fp2_highestExcept_perm hd
  simp only [e1, e2, e3]

/-- the suit-free part does not depend on the order of the board's or the hand's ranks -/
theorem fastR_perm {br br' hr hr' : List Nat} (hb : br.Perm br') (hh : hr.Perm hr') :
    fastR br hr = fastR br' hr' := by
  have pb := countItems_perm hb
  have ph := countItems_perm hh
  have nb := countItems_keys_nodup br
  have nh := countItems_keys_nodup hr
  unfold fastR
  simp only [fp2_any_perm pb, bestQuads_perm ph pb nh nb, bestFullHouse_perm ph pb nh nb,
    possibleStraights_perm hb, bestStraight_perm _ hh, bestThreeOfAKind_perm ph pb nh nb,
    bestTwoPair_perm ph pb nh nb, bestPair_perm ph pb nh nb, bestHighCard_perm ph pb]

/-- nor does the flush part -/
theorem fastF_perm {bfr bfr' hfr hfr' : List Nat} (hb : bfr.Perm bfr') (hh : hfr.Perm hfr') :
    fastF bfr hfr = fastF bfr' hfr' := by
  unfold fastF
  simp only [possibleStraights_perm hb, bestStraight_perm _ hh, bestFlush_perm hh, sortNDesc_congr hb]

end CardVerif.OmahaD
