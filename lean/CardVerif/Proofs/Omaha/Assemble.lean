import CardVerif.Props.C06
import CardVerif.Proofs.Rank5
import CardVerif.Proofs.Omaha.FastDecomp
import CardVerif.Proofs.Omaha.FastPerm2
import CardVerif.Proofs.Omaha.SpecDecomp
import CardVerif.Proofs.Omaha.Tables
import Mathlib.Data.List.Nodup
import Mathlib.Data.List.Perm.Basic
import Mathlib.Data.List.Perm.Subperm
/-!
# Assembly of the C06 hard half

A valid deal's rank lists (after sorting) lie in the domain of the suit-free table, and the flush suit's rank lists
(after sorting) lie in the domain of the flush table; both parts of the optimised evaluator and of the rules are
invariant under sorting, so the two parts agree on every valid deal, and so do their lexicographic maxima.
-/
namespace CardVerif.OmahaD
open CardVerif CardVerif.Strength CardVerif.Omaha

/-! ## sorting -/

theorem asm_length_sortN (l : List Nat) : (sortN l).length = l.length := (perm_sortN l).length_eq

theorem asm_mem_sortN (l : List Nat) (v : Nat) : v ∈ sortN l ↔ v ∈ l := (perm_sortN l).mem_iff

theorem asm_pairwise_lt_sortN (l : List Nat) (hnd : l.Nodup) : (sortN l).Pairwise (· < ·) := by
  have h1 := pairwise_sortN l
  have h2 : (sortN l).Nodup := (perm_sortN l).nodup_iff.2 hnd
  have h3 : (sortN l).Pairwise (fun a b => a ≤ b ∧ a ≠ b) := h1.and h2
  exact h3.imp (fun ⟨a, b⟩ => by omega)

/-! ## the count condition -/

theorem asm_countsOK_perm {br br' hr hr' : List Nat} (hb : br.Perm br') (hh : hr.Perm hr') :
    countsOK br hr = countsOK br' hr' := by
  unfold countsOK
  congr 1
  funext v
  rw [(hb.filter _).length_eq, (hh.filter _).length_eq]

/-- pigeonhole: distinct naturals below four are at most four -/
theorem asm_nodup_lt_four (l : List Nat) (hn : l.Nodup) (h : ∀ x ∈ l, x < 4) : l.length ≤ 4 := by
  have hs : l ⊆ List.range 4 := fun x hx => List.mem_range.2 (h x hx)
  have := (hn.subperm hs).length_le
  simpa using this

/-- a card is its rank and its suit -/
theorem asm_card_ext {a b : Card} (hr : a.rank = b.rank) (hs : a.suit = b.suit) : a = b := by
  cases a; cases b; simp_all

/-- distinct valid cards hold each rank at most four times -/
theorem asm_filter_rank_le (cards : List Card) (hn : cards.Nodup) (hv : ∀ c ∈ cards, c.Valid) (v : Nat) :
    ((ranksOf cards).filter (· == v)).length ≤ 4 := by
  unfold ranksOf
  rw [List.filter_map, List.length_map]
  have hn' : (cards.filter ((· == v) ∘ (·.rank))).Nodup := hn.filter _
  have hm : ((cards.filter ((· == v) ∘ (·.rank))).map (·.suit)).Nodup := by
    refine List.Nodup.map_on ?_ hn'
    intro a ha b hb hab
    simp only [List.mem_filter, Function.comp_apply, beq_iff_eq] at ha hb
    exact asm_card_ext (ha.2.trans hb.2.symm) hab
  have hl := asm_nodup_lt_four _ hm (by
    intro x hx
    simp only [List.mem_map, List.mem_filter] at hx
    obtain ⟨c, ⟨hc, _⟩, rfl⟩ := hx
    exact (hv c hc).2.2)
  simpa using hl

theorem asm_countsOK (board hand : List Card) (hn : (board ++ hand).Nodup)
    (hv : ∀ c ∈ board ++ hand, c.Valid) : countsOK (ranksOf board) (ranksOf hand) = true := by
  unfold countsOK
  rw [List.all_eq_true]
  intro v _
  have := asm_filter_rank_le (board ++ hand) hn hv v
  simp only [ranksOf, List.map_append, List.filter_append, List.length_append] at this
  exact decide_eq_true this

theorem asm_ranksOf_range (cards : List Card) (hv : ∀ c ∈ cards, c.Valid) :
    ∀ v ∈ ranksOf cards, 2 ≤ v ∧ v ≤ 14 := by
  intro v hm
  simp only [ranksOf, List.mem_map] at hm
  obtain ⟨c, hc, rfl⟩ := hm
  exact ⟨(hv c hc).1, (hv c hc).2.1⟩

/-! ## the suit-free part on a deal -/

theorem asm_fastR_eq (board hand : List Card) (hd : C06.DealOK board hand 4) :
    fastR (ranksOf board) (ranksOf hand) = .ok (specR (ranksOf board) (ranksOf hand)) := by
  have hvb : ∀ c ∈ board, c.Valid := fun c hc => hd.valid c (List.mem_append_left _ hc)
  have hvh : ∀ c ∈ hand, c.Valid := fun c hc => hd.valid c (List.mem_append_right _ hc)
  have hpb := perm_sortN (ranksOf board)
  have hph := perm_sortN (ranksOf hand)
  have hc : countsOK (sortN (ranksOf board)) (sortN (ranksOf hand)) = true := by
    rw [asm_countsOK_perm hpb hph]
    exact asm_countsOK board hand hd.nodup hd.valid
  have ht := tableR_covers (sortN (ranksOf board)) (sortN (ranksOf hand))
    (by rw [asm_length_sortN]; simp [ranksOf, hd.board_len])
    (by rw [asm_length_sortN]; simp [ranksOf, hd.hand_len])
    (pairwise_sortN _) (pairwise_sortN _)
    (fun v hm => asm_ranksOf_range board hvb v ((asm_mem_sortN _ v).1 hm))
    (fun v hm => asm_ranksOf_range hand hvh v ((asm_mem_sortN _ v).1 hm))
    hc
  rw [fastR_perm hpb.symm hph.symm, ht]
  unfold specR
  rw [bestV_perm false hpb hph]

/-! ## the flush suit -/

theorem asm_flushSuit_some {board : List Card} {fs : Nat} {bfr : List Nat}
    (h : flushSuit board = some (fs, bfr)) : bfr = ranksIn fs board ∧ 3 ≤ bfr.length := by
  unfold flushSuit at h
  have h1 := List.find?_some h
  have h2 := List.mem_of_find?_eq_some h
  unfold suitPartition at h2
  simp only [List.mem_map] at h2
  obtain ⟨s, _, hs⟩ := h2
  simp only [Prod.mk.injEq] at hs
  obtain ⟨rfl, rfl⟩ := hs
  exact ⟨rfl, by simpa using h1⟩

theorem asm_ranksIn_length_le (s : Nat) (l : List Card) : (ranksIn s l).length ≤ l.length := by
  unfold ranksIn
  rw [List.length_map]
  exact List.length_filter_le _ _

/-- distinct cards of one suit have distinct ranks -/
theorem asm_ranksIn_nodup (s : Nat) (l : List Card) (hn : l.Nodup) : (ranksIn s l).Nodup := by
  unfold ranksIn
  refine List.Nodup.map_on ?_ (hn.filter _)
  intro a ha b hb hab
  simp only [List.mem_filter, beq_iff_eq] at ha hb
  exact asm_card_ext hab (ha.2.trans hb.2.symm)

theorem asm_ranksIn_range (s : Nat) (l : List Card) (hv : ∀ c ∈ l, c.Valid) :
    ∀ v ∈ ranksIn s l, 2 ≤ v ∧ v ≤ 14 := by
  intro v hm
  simp only [ranksIn, List.mem_map, List.mem_filter] at hm
  obtain ⟨c, ⟨hc, _⟩, rfl⟩ := hm
  exact ⟨(hv c hc).1, (hv c hc).2.1⟩

/-- the board and the hand share no card, hence no rank inside one suit -/
theorem asm_ranksIn_disj (s : Nat) (board hand : List Card) (hn : (board ++ hand).Nodup) :
    ∀ v ∈ ranksIn s hand, v ∉ ranksIn s board := by
  intro v hv hv'
  simp only [ranksIn, List.mem_map, List.mem_filter, beq_iff_eq] at hv hv'
  obtain ⟨c, ⟨hc, hcs⟩, rfl⟩ := hv
  obtain ⟨c', ⟨hc', hcs'⟩, hr⟩ := hv'
  have he : c' = c := asm_card_ext hr (hcs'.trans hcs.symm)
  subst he
  exact (List.disjoint_of_nodup_append hn) hc' hc

/-! ## the flush part on a deal -/

theorem asm_fastF_eq (board hand : List Card) (hd : C06.DealOK board hand 4) (fs : Nat) (bfr : List Nat)
    (hfs : flushSuit board = some (fs, bfr)) :
    fastF bfr (ranksIn fs hand) = .ok (specF bfr (ranksIn fs hand)) := by
  obtain ⟨rfl, h3⟩ := asm_flushSuit_some hfs
  have hvb : ∀ c ∈ board, c.Valid := fun c hc => hd.valid c (List.mem_append_left _ hc)
  have hvh : ∀ c ∈ hand, c.Valid := fun c hc => hd.valid c (List.mem_append_right _ hc)
  have hnb : board.Nodup := (List.nodup_append.1 hd.nodup).1
  have hnh : hand.Nodup := (List.nodup_append.1 hd.nodup).2.1
  have hpb := perm_sortN (ranksIn fs board)
  have hph := perm_sortN (ranksIn fs hand)
  have ht := tableF_covers (sortN (ranksIn fs board)) (sortN (ranksIn fs hand))
    (by
      rw [asm_length_sortN]
      have := asm_ranksIn_length_le fs board
      rw [hd.board_len] at this
      exact ⟨h3, this⟩)
    (by
      rw [asm_length_sortN]
      have := asm_ranksIn_length_le fs hand
      rw [hd.hand_len] at this
      exact this)
    (asm_pairwise_lt_sortN _ (asm_ranksIn_nodup fs board hnb))
    (asm_pairwise_lt_sortN _ (asm_ranksIn_nodup fs hand hnh))
    (fun v hm => asm_ranksIn_range fs board hvb v ((asm_mem_sortN _ v).1 hm))
    (fun v hm => asm_ranksIn_range fs hand hvh v ((asm_mem_sortN _ v).1 hm))
    (fun v hm hm' => asm_ranksIn_disj fs board hand hd.nodup v ((asm_mem_sortN _ v).1 hm)
      ((asm_mem_sortN _ v).1 hm'))
  rw [fastF_perm hpb.symm hph.symm, ht]
  unfold specF
  rw [bestV_perm true hpb hph]

/-! ## assembly -/

theorem asm_omaha_fast_eq_spec (board hand : List Card) (hd : C06.DealOK board hand 4) :
    handStrengthFast board hand = .ok (omahaSpec board hand) := by
  have hR := asm_fastR_eq board hand hd
  cases hfs : flushSuit board with
  | none =>
    rw [spec_decomp_none board hand hd hfs]
    exact fast_decomp_none board hand hd.board_len hd.hand_len hfs _ hR
  | some p =>
    obtain ⟨fs, bfr⟩ := p
    rw [spec_decomp_some board hand hd fs bfr hfs]
    exact fast_decomp_some board hand hd.board_len hd.hand_len fs bfr hfs _ _ hR
      (asm_fastF_eq board hand hd fs bfr hfs)

end CardVerif.OmahaD
