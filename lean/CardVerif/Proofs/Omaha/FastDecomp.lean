import CardModel.Spec.OmahaDecomp
import CardVerif.Proofs.Strength
/-!
# The optimised Omaha evaluator is the lexicographic maximum of its suit-free part and its flush part
-/
namespace CardVerif.OmahaD
open CardVerif CardVerif.Omaha

/-- the part of the cascade below the flush: straight, trips, two pair, pair, high card -/
def fdTail (br hr : List Nat) : Except Err (List Nat) := do
  let bv : Counts := countItems br
  let hv : Counts := countItems hr
  let ps ← possibleStraights br
  if !ps.isEmpty then
    let st := bestStraight ps hr
    if st != 0 then return [4, st]
  let t ← bestThreeOfAKind hv bv
  if !t.isEmpty then return 3 :: t
  let tp ← bestTwoPair hv bv
  if !tp.isEmpty then return 2 :: tp
  let p ← bestPair hv bv
  if !p.isEmpty then return 1 :: p
  return 0 :: bestHighCard hv bv

/-- quads / full house on a paired board, then `k` -/
def fdPaired (br hr : List Nat) (k : Except Err (List Nat)) : Except Err (List Nat) :=
  if ((countItems br).any fun e => e.2 > 1) = true then do
    let q ← bestQuads (countItems hr) (countItems br)
    if !q.isEmpty then pure (7 :: q)
    else do
      let fh ← bestFullHouse (countItems hr) (countItems br)
      if !fh.isEmpty then pure (6 :: fh) else k
  else k

/-- the flush step, then `k` -/
def fdFlush (bfr hfr : List Nat) (k : Except Err (List Nat)) : Except Err (List Nat) := do
  let bf ← bestFlush hfr
  if !bf.isEmpty then pure (5 :: sortNDesc ((sortNDesc bfr).take 3 ++ bf)) else k

theorem fd_fastR_eq (br hr : List Nat) : fastR br hr = fdPaired br hr (fdTail br hr) := rfl

theorem fd_fastF_eq (bfr hfr : List Nat) : fastF bfr hfr = (do
    let ps ← possibleStraights bfr
    if (if ps.isEmpty then 0 else bestStraight ps hfr) != 0 then
      pure [8, if ps.isEmpty then 0 else bestStraight ps hfr]
    else fdFlush bfr hfr (pure [])) := rfl

theorem fd_hsf_none (board hand : List Card) (hb : board.length = 5) (hh : hand.length = 4)
    (hfs : flushSuit board = none) :
    handStrengthFast board hand = fastR (ranksOf board) (ranksOf hand) := by
  unfold flushSuit at hfs
  unfold handStrengthFast
  simp only [hb, hh, hfs, bne_self_eq_false, Bool.false_eq_true, if_false]
  rfl

theorem fd_hsf_some (board hand : List Card) (hb : board.length = 5) (hh : hand.length = 4)
    (fs : Nat) (bfr : List Nat) (hfs : flushSuit board = some (fs, bfr)) :
    handStrengthFast board hand = (possibleStraights bfr >>= fun ps =>
      if (!ps.isEmpty) = true then
        (if (bestStraight ps (ranksIn fs hand) != 0) = true then pure [8, bestStraight ps (ranksIn fs hand)]
        else fdPaired (ranksOf board) (ranksOf hand)
          (fdFlush bfr (ranksIn fs hand) (fdTail (ranksOf board) (ranksOf hand))))
      else fdPaired (ranksOf board) (ranksOf hand)
          (fdFlush bfr (ranksIn fs hand) (fdTail (ranksOf board) (ranksOf hand)))) := by
  unfold flushSuit at hfs
  unfold handStrengthFast
  simp only [hb, hh, hfs, bne_self_eq_false, Bool.false_eq_true, if_false]
  rfl


theorem fd_bind_ok {ε α β : Type} {x : Except ε α} {f : α → Except ε β} {b : β} :
    (x >>= f) = .ok b ↔ ∃ a, x = .ok a ∧ f a = .ok b := by
  cases x with
  | error e => simp [bind, Except.bind]
  | ok a => simp [bind, Except.bind]

theorem fd_pure_ok {ε α : Type} {a b : α} : (pure a : Except ε α) = .ok b ↔ a = b := by
  simp [pure, Except.pure]

theorem fd_tail_shape (br hr r : List Nat) (h : fdTail br hr = .ok r) :
    ∃ c t, r = c :: t ∧ c ≤ 4 := by
  unfold fdTail at h
  simp only [fd_bind_ok] at h
  obtain ⟨ps, -, h⟩ := h
  have key : ∀ r, ((do
        let t ← bestThreeOfAKind (countItems hr) (countItems br)
        if (!t.isEmpty) = true then pure (3 :: t)
          else do
            let tp ← bestTwoPair (countItems hr) (countItems br)
            if (!tp.isEmpty) = true then pure (2 :: tp)
              else do
                let p ← bestPair (countItems hr) (countItems br)
                if (!p.isEmpty) = true then pure (1 :: p) else pure (0 :: bestHighCard (countItems hr) (countItems br))) = Except.ok r) → ∃ c t, r = c :: t ∧ c ≤ 4 := by
    intro r h
    simp only [fd_bind_ok] at h
    obtain ⟨t, -, h⟩ := h
    split at h
    · rw [fd_pure_ok] at h; exact ⟨_, _, h.symm, by omega⟩
    rw [fd_bind_ok] at h
    obtain ⟨t, -, h⟩ := h
    split at h
    · rw [fd_pure_ok] at h; exact ⟨_, _, h.symm, by omega⟩
    rw [fd_bind_ok] at h
    obtain ⟨t, -, h⟩ := h
    split at h
    · rw [fd_pure_ok] at h; exact ⟨_, _, h.symm, by omega⟩
    · rw [fd_pure_ok] at h; exact ⟨_, _, h.symm, by omega⟩
  split at h
  · split at h
    · rw [fd_pure_ok] at h; exact ⟨_, _, h.symm, by omega⟩
    · exact key r h
  · exact key r h


theorem fd_paired_ok (br hr : List Nat) (k1 k2 : Except Err (List Nat)) (r : List Nat)
    (h : fdPaired br hr k1 = .ok r) :
    (∃ c q, r = c :: q ∧ (c = 7 ∨ c = 6) ∧ fdPaired br hr k2 = .ok r) ∨
      (k1 = .ok r ∧ fdPaired br hr k2 = k2) := by
  unfold fdPaired at h ⊢
  by_cases hp : ((countItems br).any fun e => decide (e.2 > 1)) = true
  · rw [if_pos hp] at h ⊢
    rw [fd_bind_ok] at h
    obtain ⟨q, hq, h⟩ := h
    simp only [hq, bind, Except.bind]
    by_cases hqe : (!q.isEmpty) = true
    · rw [if_pos hqe] at h ⊢
      rw [fd_pure_ok] at h
      exact .inl ⟨7, q, h.symm, .inl rfl, by rw [← h]; rfl⟩
    · rw [if_neg hqe] at h ⊢
      rw [fd_bind_ok] at h
      obtain ⟨fh, hfh, h⟩ := h
      simp only [hfh]
      by_cases hfe : (!fh.isEmpty) = true
      · rw [if_pos hfe] at h ⊢
        rw [fd_pure_ok] at h
        exact .inl ⟨6, fh, h.symm, .inr rfl, by rw [← h]; rfl⟩
      · rw [if_neg hfe] at h ⊢
        exact .inr ⟨h, rfl⟩
  · rw [if_neg hp] at h ⊢
    exact .inr ⟨h, rfl⟩

theorem fd_lexMax_nil (r : List Nat) : lexMax r [] = r := by
  unfold lexMax; cases r <;> simp [lexLt]

theorem fd_lexMax_lt (c d : Nat) (t u : List Nat) (h : c < d) : lexMax (c :: t) (d :: u) = d :: u := by
  unfold lexMax; simp [lexLt, h]

theorem fd_lexMax_gt (c d : Nat) (t u : List Nat) (h : d < c) : lexMax (c :: t) (d :: u) = c :: t := by
  unfold lexMax
  have : ¬ c < d := by omega
  simp [lexLt, h, this]

theorem fd_flush_ok (bfr hfr f : List Nat) (h : fdFlush bfr hfr (pure []) = .ok f) :
    (f = [] ∧ ∀ k, fdFlush bfr hfr k = k) ∨ (∃ t, f = 5 :: t ∧ ∀ k, fdFlush bfr hfr k = .ok f) := by
  unfold fdFlush at h ⊢
  rw [fd_bind_ok] at h
  obtain ⟨bf, hbf, h⟩ := h
  simp only [hbf, bind, Except.bind]
  by_cases hbe : (!bf.isEmpty) = true
  · rw [if_pos hbe, fd_pure_ok] at h
    exact .inr ⟨_, h.symm, fun k => by rw [if_pos hbe, ← h]; rfl⟩
  · rw [if_neg hbe, fd_pure_ok] at h
    exact .inl ⟨h.symm, fun k => by rw [if_neg hbe]⟩

theorem fd_mid (br hr bfr hfr r f : List Nat) (hr' : fastR br hr = .ok r)
    (hf : fdFlush bfr hfr (pure []) = .ok f) :
    fdPaired br hr (fdFlush bfr hfr (fdTail br hr)) = .ok (lexMax r f) := by
  rw [fd_fastR_eq] at hr'
  rcases fd_paired_ok br hr _ (fdFlush bfr hfr (fdTail br hr)) r hr' with
    ⟨c, q, rfl, hc, h⟩ | ⟨ht, h⟩
  · rw [h]
    rcases fd_flush_ok _ _ _ hf with ⟨rfl, -⟩ | ⟨t, rfl, -⟩
    · rw [fd_lexMax_nil]
    · rw [fd_lexMax_gt _ _ _ _ (by omega)]
  · rw [h]
    rcases fd_flush_ok _ _ _ hf with ⟨rfl, hk⟩ | ⟨t, rfl, hk⟩
    · rw [fd_lexMax_nil, hk, ht]
    · obtain ⟨c, u, rfl, hc⟩ := fd_tail_shape _ _ _ ht
      rw [fd_lexMax_lt _ _ _ _ (by omega), hk]

/-- the suit-free cascade returns quads (7), a full house (6) or something below a flush -/
theorem fastR_shape (br hr r : List Nat) (h : fastR br hr = .ok r) :
    ∃ c t, r = c :: t ∧ (c = 7 ∨ c = 6 ∨ c ≤ 4) := by
  rw [fd_fastR_eq] at h
  rcases fd_paired_ok br hr _ (pure []) r h with ⟨c, q, rfl, hc, -⟩ | ⟨ht, -⟩
  · exact ⟨c, q, rfl, by omega⟩
  · obtain ⟨c, u, rfl, hc⟩ := fd_tail_shape _ _ _ ht
    exact ⟨c, u, rfl, by omega⟩

/-- the flush part returns nothing, a flush (5) or a straight flush (8) -/
theorem fastF_shape (bfr hfr f : List Nat) (h : fastF bfr hfr = .ok f) :
    f = [] ∨ (∃ t, f = 5 :: t) ∨ (∃ x, f = [8, x]) := by
  rw [fd_fastF_eq, fd_bind_ok] at h
  obtain ⟨ps, -, h⟩ := h
  by_cases hsf : ((if ps.isEmpty = true then 0 else bestStraight ps hfr) != 0) = true
  · rw [if_pos hsf, fd_pure_ok] at h
    exact .inr (.inr ⟨_, h.symm⟩)
  · rw [if_neg hsf] at h
    rcases fd_flush_ok _ _ _ h with ⟨rfl, -⟩ | ⟨t, rfl, -⟩
    · exact .inl rfl
    · exact .inr (.inl ⟨t, rfl⟩)

theorem fast_decomp_none (board hand : List Card) (hb : board.length = 5) (hh : hand.length = 4)
    (hfs : flushSuit board = none) (r : List Nat)
    (hr : fastR (ranksOf board) (ranksOf hand) = .ok r) :
    handStrengthFast board hand = .ok r := by
  rw [fd_hsf_none board hand hb hh hfs, hr]

theorem fast_decomp_some (board hand : List Card) (hb : board.length = 5) (hh : hand.length = 4)
    (fs : Nat) (bfr : List Nat) (hfs : flushSuit board = some (fs, bfr)) (r f : List Nat)
    (hr : fastR (ranksOf board) (ranksOf hand) = .ok r)
    (hf : fastF bfr (ranksIn fs hand) = .ok f) :
    handStrengthFast board hand = .ok (lexMax r f) := by
  rw [fd_hsf_some board hand hb hh fs bfr hfs]
  rw [fd_fastF_eq, fd_bind_ok] at hf
  obtain ⟨ps, hps, hf⟩ := hf
  simp only [hps, bind, Except.bind]
  cases hemp : ps.isEmpty
  · simp only [hemp, Bool.false_eq_true, if_false, Bool.not_false, if_true] at hf ⊢
    by_cases hsf : (bestStraight ps (ranksIn fs hand) != 0) = true
    · rw [if_pos hsf] at hf ⊢
      rw [fd_pure_ok] at hf
      subst hf
      obtain ⟨c, t, rfl, hc⟩ := fastR_shape _ _ _ hr
      rw [fd_lexMax_lt _ _ _ _ (by omega)]
      rfl
    · rw [if_neg hsf] at hf ⊢
      exact fd_mid _ _ _ _ _ _ hr hf
  · simp only [hemp, if_true, bne_self_eq_false, Bool.false_eq_true, if_false, Bool.not_true] at hf ⊢
    exact fd_mid _ _ _ _ _ _ hr hf

end CardVerif.OmahaD
