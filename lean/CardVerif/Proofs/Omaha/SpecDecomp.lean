import CardModel.Spec.OmahaDecomp
import CardVerif.Props.C06
import CardVerif.Proofs.SymPoker
/-!
# The rules' Omaha strength is the lexicographic maximum of a suit-free part and a flush part

All max-folds (`bestKey`, `bestV`) are handled through one characterisation (`sd_foldl_step_unique`): the fold of
`step` from `[]` over a list of keys is the unique `m` that is `[]` or one of the keys and that no key exceeds.
-/
namespace CardVerif.OmahaD
open CardVerif CardVerif.Poker5 CardVerif.Strength CardVerif.Omaha

/-! ## the max-fold is determined by the set of keys -/

theorem sd_foldl_step_unique {ks : List (List Nat)} {m : List Nat} (h1 : m = [] ∨ m ∈ ks)
    (h2 : ∀ k ∈ ks, lexLt m k = false) : ks.foldl step [] = m := by
  obtain ⟨a1, _, a3⟩ := foldl_step_spec ks []
  apply lexLt_trichotomy
  · rcases h1 with rfl | h1
    · exact lexLt_nil_right _
    · exact a3 m h1
  · rcases a1 with a1 | a1
    · rw [a1]; exact lexLt_nil_right _
    · exact h2 _ a1

theorem sd_lexMax_ge_left (a b : List Nat) : lexLt (lexMax a b) a = false := by
  unfold lexMax
  split
  · rename_i h; exact lexLt_asymm h
  · exact lexLt_irrefl a

theorem sd_lexMax_ge_right (a b : List Nat) : lexLt (lexMax a b) b = false := by
  unfold lexMax
  split
  · exact lexLt_irrefl b
  · rename_i h; simpa using h

theorem sd_lexMax_nil (a : List Nat) : lexMax a [] = a := by
  simp [lexMax]

/-! ## `bestV` -/

theorem sd_bestV_eq_foldl (flush : Bool) (bv hv : List Nat) :
    bestV flush bv hv = ((combosV bv hv).map fun vs => specKeyV vs flush).foldl step [] := by
  unfold bestV
  rw [List.foldl_map]
  rfl

theorem sd_mem_combosV {bv hv vs : List Nat} :
    vs ∈ combosV bv hv ↔
      ∃ b h, b.Sublist bv ∧ b.length = 3 ∧ h.Sublist hv ∧ h.length = 2 ∧ vs = b ++ h := by
  unfold combosV
  simp only [List.mem_flatMap, List.mem_map, mem_combinations']
  constructor
  · rintro ⟨b, ⟨hb, hbl⟩, c, ⟨hc, hcl⟩, rfl⟩
    exact ⟨b, c, hb, hbl, hc, hcl, rfl⟩
  · rintro ⟨b, c, hb, hbl, hc, hcl, rfl⟩
    exact ⟨b, ⟨hb, hbl⟩, c, ⟨hc, hcl⟩, rfl⟩

/-- `bestV` is `[]` or attained, and no combination's key exceeds it -/
theorem sd_bestV_spec (flush : Bool) (bv hv : List Nat) :
    (bestV flush bv hv = [] ∨ ∃ vs ∈ combosV bv hv, bestV flush bv hv = specKeyV vs flush) ∧
    ∀ vs ∈ combosV bv hv, lexLt (bestV flush bv hv) (specKeyV vs flush) = false := by
  rw [sd_bestV_eq_foldl]
  obtain ⟨a1, _, a3⟩ := foldl_step_spec ((combosV bv hv).map fun vs => specKeyV vs flush) []
  refine ⟨?_, fun vs hvs => a3 _ (List.mem_map.2 ⟨vs, hvs, rfl⟩)⟩
  rcases a1 with a1 | a1
  · exact .inl a1
  · obtain ⟨vs, hvs, e⟩ := List.mem_map.1 a1
    exact .inr ⟨vs, hvs, e.symm⟩

theorem sd_bestV_unique (flush : Bool) (bv hv m : List Nat)
    (h1 : m = [] ∨ ∃ vs ∈ combosV bv hv, m = specKeyV vs flush)
    (h2 : ∀ vs ∈ combosV bv hv, lexLt m (specKeyV vs flush) = false) : bestV flush bv hv = m := by
  rw [sd_bestV_eq_foldl]
  apply sd_foldl_step_unique
  · rcases h1 with h1 | ⟨vs, hvs, e⟩
    · exact .inl h1
    · exact .inr (List.mem_map.2 ⟨vs, hvs, e.symm⟩)
  · intro k hk
    obtain ⟨vs, hvs, rfl⟩ := List.mem_map.1 hk
    exact h2 vs hvs

/-- every 3+2 combination of permuted lists is a permutation of a 3+2 combination of the original lists -/
theorem sd_combosV_perm {bv bv' hv hv' vs : List Nat} (hb : bv.Perm bv') (hh : hv.Perm hv')
    (h : vs ∈ combosV bv hv) : ∃ vs' ∈ combosV bv' hv', vs'.Perm vs := by
  obtain ⟨b, c, sb, lb, sc, lc, rfl⟩ := sd_mem_combosV.1 h
  obtain ⟨b', pb, sb'⟩ := sb.subperm.trans hb.subperm
  obtain ⟨c', pc, sc'⟩ := sc.subperm.trans hh.subperm
  exact ⟨b' ++ c', sd_mem_combosV.2 ⟨b', c', sb', by rw [pb.length_eq, lb], sc', by rw [pc.length_eq, lc], rfl⟩,
    pb.append pc⟩

/-- the best key over the 3+2 value combinations does not depend on the order of the values -/
theorem bestV_perm (flush : Bool) {bv bv' hv hv' : List Nat} (hb : bv.Perm bv') (hh : hv.Perm hv') :
    bestV flush bv hv = bestV flush bv' hv' := by
  obtain ⟨a1, a2⟩ := sd_bestV_spec flush bv' hv'
  apply sd_bestV_unique
  · rcases a1 with a1 | ⟨vs', hvs', e⟩
    · exact .inl a1
    · obtain ⟨vs, hvs, p⟩ := sd_combosV_perm hb.symm hh.symm hvs'
      exact .inr ⟨vs, hvs, by rw [e, C05.specKeyV_congr p flush]⟩
  · intro vs hvs
    obtain ⟨vs', hvs', p⟩ := sd_combosV_perm hb hh hvs
    rw [← C05.specKeyV_congr p flush]
    exact a2 vs' hvs'

/-! ## `omahaSpec` -/

theorem sd_omahaSpec_unique (board hand : List Card) (m : List Nat)
    (h1 : m = [] ∨ ∃ h ∈ omahaHands board hand, m = specKey h)
    (h2 : ∀ h ∈ omahaHands board hand, lexLt m (specKey h) = false) : omahaSpec board hand = m := by
  unfold omahaSpec
  rw [bestKey_eq_foldl]
  apply sd_foldl_step_unique
  · rcases h1 with h1 | ⟨h, hm, e⟩
    · exact .inl h1
    · exact .inr (List.mem_map.2 ⟨h, hm, e.symm⟩)
  · intro k hk
    obtain ⟨h, hm, rfl⟩ := List.mem_map.1 hk
    exact h2 h hm

/-- the value list of a 3+2 hand is a 3+2 combination of the value lists -/
theorem sd_ranks_combo {board hand h : List Card} (hm : h ∈ omahaHands board hand) :
    h.map (·.rank) ∈ combosV (ranksOf board) (ranksOf hand) := by
  obtain ⟨b, c, sb, lb, sc, lc, rfl⟩ := (C06.omahaHands_spec board hand h).1 hm
  exact sd_mem_combosV.2 ⟨b.map (·.rank), c.map (·.rank), sb.map _, by rw [List.length_map, lb],
    sc.map _, by rw [List.length_map, lc], List.map_append⟩

theorem sd_combo_ranks {board hand : List Card} {vs : List Nat}
    (hm : vs ∈ combosV (ranksOf board) (ranksOf hand)) :
    ∃ h ∈ omahaHands board hand, h.map (·.rank) = vs := by
  obtain ⟨b', c', sb', lb', sc', lc', rfl⟩ := sd_mem_combosV.1 hm
  obtain ⟨b, sb, rfl⟩ := List.sublist_map_iff.1 sb'
  obtain ⟨c, sc, rfl⟩ := List.sublist_map_iff.1 sc'
  exact ⟨b ++ c, (C06.omahaHands_spec board hand _).2
    ⟨b, c, sb, by simpa using lb', sc, by simpa using lc', rfl⟩, List.map_append⟩

/-! ## a flush never reads lower than the same values without the flush -/

theorem sd_key_aux (order pattern : List Nat) (isStr : Bool) (top : Nat) :
    lexLt
      (if isStr && true then [8, top]
        else if pattern == [4, 1] then 7 :: order
        else if pattern == [3, 2] then 6 :: order
        else if true then 5 :: order
        else if isStr then [4, top]
        else if pattern == [3, 1, 1] then 3 :: order
        else if pattern == [2, 2, 1] then 2 :: order
        else if pattern == [2, 1, 1, 1] then 1 :: order
        else 0 :: order)
      (if isStr && false then [8, top]
        else if pattern == [4, 1] then 7 :: order
        else if pattern == [3, 2] then 6 :: order
        else if false then 5 :: order
        else if isStr then [4, top]
        else if pattern == [3, 1, 1] then 3 :: order
        else if pattern == [2, 2, 1] then 2 :: order
        else if pattern == [2, 1, 1, 1] then 1 :: order
        else 0 :: order) = false := by
  cases isStr <;> by_cases h1 : pattern == [4, 1] <;> by_cases h2 : pattern == [3, 2] <;>
    simp only [h1, h2, Bool.and_true, Bool.and_false, if_true, if_false, lexLt_irrefl, Bool.false_eq_true] <;>
    (repeat' split) <;> simp [lexLt_cons_cons]

theorem sd_specKeyV_true_ge (vs : List Nat) : lexLt (specKeyV vs true) (specKeyV vs false) = false := by
  unfold specKeyV
  exact sd_key_aux _ _ _ _

/-! ## the flush suit -/

theorem sd_filter_disjoint_length {α : Type} (p q : α → Bool) (h : ∀ x, p x = true → q x = true → False)
    (l : List α) : (l.filter p).length + (l.filter q).length ≤ l.length := by
  induction l with
  | nil => simp
  | cons x xs ih =>
    have hx := h x
    simp only [List.filter_cons, List.length_cons]
    cases hp : p x <;> cases hq : q x <;> simp_all <;> omega

/-- a suit with three or more of the five board cards is the flush suit -/
theorem sd_flushSuit_of_three (board : List Card) (hlen : board.length = 5) (s : Nat)
    (hs : 3 ≤ (board.filter (·.suit == s)).length) : flushSuit board = some (s, ranksIn s board) := by
  have hmem : (s, ranksIn s board) ∈ suitPartition board := by
    unfold suitPartition
    apply List.mem_map.2
    refine ⟨s, (Sym.mem_dedupFirst _ _).2 ?_, rfl⟩
    obtain ⟨c, hc⟩ := List.exists_mem_of_length_pos (by omega : 0 < (board.filter (·.suit == s)).length)
    rw [List.mem_filter] at hc
    exact List.mem_map.2 ⟨c, hc.1, by simpa using hc.2⟩
  cases h : flushSuit board with
  | none =>
    unfold flushSuit at h
    rw [List.find?_eq_none] at h
    have := h _ hmem
    simp only [ranksIn, List.length_map] at this
    exact absurd (by simpa using hs) this
  | some e =>
    obtain ⟨fs, bfr⟩ := e
    unfold flushSuit at h
    have h3 := List.find?_some h
    have hm := List.mem_of_find?_eq_some h
    unfold suitPartition at hm
    obtain ⟨fs', _, e⟩ := List.mem_map.1 hm
    simp only [Prod.mk.injEq] at e
    obtain ⟨rfl, rfl⟩ := e
    by_cases hfs : fs' = s
    · subst hfs; rfl
    · exfalso
      have := sd_filter_disjoint_length (fun c : Card => c.suit == s) (fun c => c.suit == fs')
        (by intro x h1 h2; simp only [beq_iff_eq] at h1 h2; exact hfs (h2.symm.trans h1)) board
      simp only [List.length_map, ge_iff_le, decide_eq_true_eq] at h3
      omega

theorem sd_flushSuit_some {board : List Card} {fs : Nat} {bfr : List Nat}
    (h : flushSuit board = some (fs, bfr)) : bfr = ranksIn fs board := by
  unfold flushSuit at h
  have hm := List.mem_of_find?_eq_some h
  unfold suitPartition at hm
  obtain ⟨fs', _, e⟩ := List.mem_map.1 hm
  simp only [Prod.mk.injEq] at e
  obtain ⟨rfl, rfl⟩ := e
  rfl

theorem sd_allSameSuit_elim {h : List Card} (hf : allSameSuit h = true) : ∃ s, ∀ c ∈ h, c.suit = s := by
  cases h with
  | nil => cases hf
  | cons x xs =>
    unfold allSameSuit at hf
    rw [List.all_eq_true] at hf
    refine ⟨x.suit, fun c hc => ?_⟩
    rcases List.mem_cons.1 hc with rfl | hc
    · rfl
    · simpa using hf c hc

theorem sd_allSameSuit_intro {h : List Card} (hne : h ≠ []) (s : Nat) (hs : ∀ c ∈ h, c.suit = s) :
    allSameSuit h = true := by
  cases h with
  | nil => exact absurd rfl hne
  | cons x xs =>
    unfold allSameSuit
    rw [List.all_eq_true]
    intro c hc
    rw [beq_iff_eq, hs c (List.mem_cons_of_mem _ hc), hs x List.mem_cons_self]

theorem sd_sublist_filter_of_all {α : Type} {p : α → Bool} {b l : List α} (hs : b.Sublist l)
    (hp : ∀ x ∈ b, p x = true) : b.Sublist (l.filter p) := by
  have := hs.filter p
  rwa [List.filter_eq_self.2 hp] at this

/-- a 3+2 hand of one suit lies in the flush suit, and its values are a 3+2 combination of that suit's values -/
theorem sd_flush_hand (board hand : List Card) (hlen : board.length = 5) {h : List Card}
    (hm : h ∈ omahaHands board hand) (hf : allSameSuit h = true) :
    ∃ s, flushSuit board = some (s, ranksIn s board) ∧
      h.map (·.rank) ∈ combosV (ranksIn s board) (ranksIn s hand) := by
  obtain ⟨b, c, sb, lb, sc, lc, rfl⟩ := (C06.omahaHands_spec board hand h).1 hm
  obtain ⟨s, hs⟩ := sd_allSameSuit_elim hf
  have sb' : b.Sublist (board.filter (·.suit == s)) :=
    sd_sublist_filter_of_all sb fun x hx => by simpa using hs x (List.mem_append_left _ hx)
  have sc' : c.Sublist (hand.filter (·.suit == s)) :=
    sd_sublist_filter_of_all sc fun x hx => by simpa using hs x (List.mem_append_right _ hx)
  refine ⟨s, sd_flushSuit_of_three board hlen s (by rw [← lb]; exact sb'.length_le), ?_⟩
  exact sd_mem_combosV.2 ⟨b.map (·.rank), c.map (·.rank), sb'.map _, by rw [List.length_map, lb],
    sc'.map _, by rw [List.length_map, lc], List.map_append⟩

/-- every 3+2 combination of the values held in one suit comes from a 3+2 hand of that suit -/
theorem sd_flush_combo (board hand : List Card) (s : Nat) {vs : List Nat}
    (hm : vs ∈ combosV (ranksIn s board) (ranksIn s hand)) :
    ∃ h ∈ omahaHands board hand, allSameSuit h = true ∧ h.map (·.rank) = vs := by
  obtain ⟨b', c', sb', lb', sc', lc', rfl⟩ := sd_mem_combosV.1 hm
  obtain ⟨b, sb, rfl⟩ := List.sublist_map_iff.1 sb'
  obtain ⟨c, sc, rfl⟩ := List.sublist_map_iff.1 sc'
  have lb : b.length = 3 := by simpa using lb'
  have lc : c.length = 2 := by simpa using lc'
  refine ⟨b ++ c, (C06.omahaHands_spec board hand _).2
    ⟨b, c, sb.trans List.filter_sublist, lb, sc.trans List.filter_sublist, lc, rfl⟩, ?_, List.map_append⟩
  apply sd_allSameSuit_intro _ s
  · intro x hx
    rcases List.mem_append.1 hx with hx | hx
    · simpa using (List.mem_filter.1 (sb.subset hx)).2
    · simpa using (List.mem_filter.1 (sc.subset hx)).2
  · intro h0
    rw [List.append_eq_nil_iff] at h0
    rw [h0.1] at lb
    cases lb

/-! ## the decomposition -/

/-- `omahaSpec` is the larger of the suit-free best key and any `F` that is the best flush key -/
theorem sd_decomp (board hand : List Card) (F : List Nat)
    (hF1 : F = [] ∨ ∃ h ∈ omahaHands board hand, allSameSuit h = true ∧ F = specKeyV (h.map (·.rank)) true)
    (hF2 : ∀ h ∈ omahaHands board hand, allSameSuit h = true →
      lexLt F (specKeyV (h.map (·.rank)) true) = false) :
    omahaSpec board hand = lexMax (specR (ranksOf board) (ranksOf hand)) F := by
  have hR := sd_bestV_spec false (ranksOf board) (ranksOf hand)
  unfold specR
  generalize bestV false (ranksOf board) (ranksOf hand) = R at hR ⊢
  obtain ⟨r1, r2⟩ := hR
  apply sd_omahaSpec_unique
  · unfold lexMax
    split
    · rcases hF1 with hF1 | ⟨h, hm, hfl, e⟩
      · exact .inl hF1
      · exact .inr ⟨h, hm, by unfold specKey; rw [hfl]; exact e⟩
    · rename_i hRF
      have g3 : lexLt R F = false := by simpa using hRF
      rcases r1 with r1 | ⟨vs, hvs, e⟩
      · exact .inl r1
      · obtain ⟨h, hm, rfl⟩ := sd_combo_ranks hvs
        right
        refine ⟨h, hm, ?_⟩
        unfold specKey
        cases hfl : allSameSuit h with
        | false => exact e
        | true =>
          have g1 : lexLt (specKeyV (h.map (·.rank)) true) R = false := by
            rw [e]; exact sd_specKeyV_true_ge _
          have g2 := hF2 h hm hfl
          exact lexLt_trichotomy (lexLt_false_trans g3 g2) g1
  · intro h hm
    unfold specKey
    cases hfl : allSameSuit h with
    | false => exact lexLt_false_trans (sd_lexMax_ge_left R F) (r2 _ (sd_ranks_combo hm))
    | true => exact lexLt_false_trans (sd_lexMax_ge_right R F) (hF2 h hm hfl)

theorem spec_decomp_none (board hand : List Card) (hd : C06.DealOK board hand 4)
    (hfs : flushSuit board = none) :
    omahaSpec board hand = specR (ranksOf board) (ranksOf hand) := by
  rw [sd_decomp board hand [] (.inl rfl), sd_lexMax_nil]
  intro h hm hfl
  obtain ⟨s, hs, _⟩ := sd_flush_hand board hand hd.board_len hm hfl
  rw [hfs] at hs
  cases hs

theorem spec_decomp_some (board hand : List Card) (hd : C06.DealOK board hand 4)
    (fs : Nat) (bfr : List Nat) (hfs : flushSuit board = some (fs, bfr)) :
    omahaSpec board hand = lexMax (specR (ranksOf board) (ranksOf hand)) (specF bfr (ranksIn fs hand)) := by
  have hb := sd_flushSuit_some hfs
  subst hb
  obtain ⟨f1, f2⟩ := sd_bestV_spec true (ranksIn fs board) (ranksIn fs hand)
  apply sd_decomp
  · rcases f1 with f1 | ⟨vs, hvs, e⟩
    · exact .inl f1
    · obtain ⟨h, hm, hfl, rfl⟩ := sd_flush_combo board hand fs hvs
      exact .inr ⟨h, hm, hfl, e⟩
  · intro h hm hfl
    obtain ⟨s, hs, hc⟩ := sd_flush_hand board hand hd.board_len hm hfl
    rw [hfs] at hs
    simp only [Option.some.injEq, Prod.mk.injEq] at hs
    obtain ⟨rfl, _⟩ := hs
    exact f2 _ hc

end CardVerif.OmahaD
