import CardModel.Spec.OmahaTables
import CardVerif.Proofs.OmahaTabR1
import CardVerif.Proofs.OmahaTabR2
import CardVerif.Proofs.OmahaTabR3
import CardVerif.Proofs.OmahaTabR4
import CardVerif.Proofs.OmahaTabR5
import CardVerif.Proofs.OmahaTabR6
import CardVerif.Proofs.OmahaTabR7
import CardVerif.Proofs.OmahaTabR8
import CardVerif.Proofs.OmahaTabR9
import CardVerif.Proofs.OmahaTabR10
import CardVerif.Proofs.OmahaTabR11
import CardVerif.Proofs.OmahaTabR12
import CardVerif.Proofs.OmahaTabR13
import CardVerif.Proofs.OmahaTabR14
import CardVerif.Proofs.OmahaTabR15
import CardVerif.Proofs.OmahaTabF
/-!
# The two finite tables: on every suit-free rank pattern and on every flush-suit pattern the optimised evaluator's part
equals the rules' part.  Evaluated by compiled code (`native_decide`); see DESIGN.md, trusted base.

The Boolean table facts themselves (`tabR_*`, `tabF_*`, compiled evaluation) live in `CardVerif/Proofs/OmahaTab*.lean`.
Everything in this file is checked by the kernel: the enumerations `multisets` / `subsets` contain every ascending /
strictly ascending list, the chunks cover every board, and a `true` table yields the equation at every entry.
-/
namespace CardVerif.OmahaD
open CardVerif CardVerif.Omaha

/-! ## The enumerations are complete -/

theorem tab_mem_multisets : ∀ (k lo : Nat) (l : List Nat), l.length = k → l.Pairwise (· ≤ ·) →
    (∀ v ∈ l, lo ≤ v ∧ v ≤ 14) → l ∈ multisets k lo
  | 0, lo, l, hl, _, _ => by
      have : l = [] := List.eq_nil_of_length_eq_zero hl
      subst this; simp [multisets]
  | k + 1, lo, [], hl, _, _ => by simp at hl
  | k + 1, lo, v :: t, hl, hp, hr => by
      rw [multisets, List.mem_flatMap]
      rw [List.pairwise_cons] at hp
      have hv := hr v (List.mem_cons_self ..)
      refine ⟨v, ?_, List.mem_map.mpr ⟨t, ?_, rfl⟩⟩
      · rw [List.mem_range'_1]; omega
      · exact tab_mem_multisets k v t (by simpa using hl) hp.2
          (fun w hw => ⟨hp.1 w hw, (hr w (List.mem_cons_of_mem _ hw)).2⟩)

theorem tab_mem_subsets : ∀ (k lo : Nat) (l : List Nat), l.length = k → l.Pairwise (· < ·) →
    (∀ v ∈ l, lo ≤ v ∧ v ≤ 14) → l ∈ subsets k lo
  | 0, lo, l, hl, _, _ => by
      have : l = [] := List.eq_nil_of_length_eq_zero hl
      subst this; simp [subsets]
  | k + 1, lo, [], hl, _, _ => by simp at hl
  | k + 1, lo, v :: t, hl, hp, hr => by
      rw [subsets, List.mem_flatMap]
      rw [List.pairwise_cons] at hp
      have hv := hr v (List.mem_cons_self ..)
      refine ⟨v, ?_, List.mem_map.mpr ⟨t, ?_, rfl⟩⟩
      · rw [List.mem_range'_1]; omega
      · exact tab_mem_subsets k (v + 1) t (by simpa using hl) hp.2
          (fun w hw => ⟨hp.1 w hw, (hr w (List.mem_cons_of_mem _ hw)).2⟩)

/-! ## The suit-free table -/

/-- a `true` chunk yields every one of its entries -/
theorem tabR_entry_of_chunk {a blo bhi : Nat} (h : tableRc a blo bhi = true) (b : Nat) (hb1 : blo ≤ b)
    (hb2 : b ≤ bhi) (t hr : List Nat) (ht : t ∈ multisets 3 b) (hh : hr ∈ multisets 4 2) :
    entryR (a :: b :: t) hr = true := by
  unfold tableRc at h
  rw [List.all_eq_true] at h
  have h1 := h b (by rw [List.mem_range'_1]; omega)
  rw [List.all_eq_true] at h1
  have h2 := h1 (a :: b :: t) (List.mem_map.mpr ⟨t, ht, rfl⟩)
  rw [List.all_eq_true] at h2
  exact h2 hr hh

theorem tabR_row_2 (b : Nat) (h1 : 2 ≤ b) (h2 : b ≤ 14) :
    ∃ blo bhi, blo ≤ b ∧ b ≤ bhi ∧ tableRc 2 blo bhi = true := by
  have h : (2 ≤ b ∧ b ≤ 2) ∨ (3 ≤ b ∧ b ≤ 3) ∨ (4 ≤ b ∧ b ≤ 4) ∨ (5 ≤ b ∧ b ≤ 5) ∨ (6 ≤ b ∧ b ≤ 6) ∨
      (7 ≤ b ∧ b ≤ 8) ∨ (9 ≤ b ∧ b ≤ 9) ∨ (10 ≤ b ∧ b ≤ 14) := by omega
  rcases h with h | h | h | h | h | h | h | h
  · exact ⟨2, 2, h.1, h.2, tabR_2_2_2⟩
  · exact ⟨3, 3, h.1, h.2, tabR_2_3_3⟩
  · exact ⟨4, 4, h.1, h.2, tabR_2_4_4⟩
  · exact ⟨5, 5, h.1, h.2, tabR_2_5_5⟩
  · exact ⟨6, 6, h.1, h.2, tabR_2_6_6⟩
  · exact ⟨7, 8, h.1, h.2, tabR_2_7_8⟩
  · exact ⟨9, 9, h.1, h.2, tabR_2_9_9⟩
  · exact ⟨10, 14, h.1, h.2, tabR_2_10_14⟩

theorem tabR_row_3 (b : Nat) (h1 : 3 ≤ b) (h2 : b ≤ 14) :
    ∃ blo bhi, blo ≤ b ∧ b ≤ bhi ∧ tableRc 3 blo bhi = true := by
  have h : (3 ≤ b ∧ b ≤ 3) ∨ (4 ≤ b ∧ b ≤ 4) ∨ (5 ≤ b ∧ b ≤ 5) ∨ (6 ≤ b ∧ b ≤ 6) ∨ (7 ≤ b ∧ b ≤ 8) ∨
      (9 ≤ b ∧ b ≤ 9) ∨ (10 ≤ b ∧ b ≤ 14) := by omega
  rcases h with h | h | h | h | h | h | h
  · exact ⟨3, 3, h.1, h.2, tabR_3_3_3⟩
  · exact ⟨4, 4, h.1, h.2, tabR_3_4_4⟩
  · exact ⟨5, 5, h.1, h.2, tabR_3_5_5⟩
  · exact ⟨6, 6, h.1, h.2, tabR_3_6_6⟩
  · exact ⟨7, 8, h.1, h.2, tabR_3_7_8⟩
  · exact ⟨9, 9, h.1, h.2, tabR_3_9_9⟩
  · exact ⟨10, 14, h.1, h.2, tabR_3_10_14⟩

theorem tabR_row_4 (b : Nat) (h1 : 4 ≤ b) (h2 : b ≤ 14) :
    ∃ blo bhi, blo ≤ b ∧ b ≤ bhi ∧ tableRc 4 blo bhi = true := by
  have h : (4 ≤ b ∧ b ≤ 4) ∨ (5 ≤ b ∧ b ≤ 5) ∨ (6 ≤ b ∧ b ≤ 6) ∨ (7 ≤ b ∧ b ≤ 8) ∨ (9 ≤ b ∧ b ≤ 9) ∨
      (10 ≤ b ∧ b ≤ 14) := by omega
  rcases h with h | h | h | h | h | h
  · exact ⟨4, 4, h.1, h.2, tabR_4_4_4⟩
  · exact ⟨5, 5, h.1, h.2, tabR_4_5_5⟩
  · exact ⟨6, 6, h.1, h.2, tabR_4_6_6⟩
  · exact ⟨7, 8, h.1, h.2, tabR_4_7_8⟩
  · exact ⟨9, 9, h.1, h.2, tabR_4_9_9⟩
  · exact ⟨10, 14, h.1, h.2, tabR_4_10_14⟩

theorem tabR_row_5 (b : Nat) (h1 : 5 ≤ b) (h2 : b ≤ 14) :
    ∃ blo bhi, blo ≤ b ∧ b ≤ bhi ∧ tableRc 5 blo bhi = true := by
  have h : (5 ≤ b ∧ b ≤ 5) ∨ (6 ≤ b ∧ b ≤ 6) ∨ (7 ≤ b ∧ b ≤ 8) ∨ (9 ≤ b ∧ b ≤ 9) ∨ (10 ≤ b ∧ b ≤ 14) := by omega
  rcases h with h | h | h | h | h
  · exact ⟨5, 5, h.1, h.2, tabR_5_5_5⟩
  · exact ⟨6, 6, h.1, h.2, tabR_5_6_6⟩
  · exact ⟨7, 8, h.1, h.2, tabR_5_7_8⟩
  · exact ⟨9, 9, h.1, h.2, tabR_5_9_9⟩
  · exact ⟨10, 14, h.1, h.2, tabR_5_10_14⟩

theorem tabR_row_6 (b : Nat) (h1 : 6 ≤ b) (h2 : b ≤ 14) :
    ∃ blo bhi, blo ≤ b ∧ b ≤ bhi ∧ tableRc 6 blo bhi = true := by
  have h : (6 ≤ b ∧ b ≤ 6) ∨ (7 ≤ b ∧ b ≤ 8) ∨ (9 ≤ b ∧ b ≤ 9) ∨ (10 ≤ b ∧ b ≤ 14) := by omega
  rcases h with h | h | h | h
  · exact ⟨6, 6, h.1, h.2, tabR_6_6_6⟩
  · exact ⟨7, 8, h.1, h.2, tabR_6_7_8⟩
  · exact ⟨9, 9, h.1, h.2, tabR_6_9_9⟩
  · exact ⟨10, 14, h.1, h.2, tabR_6_10_14⟩

theorem tabR_row_7 (b : Nat) (h1 : 7 ≤ b) (h2 : b ≤ 14) :
    ∃ blo bhi, blo ≤ b ∧ b ≤ bhi ∧ tableRc 7 blo bhi = true := by
  have h : (7 ≤ b ∧ b ≤ 8) ∨ (9 ≤ b ∧ b ≤ 9) ∨ (10 ≤ b ∧ b ≤ 14) := by omega
  rcases h with h | h | h
  · exact ⟨7, 8, h.1, h.2, tabR_7_7_8⟩
  · exact ⟨9, 9, h.1, h.2, tabR_7_9_9⟩
  · exact ⟨10, 14, h.1, h.2, tabR_7_10_14⟩

theorem tabR_row_8 (b : Nat) (h1 : 8 ≤ b) (h2 : b ≤ 14) :
    ∃ blo bhi, blo ≤ b ∧ b ≤ bhi ∧ tableRc 8 blo bhi = true := by
  exact ⟨8, 14, h1, h2, tabR_8_8_14⟩

theorem tabR_row_9 (b : Nat) (h1 : 9 ≤ b) (h2 : b ≤ 14) :
    ∃ blo bhi, blo ≤ b ∧ b ≤ bhi ∧ tableRc 9 blo bhi = true := by
  exact ⟨9, 14, h1, h2, tabR_9_9_14⟩

theorem tabR_row_10 (b : Nat) (h1 : 10 ≤ b) (h2 : b ≤ 14) :
    ∃ blo bhi, blo ≤ b ∧ b ≤ bhi ∧ tableRc 10 blo bhi = true := by
  exact ⟨10, 14, h1, h2, tabR_10_10_14⟩

theorem tabR_row_11 (b : Nat) (h1 : 11 ≤ b) (h2 : b ≤ 14) :
    ∃ blo bhi, blo ≤ b ∧ b ≤ bhi ∧ tableRc 11 blo bhi = true := by
  exact ⟨11, 14, h1, h2, tabR_11_11_14⟩

theorem tabR_row_12 (b : Nat) (h1 : 12 ≤ b) (h2 : b ≤ 14) :
    ∃ blo bhi, blo ≤ b ∧ b ≤ bhi ∧ tableRc 12 blo bhi = true := by
  exact ⟨12, 14, h1, h2, tabR_12_12_14⟩

theorem tabR_row_13 (b : Nat) (h1 : 13 ≤ b) (h2 : b ≤ 14) :
    ∃ blo bhi, blo ≤ b ∧ b ≤ bhi ∧ tableRc 13 blo bhi = true := by
  exact ⟨13, 14, h1, h2, tabR_13_13_14⟩

theorem tabR_row_14 (b : Nat) (h1 : 14 ≤ b) (h2 : b ≤ 14) :
    ∃ blo bhi, blo ≤ b ∧ b ≤ bhi ∧ tableRc 14 blo bhi = true := by
  exact ⟨14, 14, h1, h2, tabR_14_14_14⟩

/-- the chunks cover every pair of lowest values -/
theorem tabR_rows (a b : Nat) (h2 : 2 ≤ a) (hab : a ≤ b) (hb : b ≤ 14) :
    ∃ blo bhi, blo ≤ b ∧ b ≤ bhi ∧ tableRc a blo bhi = true := by
  have h : a = 2 ∨ a = 3 ∨ a = 4 ∨ a = 5 ∨ a = 6 ∨ a = 7 ∨ a = 8 ∨ a = 9 ∨ a = 10 ∨ a = 11 ∨ a = 12 ∨ a = 13 ∨
      a = 14 := by omega
  rcases h with rfl | rfl | rfl | rfl | rfl | rfl | rfl | rfl | rfl | rfl | rfl | rfl | rfl
  · exact tabR_row_2 b hab hb
  · exact tabR_row_3 b hab hb
  · exact tabR_row_4 b hab hb
  · exact tabR_row_5 b hab hb
  · exact tabR_row_6 b hab hb
  · exact tabR_row_7 b hab hb
  · exact tabR_row_8 b hab hb
  · exact tabR_row_9 b hab hb
  · exact tabR_row_10 b hab hb
  · exact tabR_row_11 b hab hb
  · exact tabR_row_12 b hab hb
  · exact tabR_row_13 b hab hb
  · exact tabR_row_14 b hab hb

theorem tableR_covers (br hr : List Nat) (hbl : br.length = 5) (hhl : hr.length = 4)
    (hbs : br.Pairwise (· ≤ ·)) (hhs : hr.Pairwise (· ≤ ·))
    (hbr : ∀ v ∈ br, 2 ≤ v ∧ v ≤ 14) (hhr : ∀ v ∈ hr, 2 ≤ v ∧ v ≤ 14)
    (hc : countsOK br hr = true) :
    fastR br hr = .ok (specR br hr) := by
  rcases br with _ | ⟨a, _ | ⟨b, t⟩⟩
  · simp at hbl
  · simp at hbl
  have ha := hbr a (by simp)
  have hb := hbr b (by simp)
  rw [List.pairwise_cons] at hbs
  have hab : a ≤ b := hbs.1 b (by simp)
  have hbs2 := hbs.2
  rw [List.pairwise_cons] at hbs2
  have ht : t ∈ multisets 3 b :=
    tab_mem_multisets 3 b t (by simpa using hbl) hbs2.2
      (fun w hw => ⟨hbs2.1 w hw, (hbr w (by simp [hw])).2⟩)
  have hh : hr ∈ multisets 4 2 := tab_mem_multisets 4 2 hr hhl hhs hhr
  obtain ⟨blo, bhi, h1, h2, htab⟩ := tabR_rows a b ha.1 hab hb.2
  have he := tabR_entry_of_chunk htab b h1 h2 t hr ht hh
  unfold entryR at he
  rw [hc] at he
  simpa using he

/-! ## The flush table -/

/-- chunks whose lowest rank leaves no room for the remaining board ranks are empty; evaluated by the kernel -/
theorem tabFv_3_13 : tableF 3 13 = true := by decide
theorem tabFv_3_14 : tableF 3 14 = true := by decide
theorem tabFv_4_12 : tableF 4 12 = true := by decide
theorem tabFv_4_13 : tableF 4 13 = true := by decide
theorem tabFv_4_14 : tableF 4 14 = true := by decide
theorem tabFv_5_11 : tableF 5 11 = true := by decide
theorem tabFv_5_12 : tableF 5 12 = true := by decide
theorem tabFv_5_13 : tableF 5 13 = true := by decide
theorem tabFv_5_14 : tableF 5 14 = true := by decide

theorem tabF_row_3 (lo : Nat) (h1 : 2 ≤ lo) (h2 : lo ≤ 14) : tableF 3 lo = true := by
  have h : lo = 2 ∨ lo = 3 ∨ lo = 4 ∨ lo = 5 ∨ lo = 6 ∨ lo = 7 ∨ lo = 8 ∨ lo = 9 ∨ lo = 10 ∨ lo = 11 ∨ lo = 12 ∨
      lo = 13 ∨ lo = 14 := by omega
  rcases h with rfl | rfl | rfl | rfl | rfl | rfl | rfl | rfl | rfl | rfl | rfl | rfl | rfl
  · exact tabF_3_2
  · exact tabF_3_3
  · exact tabF_3_4
  · exact tabF_3_5
  · exact tabF_3_6
  · exact tabF_3_7
  · exact tabF_3_8
  · exact tabF_3_9
  · exact tabF_3_10
  · exact tabF_3_11
  · exact tabF_3_12
  · exact tabFv_3_13
  · exact tabFv_3_14

theorem tabF_row_4 (lo : Nat) (h1 : 2 ≤ lo) (h2 : lo ≤ 14) : tableF 4 lo = true := by
  have h : lo = 2 ∨ lo = 3 ∨ lo = 4 ∨ lo = 5 ∨ lo = 6 ∨ lo = 7 ∨ lo = 8 ∨ lo = 9 ∨ lo = 10 ∨ lo = 11 ∨ lo = 12 ∨
      lo = 13 ∨ lo = 14 := by omega
  rcases h with rfl | rfl | rfl | rfl | rfl | rfl | rfl | rfl | rfl | rfl | rfl | rfl | rfl
  · exact tabF_4_2
  · exact tabF_4_3
  · exact tabF_4_4
  · exact tabF_4_5
  · exact tabF_4_6
  · exact tabF_4_7
  · exact tabF_4_8
  · exact tabF_4_9
  · exact tabF_4_10
  · exact tabF_4_11
  · exact tabFv_4_12
  · exact tabFv_4_13
  · exact tabFv_4_14

theorem tabF_row_5 (lo : Nat) (h1 : 2 ≤ lo) (h2 : lo ≤ 14) : tableF 5 lo = true := by
  have h : lo = 2 ∨ lo = 3 ∨ lo = 4 ∨ lo = 5 ∨ lo = 6 ∨ lo = 7 ∨ lo = 8 ∨ lo = 9 ∨ lo = 10 ∨ lo = 11 ∨ lo = 12 ∨
      lo = 13 ∨ lo = 14 := by omega
  rcases h with rfl | rfl | rfl | rfl | rfl | rfl | rfl | rfl | rfl | rfl | rfl | rfl | rfl
  · exact tabF_5_2
  · exact tabF_5_3
  · exact tabF_5_4
  · exact tabF_5_5
  · exact tabF_5_6
  · exact tabF_5_7
  · exact tabF_5_8
  · exact tabF_5_9
  · exact tabF_5_10
  · exact tabFv_5_11
  · exact tabFv_5_12
  · exact tabFv_5_13
  · exact tabFv_5_14

theorem tableF_covers (bfr hfr : List Nat) (hbl : 3 ≤ bfr.length ∧ bfr.length ≤ 5) (hhl : hfr.length ≤ 4)
    (hbs : bfr.Pairwise (· < ·)) (hhs : hfr.Pairwise (· < ·))
    (hbr : ∀ v ∈ bfr, 2 ≤ v ∧ v ≤ 14) (hhr : ∀ v ∈ hfr, 2 ≤ v ∧ v ≤ 14)
    (hdisj : ∀ v ∈ hfr, v ∉ bfr) :
    fastF bfr hfr = .ok (specF bfr hfr) := by
  rcases bfr with _ | ⟨lo, t⟩
  · simp at hbl
  have hlo := hbr lo (by simp)
  rw [List.pairwise_cons] at hbs
  have hkb : (lo :: t).length - 1 = t.length := by simp
  have ht : t ∈ subsets ((lo :: t).length - 1) (lo + 1) :=
    tab_mem_subsets _ (lo + 1) t hkb.symm hbs.2
      (fun w hw => ⟨hbs.1 w hw, (hbr w (by simp [hw])).2⟩)
  have hh : hfr ∈ subsets hfr.length 2 := tab_mem_subsets _ 2 hfr rfl hhs hhr
  have htab : tableF (lo :: t).length lo = true := by
    have h : (lo :: t).length = 3 ∨ (lo :: t).length = 4 ∨ (lo :: t).length = 5 := by omega
    rcases h with h | h | h <;> rw [h]
    · exact tabF_row_3 lo hlo.1 hlo.2
    · exact tabF_row_4 lo hlo.1 hlo.2
    · exact tabF_row_5 lo hlo.1 hlo.2
  unfold tableF at htab
  rw [List.all_eq_true] at htab
  have h1 := htab (lo :: t) (List.mem_map.mpr ⟨t, ht, rfl⟩)
  rw [List.all_eq_true] at h1
  have h2 := h1 hfr.length (by rw [List.mem_range]; omega)
  rw [List.all_eq_true] at h2
  have h3 := h2 hfr hh
  have hany : hfr.any (fun x => (lo :: t).contains x) = false := by
    rw [List.any_eq_false]
    intro v hv
    simpa using hdisj v hv
  rw [hany] at h3
  simpa using h3

end CardVerif.OmahaD
