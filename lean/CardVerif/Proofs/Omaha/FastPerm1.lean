import CardModel.Spec.OmahaDecomp
import CardVerif.Proofs.Strength
import Mathlib.Data.List.Perm.Basic
import Mathlib.Data.List.Nodup
/-!
# The count-based helpers of the optimised Omaha evaluator do not depend on the order of the count tables (part 1)

Every helper is a `foldlM` over the board table whose step is "compute a candidate key from the entry (`[]` = no
candidate) through order-insensitive queries of the two tables, and keep the lexicographically larger of the candidate
and `best`" (`fp1Step`).  Such steps commute (`lexMax` is a commutative, associative maximum and every error is
`emptyMax`), so the fold is invariant under permutations of the folded list (`fp1_maxfold_perm`); the candidate
functions are invariant under permutations of the tables used as parameters (`fp1_*Cand_perm`).
-/
namespace CardVerif.OmahaD
open CardVerif CardVerif.Omaha CardVerif.Strength

/-! ## `lexMax` is a commutative, associative maximum with neutral element `[]` -/

theorem fp1_lexMax_nil_right (a : List Nat) : lexMax a [] = a := by simp [lexMax]
theorem fp1_lexMax_nil_left (c : List Nat) : lexMax [] c = c := by
  cases c <;> simp [lexMax]

theorem fp1_lexMax_right_comm (a b c : List Nat) : lexMax (lexMax a b) c = lexMax (lexMax a c) b := by
  unfold lexMax
  have := @lexLt_trans
  have := @lexLt_asymm
  have := @lexLt_trichotomy
  grind

theorem fp1_lexMax_assoc (a b c : List Nat) : lexMax (lexMax a b) c = lexMax a (lexMax b c) := by
  unfold lexMax
  have := @lexLt_trans
  have := @lexLt_asymm
  have := @lexLt_trichotomy
  grind

theorem fp1_gt_ite (c best : List Nat) : (if gt c best = true then c else best) = lexMax best c := rfl

/-- maximum of a list of keys (`[]` for the empty list) -/
def fp1LexMaxL (cs : List (List Nat)) : List Nat := cs.foldl lexMax []

theorem fp1_foldl_lexMax (cs : List (List Nat)) (b : List Nat) : cs.foldl lexMax b = lexMax b (fp1LexMaxL cs) := by
  unfold fp1LexMaxL
  induction cs generalizing b with
  | nil => simp [fp1_lexMax_nil_right]
  | cons c cs ih =>
    simp only [List.foldl_cons]
    rw [ih (lexMax b c), ih (lexMax [] c), fp1_lexMax_nil_left, fp1_lexMax_assoc]

theorem fp1_lexMaxL_perm {cs cs' : List (List Nat)} (h : cs.Perm cs') : fp1LexMaxL cs = fp1LexMaxL cs' :=
  List.Perm.foldl_eq' h (fun x _ y _ z => fp1_lexMax_right_comm z x y) []

theorem fp1_foldl_cond {α : Type} (p : α → Bool) (c : α → List Nat) (l : List α) (best : List Nat) :
    l.foldl (fun best h => if (p h && gt (c h) best) = true then c h else best) best
      = lexMax best (fp1LexMaxL ((l.filter p).map c)) := by
  rw [← fp1_foldl_lexMax]
  induction l generalizing best with
  | nil => rfl
  | cons x xs ih =>
    simp only [List.foldl_cons, List.filter_cons]
    cases hp : p x with
    | false => simpa using ih best
    | true => simpa [fp1_gt_ite] using ih (lexMax best (c x))

theorem fp1_foldl_uncond {α : Type} (c : α → List Nat) (l : List α) (best : List Nat) :
    l.foldl (fun best h => if gt (c h) best = true then c h else best) best
      = lexMax best (fp1LexMaxL (l.map c)) := by
  rw [← fp1_foldl_lexMax, List.foldl_map]
  rfl

theorem fp1_foldl_lexMax_map {α : Type} (c : α → List Nat) (l : List α) (best : List Nat) :
    l.foldl (fun best o => lexMax best (c o)) best = lexMax best (fp1LexMaxL (l.map c)) := by
  rw [← fp1_foldl_lexMax, List.foldl_map]

/-! ## folds of commuting steps -/

theorem fp1_foldlM_perm {α β ε : Type} (step : β → α → Except ε β)
    (hc : ∀ b x y, (step b x >>= fun b' => step b' y) = (step b y >>= fun b' => step b' x))
    {l l' : List α} (h : l.Perm l') (init : β) : l.foldlM step init = l'.foldlM step init := by
  induction h generalizing init with
  | nil => rfl
  | cons x _ ih => simp only [List.foldlM_cons]; congr; funext b; exact ih b
  | swap x y l => simp only [List.foldlM_cons, ← bind_assoc]; rw [hc]
  | trans _ _ ih1 ih2 => exact (ih1 init).trans (ih2 init)

/-- the only error is `emptyMax` -/
def fp1EM {α : Type} (x : Except Err α) : Prop := ∀ e, x = .error e → e = .emptyMax

theorem fp1EM_pure {α : Type} (a : α) : fp1EM (pure a : Except Err α) := by
  intro e h; cases h

theorem fp1EM_bind {α β : Type} {x : Except Err α} {f : α → Except Err β} (hx : fp1EM x) (hf : ∀ a, fp1EM (f a)) :
    fp1EM (x >>= f) := by
  intro e h
  cases x with
  | error e' => cases h; exact hx _ rfl
  | ok a => exact hf a e h

theorem fp1EM_ite {α : Type} {c : Prop} [Decidable c] {x y : Except Err α} (hx : fp1EM x) (hy : fp1EM y) :
    fp1EM (if c then x else y) := by
  split <;> assumption

theorem fp1EM_maxN (l : List Nat) : fp1EM (maxN l) := by
  intro e h
  unfold maxN at h; split at h <;> simp_all

theorem fp1EM_highestExcept (l ex : List Nat) : fp1EM (highestExcept l ex) := fp1EM_maxN _

/-- the shape of every step: compute a candidate (`[]` = none) and keep the larger one -/
def fp1Step {α : Type} (cand : α → Except Err (List Nat)) (best : List Nat) (a : α) : Except Err (List Nat) :=
  cand a >>= fun c => pure (lexMax best c)

theorem fp1_maxfold_perm {α : Type} (cand : α → Except Err (List Nat))
    (herr : ∀ a, fp1EM (cand a))
    {l l' : List α} (h : l.Perm l') (init : List Nat) :
    l.foldlM (fp1Step cand) init = l'.foldlM (fp1Step cand) init := by
  apply fp1_foldlM_perm _ _ h
  intro b x y
  unfold fp1Step
  cases hx : cand x with
  | error ex =>
    cases hy : cand y with
    | error ey => rw [herr _ _ hx, herr _ _ hy]
    | ok cy => simp [bind, Except.bind, pure, Except.pure]
  | ok cx =>
    cases hy : cand y with
    | error ey => simp [bind, Except.bind, pure, Except.pure]
    | ok cy => simp [bind, Except.bind, pure, Except.pure, fp1_lexMax_right_comm]

/-! ## order-insensitive queries -/

theorem fp1_find?_perm {α : Type} (p : α → Bool) {l l' : List α} (h : l.Perm l')
    (hu : ∀ x ∈ l, ∀ y ∈ l, p x = true → p y = true → x = y) : l.find? p = l'.find? p := by
  cases h1 : l.find? p with
  | none =>
    rw [List.find?_eq_none] at h1
    symm; rw [List.find?_eq_none]
    intro x hx; exact h1 x (h.mem_iff.2 hx)
  | some x =>
    have hxm := List.mem_of_find?_eq_some h1
    have hxp := List.find?_some h1
    cases h2 : l'.find? p with
    | none =>
      rw [List.find?_eq_none] at h2
      exact absurd hxp (h2 x (h.mem_iff.1 hxm))
    | some y =>
      have hym := List.mem_of_find?_eq_some h2
      have hyp := List.find?_some h2
      rw [hu x hxm y (h.mem_iff.2 hym) hxp hyp]

theorem fp1_look_perm {d d' : Counts} (h : d.Perm d') (hn : (keys d).Nodup) (v : Nat) : look d v = look d' v := by
  unfold look
  rw [fp1_find?_perm _ h]
  intro x hx y hy px py
  apply List.inj_on_of_nodup_map hn hx hy
  simp at px py; omega

theorem fp1_keys_perm {d d' : Counts} (h : d.Perm d') : (keys d).Perm (keys d') := h.map _

theorem fp1_maxN?_perm {l l' : List Nat} (h : l.Perm l') : maxN? l = maxN? l' := by
  have key : ∀ l : List Nat, maxN? l = if l = [] then none else some (l.foldl max 0) := by
    intro l; cases l with
    | nil => rfl
    | cons x xs => simp [maxN?]
  rw [key, key]
  have h1 : l.foldl max 0 = l'.foldl max 0 := List.Perm.foldl_eq' h (fun x _ y _ z => by omega) 0
  have h2 : l = [] ↔ l' = [] := ⟨fun e => (e ▸ h).symm.eq_nil, fun e => (e ▸ h).eq_nil⟩
  simp only [h1, h2]

theorem fp1_maxN_perm {l l' : List Nat} (h : l.Perm l') : maxN l = maxN l' := by
  unfold maxN; rw [fp1_maxN?_perm h]

theorem fp1_highestExcept_perm {l l' : List Nat} (h : l.Perm l') (ex : List Nat) :
    highestExcept l ex = highestExcept l' ex := fp1_maxN_perm (h.filter _)

theorem fp1_contains_perm {l l' : List Nat} (h : l.Perm l') (v : Nat) : l.contains v = l'.contains v := by
  rw [Bool.eq_iff_iff]; simp [h.mem_iff]

theorem fp1_isEmpty_perm {α : Type} {l l' : List α} (h : l.Perm l') : l.isEmpty = l'.isEmpty := by
  cases l <;> cases l' <;> simp_all

/-! ## `bestQuads` -/

def fp1QuadsCand (hv bv : Counts) (b ct : Nat) : Except Err (List Nat) :=
  if ct == 2 && look hv b == 2 then do
    let k ← highestExcept (keys bv) [b]
    pure [b, k]
  else if ct == 3 && look hv b == 1 then do
    let k ← highestExcept (keys hv) [b]
    pure [b, k]
  else pure []

theorem fp1_bestQuads_eq (hv bv : Counts) :
    bestQuads hv bv = bv.foldlM (fp1Step fun e => fp1QuadsCand hv bv e.1 e.2) [] := by
  unfold bestQuads
  congr 1
  funext best e
  rcases e with ⟨b, ct⟩
  simp only [fp1Step, fp1QuadsCand, fp1_gt_ite]
  split_ifs <;> simp only [bind_assoc, pure_bind, fp1_lexMax_nil_right]

theorem fp1_quadsCand_error (hv bv : Counts) (b ct : Nat) : fp1EM (fp1QuadsCand hv bv b ct) := by
  unfold fp1QuadsCand
  repeat (first | apply fp1EM_ite | apply fp1EM_bind | apply fp1EM_pure | apply fp1EM_highestExcept | intro _)

theorem fp1_quadsCand_perm {hv hv' bv bv' : Counts} (hh : hv.Perm hv') (hb : bv.Perm bv')
    (hhn : (keys hv).Nodup) : fp1QuadsCand hv bv = fp1QuadsCand hv' bv' := by
  funext b ct
  unfold fp1QuadsCand
  rw [fp1_look_perm hh hhn, fp1_highestExcept_perm (fp1_keys_perm hh), fp1_highestExcept_perm (fp1_keys_perm hb)]

theorem bestQuads_perm {hv hv' bv bv' : Counts} (hh : hv.Perm hv') (hb : bv.Perm bv')
    (hhn : (keys hv).Nodup) (hbn : (keys bv).Nodup) : bestQuads hv bv = bestQuads hv' bv' := by
  have _ := hbn
  rw [fp1_bestQuads_eq, fp1_bestQuads_eq, fp1_quadsCand_perm hh hb hhn]
  exact fp1_maxfold_perm _ (fun _ => fp1_quadsCand_error _ _ _ _) hb _

/-! ## `bestThreeOfAKind` -/

def fp1TripsCand (hv bv : Counts) (b ct : Nat) : Except Err (List Nat) :=
  if ct ≥ 3 then
    if ((keys hv).filter (· != b)).length ≥ 2 then do
      let k1 ← highestExcept (keys hv) [b]
      let k2 ← highestExcept (keys hv) [b, k1]
      pure [b, k1, k2]
    else pure []
  else if ct == 2 then
    if look hv b == 1 then do
      let k1 ← highestExcept (keys bv ++ keys hv) [b]
      let k2 ← if (keys bv).contains k1 && !(keys hv).contains k1 then highestExcept (keys hv) [b]
               else if (keys hv).contains k1 && !(keys bv).contains k1 then highestExcept (keys bv) [b]
               else highestExcept (keys bv ++ keys hv) [b, k1]
      pure [b, k1, k2]
    else pure []
  else if ct == 1 then
    if look hv b ≥ 2 && bv.length ≥ 3 then do
      let k1 ← highestExcept (keys bv) [b]
      let k2 ← highestExcept (keys bv) [b, k1]
      pure [b, k1, k2]
    else pure []
  else pure []

theorem fp1_bestTrips_eq (hv bv : Counts) :
    bestThreeOfAKind hv bv = bv.foldlM (fp1Step fun e => fp1TripsCand hv bv e.1 e.2) [] := by
  unfold bestThreeOfAKind
  congr 1
  funext best e
  rcases e with ⟨b, ct⟩
  simp only [fp1Step, fp1TripsCand, fp1_gt_ite]
  split_ifs <;> simp only [bind_assoc, pure_bind, fp1_lexMax_nil_right]
  congr 1
  funext k1
  split_ifs <;> simp only [bind_assoc, pure_bind]

theorem fp1_tripsCand_error (hv bv : Counts) (b ct : Nat) : fp1EM (fp1TripsCand hv bv b ct) := by
  unfold fp1TripsCand
  repeat (first | apply fp1EM_ite | apply fp1EM_bind | apply fp1EM_pure | apply fp1EM_highestExcept | intro _)

theorem fp1_tripsCand_perm {hv hv' bv bv' : Counts} (hh : hv.Perm hv') (hb : bv.Perm bv')
    (hhn : (keys hv).Nodup) : fp1TripsCand hv bv = fp1TripsCand hv' bv' := by
  funext b ct
  unfold fp1TripsCand
  have hkh := fp1_keys_perm hh
  have hkb := fp1_keys_perm hb
  simp only [fp1_look_perm hh hhn, fp1_highestExcept_perm hkh, fp1_highestExcept_perm hkb,
    fp1_highestExcept_perm (hkb.append hkh), fp1_contains_perm hkh, fp1_contains_perm hkb,
    (hkh.filter _).length_eq, hb.length_eq]

theorem bestThreeOfAKind_perm {hv hv' bv bv' : Counts} (hh : hv.Perm hv') (hb : bv.Perm bv')
    (hhn : (keys hv).Nodup) (hbn : (keys bv).Nodup) : bestThreeOfAKind hv bv = bestThreeOfAKind hv' bv' := by
  have _ := hbn
  rw [fp1_bestTrips_eq, fp1_bestTrips_eq, fp1_tripsCand_perm hh hb hhn]
  exact fp1_maxfold_perm _ (fun _ => fp1_tripsCand_error _ _ _ _) hb _


/-! ## `bestFullHouse` -/

def fp1FullHouseCand (hv bv : Counts) (b ct : Nat) : Except Err (List Nat) :=
  if ct ≥ 3 then
    pure (fp1LexMaxL ((hv.filter fun h => h.2 ≥ 2).map fun h => [b, h.1]))
  else if ct == 2 then
    pure (lexMax (fp1LexMaxL ((hv.filter fun h => h.2 ≥ 2 && look bv h.1 == 1).map fun h => [h.1, b]))
      (if look hv b == 1 then
        fp1LexMaxL (((hv.filter fun h => h.1 != b && look bv h.1 ≥ 1).map (·.1)).map fun o => [b, o])
       else []))
  else if ct == 1 && !((bv.filter fun e => e.2 ≥ 2).map (·.1)).isEmpty then
    if look hv b ≥ 2 then do
      let mp ← maxN ((bv.filter fun e => e.2 ≥ 2).map (·.1))
      pure [b, mp]
    else pure []
  else pure []

theorem fp1_bestFullHouse_eq (hv bv : Counts) :
    bestFullHouse hv bv = bv.foldlM (fp1Step fun e => fp1FullHouseCand hv bv e.1 e.2) [] := by
  unfold bestFullHouse
  simp only []
  congr 1
  funext best e
  rcases e with ⟨b, ct⟩
  simp only [fp1Step, fp1FullHouseCand, fp1_gt_ite]
  split_ifs <;> simp only [bind_assoc, pure_bind, fp1_lexMax_nil_right]
  · rw [fp1_foldl_cond (fun h : Nat × Nat => decide (h.2 ≥ 2)) (fun h => [b, h.1])]
  · rw [fp1_foldl_cond (fun h : Nat × Nat => decide (h.2 ≥ 2) && look bv h.1 == 1) (fun h => [h.1, b]),
      fp1_foldl_lexMax_map (fun o => [b, o]), fp1_lexMax_assoc]
  · rw [fp1_foldl_cond (fun h : Nat × Nat => decide (h.2 ≥ 2) && look bv h.1 == 1) (fun h => [h.1, b])]

theorem fp1_fullHouseCand_error (hv bv : Counts) (b ct : Nat) : fp1EM (fp1FullHouseCand hv bv b ct) := by
  unfold fp1FullHouseCand
  repeat (first | apply fp1EM_ite | apply fp1EM_bind | apply fp1EM_pure | apply fp1EM_maxN | intro _)

theorem fp1_fullHouseCand_perm {hv hv' bv bv' : Counts} (hh : hv.Perm hv') (hb : bv.Perm bv')
    (hhn : (keys hv).Nodup) (hbn : (keys bv).Nodup) : fp1FullHouseCand hv bv = fp1FullHouseCand hv' bv' := by
  funext b ct
  unfold fp1FullHouseCand
  have hlh : look hv = look hv' := funext (fp1_look_perm hh hhn)
  have hlb : look bv = look bv' := funext (fp1_look_perm hb hbn)
  have hpb : ((bv.filter fun e => e.2 ≥ 2).map (·.1)).Perm ((bv'.filter fun e => e.2 ≥ 2).map (·.1)) :=
    (hb.filter _).map _
  rw [hlh, hlb, fp1_maxN_perm hpb, fp1_isEmpty_perm hpb,
    fp1_lexMaxL_perm ((hh.filter (fun h => decide (h.2 ≥ 2))).map fun h => [b, h.1]),
    fp1_lexMaxL_perm ((hh.filter (fun h => decide (h.2 ≥ 2) && look bv' h.1 == 1)).map fun h => [h.1, b]),
    fp1_lexMaxL_perm ((((hh.filter (fun h => h.1 != b && decide (look bv' h.1 ≥ 1))).map (·.1))).map fun o => [b, o])]

theorem bestFullHouse_perm {hv hv' bv bv' : Counts} (hh : hv.Perm hv') (hb : bv.Perm bv')
    (hhn : (keys hv).Nodup) (hbn : (keys bv).Nodup) : bestFullHouse hv bv = bestFullHouse hv' bv' := by
  rw [fp1_bestFullHouse_eq, fp1_bestFullHouse_eq, fp1_fullHouseCand_perm hh hb hhn hbn]
  exact fp1_maxfold_perm _ (fun _ => fp1_fullHouseCand_error _ _ _ _) hb _

end CardVerif.OmahaD
