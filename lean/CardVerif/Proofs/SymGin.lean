import CardModel.Spec.Symmetry
import CardModel.Model.Misc
import CardVerif.Props.C08
import CardVerif.Proofs.Rank5
import CardVerif.Proofs.Showdown
import Mathlib.Data.List.Perm.Basic
import Mathlib.Data.List.Nodup
/-!
# Helper lemmas for C18 (part b): canonical hand form and gin deadwood under suit relabelling

* `canonizeHand` factors through `out Rs`, where `Rs` is the list of sorted rank lists of the suits, sorted by
  `(length desc, lexLt)`; that list is determined by the *multiset* of rank lists (`ordered_snd_unique`);
* arrangements of a hand are transported along a suit relabelling, deadwood being preserved.
-/
namespace CardVerif.Sym
open CardVerif CardVerif.Misc CardVerif.Gin List

/-! ## the comparison of `canonizeHand` -/

/-- the comparison used by `canonizeHand` on `(suit, sorted ranks)` -/
def cle (a b : Nat × List Nat) : Bool :=
  decide (b.2.length < a.2.length) ||
    (a.2.length == b.2.length && (lexLt a.2 b.2 || (a.2 == b.2 && decide (a.1 ≤ b.1))))

/-- the same order on the rank lists alone: antisymmetric -/
def rle (a b : List Nat) : Prop :=
  b.length < a.length ∨ (a.length = b.length ∧ (lexLt a b = true ∨ a = b))

theorem cle_iff (a b : Nat × List Nat) :
    cle a b = true ↔ (b.2.length < a.2.length ∨
      (a.2.length = b.2.length ∧ (lexLt a.2 b.2 = true ∨ (a.2 = b.2 ∧ a.1 ≤ b.1)))) := by
  simp [cle]

theorem cle_total (a b : Nat × List Nat) : cle a b = true ∨ cle b a = true := by
  rw [cle_iff, cle_iff]
  rcases Nat.lt_trichotomy a.2.length b.2.length with h | h | h
  · exact Or.inr (Or.inl h)
  · cases hab : lexLt a.2 b.2 with
    | true => exact Or.inl (Or.inr ⟨h, Or.inl rfl⟩)
    | false =>
      cases hba : lexLt b.2 a.2 with
      | true => exact Or.inr (Or.inr ⟨h.symm, Or.inl rfl⟩)
      | false =>
        have he := Betting.lexLt_connected _ _ hab hba
        rcases Nat.le_total a.1 b.1 with h1 | h1
        · exact Or.inl (Or.inr ⟨h, Or.inr ⟨he, h1⟩⟩)
        · exact Or.inr (Or.inr ⟨h.symm, Or.inr ⟨he.symm, h1⟩⟩)
  · exact Or.inl (Or.inl h)

theorem cle_trans (a b c : Nat × List Nat) (h1 : cle a b = true) (h2 : cle b c = true) : cle a c = true := by
  rw [cle_iff] at *
  rcases h1 with h1 | ⟨l1, h1⟩
  · rcases h2 with h2 | ⟨l2, _⟩
    · exact Or.inl (by omega)
    · exact Or.inl (by omega)
  · rcases h2 with h2 | ⟨l2, h2⟩
    · exact Or.inl (by omega)
    · refine Or.inr ⟨l1.trans l2, ?_⟩
      rcases h1 with h1 | ⟨e1, s1⟩
      · rcases h2 with h2 | ⟨e2, _⟩
        · exact Or.inl (Betting.lexLt_trans _ _ _ h1 h2)
        · exact Or.inl (e2 ▸ h1)
      · rcases h2 with h2 | ⟨e2, s2⟩
        · exact Or.inl (e1 ▸ h2)
        · exact Or.inr ⟨e1.trans e2, Nat.le_trans s1 s2⟩

theorem rle_of_cle {a b : Nat × List Nat} (h : cle a b = true) : rle a.2 b.2 := by
  rw [cle_iff] at h
  rcases h with h | ⟨l, h | ⟨e, _⟩⟩
  · exact Or.inl h
  · exact Or.inr ⟨l, Or.inl h⟩
  · exact Or.inr ⟨l, Or.inr e⟩

theorem rle_antisymm {a b : List Nat} (h1 : rle a b) (h2 : rle b a) : a = b := by
  rcases h1 with h1 | ⟨l1, h1⟩
  · rcases h2 with h2 | ⟨l2, _⟩ <;> omega
  · rcases h2 with h2 | ⟨_, h2⟩
    · omega
    · rcases h1 with h1 | h1
      · rcases h2 with h2 | h2
        · rw [Betting.lexLt_asymm _ _ h1] at h2; cases h2
        · exact h2.symm
      · exact h1

/-! ## `canonizeHand` in named pieces -/

/-- `(suit, sorted ranks)` per suit, suits in first-appearance order -/
def keyed (h : List Card) : List (Nat × List Nat) := (suitGroups h).map fun g => (g.1, sortN g.2)

/-- the keyed groups in canonical order -/
def ordered (h : List Card) : List (Nat × List Nat) := sortBy cle (keyed h)

/-- the canonical hand written from the rank lists in canonical order -/
def out (Rs : List (List Nat)) : List Card := Rs.zipIdx.flatMap fun p => p.1.map fun r => (⟨r, p.2⟩ : Card)

theorem canonizeHand_snd (h : List Card) :
    (canonizeHand h).2 = ((ordered h).map (·.1)).zip (List.range 4) := rfl

theorem canonizeHand_fst' (h : List Card) :
    (canonizeHand h).1 = (ordered h).zipIdx.flatMap fun p => p.1.2.map fun r => (⟨r, p.2⟩ : Card) := rfl

theorem canonizeHand_fst (h : List Card) : (canonizeHand h).1 = out ((ordered h).map (·.2)) := by
  rw [canonizeHand_fst', out, List.zipIdx_map, List.flatMap_map]
  rfl

theorem pairwise_ordered (h : List Card) : (ordered h).Pairwise fun a b => cle a b = true :=
  CardVerif.pairwise_sortBy cle cle_total cle_trans _

theorem perm_ordered (h : List Card) : (ordered h).Perm (keyed h) := CardVerif.perm_sortBy cle _

theorem pairwise_ordered_snd (h : List Card) : ((ordered h).map (·.2)).Pairwise rle := by
  rw [List.pairwise_map]
  exact (pairwise_ordered h).imp fun hab => rle_of_cle hab

/-- the rank lists in canonical order are determined by their multiset -/
theorem ordered_snd_unique (h : List Card) (Rs : List (List Nat)) (hs : Rs.Pairwise rle)
    (hp : Rs.Perm ((keyed h).map (·.2))) : (ordered h).map (·.2) = Rs :=
  Perm.eq_of_pairwise (fun _ _ _ _ h1 h2 => rle_antisymm h1 h2) (pairwise_ordered_snd h) hs
    (((perm_ordered h).map _).trans hp.symm)

/-! ## the keyed groups -/

/-- the suits of a hand in first-appearance order -/
def suits (h : List Card) : List Nat := dedupFirst (h.map (·.suit))

/-- the ranks held in suit `s`, in hand order -/
def ranksOf (h : List Card) (s : Nat) : List Nat := (h.filter (·.suit == s)).map (·.rank)

theorem keyed_eq (h : List Card) : keyed h = (suits h).map fun s => (s, sortN (ranksOf h s)) := by
  simp [keyed, suitGroups, suits, ranksOf, List.map_map, Function.comp_def]

theorem keyed_snd (h : List Card) : (keyed h).map (·.2) = (suits h).map fun s => sortN (ranksOf h s) := by
  rw [keyed_eq, List.map_map]; rfl

theorem keyed_fst (h : List Card) : (keyed h).map (·.1) = suits h := by
  rw [keyed_eq, List.map_map]; simp [Function.comp_def]

theorem nodup_suits (h : List Card) : (suits h).Nodup := nodup_dedupFirst _

theorem mem_suits (h : List Card) (s : Nat) : s ∈ suits h ↔ ∃ c ∈ h, c.suit = s := by
  unfold suits
  rw [mem_dedupFirst, List.mem_map]

theorem sortN_sortN (l : List Nat) : sortN (sortN l) = sortN l := sortN_congr (perm_sortN l)

theorem sortN_ne_nil {l : List Nat} (h : l ≠ []) : sortN l ≠ [] := by
  intro he
  have := (perm_sortN l).length_eq
  rw [he] at this
  exact h (List.length_eq_zero_iff.1 this.symm)

theorem ranksOf_ne_nil {h : List Card} {s : Nat} (hs : s ∈ suits h) : ranksOf h s ≠ [] := by
  obtain ⟨c, hc, rfl⟩ := (mem_suits h s).1 hs
  have : c.rank ∈ ranksOf h c.suit :=
    List.mem_map.2 ⟨c, List.mem_filter.2 ⟨hc, by simp⟩, rfl⟩
  exact List.ne_nil_of_mem this

/-- every rank list of the canonical order is non-empty and sorted -/
theorem ordered_snd_spec (h : List Card) (R : List Nat) (hR : R ∈ (ordered h).map (·.2)) :
    R ≠ [] ∧ sortN R = R := by
  have hR' : R ∈ (keyed h).map (·.2) := ((perm_ordered h).map _).subset hR
  rw [keyed_snd, List.mem_map] at hR'
  obtain ⟨s, hs, rfl⟩ := hR'
  exact ⟨sortN_ne_nil (ranksOf_ne_nil hs), sortN_sortN _⟩

/-! ## invariance under relabelling -/

theorem suits_image {σ : Nat → Nat} (hσ : SuitPerm σ) {h h' : List Card} (hv : ∀ c ∈ h, c.suit < 4)
    (hi : Image σ h h') : (suits h').Perm ((suits h).map σ) := by
  have hnd : ((suits h).map σ).Nodup := by
    refine List.Nodup.map_on ?_ (nodup_suits h)
    intro a ha b hb hab
    obtain ⟨x, hx, rfl⟩ := (mem_suits h a).1 ha
    obtain ⟨y, hy, rfl⟩ := (mem_suits h b).1 hb
    exact hσ.inj _ _ (hv x hx) (hv y hy) hab
  rw [List.perm_ext_iff_of_nodup (nodup_suits h') hnd]
  intro a
  rw [mem_suits, List.mem_map]
  constructor
  · rintro ⟨c, hc, rfl⟩
    obtain ⟨x, hx, rfl⟩ := List.mem_map.1 (hi.subset hc)
    exact ⟨x.suit, (mem_suits h _).2 ⟨x, hx, rfl⟩, rfl⟩
  · rintro ⟨s, hs, rfl⟩
    obtain ⟨x, hx, rfl⟩ := (mem_suits h s).1 hs
    exact ⟨relabel σ x, hi.symm.subset (List.mem_map.2 ⟨x, hx, rfl⟩), rfl⟩

theorem ranksOf_image {σ : Nat → Nat} (hσ : SuitPerm σ) {h h' : List Card} (hv : ∀ c ∈ h, c.suit < 4)
    (hi : Image σ h h') {s : Nat} (hs : s < 4) : (ranksOf h' (σ s)).Perm (ranksOf h s) := by
  unfold ranksOf
  refine ((hi.filter _).map _).trans ?_
  rw [List.filter_map, List.map_map]
  have : (List.filter ((fun x => x.suit == σ s) ∘ relabel σ) h) = List.filter (fun x => x.suit == s) h := by
    apply List.filter_congr
    intro x hx
    simp only [Function.comp, relabel]
    rw [Bool.eq_iff_iff]
    simp only [beq_iff_eq]
    exact ⟨fun e => hσ.inj _ _ (hv x hx) hs e, fun e => by rw [e]⟩
  rw [this]
  exact List.Perm.of_eq (List.map_congr_left fun x _ => rfl)

theorem keyed_snd_image {σ : Nat → Nat} (hσ : SuitPerm σ) {h h' : List Card} (hv : ∀ c ∈ h, c.suit < 4)
    (hi : Image σ h h') : ((keyed h').map (·.2)).Perm ((keyed h).map (·.2)) := by
  rw [keyed_snd, keyed_snd]
  refine ((suits_image hσ hv hi).map _).trans ?_
  rw [List.map_map]
  apply List.Perm.of_eq
  apply List.map_congr_left
  intro s hs
  obtain ⟨x, hx, rfl⟩ := (mem_suits h s).1 hs
  exact sortN_congr (ranksOf_image hσ hv hi (hv x hx))

theorem canon_invariant_aux {σ : Nat → Nat} (hσ : SuitPerm σ) {h h' : List Card} (hv : ∀ c ∈ h, c.suit < 4)
    (hi : Image σ h h') : (canonizeHand h').1 = (canonizeHand h).1 := by
  rw [canonizeHand_fst, canonizeHand_fst]
  congr 1
  exact ordered_snd_unique h' _ (pairwise_ordered_snd h)
    (((perm_ordered h).map _).trans (keyed_snd_image hσ hv hi).symm)

/-! ## idempotence -/

/-- the cards written for one group -/
def grp (p : List Nat × Nat) : List Card := p.1.map fun r => (⟨r, p.2⟩ : Card)

theorem out_eq (Rs : List (List Nat)) : out Rs = Rs.zipIdx.flatMap grp := rfl

theorem filter_flatMap_grp_of_not_mem (P : List (List Nat × Nat)) (i : Nat) (hi : i ∉ P.map (·.2)) :
    (P.flatMap grp).filter (·.suit == i) = [] := by
  rw [List.filter_eq_nil_iff]
  intro c hc
  obtain ⟨p, hp, hcp⟩ := List.mem_flatMap.1 hc
  obtain ⟨r, _, rfl⟩ := List.mem_map.1 hcp
  simp only [beq_iff_eq]
  intro e
  exact hi (List.mem_map.2 ⟨p, hp, e⟩)

theorem filter_grp_self (p : List Nat × Nat) : (grp p).filter (·.suit == p.2) = grp p := by
  rw [List.filter_eq_self]
  intro c hc
  obtain ⟨r, _, rfl⟩ := List.mem_map.1 hc
  simp

theorem filter_grp_ne (p : List Nat × Nat) (i : Nat) (h : p.2 ≠ i) : (grp p).filter (·.suit == i) = [] := by
  rw [List.filter_eq_nil_iff]
  intro c hc
  obtain ⟨r, _, rfl⟩ := List.mem_map.1 hc
  simpa using h

theorem filter_flatMap_grp (P : List (List Nat × Nat)) (hnd : (P.map (·.2)).Nodup) (p : List Nat × Nat)
    (hp : p ∈ P) : (P.flatMap grp).filter (·.suit == p.2) = grp p := by
  induction P with
  | nil => cases hp
  | cons q P ih =>
    rw [List.map_cons, List.nodup_cons] at hnd
    rw [List.flatMap_cons, List.filter_append]
    rcases List.mem_cons.1 hp with rfl | hp
    · rw [filter_grp_self, filter_flatMap_grp_of_not_mem P _ hnd.1, List.append_nil]
    · have hne : q.2 ≠ p.2 := fun e => hnd.1 (e ▸ List.mem_map.2 ⟨p, hp, rfl⟩)
      rw [filter_grp_ne q _ hne, ih hnd.2 hp, List.nil_append]

theorem map_rank_grp (p : List Nat × Nat) : (grp p).map (·.rank) = p.1 := by
  simp [grp, List.map_map, Function.comp_def]

theorem zipIdx_snd_nodup (Rs : List (List Nat)) : (Rs.zipIdx.map (·.2)).Nodup := by
  rw [List.zipIdx_map_snd]
  exact List.nodup_range' (step := 1) (by omega)

/-- the keyed groups of a written-out canonical hand are its rank lists -/
theorem keyed_out (Rs : List (List Nat)) (hne : ∀ R ∈ Rs, R ≠ []) (hs : ∀ R ∈ Rs, sortN R = R) :
    ((keyed (out Rs)).map (·.2)).Perm Rs := by
  have hnd := zipIdx_snd_nodup Rs
  have hsuits : (suits (out Rs)).Perm (Rs.zipIdx.map (·.2)) := by
    rw [List.perm_ext_iff_of_nodup (nodup_suits _) hnd]
    intro a
    rw [mem_suits, List.mem_map]
    constructor
    · rintro ⟨c, hc, rfl⟩
      obtain ⟨p, hp, hcp⟩ := List.mem_flatMap.1 hc
      obtain ⟨r, _, rfl⟩ := List.mem_map.1 hcp
      exact ⟨p, hp, rfl⟩
    · rintro ⟨p, hp, rfl⟩
      have hp1 : p.1 ∈ Rs := by
        have := List.mem_map_of_mem (f := Prod.fst) hp
        rwa [List.zipIdx_map_fst] at this
      obtain ⟨r, hr⟩ := List.exists_mem_of_ne_nil _ (hne _ hp1)
      exact ⟨⟨r, p.2⟩, List.mem_flatMap.2 ⟨p, hp, List.mem_map.2 ⟨r, hr, rfl⟩⟩, rfl⟩
  rw [keyed_snd]
  refine (hsuits.map _).trans ?_
  rw [List.map_map]
  apply List.Perm.of_eq
  conv => rhs; rw [← List.zipIdx_map_fst 0 Rs]
  apply List.map_congr_left
  intro p hp
  have hp1 : p.1 ∈ Rs := by
    have := List.mem_map_of_mem (f := Prod.fst) hp
    rwa [List.zipIdx_map_fst] at this
  simp only [Function.comp]
  unfold ranksOf
  rw [out_eq, filter_flatMap_grp _ hnd p hp, map_rank_grp, hs _ hp1]

theorem canon_idem_aux (h : List Card) : (canonizeHand (canonizeHand h).1).1 = (canonizeHand h).1 := by
  rw [canonizeHand_fst h, canonizeHand_fst]
  congr 1
  exact ordered_snd_unique _ _ (pairwise_ordered_snd h)
    (keyed_out _ (fun R hR => (ordered_snd_spec h R hR).1) (fun R hR => (ordered_snd_spec h R hR).2)).symm

/-! ## the suit map -/

/-- the new suit of old suit `s` under the map `m` -/
def newSuit (m : List (Nat × Nat)) (s : Nat) : Nat :=
  match m.find? (·.1 == s) with | some e => e.2 | none => s

theorem find?_of_mem_of_nodup_fst (m : List (Nat × Nat)) (hnd : (m.map (·.1)).Nodup) (e : Nat × Nat)
    (he : e ∈ m) : m.find? (·.1 == e.1) = some e := by
  induction m with
  | nil => cases he
  | cons q m ih =>
    rw [List.map_cons, List.nodup_cons] at hnd
    rcases List.mem_cons.1 he with rfl | he
    · simp
    · have hne : q.1 ≠ e.1 := fun h => hnd.1 (h ▸ List.mem_map.2 ⟨e, he, rfl⟩)
      rw [List.find?_cons_of_neg (by simpa using hne)]
      exact ih hnd.2 he

theorem perm_flatMap_filter (S : List Nat) (hS : S.Nodup) (h : List Card) (hall : ∀ c ∈ h, c.suit ∈ S) :
    h.Perm (S.flatMap fun s => h.filter (·.suit == s)) := by
  induction S generalizing h with
  | nil =>
    cases h with
    | nil => exact Perm.refl _
    | cons c _ => exact absurd (hall c List.mem_cons_self) (by simp)
  | cons s S ih =>
    rw [List.nodup_cons] at hS
    rw [List.flatMap_cons]
    refine (List.filter_append_perm (·.suit == s) h).symm.trans (Perm.append_left _ ?_)
    have hall' : ∀ c ∈ h.filter (fun c => !(c.suit == s)), c.suit ∈ S := by
      intro c hc
      obtain ⟨hc1, hc2⟩ := List.mem_filter.1 hc
      rcases List.mem_cons.1 (hall c hc1) with e | e
      · simp [e] at hc2
      · exact e
    refine (ih hS.2 _ hall').trans (List.Perm.of_eq ?_)
    apply List.flatMap_congr
    intro s' hs'
    rw [List.filter_filter]
    apply List.filter_congr
    intro c _
    have hne : s' ≠ s := fun e => hS.1 (e ▸ hs')
    by_cases hc : c.suit = s'
    · simp [hc, hne]
    · simp [hc]

/-- the cards of a keyed group in its own suit -/
def cardsOf (g : Nat × List Nat) : List Card := g.2.map fun r => (⟨r, g.1⟩ : Card)

theorem perm_flatMap_ordered (h : List Card) : h.Perm ((ordered h).flatMap cardsOf) := by
  refine Perm.trans ?_ ((perm_ordered h).flatMap_right cardsOf).symm
  rw [keyed_eq, List.flatMap_map]
  refine (perm_flatMap_filter (suits h) (nodup_suits h) h
    (fun c hc => (mem_suits h _).2 ⟨c, hc, rfl⟩)).trans ?_
  apply List.Perm.flatMap_left
  intro s _
  have h1 : (cardsOf (s, sortN (ranksOf h s))).Perm ((ranksOf h s).map fun r => (⟨r, s⟩ : Card)) :=
    (perm_sortN _).map _
  refine Perm.trans (List.Perm.of_eq ?_) h1.symm
  unfold ranksOf
  rw [List.map_map]
  conv => lhs; rw [← List.map_id (List.filter (fun x => x.suit == s) h)]
  apply List.map_congr_left
  intro c hc
  have := (List.mem_filter.1 hc).2
  simp only [beq_iff_eq] at this
  cases c
  simp_all

theorem length_ordered (h : List Card) : (ordered h).length = (suits h).length := by
  rw [(perm_ordered h).length_eq, keyed_eq, List.length_map]

theorem length_suits_le (h : List Card) (hv : ∀ c ∈ h, c.suit < 4) : (suits h).length ≤ 4 := by
  have : (suits h).length ≤ (List.range 4).length :=
    (nodup_suits h).length_le_of_subset (fun s hs => by
      obtain ⟨c, hc, rfl⟩ := (mem_suits h s).1 hs
      exact List.mem_range.2 (hv c hc))
  simpa using this

theorem ordered_fst_perm (h : List Card) : ((ordered h).map (·.1)).Perm (suits h) := by
  rw [← keyed_fst]; exact (perm_ordered h).map _

/-- the suit map pairs each group's suit with the group's index -/
theorem suitMap_eq (h : List Card) (hv : ∀ c ∈ h, c.suit < 4) :
    (canonizeHand h).2 = (ordered h).zipIdx.map fun p => (p.1.1, p.2) := by
  have hk : (ordered h).length ≤ 4 := (length_ordered h).trans_le (length_suits_le h hv)
  rw [canonizeHand_snd, List.zip_eq_zip_take_min, List.length_map, List.length_range,
    Nat.min_eq_left hk, List.take_range, Nat.min_eq_left hk, List.zipIdx_eq_zip_range',
    List.take_of_length_le (by simp), List.zip_map_left, ← List.range_eq_range']
  apply List.map_congr_left
  intro p _
  rfl

theorem canon_iso_aux (h : List Card) (hv : ∀ c ∈ h, c.suit < 4) :
    (∀ e ∈ (canonizeHand h).2, e.1 < 4 ∧ e.2 < 4) ∧ ((canonizeHand h).2.map (·.2)).Nodup ∧
    ((canonizeHand h).2.map (·.1)).Nodup ∧
    (canonizeHand h).1.Perm (h.map fun x => ⟨x.rank, newSuit (canonizeHand h).2 x.suit⟩) := by
  have hk : (ordered h).length ≤ 4 := (length_ordered h).trans_le (length_suits_le h hv)
  have hfst : (canonizeHand h).2.map (·.1) = (ordered h).map (·.1) := by
    rw [suitMap_eq h hv, List.map_map]
    conv => rhs; rw [← List.zipIdx_map_fst 0 (ordered h), List.map_map]
    rfl
  have hsnd : (canonizeHand h).2.map (·.2) = List.range' 0 (ordered h).length := by
    rw [suitMap_eq h hv, List.map_map]
    conv => rhs; rw [← List.zipIdx_map_snd 0 (ordered h)]
    rfl
  have hndf : ((canonizeHand h).2.map (·.1)).Nodup := by
    rw [hfst]; exact (ordered_fst_perm h).nodup_iff.2 (nodup_suits h)
  refine ⟨?_, ?_, hndf, ?_⟩
  · intro e he
    constructor
    · have : e.1 ∈ (canonizeHand h).2.map (·.1) := List.mem_map_of_mem he
      rw [hfst] at this
      obtain ⟨c, hc, hce⟩ := (mem_suits h _).1 ((ordered_fst_perm h).subset this)
      rw [← hce]; exact hv c hc
    · have : e.2 ∈ (canonizeHand h).2.map (·.2) := List.mem_map_of_mem he
      rw [hsnd, List.mem_range'_1] at this
      omega
  · rw [hsnd]; exact List.nodup_range' (step := 1) (by omega)
  · refine Perm.trans (List.Perm.of_eq ?_) ((perm_flatMap_ordered h).map _).symm
    rw [canonizeHand_fst', List.map_flatMap]
    conv => rhs; rw [← List.zipIdx_map_fst 0 (ordered h), List.flatMap_map]
    apply List.flatMap_congr
    intro p hp
    have hmem : (p.1.1, p.2) ∈ (canonizeHand h).2 := by
      rw [suitMap_eq h hv]; exact List.mem_map.2 ⟨p, hp, rfl⟩
    have hfind := find?_of_mem_of_nodup_fst _ hndf _ hmem
    simp only [cardsOf, List.map_map]
    apply List.map_congr_left
    intro r _
    simp only [Function.comp, newSuit, hfind]

/-! ## gin: arrangements under relabelling -/

section GinSec
variable {σ : Nat → Nat}

theorem relabel_inj (hσ : SuitPerm σ) {a b : Card} (ha : a.suit < 4) (hb : b.suit < 4)
    (h : relabel σ a = relabel σ b) : a = b := by
  cases a; cases b
  simp only [relabel, Card.mk.injEq] at h
  obtain ⟨h1, h2⟩ := h
  have := hσ.inj _ _ ha hb h2
  simp_all

theorem relabel_valid (hσ : SuitPerm σ) {c : Card} (hc : c.Valid) : (relabel σ c).Valid :=
  ⟨hc.1, hc.2.1, hσ.range _ hc.2.2⟩

theorem handOK_image (hσ : SuitPerm σ) {h h' : List Card} (hok : HandOK h) (hi : Image σ h h') : HandOK h' := by
  refine ⟨hi.nodup_iff.2 (List.Nodup.map_on ?_ hok.1), ?_⟩
  · intro a ha b hb hab
    exact relabel_inj hσ (hok.2 a ha).2.2 (hok.2 b hb).2.2 hab
  · intro c hc
    obtain ⟨x, hx, rfl⟩ := List.mem_map.1 (hi.subset hc)
    exact relabel_valid hσ (hok.2 x hx)

theorem length_image {h h' : List Card} (hi : Image σ h h') : h'.length = h.length := by
  rw [hi.length_eq, List.length_map]

theorem deadwood_map_relabel (σ : Nat → Nat) (l : List Card) : deadwood (l.map (relabel σ)) = deadwood l := by
  unfold deadwood; rw [List.map_map]; rfl

theorem runCards_relabel (σ : Nat → Nat) (suit lo len : Nat) :
    (runCards suit lo len).map (relabel σ) = runCards (σ suit) lo len := by
  unfold runCards; rw [List.map_map]; rfl

theorem nodup_map_relabel (hσ : SuitPerm σ) {l : List Card} (hl : ∀ c ∈ l, c.suit < 4) (hnd : l.Nodup) :
    (l.map (relabel σ)).Nodup :=
  List.Nodup.map_on (fun a ha b hb hab => relabel_inj hσ (hl a ha) (hl b hb) hab) hnd

theorem mem_map_relabel_iff (hσ : SuitPerm σ) {l : List Card} (hl : ∀ c ∈ l, c.suit < 4) {x : Card}
    (hx : x.suit < 4) : relabel σ x ∈ l.map (relabel σ) ↔ x ∈ l := by
  constructor
  · intro h
    obtain ⟨y, hy, hxy⟩ := List.mem_map.1 h
    rw [← relabel_inj hσ (hl y hy) hx hxy]; exact hy
  · intro h; exact List.mem_map.2 ⟨x, h, rfl⟩

theorem legalMeld_relabel (hσ : SuitPerm σ) {m : List Card} (hv : ∀ c ∈ m, c.suit < 4) (hm : LegalMeld m) :
    LegalMeld (m.map (relabel σ)) := by
  rcases hm with ⟨hnd, hl, r, hr⟩ | ⟨suit, lo, len, h1, h2, h3, h4, hp⟩
  · refine Or.inl ⟨nodup_map_relabel hσ hv hnd, by rwa [List.length_map], r, ?_⟩
    intro c hc
    obtain ⟨x, hx, rfl⟩ := List.mem_map.1 hc
    exact hr x hx
  · refine Or.inr ⟨σ suit, lo, len, h1, h2, h3, h4, ?_⟩
    rw [← runCards_relabel]
    exact hp.map _

theorem flatten_map_relabel (σ : Nat → Nat) (A : List (List Card)) :
    (A.map (·.map (relabel σ))).flatten = A.flatten.map (relabel σ) := by
  rw [List.map_flatten]

theorem arrangement_image (hσ : SuitPerm σ) {h h' : List Card} (hok : HandOK h) (hi : Image σ h h')
    {A : List (List Card)} (harr : Arrangement h A) : Arrangement h' (A.map (·.map (relabel σ))) := by
  have hsuit : ∀ m ∈ A, ∀ c ∈ m, c.suit < 4 := fun m hm c hc => (hok.2 c (harr.sub m hm c hc)).2.2
  refine ⟨?_, ?_, ?_⟩
  · intro m' hm'
    obtain ⟨m, hm, rfl⟩ := List.mem_map.1 hm'
    exact legalMeld_relabel hσ (hsuit m hm) (harr.legal m hm)
  · intro m' hm' c hc
    obtain ⟨m, hm, rfl⟩ := List.mem_map.1 hm'
    obtain ⟨x, hx, rfl⟩ := List.mem_map.1 hc
    exact hi.symm.subset (List.mem_map.2 ⟨x, harr.sub m hm x hx, rfl⟩)
  · rw [flatten_map_relabel]
    refine nodup_map_relabel hσ ?_ harr.disjoint
    intro c hc
    obtain ⟨m, hm, hcm⟩ := List.mem_flatten.1 hc
    exact hsuit m hm c hcm

theorem restOf_image (hσ : SuitPerm σ) {h h' : List Card} (hok : HandOK h) (hi : Image σ h h')
    {A : List (List Card)} (harr : Arrangement h A) :
    (restOf h' (A.map (·.map (relabel σ)))).Perm ((restOf h A).map (relabel σ)) := by
  have hflat : ∀ c ∈ A.flatten, c.suit < 4 := by
    intro c hc
    obtain ⟨m, hm, hcm⟩ := List.mem_flatten.1 hc
    exact (hok.2 c (harr.sub m hm c hcm)).2.2
  unfold restOf
  refine (hi.filter _).trans (List.Perm.of_eq ?_)
  rw [List.filter_map]
  congr 1
  apply List.filter_congr
  intro x hx
  simp only [Function.comp]
  congr 1
  rw [Bool.eq_iff_iff, List.contains_iff_mem, List.contains_iff_mem, flatten_map_relabel]
  exact mem_map_relabel_iff hσ hflat (hok.2 x hx).2.2

/-- one direction: the relabelled hand's best split is at least as good -/
theorem split_deadwood_le (hσ : SuitPerm σ) {h h' : List Card} (hok : HandOK h) (hlen : h.length ≤ 11)
    (hi : Image σ h h') (c c' : Candidate) (hc : splitMelds h = .ok c) (hc' : splitMelds h' = .ok c') :
    c'.deadwood ≤ c.deadwood := by
  obtain ⟨harr, hum, hdw⟩ := C08.split_legal h hok hlen c hc
  have hok' := handOK_image hσ hok hi
  have hlen' : h'.length ≤ 11 := by rw [length_image hi]; exact hlen
  have := C08.split_optimal h' hok' hlen' c' hc' _ (arrangement_image hσ hok hi harr)
  rw [MeldSearch.deadwood_perm (restOf_image hσ hok hi harr), deadwood_map_relabel,
    ← MeldSearch.deadwood_perm hum, ← hdw] at this
  exact this

/-- the inverse of a suit bijection -/
def inv (σ : Nat → Nat) (b : Nat) : Nat :=
  if σ 0 = b then 0 else if σ 1 = b then 1 else if σ 2 = b then 2 else if σ 3 = b then 3 else 0

theorem inv_left (hσ : SuitPerm σ) {a : Nat} (ha : a < 4) : inv σ (σ a) = a := by
  have i01 : σ 0 ≠ σ 1 := fun e => by have := hσ.inj 0 1 (by omega) (by omega) e; omega
  have i02 : σ 0 ≠ σ 2 := fun e => by have := hσ.inj 0 2 (by omega) (by omega) e; omega
  have i03 : σ 0 ≠ σ 3 := fun e => by have := hσ.inj 0 3 (by omega) (by omega) e; omega
  have i12 : σ 1 ≠ σ 2 := fun e => by have := hσ.inj 1 2 (by omega) (by omega) e; omega
  have i13 : σ 1 ≠ σ 3 := fun e => by have := hσ.inj 1 3 (by omega) (by omega) e; omega
  have i23 : σ 2 ≠ σ 3 := fun e => by have := hσ.inj 2 3 (by omega) (by omega) e; omega
  have : a = 0 ∨ a = 1 ∨ a = 2 ∨ a = 3 := by omega
  rcases this with rfl | rfl | rfl | rfl
  · simp [inv]
  · simp [inv, i01]
  · simp [inv, i02, i12]
  · simp [inv, i03, i13, i23]

theorem surj_of_suitPerm (hσ : SuitPerm σ) {b : Nat} (hb : b < 4) : ∃ a, a < 4 ∧ σ a = b := by
  have i01 : σ 0 ≠ σ 1 := fun e => by have := hσ.inj 0 1 (by omega) (by omega) e; omega
  have i02 : σ 0 ≠ σ 2 := fun e => by have := hσ.inj 0 2 (by omega) (by omega) e; omega
  have i03 : σ 0 ≠ σ 3 := fun e => by have := hσ.inj 0 3 (by omega) (by omega) e; omega
  have i12 : σ 1 ≠ σ 2 := fun e => by have := hσ.inj 1 2 (by omega) (by omega) e; omega
  have i13 : σ 1 ≠ σ 3 := fun e => by have := hσ.inj 1 3 (by omega) (by omega) e; omega
  have i23 : σ 2 ≠ σ 3 := fun e => by have := hσ.inj 2 3 (by omega) (by omega) e; omega
  have r0 := hσ.range 0 (by omega)
  have r1 := hσ.range 1 (by omega)
  have r2 := hσ.range 2 (by omega)
  have r3 := hσ.range 3 (by omega)
  have : σ 0 = b ∨ σ 1 = b ∨ σ 2 = b ∨ σ 3 = b := by omega
  rcases this with e | e | e | e
  · exact ⟨0, by omega, e⟩
  · exact ⟨1, by omega, e⟩
  · exact ⟨2, by omega, e⟩
  · exact ⟨3, by omega, e⟩

theorem suitPerm_inv (hσ : SuitPerm σ) : SuitPerm (inv σ) := by
  constructor
  · intro a b ha hb hab
    obtain ⟨a', ha', rfl⟩ := surj_of_suitPerm hσ ha
    obtain ⟨b', hb', rfl⟩ := surj_of_suitPerm hσ hb
    rw [inv_left hσ ha', inv_left hσ hb'] at hab
    rw [hab]
  · intro a _
    unfold inv
    split
    · omega
    · split
      · omega
      · split
        · omega
        · split <;> omega

theorem image_inv (hσ : SuitPerm σ) {h h' : List Card} (hv : ∀ c ∈ h, c.suit < 4) (hi : Image σ h h') :
    Image (inv σ) h' h := by
  unfold Image at *
  refine Perm.trans (List.Perm.of_eq ?_) (hi.map (relabel (inv σ))).symm
  rw [List.map_map]
  conv => lhs; rw [← List.map_id h]
  apply List.map_congr_left
  intro c hc
  cases c
  simp only [Function.comp, relabel, id]
  rw [inv_left hσ (hv _ hc)]

theorem split_deadwood_sym_aux (hσ : SuitPerm σ) {h h' : List Card} (hok : HandOK h) (hlen : h.length ≤ 11)
    (hi : Image σ h h') (c c' : Candidate) (hc : splitMelds h = .ok c) (hc' : splitMelds h' = .ok c') :
    c'.deadwood = c.deadwood := by
  apply Nat.le_antisymm (split_deadwood_le hσ hok hlen hi c c' hc hc')
  have hok' := handOK_image hσ hok hi
  have hlen' : h'.length ≤ 11 := by rw [length_image hi]; exact hlen
  exact split_deadwood_le (suitPerm_inv hσ) hok' hlen'
    (image_inv hσ (fun c hc => (hok.2 c hc).2.2) hi) c' c hc' hc

end GinSec

end CardVerif.Sym
