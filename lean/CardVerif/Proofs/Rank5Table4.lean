import CardVerif.Proofs.Rank5TableDefs
/-! # C05 — the finite table, lowest value 4 (kernel evaluation by `decide +kernel`) -/
namespace CardVerif.C05
set_option maxRecDepth 1000000

theorem table_4 : checkFrom 4 = true := by decide +kernel

end CardVerif.C05
