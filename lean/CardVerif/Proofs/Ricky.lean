import CardVerif.Proofs.MeldEnum
import CardVerif.Proofs.MeldSearch
import Mathlib.Data.List.Basic
import Mathlib.Data.List.Perm.Basic
import Mathlib.Data.List.Perm.Subperm
import Mathlib.Data.List.Nodup
import Mathlib.Data.List.Dedup
/-!
# Gin ricky: the value and the sorted hand of a seven- or eight-card hand (C19)

`sortedHandPoints` is first rewritten over abstract lists of three- and four-card melds (`shpCore`), then
characterised: either a disjoint (3-meld, 4-meld) pair is found (`shpCore_found`) or the result is the minimum of
the full value and the values of the hand without one meld (`shpCore_min`).  The ricky enumeration theorems of
`MeldEnum` (`ricky3/4_sound`, `ricky3/4_complete`) connect the listed melds with `RickyMeld`.
-/
namespace CardVerif.Gin
open CardVerif

/-! ## melds are duplicate-free -/

theorem nodup_runCards (suit lo len : Nat) (h1 : 1 ≤ lo) (h2 : lo + len ≤ 15) (h3 : len ≤ 13) :
    (runCards suit lo len).Nodup := by
  unfold runCards
  refine List.Nodup.map_on ?_ (List.nodup_range' ..)
  intro v hv w hw heq
  rw [List.mem_range'_1] at hv hw
  have := (rankOfValue_eq_iff v w).1 (congrArg Card.rank heq)
  have := h1
  have := h2
  omega

theorem legalMeld_nodup {m : List Card} (h : LegalMeld m) : m.Nodup := by
  rcases h with h | ⟨s, lo, len, _, h2, h3, h4, hp⟩
  · exact h.1
  · exact hp.nodup_iff.2 (nodup_runCards s lo len h3 h4 h2)

/-! ## the hand without a meld -/

/-- the cards of `hand` outside `m` -/
def without (hand m : List Card) : List Card := hand.filter fun c => !m.contains c

theorem mem_without {hand m : List Card} {c : Card} : c ∈ without hand m ↔ c ∈ hand ∧ c ∉ m := by
  simp [without]

theorem without_congr (hand : List Card) {m m' : List Card} (h : ∀ c, c ∈ m ↔ c ∈ m') :
    without hand m = without hand m' := by
  unfold without
  apply List.filter_congr
  intro c _
  have : m.contains c = m'.contains c := by
    rw [Bool.eq_iff_iff]; simp [h c]
  rw [this]

theorem without_perm (hand : List Card) {m m' : List Card} (h : m.Perm m') : without hand m = without hand m' :=
  without_congr hand fun _ => h.mem_iff

theorem nodup_without {hand : List Card} (hnd : hand.Nodup) (m : List Card) : (without hand m).Nodup :=
  hnd.filter _

/-- a duplicate-free part of a duplicate-free hand, followed by the rest, is a permutation of the hand -/
theorem perm_append_without {hand m : List Card} (hnd : hand.Nodup) (hm : m.Nodup) (hsub : ∀ c ∈ m, c ∈ hand) :
    (m ++ without hand m).Perm hand := by
  refine (List.perm_ext_iff_of_nodup ?_ hnd).2 ?_
  · refine List.nodup_append.2 ⟨hm, nodup_without hnd m, ?_⟩
    intro a ha b hb hab
    subst hab
    exact (mem_without.1 hb).2 ha
  · intro c
    rw [List.mem_append, mem_without]
    constructor
    · rintro (h | h)
      · exact hsub c h
      · exact h.1
    · intro h
      by_cases hc : c ∈ m
      · exact Or.inl hc
      · exact Or.inr ⟨h, hc⟩

theorem length_le_without_add {hand : List Card} (hnd : hand.Nodup) (m : List Card) :
    hand.length ≤ (without hand m).length + m.length := by
  have h1 : hand.length = (hand.filter fun c => m.contains c).length + (without hand m).length := by
    unfold without
    exact List.length_eq_length_filter_add _
  have h2 : (hand.filter fun c => m.contains c).length ≤ m.length := by
    apply List.Subperm.length_le
    apply List.subperm_of_subset (hnd.filter _)
    intro c hc
    simpa using (List.mem_filter.1 hc).2
  omega

/-! ## the value of a list of cards -/

theorem one_le_low {c : Card} (h : c.Valid) : 1 ≤ Card.low c := by
  unfold Card.low lowValue
  obtain ⟨h1, _, _⟩ := h
  split <;> omega

theorem foldl_max_mem (xs : List Nat) (x : Nat) : xs.foldl max x ∈ x :: xs := by
  induction xs generalizing x with
  | nil => simp
  | cons y ys ih =>
    rw [List.foldl_cons]
    rcases List.mem_cons.1 (ih (max x y)) with h | h
    · rw [h]
      rcases Nat.le_total x y with hxy | hxy
      · rw [Nat.max_eq_right hxy]; simp
      · rw [Nat.max_eq_left hxy]; simp
    · exact List.mem_cons_of_mem _ (List.mem_cons_of_mem _ h)

theorem maxN?_mem {l : List Nat} {M : Nat} (h : maxN? l = some M) : M ∈ l := by
  cases l with
  | nil => cases h
  | cons x xs =>
    simp only [maxN?, Option.some.injEq] at h
    subst h
    exact foldl_max_mem xs x

theorem length_le_sumN {l : List Nat} (h : ∀ x ∈ l, 1 ≤ x) : l.length ≤ sumN l := by
  induction l with
  | nil => simp
  | cons x xs ih =>
    have := h x (List.mem_cons_self ..)
    have := ih fun y hy => h y (List.mem_cons_of_mem _ hy)
    simp only [List.length_cons, sumN_cons]
    omega

theorem mem_add_length_le_sumN {l : List Nat} (h : ∀ x ∈ l, 1 ≤ x) {M : Nat} (hM : M ∈ l) :
    M + l.length ≤ sumN l + 1 := by
  induction l with
  | nil => cases hM
  | cons x xs ih =>
    have hx := h x (List.mem_cons_self ..)
    have hxs : ∀ y ∈ xs, 1 ≤ y := fun y hy => h y (List.mem_cons_of_mem _ hy)
    simp only [List.length_cons, sumN_cons]
    rcases List.mem_cons.1 hM with rfl | hM'
    · have := length_le_sumN hxs
      omega
    · have := ih hxs hM'
      omega

/-- `rickyValue` does not fail on a non-empty list of cards, and agrees with the specification's `rickyVal` -/
theorem rickyValue_eq (n : Nat) {cards : List Card} (h : cards ≠ []) :
    rickyValue n cards = .ok (rickyVal n cards) := by
  unfold rickyValue rickyVal
  by_cases hn : n = 8
  · subst hn
    cases hm : maxN? (cards.map Card.low) with
    | some M => simp
    | none =>
      cases cards with
      | nil => exact absurd rfl h
      | cons c cs => simp [maxN?] at hm
  · simp [hn]

/-- at least two cards, each worth at least one point, are worth something even without the highest -/
theorem rickyVal_pos (n : Nat) {cards : List Card} (hv : ∀ c ∈ cards, 1 ≤ Card.low c) (hl : 2 ≤ cards.length) :
    0 < rickyVal n cards := by
  have hv' : ∀ x ∈ cards.map Card.low, 1 ≤ x := by
    intro x hx
    obtain ⟨c, hc, rfl⟩ := List.mem_map.1 hx
    exact hv c hc
  have hlen : (cards.map Card.low).length = cards.length := List.length_map ..
  unfold rickyVal rickyPoints
  by_cases hn : n = 8
  · rw [if_pos hn]
    cases hm : maxN? (cards.map Card.low) with
    | some M =>
      have := mem_add_length_le_sumN hv' (maxN?_mem hm)
      simp only
      omega
    | none =>
      have := length_le_sumN hv'
      simp only
      omega
  · rw [if_neg hn]
    have := length_le_sumN hv'
    omega

/-! ## `sortedHandPoints` over abstract meld lists -/

/-- the test of the pair search: seven distinct cards -/
def pairOK (p : List Card × List Card) : Bool := (dedup (p.1 ++ p.2)).length == 7

/-- one step of the best-single-meld loop -/
def rickyStep (hand : List Card) (acc : List Card × Nat) (meld : List Card) : Except Err (List Card × Nat) := do
  let mp ← rickyValue hand.length (without hand meld)
  if mp < acc.2 then pure (meld ++ sortByRank (without hand meld), mp) else pure acc

/-- `sortedHandPoints` with the lists of three- and four-card melds as parameters -/
def shpCore (hand : List Card) (m3 m4 : List (List Card)) : Except Err (List Card × Nat) := do
  let pts ← rickyValue hand.length hand
  if (m3 ++ m4).isEmpty then return (sortByRank hand, pts)
  match (m3.flatMap fun a => m4.map fun b => (a, b)).find? pairOK with
  | some (a, b) => return (b ++ a ++ without hand (a ++ b), 0)
  | none => (m3 ++ m4).foldlM (rickyStep hand) (sortByRank hand, pts)

/-- the listed three-card melds -/
def melds3 (hand : List Card) : List (List Card) := (getRuns34 hand).1 ++ (getSets hand).1
/-- the listed four-card melds -/
def melds4 (hand : List Card) : List (List Card) := (getRuns34 hand).2 ++ (getSets hand).2

theorem sortedHandPoints_eq_core (hand : List Card) :
    sortedHandPoints hand = shpCore hand (melds3 hand) (melds4 hand) := by
  unfold sortedHandPoints melds3 melds4
  generalize getRuns34 hand = R
  generalize getSets hand = S
  obtain ⟨r3, r4⟩ := R
  obtain ⟨s3, s4⟩ := S
  rfl

theorem mem_pairs {m3 m4 : List (List Card)} {p : List Card × List Card} :
    p ∈ (m3.flatMap fun a => m4.map fun b => (a, b)) ↔ p.1 ∈ m3 ∧ p.2 ∈ m4 := by
  obtain ⟨a, b⟩ := p
  simp only [List.mem_flatMap, List.mem_map, Prod.mk.injEq]
  constructor
  · rintro ⟨a', ha, b', hb, rfl, rfl⟩; exact ⟨ha, hb⟩
  · rintro ⟨ha, hb⟩; exact ⟨a, ha, b, hb, rfl, rfl⟩

/-- the pair search succeeds: the four-card meld, the three-card meld, the rest; zero points -/
theorem shpCore_found {hand : List Card} (hne : hand ≠ []) {m3 m4 : List (List Card)}
    (h : ∃ a ∈ m3, ∃ b ∈ m4, pairOK (a, b) = true) :
    ∃ a ∈ m3, ∃ b ∈ m4, pairOK (a, b) = true ∧ shpCore hand m3 m4 = .ok (b ++ a ++ without hand (a ++ b), 0) := by
  obtain ⟨a0, ha0, b0, hb0, hp0⟩ := h
  have hne' : (m3 ++ m4).isEmpty = false := by
    cases m3 with
    | nil => cases ha0
    | cons x xs => rfl
  cases hf : (m3.flatMap fun a => m4.map fun b => (a, b)).find? pairOK with
  | none =>
    exact absurd hp0 (List.find?_eq_none.1 hf (a0, b0) (mem_pairs.2 ⟨ha0, hb0⟩))
  | some p =>
    obtain ⟨a, b⟩ := p
    have hmem := mem_pairs.1 (List.mem_of_find?_eq_some hf)
    refine ⟨a, hmem.1, b, hmem.2, List.find?_some hf, ?_⟩
    unfold shpCore
    rw [rickyValue_eq _ hne]
    simp only [bind, Except.bind, hne', hf, pure, Except.pure]
    rfl

/-- the best-single-meld loop computes a minimum -/
theorem foldlM_rickyStep (hand : List Card) (l : List (List Card)) (hl : ∀ m ∈ l, without hand m ≠ [])
    (acc : List Card × Nat) :
    ∃ r, l.foldlM (rickyStep hand) acc = .ok r ∧ r.2 ≤ acc.2 ∧
      (∀ m ∈ l, r.2 ≤ rickyVal hand.length (without hand m)) ∧
      (r = acc ∨ ∃ m ∈ l, r = (m ++ sortByRank (without hand m), rickyVal hand.length (without hand m))) := by
  induction l generalizing acc with
  | nil => exact ⟨acc, rfl, Nat.le_refl _, fun _ h => (by cases h), Or.inl rfl⟩
  | cons m ms ih =>
    have hms : ∀ m ∈ ms, without hand m ≠ [] := fun x hx => hl x (List.mem_cons_of_mem _ hx)
    rw [List.foldlM_cons]
    have hstep : rickyStep hand acc m =
        .ok (if rickyVal hand.length (without hand m) < acc.2
          then (m ++ sortByRank (without hand m), rickyVal hand.length (without hand m)) else acc) := by
      unfold rickyStep
      rw [rickyValue_eq _ (hl m (List.mem_cons_self ..))]
      simp only [bind, Except.bind, pure, Except.pure]
      split <;> rfl
    rw [hstep]
    by_cases hlt : rickyVal hand.length (without hand m) < acc.2
    · rw [if_pos hlt]
      obtain ⟨r, hr, h1, h2, h3⟩ := ih hms (m ++ sortByRank (without hand m), rickyVal hand.length (without hand m))
      refine ⟨r, hr, ?_, ?_, ?_⟩
      · simp only at h1; omega
      · intro x hx
        rcases List.mem_cons.1 hx with rfl | hx
        · exact h1
        · exact h2 x hx
      · rcases h3 with h3 | ⟨x, hx, h3⟩
        · exact Or.inr ⟨m, List.mem_cons_self .., h3⟩
        · exact Or.inr ⟨x, List.mem_cons_of_mem _ hx, h3⟩
    · rw [if_neg hlt]
      obtain ⟨r, hr, h1, h2, h3⟩ := ih hms acc
      refine ⟨r, hr, h1, ?_, ?_⟩
      · intro x hx
        rcases List.mem_cons.1 hx with rfl | hx
        · omega
        · exact h2 x hx
      · rcases h3 with h3 | ⟨x, hx, h3⟩
        · exact Or.inl h3
        · exact Or.inr ⟨x, List.mem_cons_of_mem _ hx, h3⟩

/-- no pair: the minimum of the full value and the values without one listed meld -/
theorem shpCore_min {hand : List Card} (hne : hand ≠ []) {m3 m4 : List (List Card)}
    (hl : ∀ m ∈ m3 ++ m4, without hand m ≠ [])
    (h : ¬ ∃ a ∈ m3, ∃ b ∈ m4, pairOK (a, b) = true) :
    ∃ r, shpCore hand m3 m4 = .ok r ∧ r.2 ≤ rickyVal hand.length hand ∧
      (∀ m ∈ m3 ++ m4, r.2 ≤ rickyVal hand.length (without hand m)) ∧
      (r = (sortByRank hand, rickyVal hand.length hand) ∨
        ∃ m ∈ m3 ++ m4, r = (m ++ sortByRank (without hand m), rickyVal hand.length (without hand m))) := by
  have hf : (m3.flatMap fun a => m4.map fun b => (a, b)).find? pairOK = none := by
    rw [List.find?_eq_none]
    rintro ⟨a, b⟩ hm hp
    have := mem_pairs.1 hm
    exact h ⟨a, this.1, b, this.2, hp⟩
  obtain ⟨r, hr, h1, h2, h3⟩ := foldlM_rickyStep hand (m3 ++ m4) hl (sortByRank hand, rickyVal hand.length hand)
  refine ⟨r, ?_, h1, h2, h3⟩
  unfold shpCore
  rw [rickyValue_eq _ hne]
  simp only [bind, Except.bind, hf, pure, Except.pure]
  cases he : (m3 ++ m4).isEmpty with
  | false => exact hr
  | true =>
    rw [List.isEmpty_iff.1 he] at hr
    simp only [if_true]
    exact hr.symm ▸ rfl

/-! ## the listed melds against the specification -/

theorem pairOK_iff {a b : List Card} (ha : a.length = 3) (hb : b.length = 4) :
    pairOK (a, b) = true ↔ (a ++ b).Nodup := by
  unfold pairOK
  rw [beq_iff_eq, ← MeldSearch.dedup_length_eq_iff, List.length_append, ha, hb]

/-- the specification's condition for a hand worth zero: a three-card meld and a disjoint four-card meld -/
def HasPair (hand : List Card) : Prop :=
  ∃ m3 m4, RickyMeld 3 m3 ∧ RickyMeld 4 m4 ∧ (∀ c ∈ m3, c ∈ hand) ∧ (∀ c ∈ m4, c ∈ hand) ∧ (m3 ++ m4).Nodup

/-- the pair search succeeds exactly when the specification's pair exists -/
theorem listed_pair_iff {hand : List Card} (hok : HandOK hand) :
    (∃ a ∈ melds3 hand, ∃ b ∈ melds4 hand, pairOK (a, b) = true) ↔ HasPair hand := by
  constructor
  · rintro ⟨a, ha, b, hb, hp⟩
    obtain ⟨ha1, ha2⟩ := ricky3_sound hand hok a ha
    obtain ⟨hb1, hb2⟩ := ricky4_sound hand hok b hb
    exact ⟨a, b, ha1, hb1, ha2, hb2, (pairOK_iff ha1.1 hb1.1).1 hp⟩
  · rintro ⟨m3, m4, h3, h4, s3, s4, hnd⟩
    obtain ⟨a, ha, hpa⟩ := ricky3_complete hand hok m3 h3 s3
    obtain ⟨b, hb, hpb⟩ := ricky4_complete hand hok m4 h4 s4
    refine ⟨a, ha, b, hb, (pairOK_iff (hpa.length_eq.trans h3.1) (hpb.length_eq.trans h4.1)).2 ?_⟩
    exact (hpa.append hpb).nodup_iff.2 hnd

theorem length_without_ge {hand : List Card} (hok : HandOK hand) (hlen : 7 ≤ hand.length) {m : List Card}
    (hm : m.length ≤ 4) : 3 ≤ (without hand m).length := by
  have := length_le_without_add hok.1 m
  omega

theorem without_ne_nil {hand : List Card} (hok : HandOK hand) (hlen : 7 ≤ hand.length) {m : List Card}
    (hm : m.length ≤ 4) : without hand m ≠ [] := by
  have := length_without_ge hok hlen hm
  intro h
  rw [h] at this
  simp at this

theorem one_le_low_without {hand : List Card} (hok : HandOK hand) (m : List Card) :
    ∀ c ∈ without hand m, 1 ≤ Card.low c :=
  fun c hc => one_le_low (hok.2 c (mem_without.1 hc).1)

theorem handPoints_of_ok {hand : List Card} {r : List Card × Nat} (h : sortedHandPoints hand = .ok r) :
    handPoints hand = .ok r.2 := by
  simp [handPoints, h, bind, Except.bind, pure, Except.pure]

theorem sortHand_of_ok {hand : List Card} {r : List Card × Nat} (h : sortedHandPoints hand = .ok r) :
    sortHand hand = .ok r.1 := by
  simp [sortHand, h, bind, Except.bind, pure, Except.pure]

/-- **the pair exists**: four-card meld, three-card meld, the rest; zero points -/
theorem sortedHandPoints_found {hand : List Card} (hok : HandOK hand) (hlen : 7 ≤ hand.length)
    (h : HasPair hand) :
    ∃ a b, RickyMeld 3 a ∧ RickyMeld 4 b ∧ (∀ c ∈ a, c ∈ hand) ∧ (∀ c ∈ b, c ∈ hand) ∧ (a ++ b).Nodup ∧
      sortedHandPoints hand = .ok (b ++ a ++ without hand (a ++ b), 0) := by
  have hne : hand ≠ [] := by
    intro h0; rw [h0] at hlen; simp at hlen
  obtain ⟨a, ha, b, hb, hp, heq⟩ := shpCore_found hne ((listed_pair_iff hok).2 h)
  obtain ⟨ha1, ha2⟩ := ricky3_sound hand hok a ha
  obtain ⟨hb1, hb2⟩ := ricky4_sound hand hok b hb
  exact ⟨a, b, ha1, hb1, ha2, hb2, (pairOK_iff ha1.1 hb1.1).1 hp, (sortedHandPoints_eq_core hand).trans heq⟩

/-- **no pair**: a positive value, the minimum of the full value and the values left after setting aside one meld -/
theorem sortedHandPoints_min {hand : List Card} (hok : HandOK hand) (hlen : 7 ≤ hand.length)
    (h : ¬ HasPair hand) :
    ∃ r, sortedHandPoints hand = .ok r ∧ 0 < r.2 ∧ r.2 ≤ rickyVal hand.length hand ∧
      (∀ m, (RickyMeld 3 m ∨ RickyMeld 4 m) → (∀ c ∈ m, c ∈ hand) → r.2 ≤ rickyVal hand.length (without hand m)) ∧
      (r = (sortByRank hand, rickyVal hand.length hand) ∨
        ∃ m, (RickyMeld 3 m ∨ RickyMeld 4 m) ∧ (∀ c ∈ m, c ∈ hand) ∧
          r = (m ++ sortByRank (without hand m), rickyVal hand.length (without hand m))) := by
  have hne : hand ≠ [] := by
    intro h0; rw [h0] at hlen; simp at hlen
  have hsound : ∀ m ∈ melds3 hand ++ melds4 hand, (RickyMeld 3 m ∨ RickyMeld 4 m) ∧ ∀ c ∈ m, c ∈ hand := by
    intro m hm
    rcases List.mem_append.1 hm with hm | hm
    · have := ricky3_sound hand hok m hm; exact ⟨Or.inl this.1, this.2⟩
    · have := ricky4_sound hand hok m hm; exact ⟨Or.inr this.1, this.2⟩
  have hlen4 : ∀ m, (RickyMeld 3 m ∨ RickyMeld 4 m) → m.length ≤ 4 := by
    rintro m (hm | hm) <;> have := hm.1 <;> omega
  have hl : ∀ m ∈ melds3 hand ++ melds4 hand, without hand m ≠ [] :=
    fun m hm => without_ne_nil hok hlen (hlen4 m (hsound m hm).1)
  obtain ⟨r, hr, h1, h2, h3⟩ := shpCore_min hne hl (fun hp => h ((listed_pair_iff hok).1 hp))
  have hpos0 : 0 < rickyVal hand.length hand :=
    rickyVal_pos _ (fun c hc => one_le_low (hok.2 c hc)) (by omega)
  have hposm : ∀ m, (RickyMeld 3 m ∨ RickyMeld 4 m) → 0 < rickyVal hand.length (without hand m) := by
    intro m hm
    have := length_without_ge hok hlen (hlen4 m hm)
    exact rickyVal_pos _ (one_le_low_without hok m) (by omega)
  refine ⟨r, (sortedHandPoints_eq_core hand).trans hr, ?_, h1, ?_, ?_⟩
  · rcases h3 with rfl | ⟨m, hm, rfl⟩
    · exact hpos0
    · exact hposm m (hsound m hm).1
  · intro m hm hsub
    have : ∃ m' ∈ melds3 hand ++ melds4 hand, m'.Perm m := by
      rcases hm with hm | hm
      · obtain ⟨m', h', hp⟩ := ricky3_complete hand hok m hm hsub
        exact ⟨m', List.mem_append_left _ h', hp⟩
      · obtain ⟨m', h', hp⟩ := ricky4_complete hand hok m hm hsub
        exact ⟨m', List.mem_append_right _ h', hp⟩
    obtain ⟨m', h', hp⟩ := this
    rw [← without_perm hand hp]
    exact h2 m' h'
  · rcases h3 with h3 | ⟨m, hm, h3⟩
    · exact Or.inl h3
    · exact Or.inr ⟨m, (hsound m hm).1, (hsound m hm).2, h3⟩

end CardVerif.Gin
