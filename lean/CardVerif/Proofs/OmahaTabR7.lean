import CardModel.Spec.OmahaTables
/-! # C06 — suit-free Omaha table, module 7 of 15 (compiled evaluation, `native_decide`; 390 board multisets × 1,820 hand multisets)

`tabR_a_blo_bhi`: the table holds on the ascending boards whose lowest value is `a` and whose second value lies in `[blo, bhi]`. -/
namespace CardVerif.OmahaD

/-- 220 boards -/
theorem tabR_5_5_5 : tableRc 5 5 5 = true := by native_decide

/-- 165 boards -/
theorem tabR_3_6_6 : tableRc 3 6 6 = true := by native_decide

/-- 5 boards -/
theorem tabR_13_13_14 : tableRc 13 13 14 = true := by native_decide

end CardVerif.OmahaD
