import CardModel.Spec.OmahaTables
/-! # C06 — suit-free Omaha table, module 6 of 15 (compiled evaluation, `native_decide`; 412 board multisets × 1,820 hand multisets)

`tabR_a_blo_bhi`: the table holds on the ascending boards whose lowest value is `a` and whose second value lies in `[blo, bhi]`. -/
namespace CardVerif.OmahaD

/-- 286 boards -/
theorem tabR_2_4_4 : tableRc 2 4 4 = true := by native_decide

/-- 70 boards -/
theorem tabR_5_10_14 : tableRc 5 10 14 = true := by native_decide

/-- 56 boards -/
theorem tabR_6_9_9 : tableRc 6 9 9 = true := by native_decide

end CardVerif.OmahaD
