import CardModel.Model.Pot
import Mathlib.Tactic.Linarith
import Mathlib.Tactic.Ring
import Mathlib.Tactic.Positivity
import Mathlib.Algebra.Order.Field.Rat
import Mathlib.Data.Rat.Cast.Order
/-!
# Helper lemmas for C14 (rake)

* list / `getI` / sorting facts about the vocabulary of `Model/Basic.lean`;
* `stepRake`, `charge`, `pairsFrom`: a convenient normal form of one iteration of `rakeLoop`;
* two induction principles for `rakeLoop` (`rakeLoop_simple`, `rakeLoop_chain`);
* the loop invariants behind the C14 theorems.
-/
namespace CardVerif.Pot
open CardVerif

/-! ## `getI`, `sumI` -/

@[simp] theorem getI_nil (i : Nat) : getI [] i = 0 := by simp [getI]
@[simp] theorem getI_cons_zero (x : Int) (l : List Int) : getI (x :: l) 0 = x := by simp [getI]
@[simp] theorem getI_cons_succ (x : Int) (l : List Int) (i : Nat) :
    getI (x :: l) (i + 1) = getI l i := by simp [getI]

theorem getI_mem : ∀ {l : List Int} {i : Nat}, i < l.length → getI l i ∈ l
  | [], _, h => by simp at h
  | x :: l, 0, _ => by simp
  | x :: l, i + 1, h => by
    have : getI l i ∈ l := getI_mem (by simpa using h)
    simp [this]

theorem getI_map_zero : ∀ (bal : List Int) (p : Nat), getI (bal.map fun _ => (0 : Int)) p = 0
  | [], _ => by simp
  | _ :: _, 0 => by simp
  | _ :: l, p + 1 => by simpa using getI_map_zero l p

theorem sumI_map_zero : ∀ (bal : List Int), sumI (bal.map fun _ => (0 : Int)) = 0
  | [] => rfl
  | _ :: l => by
    simp only [List.map_cons, sumI_cons, sumI_map_zero l]; rfl

theorem sumI_nonneg : ∀ {l : List Int}, (∀ b ∈ l, 0 ≤ b) → 0 ≤ sumI l
  | [], _ => by simp
  | x :: l, h => by
    have h1 : 0 ≤ x := h x (by simp)
    have h2 : 0 ≤ sumI l := sumI_nonneg fun b hb => h b (by simp [hb])
    simp only [sumI_cons]; omega

/-- in a list of non-negative integers no entry exceeds the sum -/
theorem mem_le_sumI : ∀ {l : List Int}, (∀ b ∈ l, 0 ≤ b) → ∀ b ∈ l, b ≤ sumI l
  | [], _, b, hb => by simp at hb
  | x :: l, h, b, hb => by
    have h1 : 0 ≤ x := h x (by simp)
    have hl : ∀ b ∈ l, 0 ≤ b := fun b hb => h b (by simp [hb])
    have h2 : 0 ≤ sumI l := sumI_nonneg hl
    simp only [sumI_cons]
    rcases List.mem_cons.1 hb with rfl | hb
    · omega
    · have := mem_le_sumI hl b hb
      omega

/-! ## sorting, `dedup`, `levels` -/

theorem mem_insertBy {α : Type} (le : α → α → Bool) (x a : α) :
    ∀ l : List α, a ∈ insertBy le x l ↔ a = x ∨ a ∈ l
  | [] => by simp [insertBy]
  | y :: ys => by
    unfold insertBy
    split
    · simp
    · simp [mem_insertBy le x a ys]; tauto

theorem mem_sortBy {α : Type} (le : α → α → Bool) (a : α) :
    ∀ l : List α, a ∈ sortBy le l ↔ a ∈ l
  | [] => by simp [sortBy]
  | x :: xs => by
    have ih := mem_sortBy le a xs
    unfold sortBy at ih ⊢
    simp [List.foldr_cons, mem_insertBy, ih]

theorem mem_dedup {α : Type} [DecidableEq α] (a : α) : ∀ l : List α, a ∈ dedup l ↔ a ∈ l
  | [] => by simp [dedup]
  | x :: xs => by
    unfold dedup
    split
    · rename_i hx
      rw [mem_dedup a xs]
      constructor
      · intro h; simp [h]
      · intro h
        rcases List.mem_cons.1 h with rfl | h
        · exact hx
        · exact h
    · simp [mem_dedup a xs]

theorem mem_levels (a : Int) (bal : List Int) : a ∈ levels bal ↔ a ∈ bal := by
  unfold levels sortI
  rw [mem_sortBy, mem_dedup]

theorem sorted_insertI (x : Int) :
    ∀ l : List Int, l.Pairwise (· ≤ ·) →
      (insertBy (fun a b => decide (a ≤ b)) x l).Pairwise (· ≤ ·)
  | [], _ => by simp [insertBy]
  | y :: ys, h => by
    unfold insertBy
    have hy := List.pairwise_cons.1 h
    split
    · rename_i hxy
      have hxy : x ≤ y := by simpa using hxy
      refine List.pairwise_cons.2 ⟨?_, h⟩
      intro a ha
      rcases List.mem_cons.1 ha with rfl | ha
      · exact hxy
      · exact Int.le_trans hxy (hy.1 a ha)
    · rename_i hxy
      have hxy : y ≤ x := by
        have : ¬ x ≤ y := by simpa using hxy
        omega
      refine List.pairwise_cons.2 ⟨?_, sorted_insertI x ys hy.2⟩
      intro a ha
      rcases (mem_insertBy _ x a ys).1 ha with rfl | ha
      · exact hxy
      · exact hy.1 a ha

theorem sorted_sortI : ∀ l : List Int, (sortI l).Pairwise (· ≤ ·)
  | [] => by simp [sortI, sortBy]
  | x :: xs => by
    have ih := sorted_sortI xs
    unfold sortI sortBy at ih ⊢
    exact sorted_insertI x _ ih

theorem levels_chain {bal : List Int} (hbal : ∀ b ∈ bal, 0 ≤ b) :
    ((0 : Int) :: levels bal).Pairwise (· ≤ ·) := by
  refine List.pairwise_cons.2 ⟨?_, sorted_sortI _⟩
  intro a ha
  exact hbal a ((mem_levels a bal).1 ha)

/-! ## the `(level, diff)` pairs -/

/-- `zip levels (inverse_cumulative_sum levels)`, started after the level `prev` -/
def pairsFrom : Int → List Int → List (Int × Int)
  | _, [] => []
  | prev, y :: ys => (y, y - prev) :: pairsFrom y ys

theorem zip_invCumsum_go : ∀ (xs : List Int) (prev : Int),
    xs.zip (invCumsum.go prev xs) = pairsFrom prev xs
  | [], _ => by simp [invCumsum.go, pairsFrom]
  | y :: ys, prev => by simp [invCumsum.go, pairsFrom, zip_invCumsum_go ys y]

theorem zip_invCumsum : ∀ lv : List Int, lv.zip (invCumsum lv) = pairsFrom 0 lv
  | [] => by simp [invCumsum, pairsFrom]
  | x :: xs => by simp [invCumsum, pairsFrom, zip_invCumsum_go xs x]

/-! ## one iteration of the loop -/

/-- every seat whose balance reaches `level` is charged `r` -/
def stepRake (bal : List Int) (level r : Int) (rake : List Int) : List Int :=
  (rake.zip (bal.map fun b => decide (level ≤ b))).map fun (x, at_) => if at_ then x + r else x

/-- number of seats whose balance reaches `level` -/
def nAt (bal : List Int) (level : Int) : Nat :=
  ((bal.map fun b => decide (level ≤ b)).filter id).length

/-- the amount charged at `level` -/
def charge (fl : Rat → Rat) (cfg : RakeCfg) (bal : List Int) (mtr : Rat) (level diff : Int)
    (rake : List Int) : Int :=
  min (pyInt (fl (fl (mtr - ((sumI rake : Int) : Rat)) / ((nAt bal level : Nat) : Rat))))
      (pyInt (fl (((diff : Int) : Rat) * cfg.f)))

theorem rakeLoop_cons (fl : Rat → Rat) (cfg : RakeCfg) (bal : List Int) (mtr : Rat)
    (level diff : Int) (rest : List (Int × Int)) (rake : List Int) :
    rakeLoop fl cfg bal mtr ((level, diff) :: rest) rake =
      if fl (mtr - ((sumI rake : Int) : Rat)) = 0 then rake
      else rakeLoop fl cfg bal mtr rest
        (stepRake bal level (charge fl cfg bal mtr level diff rake) rake) := rfl

theorem length_stepRake (level r : Int) : ∀ (rake bal : List Int), rake.length = bal.length →
    (stepRake bal level r rake).length = bal.length := by
  intro rake bal h
  simp [stepRake, h]

theorem getI_stepRake (level r : Int) : ∀ (rake bal : List Int) (p : Nat),
    rake.length = bal.length → p < bal.length →
    getI (stepRake bal level r rake) p =
      if level ≤ getI bal p then getI rake p + r else getI rake p
  | [], [], _, _, hp => by simp at hp
  | [], _ :: _, _, h, _ => by simp at h
  | _ :: _, [], _, h, _ => by simp at h
  | x :: rake, b :: bal, 0, _, _ => by
    simp [stepRake]
  | x :: rake, b :: bal, p + 1, h, hp => by
    have ih := getI_stepRake level r rake bal p (by simpa using h) (by simpa using hp)
    simpa [stepRake] using ih

theorem sumI_stepRake (level r : Int) : ∀ (rake bal : List Int), rake.length = bal.length →
    sumI (stepRake bal level r rake) = sumI rake + (nAt bal level : Nat) * r
  | [], [], _ => by simp [stepRake, nAt]
  | [], _ :: _, h => by simp at h
  | _ :: _, [], h => by simp at h
  | x :: rake, b :: bal, h => by
    have ih := sumI_stepRake level r rake bal (by simpa using h)
    simp only [stepRake, nAt] at ih ⊢
    by_cases hb : level ≤ b
    · simp [hb, ih, Int.add_mul]; omega
    · simp [hb, ih]; omega

/-! ## induction principles -/

/-- an invariant that every charge preserves survives the loop, whatever the `(level, diff)` list -/
theorem rakeLoop_simple (fl : Rat → Rat) (cfg : RakeCfg) (bal : List Int) (mtr : Rat)
    (Inv : List Int → Prop)
    (hstep : ∀ level r rake, Inv rake → Inv (stepRake bal level r rake)) :
    ∀ (pairs : List (Int × Int)) (rake : List Int), Inv rake →
      Inv (rakeLoop fl cfg bal mtr pairs rake)
  | [], _, h => h
  | (level, diff) :: rest, rake, h => by
    rw [rakeLoop_cons]
    split
    · exact h
    · exact rakeLoop_simple fl cfg bal mtr Inv hstep rest _ (hstep _ _ _ h)

/-- induction along an increasing chain of levels that contains every balance above `prev` -/
theorem rakeLoop_chain (fl : Rat → Rat) (cfg : RakeCfg) (bal : List Int) (mtr : Rat)
    (Inv : Int → List Int → Prop) (Post : List Int → Prop)
    (hpost : ∀ prev rake, Inv prev rake → Post rake)
    (hstep : ∀ prev level rake, prev ≤ level → (∀ b ∈ bal, b ≤ prev ∨ level ≤ b) →
      fl (mtr - ((sumI rake : Int) : Rat)) ≠ 0 → Inv prev rake →
      Inv level (stepRake bal level (charge fl cfg bal mtr level (level - prev) rake) rake)) :
    ∀ (lv : List Int) (prev : Int) (rake : List Int), (prev :: lv).Pairwise (· ≤ ·) →
      (∀ b ∈ bal, b ≤ prev ∨ b ∈ lv) → Inv prev rake →
      Post (rakeLoop fl cfg bal mtr (pairsFrom prev lv) rake)
  | [], prev, rake, _, _, h => hpost prev rake h
  | level :: rest, prev, rake, hch, hmem, h => by
    rw [pairsFrom, rakeLoop_cons]
    have hch' := List.pairwise_cons.1 hch
    have hch'' := List.pairwise_cons.1 hch'.2
    have hpl : prev ≤ level := hch'.1 level (by simp)
    split
    · exact hpost prev rake h
    · rename_i hne
      refine rakeLoop_chain fl cfg bal mtr Inv Post hpost hstep rest level _ hch'.2 ?_ ?_
      · intro b hb
        rcases hmem b hb with h1 | h1
        · exact Or.inl (Int.le_trans h1 hpl)
        · rcases List.mem_cons.1 h1 with rfl | h1
          · exact Or.inl (Int.le_refl _)
          · exact Or.inr h1
      · refine hstep prev level rake hpl ?_ hne h
        intro b hb
        rcases hmem b hb with h1 | h1
        · exact Or.inl h1
        · rcases List.mem_cons.1 h1 with rfl | h1
          · exact Or.inr (Int.le_refl _)
          · exact Or.inr (hch''.1 b h1)

theorem rakePerPlayer_true (fl : Rat → Rat) (cfg : RakeCfg) (bal : List Int) :
    rakePerPlayer fl cfg bal true =
      rakeLoop fl cfg bal (maxTotalRake fl cfg bal) (pairsFrom 0 (levels bal))
        (bal.map fun _ => (0 : Int)) := by
  simp [rakePerPlayer, zip_invCumsum]

theorem rakePerPlayer_false (fl : Rat → Rat) (cfg : RakeCfg) (bal : List Int) :
    rakePerPlayer fl cfg bal false = bal.map fun _ => (0 : Int) := by
  simp [rakePerPlayer]

/-- the chain hypotheses of `rakeLoop_chain` hold for `levels bal` started at `0` -/
theorem levels_cover (bal : List Int) : ∀ b ∈ bal, b ≤ 0 ∨ b ∈ levels bal :=
  fun b hb => Or.inr ((mem_levels b bal).2 hb)

/-! ## length and equal treatment (any rounding) -/

theorem length_rakeLoop (fl : Rat → Rat) (cfg : RakeCfg) (bal : List Int) (mtr : Rat)
    (pairs : List (Int × Int)) (rake : List Int) (h : rake.length = bal.length) :
    (rakeLoop fl cfg bal mtr pairs rake).length = bal.length :=
  rakeLoop_simple fl cfg bal mtr (fun rake => rake.length = bal.length)
    (fun level r rake h => length_stepRake level r rake bal h) pairs rake h

theorem length_rakePerPlayer (fl : Rat → Rat) (cfg : RakeCfg) (bal : List Int) (rp : Bool) :
    (rakePerPlayer fl cfg bal rp).length = bal.length := by
  cases rp
  · simp [rakePerPlayer_false]
  · rw [rakePerPlayer_true]; exact length_rakeLoop _ _ _ _ _ _ (by simp)

/-- seats with equal balances carry equal rake -/
def EqInv (bal rake : List Int) : Prop :=
  rake.length = bal.length ∧
    ∀ p q, p < bal.length → q < bal.length → getI bal p = getI bal q → getI rake p = getI rake q

theorem eqInv_rakeLoop (fl : Rat → Rat) (cfg : RakeCfg) (bal : List Int) (mtr : Rat)
    (pairs : List (Int × Int)) (rake : List Int) (h : EqInv bal rake) :
    EqInv bal (rakeLoop fl cfg bal mtr pairs rake) := by
  refine rakeLoop_simple fl cfg bal mtr (EqInv bal) ?_ pairs rake h
  intro level r rake ⟨hl, he⟩
  refine ⟨length_stepRake level r rake bal hl, ?_⟩
  intro p q hp hq hpq
  rw [getI_stepRake level r rake bal p hl hp, getI_stepRake level r rake bal q hl hq, hpq,
    he p q hp hq hpq]

theorem eqInv_rakePerPlayer (fl : Rat → Rat) (cfg : RakeCfg) (bal : List Int) (rp : Bool) :
    EqInv bal (rakePerPlayer fl cfg bal rp) := by
  have h0 : EqInv bal (bal.map fun _ => (0 : Int)) :=
    ⟨by simp, fun p q _ _ _ => by rw [getI_map_zero, getI_map_zero]⟩
  cases rp
  · rw [rakePerPlayer_false]; exact h0
  · rw [rakePerPlayer_true]; exact eqInv_rakeLoop _ _ _ _ _ _ h0

/-! ## rounding that is monotone and fixes integers -/

theorem pyInt_of_nonneg {x : Rat} (h : 0 ≤ x) : pyInt x = x.floor := by simp [pyInt, h]

theorem pyInt_nonneg {x : Rat} (h : 0 ≤ x) : 0 ≤ pyInt x := by
  rw [pyInt_of_nonneg h, Rat.le_floor_iff]; simpa using h

theorem pyInt_le {x : Rat} (h : 0 ≤ x) : ((pyInt x : Int) : Rat) ≤ x := by
  rw [pyInt_of_nonneg h]; exact Rat.floor_le x

/-- a level never charges more than its width; `fl` need only be exact at `0` and at the width -/
theorem charge_le_diff_of {fl : Rat → Rat} (hmono : ∀ a b : Rat, a ≤ b → fl a ≤ fl b)
    (h00 : fl 0 = 0) (cfg : RakeCfg) (hf0 : 0 ≤ cfg.f) (hf1 : cfg.f ≤ 1)
    (bal : List Int) (mtr : Rat) (level diff : Int) (rake : List Int) (hd : 0 ≤ diff)
    (hfd : fl (diff : Rat) = (diff : Rat)) :
    charge fl cfg bal mtr level diff rake ≤ diff := by
  have hdq : (0 : Rat) ≤ (diff : Rat) := by exact_mod_cast hd
  have h0 : (0 : Rat) ≤ fl ((diff : Rat) * cfg.f) := by
    have := hmono 0 ((diff : Rat) * cfg.f) (mul_nonneg hdq hf0)
    rwa [h00] at this
  have h1 : fl ((diff : Rat) * cfg.f) ≤ (diff : Rat) := by
    have := hmono ((diff : Rat) * cfg.f) (diff : Rat) (by nlinarith)
    rwa [hfd] at this
  have h2 : pyInt (fl ((diff : Rat) * cfg.f)) ≤ diff := by
    rw [pyInt_of_nonneg h0]
    have := Rat.floor_monotone h1
    rwa [Rat.floor_intCast] at this
  unfold charge
  exact Int.le_trans (Int.min_le_right _ _) h2

/-- a level never charges more than its width -/
theorem charge_le_diff {fl : Rat → Rat} (hmono : ∀ a b : Rat, a ≤ b → fl a ≤ fl b)
    (hfix : ∀ z : Int, fl (z : Rat) = (z : Rat)) (cfg : RakeCfg) (hf0 : 0 ≤ cfg.f) (hf1 : cfg.f ≤ 1)
    (bal : List Int) (mtr : Rat) (level diff : Int) (rake : List Int) (hd : 0 ≤ diff) :
    charge fl cfg bal mtr level diff rake ≤ diff :=
  charge_le_diff_of hmono (by simpa using hfix 0) cfg hf0 hf1 bal mtr level diff rake hd (hfix diff)

/-- `fl` is exact on the integers between `0` and some balance (all the per-seat theorems need) -/
def FixUpTo (fl : Rat → Rat) (bal : List Int) : Prop :=
  ∀ z : Int, 0 ≤ z → (∃ b ∈ bal, z ≤ b) → fl (z : Rat) = (z : Rat)

theorem FixUpTo.of_all {fl : Rat → Rat} (hfix : ∀ z : Int, fl (z : Rat) = (z : Rat)) (bal : List Int) :
    FixUpTo fl bal := fun z _ _ => hfix z

theorem FixUpTo.of_bound {fl : Rat → Rat} {B : Int} (hfix : ∀ z : Int, |z| ≤ B → fl (z : Rat) = (z : Rat))
    {bal : List Int} (hB : ∀ b ∈ bal, b ≤ B) : FixUpTo fl bal := by
  intro z h0 ⟨b, hb, hzb⟩
  refine hfix z ?_
  rw [abs_of_nonneg h0]
  exact Int.le_trans hzb (hB b hb)

/-- the charge at a level that seat `p` reaches is at most the width of the level -/
theorem charge_le_diff_seat {fl : Rat → Rat} (hmono : ∀ a b : Rat, a ≤ b → fl a ≤ fl b)
    {bal : List Int} (hfix : FixUpTo fl bal) (cfg : RakeCfg) (hf0 : 0 ≤ cfg.f) (hf1 : cfg.f ≤ 1)
    (mtr : Rat) (prev level : Int) (rake : List Int) (h0 : 0 ≤ prev) (hpl : prev ≤ level)
    (p : Nat) (hp : p < bal.length) (hlp : level ≤ getI bal p) :
    charge fl cfg bal mtr level (level - prev) rake ≤ level - prev := by
  have hm := getI_mem hp
  refine charge_le_diff_of hmono ?_ cfg hf0 hf1 bal mtr level (level - prev) rake (by omega) ?_
  · simpa using hfix 0 (Int.le_refl 0) ⟨_, hm, by omega⟩
  · exact hfix (level - prev) (by omega) ⟨_, hm, by omega⟩

/-- `rake p ≤ min (bal p) prev`: nobody has been charged beyond the level reached so far -/
def LeInv (bal : List Int) (prev : Int) (rake : List Int) : Prop :=
  rake.length = bal.length ∧
    ∀ p, p < bal.length → getI rake p ≤ min (getI bal p) prev

/-- the rake differs by at most the part of the balance difference below `prev` -/
def OrdInv (bal : List Int) (prev : Int) (rake : List Int) : Prop :=
  rake.length = bal.length ∧
    ∀ p q, p < bal.length → q < bal.length → getI bal p ≤ getI bal q →
      getI rake q - getI rake p ≤ min (getI bal q) prev - min (getI bal p) prev

theorem le_contribution_of {fl : Rat → Rat} (hmono : ∀ a b : Rat, a ≤ b → fl a ≤ fl b)
    (cfg : RakeCfg) (hf0 : 0 ≤ cfg.f) (hf1 : cfg.f ≤ 1)
    (bal : List Int) (hfix : FixUpTo fl bal) (hbal : ∀ b ∈ bal, 0 ≤ b) (rp : Bool) (p : Nat) (hp : p < bal.length) :
    getI (rakePerPlayer fl cfg bal rp) p ≤ getI bal p := by
  have hb0 : ∀ p, p < bal.length → 0 ≤ getI bal p := fun p hp => hbal _ (getI_mem hp)
  cases rp
  · rw [rakePerPlayer_false, getI_map_zero]; exact hb0 p hp
  rw [rakePerPlayer_true]
  refine rakeLoop_chain fl cfg bal (maxTotalRake fl cfg bal) (fun prev rake => LeInv bal prev rake ∧ 0 ≤ prev)
    (fun rake => ∀ p, p < bal.length → getI rake p ≤ getI bal p) ?_ ?_ (levels bal) 0 _
    (levels_chain hbal) (levels_cover bal) ?_ p hp
  · intro prev rake ⟨⟨_, h⟩, _⟩ p hp
    have := h p hp
    omega
  · intro prev level rake hpl _ _ ⟨⟨hl, h⟩, h0⟩
    refine ⟨⟨length_stepRake _ _ rake bal hl, ?_⟩, by omega⟩
    intro p hp
    have := h p hp
    rw [getI_stepRake _ _ rake bal p hl hp]
    by_cases hlp : level ≤ getI bal p
    · have hc := charge_le_diff_seat hmono hfix cfg hf0 hf1 (maxTotalRake fl cfg bal) prev level rake h0 hpl p hp hlp
      rw [if_pos hlp]; omega
    · rw [if_neg hlp]; omega
  · refine ⟨⟨by simp, ?_⟩, Int.le_refl 0⟩
    intro p hp
    have := hb0 p hp
    rw [getI_map_zero]; omega

theorem le_contribution {fl : Rat → Rat} (hmono : ∀ a b : Rat, a ≤ b → fl a ≤ fl b)
    (hfix : ∀ z : Int, fl (z : Rat) = (z : Rat)) (cfg : RakeCfg) (hf0 : 0 ≤ cfg.f) (hf1 : cfg.f ≤ 1)
    (bal : List Int) (hbal : ∀ b ∈ bal, 0 ≤ b) (rp : Bool) (p : Nat) (hp : p < bal.length) :
    getI (rakePerPlayer fl cfg bal rp) p ≤ getI bal p :=
  le_contribution_of hmono cfg hf0 hf1 bal (FixUpTo.of_all hfix bal) hbal rp p hp

theorem order_kept_of {fl : Rat → Rat} (hmono : ∀ a b : Rat, a ≤ b → fl a ≤ fl b)
    (cfg : RakeCfg) (hf0 : 0 ≤ cfg.f) (hf1 : cfg.f ≤ 1)
    (bal : List Int) (hfix : FixUpTo fl bal) (hbal : ∀ b ∈ bal, 0 ≤ b) (rp : Bool) (p q : Nat)
    (hp : p < bal.length) (hq : q < bal.length) (hpq : getI bal p ≤ getI bal q) :
    getI (rakePerPlayer fl cfg bal rp) q - getI (rakePerPlayer fl cfg bal rp) p
      ≤ getI bal q - getI bal p := by
  have hb0 : ∀ p, p < bal.length → 0 ≤ getI bal p := fun p hp => hbal _ (getI_mem hp)
  cases rp
  · rw [rakePerPlayer_false, getI_map_zero, getI_map_zero]; omega
  rw [rakePerPlayer_true]
  refine rakeLoop_chain fl cfg bal (maxTotalRake fl cfg bal) (fun prev rake => OrdInv bal prev rake ∧ 0 ≤ prev)
    (fun rake => ∀ p q, p < bal.length → q < bal.length → getI bal p ≤ getI bal q →
      getI rake q - getI rake p ≤ getI bal q - getI bal p) ?_ ?_ (levels bal) 0 _
    (levels_chain hbal) (levels_cover bal) ?_ p q hp hq hpq
  · intro prev rake ⟨⟨_, h⟩, _⟩ p q hp hq hpq
    have := h p q hp hq hpq
    omega
  · intro prev level rake hpl hcov _ ⟨⟨hl, h⟩, h0⟩
    refine ⟨⟨length_stepRake _ _ rake bal hl, ?_⟩, by omega⟩
    intro p q hp hq hpq
    have := h p q hp hq hpq
    have hcp := hcov _ (getI_mem hp)
    have hcq := hcov _ (getI_mem hq)
    rw [getI_stepRake _ _ rake bal p hl hp, getI_stepRake _ _ rake bal q hl hq]
    by_cases hlq : level ≤ getI bal q
    · have hc := charge_le_diff_seat hmono hfix cfg hf0 hf1 (maxTotalRake fl cfg bal) prev level rake h0 hpl q hq hlq
      split <;> split <;> omega
    · split <;> split <;> omega
  · refine ⟨⟨by simp, ?_⟩, Int.le_refl 0⟩
    intro p q hp hq _
    have := hb0 p hp
    have := hb0 q hq
    rw [getI_map_zero, getI_map_zero]; omega

theorem order_kept {fl : Rat → Rat} (hmono : ∀ a b : Rat, a ≤ b → fl a ≤ fl b)
    (hfix : ∀ z : Int, fl (z : Rat) = (z : Rat)) (cfg : RakeCfg) (hf0 : 0 ≤ cfg.f) (hf1 : cfg.f ≤ 1)
    (bal : List Int) (hbal : ∀ b ∈ bal, 0 ≤ b) (rp : Bool) (p q : Nat)
    (hp : p < bal.length) (hq : q < bal.length) (hpq : getI bal p ≤ getI bal q) :
    getI (rakePerPlayer fl cfg bal rp) q - getI (rakePerPlayer fl cfg bal rp) p
      ≤ getI bal q - getI bal p :=
  order_kept_of hmono cfg hf0 hf1 bal (FixUpTo.of_all hfix bal) hbal rp p q hp hq hpq

/-- bounded variants: `fl` exact on integers of absolute value at most `B`, all balances at most `B` -/
theorem le_contribution_B {fl : Rat → Rat} {B : Int} (hmono : ∀ a b : Rat, a ≤ b → fl a ≤ fl b)
    (hfix : ∀ z : Int, |z| ≤ B → fl (z : Rat) = (z : Rat)) (cfg : RakeCfg) (hf0 : 0 ≤ cfg.f) (hf1 : cfg.f ≤ 1)
    (bal : List Int) (hbal : ∀ b ∈ bal, 0 ≤ b) (hB : ∀ b ∈ bal, b ≤ B) (rp : Bool) (p : Nat)
    (hp : p < bal.length) : getI (rakePerPlayer fl cfg bal rp) p ≤ getI bal p :=
  le_contribution_of hmono cfg hf0 hf1 bal (FixUpTo.of_bound hfix hB) hbal rp p hp

theorem order_kept_B {fl : Rat → Rat} {B : Int} (hmono : ∀ a b : Rat, a ≤ b → fl a ≤ fl b)
    (hfix : ∀ z : Int, |z| ≤ B → fl (z : Rat) = (z : Rat)) (cfg : RakeCfg) (hf0 : 0 ≤ cfg.f) (hf1 : cfg.f ≤ 1)
    (bal : List Int) (hbal : ∀ b ∈ bal, 0 ≤ b) (hB : ∀ b ∈ bal, b ≤ B) (rp : Bool) (p q : Nat)
    (hp : p < bal.length) (hq : q < bal.length) (hpq : getI bal p ≤ getI bal q) :
    getI (rakePerPlayer fl cfg bal rp) q - getI (rakePerPlayer fl cfg bal rp) p
      ≤ getI bal q - getI bal p :=
  order_kept_of hmono cfg hf0 hf1 bal (FixUpTo.of_bound hfix hB) hbal rp p q hp hq hpq

/-! ## exact arithmetic -/

theorem maxTotalRake_id_le_cap (cfg : RakeCfg) (bal : List Int) :
    maxTotalRake id cfg bal ≤ (cfg.cap : Rat) := by
  unfold maxTotalRake
  simp only [id]
  split
  · rename_i h; exact le_of_lt h
  · exact le_refl _

theorem maxTotalRake_id_le_frac (cfg : RakeCfg) (bal : List Int) :
    maxTotalRake id cfg bal ≤ cfg.f * ((sumI bal : Int) : Rat) := by
  unfold maxTotalRake
  simp only [id]
  split
  · exact le_refl _
  · rename_i h; exact not_lt.1 h

theorem maxTotalRake_id_nonneg (cfg : RakeCfg) (bal : List Int) (hf0 : 0 ≤ cfg.f)
    (hcap : 0 ≤ cfg.cap) (hbal : ∀ b ∈ bal, 0 ≤ b) : 0 ≤ maxTotalRake id cfg bal := by
  have hs : (0 : Rat) ≤ ((sumI bal : Int) : Rat) := by exact_mod_cast sumI_nonneg hbal
  have hc : (0 : Rat) ≤ (cfg.cap : Rat) := by exact_mod_cast hcap
  unfold maxTotalRake
  simp only [id]
  split
  · exact mul_nonneg hf0 hs
  · exact hc

/-- in exact arithmetic a charge is non-negative and the seats at the level can afford it -/
theorem charge_exact (cfg : RakeCfg) (hf0 : 0 ≤ cfg.f) (bal : List Int) (mtr : Rat)
    (level diff : Int) (rake : List Int) (hd : 0 ≤ diff)
    (hleft : 0 ≤ mtr - ((sumI rake : Int) : Rat)) :
    0 ≤ charge id cfg bal mtr level diff rake ∧
      ((nAt bal level : Nat) : Rat) * ((charge id cfg bal mtr level diff rake : Int) : Rat)
        ≤ mtr - ((sumI rake : Int) : Rat) := by
  have hdq : (0 : Rat) ≤ (diff : Rat) := by exact_mod_cast hd
  have hk : (0 : Rat) ≤ ((nAt bal level : Nat) : Rat) := by positivity
  have hq : (0 : Rat) ≤ (mtr - ((sumI rake : Int) : Rat)) / ((nAt bal level : Nat) : Rat) :=
    div_nonneg hleft hk
  have ha := pyInt_nonneg hq
  have hb := pyInt_nonneg (mul_nonneg hdq hf0)
  have hale := pyInt_le hq
  unfold charge
  simp only [id]
  refine ⟨le_min ha hb, ?_⟩
  have hmin : ((min (pyInt ((mtr - ((sumI rake : Int) : Rat)) / ((nAt bal level : Nat) : Rat)))
      (pyInt ((diff : Rat) * cfg.f)) : Int) : Rat)
      ≤ (mtr - ((sumI rake : Int) : Rat)) / ((nAt bal level : Nat) : Rat) :=
    le_trans (by exact_mod_cast Int.min_le_left _ _) hale
  rcases Nat.eq_zero_or_pos (nAt bal level) with h0 | hpos
  · rw [h0]; simpa using hleft
  · have hkpos : (0 : Rat) < ((nAt bal level : Nat) : Rat) := by exact_mod_cast hpos
    rw [le_div_iff₀ hkpos] at hmin
    linarith

/-- the invariant of the exact loop -/
def ExInv (bal : List Int) (mtr : Rat) (rake : List Int) : Prop :=
  rake.length = bal.length ∧ ((sumI rake : Int) : Rat) ≤ mtr ∧
    (∀ p, p < bal.length → 0 ≤ getI rake p) ∧
    ∀ p q, p < bal.length → q < bal.length → getI bal p ≤ getI bal q → getI rake p ≤ getI rake q

theorem exInv_rakePerPlayer (cfg : RakeCfg) (bal : List Int) (rp : Bool)
    (hf0 : 0 ≤ cfg.f) (hcap : 0 ≤ cfg.cap) (hbal : ∀ b ∈ bal, 0 ≤ b) :
    ExInv bal (maxTotalRake id cfg bal) (rakePerPlayer id cfg bal rp) := by
  have h0 : ExInv bal (maxTotalRake id cfg bal) (bal.map fun _ => (0 : Int)) := by
    refine ⟨by simp, ?_, ?_, ?_⟩
    · rw [sumI_map_zero]; simpa using maxTotalRake_id_nonneg cfg bal hf0 hcap hbal
    · intro p _; rw [getI_map_zero]
    · intro p q _ _ _; rw [getI_map_zero, getI_map_zero]
  cases rp
  · rw [rakePerPlayer_false]; exact h0
  rw [rakePerPlayer_true]
  refine rakeLoop_chain id cfg bal (maxTotalRake id cfg bal)
    (fun _ => ExInv bal (maxTotalRake id cfg bal)) (ExInv bal (maxTotalRake id cfg bal))
    (fun _ _ h => h) ?_ (levels bal) 0 _ (levels_chain hbal) (levels_cover bal) h0
  intro prev level rake hpl _ _ ⟨hl, hs, hn, hm⟩
  have hleft : 0 ≤ maxTotalRake id cfg bal - ((sumI rake : Int) : Rat) := by linarith
  obtain ⟨hc0, hck⟩ := charge_exact cfg hf0 bal (maxTotalRake id cfg bal) level (level - prev) rake
    (by omega) hleft
  refine ⟨length_stepRake _ _ rake bal hl, ?_, ?_, ?_⟩
  · rw [sumI_stepRake _ _ rake bal hl]
    push_cast
    linarith
  · intro p hp
    have := hn p hp
    rw [getI_stepRake _ _ rake bal p hl hp]
    split <;> omega
  · intro p q hp hq hpq
    have := hm p q hp hq hpq
    rw [getI_stepRake _ _ rake bal p hl hp, getI_stepRake _ _ rake bal q hl hq]
    split <;> split <;> omega

end CardVerif.Pot
