import CardModel.Spec.OmahaTables
/-! # C06 — suit-free Omaha table, module 9 of 15 (compiled evaluation, `native_decide`; 416 board multisets × 1,820 hand multisets)

`tabR_a_blo_bhi`: the table holds on the ascending boards whose lowest value is `a` and whose second value lies in `[blo, bhi]`. -/
namespace CardVerif.OmahaD

/-- 220 boards -/
theorem tabR_3_5_5 : tableRc 3 5 5 = true := by native_decide

/-- 126 boards -/
theorem tabR_9_9_14 : tableRc 9 9 14 = true := by native_decide

/-- 70 boards -/
theorem tabR_3_10_14 : tableRc 3 10 14 = true := by native_decide

end CardVerif.OmahaD
