import CardVerif.Proofs.Accept
import CardVerif.Proofs.BettingInv
import CardVerif.Proofs.Closure
/-!
# C04 — the history invariant behind the min-raise comparison (`gap_le_lastRaise`)

The engine's minimum raise increment is the gap between the two largest contributions (`topGap`); the rule's is
`max bigBlind lastRaise`.  This file proves that on every reachable in-progress state in which some seat that is
able to bet has not matched the highest contribution, `topGap ≤ max bigBlind lastRaise` (`RInv.gap`).

The inductive invariant `RInv` (§4) has four parts:

* `lr_nonneg` : `0 ≤ lastRaise`;
* `gap`       : if some live seat (not folded, chips left) is below the highest contribution, then
                `topGap ≤ max bigBlind lastRaise`;
* `actor`     : the seat to act has not folded;
* `pfx`       : going clockwise from the seat to act, the live seats that are below the highest contribution come
                first: no live *matched* seat precedes a live *unmatched* one.

`pfx` is what fails at construction when the "small" blind is larger than the "big" blind at a table of three or
more (`BlindsOrdered`), and with it `gap_le_lastRaise` itself fails (see `Props/C04.lean`).
-/
namespace CardVerif.Betting
open CardVerif

/-! ## §1 the largest entry and the gap between the two largest entries of a list -/

def maxL (l : List Int) : Int := match maxI? l with | some m => m | none => 0

def gapL (l : List Int) : Int :=
  match (sortI l).reverse with
  | t0 :: t1 :: _ => t0 - t1
  | _ => 0

theorem maxPot_eq_maxL (s : State) : s.maxPot = maxL s.pot := rfl
theorem topGap_eq_gapL (s : State) : s.topGap = gapL s.pot := rfl

theorem maxL_eq_iff (l : List Int) (hl : l ≠ []) (m : Int) : maxL l = m ↔ m ∈ l ∧ ∀ b ∈ l, b ≤ m := by
  obtain ⟨m0, hm0, hmem, hmax⟩ := maxI?_eq_some l hl
  have : maxL l = m0 := by simp [maxL, hm0]
  rw [this]
  constructor
  · rintro rfl; exact ⟨hmem, hmax⟩
  · rintro ⟨h1, h2⟩
    have := hmax m h1
    have := h2 m0 hmem
    omega

theorem maxL_mem (l : List Int) (hl : l ≠ []) : maxL l ∈ l := ((maxL_eq_iff l hl _).1 rfl).1
theorem le_maxL (l : List Int) (b : Int) (hb : b ∈ l) : b ≤ maxL l :=
  ((maxL_eq_iff l (List.ne_nil_of_mem hb) _).1 rfl).2 b hb

theorem getI_le_maxL (l : List Int) (i : Nat) (h : i < l.length) : getI l i ≤ maxL l :=
  le_maxL l _ (getI_mem l i h)

theorem exists_getI_eq_maxL (l : List Int) (hl : l ≠ []) : ∃ i, i < l.length ∧ getI l i = maxL l :=
  mem_exists_getI l _ (maxL_mem l hl)

/-- the largest entry in index form -/
theorem maxL_eq_of (l : List Int) (m : Int) (i : Nat) (hi : i < l.length) (him : getI l i = m)
    (hmax : ∀ j, j < l.length → getI l j ≤ m) : maxL l = m := by
  have hl : l ≠ [] := by intro h; rw [h] at hi; simp at hi
  rw [maxL_eq_iff l hl]
  refine ⟨him ▸ getI_mem l i hi, ?_⟩
  intro b hb
  obtain ⟨j, hj, rfl⟩ := mem_exists_getI l b hb
  exact hmax j hj

/-! ### counting -/

theorem countP_insertBy {α : Type} (le : α → α → Bool) (p : α → Bool) (x : α) (l : List α) :
    (insertBy le x l).countP p = (x :: l).countP p := by
  induction l with
  | nil => simp [insertBy]
  | cons y ys ih =>
    unfold insertBy
    split
    · rfl
    · rw [List.countP_cons, ih]
      simp only [List.countP_cons]
      omega

theorem countP_sortBy {α : Type} (le : α → α → Bool) (p : α → Bool) (l : List α) :
    (sortBy le l).countP p = l.countP p := by
  induction l with
  | nil => simp [sortBy]
  | cons y ys ih =>
    have : sortBy le (y :: ys) = insertBy le y (sortBy le ys) := rfl
    rw [this, countP_insertBy, List.countP_cons, List.countP_cons, ih]

theorem countP_sortI_reverse (p : Int → Bool) (l : List Int) : (sortI l).reverse.countP p = l.countP p := by
  rw [List.countP_reverse]; exact countP_sortBy _ p l

theorem one_le_countP_iff (p : Int → Bool) (l : List Int) :
    1 ≤ l.countP p ↔ ∃ i, i < l.length ∧ p (getI l i) = true := by
  constructor
  · intro h
    obtain ⟨a, ha, hp⟩ := List.countP_pos_iff.1 (by omega : 0 < l.countP p)
    obtain ⟨i, hi, rfl⟩ := mem_exists_getI l a ha
    exact ⟨i, hi, hp⟩
  · rintro ⟨i, hi, hp⟩
    exact List.countP_pos_iff.2 ⟨_, getI_mem l i hi, hp⟩

theorem getI_cons_succ (x : Int) (l : List Int) (i : Nat) : getI (x :: l) (i + 1) = getI l i := by simp [getI]
theorem getI_cons_zero (x : Int) (l : List Int) : getI (x :: l) 0 = x := by simp [getI]

theorem two_le_countP_iff (p : Int → Bool) (l : List Int) :
    2 ≤ l.countP p ↔ ∃ i j, i < j ∧ j < l.length ∧ p (getI l i) = true ∧ p (getI l j) = true := by
  induction l with
  | nil => simp
  | cons x xs ih =>
    rw [List.countP_cons]
    constructor
    · intro h
      by_cases h2 : 2 ≤ xs.countP p
      · obtain ⟨i, j, hij, hj, hi1, hj1⟩ := ih.1 h2
        exact ⟨i + 1, j + 1, by omega, by simp; omega, by rwa [getI_cons_succ], by rwa [getI_cons_succ]⟩
      · have hpx : p x = true := by
          by_contra hpx
          simp only [hpx] at h
          simp at h
          omega
        have h1 : 1 ≤ xs.countP p := by simp only [hpx, if_true] at h; omega
        obtain ⟨k, hk, hpk⟩ := (one_le_countP_iff p xs).1 h1
        exact ⟨0, k + 1, by omega, by simp; omega, by rwa [getI_cons_zero], by rwa [getI_cons_succ]⟩
    · rintro ⟨i, j, hij, hj, hi1, hj1⟩
      obtain ⟨j', rfl⟩ : ∃ j', j = j' + 1 := ⟨j - 1, by omega⟩
      rw [getI_cons_succ] at hj1
      have hj' : j' < xs.length := by simpa using hj
      cases i with
      | zero =>
        rw [getI_cons_zero] at hi1
        have := (one_le_countP_iff p xs).2 ⟨j', hj', hj1⟩
        simp only [hi1, if_true]; omega
      | succ i' =>
        rw [getI_cons_succ] at hi1
        have := ih.2 ⟨i', j', by omega, hj', hi1, hj1⟩
        omega

/-- in a descending list the second entry is `≥ v` iff at least two entries are -/
theorem second_ge_iff (t0 t1 : Int) (r : List Int) (h : (t0 :: t1 :: r).Pairwise (· ≥ ·)) (v : Int) :
    v ≤ t1 ↔ 2 ≤ (t0 :: t1 :: r).countP (fun b => decide (v ≤ b)) := by
  rw [List.pairwise_cons, List.pairwise_cons] at h
  obtain ⟨h0, h1, _⟩ := h
  have h01 : t1 ≤ t0 := h0 t1 (by simp)
  rw [List.countP_cons, List.countP_cons]
  constructor
  · intro hv
    have : v ≤ t0 := by omega
    simp [hv, this]
  · intro hc
    by_contra hv
    have hr : r.countP (fun b => decide (v ≤ b)) = 0 := by
      rw [List.countP_eq_zero]
      intro b hb
      have := h1 b hb
      simp; omega
    rw [hr] at hc
    simp only [hv, decide_false] at hc
    simp at hc
    split at hc <;> omega

theorem pairwise_sortI_reverse (l : List Int) : (sortI l).reverse.Pairwise (· ≥ ·) := by
  rw [List.pairwise_reverse]
  exact (pairwise_sortI l).imp (fun h => h)

/-- **the gap between the two largest entries is at most `K` iff two entries are within `K` of the largest** -/
theorem gapL_le_iff (l : List Int) (h2 : 2 ≤ l.length) (K : Int) :
    gapL l ≤ K ↔ ∃ i j, i < j ∧ j < l.length ∧ maxL l - K ≤ getI l i ∧ maxL l - K ≤ getI l j := by
  have hl : l ≠ [] := by intro h; rw [h] at h2; simp at h2
  have hlen : (sortI l).reverse.length = l.length := by rw [List.length_reverse, length_sortI]
  have hpw := pairwise_sortI_reverse l
  have hcnt := countP_sortI_reverse (fun b => decide (maxL l - K ≤ b)) l
  have hmem : ∀ b, b ∈ (sortI l).reverse ↔ b ∈ l := fun b => by rw [List.mem_reverse, mem_sortI]
  unfold gapL
  match hs : (sortI l).reverse with
  | [] => rw [hs] at hlen; simp at hlen; omega
  | [_] => rw [hs] at hlen; simp at hlen; omega
  | t0 :: t1 :: r =>
    rw [hs] at hpw hcnt
    have ht0 : maxL l = t0 := by
      rw [maxL_eq_iff l hl]
      refine ⟨(hmem t0).1 (by rw [hs]; simp), ?_⟩
      intro b hb
      have hb' : b ∈ t0 :: t1 :: r := by rw [← hs]; exact (hmem b).2 hb
      rcases List.mem_cons.1 hb' with rfl | hb'
      · exact Int.le_refl _
      · exact (List.pairwise_cons.1 hpw).1 b hb'
    have key := second_ge_iff t0 t1 r hpw (maxL l - K)
    rw [hcnt, two_le_countP_iff] at key
    simp only [decide_eq_true_eq] at key
    rw [← key, ht0]
    show t0 - t1 ≤ K ↔ t0 - K ≤ t1
    constructor <;> intro h <;> omega

/-! ## §2 seats: live / folded under an action, the clockwise distance, `move_action` -/

theorem liveSeat_iff (la : List (Option ActType)) (stk : List Int) (p : Nat) :
    liveSeat la stk p = true ↔ folded la p = false ∧ getI stk p ≠ 0 := by
  simp [liveSeat]

theorem cannotAct_eq (s : State) (p : Nat) : s.cannotAct p = !liveSeat s.lastActions s.stacks p := by
  simp only [State.cannotAct, State.isAllIn, liveSeat, folded, bne]
  cases (getI s.stacks p == 0) <;> cases ((s.lastActions[p]?).join == some ActType.fold) <;> rfl

theorem folded_set_ne_rh (la : List (Option ActType)) (a p : Nat) (x : Option ActType) (h : p ≠ a) :
    folded (la.set a x) p = folded la p := by
  unfold folded
  rw [List.getElem?_set_ne (Ne.symm h)]

theorem folded_set_self_rh (la : List (Option ActType)) (a : Nat) (t : ActType) (h : a < la.length) :
    folded (la.set a (some t)) a = (t == ActType.fold) := by
  unfold folded
  rw [List.getElem?_set_self h]
  cases t <;> rfl

theorem getI_modify_ne (l : List Int) (a p : Nat) (f : Int → Int) (h : p ≠ a) : getI (l.modify a f) p = getI l p := by
  rw [getI_modify]
  have : ¬ (a = p ∧ p < l.length) := fun h' => h h'.1.symm
  rw [if_neg this]

theorem getI_modify_self (l : List Int) (a : Nat) (f : Int → Int) (h : a < l.length) :
    getI (l.modify a f) a = f (getI l a) := by
  rw [getI_modify, if_pos ⟨rfl, h⟩]

/-- folds survive the clean-up of `lastActions` at a new street -/
theorem folded_map_clear (la : List (Option ActType)) (p : Nat) :
    folded (la.map fun a => if a == some ActType.fold then a else none) p = folded la p := by
  unfold folded
  rw [List.getElem?_map]
  rcases la[p]? with _ | _ | t
  · rfl
  · rfl
  · cases t <;> rfl

/-- clockwise distance from seat `a` to seat `p` at a table of `n` -/
def cdist (n a p : Nat) : Nat := if a ≤ p then p - a else p + n - a

theorem succ_mod (n a : Nat) (ha : a < n) : (a + 1) % n = if a + 1 = n then 0 else a + 1 := by
  split
  · rename_i h; rw [h, Nat.mod_self]
  · exact Nat.mod_eq_of_lt (by omega)

theorem cdist_succ (n a r : Nat) (ha : a < n) (hr : r < n) :
    cdist n ((a + 1) % n) r = if r = a then n - 1 else cdist n a r - 1 := by
  rw [succ_mod n a ha]
  unfold cdist
  split_ifs <;> omega

theorem cdist_pos (n a r : Nat) (ha : a < n) (_hr : r < n) (h : r ≠ a) : 1 ≤ cdist n a r := by
  unfold cdist
  split_ifs <;> omega

theorem cdist_lt (n a r : Nat) (ha : a < n) (hr : r < n) : cdist n a r < n := by
  unfold cdist
  split_ifs <;> omega

theorem cdist_self (n a : Nat) : cdist n a a = 0 := by simp [cdist]

/-- moving the origin forward by less than the distance to `r` shortens the distance to `r` by as much -/
theorem cdist_shift (n o o' r : Nat) (ho : o < n) (ho' : o' < n) (hr : r < n) (h : cdist n o o' ≤ cdist n o r) :
    cdist n o' r = cdist n o r - cdist n o o' := by
  have hr' := hr
  unfold cdist at *
  split_ifs at * <;> omega

/-- `move_action`'s search: the seat found can act, and every seat passed over cannot -/
theorem moveAction_go_skip (s : State) (fuel p0 q : Nat) (hp : p0 < s.n)
    (h : State.moveAction.go s fuel p0 = .ok q) :
    q < s.n ∧ s.cannotAct q = false ∧ ∀ r, r < s.n → cdist s.n p0 r < cdist s.n p0 q → s.cannotAct r = true := by
  induction fuel generalizing p0 with
  | zero => simp [State.moveAction.go] at h
  | succ fuel ih =>
    unfold State.moveAction.go at h
    split at h
    · rename_i hc
      have hsp : (p0 + 1) % s.n < s.n := Nat.mod_lt _ (by omega)
      obtain ⟨h1, h2, h3⟩ := ih _ hsp h
      refine ⟨h1, h2, ?_⟩
      intro r hr hd
      by_cases hrp : r = p0
      · rw [hrp]; exact hc
      · have hqp : q ≠ p0 := by intro hq; rw [hq, hc] at h2; cases h2
        apply h3 r hr
        rw [cdist_succ _ _ _ hp hr, cdist_succ _ _ _ hp h1, if_neg hrp, if_neg hqp]
        have := cdist_pos _ _ _ hp hr hrp
        omega
    · rename_i hc
      cases h
      refine ⟨hp, by simpa using hc, ?_⟩
      intro r _ hd
      rw [cdist_self] at hd
      omega

/-- `move_action`: the new seat to act is the first live seat clockwise after the old one -/
theorem moveAction_skip {s s' : State} (hn : 0 < s.n) (h : s.moveAction = .ok s') :
    ∃ a p, s.action = some a ∧ s' = { s with action := some p } ∧ p < s.n ∧
      liveSeat s.lastActions s.stacks p = true ∧
      ∀ r, r < s.n → cdist s.n ((a + 1) % s.n) r < cdist s.n ((a + 1) % s.n) p →
        liveSeat s.lastActions s.stacks r = false := by
  unfold State.moveAction at h
  split at h
  · cases h
  · rename_i a ha
    rw [bind_ok] at h
    obtain ⟨p, hp, h⟩ := h
    cases h
    obtain ⟨h1, h2, h3⟩ := moveAction_go_skip s _ _ p (Nat.mod_lt _ hn) hp
    refine ⟨a, p, ha, rfl, h1, ?_, ?_⟩
    · rw [cannotAct_eq] at h2; simpa using h2
    · intro r hr hd
      have := h3 r hr hd
      rw [cannotAct_eq] at this; simpa using this

/-- a closed round: every live seat has matched the highest contribution -/
theorem closed_true_matched (n : Nat) (la : List (Option ActType)) (pot stk : List Int)
    (h : isActionClosedFn n la pot stk = .ok true) :
    ∀ p, p < n → liveSeat la stk p = true → getI pot p = maxL pot := by
  unfold isActionClosedFn at h
  simp only [maxI, bind, Except.bind] at h
  cases hm : maxI? pot with
  | none => rw [hm] at h; cases h
  | some mx =>
    rw [hm] at h
    simp only at h
    have hM := matched_iff (getI pot)
      (fun p => (la[p]?).join != some ActType.fold && !(getI stk p == 0)) (List.range n) mx
    split at h
    · cases h
    · rename_i hlen
      have hall := Classical.not_not.1 (fun hne => hlen (hM.2 hne))
      intro p hp hl
      have : maxL pot = mx := by simp [maxL, hm]
      rw [this]
      rw [List.all_eq_true] at hall
      have := hall p (List.mem_filter.2 ⟨List.mem_range.2 hp, hl⟩)
      simpa using this

/-! ## §3 the invariant on raw data, and its preservation by one action followed by `move_action` -/

/-- the invariant, on the data it reads: table size, last actions, stacks, contributions, big blind, last raise,
seat to act -/
structure RI (n : Nat) (la : List (Option ActType)) (stk pot : List Int) (B L : Int) (a : Nat) : Prop where
  lr_nonneg : 0 ≤ L
  gap : (∃ q, q < n ∧ liveSeat la stk q = true ∧ getI pot q < maxL pot) → gapL pot ≤ max B L
  actor : folded la a = false
  pfx : ∀ p q, p < n → q < n → liveSeat la stk p = true → liveSeat la stk q = true → getI pot q < maxL pot →
    cdist n a p < cdist n a q → getI pot p < maxL pot

/-- when every live seat is matched the invariant only asks for `0 ≤ L` and a non-folded seat to act -/
theorem RI.of_matched {n : Nat} {la : List (Option ActType)} {stk pot : List Int} {B L : Int} {a : Nat}
    (hL : 0 ≤ L) (hact : folded la a = false)
    (hm : ∀ p, p < n → liveSeat la stk p = true → getI pot p = maxL pot) : RI n la stk pot B L a where
  lr_nonneg := hL
  gap := by rintro ⟨q, hq, hl, hlt⟩; have := hm q hq hl; omega
  actor := hact
  pfx := by intro p q _ hq _ hlq hlt _; have := hm q hq hlq; omega

theorem RI_step_move {n : Nat} {la : List (Option ActType)} {stk pot : List Int} {B L : Int} {a : Nat}
    (hla : la.length = n) (hstk : stk.length = n) (hpot : pot.length = n)
    (hnn : ∀ x ∈ stk, 0 ≤ x) (ha : a < n) (h : RI n la stk pot B L a) (t : ActType) (m : Int)
    (hm0 : 0 ≤ m) (hm1 : m ≤ getI stk a)
    (hna : t ≠ .bet → t ≠ .raise → getI pot a + m ≤ maxL pot)
    (hmt : t ≠ .fold → getI stk a - m ≠ 0 → maxL pot ≤ getI pot a + m)
    (a' : Nat) (ha' : a' < n) (hlive' : liveSeat (la.set a (some t)) (stk.modify a (· - m)) a' = true)
    (hskip : ∀ r, r < n → cdist n ((a + 1) % n) r < cdist n ((a + 1) % n) a' →
      liveSeat (la.set a (some t)) (stk.modify a (· - m)) r = false) :
    RI n (la.set a (some t)) (stk.modify a (· - m)) (pot.modify a (· + m)) B
      (if (t = .bet ∨ t = .raise) ∧ maxL pot < maxL (pot.modify a (· + m))
        then max L (maxL (pot.modify a (· + m)) - maxL pot) else L) a' := by
  have hpl : (pot.modify a (· + m)).length = n := by rw [List.length_modify, hpot]
  have hpne : pot ≠ [] := by intro h0; rw [h0] at hpot; simp at hpot; omega
  have hsa0 := getI_nonneg stk hnn a
  -- contributions after the action
  have c1a : getI (pot.modify a (· + m)) a = getI pot a + m := getI_modify_self _ _ _ (by omega)
  have c1 : ∀ p, p ≠ a → getI (pot.modify a (· + m)) p = getI pot p := fun p hp => getI_modify_ne _ _ _ _ hp
  have cle : ∀ p, p < n → getI pot p ≤ maxL pot := fun p hp => getI_le_maxL pot p (by omega)
  -- live seats after the action
  have l1 : ∀ p, p ≠ a → liveSeat (la.set a (some t)) (stk.modify a (· - m)) p = liveSeat la stk p := by
    intro p hp
    unfold liveSeat
    rw [folded_set_ne_rh _ _ _ _ hp, getI_modify_ne _ _ _ _ hp]
  have l1a : liveSeat (la.set a (some t)) (stk.modify a (· - m)) a = true → t ≠ .fold ∧ getI stk a - m ≠ 0 := by
    intro hl
    rw [liveSeat_iff, folded_set_self_rh _ _ _ (by omega), getI_modify_self _ _ _ (by omega)] at hl
    refine ⟨?_, hl.2⟩
    intro ht; rw [ht] at hl; simp at hl
  -- the seat that acted is live before the action as soon as it had chips
  have la_live : getI stk a ≠ 0 → liveSeat la stk a = true := fun hs => (liveSeat_iff _ _ _).2 ⟨h.actor, hs⟩
  -- order of live seats from the new seat to act vs. from the old one
  have hord : ∀ p q, p < n → q < n → liveSeat (la.set a (some t)) (stk.modify a (· - m)) p = true →
      liveSeat (la.set a (some t)) (stk.modify a (· - m)) q = true → q ≠ a → cdist n a' p < cdist n a' q →
      p ≠ a ∧ cdist n a p < cdist n a q := by
    intro p q hp hq hlp hlq hqa hd
    have hsn : (a + 1) % n < n := Nat.mod_lt _ (by omega)
    have hp' : cdist n ((a + 1) % n) a' ≤ cdist n ((a + 1) % n) p := by
      by_contra hc
      have := hskip p hp (by omega)
      rw [this] at hlp; cases hlp
    have hq' : cdist n ((a + 1) % n) a' ≤ cdist n ((a + 1) % n) q := by
      by_contra hc
      have := hskip q hq (by omega)
      rw [this] at hlq; cases hlq
    rw [cdist_shift n _ a' p hsn ha' hp hp', cdist_shift n _ a' q hsn ha' hq hq'] at hd
    rw [cdist_succ n a q ha hq, if_neg hqa] at hd hq'
    have hqlt := cdist_lt n a q ha hq
    by_cases hpa : p = a
    · rw [hpa, cdist_succ n a a ha ha, if_pos rfl] at hd
      omega
    · refine ⟨hpa, ?_⟩
      rw [cdist_succ n a p ha hp, if_neg hpa] at hd hp'
      have := cdist_pos n a p ha hp hpa
      have := cdist_pos n a q ha hq hqa
      omega
  have hactor' : folded (la.set a (some t)) a' = false := ((liveSeat_iff _ _ _).1 hlive').1
  by_cases hcase : getI pot a + m ≤ maxL pot
  · -- the highest contribution is unchanged
    have hM1 : maxL (pot.modify a (· + m)) = maxL pot := by
      obtain ⟨i0, hi0, hi0m⟩ := exists_getI_eq_maxL pot hpne
      apply maxL_eq_of _ _ i0 (by omega)
      · by_cases hia : i0 = a
        · rw [hia, c1a]; rw [hia] at hi0m; omega
        · rw [c1 i0 hia, hi0m]
      · intro j hj
        by_cases hja : j = a
        · rw [hja, c1a]; exact hcase
        · rw [c1 j hja]; exact cle j (by omega)
    have hL1 : (if (t = .bet ∨ t = .raise) ∧ maxL pot < maxL (pot.modify a (· + m))
        then max L (maxL (pot.modify a (· + m)) - maxL pot) else L) = L := by
      rw [hM1]; simp
    rw [hL1]
    -- a live seat that acted has matched
    have hamatched : liveSeat (la.set a (some t)) (stk.modify a (· - m)) a = true →
        ¬ getI (pot.modify a (· + m)) a < maxL pot := by
      intro hl
      obtain ⟨h1, h2⟩ := l1a hl
      have := hmt h1 h2
      rw [c1a]; omega
    refine ⟨h.lr_nonneg, ?_, hactor', ?_⟩
    · rintro ⟨q, hq, hlq, hltq⟩
      rw [hM1] at hltq
      have hqa : q ≠ a := by intro hqa; rw [hqa] at hlq hltq; exact hamatched hlq hltq
      rw [l1 q hqa] at hlq
      rw [c1 q hqa] at hltq
      have hg := h.gap ⟨q, hq, hlq, hltq⟩
      rw [gapL_le_iff pot (by omega)] at hg
      obtain ⟨i, j, hij, hj, hi1, hj1⟩ := hg
      rw [gapL_le_iff _ (by omega), hM1]
      refine ⟨i, j, hij, by omega, ?_, ?_⟩
      · by_cases hia : i = a
        · rw [hia, c1a]; rw [hia] at hi1; omega
        · rw [c1 i hia]; exact hi1
      · by_cases hja : j = a
        · rw [hja, c1a]; rw [hja] at hj1; omega
        · rw [c1 j hja]; exact hj1
    · intro p q hp hq hlp hlq hltq hd
      rw [hM1] at hltq ⊢
      have hqa : q ≠ a := by intro hqa; rw [hqa] at hlq hltq; exact hamatched hlq hltq
      obtain ⟨hpa, hd'⟩ := hord p q hp hq hlp hlq hqa hd
      rw [l1 q hqa] at hlq
      rw [l1 p hpa] at hlp
      rw [c1 q hqa] at hltq
      rw [c1 p hpa]
      exact h.pfx p q hp hq hlp hlq hltq hd'
  · -- a bet / raise that lifts the highest contribution
    have hcase' : maxL pot < getI pot a + m := by omega
    have hM1 : maxL (pot.modify a (· + m)) = getI pot a + m := by
      apply maxL_eq_of _ _ a (by omega) c1a
      intro j hj
      by_cases hja : j = a
      · rw [hja, c1a]
      · rw [c1 j hja]; have := cle j (by omega); omega
    have hbr : t = .bet ∨ t = .raise := by
      by_contra hbr
      exact hcase (hna (fun h1 => hbr (Or.inl h1)) (fun h2 => hbr (Or.inr h2)))
    have hL1 : (if (t = .bet ∨ t = .raise) ∧ maxL pot < maxL (pot.modify a (· + m))
        then max L (maxL (pot.modify a (· + m)) - maxL pot) else L) = max L (getI pot a + m - maxL pot) := by
      rw [hM1, if_pos ⟨hbr, hcase'⟩]
    rw [hL1]
    have hmpos : 0 < m := by have := cle a ha; omega
    have halive : liveSeat la stk a = true := la_live (by omega)
    refine ⟨by have := h.lr_nonneg; omega, ?_, hactor', ?_⟩
    · rintro ⟨q, hq, hlq, hltq⟩
      rw [hM1] at hltq
      have hqa : q ≠ a := by intro hqa; rw [hqa, c1a] at hltq; omega
      rw [l1 q hqa] at hlq
      rw [c1 q hqa] at hltq
      -- somebody else holds the old highest contribution
      have hother : ∃ j, j < n ∧ j ≠ a ∧ getI pot j = maxL pot := by
        obtain ⟨i0, hi0, hi0m⟩ := exists_getI_eq_maxL pot hpne
        by_cases hia : i0 = a
        · rw [hia] at hi0m
          by_cases hqm : getI pot q < maxL pot
          · exfalso
            have := h.pfx a q ha hq halive hlq hqm (by
              rw [cdist_self]; exact cdist_pos n a q ha hq hqa)
            omega
          · exact ⟨q, hq, hqa, by have := cle q hq; omega⟩
        · exact ⟨i0, by omega, hia, hi0m⟩
      obtain ⟨j, hj, hja, hjm⟩ := hother
      rw [gapL_le_iff _ (by omega), hM1]
      rcases Nat.lt_or_gt_of_ne hja with hlt | hgt
      · refine ⟨j, a, hlt, by omega, ?_, ?_⟩
        · rw [c1 j hja, hjm]; omega
        · rw [c1a]; have := h.lr_nonneg; omega
      · refine ⟨a, j, hgt, by omega, ?_, ?_⟩
        · rw [c1a]; have := h.lr_nonneg; omega
        · rw [c1 j hja, hjm]; omega
    · intro p q hp hq hlp hlq hltq hd
      rw [hM1] at hltq ⊢
      have hqa : q ≠ a := by intro hqa; rw [hqa, c1a] at hltq; omega
      obtain ⟨hpa, _⟩ := hord p q hp hq hlp hlq hqa hd
      rw [c1 p hpa]
      have := cle p hp
      omega

/-! ## §4 the invariant on ghost states; preservation by `act` -/

/-- the history invariant of reachable in-progress states -/
def RInv (g : GState) : Prop :=
  g.s.complete = false → ∀ a, g.s.action = some a →
    RI g.s.n g.s.lastActions g.s.stacks g.s.pot g.s.biggestBlind g.lastRaise a

theorem ghostStep_s (g : GState) (ty : Option ActType) (s' : State) : (ghostStep g ty s').s = s' := by
  unfold ghostStep
  split_ifs <;> rfl

theorem ghostStep_lr_nonneg (g : GState) (ty : Option ActType) (s' : State) (h : 0 ≤ g.lastRaise) :
    0 ≤ (ghostStep g ty s').lastRaise := by
  unfold ghostStep
  split_ifs
  · exact Int.le_refl _
  · show 0 ≤ max g.lastRaise _; omega
  · exact h

theorem ghostStep_same_street (g : GState) (t : ActType) (s' : State) (h : s'.street = g.s.street) :
    (ghostStep g (some t) s').lastRaise =
      if (t = .bet ∨ t = .raise) ∧ g.s.maxPot < s'.maxPot then max g.lastRaise (s'.maxPot - g.s.maxPot)
      else g.lastRaise := by
  unfold ghostStep
  have h1 : (s'.street != g.s.street) = false := by simp [h]
  rw [h1]
  simp only [Bool.false_eq_true, if_false]
  by_cases hc : (t = .bet ∨ t = .raise) ∧ g.s.maxPot < s'.maxPot
  · rw [if_pos hc, if_pos]
    rcases hc with ⟨h1 | h1, h2⟩ <;> simp [h1, h2]
  · rw [if_neg hc, if_neg]
    intro hb
    apply hc
    simp only [Bool.and_eq_true, Bool.or_eq_true, beq_iff_eq, Option.some.injEq, decide_eq_true_eq] at hb
    exact hb

/-- what an accepted action does, with the two facts about sizes the invariant needs: an action other than a bet /
raise does not pass the highest contribution, and a seat that keeps chips and does not fold reaches it -/
theorem append_facts {s s1 : State} (hwf : s.WF) {player : Int} {ty : Option ActType} {amount : Option Int}
    (h : s.appendAction World.std player ty amount = .ok s1) :
    s.complete = false ∧ ∃ a t m, s.action = some a ∧ ty = some t ∧ s1 = afterAction s a player t m ∧
      0 ≤ m ∧ m ≤ getI s.stacks a ∧
      (t ≠ .bet → t ≠ .raise → getI s.pot a + m ≤ s.maxPot) ∧
      (t ≠ .fold → getI s.stacks a - m ≠ 0 → s.maxPot ≤ getI s.pot a + m) := by
  obtain ⟨hc, a, t, hact, rfl, rfl, hB, hV, rfl⟩ := (appendAction_ok_iff hwf player ty amount s1).1 h
  refine ⟨hc, a, t, _, hact, rfl, rfl, ?_⟩
  have h0 : s.owed a = min (getI s.stacks a) (s.maxPot - getI s.pot a) := rfl
  have h1 := stack_nonneg hwf a
  have h2 := pot_le_maxPot hwf a (hwf.action_lt a hact)
  have h3 := hwf.bb_nonneg
  have h4 := hV.1
  by_cases hz : s.owed a = 0 <;> cases t <;> cases amount <;>
    simp [BuildOK, ValidOK, builtAmount, minBetV, hz] at hB hV h4 ⊢ <;> omega

/-- folds survive the street loop of `advance_action` -/
theorem streets_folded (fuel : Nat) {s s' : State} (h : State.advanceAction.streets fuel s = .ok s') :
    ∀ p, folded s'.lastActions p = folded s.lastActions p := by
  induction fuel generalizing s with
  | zero => simp [State.advanceAction.streets] at h
  | succ fuel ih =>
    unfold State.advanceAction.streets at h
    split at h
    · rw [bind_ok] at h
      obtain ⟨s1, h1, h⟩ := h
      rw [bind_ok] at h
      obtain ⟨c, _, h⟩ := h
      obtain ⟨_, _, _, _, f5⟩ := moveStreet_frame h1
      have hf : ∀ p, folded s1.lastActions p = folded s.lastActions p := by
        intro p; rw [f5, folded_map_clear]
      cases c with
      | true =>
        simp only [if_true] at h
        intro p; rw [ih h p, hf p]
      | false =>
        simp only [Bool.false_eq_true, if_false, Except.ok.injEq] at h
        subst h
        exact hf
    · cases h
      intro p; rfl

theorem act_RInv {env : Env} (hw : env.w = World.std) {cfg : Cfg} (hv : cfg.Valid) {g : GState} {s' : State}
    {player : Int} {ty : Option ActType} {amount : Option Int} (hi : Inv cfg g.s) (hr : RInv g)
    (hact : g.s.act env player ty amount = .ok s') : RInv (ghostStep g ty s') := by
  intro hc' a' ha'
  rw [ghostStep_s] at hc' ha' ⊢
  obtain ⟨s1, h1, h2⟩ := act_ok.1 hact
  rw [hw] at h1
  have hwf := hi.wf hv
  obtain ⟨hc, a, t, m, hsa, rfl, rfl, hm0, hm1, hna, hmt⟩ := append_facts hwf h1
  have hRI := hr hc a hsa
  have han : a < g.s.n := hwf.action_lt a hsa
  rw [advanceAction_eq, bind_ok] at h2
  obtain ⟨closed, hcl, h2⟩ := h2
  rw [bind_ok] at h2
  obtain ⟨s2, h3, h4⟩ := h2
  have hs2 : s2.street < showdownStreet ∧ s' = s2 := by
    rcases settleIfShowdown_ok h4 with h | ⟨_, pay, rake, _, rfl⟩
    · exact h
    · cases hc'
  obtain ⟨hst2, rfl⟩ := hs2
  cases closed with
  | false =>
    simp only [Bool.not_false, if_true] at h3
    obtain ⟨a0, p', ha0, rfl, hp', hlive', hskip⟩ :=
      moveAction_skip (s := afterAction g.s a player t m) (by show 0 < g.s.n; omega) h3
    have : a0 = a := by
      have : (afterAction g.s a player t m).action = g.s.action := rfl
      rw [this, hsa] at ha0; cases ha0; rfl
    subst this
    have hap : a' = p' := by cases ha'; rfl
    subst hap
    have hstreet : ({ afterAction g.s a0 player t m with action := some a' } : State).street = g.s.street := rfl
    rw [ghostStep_same_street g t _ hstreet]
    exact RI_step_move hwf.la_len hwf.stacks_len hwf.pot_len hwf.stacks_nonneg han hRI t m hm0 hm1 hna hmt
      a' hp' hlive' hskip
  | true =>
    simp only [Bool.not_true, Bool.false_eq_true, if_false] at h3
    have post := streets_post 6 h3
    have hfold := streets_folded 6 h3
    have hmatched := closed_true_matched _ _ _ _ hcl
    have hlive : ∀ p, liveSeat s'.lastActions s'.stacks p
        = liveSeat (afterAction g.s a player t m).lastActions (afterAction g.s a player t m).stacks p := by
      intro p; unfold liveSeat; rw [hfold p, post.money.stacks]
    have hn' : s'.n = g.s.n := post.cfg.n
    apply RI.of_matched (ghostStep_lr_nonneg g _ _ hRI.lr_nonneg)
    · rcases post.stop with h | ⟨_, b, hb, _, hcan⟩
      · omega
      · rw [hb] at ha'; cases ha'
        rw [cannotAct_eq] at hcan
        have : liveSeat s'.lastActions s'.stacks a' = true := by simpa using hcan
        exact ((liveSeat_iff _ _ _).1 this).1
    · intro p hp hl
      rw [hlive p] at hl
      rw [post.money.pot]
      exact hmatched p (by rw [hn'] at hp; exact hp) hl

theorem GReachable.reachable {env : Env} {cfg : Cfg} {g : GState} (h : GReachable env cfg g) :
    Reachable env cfg g.s := by
  induction h with
  | init h => exact Reachable.init h
  | step p ty amt _ hact ih => rw [ghostStep_s]; exact Reachable.step p ty amt ih hact

/-! ## §5 the constructor: contributions after antes and blinds, and the invariant at the start -/

/-- posting `min stack (W p)` for the seats `0 … k-1`, one after the other -/
theorem foldlM_range_put (W : State → Nat → Int) (hW : ∀ s1 s2, SameCfg s1 s2 → W s2 = W s1) (k : Nat) (s : State) :
    ∀ s', k ≤ s.stacks.length → k ≤ s.pot.length →
    (List.range k).foldlM (fun s p => s.putMoneyInPot p (min (getI s.stacks p) (W s p))) s = .ok s' →
    SameButChips s s' ∧ s'.stacks.length = s.stacks.length ∧ s'.pot.length = s.pot.length ∧
    ∀ p, getI s'.stacks p = (if p < k then getI s.stacks p - min (getI s.stacks p) (W s p) else getI s.stacks p) ∧
         getI s'.pot p = (if p < k then getI s.pot p + min (getI s.stacks p) (W s p) else getI s.pot p) := by
  induction k with
  | zero =>
    intro s' _ _ h
    simp only [List.range_zero, List.foldlM_nil, pure, Except.pure, Except.ok.injEq] at h
    subst h
    exact ⟨SameButChips.refl _, rfl, rfl, fun p => by simp⟩
  | succ k ih =>
    intro s' hk1 hk2 h
    rw [List.range_succ, List.foldlM_append, bind_ok] at h
    obtain ⟨sk, hsk, h⟩ := h
    rw [List.foldlM_cons, bind_ok] at h
    obtain ⟨b, hb, h⟩ := h
    simp only [List.foldlM_nil, pure, Except.pure, Except.ok.injEq] at h
    subst h
    obtain ⟨f, l1, l2, hp⟩ := ih sk (by omega) (by omega) hsk
    have fb := putMoneyInPot_sameButChips hb
    obtain ⟨_, _, rfl⟩ := putMoneyInPot_ok.1 hb
    have hWk : W sk = W s := hW s sk f.cfg
    refine ⟨f.trans fb, by simp only [List.length_modify]; exact l1, by simp only [List.length_modify]; exact l2, ?_⟩
    intro p
    obtain ⟨hp1, hp2⟩ := hp p
    obtain ⟨hk1', hk2'⟩ := hp k
    simp only [Nat.lt_irrefl, if_false] at hk1' hk2'
    by_cases hpk : p = k
    · subst hpk
      simp only [getI_modify_self _ _ _ (by omega : p < sk.stacks.length),
        getI_modify_self _ _ _ (by omega : p < sk.pot.length), hk1', hk2', hWk, Nat.lt_succ_self, if_true]
      exact ⟨trivial, trivial⟩
    · simp only [getI_modify_ne _ _ _ _ hpk, hp1, hp2]
      have : p < k + 1 ↔ p < k := by omega
      simp only [this]
      exact ⟨trivial, trivial⟩

theorem getI_map_const_zero {α : Type} (l : List α) (p : Nat) : getI (l.map fun _ => (0 : Int)) p = 0 := by
  unfold getI
  rw [List.getElem?_map]
  cases l[p]? <;> rfl

theorem folded_map_none {α : Type} (l : List α) (p : Nat) :
    folded (l.map fun _ => (none : Option ActType)) p = false := by
  unfold folded
  rw [List.getElem?_map]
  cases l[p]? <;> rfl

/-- the forced bets: nobody posts more than ante + blind, and a seat that keeps chips has posted exactly that -/
theorem construct_forced {cfg : Cfg} {s : State} (h : construct cfg = .ok s)
    (hbl : ∀ p, 0 ≤ getI s.blinds p) (hlen : s.blinds.length ≤ cfg.n) :
    ∀ p, p < cfg.n → getI s.pot p ≤ s.ante + getI s.blinds p ∧
      (getI s.stacks p ≠ 0 → getI s.pot p = s.ante + getI s.blinds p) := by
  obtain ⟨_, _, _, hl, blinds, s1, s2, a, _, _, e1, e2, _, rfl⟩ := construct_ok_iff.1 h
  have hlen1 : s1.blinds.length ≤ cfg.n := by
    have : s2.blinds = s1.blinds := (extractBlinds_frame e2).cfg.blinds
    rw [← this]; exact hlen
  unfold State.extractAntes at e1
  unfold State.extractBlinds at e2
  have hb0 : (baseState cfg blinds).stacks.length = cfg.n := hl
  have hb1 : (baseState cfg blinds).pot.length = cfg.n := by simp [baseState, hl]
  obtain ⟨f1, l1, l2, hp1⟩ := foldlM_range_put (fun s _ => s.ante) (fun _ _ f => by funext _; exact f.ante)
    (baseState cfg blinds).n (baseState cfg blinds) s1 (by rw [hb0]; exact Nat.le_refl _)
    (by rw [hb1]; exact Nat.le_refl _) e1
  obtain ⟨f2, _, _, hp2⟩ := foldlM_range_put (fun s p => getI s.blinds p)
    (fun _ _ f => by funext _; rw [f.blinds]) s1.blinds.length s1 s2
    (by rw [l1, hb0]; exact hlen1) (by rw [l2, hb1]; exact hlen1) e2
  intro p hp
  obtain ⟨a1, a2⟩ := hp1 p
  obtain ⟨b1, b2⟩ := hp2 p
  have hn : (baseState cfg blinds).n = cfg.n := rfl
  rw [hn, if_pos hp] at a1 a2
  have hpot0 : getI (baseState cfg blinds).pot p = 0 := getI_map_const_zero _ _
  have hante : s1.ante = (baseState cfg blinds).ante := f1.cfg.ante
  have hante2 : s2.ante = s1.ante := f2.cfg.ante
  have hbl2 : s2.blinds = s1.blinds := f2.cfg.blinds
  have hb := hbl p
  show getI s2.pot p ≤ s2.ante + getI s2.blinds p ∧ (getI s2.stacks p ≠ 0 → getI s2.pot p = s2.ante + getI s2.blinds p)
  rw [hbl2] at hb ⊢
  rw [hante2, hante, b1, b2, a1, a2, hpot0]
  by_cases hk : p < s1.blinds.length
  · simp only [hk, if_true]
    omega
  · simp only [hk, if_false]
    have := getI_of_ge s1.blinds p (by omega)
    omega

theorem getI_pair (x y : Int) : getI [x, y] 0 = x ∧ getI [x, y] 1 = y ∧ ∀ p, 2 ≤ p → getI [x, y] p = 0 := by
  refine ⟨rfl, rfl, ?_⟩
  intro p hp
  exact getI_of_ge _ _ (by simpa using hp)

/-- the blinds stored for a valid configuration: non-negative, two at most, and the first to act after the blinds
never faces a smaller forced bet behind a larger one -/
theorem cfgBlinds_facts {cfg : Cfg} (hv : cfg.Valid) {bl : List Int} (h : cfgBlinds cfg = .ok bl) :
    bl.length ≤ cfg.n ∧ (∀ p, 0 ≤ getI bl p) ∧ (∀ p, 2 ≤ p → getI bl p = 0) ∧
    (cfg.n = 2 → getI bl 1 ≤ getI bl 0) ∧ (3 ≤ cfg.n → getI bl 0 ≤ getI bl 1) := by
  have hb := hv.blinds_ok
  have ho := hv.blinds_ordered
  have hn := hv.n_ge
  have pair : ∀ x y : Int, 0 ≤ x → 0 ≤ y → (cfg.n = 2 → y ≤ x) → (3 ≤ cfg.n → x ≤ y) →
      [x, y].length ≤ cfg.n ∧ (∀ p, 0 ≤ getI [x, y] p) ∧ (∀ p, 2 ≤ p → getI [x, y] p = 0) ∧
      (cfg.n = 2 → getI [x, y] 1 ≤ getI [x, y] 0) ∧ (3 ≤ cfg.n → getI [x, y] 0 ≤ getI [x, y] 1) := by
    intro x y hx hy h2 h3
    obtain ⟨g0, g1, g2⟩ := getI_pair x y
    refine ⟨by simp; omega, ?_, g2, by rw [g0, g1]; exact h2, by rw [g0, g1]; exact h3⟩
    intro p
    rcases p with _ | _ | p
    · rw [g0]; exact hx
    · rw [g1]; exact hy
    · rw [g2 _ (by omega)]
  unfold cfgBlinds at h
  cases hbl : cfg.blinds with
  | none =>
    rw [hbl] at h
    by_cases h2 : cfg.n = 2
    · simp [h2, pure, Except.pure] at h
      subst h
      exact pair 2 1 (by omega) (by omega) (fun _ => by omega) (fun _ => by omega)
    · simp [h2, pure, Except.pure] at h
      subst h
      exact pair 1 2 (by omega) (by omega) (fun h => absurd h h2) (fun _ => by omega)
  | some l =>
    rw [hbl] at hb ho h
    rcases l with _ | ⟨a, _ | ⟨b, _ | ⟨c, l⟩⟩⟩
    · simp only at hb
      have h2 : cfg.n ≠ 2 := by omega
      simp [h2, pure, Except.pure] at h
      subst h
      refine ⟨by simp, fun p => ?_, fun p _ => ?_, fun h => absurd h h2, fun _ => ?_⟩
      all_goals simp [getI]
    · simp at hb
    · simp only at hb ho
      obtain ⟨ha, hb0, _⟩ := hb
      by_cases h2 : cfg.n = 2
      · by_cases hab : a < b
        · simp [h2, hab, pure, Except.pure] at h
          subst h
          exact pair b a hb0 ha (fun _ => by omega) (fun _ => by omega)
        · simp [h2, hab, pure, Except.pure] at h
          subst h
          exact pair a b ha hb0 (fun _ => by omega) (fun _ => by omega)
      · simp [h2, pure, Except.pure] at h
        subst h
        exact pair a b ha hb0 (fun h => absurd h h2) (fun _ => by omega)
    · simp at hb

theorem getI_le_biggestBlind (s : State) (h : 0 ≤ s.ante) (p : Nat) : getI s.blinds p ≤ s.biggestBlind := by
  unfold State.biggestBlind
  have := CardVerif.foldl_max_ge s.blinds s.ante
  by_cases hp : p < s.blinds.length
  · exact this.2 _ (getI_mem _ _ hp)
  · rw [getI_of_ge _ _ (by omega)]; omega

theorem ante_le_biggestBlind (s : State) : s.ante ≤ s.biggestBlind := by
  unfold State.biggestBlind
  exact (CardVerif.foldl_max_ge s.blinds s.ante).1

/-- the invariant holds after the forced bets, with the first seat after the blinds to act -/
theorem RI_init {n : Nat} {la : List (Option ActType)} {stk pot bl : List Int} {B A : Int}
    (hn : 2 ≤ n) (hpot : pot.length = n) (hla : ∀ p, folded la p = false)
    (hblB : ∀ p, getI bl p ≤ B) (hbl0 : ∀ p, 0 ≤ getI bl p) (hbl2 : ∀ p, 2 ≤ p → getI bl p = 0)
    (hb2 : n = 2 → getI bl 1 ≤ getI bl 0) (hb3 : 3 ≤ n → getI bl 0 ≤ getI bl 1)
    (hF1 : ∀ p, p < n → getI pot p ≤ A + getI bl p)
    (hF2 : ∀ p, p < n → getI stk p ≠ 0 → getI pot p = A + getI bl p) :
    RI n la stk pot B 0 (if n = 2 then 1 else 2) := by
  have hpne : pot ≠ [] := by intro h0; rw [h0] at hpot; simp at hpot; omega
  have cle : ∀ p, p < n → getI pot p ≤ maxL pot := fun p hp => getI_le_maxL pot p (by omega)
  refine ⟨Int.le_refl _, ?_, hla _, ?_⟩
  · rintro ⟨q, hq, hl, hlt⟩
    obtain ⟨i0, hi0, hi0m⟩ := exists_getI_eq_maxL pot hpne
    have hiq : i0 ≠ q := by intro h; rw [h] at hi0m; omega
    have hcq := hF2 q hq ((liveSeat_iff _ _ _).1 hl).2
    have hci := hF1 i0 (by omega)
    have := hblB i0
    have := hbl0 q
    rw [gapL_le_iff pot (by omega)]
    rcases Nat.lt_or_gt_of_ne hiq with hlt' | hgt
    · exact ⟨i0, q, hlt', by omega, by omega, by omega⟩
    · exact ⟨q, i0, hgt, by omega, by omega, by omega⟩
  · intro p q hp hq hlp hlq hlt hd
    by_contra hge
    have hcp := hF2 p hp ((liveSeat_iff _ _ _).1 hlp).2
    have hcq := hF2 q hq ((liveSeat_iff _ _ _).1 hlq).2
    have hblq := hbl0 q
    have hlt' : getI bl q < getI bl p := by omega
    by_cases h2 : n = 2
    · rw [if_pos h2] at hd
      have hb := hb2 h2
      unfold cdist at hd
      have hp' : p = 0 ∨ p = 1 := by omega
      have hq' : q = 0 ∨ q = 1 := by omega
      rcases hp' with rfl | rfl <;> rcases hq' with rfl | rfl <;> (simp at hd; try omega)
    · rw [if_neg h2] at hd
      have hb := hb3 (by omega)
      unfold cdist at hd
      by_cases hp2 : 2 ≤ p
      · have := hbl2 p hp2; omega
      · have hp' : p = 0 ∨ p = 1 := by omega
        by_cases hq2 : 2 ≤ q
        · rcases hp' with rfl | rfl <;> simp at hd <;> split_ifs at hd <;> omega
        · have hq' : q = 0 ∨ q = 1 := by omega
          rcases hp' with rfl | rfl <;> rcases hq' with rfl | rfl <;> simp at hd <;> omega

theorem construct_RInv {cfg : Cfg} (hv : cfg.Valid) {s : State} (h : construct cfg = .ok s) : RInv ⟨s, 0⟩ := by
  intro _ a ha
  have hi := construct_inv hv h
  have hwf := hi.wf hv
  obtain ⟨hn, _, _, _, hante, hbl, _, _, _, _, _, _, _, hla, _, _, _, hact, _, _⟩ := construct_frame h
  obtain ⟨b1, b2, b3, b4, b5⟩ := cfgBlinds_facts hv hbl
  have hA : 0 ≤ s.ante := by rw [hante]; exact hv.ante_nonneg
  have hforced := construct_forced h b2 b1
  have hau : a = if s.n = 2 then 1 else 2 := by
    change s.action = some a at ha
    rw [hact] at ha
    cases ha
    unfold State.utgPreflop
    by_cases h2 : s.n = 2 <;> simp [h2]
  show RI s.n s.lastActions s.stacks s.pot s.biggestBlind 0 a
  rw [hau]
  refine RI_init hwf.n_ge hwf.pot_len ?_ (getI_le_biggestBlind s hA) b2 b3
    (by rw [hn]; exact b4) (by rw [hn]; exact b5) (fun p hp => (hforced p (by rw [← hn]; exact hp)).1)
    (fun p hp => (hforced p (by rw [← hn]; exact hp)).2)
  intro p
  rw [hla]
  exact folded_map_none _ _

/-- **the history invariant holds in every reachable state** -/
theorem greachable_RInv {env : Env} (hw : env.w = World.std) {cfg : Cfg} (hv : cfg.Valid) {g : GState}
    (h : GReachable env cfg g) : RInv g := by
  induction h with
  | init h => exact construct_RInv hv h
  | step p ty amt hg hact ih => exact act_RInv hw hv (reachable_inv hw hv hg.reachable) ih hact

/-- **history invariant behind the min-raise comparison** -/
theorem gap_le_lastRaise_thm (env : Env) (cfg : Cfg) (hw : env.w = World.std) (hv : cfg.Valid) {g : GState}
    (h : GReachable env cfg g) (hc : g.s.complete = false) :
    g.s.implLr ≤ max g.s.biggestBlind g.lastRaise ∧ 0 ≤ g.lastRaise := by
  have hi := reachable_inv hw hv h.reachable
  have hwf := hi.wf hv
  have hr := greachable_RInv hw hv h
  have hsome := hwf.action_some hc
  obtain ⟨a, ha⟩ := Option.isSome_iff_exists.1 hsome
  have hRI := hr hc a ha
  refine ⟨?_, hRI.lr_nonneg⟩
  have hbb := hwf.bb_nonneg
  have hL := hRI.lr_nonneg
  unfold State.implLr
  rw [ha]
  simp only
  split
  · omega
  · rename_i ho
    have han := hwf.action_lt a ha
    have h1 := stack_nonneg hwf a
    have h2 := pot_le_maxPot hwf a han
    have h0 : g.s.owed a = min (getI g.s.stacks a) (g.s.maxPot - getI g.s.pot a) := rfl
    apply hRI.gap
    refine ⟨a, han, (liveSeat_iff _ _ _).2 ⟨hRI.actor, ?_⟩, ?_⟩
    · intro hz; apply ho; show min _ _ = 0; omega
    · show getI g.s.pot a < g.s.maxPot
      by_contra hge; apply ho; show min _ _ = 0; omega

/-! ## §6 monotonicity of the rule in the minimum increment -/

theorem State.SizeOK.mono {s : State} {a : Nat} {lr lr' x : Int}
    (h : max s.biggestBlind lr' ≤ max s.biggestBlind lr) (hs : s.SizeOK a lr x) : s.SizeOK a lr' x := by
  obtain ⟨h1, h2, h3, h4⟩ := hs
  refine ⟨h1, h2, h3, ?_⟩
  rcases h4 with h4 | ⟨h4, h5⟩
  · exact Or.inl h4
  · exact Or.inr ⟨h4, by omega⟩

/-- a smaller minimum increment accepts more -/
theorem State.LegalWith.mono {s : State} {lr lr' : Int} {player : Int} {ty : Option ActType} {amount : Option Int}
    (h : max s.biggestBlind lr' ≤ max s.biggestBlind lr) (hl : s.LegalWith lr player ty amount) :
    s.LegalWith lr' player ty amount := by
  obtain ⟨hc, a, ha, hp, hm⟩ := hl
  refine ⟨hc, a, ha, hp, ?_⟩
  rcases ty with _ | t
  · exact hm
  · cases t
    case bet =>
      obtain ⟨h1, x, hx, hs⟩ := hm
      exact ⟨h1, x, hx, State.SizeOK.mono h hs⟩
    case raise =>
      obtain ⟨h1, x, hx, hs⟩ := hm
      exact ⟨h1, x, hx, State.SizeOK.mono h hs⟩
    all_goals exact hm

/-! ## §7 concrete traces: the F5 witness, and why the blinds must be ordered -/

namespace F5W

def env : Env := ⟨World.std, id, fun _ _ => .ok []⟩

/-- NLHE, three seats with 1000 chips each, blinds 1 / 2, no ante -/
def cfg : Cfg :=
  { game := .nlhe, n := 3,
    deck := [⟨2, 0⟩, ⟨3, 0⟩, ⟨4, 0⟩, ⟨5, 0⟩, ⟨6, 0⟩],
    hands := [[⟨14, 0⟩, ⟨14, 1⟩], [⟨13, 0⟩, ⟨13, 1⟩], [⟨12, 0⟩, ⟨12, 1⟩]],
    startingStacks := [1000, 1000, 1000], board := [], ante := 0, blinds := some [1, 2], runouts := 1,
    rake := ⟨0, 0⟩, sampler := ⟨0, 0⟩ }

def st (pot stk : List Int) (la : List (Option ActType)) (a : Nat) (log : List LogEntry) : State :=
  { game := .nlhe, n := 3, hands := cfg.hands, startingStacks := [1000, 1000, 1000], ante := 0, blinds := [1, 2],
    runouts := 1, rake := ⟨0, 0⟩, sampler := ⟨0, 0⟩, deck := cfg.deck, board := [], «stacks» := stk, pot := pot,
    lastActions := la, street := 0, action := some a, log := log, payouts := none, rakePaid := none,
    complete := false }

/-- blinds posted; seat 2 to act -/
def w0 : State := st [1, 2, 0] [999, 998, 1000] [none, none, none] 2 []
/-- seat 2 raised 10 (highest wager 2 → 10: a raise of 8) -/
def w1 : State := st [1, 2, 10] [999, 998, 990] [none, none, some .raise] 0 [⟨2, .raise, 10⟩]
/-- seat 0 raised 29 (highest wager 10 → 30: a raise of 20) -/
def w2 : State := st [30, 2, 10] [970, 998, 990] [some .raise, none, some .raise] 1
  [⟨2, .raise, 10⟩, ⟨0, .raise, 29⟩]
/-- seat 1 called 28; seat 2 owes 20 and the two largest contributions are equal -/
def w3 : State := st [30, 30, 10] [970, 970, 990] [some .raise, some .call, some .raise] 2
  [⟨2, .raise, 10⟩, ⟨0, .raise, 29⟩, ⟨1, .call, 28⟩]

theorem valid : cfg.Valid where
  n_ge := by decide
  hands_len := rfl
  hole := by decide
  stacks_len := rfl
  stacks_nonneg := by decide
  ante_nonneg := by decide
  blinds_ok := by show (0 : Int) ≤ 1 ∧ (0 : Int) ≤ 2 ∧ ((0 : Int) < 1 ∨ (0 : Int) < 2 ∨ (0 : Int) < 0); decide
  blinds_ordered := by show 3 = 2 ∨ (1 : Int) ≤ 2; decide
  runouts_pos := by decide
  f_nonneg := by decide
  f_le_one := by decide
  cap_nonneg := by decide
  board_len := by decide
  cards := by decide

set_option maxRecDepth 4096 in
theorem h0 : construct cfg = .ok w0 := by rfl
set_option maxRecDepth 4096 in
theorem h1 : w0.act env 2 (some .raise) (some 10) = .ok w1 := by rfl
set_option maxRecDepth 4096 in
theorem h2 : w1.act env 0 (some .raise) (some 29) = .ok w2 := by rfl
set_option maxRecDepth 4096 in
theorem h3 : w2.act env 1 (some .call) none = .ok w3 := by rfl

theorem g1 : ghostStep ⟨w0, 0⟩ (some .raise) w1 = ⟨w1, 8⟩ := by rfl
theorem g2 : ghostStep ⟨w1, 8⟩ (some .raise) w2 = ⟨w2, 20⟩ := by rfl
theorem g3 : ghostStep ⟨w2, 20⟩ (some .call) w3 = ⟨w3, 20⟩ := by rfl

/-- the state is reachable, and the largest raise of the round is 20 -/
theorem reach : GReachable env cfg ⟨w3, 20⟩ := by
  have r0 : GReachable env cfg ⟨w0, 0⟩ := GReachable.init h0
  have r1 := GReachable.step (g := ⟨w0, 0⟩) 2 (some .raise) (some 10) r0 h1
  rw [g1] at r1
  have r2 := GReachable.step (g := ⟨w1, 8⟩) 0 (some .raise) (some 29) r1 h2
  rw [g2] at r2
  have r3 := GReachable.step (g := ⟨w2, 20⟩) 1 (some .call) none r2 h3
  rw [g3] at r3
  exact r3

/-- the engine accepts a re-raise of 22 = call 20 + 2 -/
theorem accepted : ∃ s1, w3.appendAction World.std 2 (some .raise) (some 22) = .ok s1 := ⟨_, rfl⟩

/-- the rule asks for a raise of at least 20 on top of the call -/
theorem not_legal : ¬ w3.Legal 20 2 (some .raise) (some 22) := by
  rintro ⟨_, a, ha, _, _, x, hx, _, _, _, hs⟩
  have ha2 : a = 2 := by
    have : w3.action = some 2 := rfl
    rw [this] at ha; cases ha; rfl
  subst ha2
  cases hx
  have e1 : getI w3.stacks 2 = 990 := by decide
  have e2 : w3.owed 2 = 20 := by decide
  have e3 : w3.biggestBlind = 2 := by decide
  rw [e1, e2, e3] at hs
  omega

end F5W

/-! ### Why `Cfg.Valid.blinds_ordered` exists
  Three seats, blinds `[5, 2]` (the larger one first): seat 2 folds, seat 0
– who already holds the highest contribution – bets 5.  Contributions `[10, 2, 0]`, the largest raise of the round
is 5 and so is the biggest blind, but the gap between the two largest contributions is 8: the engine would refuse
the legal raise of 13 = call 8 + 5. -/
namespace UnorderedBlinds

def cfg : Cfg :=
  { game := .nlhe, n := 3,
    deck := [⟨2, 0⟩, ⟨3, 0⟩, ⟨4, 0⟩, ⟨5, 0⟩, ⟨6, 0⟩],
    hands := [[⟨14, 0⟩, ⟨14, 1⟩], [⟨13, 0⟩, ⟨13, 1⟩], [⟨12, 0⟩, ⟨12, 1⟩]],
    startingStacks := [100, 100, 100], board := [], ante := 0, blinds := some [5, 2], runouts := 1,
    rake := ⟨0, 0⟩, sampler := ⟨0, 0⟩ }

def st (pot stk : List Int) (la : List (Option ActType)) (a : Nat) (log : List LogEntry) : State :=
  { game := .nlhe, n := 3, hands := cfg.hands, startingStacks := [100, 100, 100], ante := 0, blinds := [5, 2],
    runouts := 1, rake := ⟨0, 0⟩, sampler := ⟨0, 0⟩, deck := cfg.deck, board := [], «stacks» := stk, pot := pot,
    lastActions := la, street := 0, action := some a, log := log, payouts := none, rakePaid := none,
    complete := false }

def w0 : State := st [5, 2, 0] [95, 98, 100] [none, none, none] 2 []
def w1 : State := st [5, 2, 0] [95, 98, 100] [none, none, some .fold] 0 [⟨2, .fold, 0⟩]
def w2 : State := st [10, 2, 0] [90, 98, 100] [some .bet, none, some .fold] 1 [⟨2, .fold, 0⟩, ⟨0, .bet, 5⟩]

set_option maxRecDepth 4096 in
theorem h0 : construct cfg = .ok w0 := by rfl
set_option maxRecDepth 4096 in
theorem h1 : w0.act F5W.env 2 (some .fold) none = .ok w1 := by rfl
set_option maxRecDepth 4096 in
theorem h2 : w1.act F5W.env 0 (some .bet) (some 5) = .ok w2 := by rfl

theorem g1 : ghostStep ⟨w0, 0⟩ (some .fold) w1 = ⟨w1, 0⟩ := by rfl
theorem g2 : ghostStep ⟨w1, 0⟩ (some .bet) w2 = ⟨w2, 5⟩ := by rfl

theorem reach : GReachable F5W.env cfg ⟨w2, 5⟩ := by
  have r0 : GReachable F5W.env cfg ⟨w0, 0⟩ := GReachable.init h0
  have r1 := GReachable.step (g := ⟨w0, 0⟩) 2 (some .fold) none r0 h1
  rw [g1] at r1
  have r2 := GReachable.step (g := ⟨w1, 0⟩) 0 (some .bet) (some 5) r1 h2
  rw [g2] at r2
  exact r2

/-- with the larger blind first at a table of three, the engine's increment exceeds the rule's -/
theorem counterexample : ∃ (g : GState), GReachable F5W.env cfg g ∧ g.s.complete = false ∧
    ¬ g.s.implLr ≤ max g.s.biggestBlind g.lastRaise := by
  refine ⟨⟨w2, 5⟩, reach, rfl, ?_⟩
  have e1 : w2.implLr = 8 := by decide
  have e2 : w2.biggestBlind = 5 := by decide
  show ¬ w2.implLr ≤ max w2.biggestBlind 5
  rw [e1, e2]
  omega

end UnorderedBlinds

end CardVerif.Betting
