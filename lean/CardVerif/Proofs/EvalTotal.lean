import CardModel.Spec.RankTotalOn
import CardVerif.Props.C06
/-!
# The model's evaluators never fail on distinct valid cards (used by C13)

Consequences of C06 (`holdem_eq_spec`, `omaha_brute_eq_spec`): on a deal of distinct valid cards the Hold'em evaluator
(with or without its size checks) and the brute-force Omaha evaluator return the rules' strength, in particular they
return.  Kernel-checked only; the optimised Omaha evaluator is in `Props/C06b.lean` (`plo_no_internal_error`).
-/
namespace CardVerif.Betting
open CardVerif CardVerif.C06

/-- with the right sizes the size checks of `get_hand_strength_fast` (Hold'em) pass -/
theorem holdemStrength_eq_brute (board hand : List Card) (hb : board.length = 5) (hh : hand.length = 2) :
    Eval.holdemStrength board hand = Eval.holdemBrute board hand := by
  unfold Eval.holdemStrength
  rw [if_neg (by simp [hb]), if_neg (by simp [hh])]

/-- brute-force Hold'em = the rules, on a valid deal -/
theorem holdem_brute_eq_spec (board hand : List Card) (hd : DealOK board hand 2) :
    Eval.holdemBrute board hand = .ok (Strength.holdemSpec board hand) := by
  rw [← holdemStrength_eq_brute board hand hd.board_len hd.hand_len]
  exact holdem_eq_spec board hand hd

theorem rankTotalOn_holdemStrength : RankTotalOn .nlhe Eval.holdemStrength :=
  fun board hand hb hh hnd hval => ⟨_, holdem_eq_spec board hand ⟨hb, hh, hnd, hval⟩⟩

theorem rankTotalOn_holdemBrute : RankTotalOn .nlhe Eval.holdemBrute :=
  fun board hand hb hh hnd hval => ⟨_, holdem_brute_eq_spec board hand ⟨hb, hh, hnd, hval⟩⟩

theorem rankTotalOn_omahaBrute : RankTotalOn .plo Eval.omahaBrute :=
  fun board hand hb hh hnd hval => ⟨_, omaha_brute_eq_spec board hand ⟨hb, hh, hnd, hval⟩⟩

end CardVerif.Betting
