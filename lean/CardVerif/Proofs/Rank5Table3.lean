import CardVerif.Proofs.Rank5TableDefs
/-! # C05 — the finite table, lowest value 3 (kernel evaluation by `decide +kernel`) -/
namespace CardVerif.C05
set_option maxRecDepth 1000000

theorem table_3 : checkFrom 3 = true := by decide +kernel

end CardVerif.C05
