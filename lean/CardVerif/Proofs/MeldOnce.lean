import CardModel.Spec.GinMeldRules
import CardVerif.Proofs.MeldSearch
import Mathlib.Data.List.Sublists
import Mathlib.Data.List.Nodup
import Mathlib.Data.List.Pairwise
import Mathlib.Data.List.Perm.Subperm
/-!
# C08 (continued) — every arrangement is offered once; the gin stop changes nothing without a gin

On top of `CardVerif.Proofs.MeldSearch`:

* the combos loop without the gin stop is a `filter`/`map` over the enumerated combos
  (`mo_getCandidateMelds_false`), so the candidates correspond one-to-one, in order, to the no-meld arrangement
  followed by the enumerated sublists of `allMelds hand` (lengths 1..3) that pass the disjointness + limit test;
* the enumerated combos are pairwise distinct lists (`mo_combos_nodup`), and two sublists of the meld list that
  hold the same melds up to `Perm` are equal (`mo_combo_eq_of_same`) because `allMelds hand` lists every meld
  once up to `Perm` (`AllMeldsExact.once`);
* with the gin stop and no disjoint combo of zero deadwood the loop runs exactly as without it
  (`mo_candLoop_true_eq_false`).

Helper lemmas are prefixed `mo_` (namespace `CardVerif.Gin.MeldOnce`); the statements used by `Props/C08b.lean`
(`candidates_once_of`, `candidates_stop_no_gin_of`, `candidates_exact_of`) are in `CardVerif.Gin`.  "The same
arrangement" is spelled out here as `ms.length = ms'.length ∧ ∀ m ∈ ms, ∃ m' ∈ ms', m'.Perm m`
(`C08.SameArrangement` in the Props file).
-/
namespace CardVerif.Gin
namespace MeldOnce
open List MeldSearch

/-! ## generic list helpers -/

/-- among the sublists of a duplicate-free list, inclusion of elements is the sublist relation -/
theorem mo_sublist_of_subset {α : Type} {l : List α} (hl : l.Nodup) :
    ∀ {s t : List α}, s.Sublist l → t.Sublist l → s ⊆ t → s.Sublist t := by
  induction l with
  | nil =>
    intro s t hs _ _
    rw [List.sublist_nil.1 hs]
    exact List.nil_sublist _
  | cons x l ih =>
    obtain ⟨hx, hl'⟩ := List.nodup_cons.1 hl
    intro s t hs ht hst
    cases hs with
    | cons _ hs =>
      cases ht with
      | cons _ ht => exact ih hl' hs ht hst
      | cons_cons _ ht =>
        refine List.Sublist.cons _ (ih hl' hs ht ?_)
        intro a ha
        rcases List.mem_cons.1 (hst ha) with rfl | h
        · exact absurd (hs.subset ha) hx
        · exact h
    | cons_cons _ hs =>
      cases ht with
      | cons _ ht => exact absurd (ht.subset (hst List.mem_cons_self)) hx
      | cons_cons _ ht =>
        refine List.Sublist.cons_cons _ (ih hl' hs ht ?_)
        intro a ha
        rcases List.mem_cons.1 (hst (List.mem_cons_of_mem _ ha)) with rfl | h
        · exact absurd (hs.subset ha) hx
        · exact h

/-- `itertools.combinations` lists the sublists of the given length, in another order than `sublistsLen` -/
theorem mo_combinations_perm {α : Type} (k : Nat) (l : List α) :
    (combinations k l).Perm (List.sublistsLen k l) := by
  induction l generalizing k with
  | nil => cases k <;> simp [combinations]
  | cons x xs ih =>
    cases k with
    | zero => simp [combinations]
    | succ k =>
      rw [combinations, List.sublistsLen_succ_cons]
      exact (((ih k).map _).append (ih (k + 1))).trans List.perm_append_comm

/-- the combinations of a duplicate-free list are pairwise distinct -/
theorem mo_combinations_nodup {α : Type} (k : Nat) {l : List α} (h : l.Nodup) : (combinations k l).Nodup :=
  (mo_combinations_perm k l).nodup_iff.2 (List.nodup_sublistsLen k h)

/-! ## the meld list and the enumerated combos are duplicate-free -/

theorem mo_allMelds_nodup {hand : List Card} (hall : AllMeldsExact hand) : (allMelds hand).Nodup :=
  hall.once.imp fun {a b} (h : ¬ a.Perm b) (heq : a = b) => h (heq ▸ List.Perm.refl a)

theorem mo_combos_nodup {hand : List Card} (hall : AllMeldsExact hand) : (combos hand).Nodup := by
  unfold combos
  rw [List.nodup_flatMap]
  refine ⟨fun k _ => mo_combinations_nodup k (mo_allMelds_nodup hall), ?_⟩
  refine (List.nodup_range' (step := 1) (by omega)).imp ?_
  intro a b hab
  show List.Disjoint (combinations a (allMelds hand)) (combinations b (allMelds hand))
  intro s hsa hsb
  exact hab ((mem_combinations.1 hsa).2.symm.trans (mem_combinations.1 hsb).2)

/-- two listed melds that hold the same cards are the same list entry -/
theorem mo_eq_of_perm {hand : List Card} (hall : AllMeldsExact hand) {m m' : List Card}
    (hm : m ∈ allMelds hand) (hm' : m' ∈ allMelds hand) (hp : m'.Perm m) : m' = m := by
  have : Std.Symm (fun a b : List Card => ¬ a.Perm b) := ⟨fun _ _ h h' => h h'.symm⟩
  by_contra hne
  exact hall.once.forall hm' hm hne hp

/-- two sublists of the meld list whose (sorted) melds are the same arrangement are the same sublist -/
theorem mo_combo_eq_of_same {hand : List Card} (hall : AllMeldsExact hand) {s s' : List (List Card)}
    (hs : s.Sublist (allMelds hand)) (hs' : s'.Sublist (allMelds hand))
    (hlen : (s.map sortByRank).length = (s'.map sortByRank).length)
    (h : ∀ m ∈ s.map sortByRank, ∃ m' ∈ s'.map sortByRank, m'.Perm m) : s = s' := by
  have hsub : s ⊆ s' := by
    intro m hm
    obtain ⟨m1, hm1, hp⟩ := h (sortByRank m) (List.mem_map.2 ⟨m, hm, rfl⟩)
    obtain ⟨m0, hm0, rfl⟩ := List.mem_map.1 hm1
    have hp' : m0.Perm m := ((sortByRank_perm m0).symm.trans hp).trans (sortByRank_perm m)
    rw [← mo_eq_of_perm hall (hs.subset hm) (hs'.subset hm0) hp']
    exact hm0
  refine (mo_sublist_of_subset (mo_allMelds_nodup hall) hs hs' hsub).eq_of_length ?_
  simpa using hlen

/-! ## the combos loop in closed form -/

/-- the test a combo has to pass to be listed (no gin stop) -/
def mo_ok (hand : List Card) (maxDw : Option Nat) (ms : List (List Card)) : Bool :=
  disjointMelds ms && within maxDw (dwOf hand ms)

/-- without the gin stop the loop appends, in order, the candidates of the combos that pass the test -/
theorem mo_candLoop_false (hand : List Card) (maxDw : Option Nat) :
    ∀ (cmb : List (List (List Card))) (acc : List Candidate),
      candLoop hand maxDw false cmb acc = .inr (acc ++ (cmb.filter (mo_ok hand maxDw)).map (candOf hand)) := by
  intro cmb
  induction cmb with
  | nil => intro acc; simp [candLoop_nil]
  | cons ms rest ih =>
    intro acc
    rw [candLoop_cons]
    by_cases hd : disjointMelds ms = true
    · by_cases hw : within maxDw (dwOf hand ms) = true
      · simp [hd, hw, ih, mo_ok]
      · simp [hd, hw, ih, mo_ok]
    · simp [hd, ih, mo_ok]

/-- with the gin stop, as long as no disjoint combo has zero deadwood, the loop runs as without it -/
theorem mo_candLoop_true_eq_false (hand : List Card) (maxDw : Option Nat) :
    ∀ (cmb : List (List (List Card))) (acc : List Candidate),
      (∀ ms ∈ cmb, disjointMelds ms = true → dwOf hand ms ≠ 0) →
      candLoop hand maxDw true cmb acc = candLoop hand maxDw false cmb acc := by
  intro cmb
  induction cmb with
  | nil => intro acc _; rfl
  | cons ms rest ih =>
    intro acc h
    have hrest : ∀ ms' ∈ rest, disjointMelds ms' = true → dwOf hand ms' ≠ 0 :=
      fun ms' hm => h ms' (List.mem_cons_of_mem _ hm)
    rw [candLoop_cons, candLoop_cons]
    by_cases hd : disjointMelds ms = true
    · have hz : dwOf hand ms ≠ 0 := h ms List.mem_cons_self hd
      simp only [hd, hz, if_true, false_and, if_false, ih _ hrest]
    · simp only [hd, ih _ hrest]
      rfl

theorem mo_getCandidateMelds_false (hand : List Card) (maxDw : Option Nat) :
    getCandidateMelds hand maxDw false =
      c0 hand maxDw ++ ((combos hand).filter (mo_ok hand maxDw)).map (candOf hand) := by
  rw [getCandidateMelds_eq, mo_candLoop_false]

/-! ## "the same arrangement" is symmetric and transitive on arrangements -/

/-- for pairwise disjoint non-empty melds `ms`: if `ms'` has as many melds and holds every meld of `ms` up to the
order of its cards, then `ms` holds every meld of `ms'` too -/
theorem mo_same_symm {ms ms' : List (List Card)} (hne : ∀ m ∈ ms, m ≠ []) (hd : ms.flatten.Nodup)
    (hl : ms.length = ms'.length) (h : ∀ m ∈ ms, ∃ m' ∈ ms', m'.Perm m) :
    ms'.length = ms.length ∧ ∀ m' ∈ ms', ∃ m ∈ ms, m.Perm m' := by
  refine ⟨hl.symm, ?_⟩
  have hreps : ∃ reps : List (List Card), List.Forall₂ List.Perm reps ms ∧ ∀ r ∈ reps, r ∈ ms' := by
    clear hne hd hl
    induction ms with
    | nil => exact ⟨[], .nil, fun _ h => (by cases h)⟩
    | cons m ms ih =>
      obtain ⟨reps, hf, hr⟩ := ih (fun m' hm' => h m' (List.mem_cons_of_mem _ hm'))
      obtain ⟨r, hr', hp⟩ := h m List.mem_cons_self
      refine ⟨r :: reps, .cons hp hf, ?_⟩
      intro r' hr''
      rcases List.mem_cons.1 hr'' with rfl | hr''
      · exact hr'
      · exact hr r' hr''
  obtain ⟨reps, hf, hr⟩ := hreps
  have hnd : reps.Nodup := reps_nodup hf hne hd
  have hperm : reps.Perm ms' :=
    (hnd.subperm (fun r h => hr r h)).perm_of_length_le (by rw [hf.length_eq, hl])
  intro m' hm'
  obtain ⟨m, hm, hp⟩ := forall₂_mem_left hf (hperm.mem_iff.2 hm')
  exact ⟨m, hm, hp.symm⟩

theorem mo_same_trans {a b c : List (List Card)}
    (hab : a.length = b.length ∧ ∀ m ∈ a, ∃ m' ∈ b, m'.Perm m)
    (hbc : b.length = c.length ∧ ∀ m ∈ b, ∃ m' ∈ c, m'.Perm m) :
    a.length = c.length ∧ ∀ m ∈ a, ∃ m' ∈ c, m'.Perm m := by
  refine ⟨hab.1.trans hbc.1, ?_⟩
  intro m hm
  obtain ⟨m1, hm1, hp1⟩ := hab.2 m hm
  obtain ⟨m2, hm2, hp2⟩ := hbc.2 m1 hm1
  exact ⟨m2, hm2, hp2.trans hp1⟩

theorem mo_arrangement_ne_nil {hand : List Card} {ms : List (List Card)} (harr : Arrangement hand ms) :
    ∀ m ∈ ms, m ≠ [] := by
  intro m hm h0
  have := legalMeld_length (harr.legal m hm)
  rw [h0] at this
  simp at this

end MeldOnce

open MeldSearch MeldOnce

-- the statements keep `hok` / `hlen` even where a proof does not use them
set_option linter.unusedVariables false

/-- without the gin stop no two listed candidates are the same arrangement -/
theorem candidates_once_of (hand : List Card) (hok : HandOK hand) (hlen : hand.length ≤ 11)
    (hall : AllMeldsExact hand) (maxDw : Option Nat) :
    (getCandidateMelds hand maxDw false).Pairwise fun a b =>
      ¬ (a.melds.length = b.melds.length ∧ ∀ m ∈ a.melds, ∃ m' ∈ b.melds, m'.Perm m) := by
  rw [mo_getCandidateMelds_false, List.pairwise_append]
  refine ⟨?_, ?_, ?_⟩
  · unfold c0
    split <;> simp
  · rw [List.pairwise_map]
    refine (List.Pairwise.filter _ (mo_combos_nodup hall)).imp_of_mem ?_
    intro s s' hs hs' hne hsame
    obtain ⟨hsub, _, _⟩ := mem_combos.1 (List.mem_filter.1 hs).1
    obtain ⟨hsub', _, _⟩ := mem_combos.1 (List.mem_filter.1 hs').1
    exact hne (mo_combo_eq_of_same hall hsub hsub' hsame.1 hsame.2)
  · intro a ha b hb hsame
    obtain ⟨rfl, _⟩ := mem_c0 ha
    obtain ⟨s, hs, rfl⟩ := List.mem_map.1 hb
    obtain ⟨_, h1, _⟩ := mem_combos.1 (List.mem_filter.1 hs).1
    have := hsame.1
    simp only [candOf, List.length_nil, List.length_map] at this
    omega

/-- asking to stop at gin changes nothing when no arrangement of one to three melds has zero deadwood -/
theorem candidates_stop_no_gin_of (hand : List Card) (hok : HandOK hand) (hlen : hand.length ≤ 11)
    (hall : AllMeldsExact hand) (maxDw : Option Nat)
    (hno : ¬ ∃ ms, Arrangement hand ms ∧ ms.length ≤ 3 ∧ ms ≠ [] ∧ deadwood (restOf hand ms) = 0) :
    getCandidateMelds hand maxDw true = getCandidateMelds hand maxDw false := by
  rw [getCandidateMelds_eq, getCandidateMelds_eq, mo_candLoop_true_eq_false]
  intro s hs hd hz
  obtain ⟨harr, hl3, hrest⟩ := combo_sound hall hs hd
  refine hno ⟨s.map sortByRank, harr, hl3, ?_, ?_⟩
  · obtain ⟨_, h1, _⟩ := mem_combos.1 hs
    intro h0
    have := congrArg List.length h0
    simp only [List.length_map, List.length_nil] at this
    omega
  · rw [hrest, ← dwOf_eq]; exact hz

/-- without the gin stop every arrangement of at most three melds within the limit is listed at exactly one
position, with the rest of the hand as unmelded cards and its pip total as deadwood -/
theorem candidates_exact_of (hand : List Card) (hok : HandOK hand) (hlen : hand.length ≤ 11)
    (hall : AllMeldsExact hand) (maxDw : Option Nat)
    (ms : List (List Card)) (harr : Arrangement hand ms) (h3 : ms.length ≤ 3)
    (hd : ∀ d, maxDw = some d → deadwood (restOf hand ms) ≤ d) :
    ∃ l₁ c l₂, getCandidateMelds hand maxDw false = l₁ ++ c :: l₂ ∧
      (ms.length = c.melds.length ∧ ∀ m ∈ ms, ∃ m' ∈ c.melds, m'.Perm m) ∧
      c.unmelded.Perm (restOf hand ms) ∧ c.deadwood = deadwood (restOf hand ms) ∧
      ∀ c' ∈ l₁ ++ l₂, ¬ (ms.length = c'.melds.length ∧ ∀ m ∈ ms, ∃ m' ∈ c'.melds, m'.Perm m) := by
  obtain ⟨c, hc, hcl, hcm, hcd⟩ := candidates_complete_of hand hok hlen hall maxDw ms harr h3 hd
  obtain ⟨l₁, l₂, hsplit⟩ := List.append_of_mem hc
  have hsame : ms.length = c.melds.length ∧ ∀ m ∈ ms, ∃ m' ∈ c.melds, m'.Perm m := ⟨hcl.symm, hcm⟩
  have hback := mo_same_symm (mo_arrangement_ne_nil harr) harr.disjoint hsame.1 hsame.2
  obtain ⟨_, _, hun, _, _⟩ := candidates_sound_of hand hok hlen hall maxDw false c hc
  have honce := candidates_once_of hand hok hlen hall maxDw
  rw [hsplit, List.pairwise_append, List.pairwise_cons] at honce
  obtain ⟨_, ⟨hc2, _⟩, h1c⟩ := honce
  refine ⟨l₁, c, l₂, hsplit, hsame, ?_, hcd, ?_⟩
  · have hflat : ∀ x, x ∈ c.melds.flatten ↔ x ∈ ms.flatten := by
      intro x
      constructor
      · intro hx
        obtain ⟨m', hm', hxm⟩ := List.mem_flatten.1 hx
        obtain ⟨m, hm, hp⟩ := hback.2 m' hm'
        exact List.mem_flatten.2 ⟨m, hm, hp.mem_iff.2 hxm⟩
      · intro hx
        obtain ⟨m, hm, hxm⟩ := List.mem_flatten.1 hx
        obtain ⟨m', hm', hp⟩ := hsame.2 m hm
        exact List.mem_flatten.2 ⟨m', hm', hp.mem_iff.2 hxm⟩
    rw [← restOf_congr hand hflat]
    exact hun
  · intro c' hc' hsame'
    rcases List.mem_append.1 hc' with h | h
    · exact h1c c' h c List.mem_cons_self (mo_same_trans (mo_same_symm (mo_arrangement_ne_nil harr) harr.disjoint
        hsame'.1 hsame'.2) hsame)
    · exact hc2 c' h (mo_same_trans hback hsame')

end CardVerif.Gin
