import CardModel.Spec.BettingRules
/-!
# C03 — `is_action_closed` is the closure rule (`closed_iff_fn`)
-/
namespace CardVerif.Betting

/-! ## `List.foldl max` / `maxI?` -/

theorem foldl_max_ge (xs : List Int) (x : Int) :
    x ≤ xs.foldl max x ∧ ∀ y ∈ xs, y ≤ xs.foldl max x := by
  induction xs generalizing x with
  | nil => simp
  | cons y ys ih =>
    simp only [List.foldl_cons, List.mem_cons, forall_eq_or_imp]
    have h := ih (max x y)
    refine ⟨by omega, by omega, h.2⟩

theorem foldl_max_mem (xs : List Int) (x : Int) : xs.foldl max x = x ∨ xs.foldl max x ∈ xs := by
  induction xs generalizing x with
  | nil => simp
  | cons y ys ih =>
    simp only [List.foldl_cons, List.mem_cons]
    rcases ih (max x y) with h | h
    · rw [h]; omega
    · exact Or.inr (Or.inr h)

theorem maxI?_eq_some (l : List Int) (h : l ≠ []) :
    ∃ m, maxI? l = some m ∧ m ∈ l ∧ ∀ b ∈ l, b ≤ m := by
  cases l with
  | nil => exact absurd rfl h
  | cons x xs =>
    refine ⟨xs.foldl max x, rfl, ?_, ?_⟩
    · rcases foldl_max_mem xs x with h | h
      · rw [h]; simp
      · exact List.mem_cons_of_mem _ h
    · intro b hb
      rcases List.mem_cons.mp hb with rfl | hb
      · exact (foldl_max_ge xs b).1
      · exact (foldl_max_ge xs x).2 b hb

theorem getI_mem' (l : List Int) (i : Nat) (h : i < l.length) : getI l i ∈ l := by
  simp [getI, List.getElem?_eq_getElem h]

theorem mem_exists_getI (l : List Int) (m : Int) (h : m ∈ l) : ∃ q, q < l.length ∧ getI l q = m := by
  obtain ⟨q, hq, rfl⟩ := List.getElem_of_mem h
  exact ⟨q, hq, by simp [getI, List.getElem?_eq_getElem hq]⟩

/-! ## `dedup` -/

theorem mem_dedup {α : Type} [DecidableEq α] (l : List α) (x : α) : x ∈ dedup l ↔ x ∈ l := by
  induction l with
  | nil => simp [dedup]
  | cons y ys ih =>
    unfold dedup
    split
    · rename_i hy
      rw [ih, List.mem_cons]
      constructor
      · exact Or.inr
      · rintro (rfl | h)
        · exact hy
        · exact h
    · simp [ih]

theorem dedup_append_singleton_of_all {α : Type} [DecidableEq α] (l : List α) (m : α)
    (h : ∀ x ∈ l, x = m) : dedup (l ++ [m]) = [m] := by
  induction l with
  | nil => simp [dedup]
  | cons y ys ih =>
    have hy : y = m := h y (by simp)
    subst hy
    simp only [List.cons_append, dedup, List.mem_append, List.mem_singleton, or_true, if_true]
    exact ih (fun x hx => h x (List.mem_cons_of_mem _ hx))

theorem two_le_length_of_mem_ne {α : Type} (l : List α) (x y : α) (hx : x ∈ l) (hy : y ∈ l)
    (hne : x ≠ y) : 2 ≤ l.length := by
  match l, hx, hy with
  | [a], hx, hy =>
    simp only [List.mem_singleton] at hx hy
    exact absurd (hx.trans hy.symm) hne
  | _ :: _ :: _, _, _ => simp

/-- the balance set of `is_action_closed` has more than one element iff some listed balance is not the max -/
theorem dedup_length_gt_one_iff {α : Type} [DecidableEq α] (l : List α) (m : α) :
    (dedup (l ++ [m])).length > 1 ↔ ∃ x ∈ l, x ≠ m := by
  constructor
  · intro h
    apply Classical.byContradiction
    intro hn
    have : ∀ x ∈ l, x = m := fun x hx => Classical.byContradiction fun hne => hn ⟨x, hx, hne⟩
    rw [dedup_append_singleton_of_all l m this] at h
    simp at h
  · rintro ⟨x, hx, hne⟩
    exact two_le_length_of_mem_ne _ x m ((mem_dedup _ _).2 (by simp [hx])) ((mem_dedup _ _).2 (by simp)) hne

/-! ## seat classes -/

theorem count_facts (a : Nat → Option ActType) (z : Nat → Bool) (L : List Nat) :
    L.length = L.countP (fun p => a p == some .fold) + L.countP (fun p => a p == some .check)
      + L.countP (fun p => a p == none && z p) + L.countP (fun p => a p == none && !z p)
      + L.countP (fun p => a p != none && a p != some .fold && a p != some .check) ∧
    L.countP (fun p => !(a p == some .fold)) + L.countP (fun p => a p == some .fold) = L.length ∧
    L.countP (fun p => a p == none && !z p) ≤ L.countP (fun p => !(a p == some .fold) && !z p) ∧
    L.countP (fun p => !(a p == some .fold) && !z p) ≤
      L.countP (fun p => a p == none && !z p) + L.countP (fun p => a p == some .check)
      + L.countP (fun p => a p != none && a p != some .fold && a p != some .check) := by
  induction L with
  | nil => simp
  | cons x xs ih =>
    simp only [List.countP_cons, List.length_cons]
    rcases h : a x with _ | t <;> cases hz : z x
    · simp at ih ⊢; omega
    · simp at ih ⊢; omega
    · cases t <;> simp at ih ⊢ <;> omega
    · cases t <;> simp at ih ⊢ <;> omega


theorem all_acted_eq (a : Nat → Option ActType) (z : Nat → Bool) (L : List Nat) :
    ((L.filter fun p => !(a p == some .fold) && !z p).all fun p => a p != none)
      = decide (L.countP (fun p => a p == none && !z p) = 0) := by
  rw [Bool.eq_iff_iff]
  simp only [List.all_eq_true, List.mem_filter, decide_eq_true_eq, List.countP_eq_zero]
  constructor
  · intro h p hp hc
    have := h p ⟨hp, by cases hh : a p <;> simp_all⟩
    simp_all
  · rintro h p ⟨hp, hl⟩
    have := h p hp
    cases hh : a p <;> simp_all

theorem all_not_acted_eq (a : Nat → Option ActType) (L : List Nat) :
    ((L.filter fun p => !(a p == some .fold)).all fun p => !(a p != none))
      = decide (L.countP (fun p => a p == some .check)
        + L.countP (fun p => a p != none && a p != some .fold && a p != some .check) = 0) := by
  rw [Bool.eq_iff_iff]
  simp only [List.all_eq_true, List.mem_filter, decide_eq_true_eq, Nat.add_eq_zero_iff,
    List.countP_eq_zero]
  constructor
  · intro h
    constructor
    · intro p hp hc
      have h1 : a p = some .check := by simpa using hc
      have := h p ⟨hp, by simp [h1]⟩
      simp [h1] at this
    · intro p hp hc
      simp only [Bool.and_eq_true, bne_iff_ne, ne_eq] at hc
      have := h p ⟨hp, by simp [hc.1.2]⟩
      simp [hc.1.1] at this
  · rintro ⟨h1, h2⟩ p ⟨hp, hl⟩
    have := h1 p hp
    have := h2 p hp
    cases hh : a p <;> simp_all

theorem matched_iff (b : Nat → Int) (live : Nat → Bool) (L : List Nat) (m : Int) :
    (dedup ((L.filter live).map b ++ [m])).length > 1 ↔
      ¬ ((L.filter live).all (fun p => b p == m) = true) := by
  rw [dedup_length_gt_one_iff]
  simp only [List.mem_map, List.all_eq_true, beq_iff_eq]
  constructor
  · rintro ⟨x, ⟨p, hp, rfl⟩, hne⟩ h
    exact hne (h p hp)
  · intro h
    apply Classical.byContradiction
    intro hn
    exact h fun p hp => Classical.byContradiction fun hne => hn ⟨b p, ⟨p, hp, rfl⟩, hne⟩

theorem closed_iff_fn (n : Nat) (la : List (Option ActType)) (pot stacks : List Int) (hn : 2 ≤ n)
    (hla : la.length = n) (hp : pot.length = n) (hs : stacks.length = n)
    (hI1 : ∃ p, p < n ∧ folded la p = false ∧ ∀ q, q < n → getI pot q ≤ getI pot p) :
    isActionClosedFn n la pot stacks = .ok (closedSpec n la pot stacks) := by
  obtain ⟨m, hm, hmem, hmax⟩ := maxI?_eq_some pot (by intro h; rw [h] at hp; simp at hp; omega)
  obtain ⟨p0, hp0, hf0, hp0max⟩ := hI1
  have hp0m : getI pot p0 = m := by
    obtain ⟨q, hq, hqm⟩ := mem_exists_getI pot m hmem
    have h1 := hp0max q (hp ▸ hq)
    have h2 := hmax _ (getI_mem' pot p0 (hp ▸ hp0))
    omega
  obtain ⟨c1, c2, c3, c4⟩ :=
    count_facts (fun p => (la[p]?).join) (fun p => getI stacks p == 0) (List.range n)
  have hA := all_acted_eq (fun p => (la[p]?).join) (fun p => getI stacks p == 0) (List.range n)
  have hB := all_not_acted_eq (fun p => (la[p]?).join) (List.range n)
  have hM := matched_iff (getI pot)
    (fun p => !((la[p]?).join == some .fold) && !(getI stacks p == 0)) (List.range n) m
  have e1 : (fun p => liveSeat la stacks p)
      = fun p => !((la[p]?).join == some .fold) && !(getI stacks p == 0) := rfl
  have e2 : (fun p => !folded la p) = fun p => !((la[p]?).join == some .fold) := rfl
  have e3 : (fun p => (la[p]?).join != some ActType.fold && !(getI stacks p == 0))
      = fun p => !((la[p]?).join == some .fold) && !(getI stacks p == 0) := rfl
  have e4 : (fun p => acted la p) = fun p => (la[p]?).join != none := rfl
  simp only [isActionClosedFn, closedSpec, maxI, hm, bind, Except.bind, pure, Except.pure]
  simp only [e1, e2, e3, e4, ← List.countP_eq_length_filter] at *
  rw [hA, hB]
  have hlen : (List.range n).length = n := List.length_range
  have hnf0 : (!((la[p0]?).join == some ActType.fold)) = true := by
    show (!folded la p0) = true
    rw [hf0]; rfl
  by_cases hmt : ((List.range n).filter
      (fun p => !((la[p]?).join == some .fold) && !(getI stacks p == 0))).all
      (fun p => getI pot p == m) = true
  · rw [if_neg (fun h => (hM.1 h) hmt), hmt]
    have hnf : 1 ≤ List.countP (fun p => !((la[p]?).join == some ActType.fold)) (List.range n) := by
      rw [List.countP_eq_length_filter]
      exact List.length_pos_of_mem (List.mem_filter.2 ⟨List.mem_range.2 hp0, hnf0⟩)
    clear hM hmt hA hB e1 e2 e3 e4 hp0max hp0m hf0 hmax hmem hm
    repeat' split
    all_goals
      congr 1
      rw [Bool.eq_iff_iff]
      simp only [Bool.or_eq_true, Bool.and_eq_true, decide_eq_true_eq, beq_iff_eq, Bool.true_and, true_iff] at *
      omega
  · rw [if_pos (hM.2 hmt)]
    have hex : ∃ p, p ∈ (List.range n).filter
        (fun p => !((la[p]?).join == some .fold) && !(getI stacks p == 0)) ∧ getI pot p ≠ m := by
      apply Classical.byContradiction
      intro hn
      apply hmt
      rw [List.all_eq_true]
      intro p hp
      rw [beq_iff_eq]
      exact Classical.byContradiction fun hne => hn ⟨p, hp, hne⟩
    obtain ⟨p, hpl, hpm⟩ := hex
    rw [List.mem_filter, Bool.and_eq_true] at hpl
    have h2 : 2 ≤ List.countP (fun p => !((la[p]?).join == some ActType.fold)) (List.range n) := by
      rw [List.countP_eq_length_filter]
      apply two_le_length_of_mem_ne _ p0 p
      · exact List.mem_filter.2 ⟨List.mem_range.2 hp0, hnf0⟩
      · exact List.mem_filter.2 ⟨hpl.1, hpl.2.1⟩
      · intro h
        subst h
        exact hpm hp0m
    rw [Bool.not_eq_true] at hmt
    rw [hmt]
    congr 1
    symm
    simp only [Bool.false_and, Bool.or_false, decide_eq_false_iff_not]
    omega

end CardVerif.Betting
