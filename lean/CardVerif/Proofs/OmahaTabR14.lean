import CardModel.Spec.OmahaTables
/-! # C06 — suit-free Omaha table, module 14 of 15 (compiled evaluation, `native_decide`; 425 board multisets × 1,820 hand multisets)

`tabR_a_blo_bhi`: the table holds on the ascending boards whose lowest value is `a` and whose second value lies in `[blo, bhi]`. -/
namespace CardVerif.OmahaD

/-- 204 boards -/
theorem tabR_5_7_8 : tableRc 5 7 8 = true := by native_decide

/-- 165 boards -/
theorem tabR_6_6_6 : tableRc 6 6 6 = true := by native_decide

/-- 56 boards -/
theorem tabR_2_9_9 : tableRc 2 9 9 = true := by native_decide

end CardVerif.OmahaD
