import CardVerif.Proofs.Replay
/-!
# The engine never reads the action log (C15b)

`State.log` is write-only: `append_action` appends the accepted entry and nothing else looks at the field.  This file
proves it function by function along the call graph of `State.act`:

* §1 `lf_setLog l s` (overwrite the log) and congruence lemmas for `>>=` / `if`;
* §2 everything that returns a non-`State` value from a `State` is unchanged by `lf_setLog` (all by `rfl`: the
  definitions never project `.log`);
* §3 every `State`-valued step except `append_action` commutes with `lf_setLog l`;
* §4 `append_action` and `act` on two states that differ only in the log give results that differ only in the log
  (`lf_act`), and the same for a fold of `act` (`lf_run`);
* §5 the constructor copies the snapshot's log and does nothing else with it (`lf_construct_log`).
-/
namespace CardVerif.Betting
open CardVerif

/-! ## §1 overwriting the log -/

/-- overwrite the log -/
def lf_setLog (l : List LogEntry) (s : State) : State := { s with log := l }

theorem lf_setLog_setLog (l l' : List LogEntry) (s : State) : lf_setLog l (lf_setLog l' s) = lf_setLog l s := rfl

theorem lf_setLog_self (s : State) : lf_setLog s.log s = s := rfl

/-- two states that agree once their logs are erased: the first is the second with the first's log -/
theorem lf_eq_setLog {a b : State} (h : lf_setLog [] a = lf_setLog [] b) : a = lf_setLog a.log b := by
  have h1 : a = lf_setLog a.log (lf_setLog [] a) := rfl
  rw [h] at h1
  exact h1

theorem lf_map_map (l l' : List LogEntry) (x : Except Err State) :
    (x.map (lf_setLog l')).map (lf_setLog l) = x.map (lf_setLog l) := by
  cases x <;> rfl

/-- `x >>= f` against `y >>= f'` when the scrutinees agree and the continuations commute with `g` -/
theorem lf_bind_comm {α : Type} {g : State → State} {x y : Except Err α} {f f' : α → Except Err State}
    (hx : x = y) (h : ∀ a, f a = (f' a).map g) : (x >>= f) = (y >>= f').map g := by
  subst hx
  cases x with
  | error e => rfl
  | ok a => exact h a

/-- a step that commutes with `g`, after a `State`-valued computation that commutes with `g` -/
theorem lf_bind_comm' {g : State → State} {x y : Except Err State} {f : State → Except Err State}
    (hx : x = y.map g) (h : ∀ a, f (g a) = (f a).map g) : (x >>= f) = (y >>= f).map g := by
  subst hx
  cases y with
  | error e => rfl
  | ok a => exact h a

theorem lf_ite_comm {g : State → State} {c c' : Prop} [Decidable c] [Decidable c'] {A B A' B' : Except Err State}
    (hc : c ↔ c') (hA : A = A'.map g) (hB : B = B'.map g) :
    (if c then A else B) = (if c' then A' else B').map g := by
  by_cases h : c
  · rw [if_pos h, if_pos (hc.1 h)]; exact hA
  · rw [if_neg h, if_neg (fun h' => h (hc.2 h'))]; exact hB

/-! ## §2 read-only functions: the log is not among the fields they read -/

theorem lf_isActionClosed (l : List LogEntry) (s : State) : (lf_setLog l s).isActionClosed = s.isActionClosed := rfl

theorem lf_isAllIn (l : List LogEntry) (s : State) (p : Nat) : (lf_setLog l s).isAllIn p = s.isAllIn p := rfl

theorem lf_cannotAct (l : List LogEntry) (s : State) (p : Nat) : (lf_setLog l s).cannotAct p = s.cannotAct p := rfl

theorem lf_getStartingAction (l : List LogEntry) (s : State) :
    (lf_setLog l s).getStartingAction = s.getStartingAction := rfl

theorem lf_amountToCall (l : List LogEntry) (s : State) : (lf_setLog l s).amountToCall = s.amountToCall := rfl

theorem lf_minBet (l : List LogEntry) (s : State) : (lf_setLog l s).minBet = s.minBet := rfl

theorem lf_potSizedBet (l : List LogEntry) (s : State) : (lf_setLog l s).potSizedBet = s.potSizedBet := rfl

theorem lf_maxBet (l : List LogEntry) (s : State) : (lf_setLog l s).maxBet = s.maxBet := rfl

theorem lf_isActingLastPreflop (l : List LogEntry) (s : State) :
    (lf_setLog l s).isActingLastPreflop = s.isActingLastPreflop := rfl

theorem lf_validActions (w : World) (l : List LogEntry) (s : State) :
    (lf_setLog l s).validActions w = s.validActions w := rfl

theorem lf_buildAction (w : World) (l : List LogEntry) (s : State) (p : Int) (ty : Option ActType)
    (amt : Option Int) : (lf_setLog l s).buildAction w p ty amt = s.buildAction w p ty amt := rfl

theorem lf_validateAction (w : World) (l : List LogEntry) (s : State) (a : LogEntry) :
    (lf_setLog l s).validateAction w a = s.validateAction w a := rfl

theorem lf_shouldRakePot (l : List LogEntry) (s : State) : (lf_setLog l s).shouldRakePot = s.shouldRakePot := rfl

theorem lf_orderHands (rankFn : RankFn) (l : List LogEntry) (s : State) (players : List Nat) :
    (lf_setLog l s).orderHands rankFn players = s.orderHands rankFn players := rfl

theorem lf_getPayoutsAndRake (env : Env) (l : List LogEntry) (s : State) :
    (lf_setLog l s).getPayoutsAndRake env = s.getPayoutsAndRake env := rfl

theorem lf_pnl (l : List LogEntry) (s : State) (p : Nat) : (lf_setLog l s).pnl p = s.pnl p := rfl

/-! ## §3 the steps that do not write the log commute with overwriting it -/

theorem lf_putMoneyInPot (l : List LogEntry) (s : State) (p : Nat) (m : Int) :
    (lf_setLog l s).putMoneyInPot p m = (s.putMoneyInPot p m).map (lf_setLog l) := by
  unfold State.putMoneyInPot
  refine lf_ite_comm (g := lf_setLog l) Iff.rfl rfl ?_
  exact lf_ite_comm (g := lf_setLog l) Iff.rfl rfl rfl

theorem lf_updateStateWithAction (w : World) (l : List LogEntry) (s : State) (a : LogEntry) :
    (lf_setLog l s).updateStateWithAction w a = (s.updateStateWithAction w a).map (lf_setLog l) := by
  unfold State.updateStateWithAction
  by_cases h : w.wagers.contains a.act = true
  · simp only [h, if_true]
    exact lf_bind_comm' (lf_putMoneyInPot l s _ _) (fun _ => rfl)
  · simp only [h]
    rfl

theorem lf_moveAction_go (l : List LogEntry) (s : State) (fuel p : Nat) :
    State.moveAction.go (lf_setLog l s) fuel p = State.moveAction.go s fuel p := by
  induction fuel generalizing p with
  | zero => rfl
  | succ fuel ih =>
    unfold State.moveAction.go
    rw [ih]
    rfl

theorem lf_moveAction (l : List LogEntry) (s : State) :
    (lf_setLog l s).moveAction = s.moveAction.map (lf_setLog l) := by
  unfold State.moveAction
  show (match s.action with | none => _ | some a => _) = _
  cases s.action with
  | none => rfl
  | some a =>
    show (State.moveAction.go (lf_setLog l s) (s.n + 1) ((a + 1) % s.n) >>= _) =
      Except.map _ (State.moveAction.go s (s.n + 1) ((a + 1) % s.n) >>= _)
    exact lf_bind_comm (lf_moveAction_go l s _ _) (fun _ => rfl)

theorem lf_dealCardsToBoard (l : List LogEntry) (s : State) (k : Nat) :
    (lf_setLog l s).dealCardsToBoard k = lf_setLog l (s.dealCardsToBoard k) := rfl

/-- the dealing tail of `move_street` -/
def lf_deal (s : State) : Except Err State :=
  if s.street == 1 && (s.board.take 3).isEmpty then .ok (s.dealCardsToBoard 3)
  else if s.street == 2 && ((s.board.drop 3).take 1).isEmpty then .ok (s.dealCardsToBoard 1)
  else if s.street == 3 && ((s.board.drop 4).take 1).isEmpty then .ok (s.dealCardsToBoard 1)
  else .ok s

/-- the open-round branch of `move_street` -/
def lf_open (s : State) : Except Err State :=
  match s.getStartingAction with
  | .ok a => lf_deal { s with action := some a }
  | .error _ => .error .internal

/-- `move_street` without the `do` sugar -/
theorem lf_moveStreet_eq (s : State) :
    s.moveStreet = s.nextStreet.isActionClosed >>= fun c =>
      if c then .ok { s.nextStreet with action := none } else lf_open s.nextStreet := by
  unfold State.moveStreet
  show (s.nextStreet.isActionClosed >>= _) = _
  cases s.nextStreet.isActionClosed with
  | error e => rfl
  | ok c =>
    cases c with
    | true => rfl
    | false =>
      show (match s.nextStreet.getStartingAction with | .ok a => _ | .error _ => _) = lf_open s.nextStreet
      unfold lf_open
      cases s.nextStreet.getStartingAction with
      | error e => rfl
      | ok a => rfl

theorem lf_deal_comm (l : List LogEntry) (s : State) : lf_deal (lf_setLog l s) = (lf_deal s).map (lf_setLog l) := by
  unfold lf_deal
  refine lf_ite_comm Iff.rfl rfl ?_
  refine lf_ite_comm Iff.rfl rfl ?_
  exact lf_ite_comm Iff.rfl rfl rfl

theorem lf_open_comm (l : List LogEntry) (s : State) : lf_open (lf_setLog l s) = (lf_open s).map (lf_setLog l) := by
  unfold lf_open
  show (match s.getStartingAction with | .ok a => _ | .error _ => _) = _
  cases s.getStartingAction with
  | error e => rfl
  | ok a => exact lf_deal_comm l { s with action := some a }

theorem lf_moveStreet (l : List LogEntry) (s : State) :
    (lf_setLog l s).moveStreet = s.moveStreet.map (lf_setLog l) := by
  rw [lf_moveStreet_eq, lf_moveStreet_eq]
  refine lf_bind_comm rfl (fun c => ?_)
  refine lf_ite_comm Iff.rfl rfl ?_
  exact lf_open_comm l s.nextStreet

theorem lf_streets (l : List LogEntry) (fuel : Nat) (s : State) :
    State.advanceAction.streets fuel (lf_setLog l s) = (State.advanceAction.streets fuel s).map (lf_setLog l) := by
  induction fuel generalizing s with
  | zero => rfl
  | succ fuel ih =>
    unfold State.advanceAction.streets
    refine lf_ite_comm Iff.rfl ?_ rfl
    refine lf_bind_comm' (lf_moveStreet l s) (fun s1 => ?_)
    refine lf_bind_comm rfl (fun c => ?_)
    exact lf_ite_comm Iff.rfl (ih s1) rfl

theorem lf_settleIfShowdown (env : Env) (l : List LogEntry) (s : State) :
    (lf_setLog l s).settleIfShowdown env = (s.settleIfShowdown env).map (lf_setLog l) := by
  unfold State.settleIfShowdown
  refine lf_ite_comm Iff.rfl ?_ rfl
  exact lf_bind_comm rfl (fun x => rfl)

/-- **`advance_action` commutes with overwriting the log** -/
theorem lf_advanceAction (env : Env) (l : List LogEntry) (s : State) :
    (lf_setLog l s).advanceAction env = (s.advanceAction env).map (lf_setLog l) := by
  rw [advanceAction_eq, advanceAction_eq]
  refine lf_bind_comm rfl (fun c => ?_)
  refine lf_bind_comm' ?_ (lf_settleIfShowdown env l)
  cases c with
  | false => exact lf_moveAction l s
  | true => exact lf_streets l 6 s

theorem lf_extractAntes (l : List LogEntry) (s : State) :
    (lf_setLog l s).extractAntes = s.extractAntes.map (lf_setLog l) :=
  foldlM_map_comm (lf_setLog l) (fun s p => s.putMoneyInPot p (min (getI s.stacks p) s.ante))
    (fun s p => lf_putMoneyInPot l s p _) (List.range s.n) s

theorem lf_extractBlinds (l : List LogEntry) (s : State) :
    (lf_setLog l s).extractBlinds = s.extractBlinds.map (lf_setLog l) :=
  foldlM_map_comm (lf_setLog l) (fun s p => s.putMoneyInPot p (min (getI s.stacks p) (getI s.blinds p)))
    (fun s p => lf_putMoneyInPot l s p _) (List.range s.blinds.length) s

/-! ## §4 `append_action`, `act`, and runs of `act`, up to the log -/

/-- `append_action` without the `do` sugar: the only place where the log is touched, and it is only written -/
theorem lf_appendAction_eq (w : World) (s : State) (p : Int) (ty : Option ActType) (amt : Option Int) :
    s.appendAction w p ty amt =
      if s.complete then .error .handComplete else
      s.buildAction w p ty amt >>= fun a => s.validateAction w a >>= fun _ =>
      (lf_setLog (s.log ++ [a]) s).updateStateWithAction w a := rfl

/-- `append_action` with the log erased afterwards does not depend on the log before -/
theorem lf_appendAction_erased (w : World) (s : State) (p : Int) (ty : Option ActType) (amt : Option Int) :
    (s.appendAction w p ty amt).map (lf_setLog []) =
      if s.complete then .error .handComplete else
      s.buildAction w p ty amt >>= fun a => s.validateAction w a >>= fun _ =>
      (s.updateStateWithAction w a).map (lf_setLog []) := by
  rw [lf_appendAction_eq]
  by_cases hc : s.complete = true
  · rw [if_pos hc, if_pos hc]; rfl
  · rw [if_neg hc, if_neg hc]
    cases s.buildAction w p ty amt with
    | error e => rfl
    | ok a =>
      show Except.map _ (s.validateAction w a >>= _) = (s.validateAction w a >>= _)
      cases s.validateAction w a with
      | error e => rfl
      | ok u =>
        show Except.map _ ((lf_setLog (s.log ++ [a]) s).updateStateWithAction w a) = _
        rw [lf_updateStateWithAction, lf_map_map]
        rfl

theorem lf_appendAction (w : World) (l : List LogEntry) (s : State) (p : Int) (ty : Option ActType)
    (amt : Option Int) :
    ((lf_setLog l s).appendAction w p ty amt).map (lf_setLog []) =
      (s.appendAction w p ty amt).map (lf_setLog []) := by
  rw [lf_appendAction_erased, lf_appendAction_erased]
  show (if s.complete = true then _ else s.buildAction w p ty amt >>= fun a => s.validateAction w a >>= fun _ =>
      ((lf_setLog l s).updateStateWithAction w a).map (lf_setLog [])) = _
  simp only [lf_updateStateWithAction, lf_map_map]

/-- a log-commuting step after two computations that agree up to the log -/
theorem lf_bind_erased {x y : Except Err State} {f : State → Except Err State}
    (hxy : x.map (lf_setLog []) = y.map (lf_setLog []))
    (hf : ∀ l a, f (lf_setLog l a) = (f a).map (lf_setLog l)) :
    (x >>= f).map (lf_setLog []) = (y >>= f).map (lf_setLog []) := by
  cases x with
  | error e =>
    cases y with
    | error e' => exact hxy
    | ok b => cases hxy
  | ok a =>
    cases y with
    | error e' => cases hxy
    | ok b =>
      have hab : lf_setLog [] a = lf_setLog [] b := Except.ok.inj hxy
      show (f a).map (lf_setLog []) = (f b).map (lf_setLog [])
      rw [lf_eq_setLog hab, hf, lf_map_map]

/-- **`act` never reads the log**: on two states that differ only in the log, the results differ only in the log
(same error, or both accepted) -/
theorem lf_act (env : Env) {a b : State} (h : lf_setLog [] a = lf_setLog [] b) (p : Int) (ty : Option ActType)
    (amt : Option Int) :
    (a.act env p ty amt).map (lf_setLog []) = (b.act env p ty amt).map (lf_setLog []) := by
  unfold State.act
  refine lf_bind_erased ?_ (lf_advanceAction env)
  rw [lf_eq_setLog h, lf_appendAction]

/-- results that agree up to the log: both the same error, or both ok with states that agree up to the log -/
theorem lf_erased_cases {x y : Except Err State} (h : x.map (lf_setLog []) = y.map (lf_setLog [])) :
    (∃ e, x = .error e ∧ y = .error e) ∨ (∃ a b, x = .ok a ∧ y = .ok b ∧ lf_setLog [] a = lf_setLog [] b) := by
  cases x with
  | error e =>
    cases y with
    | error e' => cases h; exact Or.inl ⟨e, rfl, rfl⟩
    | ok b => cases h
  | ok a =>
    cases y with
    | error e' => cases h
    | ok b => exact Or.inr ⟨a, b, rfl, rfl, Except.ok.inj h⟩

/-- the same for a run of operations -/
theorem lf_run (env : Env) (ops : List Op) :
    ∀ {a b : State}, lf_setLog [] a = lf_setLog [] b →
      (ops.foldlM (fun (st : State) o => st.act env o.player o.ty o.amount) a).map (lf_setLog []) =
      (ops.foldlM (fun (st : State) o => st.act env o.player o.ty o.amount) b).map (lf_setLog []) := by
  induction ops with
  | nil => intro a b h; exact congrArg Except.ok h
  | cons o ops ih =>
    intro a b h
    rw [List.foldlM_cons, List.foldlM_cons]
    rcases lf_erased_cases (lf_act env h o.player o.ty o.amount) with ⟨e, h1, h2⟩ | ⟨a', b', h1, h2, h'⟩
    · rw [h1, h2]
    · rw [h1, h2]; exact ih h'

/-! ## §5 the constructor only copies the snapshot's log -/

theorem lf_construct_log (cfg : Cfg) (r : Resume) (l : List LogEntry) :
    construct cfg (some { r with log := l }) = (construct cfg (some r)).map (lf_setLog l) := by
  rw [construct_resume_eq, construct_resume_eq]
  refine lf_ite_comm Iff.rfl rfl ?_
  refine lf_bind_comm rfl (fun bl => ?_)
  refine lf_ite_comm Iff.rfl rfl ?_
  refine lf_ite_comm Iff.rfl rfl ?_
  refine lf_ite_comm Iff.rfl rfl ?_
  exact lf_ite_comm Iff.rfl rfl rfl

end CardVerif.Betting
