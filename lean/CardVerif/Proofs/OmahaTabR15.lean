import CardModel.Spec.OmahaTables
/-! # C06 — suit-free Omaha table, module 15 of 15 (compiled evaluation, `native_decide`; 404 board multisets × 1,820 hand multisets)

`tabR_a_blo_bhi`: the table holds on the ascending boards whose lowest value is `a` and whose second value lies in `[blo, bhi]`. -/
namespace CardVerif.OmahaD

/-- 204 boards -/
theorem tabR_4_7_8 : tableRc 4 7 8 = true := by native_decide

/-- 165 boards -/
theorem tabR_5_6_6 : tableRc 5 6 6 = true := by native_decide

/-- 35 boards -/
theorem tabR_11_11_14 : tableRc 11 11 14 = true := by native_decide

end CardVerif.OmahaD
