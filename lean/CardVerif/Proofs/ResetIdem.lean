import CardVerif.Proofs.Replay
import CardVerif.Proofs.Protocol
/-!
# C15 — re-applying a hand's own log to the same object (`reset_state_from_action_dicts`) is idempotent

`reset_state_from_action_dicts` keeps the object's board and deck.  The proof is a simulation: the re-run is the
original run with board and deck replaced by a *later snapshot* (`withCards b d`).  Nothing but `move_street`'s
dealing tests and the settlement reads the board / deck; the dealing tests fail on the later board (the cards are
already there) and the settlement is the last step, where the snapshot is the current board / deck.

* §1 `withCards` commutes with every sub-step of `act` (`appendAction`, `moveAction`, `moveStreet`, the street loop,
  `advanceAction`, `act`);
* §2 boards only grow;
* §3 the reset prefix re-creates the constructed state with the object's board and deck;
* §4 the simulation along the run; `reset_own_log`, `reset_idempotent`.
-/
namespace CardVerif.Betting
open CardVerif

/-! ## §1 replacing board and deck -/

/-- overwrite board and deck -/
def State.withCards (b d : List Card) (s : State) : State := { s with board := b, deck := d }

theorem withCards_self (s : State) : s.withCards s.board s.deck = s := rfl

theorem putMoneyInPot_withCards (b d : List Card) (s : State) (p : Nat) (m : Int) :
    (s.withCards b d).putMoneyInPot p m = (s.putMoneyInPot p m).map (State.withCards b d) := by
  unfold State.putMoneyInPot
  show (if p ≥ s.n then _ else if m > getI s.stacks p then _ else _) = _
  by_cases h1 : p ≥ s.n
  · rw [if_pos h1, if_pos h1]; rfl
  · rw [if_neg h1, if_neg h1]
    by_cases h2 : m > getI s.stacks p
    · rw [if_pos h2, if_pos h2]; rfl
    · rw [if_neg h2, if_neg h2]; rfl

theorem extractAntes_withCards (b d : List Card) (s : State) :
    (s.withCards b d).extractAntes = s.extractAntes.map (State.withCards b d) :=
  foldlM_map_comm (State.withCards b d) (fun s p => s.putMoneyInPot p (min (getI s.stacks p) s.ante))
    (fun s p => putMoneyInPot_withCards b d s p _) (List.range s.n) s

theorem extractBlinds_withCards (b d : List Card) (s : State) :
    (s.withCards b d).extractBlinds = s.extractBlinds.map (State.withCards b d) :=
  foldlM_map_comm (State.withCards b d) (fun s p => s.putMoneyInPot p (min (getI s.stacks p) (getI s.blinds p)))
    (fun s p => putMoneyInPot_withCards b d s p _) (List.range s.blinds.length) s

theorem getStartingAction_withCards (b d : List Card) (s : State) :
    (s.withCards b d).getStartingAction = s.getStartingAction := rfl

theorem isActionClosed_withCards (b d : List Card) (s : State) :
    (s.withCards b d).isActionClosed = s.isActionClosed := rfl

theorem buildAction_withCards (w : World) (b d : List Card) (s : State) (p : Int) (ty : Option ActType)
    (amt : Option Int) : (s.withCards b d).buildAction w p ty amt = s.buildAction w p ty amt := rfl

theorem validateAction_withCards (w : World) (b d : List Card) (s : State) (a : LogEntry) :
    (s.withCards b d).validateAction w a = s.validateAction w a := rfl

theorem updateStateWithAction_withCards (w : World) (b d : List Card) (s : State) (a : LogEntry) :
    (s.withCards b d).updateStateWithAction w a = (s.updateStateWithAction w a).map (State.withCards b d) := by
  unfold State.updateStateWithAction
  cases hc : w.wagers.contains a.act with
  | false => rfl
  | true =>
    simp only [if_true]
    rw [putMoneyInPot_withCards]
    cases s.putMoneyInPot a.player.toNat a.amount with
    | error e => rfl
    | ok s1 => rfl

/-- `append_action` without the `do` sugar -/
theorem appendAction_eq (w : World) (s : State) (p : Int) (ty : Option ActType) (amt : Option Int) :
    s.appendAction w p ty amt =
      if s.complete = true then .error .handComplete else
      s.buildAction w p ty amt >>= fun a => s.validateAction w a >>= fun _ =>
        State.updateStateWithAction w { s with log := s.log ++ [a] } a := by
  unfold State.appendAction
  cases s.complete <;> rfl

/-- `append_action` neither reads nor writes board / deck -/
theorem appendAction_withCards (w : World) (b d : List Card) (s : State) (p : Int) (ty : Option ActType)
    (amt : Option Int) :
    (s.withCards b d).appendAction w p ty amt = (s.appendAction w p ty amt).map (State.withCards b d) := by
  rw [appendAction_eq, appendAction_eq, buildAction_withCards]
  show (if s.complete = true then _ else _) = _
  by_cases hc : s.complete = true
  · rw [if_pos hc, if_pos hc]; rfl
  · rw [if_neg hc, if_neg hc]
    cases s.buildAction w p ty amt with
    | error e => rfl
    | ok a =>
      show ((s.withCards b d).validateAction w a >>= fun _ =>
        (({ s with log := s.log ++ [a] } : State).withCards b d).updateStateWithAction w a) =
        (s.validateAction w a >>= fun _ =>
          State.updateStateWithAction w { s with log := s.log ++ [a] } a).map (State.withCards b d)
      rw [validateAction_withCards]
      cases s.validateAction w a with
      | error e => rfl
      | ok u => exact updateStateWithAction_withCards w b d _ a

theorem moveAction_go_withCards (b d : List Card) (s : State) (fuel p : Nat) :
    State.moveAction.go (s.withCards b d) fuel p = State.moveAction.go s fuel p := by
  induction fuel generalizing p with
  | zero => rfl
  | succ fuel ih =>
    unfold State.moveAction.go
    show (if s.cannotAct p = true then State.moveAction.go (s.withCards b d) fuel ((p + 1) % s.n) else _) = _
    rw [ih]

theorem moveAction_def (s : State) :
    s.moveAction = match s.action with
      | none => .error .noAction
      | some a => State.moveAction.go s (s.n + 1) ((a + 1) % s.n) >>= fun p => .ok { s with action := some p } := by
  unfold State.moveAction
  cases s.action <;> rfl

/-- `move_action` neither reads nor writes board / deck -/
theorem moveAction_withCards (b d : List Card) (s : State) :
    (s.withCards b d).moveAction = s.moveAction.map (State.withCards b d) := by
  rw [moveAction_def, moveAction_def]
  show (match s.action with | none => _ | some a => _) = _
  cases s.action with
  | none => rfl
  | some a =>
    show (State.moveAction.go (s.withCards b d) (s.n + 1) ((a + 1) % s.n) >>= fun p =>
      Except.ok { s.withCards b d with action := some p }) =
      (State.moveAction.go s (s.n + 1) ((a + 1) % s.n) >>= fun p =>
        Except.ok { s with action := some p }).map (State.withCards b d)
    rw [moveAction_go_withCards]
    cases State.moveAction.go s (s.n + 1) ((a + 1) % s.n) with
    | error e => rfl
    | ok p => rfl

/-- `move_street` when the new round is closed at once (forward direction) -/
theorem moveStreet_closed_fwd {s : State} (hc : s.nextStreet.isActionClosed = .ok true) :
    s.moveStreet = .ok { s.nextStreet with action := none } := by
  unfold State.moveStreet
  show (s.nextStreet.isActionClosed >>= fun c => if c = true then _ else _) = _
  rw [hc]
  rfl

/-- `move_street` when the new round is open (forward direction) -/
theorem moveStreet_open_fwd {s : State} {a : Nat} (hc : s.nextStreet.isActionClosed = .ok false)
    (ha : s.nextStreet.getStartingAction = .ok a) :
    s.moveStreet =
      .ok (State.dealCardsToBoard { s.nextStreet with action := some a } (dealK (s.street + 1) s.board.length)) := by
  unfold State.moveStreet
  change (s.nextStreet.isActionClosed >>= _) = _
  rw [hc]
  simp only [bind, Except.bind, Bool.false_eq_true, if_false]
  change (match s.nextStreet.getStartingAction with | .ok a => _ | .error _ => _) = _
  rw [ha]
  simp only [pure, Except.pure]
  rw [dealK_eq]
  split_ifs
  · rfl
  · rfl
  · rfl
  · rw [dealCardsToBoard_zero]; rfl

/-- **`move_street` on a later board**: if the new round is open (somebody is to act) and the replacement board
already holds the street's cards (`dealK = 0`), nothing is dealt; if the new round is closed nothing is dealt anyway -/
theorem moveStreet_withCards (b d : List Card) {s s' : State} (h : s.moveStreet = .ok s')
    (hk : s'.action ≠ none → dealK s'.street b.length = 0) :
    (s.withCards b d).moveStreet = .ok (s'.withCards b d) := by
  rcases moveStreet_ok h with ⟨hc, rfl⟩ | ⟨hc, a, k, ha, rfl⟩
  · exact moveStreet_closed_fwd (s := s.withCards b d) hc
  · have hk0 : dealK (s.street + 1) b.length = 0 := hk (by intro h; cases h)
    have := moveStreet_open_fwd (s := s.withCards b d) (a := a) hc ha
    rw [this]
    show Except.ok (State.dealCardsToBoard _ (dealK (s.street + 1) b.length)) = _
    rw [hk0, dealCardsToBoard_zero]
    rfl

/-- the street loop on a later board -/
theorem streets_withCards (b d : List Card) (fuel : Nat) {s s' : State}
    (h : State.advanceAction.streets fuel s = .ok s')
    (hk : s'.action ≠ none → dealK s'.street b.length = 0) :
    State.advanceAction.streets fuel (s.withCards b d) = .ok (s'.withCards b d) := by
  induction fuel generalizing s with
  | zero => simp [State.advanceAction.streets] at h
  | succ fuel ih =>
    unfold State.advanceAction.streets at h ⊢
    show (if s.street < showdownStreet then _ else _) = _
    split at h
    · rename_i hlt
      rw [if_pos hlt]
      rw [bind_ok] at h
      obtain ⟨s1, h1, h⟩ := h
      rw [bind_ok] at h
      obtain ⟨c, hc, h⟩ := h
      have hact := moveStreet_action h1
      cases c with
      | true =>
        simp only [if_true] at h
        have hn : s1.action = none := by
          rcases hact with ⟨_, hn⟩ | ⟨hcl, _⟩
          · exact hn
          · rw [hcl] at hc; cases hc
        rw [moveStreet_withCards b d h1 (fun hne => absurd hn hne)]
        show ((s1.withCards b d).isActionClosed >>= fun c => if c = true then _ else _) = _
        rw [isActionClosed_withCards, hc]
        exact ih h
      | false =>
        simp only [Bool.false_eq_true, if_false, Except.ok.injEq] at h
        subst h
        rw [moveStreet_withCards b d h1 hk]
        show ((s1.withCards b d).isActionClosed >>= fun c => if c = true then _ else _) = _
        rw [isActionClosed_withCards, hc]
        rfl
    · rename_i hge
      rw [if_neg hge]
      cases h
      rfl

theorem settleIfShowdown_withCards_lt (env : Env) (b d : List Card) {s2 : State} (hlt : s2.street < showdownStreet) :
    (s2.withCards b d).settleIfShowdown env = .ok (s2.withCards b d) := by
  unfold State.settleIfShowdown
  rw [if_neg]
  exact Nat.not_le.2 hlt

/-- **`advance_action` on a later board / deck**: same result with the later board / deck, provided the later
board already holds the cards of the street that opens, and, if the hand is settled, the later board / deck are the
current ones -/
theorem advanceAction_withCards (env : Env) (b d : List Card) {s s' : State} (h : s.advanceAction env = .ok s')
    (hk : s'.action ≠ none → dealK s'.street b.length = 0)
    (hfin : showdownStreet ≤ s'.street → b = s'.board ∧ d = s'.deck) :
    (s.withCards b d).advanceAction env = .ok (s'.withCards b d) := by
  rw [advanceAction_eq, bind_ok] at h
  obtain ⟨closed, hcl, h⟩ := h
  rw [bind_ok] at h
  obtain ⟨s2, h2, h3⟩ := h
  have hs2 : s'.action = s2.action ∧ s'.street = s2.street ∧ s'.board = s2.board ∧ s'.deck = s2.deck := by
    rcases settleIfShowdown_ok h3 with ⟨_, rfl⟩ | ⟨_, pay, rake, _, rfl⟩
    · exact ⟨rfl, rfl, rfl, rfl⟩
    · exact ⟨rfl, rfl, rfl, rfl⟩
  have hmid : (if !closed then (s.withCards b d).moveAction else State.advanceAction.streets 6 (s.withCards b d)) =
      .ok (s2.withCards b d) := by
    cases closed with
    | false =>
      simp only [Bool.not_false, if_true] at h2 ⊢
      rw [moveAction_withCards, h2]; rfl
    | true =>
      simp only [Bool.not_true, Bool.false_eq_true, if_false] at h2 ⊢
      exact streets_withCards b d 6 h2 (by rw [← hs2.1, ← hs2.2.1]; exact hk)
  rw [advanceAction_eq, isActionClosed_withCards, hcl]
  show ((if !closed then (s.withCards b d).moveAction else State.advanceAction.streets 6 (s.withCards b d)) >>=
    State.settleIfShowdown env) = _
  rw [hmid]
  show (s2.withCards b d).settleIfShowdown env = _
  by_cases hlt : s2.street < showdownStreet
  · rw [settleIfShowdown_withCards_lt env b d hlt]
    rcases settleIfShowdown_ok h3 with ⟨_, rfl⟩ | ⟨hge, _⟩
    · rfl
    · omega
  · obtain ⟨rfl, rfl⟩ := hfin (by rw [hs2.2.1]; omega)
    rw [hs2.2.2.1, hs2.2.2.2, withCards_self, h3]
    rw [← hs2.2.2.1, ← hs2.2.2.2, withCards_self]

/-- **one accepted action on a later board / deck** -/
theorem act_withCards (env : Env) (b d : List Card) {s s' : State} {p : Int} {ty : Option ActType}
    {amt : Option Int} (h : s.act env p ty amt = .ok s')
    (hk : s'.action ≠ none → dealK s'.street b.length = 0)
    (hfin : showdownStreet ≤ s'.street → b = s'.board ∧ d = s'.deck) :
    (s.withCards b d).act env p ty amt = .ok (s'.withCards b d) := by
  obtain ⟨s1, h1, h2⟩ := act_ok.1 h
  refine act_ok.2 ⟨s1.withCards b d, ?_, advanceAction_withCards env b d h2 hk hfin⟩
  rw [appendAction_withCards, h1]; rfl

/-! ## §2 boards only grow -/

theorem moveStreet_board_le {s s' : State} (h : s.moveStreet = .ok s') : s.board.length ≤ s'.board.length := by
  rcases moveStreet_ok h with ⟨_, rfl⟩ | ⟨_, a, k, _, rfl⟩
  · exact Nat.le_refl _
  · show s.board.length ≤ (s.board ++ s.deck.take k).length
    rw [List.length_append]; omega

theorem streets_board_le (fuel : Nat) {s s' : State} (h : State.advanceAction.streets fuel s = .ok s') :
    s.board.length ≤ s'.board.length := by
  induction fuel generalizing s with
  | zero => simp [State.advanceAction.streets] at h
  | succ fuel ih =>
    unfold State.advanceAction.streets at h
    split at h
    · rw [bind_ok] at h
      obtain ⟨s1, h1, h⟩ := h
      rw [bind_ok] at h
      obtain ⟨c, _, h⟩ := h
      have h1' := moveStreet_board_le h1
      cases c with
      | true =>
        simp only [if_true] at h
        exact Nat.le_trans h1' (ih h)
      | false =>
        simp only [Bool.false_eq_true, if_false, Except.ok.injEq] at h
        subst h
        exact h1'
    · cases h
      exact Nat.le_refl _

theorem advanceAction_board_le {env : Env} {s s' : State} (h : s.advanceAction env = .ok s') :
    s.board.length ≤ s'.board.length := by
  rw [advanceAction_eq, bind_ok] at h
  obtain ⟨closed, _, h⟩ := h
  rw [bind_ok] at h
  obtain ⟨s2, h2, h3⟩ := h
  have h23 : s'.board = s2.board := by
    rcases settleIfShowdown_ok h3 with ⟨_, rfl⟩ | ⟨_, pay, rake, _, rfl⟩ <;> rfl
  rw [h23]
  cases closed with
  | false =>
    simp only [Bool.not_false, if_true] at h2
    exact Nat.le_of_eq (congrArg List.length (moveAction_frame h2).2.2.2.2.2.1.symm)
  | true =>
    simp only [Bool.not_true, Bool.false_eq_true, if_false] at h2
    exact streets_board_le 6 h2

/-- an accepted action never shrinks the board -/
theorem act_board_le {env : Env} {s s' : State} {p : Int} {ty : Option ActType} {amt : Option Int}
    (h : s.act env p ty amt = .ok s') : s.board.length ≤ s'.board.length := by
  obtain ⟨s1, h1, h2⟩ := act_ok.1 h
  have := advanceAction_board_le h2
  rwa [(appendAction_frame h1).2.1.board] at this

/-! ## §3 the reset prefix -/

/-- the prefix of `reset_state_from_action_dicts` (chips back, antes and blinds posted, first seat to act) re-creates
the constructed state, except that the object's board and deck are kept -/
theorem reset_eq_fold (env : Env) {cfg : Cfg} {s0 s : State} (h0 : construct cfg = .ok s0) (hcf : CfgOf cfg s)
    (ops : List Op) :
    s.resetFromActionDicts env ops =
      ops.foldlM (fun s o => s.act env o.player o.ty o.amount) (s0.withCards s.board s.deck) := by
  obtain ⟨_, _, _, _, blinds, s1, s2, a, hb, _, e1, e2, e3, rfl⟩ := construct_ok_iff.1 h0
  have hbl : s.blinds = blinds := by
    have := hcf.blinds; rw [hb] at this; exact (Except.ok.inj this).symm
  have hR : ({ s with
        «stacks» := s.startingStacks, pot := s.startingStacks.map fun _ => 0,
        lastActions := s.startingStacks.map fun _ => none, payouts := none, rakePaid := none,
        log := [], complete := false, street := 0 } : State) =
      (((baseState cfg blinds).setAction s.action).withCards s.board s.deck) :=
    State.ext' hcf.game hcf.n hcf.hands hcf.startingStacks hcf.ante hbl hcf.runouts hcf.rake hcf.sampler rfl rfl
      hcf.startingStacks (congrArg (List.map fun _ => (0 : Int)) hcf.startingStacks)
      (congrArg (List.map fun _ => (none : Option ActType)) hcf.startingStacks) rfl rfl rfl rfl rfl rfl
  show (State.extractAntes _ >>= fun t1 => t1.extractBlinds >>= fun t2 => t2.getStartingAction >>= fun b =>
    ops.foldlM (fun s o => s.act env o.player o.ty o.amount) { t2 with action := some b }) = _
  rw [hR, extractAntes_withCards, extractAntes_setAction, e1]
  show (((s1.setAction s.action).withCards s.board s.deck).extractBlinds >>= _) = _
  rw [extractBlinds_withCards, extractBlinds_setAction, e2]
  show ((s2.getStartingAction) >>= _) = _
  rw [e3]
  rfl

/-! ## §4 the simulation along the run -/

/-- `b`, `d` are the board / deck of a later (or the same) state of the hand: the board is at least as long, and if
the hand is over they are the final board / deck -/
def Snapshot (b d : List Card) (x : State) : Prop :=
  x.board.length ≤ b.length ∧ (x.complete = true → b = x.board ∧ d = x.deck)

theorem Snapshot.self (x : State) : Snapshot x.board x.deck x := ⟨Nat.le_refl _, fun _ => ⟨rfl, rfl⟩⟩

/-- a snapshot of a later state is a snapshot for the state before the action -/
theorem Snapshot.back {env : Env} {b d : List Card} {x x' : State} {p : Int} {ty : Option ActType}
    {amt : Option Int} (h : x.act env p ty amt = .ok x') (hs : Snapshot b d x') : Snapshot b d x :=
  ⟨Nat.le_trans (act_board_le h) hs.1, fun hc => by rw [(act_result h).1] at hc; cases hc⟩

/-- on a reachable state, a snapshot board already holds the cards of the current street -/
theorem Snapshot.dealK_zero {env : Env} (hw : env.w = World.std) {cfg : Cfg} (hv : cfg.Valid) {b d : List Card}
    {x : State} (hr : Reachable env cfg x) (hs : Snapshot b d x) : dealK x.street b.length = 0 := by
  obtain ⟨hle, hiff⟩ := reachable_street hr
  cases hc : x.complete with
  | true =>
    rw [hiff.1 hc]; simp [dealK]
  | false =>
    have hlen := ((reachable_cards hw hv hr).street_len hc).2
    have h1 := hs.1
    unfold dealK
    by_cases h0 : x.street = 0
    · rw [h0]; simp
    · have := hlen (by omega)
      split_ifs <;> omega

/-- **simulation**: replaying the log from the constructed state with board / deck replaced by a snapshot of a later
state follows the original run, with that board / deck -/
theorem fold_withCards {env : Env} (hw : env.w = World.std) {cfg : Cfg} (hv : cfg.Valid) {s : State}
    (h : Reachable env cfg s) :
    ∃ s0, construct cfg = .ok s0 ∧ ∀ b d, Snapshot b d s →
      (s.log.map fun e => (⟨e.player, some e.act, some e.amount⟩ : Op)).foldlM
        (fun st o => st.act env o.player o.ty o.amount) (s0.withCards b d) = .ok (s.withCards b d) := by
  induction h with
  | @init s h0 =>
    refine ⟨s, h0, fun b d _ => ?_⟩
    obtain ⟨_, _, _, _, _, _, _, _, _, _, _, _, hlog, _⟩ := construct_frame h0
    rw [hlog]; rfl
  | @step s s' p ty amt hr hact ih =>
    obtain ⟨s0, h0, hfold⟩ := ih
    have hwf := (reachable_inv hw hv hr).wf hv
    obtain ⟨t, x, _, hlog, _, hre⟩ := act_filled_amount hw hwf hact
    refine ⟨s0, h0, fun b d hs => ?_⟩
    have hr' : Reachable env cfg s' := Reachable.step p ty amt hr hact
    rw [hlog, List.map_append, List.foldlM_append, hfold b d (hs.back hact)]
    show List.foldlM (fun st o => st.act env o.player o.ty o.amount) (s.withCards b d)
      [(⟨p, some t, some x⟩ : Op)] = _
    rw [List.foldlM_cons]
    show ((s.withCards b d).act env p (some t) (some x) >>= _) = _
    rw [act_withCards env b d hre (fun _ => hs.dealK_zero hw hv hr') (fun hge => hs.2 ?_)]
    · rfl
    · obtain ⟨hle, hiff⟩ := reachable_street hr'
      exact hiff.2 (by have : 4 ≤ s'.street := hge; omega)

/-- **re-applying a hand's own log to the same object reproduces the object** (so doing it any number of times gives
the same result as doing it once) -/
theorem reset_own_log (env : Env) (cfg : Cfg) (hw : env.w = World.std) (hv : cfg.Valid) {s : State}
    (h : Reachable env cfg s) :
    s.resetFromActionDicts env (s.log.map fun e => (⟨e.player, some e.act, some e.amount⟩ : Op)) = .ok s := by
  obtain ⟨s0, h0, hfold⟩ := fold_withCards hw hv h
  rw [reset_eq_fold env h0 (reachable_cfgOf h), hfold s.board s.deck (Snapshot.self s), withCards_self]

/-- `k` successive re-applications of the operations `ops` to the same object -/
def iterReset (env : Env) (ops : List Op) : Nat → State → Except Err State
  | 0, s => .ok s
  | k + 1, s => do let s' ← s.resetFromActionDicts env ops; iterReset env ops k s'

/-- **`reset_state_from_action_dicts` with the hand's own log is idempotent**: any number of re-applications gives
back the same object -/
theorem reset_idempotent (env : Env) (cfg : Cfg) (hw : env.w = World.std) (hv : cfg.Valid) {s : State}
    (h : Reachable env cfg s) (k : Nat) :
    iterReset env (s.log.map fun e => (⟨e.player, some e.act, some e.amount⟩ : Op)) k s = .ok s := by
  induction k with
  | zero => rfl
  | succ k ih =>
    show (s.resetFromActionDicts env _ >>= fun s' => iterReset env _ k s') = _
    rw [reset_own_log env cfg hw hv h]
    exact ih

end CardVerif.Betting
