import CardModel.Spec.Symmetry
import CardVerif.Props.C12
import CardVerif.Props.C19
import CardVerif.Proofs.SymGin
import CardVerif.Proofs.SymPoker
import Mathlib.Data.List.Perm.Basic
import Mathlib.Data.List.Nodup
/-!
# Helper lemmas for C18 (part c): the gin ricky value and the lay-off deadwood under suit relabelling

Both results are obtained from the *specifications* proved in C19 / C12 (which are symmetric), not from the
implementation: one inequality is proved for an arbitrary `(σ, hand, hand')` by transporting the witnesses along the
relabelling, the other one follows by applying it to the inverse relabelling `inv σ`.
-/
namespace CardVerif.Sym
open CardVerif CardVerif.Gin List

section
variable {σ : Nat → Nat}

/-! ## `rickyVal` reads ranks only and is order-independent -/

theorem maxN?_eq (l : List Nat) : maxN? l = if l = [] then none else some (l.foldl max 0) := by
  cases l with
  | nil => rfl
  | cons x xs => simp [maxN?]

theorem maxN?_perm {l l' : List Nat} (h : l.Perm l') : maxN? l = maxN? l' := by
  rw [maxN?_eq, maxN?_eq]
  have h1 : l.foldl max 0 = l'.foldl max 0 := List.Perm.foldl_eq' h (fun x _ y _ z => by omega) 0
  have h2 : l = [] ↔ l' = [] := ⟨fun e => (e ▸ h).symm.eq_nil, fun e => (e ▸ h).eq_nil⟩
  rw [h1]
  by_cases hl : l = []
  · rw [if_pos hl, if_pos (h2.1 hl)]
  · rw [if_neg hl, if_neg (fun e => hl (h2.2 e))]

theorem rickyVal_perm (n : Nat) {l l' : List Card} (h : l.Perm l') : rickyVal n l = rickyVal n l' := by
  unfold rickyVal rickyPoints
  rw [sumN_perm (h.map Card.low), maxN?_perm (h.map Card.low)]

theorem rickyVal_map_relabel (n : Nat) (σ : Nat → Nat) (l : List Card) :
    rickyVal n (l.map (relabel σ)) = rickyVal n l := by
  unfold rickyVal rickyPoints
  rw [List.map_map]
  rfl

theorem rickyVal_image (n : Nat) {l l' : List Card} (hi : Image σ l l') : rickyVal n l' = rickyVal n l := by
  rw [rickyVal_perm n hi, rickyVal_map_relabel]

theorem deadwood_image {l l' : List Card} (hi : Image σ l l') : deadwood l' = deadwood l := by
  rw [MeldSearch.deadwood_perm hi, deadwood_map_relabel]

/-! ## removing cards commutes with relabelling -/

theorem without_image (hσ : SuitPerm σ) {h h' : List Card} (hv : ∀ c ∈ h, c.suit < 4) (hi : Image σ h h')
    {m : List Card} (hm : ∀ c ∈ m, c.suit < 4) :
    Image σ (without h m) (without h' (m.map (relabel σ))) := by
  unfold Image without
  refine (hi.filter _).trans (List.Perm.of_eq ?_)
  rw [List.filter_map]
  congr 1
  apply List.filter_congr
  intro x hx
  simp only [Function.comp]
  congr 1
  rw [Bool.eq_iff_iff, List.contains_iff_mem, List.contains_iff_mem]
  exact mem_map_relabel_iff hσ hm (hv x hx)

/-- melds, lay-offs and deadwood partition a duplicate-free hand: the lay-offs lie outside the melds, and the
deadwood is what is left -/
theorem partition_facts {hand a b u : List Card} (hnd : hand.Nodup) (hp : (a ++ b ++ u).Perm hand) :
    (∀ c ∈ b, c ∈ without hand a) ∧ (without (without hand a) b).Perm u := by
  have hnd' : (a ++ b ++ u).Nodup := hp.nodup_iff.2 hnd
  obtain ⟨hab, hu, habu⟩ := List.nodup_append.1 hnd'
  obtain ⟨_, _, hab'⟩ := List.nodup_append.1 hab
  constructor
  · intro c hc
    rw [mem_without]
    refine ⟨hp.subset (List.mem_append_left _ (List.mem_append_right _ hc)), fun hca => ?_⟩
    exact hab' c hca c hc rfl
  · refine (List.perm_ext_iff_of_nodup (nodup_without (nodup_without hnd a) b) hu).2 ?_
    intro c
    rw [mem_without, mem_without]
    constructor
    · rintro ⟨⟨h1, h2⟩, h3⟩
      have := hp.symm.subset h1
      rcases List.mem_append.1 this with h | h
      · rcases List.mem_append.1 h with h | h
        · exact absurd h h2
        · exact absurd h h3
      · exact h
    · intro hc
      refine ⟨⟨hp.subset (List.mem_append_right _ hc), fun hca => ?_⟩, fun hcb => ?_⟩
      · exact habu c (List.mem_append_left _ hca) c hc rfl
      · exact habu c (List.mem_append_right _ hcb) c hc rfl

/-! ## the ricky value -/

theorem rickyMeld_relabel (hσ : SuitPerm σ) {k : Nat} {m : List Card} (hv : ∀ c ∈ m, c.suit < 4)
    (hm : RickyMeld k m) : RickyMeld k (m.map (relabel σ)) :=
  ⟨by rw [List.length_map]; exact hm.1, legalMeld_relabel hσ hv hm.2⟩

theorem hasPair_image (hσ : SuitPerm σ) {h h' : List Card} (hok : HandOK h) (hi : Image σ h h')
    (hp : HasPair h) : HasPair h' := by
  obtain ⟨m3, m4, h3, h4, s3, s4, hnd⟩ := hp
  have v3 : ∀ c ∈ m3, c.suit < 4 := fun c hc => (hok.2 c (s3 c hc)).2.2
  have v4 : ∀ c ∈ m4, c.suit < 4 := fun c hc => (hok.2 c (s4 c hc)).2.2
  refine ⟨m3.map (relabel σ), m4.map (relabel σ), rickyMeld_relabel hσ v3 h3, rickyMeld_relabel hσ v4 h4,
    ?_, ?_, ?_⟩
  · intro c hc
    obtain ⟨x, hx, rfl⟩ := List.mem_map.1 hc
    exact hi.symm.subset (List.mem_map.2 ⟨x, s3 x hx, rfl⟩)
  · intro c hc
    obtain ⟨x, hx, rfl⟩ := List.mem_map.1 hc
    exact hi.symm.subset (List.mem_map.2 ⟨x, s4 x hx, rfl⟩)
  · rw [← List.map_append]
    refine nodup_map_relabel hσ ?_ hnd
    intro c hc
    rcases List.mem_append.1 hc with hc | hc
    · exact v3 c hc
    · exact v4 c hc

/-- one direction: the relabelled hand is worth at most as much -/
theorem handPoints_le (hσ : SuitPerm σ) {h h' : List Card} (hok : HandOK h)
    (hlen : h.length = 7 ∨ h.length = 8) (hi : Image σ h h') (hno : ¬ HasPair h) (hno' : ¬ HasPair h')
    {v v' : Nat} (hv : handPoints h = .ok v) (hv' : handPoints h' = .ok v') : v' ≤ v := by
  have hok' := handOK_image hσ hok hi
  have hl : h'.length = h.length := length_image hi
  have hlen' : h'.length = 7 ∨ h'.length = 8 := by rw [hl]; exact hlen
  obtain ⟨w, hw, -, -, hatt⟩ := C19.ricky_value h hok hlen hno
  obtain ⟨w', hw', hle0, hlem, -⟩ := C19.ricky_value h' hok' hlen' hno'
  rw [hv] at hw
  rw [hv'] at hw'
  injection hw with hw
  injection hw' with hw'
  subst hw hw'
  rw [hl] at hle0 hlem
  rcases hatt with rfl | ⟨m, hm, hsub, rfl⟩
  · rw [← rickyVal_image h.length hi]
    exact hle0
  · have vm : ∀ c ∈ m, c.suit < 4 := fun c hc => (hok.2 c (hsub c hc)).2.2
    have hsub' : ∀ c ∈ m.map (relabel σ), c ∈ h' := by
      intro c hc
      obtain ⟨x, hx, rfl⟩ := List.mem_map.1 hc
      exact hi.symm.subset (List.mem_map.2 ⟨x, hsub x hx, rfl⟩)
    have h1 := hlem (m.map (relabel σ)) (hm.imp (rickyMeld_relabel hσ vm) (rickyMeld_relabel hσ vm)) hsub'
    have himg := without_image hσ (fun c hc => (hok.2 c hc).2.2) hi vm
    have h2 := rickyVal_image h.length himg
    unfold without at h2
    rw [h2] at h1
    exact h1

/-- the ricky value is invariant under suit relabelling and card order -/
theorem handPoints_image (hσ : SuitPerm σ) {h h' : List Card} (hok : HandOK h)
    (hlen : h.length = 7 ∨ h.length = 8) (hi : Image σ h h') : handPoints h' = handPoints h := by
  have hok' := handOK_image hσ hok hi
  have hl : h'.length = h.length := length_image hi
  have hlen' : h'.length = 7 ∨ h'.length = 8 := by rw [hl]; exact hlen
  have hinv := image_inv hσ (fun c hc => (hok.2 c hc).2.2) hi
  by_cases hp : HasPair h
  · rw [(C19.ricky_zero_iff h hok hlen).2 hp, (C19.ricky_zero_iff h' hok' hlen').2 (hasPair_image hσ hok hi hp)]
  · have hp' : ¬ HasPair h' := fun hp' => hp (hasPair_image (suitPerm_inv hσ) hok' hinv hp')
    obtain ⟨v, hv, -⟩ := C19.ricky_value h hok hlen hp
    obtain ⟨v', hv', -⟩ := C19.ricky_value h' hok' hlen' hp'
    rw [hv, hv']
    congr 1
    exact Nat.le_antisymm (handPoints_le hσ hok hlen hi hp hp' hv hv')
      (handPoints_le (suitPerm_inv hσ) hok' hlen' hinv hp' hp hv' hv)

/-! ## the knocker's melds: relabelled, reordered, cards reordered inside each meld -/

/-- `K'` consists of the melds of `K`, relabelled, each with its cards in some order, the melds in some order -/
def KImage (σ : Nat → Nat) (K K' : List (List Card)) : Prop :=
  ∃ K0, K'.Perm K0 ∧ List.Forall₂ (Image σ) K K0

theorem forall₂_mem_left {α β : Type} {R : α → β → Prop} {l₁ : List α} {l₂ : List β} (h : Forall₂ R l₁ l₂) :
    ∀ a ∈ l₁, ∃ b ∈ l₂, R a b := by
  induction h with
  | nil => intro a ha; cases ha
  | cons hab _ ih =>
    intro a ha
    rcases List.mem_cons.1 ha with rfl | ha
    · exact ⟨_, List.mem_cons_self, hab⟩
    · obtain ⟨b, hb, hr⟩ := ih a ha
      exact ⟨b, List.mem_cons_of_mem _ hb, hr⟩

theorem forall₂_mem_right {α β : Type} {R : α → β → Prop} {l₁ : List α} {l₂ : List β} (h : Forall₂ R l₁ l₂) :
    ∀ b ∈ l₂, ∃ a ∈ l₁, R a b := by
  induction h with
  | nil => intro b hb; cases hb
  | cons hab _ ih =>
    intro b hb
    rcases List.mem_cons.1 hb with rfl | hb
    · exact ⟨_, List.mem_cons_self, hab⟩
    · obtain ⟨a, ha, hr⟩ := ih b hb
      exact ⟨a, List.mem_cons_of_mem _ ha, hr⟩

theorem forall₂_and_left {α β : Type} {R : α → β → Prop} {P : α → Prop} {l₁ : List α} {l₂ : List β}
    (h : Forall₂ R l₁ l₂) (hP : ∀ a ∈ l₁, P a) : Forall₂ (fun a b => R a b ∧ P a) l₁ l₂ := by
  induction h with
  | nil => exact Forall₂.nil
  | cons hab _ ih =>
    exact Forall₂.cons ⟨hab, hP _ List.mem_cons_self⟩ (ih fun a ha => hP a (List.mem_cons_of_mem _ ha))

theorem kImage_mem_left {K K' : List (List Card)} (hK : KImage σ K K') :
    ∀ m ∈ K, ∃ m' ∈ K', Image σ m m' := by
  obtain ⟨K0, hp, hf⟩ := hK
  intro m hm
  obtain ⟨m', hm', hr⟩ := forall₂_mem_left hf m hm
  exact ⟨m', hp.symm.subset hm', hr⟩

theorem kImage_mem_right {K K' : List (List Card)} (hK : KImage σ K K') :
    ∀ m' ∈ K', ∃ m ∈ K, Image σ m m' := by
  obtain ⟨K0, hp, hf⟩ := hK
  intro m' hm'
  exact forall₂_mem_right hf m' (hp.subset hm')

theorem forall₂_image_flatten {K K0 : List (List Card)} (hf : Forall₂ (Image σ) K K0) :
    Image σ K.flatten K0.flatten := by
  induction hf with
  | nil => exact Perm.refl _
  | cons hab _ ih =>
    rw [List.flatten_cons, List.flatten_cons]
    exact Image.append hab ih

theorem kImage_flatten {K K' : List (List Card)} (hK : KImage σ K K') : Image σ K.flatten K'.flatten := by
  obtain ⟨K0, hp, hf⟩ := hK
  exact hp.flatten.trans (forall₂_image_flatten hf)

/-- the relation is symmetric, with the inverse relabelling -/
theorem kImage_inv (hσ : SuitPerm σ) {K K' : List (List Card)} (hv : ∀ m ∈ K, ∀ c ∈ m, c.suit < 4)
    (hK : KImage σ K K') : KImage (inv σ) K' K := by
  obtain ⟨K0, hp, hf⟩ := hK
  have hf' : Forall₂ (fun a b => Image σ a b ∧ ∀ c ∈ a, c.suit < 4) K K0 := forall₂_and_left hf hv
  obtain ⟨K1, h1, h2⟩ := List.perm_comp_forall₂ hp hf'.flip
  refine ⟨K1, h2.symm, h1.imp ?_⟩
  intro a b hab
  exact image_inv hσ hab.2 hab.1

theorem knockOK_image (hσ : SuitPerm σ) {hand hand' : List Card} {K K' : List (List Card)} (hok : HandOK hand)
    (hk : KnockOK hand K) (hi : Image σ hand hand') (hK : KImage σ K K') : KnockOK hand' K' := by
  have hKv : ∀ m ∈ K, ∀ c ∈ m, c.suit < 4 :=
    fun m hm c hc => (hk.valid c (List.mem_flatten.2 ⟨m, hm, hc⟩)).2.2
  have hfl := kImage_flatten hK
  refine ⟨?_, ?_, ?_⟩
  · intro m' hm'
    obtain ⟨m, hm, him⟩ := kImage_mem_right hK m' hm'
    exact MeldSearch.legalMeld_perm (Perm.symm him) (legalMeld_relabel hσ (hKv m hm) (hk.legal m hm))
  · have himg : Image σ (K.flatten ++ hand) (K'.flatten ++ hand') := Image.append hfl hi
    refine (Perm.nodup_iff himg).2 (nodup_map_relabel hσ ?_ hk.disjoint)
    intro c hc
    rcases List.mem_append.1 hc with hc | hc
    · exact (hk.valid c hc).2.2
    · exact (hok.2 c hc).2.2
  · intro c hc
    obtain ⟨x, hx, rfl⟩ := Image.mem hfl hc
    exact relabel_valid hσ (hk.valid x hx)

/-! ## lay-offs under relabelling -/

theorem isSet_relabel (hσ : SuitPerm σ) {m : List Card} (hv : ∀ c ∈ m, c.suit < 4) (hm : IsSet m) :
    IsSet (m.map (relabel σ)) := by
  obtain ⟨hnd, hl, r, hr⟩ := hm
  refine ⟨nodup_map_relabel hσ hv hnd, by rwa [List.length_map], r, ?_⟩
  intro c hc
  obtain ⟨x, hx, rfl⟩ := List.mem_map.1 hc
  exact hr x hx

theorem setLayoff_image (hσ : SuitPerm σ) {K K' : List (List Card)} (hv : ∀ m ∈ K, ∀ c ∈ m, c.suit < 4)
    (hK : KImage σ K K') {c : Card} (h : SetLayoff K c) : SetLayoff K' (relabel σ c) := by
  obtain ⟨m, hm, hs, hl, hr⟩ := h
  obtain ⟨m', hm', him⟩ := kImage_mem_left hK m hm
  refine ⟨m', hm', MeldSearch.isSet_perm (Perm.symm him) (isSet_relabel hσ (hv m hm) hs), ?_, ?_⟩
  · rw [length_image him]; exact hl
  · intro x hx
    obtain ⟨x0, hx0, rfl⟩ := Image.mem him hx
    exact hr x0 hx0

theorem runLayoff_image {K K' : List (List Card)} (hK : KImage σ K K') {L : List Card} {c : Card}
    (h : RunLayoff K L c) : RunLayoff K' (L.map (relabel σ)) (relabel σ c) := by
  obtain ⟨m, hm, suit, lo, len, h1, h2, h3, h4, hp, hs, hx⟩ := h
  obtain ⟨m', hm', him⟩ := kImage_mem_left hK m hm
  refine ⟨m', hm', σ suit, lo, len, h1, h2, h3, h4, ?_, ?_, ?_⟩
  · rw [← runCards_relabel]
    exact Perm.trans him (hp.map _)
  · show σ c.suit = σ suit
    rw [hs]
  · rcases hx with ⟨v, a, b, e, f⟩ | ⟨v, a, b, e, f⟩
    · exact Or.inl ⟨v, a, b, e, fun u hu1 hu2 => List.mem_map.2 ⟨_, f u hu1 hu2, rfl⟩⟩
    · exact Or.inr ⟨v, a, b, e, fun u hu1 hu2 => List.mem_map.2 ⟨_, f u hu1 hu2, rfl⟩⟩

/-- a legal lay-off set stays legal when the knocker's melds and the lay-offs are relabelled consistently (and the
melds, and the cards inside them, reordered) -/
theorem layoffOK_image (hσ : SuitPerm σ) {K K' : List (List Card)} (hv : ∀ m ∈ K, ∀ c ∈ m, c.suit < 4)
    (hK : KImage σ K K') {L : List Card} (hL : ∀ c ∈ L, c.suit < 4) (h : LayoffOK K L) :
    LayoffOK K' (L.map (relabel σ)) := by
  refine ⟨nodup_map_relabel hσ hL h.1, ?_⟩
  intro c hc
  obtain ⟨x, hx, rfl⟩ := List.mem_map.1 hc
  rcases h.2 x hx with hs | hr
  · exact Or.inl (setLayoff_image hσ hv hK hs)
  · exact Or.inr (runLayoff_image hK hr)

/-- one direction: the relabelled defender is left with at most as much deadwood -/
theorem layoff_deadwood_le (hσ : SuitPerm σ) {hand hand' : List Card} {K K' : List (List Card)}
    (hok : HandOK hand) (hlen : hand.length ≤ 11) (hk : KnockOK hand K) (hi : Image σ hand hand')
    (hK : KImage σ K K') (stop stop' : Bool) (r r' : LayoffResult)
    (h : layoffDeadwood hand K stop = .ok r) (h' : layoffDeadwood hand' K' stop' = .ok r') :
    r'.deadwood ≤ r.deadwood := by
  have hok' := handOK_image hσ hok hi
  have hlen' : hand'.length ≤ 11 := by rw [length_image hi]; exact hlen
  have hk' := knockOK_image hσ hok hk hi hK
  have hv : ∀ c ∈ hand, c.suit < 4 := fun c hc => (hok.2 c hc).2.2
  have hKv : ∀ m ∈ K, ∀ c ∈ m, c.suit < 4 :=
    fun m hm c hc => (hk.valid c (List.mem_flatten.2 ⟨m, hm, hc⟩)).2.2
  obtain ⟨harr, hlo, hpart, hdw⟩ := C12.layoff_sound hand hok hlen K hk stop r h
  obtain ⟨hLsub, hU⟩ := partition_facts hok.1 hpart
  have hLv : ∀ c ∈ r.laidOff, c.suit < 4 := fun c hc => hv c (mem_without.1 (hLsub c hc)).1
  have harr' := arrangement_image hσ hok hi harr
  have hrest : Image σ (restOf hand r.melds) (restOf hand' (r.melds.map (·.map (relabel σ)))) :=
    restOf_image hσ hok hi harr
  have hsub' : ∀ c ∈ r.laidOff.map (relabel σ), c ∈ restOf hand' (r.melds.map (·.map (relabel σ))) := by
    intro c hc
    obtain ⟨x, hx, rfl⟩ := List.mem_map.1 hc
    exact (Perm.symm hrest).subset (List.mem_map.2 ⟨x, hLsub x hx, rfl⟩)
  have hlo' : LayoffOK K' (r.laidOff.map (relabel σ)) := layoffOK_image hσ hKv hK hLv hlo
  have hopt := C12.layoff_optimal hand' hok' hlen' K' hk' stop' r' h' _ _ harr' hsub' hlo'
  have hrv : ∀ c ∈ restOf hand r.melds, c.suit < 4 := fun c hc => hv c (List.mem_filter.1 hc).1
  have himg2 := without_image hσ hrv hrest hLv
  calc r'.deadwood
      ≤ deadwood (without (restOf hand' (r.melds.map (·.map (relabel σ)))) (r.laidOff.map (relabel σ))) := hopt
    _ = deadwood (without (restOf hand r.melds) r.laidOff) := deadwood_image himg2
    _ = deadwood r.unmelded := MeldSearch.deadwood_perm hU
    _ = r.deadwood := hdw.symm

/-- the defender's deadwood after lay-offs is invariant under suit relabelling and reordering -/
theorem layoff_deadwood_image (hσ : SuitPerm σ) {hand hand' : List Card} {K K' : List (List Card)}
    (hok : HandOK hand) (hlen : hand.length ≤ 11) (hk : KnockOK hand K) (hi : Image σ hand hand')
    (hK : KImage σ K K') (stop stop' : Bool) (r r' : LayoffResult)
    (h : layoffDeadwood hand K stop = .ok r) (h' : layoffDeadwood hand' K' stop' = .ok r') :
    r'.deadwood = r.deadwood := by
  apply Nat.le_antisymm (layoff_deadwood_le hσ hok hlen hk hi hK stop stop' r r' h h')
  have hok' := handOK_image hσ hok hi
  have hlen' : hand'.length ≤ 11 := by rw [length_image hi]; exact hlen
  have hk' := knockOK_image hσ hok hk hi hK
  have hKv : ∀ m ∈ K, ∀ c ∈ m, c.suit < 4 :=
    fun m hm c hc => (hk.valid c (List.mem_flatten.2 ⟨m, hm, hc⟩)).2.2
  exact layoff_deadwood_le (suitPerm_inv hσ) hok' hlen' hk'
    (image_inv hσ (fun c hc => (hok.2 c hc).2.2) hi) (kImage_inv hσ hKv hK) stop' stop r' r h' h

end

end CardVerif.Sym
