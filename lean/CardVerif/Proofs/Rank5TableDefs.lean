import CardModel.Model.Rank5
import CardModel.Spec.Poker5
/-!
# C05 — the finite table: definitions (core Lean only, so the table files start compiling at once)

`checkFrom a` runs over every sorted value tuple `a ≤ b ≤ c ≤ d ≤ e ≤ 14` and both flush flags, and
compares `rank5v` with `specKeyV` wherever the tuple can come from five distinct cards (`validV`).
-/
namespace CardVerif.C05
open CardVerif CardVerif.Rank5 CardVerif.Poker5

/-- a value tuple that five distinct standard cards can show: no value five times, and a flush has
five distinct values -/
def validV (vs : List Nat) (flush : Bool) : Bool :=
  vs.all (fun v => decide (count v vs ≤ 4)) && (!flush || (dedup vs).length == 5)

def checkFrom (a : Nat) : Bool :=
  (List.range' a (15 - a)).all fun b => (List.range' b (15 - b)).all fun c =>
  (List.range' c (15 - c)).all fun d => (List.range' d (15 - d)).all fun e =>
    [true, false].all fun fl =>
      !validV [a, b, c, d, e] fl ||
        decide (rank5v [a, b, c, d, e] fl = .ok (specKeyV [a, b, c, d, e] fl))

end CardVerif.C05
