import CardModel.Spec.OmahaTables
/-! # C06 — suit-free Omaha table, module 4 of 15 (compiled evaluation, `native_decide`; 426 board multisets × 1,820 hand multisets)

`tabR_a_blo_bhi`: the table holds on the ascending boards whose lowest value is `a` and whose second value lies in `[blo, bhi]`. -/
namespace CardVerif.OmahaD

/-- 286 boards -/
theorem tabR_4_4_4 : tableRc 4 4 4 = true := by native_decide

/-- 70 boards -/
theorem tabR_7_10_14 : tableRc 7 10 14 = true := by native_decide

/-- 70 boards -/
theorem tabR_2_10_14 : tableRc 2 10 14 = true := by native_decide

end CardVerif.OmahaD
