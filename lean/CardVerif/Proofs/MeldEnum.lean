import CardModel.Spec.GinMeldRules
import Mathlib.Data.List.Perm.Basic
import Mathlib.Data.List.Perm.Subperm
import Mathlib.Data.List.Nodup
/-!
# The gin meld enumeration lists exactly the legal melds inside the hand (C08 interface)

* `rankStraightsV_spec` – the `rank_straights` loop (with its early exit) = the window specification
* `mem_getSets_fst` / `mem_getSets_snd` – the sets listed by `get_sets`
* `allMelds_exact_thm` – `AllMeldsExact hand`
* `ricky3_*`, `ricky4_*` – the same facts for the ricky enumeration
-/
namespace CardVerif.Gin
open CardVerif

/-! ## `rankOfValue` -/

theorem rankOfValue_eq_iff (v w : Nat) :
    rankOfValue v = rankOfValue w ↔ v = w ∨ (v = 1 ∧ w = 14) ∨ (v = 14 ∧ w = 1) := by
  unfold rankOfValue
  by_cases hv : v = 1
  · by_cases hw : w = 1
    · simp [hv, hw]
    · simp [hv, hw]; omega
  · by_cases hw : w = 1
    · simp [hv, hw]
    · simp [hv, hw]

theorem rankOfValue_of_ne_one (v : Nat) (h : v ≠ 1) : rankOfValue v = v := by
  unfold rankOfValue; simp [h]

theorem rankOfValue_one : rankOfValue 1 = 14 := rfl

/-! ## the insertion sort on naturals -/

theorem perm_insertBy {α : Type} (le : α → α → Bool) (x : α) (l : List α) :
    (insertBy le x l).Perm (x :: l) := by
  induction l with
  | nil => exact List.Perm.refl _
  | cons y ys ih =>
    simp only [insertBy]
    split
    · exact List.Perm.refl _
    · exact (List.Perm.cons y ih).trans (List.Perm.swap x y ys)

theorem perm_sortBy {α : Type} (le : α → α → Bool) (l : List α) : (sortBy le l).Perm l := by
  induction l with
  | nil => exact List.Perm.refl _
  | cons y ys ih =>
    show (insertBy le y (sortBy le ys)).Perm (y :: ys)
    exact (perm_insertBy le y _).trans (List.Perm.cons y ih)

theorem pairwise_insertN (x : Nat) (l : List Nat) (h : l.Pairwise (· ≤ ·)) :
    (insertBy (fun a b => decide (a ≤ b)) x l).Pairwise (· ≤ ·) := by
  induction l with
  | nil => simp [insertBy]
  | cons y ys ih =>
    simp only [insertBy]
    split
    · rename_i hxy
      have hxy : x ≤ y := of_decide_eq_true hxy
      rw [List.pairwise_cons] at h
      refine List.pairwise_cons.2 ⟨?_, List.pairwise_cons.2 h⟩
      intro a ha
      rcases List.mem_cons.1 ha with rfl | ha
      · exact hxy
      · exact Nat.le_trans hxy (h.1 a ha)
    · rename_i hxy
      have hxy : ¬ x ≤ y := fun hh => hxy (decide_eq_true hh)
      rw [List.pairwise_cons] at h
      refine List.pairwise_cons.2 ⟨?_, ih h.2⟩
      intro a ha
      have := (perm_insertBy _ x ys).mem_iff.1 ha
      rcases List.mem_cons.1 this with rfl | h'
      · omega
      · exact h.1 a h'

theorem pairwise_sortN (l : List Nat) : (sortN l).Pairwise (· ≤ ·) := by
  induction l with
  | nil => exact List.Pairwise.nil
  | cons y ys ih => exact pairwise_insertN y _ ih

theorem pairwise_lt_sortN (l : List Nat) (hnd : l.Nodup) : (sortN l).Pairwise (· < ·) := by
  have h1 := pairwise_sortN l
  have h2 : (sortN l).Nodup := (perm_sortBy _ l).nodup_iff.2 hnd
  have h3 : (sortN l).Pairwise (fun a b => a ≤ b ∧ a ≠ b) := h1.and h2
  exact h3.imp (fun ⟨a, b⟩ => by omega)

/-! ## `sortedValues` -/

theorem mem_sortedValues (ranks : List Nat) (hr : ∀ r ∈ ranks, 2 ≤ r ∧ r ≤ 14) (v : Nat) :
    v ∈ sortedValues ranks ↔ rankOfValue v ∈ ranks := by
  unfold sortedValues sortN
  rw [(perm_sortBy _ _).mem_iff, List.mem_flatMap]
  constructor
  · rintro ⟨r, hrm, hv⟩
    by_cases h14 : r = 14
    · subst h14
      simp at hv
      rcases hv with rfl | rfl <;> exact hrm
    · have : v = r := by simpa [h14] using hv
      subst this
      have := hr v hrm
      rw [rankOfValue_of_ne_one v (by omega)]; exact hrm
  · intro h
    refine ⟨rankOfValue v, h, ?_⟩
    by_cases h1 : v = 1
    · subst h1; simp [rankOfValue]
    · rw [rankOfValue_of_ne_one v h1]
      by_cases h14 : v = 14
      · simp [h14]
      · simp [h14]

theorem nodup_sortedValues_pre (ranks : List Nat) (hnd : ranks.Nodup) (hr : ∀ r ∈ ranks, 2 ≤ r ∧ r ≤ 14) :
    (ranks.flatMap fun r => if r == 14 then [1, 14] else [r]).Nodup := by
  rw [List.nodup_flatMap]
  constructor
  · intro r _
    by_cases h14 : r = 14 <;> simp [h14]
  · refine List.Pairwise.imp_of_mem ?_ hnd
    intro a b ha hb hab
    have h1 := hr a ha
    have h2 := hr b hb
    intro x hxa hxb
    by_cases ha14 : a = 14 <;> by_cases hb14 : b = 14 <;> simp [ha14, hb14] at hxa hxb <;> omega

theorem sorted_sortedValues (ranks : List Nat) (hnd : ranks.Nodup) (hr : ∀ r ∈ ranks, 2 ≤ r ∧ r ≤ 14) :
    (sortedValues ranks).Pairwise (· < ·) :=
  pairwise_lt_sortN _ (nodup_sortedValues_pre ranks hnd hr)

theorem sortedValues_bounds (ranks : List Nat) (hr : ∀ r ∈ ranks, 2 ≤ r ∧ r ≤ 14) (v : Nat)
    (hv : v ∈ sortedValues ranks) : 1 ≤ v ∧ v ≤ 14 := by
  have h := hr _ ((mem_sortedValues ranks hr v).1 hv)
  by_cases h1 : v = 1
  · omega
  · rw [rankOfValue_of_ne_one v h1] at h; omega

/-! ## the loop -/

theorem mem_lengthsFor (minLen maxLen inRow value : Nat) (h2 : minLen ≤ maxLen) (top len : Nat) :
    (top, len) ∈ lengthsFor minLen maxLen inRow value ↔
      top = value ∧ minLen ≤ len ∧ len ≤ maxLen ∧ len ≤ inRow + 1 := by
  simp only [lengthsFor, List.mem_map, List.mem_filter, List.mem_range'_1, Prod.mk.injEq, decide_eq_true_eq]
  constructor
  · rintro ⟨L, ⟨hL1, hL2⟩, rfl, rfl⟩; omega
  · rintro ⟨rfl, a, b, c⟩; exact ⟨len, ⟨⟨a, by omega⟩, c⟩, rfl, rfl⟩

theorem fst_of_mem_lengthsFor (minLen maxLen inRow value : Nat) (p : Nat × Nat)
    (h : p ∈ lengthsFor minLen maxLen inRow value) : p.1 = value := by
  simp only [lengthsFor, List.mem_map] at h
  obtain ⟨L, _, rfl⟩ := h; rfl

theorem nodup_lengthsFor (minLen maxLen inRow value : Nat) : (lengthsFor minLen maxLen inRow value).Nodup := by
  unfold lengthsFor
  refine List.Nodup.map ?_ (List.Nodup.filter _ List.nodup_range')
  intro a b h; exact (Prod.mk.inj h).2

theorem lengthsFor_eq_nil (minLen maxLen inRow value : Nat) (h : inRow + 1 < minLen) :
    lengthsFor minLen maxLen inRow value = [] := by
  unfold lengthsFor
  rw [List.map_eq_nil_iff, List.filter_eq_nil_iff]
  intro L hL
  rw [List.mem_range'_1] at hL
  simp only [decide_eq_true_eq]; omega

theorem rsLoop_cons (minLen maxLen N ii inRow last v : Nat) (rest : List Nat) :
    rsLoop minLen maxLen N ii inRow last (v :: rest) =
      if N + (if last + 1 == v then inRow + 1 else 0) < minLen + ii then
        lengthsFor minLen maxLen (if last + 1 == v then inRow + 1 else 0) v
      else lengthsFor minLen maxLen (if last + 1 == v then inRow + 1 else 0) v ++
        rsLoop minLen maxLen N (ii + 1) (if last + 1 == v then inRow + 1 else 0) v rest := by
  rw [rsLoop]

/-- too few values left: nothing is emitted any more (this is what makes the early exit sound) -/
theorem rsLoop_eq_nil (minLen maxLen N : Nat) :
    ∀ (l : List Nat) (ii inRow last : Nat), inRow + l.length + 1 < minLen →
      rsLoop minLen maxLen N ii inRow last l = [] := by
  intro l
  induction l with
  | nil => intro ii inRow last _; rw [rsLoop]
  | cons v rest ih =>
    intro ii inRow last h
    rw [rsLoop_cons]
    obtain ⟨inRow', hin⟩ : ∃ x, x = if last + 1 == v then inRow + 1 else 0 := ⟨_, rfl⟩
    rw [← hin]
    have hle : inRow' ≤ inRow + 1 := by
      rw [hin]; split <;> omega
    simp only [List.length_cons] at h
    have h1 := lengthsFor_eq_nil minLen maxLen inRow' v (by omega)
    have h2 := ih (ii + 1) inRow' v (by omega)
    rw [h1, h2]; simp

theorem fst_mem_of_mem_rsLoop (minLen maxLen N : Nat) (p : Nat × Nat) :
    ∀ (l : List Nat) (ii inRow last : Nat), p ∈ rsLoop minLen maxLen N ii inRow last l → p.1 ∈ l := by
  intro l
  induction l with
  | nil => intro ii inRow last h; rw [rsLoop] at h; simp at h
  | cons v rest ih =>
    intro ii inRow last h
    rw [rsLoop_cons] at h
    generalize (if last + 1 == v then inRow + 1 else 0) = inRow' at h
    split at h
    · rw [fst_of_mem_lengthsFor _ _ _ _ _ h]; exact List.mem_cons_self ..
    · rcases List.mem_append.1 h with h | h
      · rw [fst_of_mem_lengthsFor _ _ _ _ _ h]; exact List.mem_cons_self ..
      · exact List.mem_cons_of_mem _ (ih _ _ _ h)

theorem nodup_rsLoop (minLen maxLen N : Nat) :
    ∀ (l : List Nat) (ii inRow last : Nat), l.Pairwise (· < ·) →
      (rsLoop minLen maxLen N ii inRow last l).Nodup := by
  intro l
  induction l with
  | nil => intro ii inRow last _; rw [rsLoop]; exact List.nodup_nil
  | cons v rest ih =>
    intro ii inRow last hp
    rw [rsLoop_cons]
    rw [List.pairwise_cons] at hp
    generalize (if last + 1 == v then inRow + 1 else 0) = inRow'
    split
    · exact nodup_lengthsFor ..
    · refine List.Nodup.append (nodup_lengthsFor ..) (ih _ _ _ hp.2) ?_
      intro p h1 h2
      have e1 := fst_of_mem_lengthsFor _ _ _ _ _ h1
      have e2 := fst_mem_of_mem_rsLoop _ _ _ _ _ _ _ _ h2
      have := hp.1 _ e2
      omega

/-- the loop invariant: `inRow + 1` consecutive values end at `last`; the loop then emits exactly the windows
ending at a later value that lie inside `[last - inRow, last] ∪ l` -/
theorem mem_rsLoop (minLen maxLen N : Nat) (hm : 2 ≤ minLen) (h2 : minLen ≤ maxLen) (top len : Nat) :
    ∀ (l : List Nat) (ii inRow last : Nat), (last :: l).Pairwise (· < ·) → inRow < last →
      N = ii + 1 + l.length →
      ((top, len) ∈ rsLoop minLen maxLen N ii inRow last l ↔
        top ∈ l ∧ minLen ≤ len ∧ len ≤ maxLen ∧ len ≤ top ∧
          ∀ w, top + 1 - len ≤ w → w ≤ top → (w ∈ l ∨ (last - inRow ≤ w ∧ w ≤ last))) := by
  intro l
  induction l with
  | nil => intro ii inRow last _ _ _; rw [rsLoop]; simp
  | cons v rest ih =>
    intro ii inRow last hp hlt hN
    have hpv : (v :: rest).Pairwise (· < ·) := (List.pairwise_cons.1 hp).2
    have hlv : last < v := (List.pairwise_cons.1 hp).1 v (List.mem_cons_self ..)
    have hrest : ∀ a ∈ rest, v < a := (List.pairwise_cons.1 hpv).1
    rw [rsLoop_cons]
    obtain ⟨inRow', hin⟩ : ∃ x, x = if last + 1 == v then inRow + 1 else 0 := ⟨_, rfl⟩
    rw [← hin]
    have hcase : (v = last + 1 ∧ inRow' = inRow + 1) ∨ (v ≠ last + 1 ∧ inRow' = 0) := by
      by_cases hc : last + 1 = v
      · left; rw [hin]; simp [hc]
      · right; rw [hin]; simp [hc]; omega
    have hin' : inRow' < v := by omega
    simp only [List.length_cons] at hN
    have IH := ih (ii + 1) inRow' v hpv hin' (by omega)
    have hout := mem_lengthsFor minLen maxLen inRow' v h2 top len
    -- the window condition for `top = v`
    have htop : top = v → minLen ≤ len →
        ((len ≤ top ∧ ∀ w, top + 1 - len ≤ w → w ≤ top →
          (w ∈ v :: rest ∨ (last - inRow ≤ w ∧ w ≤ last))) ↔ len ≤ inRow' + 1) := by
      intro htv hml
      subst htv
      constructor
      · rintro ⟨hlt', hw⟩
        have hw1 := hw (top + 1 - len) (Nat.le_refl _) (by omega)
        rcases hcase with ⟨hc1, hc2⟩ | ⟨hc1, hc2⟩
        · rcases hw1 with hw1 | hw1
          · rcases List.mem_cons.1 hw1 with hw1 | hw1
            · omega
            · have := hrest _ hw1; omega
          · omega
        · rcases hw1 with hw1 | hw1
          · rcases List.mem_cons.1 hw1 with hw1 | hw1
            · omega
            · have := hrest _ hw1; omega
          · have hw2 := hw (last + 1) (by omega) (by omega)
            rcases hw2 with hw2 | hw2
            · rcases List.mem_cons.1 hw2 with hw2 | hw2
              · omega
              · have := hrest _ hw2; omega
            · omega
      · intro hle
        refine ⟨by omega, ?_⟩
        intro w hw1 hw2
        by_cases hwv : w = top
        · left; rw [hwv]; exact List.mem_cons_self ..
        · right; omega
    -- the window condition for `top ∈ rest`
    have hwin : top ∈ rest →
        ((∀ w, top + 1 - len ≤ w → w ≤ top → (w ∈ rest ∨ (v - inRow' ≤ w ∧ w ≤ v))) ↔
         (∀ w, top + 1 - len ≤ w → w ≤ top → (w ∈ v :: rest ∨ (last - inRow ≤ w ∧ w ≤ last)))) := by
      intro htr
      have htv := hrest _ htr
      constructor
      · intro hw w hw1 hw2
        rcases hw w hw1 hw2 with h | h
        · left; exact List.mem_cons_of_mem _ h
        · by_cases hwv : w = v
          · left; rw [hwv]; exact List.mem_cons_self ..
          · right; omega
      · intro hw w hw1 hw2
        rcases hw w hw1 hw2 with h | h
        · rcases List.mem_cons.1 h with h | h
          · right; omega
          · left; exact h
        · rcases hcase with ⟨hc1, hc2⟩ | ⟨hc1, hc2⟩
          · right; omega
          · exfalso
            rcases hw (last + 1) (by omega) (by omega) with h' | h'
            · rcases List.mem_cons.1 h' with h' | h'
              · omega
              · have := hrest _ h'; omega
            · omega
    have hgoal : ((top = v ∧ minLen ≤ len ∧ len ≤ maxLen ∧ len ≤ inRow' + 1) ∨
        (top ∈ rest ∧ minLen ≤ len ∧ len ≤ maxLen ∧ len ≤ top ∧
          ∀ w, top + 1 - len ≤ w → w ≤ top → (w ∈ rest ∨ (v - inRow' ≤ w ∧ w ≤ v)))) ↔
        (top ∈ v :: rest ∧ minLen ≤ len ∧ len ≤ maxLen ∧ len ≤ top ∧
          ∀ w, top + 1 - len ≤ w → w ≤ top → (w ∈ v :: rest ∨ (last - inRow ≤ w ∧ w ≤ last))) := by
      constructor
      · rintro (⟨h1, h2', h3, h4⟩ | ⟨h1, h2', h3, h4, h5⟩)
        · have := (htop h1 h2').2 h4
          exact ⟨h1 ▸ List.mem_cons_self .., h2', h3, this.1, this.2⟩
        · exact ⟨List.mem_cons_of_mem _ h1, h2', h3, h4, (hwin h1).1 h5⟩
      · rintro ⟨h1, h2', h3, h4, h5⟩
        rcases List.mem_cons.1 h1 with h1 | h1
        · left; exact ⟨h1, h2', h3, (htop h1 h2').1 ⟨h4, h5⟩⟩
        · right; exact ⟨h1, h2', h3, h4, (hwin h1).2 h5⟩
    split
    · rename_i hexit
      have hnil := rsLoop_eq_nil minLen maxLen N rest (ii + 1) inRow' v (by omega)
      rw [hnil] at IH
      rw [hout, ← hgoal]
      constructor
      · intro h; exact Or.inl h
      · rintro (h | h)
        · exact h
        · exact absurd (IH.2 h) (by simp)
    · rw [List.mem_append, hout, IH, hgoal]

/-- a window of at most 13 values inside `1..14` uses as many distinct ranks as it has values -/
theorem window_length_le (ranks : List Nat) (top len : Nat) (hlt : len ≤ top) (hl : len ≤ 13)
    (hw : ∀ v, top + 1 - len ≤ v → v ≤ top → rankOfValue v ∈ ranks) : len ≤ ranks.length := by
  have hnd' : ((List.range' (top + 1 - len) len).map rankOfValue).Nodup := by
    refine List.Nodup.map_on ?_ List.nodup_range'
    intro a ha b hb hab
    rw [List.mem_range'_1] at ha hb
    rcases (rankOfValue_eq_iff a b).1 hab with h | h | h <;> omega
  have hsub : (List.range' (top + 1 - len) len).map rankOfValue ⊆ ranks := by
    intro r hr
    obtain ⟨v, hv, rfl⟩ := List.mem_map.1 hr
    rw [List.mem_range'_1] at hv
    exact hw v hv.1 (by omega)
  have := (hnd'.subperm hsub).length_le
  simpa using this

/-- **the run finder = the window specification** (for `minLen = 1` the statement fails: the first value never
ends a window, `rankStraightsV [5] 1 1 = []`) -/
theorem rankStraightsV_spec (ranks : List Nat) (hnd : ranks.Nodup) (hr : ∀ r ∈ ranks, 2 ≤ r ∧ r ≤ 14)
    (minLen maxLen : Nat) (h1 : 2 ≤ minLen) (h2 : minLen ≤ maxLen) (h3 : maxLen ≤ 13) (top len : Nat) :
    (top, len) ∈ rankStraightsV ranks minLen maxLen ↔
      minLen ≤ len ∧ len ≤ maxLen ∧ len ≤ top ∧ top ≤ 14 ∧
      ∀ v, top + 1 - len ≤ v → v ≤ top → rankOfValue v ∈ ranks := by
  have hmem := mem_sortedValues ranks hr
  have hsorted := sorted_sortedValues ranks hnd hr
  have hb := sortedValues_bounds ranks hr
  unfold rankStraightsV
  split
  · rename_i hguard
    constructor
    · intro h; simp at h
    · rintro ⟨a, b, c, d, e⟩
      have := window_length_le ranks top len c (by omega) e
      omega
  · generalize sortedValues ranks = vals at hmem hsorted hb
    cases vals with
    | nil =>
      simp only [List.not_mem_nil, false_iff]
      rintro ⟨a, b, c, d, e⟩
      have := (hmem top).2 (e top (by omega) (Nat.le_refl _))
      simp at this
    | cons v0 rest =>
      simp only []
      have hv0 := hb v0 (List.mem_cons_self ..)
      rw [mem_rsLoop minLen maxLen _ h1 h2 top len rest 0 0 v0 hsorted (by omega) (by omega)]
      have hW : ∀ w, (w ∈ rest ∨ (v0 - 0 ≤ w ∧ w ≤ v0)) ↔ rankOfValue w ∈ ranks := by
        intro w
        rw [← hmem w, List.mem_cons]
        constructor
        · rintro (h | h)
          · exact Or.inr h
          · left; omega
        · rintro (h | h)
          · right; omega
          · exact Or.inl h
      simp only [hW]
      constructor
      · rintro ⟨ht, a, b, c, e⟩
        exact ⟨a, b, c, (hb top (List.mem_cons_of_mem _ ht)).2, e⟩
      · rintro ⟨a, b, c, d, e⟩
        refine ⟨?_, a, b, c, e⟩
        have ht := (hmem top).2 (e top (by omega) (Nat.le_refl _))
        have ht1 := (hmem (top - 1)).2 (e (top - 1) (by omega) (by omega))
        rcases List.mem_cons.1 ht with h | h
        · exfalso
          rcases List.mem_cons.1 ht1 with h' | h'
          · omega
          · have := (List.pairwise_cons.1 hsorted).1 _ h'; omega
        · exact h

example : rankStraightsV [5] 1 1 = [] := by decide

/-- with `minLen = 1` the equivalence is false (ranks `[5]`, window `(top, len) = (5, 1)`): hence `2 ≤ minLen` -/
example : ¬ ((5, 1) ∈ rankStraightsV [5] 1 1 ↔
    1 ≤ 1 ∧ 1 ≤ 1 ∧ 1 ≤ 5 ∧ 5 ≤ 14 ∧ ∀ v, 5 + 1 - 1 ≤ v → v ≤ 5 → rankOfValue v ∈ [5]) := by
  intro h
  have h' : (5, 1) ∈ rankStraightsV [5] 1 1 := by
    refine h.2 ⟨by omega, by omega, by omega, by omega, ?_⟩
    intro v h1 h2
    have : v = 5 := by omega
    subst this; decide
  revert h'; decide

theorem rankStraightsV_nodup (ranks : List Nat) (hnd : ranks.Nodup) (hr : ∀ r ∈ ranks, 2 ≤ r ∧ r ≤ 14)
    (minLen maxLen : Nat) : (rankStraightsV ranks minLen maxLen).Nodup := by
  have hsorted := sorted_sortedValues ranks hnd hr
  unfold rankStraightsV
  split
  · exact List.nodup_nil
  · generalize sortedValues ranks = vals at hsorted
    cases vals with
    | nil => exact List.nodup_nil
    | cons v0 rest => exact nodup_rsLoop _ _ _ _ _ _ _ (List.pairwise_cons.1 hsorted).2

/-- a listed straight never has more values than the suit has ranks -/
theorem rankStraightsV_len_le (ranks : List Nat) (hnd : ranks.Nodup) (hr : ∀ r ∈ ranks, 2 ≤ r ∧ r ≤ 14)
    (minLen maxLen : Nat) (h1 : 2 ≤ minLen) (h2 : minLen ≤ maxLen) (h3 : maxLen ≤ 13) (top len : Nat)
    (h : (top, len) ∈ rankStraightsV ranks minLen maxLen) : len ≤ ranks.length := by
  obtain ⟨a, b, c, d, e⟩ := (rankStraightsV_spec ranks hnd hr minLen maxLen h1 h2 h3 top len).1 h
  exact window_length_le ranks top len c (by omega) e

/-! ## the cards of a run -/

theorem straightCards_eq (suit top len : Nat) :
    straightCards suit (top, len) = runCards suit (top + 1 - len) len := rfl

theorem mem_runCards (suit lo len : Nat) (c : Card) :
    c ∈ runCards suit lo len ↔ ∃ v, lo ≤ v ∧ v < lo + len ∧ c = ⟨rankOfValue v, suit⟩ := by
  unfold runCards
  simp only [List.mem_map, List.mem_range'_1]
  constructor
  · rintro ⟨v, ⟨h1, h2⟩, rfl⟩; exact ⟨v, h1, h2, rfl⟩
  · rintro ⟨v, h1, h2, rfl⟩; exact ⟨v, ⟨h1, h2⟩, rfl⟩

@[simp] theorem length_runCards (suit lo len : Nat) : (runCards suit lo len).length = len := by
  simp [runCards]

/-- the runs of one suit listed by `rank_straights` -/
theorem mem_rankStraights (ranks : List Nat) (hnd : ranks.Nodup) (hr : ∀ r ∈ ranks, 2 ≤ r ∧ r ≤ 14)
    (minLen maxLen : Nat) (h1 : 2 ≤ minLen) (h2 : minLen ≤ maxLen) (h3 : maxLen ≤ 13) (suit : Nat)
    (m : List Card) :
    m ∈ rankStraights ranks minLen maxLen suit ↔
      ∃ lo len, minLen ≤ len ∧ len ≤ maxLen ∧ 1 ≤ lo ∧ lo + len ≤ 15 ∧
        (∀ v, lo ≤ v → v < lo + len → rankOfValue v ∈ ranks) ∧ m = runCards suit lo len := by
  unfold rankStraights
  rw [List.mem_map]
  constructor
  · rintro ⟨⟨top, len⟩, h, rfl⟩
    obtain ⟨a, b, c, d, e⟩ := (rankStraightsV_spec ranks hnd hr minLen maxLen h1 h2 h3 top len).1 h
    exact ⟨top + 1 - len, len, a, b, by omega, by omega, fun v hv1 hv2 => e v hv1 (by omega),
      straightCards_eq suit top len⟩
  · rintro ⟨lo, len, a, b, c, d, e, rfl⟩
    refine ⟨(lo + len - 1, len), ?_, ?_⟩
    · rw [rankStraightsV_spec ranks hnd hr minLen maxLen h1 h2 h3]
      exact ⟨a, b, by omega, by omega, fun v hv1 hv2 => e v (by omega) (by omega)⟩
    · rw [straightCards_eq]
      have : lo + len - 1 + 1 - len = lo := by omega
      rw [this]

/-- two runs with the same cards are the same run – except the full suit, which is both A‥K and 2‥A -/
theorem runCards_perm_inj (s lo len s' lo' len' : Nat) (h2 : 2 ≤ len) (hlen : len ≤ 12) (hlo : 1 ≤ lo)
    (hhi : lo + len ≤ 15) (hlo' : 1 ≤ lo') (hhi' : lo' + len' ≤ 15)
    (hp : (runCards s lo len).Perm (runCards s' lo' len')) : s = s' ∧ lo = lo' ∧ len = len' := by
  have hl : len = len' := by simpa using hp.length_eq
  subst hl
  have aux : ∀ (s s' lo lo' : Nat), 1 ≤ lo → lo + len ≤ 15 → 1 ≤ lo' → lo' + len ≤ 15 →
      (runCards s lo len).Perm (runCards s' lo' len) → lo < lo' → False := by
    intro s s' lo lo' hlo hhi hlo' hhi' hp hlt
    have hc' : (⟨rankOfValue (lo' + len - 1), s'⟩ : Card) ∈ runCards s' lo' len :=
      (mem_runCards ..).2 ⟨_, by omega, by omega, rfl⟩
    obtain ⟨v, hv1, hv2, hv3⟩ := (mem_runCards ..).1 (hp.mem_iff.2 hc')
    have hv3 := (Card.mk.inj hv3).1
    rcases (rankOfValue_eq_iff _ _).1 hv3 with h | h | h
    · omega
    · omega
    · have hc : (⟨rankOfValue 2, s⟩ : Card) ∈ runCards s lo len :=
        (mem_runCards ..).2 ⟨_, by omega, by omega, rfl⟩
      obtain ⟨w, hw1, hw2, hw3⟩ := (mem_runCards ..).1 (hp.mem_iff.1 hc)
      have hw3 := (Card.mk.inj hw3).1
      rcases (rankOfValue_eq_iff _ _).1 hw3 with h' | h' | h' <;> omega
  have hs : s = s' := by
    have hc : (⟨rankOfValue lo, s⟩ : Card) ∈ runCards s lo len :=
      (mem_runCards ..).2 ⟨_, Nat.le_refl _, by omega, rfl⟩
    obtain ⟨w, _, _, hw3⟩ := (mem_runCards ..).1 (hp.mem_iff.1 hc)
    exact (Card.mk.inj hw3).2
  refine ⟨hs, ?_, rfl⟩
  rcases Nat.lt_trichotomy lo lo' with h | h | h
  · exact (aux s s' lo lo' hlo hhi hlo' hhi' hp h).elim
  · exact h
  · exact (aux s' s lo' lo hlo' hhi' hlo hhi hp.symm h).elim

/-- a set is never a run -/
theorem not_perm_set_run (a b : List Card) (ha : IsSet a) (hb : IsRun b) : ¬ a.Perm b := by
  intro hp
  obtain ⟨_, _, r, hr⟩ := ha
  obtain ⟨suit, lo, len, h3, _, _, _, hb⟩ := hb
  have hp' := hp.trans hb
  have h1 : (⟨rankOfValue lo, suit⟩ : Card) ∈ runCards suit lo len :=
    (mem_runCards ..).2 ⟨_, Nat.le_refl _, by omega, rfl⟩
  have h2 : (⟨rankOfValue (lo + 1), suit⟩ : Card) ∈ runCards suit lo len :=
    (mem_runCards ..).2 ⟨_, by omega, by omega, rfl⟩
  have e1 := hr _ (hp'.mem_iff.2 h1)
  have e2 := hr _ (hp'.mem_iff.2 h2)
  have : rankOfValue lo = rankOfValue (lo + 1) := e1.trans e2.symm
  rcases (rankOfValue_eq_iff _ _).1 this with h | h | h <;> omega

/-! ## `dedupFirst`, `combinations` -/

theorem dedupFirst_aux {α : Type} [DecidableEq α] (l : List α) : ∀ acc : List α, acc.Nodup →
    (l.foldl (fun acc x => if x ∈ acc then acc else acc ++ [x]) acc).Nodup ∧
    ∀ a, a ∈ l.foldl (fun acc x => if x ∈ acc then acc else acc ++ [x]) acc ↔ a ∈ acc ∨ a ∈ l := by
  induction l with
  | nil => intro acc h; simp [h]
  | cons x xs ih =>
    intro acc h
    simp only [List.foldl_cons]
    by_cases hx : x ∈ acc
    · simp only [hx, if_true]
      obtain ⟨h1, h2⟩ := ih acc h
      refine ⟨h1, fun a => ?_⟩
      rw [h2 a]; simp only [List.mem_cons]
      constructor
      · rintro (h | h)
        · exact Or.inl h
        · exact Or.inr (Or.inr h)
      · rintro (h | rfl | h)
        · exact Or.inl h
        · exact Or.inl hx
        · exact Or.inr h
    · simp only [hx, if_false]
      have hnd : (acc ++ [x]).Nodup :=
        (List.perm_append_singleton x acc).nodup_iff.2 (List.nodup_cons.2 ⟨hx, h⟩)
      obtain ⟨h1, h2⟩ := ih (acc ++ [x]) hnd
      refine ⟨h1, fun a => ?_⟩
      rw [h2 a, List.mem_append, List.mem_singleton, List.mem_cons, or_assoc]

theorem nodup_dedupFirst {α : Type} [DecidableEq α] (l : List α) : (dedupFirst l).Nodup :=
  (dedupFirst_aux l [] List.nodup_nil).1

theorem mem_dedupFirst {α : Type} [DecidableEq α] (l : List α) (a : α) : a ∈ dedupFirst l ↔ a ∈ l := by
  unfold dedupFirst
  simpa using (dedupFirst_aux l [] List.nodup_nil).2 a

theorem mem_combinations {α : Type} (l : List α) :
    ∀ (k : Nat) (m : List α), m ∈ combinations k l ↔ m.Sublist l ∧ m.length = k := by
  induction l with
  | nil =>
    intro k m
    cases k with
    | zero =>
      simp only [combinations, List.mem_singleton, List.sublist_nil]
      constructor
      · rintro rfl; exact ⟨rfl, rfl⟩
      · rintro ⟨h, _⟩; exact h
    | succ k =>
      simp only [combinations, List.not_mem_nil, List.sublist_nil, false_iff]
      rintro ⟨rfl, h⟩; simp at h
  | cons x xs ih =>
    intro k m
    cases k with
    | zero =>
      simp only [combinations, List.mem_singleton]
      constructor
      · rintro rfl; exact ⟨List.nil_sublist _, rfl⟩
      · rintro ⟨_, h⟩; exact List.length_eq_zero_iff.1 h
    | succ k =>
      simp only [combinations, List.mem_append, List.mem_map, List.sublist_cons_iff]
      rw [ih (k + 1) m]
      constructor
      · rintro (⟨a, ha, rfl⟩ | ⟨h1, h2⟩)
        · have := (ih k a).1 ha
          exact ⟨Or.inr ⟨a, rfl, this.1⟩, by simp [this.2]⟩
        · exact ⟨Or.inl h1, h2⟩
      · rintro ⟨h1 | ⟨a, rfl, ha⟩, h2⟩
        · exact Or.inr ⟨h1, h2⟩
        · exact Or.inl ⟨a, (ih k a).2 ⟨ha, by simpa using h2⟩, rfl⟩

theorem pairwise_combinations {α : Type} (l : List α) :
    ∀ k, l.Nodup → (combinations k l).Pairwise (fun a b => ¬ a.Perm b) := by
  induction l with
  | nil => intro k _; cases k <;> simp [combinations]
  | cons x xs ih =>
    intro k hnd
    cases k with
    | zero => simp [combinations]
    | succ k =>
      rw [List.nodup_cons] at hnd
      simp only [combinations]
      rw [List.pairwise_append]
      refine ⟨?_, ih (k + 1) hnd.2, ?_⟩
      · rw [List.pairwise_map]
        exact (ih k hnd.2).imp (fun h hp => h ((List.perm_cons x).1 hp))
      · intro a ha b hb hp
        obtain ⟨a', _, rfl⟩ := List.mem_map.1 ha
        have hb' := ((mem_combinations xs (k + 1) b).1 hb).1
        have : x ∈ b := hp.mem_iff.1 (List.mem_cons_self ..)
        exact hnd.1 (hb'.subset this)

/-! ## the partitions of a hand -/

/-- the values listed under key `k` -/
def vals (key val : Card → Nat) (cards : List Card) (k : Nat) : List Nat :=
  (cards.filter (key · == k)).map val

def part (key val : Card → Nat) (cards : List Card) : List (Nat × List Nat) :=
  (dedupFirst (cards.map key)).map fun k => (k, vals key val cards k)

theorem rankPartition_eq (cards : List Card) : rankPartition cards = part Card.rank Card.suit cards := rfl
theorem suitPartition_eq (cards : List Card) : suitPartition cards = part Card.suit Card.rank cards := rfl

theorem mem_part (key val : Card → Nat) (cards : List Card) (k : Nat) (vs : List Nat) :
    (k, vs) ∈ part key val cards ↔ (∃ c ∈ cards, key c = k) ∧ vs = vals key val cards k := by
  unfold part
  simp only [List.mem_map, mem_dedupFirst, Prod.mk.injEq]
  constructor
  · rintro ⟨k', ⟨c, hc, rfl⟩, rfl, rfl⟩; exact ⟨⟨c, hc, rfl⟩, rfl⟩
  · rintro ⟨⟨c, hc, rfl⟩, rfl⟩; exact ⟨key c, ⟨c, hc, rfl⟩, rfl, rfl⟩

theorem part_keys_pairwise (key val : Card → Nat) (cards : List Card) :
    (part key val cards).Pairwise (fun a b => a.1 ≠ b.1) := by
  unfold part
  rw [List.pairwise_map]
  exact nodup_dedupFirst _

section Vals
variable (key val : Card → Nat) (mkc : Nat → Nat → Card)
  (h1 : ∀ k v, key (mkc k v) = k) (h2 : ∀ k v, val (mkc k v) = v) (h3 : ∀ c, mkc (key c) (val c) = c)
include h1 h2 h3

theorem mem_vals (cards : List Card) (k v : Nat) : v ∈ vals key val cards k ↔ mkc k v ∈ cards := by
  unfold vals
  simp only [List.mem_map, List.mem_filter, beq_iff_eq]
  constructor
  · rintro ⟨c, ⟨hc, rfl⟩, rfl⟩; rw [h3]; exact hc
  · intro h; exact ⟨mkc k v, ⟨h, h1 k v⟩, h2 k v⟩

theorem nodup_vals (cards : List Card) (hnd : cards.Nodup) (k : Nat) : (vals key val cards k).Nodup := by
  have _ := h1; have _ := h2
  unfold vals
  refine List.Nodup.map_on ?_ (hnd.filter _)
  intro x hx y hy hxy
  simp only [List.mem_filter, beq_iff_eq] at hx hy
  rw [← h3 x, ← h3 y, hx.2, hy.2, hxy]

end Vals

theorem card_eta (c : Card) : Card.mk c.rank c.suit = c := by cases c; rfl

theorem mem_rankVals (hand : List Card) (r s : Nat) :
    s ∈ vals Card.rank Card.suit hand r ↔ (⟨r, s⟩ : Card) ∈ hand :=
  mem_vals Card.rank Card.suit Card.mk (fun _ _ => rfl) (fun _ _ => rfl) card_eta hand r s

theorem mem_suitVals (hand : List Card) (s r : Nat) :
    r ∈ vals Card.suit Card.rank hand s ↔ (⟨r, s⟩ : Card) ∈ hand :=
  mem_vals Card.suit Card.rank (fun s r => ⟨r, s⟩) (fun _ _ => rfl) (fun _ _ => rfl) card_eta hand s r

theorem nodup_rankVals (hand : List Card) (hok : HandOK hand) (r : Nat) :
    (vals Card.rank Card.suit hand r).Nodup :=
  nodup_vals Card.rank Card.suit Card.mk (fun _ _ => rfl) (fun _ _ => rfl) card_eta hand hok.1 r

theorem nodup_suitVals (hand : List Card) (hok : HandOK hand) (s : Nat) :
    (vals Card.suit Card.rank hand s).Nodup :=
  nodup_vals Card.suit Card.rank (fun s r => ⟨r, s⟩) (fun _ _ => rfl) (fun _ _ => rfl) card_eta hand hok.1 s

theorem length_rankVals_le (hand : List Card) (hok : HandOK hand) (r : Nat) :
    (vals Card.rank Card.suit hand r).length ≤ 4 := by
  have hsub : vals Card.rank Card.suit hand r ⊆ List.range 4 := by
    intro s hs
    have := hok.2 _ ((mem_rankVals hand r s).1 hs)
    exact List.mem_range.2 this.2.2
  simpa using ((nodup_rankVals hand hok r).subperm hsub).length_le

theorem bounds_suitVals (hand : List Card) (hok : HandOK hand) (s : Nat) :
    ∀ r ∈ vals Card.suit Card.rank hand s, 2 ≤ r ∧ r ≤ 14 := by
  intro r hr
  have := hok.2 _ ((mem_suitVals hand s r).1 hr)
  exact ⟨this.1, this.2.1⟩

theorem length_suitVals_le (hand : List Card) (s : Nat) :
    (vals Card.suit Card.rank hand s).length ≤ hand.length := by
  unfold vals; rw [List.length_map]; exact List.length_filter_le _ _

/-- a flat-map over a keyed list lists nothing twice (up to order) when each block does not and all melds of a
block carry the block's key -/
theorem pairwise_flatMap_keys {α : Type} (L : List (Nat × α)) (f : Nat × α → List (List Card))
    (key : Card → Nat) (hL : L.Pairwise (fun a b => a.1 ≠ b.1))
    (hin : ∀ p ∈ L, (f p).Pairwise (fun a b => ¬ a.Perm b))
    (hkey : ∀ p ∈ L, ∀ m ∈ f p, m ≠ [] ∧ ∀ c ∈ m, key c = p.1) :
    (L.flatMap f).Pairwise (fun a b => ¬ a.Perm b) := by
  rw [List.pairwise_flatMap]
  refine ⟨hin, hL.imp_of_mem ?_⟩
  intro p q hp hq hpq a ha b hb hab
  obtain ⟨hne, hk⟩ := hkey p hp a ha
  obtain ⟨_, hk'⟩ := hkey q hq b hb
  cases a with
  | nil => exact hne rfl
  | cons c cs =>
    have e1 := hk c (List.mem_cons_self ..)
    have e2 := hk' c (hab.mem_iff.1 (List.mem_cons_self ..))
    exact hpq (e1.symm.trans e2)

/-! ## sets -/

def sets3Of (p : Nat × List Nat) : List (List Card) :=
  if p.2.length == 4 then (combinations 3 p.2).map fun sc => sc.map (Card.mk p.1)
  else if p.2.length == 3 then [p.2.map (Card.mk p.1)] else []

def sets4Of (p : Nat × List Nat) : List (List Card) :=
  if p.2.length == 4 then [p.2.map (Card.mk p.1)] else []

theorem getSets_eq (hand : List Card) :
    getSets hand = ((rankPartition hand).flatMap sets3Of, (rankPartition hand).flatMap sets4Of) := by
  unfold getSets
  simp only []
  congr 1

theorem mem_sets3Of (r : Nat) (suits : List Nat) (hle : suits.length ≤ 4) (m : List Card) :
    m ∈ sets3Of (r, suits) ↔ ∃ sc : List Nat, sc.Sublist suits ∧ sc.length = 3 ∧ m = sc.map (Card.mk r) := by
  unfold sets3Of
  simp only [beq_iff_eq]
  split
  · simp only [List.mem_map, mem_combinations]
    constructor
    · rintro ⟨sc, ⟨h1, h2⟩, rfl⟩; exact ⟨sc, h1, h2, rfl⟩
    · rintro ⟨sc, h1, h2, rfl⟩; exact ⟨sc, ⟨h1, h2⟩, rfl⟩
  · split
    · rename_i h3
      simp only [List.mem_singleton]
      constructor
      · rintro rfl; exact ⟨suits, List.Sublist.refl _, h3, rfl⟩
      · rintro ⟨sc, h1, h2, rfl⟩; rw [h1.eq_of_length (by omega)]
    · simp only [List.not_mem_nil, false_iff]
      rintro ⟨sc, h1, h2, _⟩
      have := h1.length_le; omega

theorem mem_sets4Of (r : Nat) (suits : List Nat) (hle : suits.length ≤ 4) (m : List Card) :
    m ∈ sets4Of (r, suits) ↔ ∃ sc : List Nat, sc.Sublist suits ∧ sc.length = 4 ∧ m = sc.map (Card.mk r) := by
  unfold sets4Of
  simp only [beq_iff_eq]
  split
  · rename_i h4
    simp only [List.mem_singleton]
    constructor
    · rintro rfl; exact ⟨suits, List.Sublist.refl _, h4, rfl⟩
    · rintro ⟨sc, h1, h2, rfl⟩; rw [h1.eq_of_length (by omega)]
  · simp only [List.not_mem_nil, false_iff]
    rintro ⟨sc, h1, h2, _⟩
    have := h1.length_le; omega

theorem map_suit_map_mk (r : Nat) (l : List Nat) : (l.map (Card.mk r)).map Card.suit = l := by
  induction l with
  | nil => rfl
  | cons x xs ih => simp only [List.map_cons, ih]

theorem pairwise_sets3Of (r : Nat) (suits : List Nat) (hnd : suits.Nodup) :
    (sets3Of (r, suits)).Pairwise (fun a b => ¬ a.Perm b) := by
  unfold sets3Of
  split
  · rw [List.pairwise_map]
    refine (pairwise_combinations suits 3 hnd).imp ?_
    intro a b h hp
    apply h
    have := hp.map Card.suit
    rwa [map_suit_map_mk, map_suit_map_mk] at this
  · split
    · exact List.pairwise_singleton _ _
    · exact List.Pairwise.nil

theorem pairwise_sets4Of (r : Nat) (suits : List Nat) :
    (sets4Of (r, suits)).Pairwise (fun a b => ¬ a.Perm b) := by
  unfold sets4Of
  split
  · exact List.pairwise_singleton _ _
  · exact List.Pairwise.nil

/-- the listed 3-sets: the 3-element sub-lists of the suits held in a rank -/
theorem mem_getSets_fst (hand : List Card) (hok : HandOK hand) (m : List Card) :
    m ∈ (getSets hand).1 ↔
      ∃ (r : Nat) (sc : List Nat), sc.Sublist (vals Card.rank Card.suit hand r) ∧ sc.length = 3 ∧
        m = sc.map (Card.mk r) := by
  rw [getSets_eq, rankPartition_eq]
  simp only [List.mem_flatMap]
  constructor
  · rintro ⟨⟨r, suits⟩, hp, hm⟩
    obtain ⟨_, rfl⟩ := (mem_part ..).1 hp
    exact ⟨r, (mem_sets3Of r _ (length_rankVals_le hand hok r) m).1 hm⟩
  · rintro ⟨r, sc, h1, h2, rfl⟩
    refine ⟨(r, vals Card.rank Card.suit hand r), (mem_part ..).2 ⟨?_, rfl⟩,
      (mem_sets3Of r _ (length_rankVals_le hand hok r) _).2 ⟨sc, h1, h2, rfl⟩⟩
    cases sc with
    | nil => simp at h2
    | cons s _ =>
      exact ⟨_, (mem_rankVals hand r s).1 (h1.subset (List.mem_cons_self ..)), rfl⟩

/-- the listed 4-sets -/
theorem mem_getSets_snd (hand : List Card) (hok : HandOK hand) (m : List Card) :
    m ∈ (getSets hand).2 ↔
      ∃ (r : Nat) (sc : List Nat), sc.Sublist (vals Card.rank Card.suit hand r) ∧ sc.length = 4 ∧
        m = sc.map (Card.mk r) := by
  rw [getSets_eq, rankPartition_eq]
  simp only [List.mem_flatMap]
  constructor
  · rintro ⟨⟨r, suits⟩, hp, hm⟩
    obtain ⟨_, rfl⟩ := (mem_part ..).1 hp
    exact ⟨r, (mem_sets4Of r _ (length_rankVals_le hand hok r) m).1 hm⟩
  · rintro ⟨r, sc, h1, h2, rfl⟩
    refine ⟨(r, vals Card.rank Card.suit hand r), (mem_part ..).2 ⟨?_, rfl⟩,
      (mem_sets4Of r _ (length_rankVals_le hand hok r) _).2 ⟨sc, h1, h2, rfl⟩⟩
    cases sc with
    | nil => simp at h2
    | cons s _ =>
      exact ⟨_, (mem_rankVals hand r s).1 (h1.subset (List.mem_cons_self ..)), rfl⟩

/-- a sub-list of the suits held in rank `r`, of 3 or 4 elements, is a set inside the hand -/
theorem isSet_of_sublist (hand : List Card) (hok : HandOK hand) (r : Nat) (sc : List Nat)
    (h1 : sc.Sublist (vals Card.rank Card.suit hand r)) (h2 : sc.length = 3 ∨ sc.length = 4) :
    IsSet (sc.map (Card.mk r)) ∧ ∀ c ∈ sc.map (Card.mk r), c ∈ hand := by
  refine ⟨⟨?_, by simpa using h2, r, ?_⟩, ?_⟩
  · refine List.Nodup.map ?_ (h1.nodup (nodup_rankVals hand hok r))
    intro a b h; exact (Card.mk.inj h).2
  · intro c hc
    obtain ⟨s, _, rfl⟩ := List.mem_map.1 hc; rfl
  · intro c hc
    obtain ⟨s, hs, rfl⟩ := List.mem_map.1 hc
    exact (mem_rankVals hand r s).1 (h1.subset hs)

theorem sets3_sound (hand : List Card) (hok : HandOK hand) (m : List Card) (hm : m ∈ (getSets hand).1) :
    IsSet m ∧ m.length = 3 ∧ ∀ c ∈ m, c ∈ hand := by
  obtain ⟨r, sc, h1, h2, rfl⟩ := (mem_getSets_fst hand hok m).1 hm
  have := isSet_of_sublist hand hok r sc h1 (Or.inl h2)
  exact ⟨this.1, by simpa using h2, this.2⟩

theorem sets4_sound (hand : List Card) (hok : HandOK hand) (m : List Card) (hm : m ∈ (getSets hand).2) :
    IsSet m ∧ m.length = 4 ∧ ∀ c ∈ m, c ∈ hand := by
  obtain ⟨r, sc, h1, h2, rfl⟩ := (mem_getSets_snd hand hok m).1 hm
  have := isSet_of_sublist hand hok r sc h1 (Or.inr h2)
  exact ⟨this.1, by simpa using h2, this.2⟩

/-- every set inside the hand is (up to order) the image of a sub-list of the suits held in its rank -/
theorem set_as_sublist (hand : List Card) (hok : HandOK hand) (m' : List Card) (hs : IsSet m')
    (hsub : ∀ c ∈ m', c ∈ hand) :
    ∃ (r : Nat) (sc : List Nat), sc.Sublist (vals Card.rank Card.suit hand r) ∧ sc.length = m'.length ∧
      (sc.map (Card.mk r)).Perm m' := by
  obtain ⟨hnd, _, r, hr⟩ := hs
  refine ⟨r, (vals Card.rank Card.suit hand r).filter (fun s => decide ((⟨r, s⟩ : Card) ∈ m')),
    List.filter_sublist, ?_⟩
  have hperm : (((vals Card.rank Card.suit hand r).filter
      (fun s => decide ((⟨r, s⟩ : Card) ∈ m'))).map (Card.mk r)).Perm m' := by
    rw [List.perm_ext_iff_of_nodup ?_ hnd]
    · intro c
      simp only [List.mem_map, List.mem_filter, decide_eq_true_eq]
      constructor
      · rintro ⟨s, ⟨_, hs⟩, rfl⟩; exact hs
      · intro hc
        have hcr := hr c hc
        have hce : (⟨r, c.suit⟩ : Card) = c := by rw [← hcr]
        refine ⟨c.suit, ⟨(mem_rankVals hand r c.suit).2 ?_, ?_⟩, hce⟩
        · rw [hce]; exact hsub c hc
        · rw [hce]; exact hc
    · refine List.Nodup.map ?_ ((nodup_rankVals hand hok r).filter _)
      intro a b h; exact (Card.mk.inj h).2
  refine ⟨?_, hperm⟩
  simpa using hperm.length_eq

theorem sets_complete (hand : List Card) (hok : HandOK hand) (m' : List Card) (hs : IsSet m')
    (hsub : ∀ c ∈ m', c ∈ hand) :
    (m'.length = 3 → ∃ m ∈ (getSets hand).1, m.Perm m') ∧
    (m'.length = 4 → ∃ m ∈ (getSets hand).2, m.Perm m') := by
  obtain ⟨r, sc, h1, h2, h3⟩ := set_as_sublist hand hok m' hs hsub
  constructor
  · intro hl
    exact ⟨_, (mem_getSets_fst hand hok _).2 ⟨r, sc, h1, by omega, rfl⟩, h3⟩
  · intro hl
    exact ⟨_, (mem_getSets_snd hand hok _).2 ⟨r, sc, h1, by omega, rfl⟩, h3⟩

theorem sets_sound (hand : List Card) (hok : HandOK hand) (m : List Card)
    (hm : m ∈ (getSets hand).1 ++ (getSets hand).2) : IsSet m ∧ ∀ c ∈ m, c ∈ hand := by
  rcases List.mem_append.1 hm with h | h
  · have := sets3_sound hand hok m h; exact ⟨this.1, this.2.2⟩
  · have := sets4_sound hand hok m h; exact ⟨this.1, this.2.2⟩

theorem sets_complete' (hand : List Card) (hok : HandOK hand) (m' : List Card) (hs : IsSet m')
    (hsub : ∀ c ∈ m', c ∈ hand) : ∃ m ∈ (getSets hand).1 ++ (getSets hand).2, m.Perm m' := by
  have hc := sets_complete hand hok m' hs hsub
  rcases hs.2.1 with h3 | h4
  · obtain ⟨m, hm, hp⟩ := hc.1 h3; exact ⟨m, List.mem_append_left _ hm, hp⟩
  · obtain ⟨m, hm, hp⟩ := hc.2 h4; exact ⟨m, List.mem_append_right _ hm, hp⟩

theorem getSets_fst (hand : List Card) : (getSets hand).1 = (rankPartition hand).flatMap sets3Of := by
  rw [getSets_eq]

theorem getSets_snd (hand : List Card) : (getSets hand).2 = (rankPartition hand).flatMap sets4Of := by
  rw [getSets_eq]

theorem sets3_once (hand : List Card) (hok : HandOK hand) :
    ((getSets hand).1).Pairwise (fun a b => ¬ a.Perm b) := by
  rw [getSets_fst, rankPartition_eq]
  refine pairwise_flatMap_keys (part Card.rank Card.suit hand) sets3Of Card.rank (part_keys_pairwise ..) ?_ ?_
  · rintro ⟨r, suits⟩ hp
    obtain ⟨_, rfl⟩ := (mem_part ..).1 hp
    exact pairwise_sets3Of r _ (nodup_rankVals hand hok r)
  · rintro ⟨r, suits⟩ hp m hm
    obtain ⟨_, rfl⟩ := (mem_part ..).1 hp
    obtain ⟨sc, _, h2, rfl⟩ := (mem_sets3Of r _ (length_rankVals_le hand hok r) m).1 hm
    refine ⟨?_, ?_⟩
    · intro h; have := congrArg List.length h; simp [h2] at this
    · intro c hc; obtain ⟨s, _, rfl⟩ := List.mem_map.1 hc; rfl

theorem sets4_once (hand : List Card) (hok : HandOK hand) :
    ((getSets hand).2).Pairwise (fun a b => ¬ a.Perm b) := by
  rw [getSets_snd, rankPartition_eq]
  refine pairwise_flatMap_keys (part Card.rank Card.suit hand) sets4Of Card.rank (part_keys_pairwise ..) ?_ ?_
  · rintro ⟨r, suits⟩ _
    exact pairwise_sets4Of r suits
  · rintro ⟨r, suits⟩ hp m hm
    obtain ⟨_, rfl⟩ := (mem_part ..).1 hp
    obtain ⟨sc, _, h2, rfl⟩ := (mem_sets4Of r _ (length_rankVals_le hand hok r) m).1 hm
    refine ⟨?_, ?_⟩
    · intro h; have := congrArg List.length h; simp [h2] at this
    · intro c hc; obtain ⟨s, _, rfl⟩ := List.mem_map.1 hc; rfl

theorem sets_once (hand : List Card) (hok : HandOK hand) :
    ((getSets hand).1 ++ (getSets hand).2).Pairwise (fun a b => ¬ a.Perm b) := by
  rw [List.pairwise_append]
  refine ⟨sets3_once hand hok, sets4_once hand hok, ?_⟩
  intro a ha b hb hp
  have h3 := (sets3_sound hand hok a ha).2.1
  have h4 := (sets4_sound hand hok b hb).2.1
  have := hp.length_eq
  omega

/-! ## runs of a hand -/

def runsOf (a b : Nat) (p : Nat × List Nat) : List (List Card) := rankStraights p.2 a b p.1

theorem getRunsAll_eq (hand : List Card) : getRunsAll hand = (suitPartition hand).flatMap (runsOf 3 13) := by
  unfold getRunsAll
  congr 1

theorem getRuns34_eq (hand : List Card) :
    getRuns34 hand = ((suitPartition hand).flatMap (runsOf 3 3), (suitPartition hand).flatMap (runsOf 4 4)) := by
  unfold getRuns34
  simp only []
  congr 1

theorem getRuns34_fst (hand : List Card) : (getRuns34 hand).1 = (suitPartition hand).flatMap (runsOf 3 3) := by
  rw [getRuns34_eq]

theorem getRuns34_snd (hand : List Card) : (getRuns34 hand).2 = (suitPartition hand).flatMap (runsOf 4 4) := by
  rw [getRuns34_eq]

/-- the runs of length `a..b` listed for a hand: one per suit, lowest value and length whose cards are all held -/
theorem mem_runs (hand : List Card) (hok : HandOK hand) (a b : Nat) (h1 : 2 ≤ a) (h2 : a ≤ b) (h3 : b ≤ 13)
    (m : List Card) :
    m ∈ (suitPartition hand).flatMap (runsOf a b) ↔
      ∃ s lo len : Nat, a ≤ len ∧ len ≤ b ∧ 1 ≤ lo ∧ lo + len ≤ 15 ∧
        (∀ v, lo ≤ v → v < lo + len → (⟨rankOfValue v, s⟩ : Card) ∈ hand) ∧ m = runCards s lo len := by
  rw [suitPartition_eq, List.mem_flatMap]
  constructor
  · rintro ⟨⟨s, ranks⟩, hp, hm⟩
    obtain ⟨_, rfl⟩ := (mem_part ..).1 hp
    obtain ⟨lo, len, c1, c2, c3, c4, c5, rfl⟩ :=
      (mem_rankStraights _ (nodup_suitVals hand hok s) (bounds_suitVals hand hok s) a b h1 h2 h3 s m).1 hm
    exact ⟨s, lo, len, c1, c2, c3, c4, fun v hv1 hv2 => (mem_suitVals hand s _).1 (c5 v hv1 hv2), rfl⟩
  · rintro ⟨s, lo, len, c1, c2, c3, c4, c5, rfl⟩
    refine ⟨(s, vals Card.suit Card.rank hand s),
      (mem_part ..).2 ⟨⟨_, c5 lo (Nat.le_refl _) (by omega), rfl⟩, rfl⟩, ?_⟩
    exact (mem_rankStraights _ (nodup_suitVals hand hok s) (bounds_suitVals hand hok s) a b h1 h2 h3 s _).2
      ⟨lo, len, c1, c2, c3, c4, fun v hv1 hv2 => (mem_suitVals hand s _).2 (c5 v hv1 hv2), rfl⟩

theorem runs_sound (hand : List Card) (hok : HandOK hand) (a b : Nat) (h1 : 3 ≤ a) (h2 : a ≤ b) (h3 : b ≤ 13)
    (m : List Card) (hm : m ∈ (suitPartition hand).flatMap (runsOf a b)) :
    IsRun m ∧ a ≤ m.length ∧ m.length ≤ b ∧ ∀ c ∈ m, c ∈ hand := by
  obtain ⟨s, lo, len, c1, c2, c3, c4, c5, rfl⟩ := (mem_runs hand hok a b (by omega) h2 h3 m).1 hm
  refine ⟨⟨s, lo, len, by omega, by omega, c3, c4, List.Perm.refl _⟩, by simpa using c1, by simpa using c2, ?_⟩
  intro c hc
  obtain ⟨v, hv1, hv2, rfl⟩ := (mem_runCards ..).1 hc
  exact c5 v hv1 hv2

theorem runs_complete (hand : List Card) (hok : HandOK hand) (a b : Nat) (h1 : 2 ≤ a) (h2 : a ≤ b) (h3 : b ≤ 13)
    (m' : List Card) (hr : IsRun m') (hsub : ∀ c ∈ m', c ∈ hand) (ha : a ≤ m'.length) (hb : m'.length ≤ b) :
    ∃ m ∈ (suitPartition hand).flatMap (runsOf a b), m.Perm m' := by
  obtain ⟨s, lo, len, c1, c2, c3, c4, hp⟩ := hr
  have hl : m'.length = len := by simpa using hp.length_eq
  refine ⟨runCards s lo len, (mem_runs hand hok a b h1 h2 h3 _).2
    ⟨s, lo, len, by omega, by omega, c3, c4, ?_, rfl⟩, hp.symm⟩
  intro v hv1 hv2
  exact hsub _ (hp.mem_iff.2 ((mem_runCards ..).2 ⟨v, hv1, hv2, rfl⟩))

/-- no run is listed twice – unless a full 13-card suit is held (`A‥K` = `2‥A`) -/
theorem runs_once (hand : List Card) (hok : HandOK hand) (a b : Nat) (h1 : 2 ≤ a) (h2 : a ≤ b) (h3 : b ≤ 13)
    (h12 : b ≤ 12 ∨ hand.length ≤ 12) :
    ((suitPartition hand).flatMap (runsOf a b)).Pairwise (fun x y => ¬ x.Perm y) := by
  rw [suitPartition_eq]
  refine pairwise_flatMap_keys (part Card.suit Card.rank hand) (runsOf a b) Card.suit (part_keys_pairwise ..) ?_ ?_
  · rintro ⟨s, ranks⟩ hp
    obtain ⟨_, rfl⟩ := (mem_part ..).1 hp
    have hnd := nodup_suitVals hand hok s
    have hr := bounds_suitVals hand hok s
    show (rankStraights (vals Card.suit Card.rank hand s) a b s).Pairwise _
    unfold rankStraights
    rw [List.pairwise_map]
    refine List.Pairwise.imp_of_mem ?_ (rankStraightsV_nodup _ hnd hr a b)
    rintro ⟨t, l⟩ ⟨t', l'⟩ hm hm' hne hperm
    have hl := rankStraightsV_len_le _ hnd hr a b h1 h2 h3 t l hm
    have hl2 := length_suitVals_le hand s
    obtain ⟨c1, c2, c3, c4, _⟩ := (rankStraightsV_spec _ hnd hr a b h1 h2 h3 t l).1 hm
    obtain ⟨d1, d2, d3, d4, _⟩ := (rankStraightsV_spec _ hnd hr a b h1 h2 h3 t' l').1 hm'
    rw [straightCards_eq, straightCards_eq] at hperm
    obtain ⟨_, e1, e2⟩ := runCards_perm_inj s (t + 1 - l) l s (t' + 1 - l') l' (by omega) (by omega) (by omega)
      (by omega) (by omega) (by omega) hperm
    apply hne
    subst e2
    have : t = t' := by omega
    subst this; rfl
  · rintro ⟨s, ranks⟩ hp m hm
    obtain ⟨_, rfl⟩ := (mem_part ..).1 hp
    obtain ⟨lo, len, c1, c2, c3, c4, c5, rfl⟩ :=
      (mem_rankStraights _ (nodup_suitVals hand hok s) (bounds_suitVals hand hok s) a b h1 h2 h3 s m).1 hm
    refine ⟨?_, ?_⟩
    · intro h; have := congrArg List.length h; simp at this; omega
    · intro c hc
      obtain ⟨v, _, _, rfl⟩ := (mem_runCards ..).1 hc; rfl

/-! ## the interface theorem -/

theorem allMelds_eq (hand : List Card) :
    allMelds hand = (getSets hand).1 ++ (getSets hand).2 ++ getRunsAll hand := by
  unfold allMelds
  generalize getSets hand = p
  cases p; rfl

theorem allMelds_sound (hand : List Card) (hok : HandOK hand) :
    ∀ m ∈ allMelds hand, LegalMeld m ∧ ∀ c ∈ m, c ∈ hand := by
  intro m hm
  rw [allMelds_eq, List.mem_append, List.mem_append] at hm
  rcases hm with (hm | hm) | hm
  · have := sets3_sound hand hok m hm; exact ⟨Or.inl this.1, this.2.2⟩
  · have := sets4_sound hand hok m hm; exact ⟨Or.inl this.1, this.2.2⟩
  · rw [getRunsAll_eq] at hm
    have := runs_sound hand hok 3 13 (by omega) (by omega) (by omega) m hm
    exact ⟨Or.inr this.1, this.2.2.2⟩

theorem allMelds_complete (hand : List Card) (hok : HandOK hand) :
    ∀ m, LegalMeld m → (∀ c ∈ m, c ∈ hand) → ∃ m' ∈ allMelds hand, m'.Perm m := by
  intro m hl hsub
  rw [allMelds_eq]
  rcases hl with hs | hr
  · have hc := sets_complete hand hok m hs hsub
    rcases hs.2.1 with h3 | h4
    · obtain ⟨m', hm', hp⟩ := hc.1 h3
      exact ⟨m', List.mem_append_left _ (List.mem_append_left _ hm'), hp⟩
    · obtain ⟨m', hm', hp⟩ := hc.2 h4
      exact ⟨m', List.mem_append_left _ (List.mem_append_right _ hm'), hp⟩
  · have hlen : 3 ≤ m.length ∧ m.length ≤ 13 := by
      obtain ⟨s, lo, len, c1, c2, _, _, hp⟩ := hr
      have : m.length = len := by simpa using hp.length_eq
      omega
    obtain ⟨m', hm', hp⟩ := runs_complete hand hok 3 13 (by omega) (by omega) (by omega) m hr hsub hlen.1 hlen.2
    rw [← getRunsAll_eq] at hm'
    exact ⟨m', List.mem_append_right _ hm', hp⟩

theorem allMelds_once (hand : List Card) (hok : HandOK hand) (hlen : hand.length ≤ 12) :
    (allMelds hand).Pairwise fun a b => ¬ a.Perm b := by
  rw [allMelds_eq, List.pairwise_append]
  refine ⟨sets_once hand hok, ?_, ?_⟩
  · rw [getRunsAll_eq]
    exact runs_once hand hok 3 13 (by omega) (by omega) (by omega) (Or.inr hlen)
  · intro a ha b hb
    have hsa : IsSet a := by
      rcases List.mem_append.1 ha with h | h
      · exact (sets3_sound hand hok a h).1
      · exact (sets4_sound hand hok a h).1
    rw [getRunsAll_eq] at hb
    exact not_perm_set_run a b hsa (runs_sound hand hok 3 13 (by omega) (by omega) (by omega) b hb).1

/-- **C08 interface**: the enumeration lists exactly the legal melds inside the hand, each once -/
theorem allMelds_exact_thm (hand : List Card) (hok : HandOK hand) (hlen : hand.length ≤ 11) :
    AllMeldsExact hand :=
  ⟨allMelds_sound hand hok, allMelds_complete hand hok, allMelds_once hand hok (by omega)⟩

/-! ## the ricky enumeration -/

theorem ricky_sound (hand : List Card) (hok : HandOK hand) (k : Nat) (hk : k = 3 ∨ k = 4) (m : List Card)
    (hm : m ∈ (suitPartition hand).flatMap (runsOf k k) ∨
      (k = 3 ∧ m ∈ (getSets hand).1) ∨ (k = 4 ∧ m ∈ (getSets hand).2)) :
    RickyMeld k m ∧ ∀ c ∈ m, c ∈ hand := by
  rcases hm with hm | ⟨rfl, hm⟩ | ⟨rfl, hm⟩
  · have := runs_sound hand hok k k (by omega) (Nat.le_refl _) (by omega) m hm
    exact ⟨⟨by omega, Or.inr this.1⟩, this.2.2.2⟩
  · have := sets3_sound hand hok m hm; exact ⟨⟨this.2.1, Or.inl this.1⟩, this.2.2⟩
  · have := sets4_sound hand hok m hm; exact ⟨⟨this.2.1, Or.inl this.1⟩, this.2.2⟩

theorem ricky3_sound (hand : List Card) (hok : HandOK hand) (m : List Card)
    (hm : m ∈ (getRuns34 hand).1 ++ (getSets hand).1) : RickyMeld 3 m ∧ ∀ c ∈ m, c ∈ hand := by
  rw [getRuns34_fst] at hm
  rcases List.mem_append.1 hm with h | h
  · exact ricky_sound hand hok 3 (Or.inl rfl) m (Or.inl h)
  · exact ricky_sound hand hok 3 (Or.inl rfl) m (Or.inr (Or.inl ⟨rfl, h⟩))

theorem ricky4_sound (hand : List Card) (hok : HandOK hand) (m : List Card)
    (hm : m ∈ (getRuns34 hand).2 ++ (getSets hand).2) : RickyMeld 4 m ∧ ∀ c ∈ m, c ∈ hand := by
  rw [getRuns34_snd] at hm
  rcases List.mem_append.1 hm with h | h
  · exact ricky_sound hand hok 4 (Or.inr rfl) m (Or.inl h)
  · exact ricky_sound hand hok 4 (Or.inr rfl) m (Or.inr (Or.inr ⟨rfl, h⟩))

theorem ricky3_complete (hand : List Card) (hok : HandOK hand) (m' : List Card) (hm : RickyMeld 3 m')
    (hsub : ∀ c ∈ m', c ∈ hand) : ∃ m ∈ (getRuns34 hand).1 ++ (getSets hand).1, m.Perm m' := by
  obtain ⟨hl, hs | hr⟩ := hm
  · obtain ⟨m, hm, hp⟩ := (sets_complete hand hok m' hs hsub).1 hl
    exact ⟨m, List.mem_append_right _ hm, hp⟩
  · obtain ⟨m, hm, hp⟩ :=
      runs_complete hand hok 3 3 (by omega) (by omega) (by omega) m' hr hsub (by omega) (by omega)
    rw [← getRuns34_fst] at hm
    exact ⟨m, List.mem_append_left _ hm, hp⟩

theorem ricky4_complete (hand : List Card) (hok : HandOK hand) (m' : List Card) (hm : RickyMeld 4 m')
    (hsub : ∀ c ∈ m', c ∈ hand) : ∃ m ∈ (getRuns34 hand).2 ++ (getSets hand).2, m.Perm m' := by
  obtain ⟨hl, hs | hr⟩ := hm
  · obtain ⟨m, hm, hp⟩ := (sets_complete hand hok m' hs hsub).2 hl
    exact ⟨m, List.mem_append_right _ hm, hp⟩
  · obtain ⟨m, hm, hp⟩ :=
      runs_complete hand hok 4 4 (by omega) (by omega) (by omega) m' hr hsub (by omega) (by omega)
    rw [← getRuns34_snd] at hm
    exact ⟨m, List.mem_append_left _ hm, hp⟩

/-- the ricky 3-melds are listed once each (no bound on the hand needed: a 3-run is never a full suit) -/
theorem ricky3_once (hand : List Card) (hok : HandOK hand) :
    ((getRuns34 hand).1 ++ (getSets hand).1).Pairwise fun a b => ¬ a.Perm b := by
  rw [getRuns34_fst, List.pairwise_append]
  refine ⟨runs_once hand hok 3 3 (by omega) (by omega) (by omega) (Or.inl (by omega)), sets3_once hand hok, ?_⟩
  intro a ha b hb hp
  exact not_perm_set_run b a (sets3_sound hand hok b hb).1
    (runs_sound hand hok 3 3 (by omega) (by omega) (by omega) a ha).1 hp.symm

theorem ricky4_once (hand : List Card) (hok : HandOK hand) :
    ((getRuns34 hand).2 ++ (getSets hand).2).Pairwise fun a b => ¬ a.Perm b := by
  rw [getRuns34_snd, List.pairwise_append]
  refine ⟨runs_once hand hok 4 4 (by omega) (by omega) (by omega) (Or.inl (by omega)), sets4_once hand hok, ?_⟩
  intro a ha b hb hp
  exact not_perm_set_run b a (sets4_sound hand hok b hb).1
    (runs_sound hand hok 4 4 (by omega) (by omega) (by omega) a ha).1 hp.symm

end CardVerif.Gin

#print axioms CardVerif.Gin.rankStraightsV_spec
#print axioms CardVerif.Gin.allMelds_exact_thm
#print axioms CardVerif.Gin.ricky3_complete
#print axioms CardVerif.Gin.ricky4_once
