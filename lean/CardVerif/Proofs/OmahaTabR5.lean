import CardModel.Spec.OmahaTables
/-! # C06 — suit-free Omaha table, module 5 of 15 (compiled evaluation, `native_decide`; 412 board multisets × 1,820 hand multisets)

`tabR_a_blo_bhi`: the table holds on the ascending boards whose lowest value is `a` and whose second value lies in `[blo, bhi]`. -/
namespace CardVerif.OmahaD

/-- 286 boards -/
theorem tabR_3_4_4 : tableRc 3 4 4 = true := by native_decide

/-- 70 boards -/
theorem tabR_6_10_14 : tableRc 6 10 14 = true := by native_decide

/-- 56 boards -/
theorem tabR_7_9_9 : tableRc 7 9 9 = true := by native_decide

end CardVerif.OmahaD
