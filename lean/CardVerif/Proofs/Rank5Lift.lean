import CardVerif.Proofs.Rank5
import CardVerif.Proofs.Rank5Table
/-!
# C05 — lifting the table from sorted value tuples to hands
-/
namespace CardVerif.C05
open List hiding count
open CardVerif CardVerif.Rank5 CardVerif.Poker5

theorem eq_five_of_length {α : Type} (l : List α) (h : l.length = 5) :
    ∃ a b c d e, l = [a, b, c, d, e] := by
  rcases l with _ | ⟨a, _ | ⟨b, _ | ⟨c, _ | ⟨d, _ | ⟨e, _ | ⟨f, t⟩⟩⟩⟩⟩⟩ <;> simp at h
  exact ⟨a, b, c, d, e, rfl⟩

/-- on the values of any five cards that pass `validV` and lie in `2..14`, implementation and
rules agree -/
theorem rank5v_eq_specKeyV (vs : List Nat) (fl : Bool) (hlen : vs.length = 5)
    (hr : ∀ v ∈ vs, 2 ≤ v ∧ v ≤ 14) (hval : validV vs fl = true) :
    rank5v vs fl = .ok (specKeyV vs fl) := by
  have hp := perm_sortN vs
  have hsorted := pairwise_sortN vs
  obtain ⟨a, b, c, d, e, hs⟩ := eq_five_of_length (sortN vs) (by rw [hp.length_eq, hlen])
  rw [← rank5v_congr hp, ← specKeyV_congr hp, hs]
  rw [← validV_congr hp, hs] at hval
  rw [hs] at hsorted hp
  have hr' : ∀ v ∈ [a, b, c, d, e], 2 ≤ v ∧ v ≤ 14 := fun v hv => hr v (hp.subset hv)
  simp only [pairwise_cons, mem_cons, forall_eq_or_imp] at hsorted hr'
  simp at hsorted
  exact table_entry a b c d e fl hr'.1.1 (by omega) (by omega) (by omega) (by omega) (by omega) hval

end CardVerif.C05
