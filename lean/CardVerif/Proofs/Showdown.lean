import CardVerif.Proofs.Progress
import CardVerif.Proofs.ListLemmas
import CardModel.Spec.Strength
import Mathlib.Data.List.Nodup
import Mathlib.Data.List.Perm.Basic
/-!
# Showdown (C07)

* §1 `lexLt` is a strict total order on keys, `sortBy` sorts for a total transitive relation;
* §2 `mapM` on `Except`: shape of a successful result;
* §3 the tiers of `bestHandsGeneric` satisfy `TiersOK`;
* §4 the accumulation over run-outs of `get_payouts_and_rake` is the pointwise average;
* §5 the run-out sampler draws distinct cards of the deck.
-/
namespace CardVerif.Betting
open CardVerif

/-! ## §1 `lexLt`, `sortBy` -/

theorem lexLt_irrefl : ∀ a : List Nat, lexLt a a = false
  | [] => rfl
  | x :: xs => by
    have := lexLt_irrefl xs
    simp [lexLt, this]

theorem lexLt_trans : ∀ a b c : List Nat, lexLt a b = true → lexLt b c = true → lexLt a c = true
  | [], [], _, h, _ => by simp [lexLt] at h
  | [], _ :: _, [], _, h => by simp [lexLt] at h
  | [], _ :: _, _ :: _, _, _ => by simp [lexLt]
  | _ :: _, [], _, h, _ => by simp [lexLt] at h
  | _ :: _, _ :: _, [], _, h => by simp [lexLt] at h
  | x :: xs, y :: ys, z :: zs, h1, h2 => by
    have ih := lexLt_trans xs ys zs
    unfold lexLt at h1 h2 ⊢
    by_cases hxy : x < y
    · by_cases hyz : y < z
      · rw [if_pos (by omega)]
      · by_cases hzy : z < y
        · rw [if_neg hyz, if_pos hzy] at h2; cases h2
        · have : y = z := by omega
          subst this
          rw [if_pos hxy]
    · by_cases hyx : y < x
      · rw [if_neg hxy, if_pos hyx] at h1; cases h1
      · have : x = y := by omega
        subst this
        rw [if_neg hxy, if_neg hyx] at h1
        by_cases hyz : x < z
        · rw [if_pos hyz]
        · by_cases hzy : z < x
          · rw [if_neg hyz, if_pos hzy] at h2; cases h2
          · rw [if_neg hyz, if_neg hzy] at h2 ⊢
            exact ih h1 h2

theorem lexLt_connected : ∀ a b : List Nat, lexLt a b = false → lexLt b a = false → a = b
  | [], [], _, _ => rfl
  | [], _ :: _, h, _ => by simp [lexLt] at h
  | _ :: _, [], _, h => by simp [lexLt] at h
  | x :: xs, y :: ys, h1, h2 => by
    have ih := lexLt_connected xs ys
    unfold lexLt at h1 h2
    by_cases hxy : x < y
    · rw [if_pos hxy] at h1; cases h1
    · by_cases hyx : y < x
      · rw [if_pos hyx] at h2; cases h2
      · rw [if_neg hxy, if_neg hyx] at h1
        rw [if_neg hyx, if_neg hxy] at h2
        have : x = y := by omega
        subst this
        rw [ih h1 h2]

theorem lexLt_asymm (a b : List Nat) (h : lexLt a b = true) : lexLt b a = false := by
  cases hba : lexLt b a with
  | false => rfl
  | true =>
    have := lexLt_trans a b a h hba
    rw [lexLt_irrefl] at this
    cases this

theorem lexLe_total (a b : List Nat) : lexLe a b = true ∨ lexLe b a = true := by
  unfold lexLe
  cases hab : lexLt a b with
  | false => right; rfl
  | true => left; rw [lexLt_asymm a b hab]; rfl

theorem lexLe_trans (a b c : List Nat) (h1 : lexLe a b = true) (h2 : lexLe b c = true) : lexLe a c = true := by
  unfold lexLe at *
  cases hca : lexLt c a with
  | false => rfl
  | true =>
    exfalso
    -- c < a, ¬ b < a, ¬ c < b
    simp only [Bool.not_eq_true', ] at h1 h2
    cases hab : lexLt a b with
    | false =>
      have := lexLt_connected a b hab h1
      subst this
      rw [hca] at h2; cases h2
    | true =>
      have := lexLt_trans c a b hca hab
      rw [this] at h2; cases h2

/-- distinct keys that are `lexLe`-ordered are strictly ordered -/
theorem lexLt_of_lexLe_of_ne (a b : List Nat) (h : lexLe a b = true) (hne : a ≠ b) : lexLt a b = true := by
  unfold lexLe at h
  simp only [Bool.not_eq_true'] at h
  cases hab : lexLt a b with
  | true => rfl
  | false => exact absurd (lexLt_connected a b hab h) hne

theorem pairwise_insertBy {α : Type} (le : α → α → Bool) (htot : ∀ a b, le a b = true ∨ le b a = true)
    (htr : ∀ a b c, le a b = true → le b c = true → le a c = true) (x : α) (l : List α)
    (h : l.Pairwise fun a b => le a b = true) : (insertBy le x l).Pairwise fun a b => le a b = true := by
  induction l with
  | nil => simp [insertBy]
  | cons y ys ih =>
    rw [List.pairwise_cons] at h
    unfold insertBy
    split
    · rename_i hxy
      rw [List.pairwise_cons]
      refine ⟨?_, List.pairwise_cons.2 h⟩
      intro z hz
      rw [List.mem_cons] at hz
      rcases hz with rfl | hz
      · exact hxy
      · exact htr _ _ _ hxy (h.1 z hz)
    · rename_i hxy
      have hyx : le y x = true := by
        rcases htot x y with h' | h'
        · exact absurd h' hxy
        · exact h'
      rw [List.pairwise_cons]
      refine ⟨?_, ih h.2⟩
      intro z hz
      rw [mem_insertBy] at hz
      rcases hz with rfl | hz
      · exact hyx
      · exact h.1 z hz

/-- insertion sort sorts, for a total and transitive comparison -/
theorem pairwise_sortBy {α : Type} (le : α → α → Bool) (htot : ∀ a b, le a b = true ∨ le b a = true)
    (htr : ∀ a b c, le a b = true → le b c = true → le a c = true) (l : List α) :
    (sortBy le l).Pairwise fun a b => le a b = true := by
  induction l with
  | nil => simp [sortBy]
  | cons y ys ih =>
    have : sortBy le (y :: ys) = insertBy le y (sortBy le ys) := rfl
    rw [this]
    exact pairwise_insertBy le htot htr y _ ih

/-- `sorted(set(keys), reverse=True)`: strictly descending -/
theorem pairwise_sortBy_desc (l : List (List Nat)) (hnd : l.Nodup) :
    (sortBy (fun a b => lexLe b a) l).Pairwise fun a b => lexLt b a = true := by
  have h1 := pairwise_sortBy (fun a b : List Nat => lexLe b a) (fun a b => lexLe_total b a)
    (fun a b c h1 h2 => lexLe_trans c b a h2 h1) l
  have h2 : (sortBy (fun a b => lexLe b a) l).Nodup := (sortBy_perm _ l).nodup_iff.2 hnd
  have h3 := List.Pairwise.and h1 h2
  refine h3.imp ?_
  intro a b hab
  exact lexLt_of_lexLe_of_ne b a hab.1 (fun h => hab.2 h.symm)

/-! ## §2 successful `mapM` -/

theorem mapM_ok_cons {ε α β : Type} (f : α → Except ε β) (a : α) (l : List α) (ys : List β) :
    (a :: l).mapM f = .ok ys ↔ ∃ y ys', f a = .ok y ∧ l.mapM f = .ok ys' ∧ ys = y :: ys' := by
  rw [List.mapM_cons, bind_ok]
  constructor
  · rintro ⟨y, hy, h⟩
    rw [bind_ok] at h
    obtain ⟨ys', hys', h⟩ := h
    simp only [pure, Except.pure, Except.ok.injEq] at h
    exact ⟨y, ys', hy, hys', h.symm⟩
  · rintro ⟨y, ys', hy, hys', rfl⟩
    refine ⟨y, hy, ?_⟩
    rw [bind_ok]
    exact ⟨ys', hys', rfl⟩

theorem mapM_ok_nil {ε α β : Type} (f : α → Except ε β) (ys : List β) :
    ([] : List α).mapM f = .ok ys ↔ ys = [] := by
  rw [List.mapM_nil]
  simp only [pure, Except.pure, Except.ok.injEq]
  exact eq_comm

/-- a successful `mapM` is the list of the successful results, position by position -/
theorem mapM_ok_forall₂ {ε α β : Type} (f : α → Except ε β) (l : List α) (ys : List β) (h : l.mapM f = .ok ys) :
    List.Forall₂ (fun x y => f x = .ok y) l ys := by
  induction l generalizing ys with
  | nil => rw [mapM_ok_nil] at h; subst h; exact List.Forall₂.nil
  | cons a l ih =>
    rw [mapM_ok_cons] at h
    obtain ⟨y, ys', hy, hys', rfl⟩ := h
    exact List.Forall₂.cons hy (ih ys' hys')

theorem mapM_ok_length {ε α β : Type} (f : α → Except ε β) (l : List α) (ys : List β) (h : l.mapM f = .ok ys) :
    ys.length = l.length := (mapM_ok_forall₂ f l ys h).length_eq.symm

theorem mapM_ok_getElem {ε α β : Type} (f : α → Except ε β) (l : List α) (ys : List β) (h : l.mapM f = .ok ys)
    (i : Nat) (h1 : i < l.length) (h2 : i < ys.length) : f l[i] = .ok ys[i] := by
  have := (List.forall₂_iff_get.1 (mapM_ok_forall₂ f l ys h)).2 i h1 h2
  simpa using this

theorem mapM_ok_mem {ε α β : Type} (f : α → Except ε β) (l : List α) (ys : List β) (h : l.mapM f = .ok ys)
    (y : β) (hy : y ∈ ys) : ∃ x ∈ l, f x = .ok y := by
  obtain ⟨i, hi, rfl⟩ := List.getElem_of_mem hy
  have hi' : i < l.length := by rw [← mapM_ok_length f l ys h]; exact hi
  exact ⟨l[i], List.getElem_mem _, mapM_ok_getElem f l ys h i hi' hi⟩

/-- if every success of `f` is the value of `g`, a successful `mapM f` is `map g` -/
theorem mapM_ok_eq_map {ε α β : Type} (f : α → Except ε β) (g : α → β) (l : List α) (ys : List β)
    (hfg : ∀ x ∈ l, ∀ y, f x = .ok y → y = g x) (h : l.mapM f = .ok ys) : ys = l.map g := by
  induction l generalizing ys with
  | nil => rw [mapM_ok_nil] at h; subst h; rfl
  | cons a l ih =>
    rw [mapM_ok_cons] at h
    obtain ⟨y, ys', hy, hys', rfl⟩ := h
    rw [List.map_cons, hfg a (by simp) y hy, ih ys' (fun x hx => hfg x (by simp [hx])) hys']

/-! ## §3 the tiers of `get_best_hands_generic` -/

/-- the value of `bestHandsGeneric` on a successful list of strengths -/
def tiersOf (strengths : List (List Nat)) : List (List Nat) :=
  (sortBy (fun a b => lexLe b a) (dedupFirst strengths)).map fun k =>
    (List.range strengths.length).filter fun i => strengths[i]? == some k

/-- strength of the `i`-th hand (`[]` out of range) -/
def strAt (strengths : List (List Nat)) (i : Nat) : List Nat :=
  match strengths[i]? with | some k => k | none => []

theorem bestHandsGeneric_ok_iff (f : List Card → List Card → Except Err (List Nat)) (board : List Card)
    (hands : List (List Card)) (tiers : List (List Nat)) :
    Eval.bestHandsGeneric f board hands = .ok tiers ↔
      ∃ strengths, hands.mapM (f board) = .ok strengths ∧ tiers = tiersOf strengths := by
  unfold Eval.bestHandsGeneric
  rw [bind_ok]
  constructor
  · rintro ⟨st, h1, h2⟩
    simp only [Except.ok.injEq] at h2
    exact ⟨st, h1, h2.symm⟩
  · rintro ⟨st, h1, rfl⟩
    exact ⟨st, h1, rfl⟩

theorem mem_tiersOf (strengths : List (List Nat)) (t : List Nat) (ht : t ∈ tiersOf strengths) :
    ∃ k ∈ strengths, ∀ i, i ∈ t ↔ i < strengths.length ∧ strengths[i]? = some k := by
  unfold tiersOf at ht
  rw [List.mem_map] at ht
  obtain ⟨k, hk, rfl⟩ := ht
  refine ⟨k, (mem_dedupFirst strengths k).1 ((sortBy_perm _ _).mem_iff.1 hk), fun i => ?_⟩
  rw [List.mem_filter, List.mem_range, beq_iff_eq]

/-- **`get_best_hands_generic` groups by strength, strongest first** -/
theorem tiersOf_ok (strengths : List (List Nat)) :
    Strength.TiersOK (strAt strengths) strengths.length (tiersOf strengths) := by
  obtain ⟨t1, t2⟩ := tiers_flatten (fun a b => lexLe b a) strengths
  refine ⟨?_, ?_, ?_⟩
  · refine (List.perm_ext_iff_of_nodup (l₁ := (tiersOf strengths).flatten) t1 List.nodup_range).2 ?_
    intro i
    rw [List.mem_range]
    exact t2 i
  · intro t ht
    obtain ⟨k, hk, hmem⟩ := mem_tiersOf strengths t ht
    constructor
    · obtain ⟨i, hi, rfl⟩ := List.getElem_of_mem hk
      intro h
      have : i ∈ t := (hmem i).2 ⟨hi, List.getElem?_eq_getElem hi⟩
      rw [h] at this
      cases this
    · intro i hi j hj
      unfold strAt
      rw [((hmem i).1 hi).2, ((hmem j).1 hj).2]
  · unfold tiersOf
    rw [List.pairwise_map]
    refine (pairwise_sortBy_desc _ (nodup_dedupFirst strengths)).imp ?_
    intro a b hab i hi j hj
    rw [List.mem_filter, beq_iff_eq] at hi hj
    unfold strAt
    rw [hi.2, hj.2]
    exact hab

/-- `bestHandsGeneric` on hands whose strengths are `strengths` -/
theorem bestHandsGeneric_tiersOK (f : List Card → List Card → Except Err (List Nat)) (board : List Card)
    (hands : List (List Card)) (strengths : List (List Nat)) (hs : hands.mapM (f board) = .ok strengths) :
    ∃ tiers, Eval.bestHandsGeneric f board hands = .ok tiers ∧
      Strength.TiersOK (strAt strengths) hands.length tiers := by
  refine ⟨tiersOf strengths, (bestHandsGeneric_ok_iff f board hands _).2 ⟨strengths, hs, rfl⟩, ?_⟩
  rw [← mapM_ok_length _ _ _ hs]
  exact tiersOf_ok strengths

/-- what a successful `order_hands` computed: the hands, their strengths, and the tiers of seat indices mapped through
`players` -/
theorem orderHands_ok {rankFn : RankFn} {s : State} {players : List Nat} {tiers : List (List Nat)}
    (h : s.orderHands rankFn players = .ok tiers) :
    ∃ hands strengths,
      (players.mapM fun p => match s.hands[p]? with | some h => Except.ok h | none => .error Err.indexError) = .ok hands ∧
      hands.mapM (handStrength s.game rankFn s.board) = .ok strengths ∧
      hands.length = players.length ∧ strengths.length = players.length ∧
      tiers = (tiersOf strengths).map fun t => t.map fun i => (players[i]?).getD 0 := by
  unfold State.orderHands at h
  rw [bind_ok] at h
  obtain ⟨hands, h1, h⟩ := h
  rw [bind_ok] at h
  obtain ⟨tiers0, h2, h3⟩ := h
  rw [bestHandsGeneric_ok_iff] at h2
  obtain ⟨strengths, h2, rfl⟩ := h2
  have l1 := mapM_ok_length _ _ _ h1
  have l2 := mapM_ok_length _ _ _ h2
  refine ⟨hands, strengths, h1, h2, l1, by rw [l2, l1], ?_⟩
  refine mapM_ok_eq_map _ _ _ _ ?_ h3
  intro t _ t' ht'
  refine mapM_ok_eq_map _ _ _ _ ?_ ht'
  intro i _ p hp
  cases hpi : players[i]? with
  | none => rw [hpi] at hp; cases hp
  | some q =>
    rw [hpi] at hp
    simp only [Except.ok.injEq] at hp
    rw [← hp]; rfl

theorem map_getD_range (l : List Nat) : (List.range l.length).map (fun i => (l[i]?).getD 0) = l := by
  apply List.ext_getElem
  · simp
  · intro i h1 h2
    simp only [List.length_map, List.length_range] at h1
    simp [List.getElem?_eq_getElem h1]

/-- **`order_hands`**: the seats at showdown grouped by the strength of their hands, strongest first -/
theorem orderHands_spec {rankFn : RankFn} {s : State} {players : List Nat} (hnd : players.Nodup)
    {tiers : List (List Nat)} (h : s.orderHands rankFn players = .ok tiers) :
    tiers.flatten.Perm players ∧
    ∃ strength : Nat → List Nat,
      (∀ p ∈ players, ∃ hand, s.hands[p]? = some hand ∧
          handStrength s.game rankFn s.board hand = .ok (strength p)) ∧
      (∀ t ∈ tiers, t ≠ [] ∧ ∀ p ∈ t, ∀ q ∈ t, strength p = strength q) ∧
      tiers.Pairwise fun t u => ∀ p ∈ t, ∀ q ∈ u, lexLt (strength q) (strength p) = true := by
  obtain ⟨hands, strengths, h1, h2, l1, l2, rfl⟩ := orderHands_ok h
  obtain ⟨k1, k2, k3⟩ := tiersOf_ok strengths
  rw [l2] at k1
  -- indices in the tiers are in range
  have hidx : ∀ t ∈ tiersOf strengths, ∀ i ∈ t, i < players.length := by
    intro t ht i hi
    have : i ∈ (tiersOf strengths).flatten := List.mem_flatten.2 ⟨t, ht, hi⟩
    exact List.mem_range.1 (k1.mem_iff.1 this)
  -- the strength of a seat: the strength of its position in `players`
  let strength : Nat → List Nat := fun p => strAt strengths (players.idxOf p)
  have hstr : ∀ i, i < players.length → strength ((players[i]?).getD 0) = strAt strengths i := by
    intro i hi
    show strAt strengths (players.idxOf ((players[i]?).getD 0)) = strAt strengths i
    rw [List.getElem?_eq_getElem hi, Option.getD_some, hnd.idxOf_getElem i hi]
  refine ⟨?_, strength, ?_, ?_, ?_⟩
  · rw [← List.map_flatten]
    have := k1.map (fun i => (players[i]?).getD 0)
    rwa [map_getD_range] at this
  · intro p hp
    have hi : players.idxOf p < players.length := List.idxOf_lt_length_of_mem hp
    have hi1 : players.idxOf p < hands.length := by rw [l1]; exact hi
    have hi2 : players.idxOf p < strengths.length := by rw [l2]; exact hi
    refine ⟨hands[players.idxOf p], ?_, ?_⟩
    · have := mapM_ok_getElem _ _ _ h1 _ hi hi1
      rw [List.getElem_idxOf hi] at this
      cases hp' : s.hands[p]? with
      | none => rw [hp'] at this; cases this
      | some q =>
        rw [hp'] at this
        simp only [Except.ok.injEq] at this
        rw [this]
    · have := mapM_ok_getElem _ _ _ h2 _ hi1 hi2
      rw [this]
      show _ = Except.ok (strAt strengths (players.idxOf p))
      unfold strAt
      rw [List.getElem?_eq_getElem hi2]
  · intro t ht
    rw [List.mem_map] at ht
    obtain ⟨t0, ht0, rfl⟩ := ht
    obtain ⟨hne, heq⟩ := k2 t0 ht0
    refine ⟨by simpa using hne, ?_⟩
    intro p hp q hq
    rw [List.mem_map] at hp hq
    obtain ⟨i, hi, rfl⟩ := hp
    obtain ⟨j, hj, rfl⟩ := hq
    rw [hstr i (hidx t0 ht0 i hi), hstr j (hidx t0 ht0 j hj)]
    exact heq i hi j hj
  · rw [List.pairwise_map]
    refine k3.imp_of_mem ?_
    intro t u ht hu htu p hp q hq
    rw [List.mem_map] at hp hq
    obtain ⟨i, hi, rfl⟩ := hp
    obtain ⟨j, hj, rfl⟩ := hq
    rw [hstr i (hidx t ht i hi), hstr j (hidx u hu j hj)]
    exact htu i hi j hj

/-! ## §4 averaging over run-outs -/

theorem getElem?_addQ (a b : List Rat) (p : Nat) (ha : p < a.length) (hb : p < b.length) :
    (addQ a b)[p]? = some (a[p] + b[p]) := by
  unfold addQ
  rw [List.getElem?_map]
  have : (a.zip b)[p]? = some (a[p], b[p]) := by
    rw [List.getElem?_zip_eq_some]
    exact ⟨List.getElem?_eq_getElem ha, List.getElem?_eq_getElem hb⟩
  rw [this]
  rfl

/-- payout of seat `p` in one run-out (`0` out of range) -/
def payAt (r : List Rat × List Int) (p : Nat) : Rat := match r.1[p]? with | some x => x | none => 0

/-- the accumulation loop of `get_payouts_and_rake`: when each run-out `i` yields `g i` (vectors of length `n`), the
result is, seat by seat, the start value plus the sum of the shares -/
theorem foldlM_avg (g : Nat → Except Err (List Rat × List Int)) (k : Rat) (n : Nat)
    (f : List Rat × List Rat → Nat → Except Err (List Rat × List Rat))
    (hf : ∀ acc i, f acc i = (g i >>= fun r =>
      pure (addQ acc.1 (r.1.map (· / k)), addQ acc.2 (r.2.map fun (x : Int) => (x : Rat) / k)))) :
    ∀ (l : List Nat) (results : List (List Rat × List Int)) (acc : List Rat × List Rat),
      l.mapM g = .ok results → acc.1.length = n → acc.2.length = n →
      (∀ r ∈ results, r.1.length = n ∧ r.2.length = n) →
      ∃ res, l.foldlM f acc = .ok res ∧ res.1.length = n ∧ res.2.length = n ∧
        (∀ p, p < n → res.1[p]? = some ((acc.1[p]?).getD 0 + sumQ (results.map fun r => payAt r p / k))) ∧
        (∀ p, p < n → res.2[p]? = some ((acc.2[p]?).getD 0 +
            sumQ (results.map fun r => ((getI r.2 p : Int) : Rat) / k))) := by
  intro l
  induction l with
  | nil =>
    intro results acc hm h1 h2 _
    rw [mapM_ok_nil] at hm
    subst hm
    refine ⟨acc, rfl, h1, h2, ?_, ?_⟩
    · intro p hp
      rw [List.getElem?_eq_getElem (by omega)]
      simp
    · intro p hp
      rw [List.getElem?_eq_getElem (by omega)]
      simp
  | cons i l ih =>
    intro results acc hm h1 h2 hlen
    rw [mapM_ok_cons] at hm
    obtain ⟨r, rs, hr, hrs, rfl⟩ := hm
    obtain ⟨hr1, hr2⟩ := hlen r (by simp)
    have e1 : acc.1.length = (r.1.map (· / k)).length := by rw [List.length_map, h1, hr1]
    have e2 : acc.2.length = (r.2.map fun (x : Int) => (x : Rat) / k).length := by rw [List.length_map, h2, hr2]
    obtain ⟨res, hres, l1, l2, p1, p2⟩ := ih rs
      (addQ acc.1 (r.1.map (· / k)), addQ acc.2 (r.2.map fun (x : Int) => (x : Rat) / k)) hrs
      (by rw [length_addQ _ _ e1, h1]) (by rw [length_addQ _ _ e2, h2]) (fun r' hr' => hlen r' (by simp [hr']))
    refine ⟨res, ?_, l1, l2, ?_, ?_⟩
    · rw [List.foldlM_cons, bind_ok]
      refine ⟨_, ?_, hres⟩
      rw [hf, hr]
      rfl
    · intro p hp
      rw [p1 p hp, getElem?_addQ _ _ p (by omega) (by rw [List.length_map]; omega),
        List.getElem?_eq_getElem (by omega : p < acc.1.length)]
      simp only [Option.getD_some, List.getElem_map, List.map_cons, sumQ_cons, Option.some.injEq]
      have : payAt r p = r.1[p]'(by omega) := by
        unfold payAt
        rw [List.getElem?_eq_getElem (by omega)]
      rw [this]
      ring
    · intro p hp
      rw [p2 p hp, getElem?_addQ _ _ p (by omega) (by rw [List.length_map]; omega),
        List.getElem?_eq_getElem (by omega : p < acc.2.length)]
      simp only [Option.getD_some, List.getElem_map, List.map_cons, sumQ_cons, Option.some.injEq]
      rw [getI_of_lt r.2 p (by omega)]
      ring

/-! ## §5 the run-out sampler -/

/-- **a sample from a duplicate-free deck**: `k` distinct cards of the deck -/
theorem sample_spec (sm : Sampler) (deck : List Card) (k i : Nat) (runout : List Card) (hnd : deck.Nodup)
    (h : sm.sample deck k i = .ok runout) :
    runout.length = k ∧ runout.Nodup ∧ ∀ c ∈ runout, c ∈ deck := by
  unfold Sampler.sample at h
  split at h
  · cases h
  · rename_i hk
    have hk : k ≤ deck.length := by omega
    have hl := mapM_ok_length _ _ _ h
    rw [List.length_range] at hl
    have hrun := mapM_ok_eq_map _ (fun j => (deck[(sm.off + i * sm.step + j) % deck.length]?).getD ⟨0, 0⟩) _ _ ?_ h
    · have hidx : ∀ j, j < k → (sm.off + i * sm.step + j) % deck.length < deck.length :=
        fun j hj => Nat.mod_lt _ (by omega)
      refine ⟨hl, ?_, ?_⟩
      · rw [hrun]
        apply List.Nodup.map_on _ List.nodup_range
        intro j hj j' hj' hjj
        rw [List.mem_range] at hj hj'
        rw [List.getElem?_eq_getElem (hidx j hj), List.getElem?_eq_getElem (hidx j' hj'), Option.getD_some,
          Option.getD_some, hnd.getElem_inj_iff] at hjj
        exact add_mod_inj _ _ j j' (by omega) (by omega) hjj
      · intro c hc
        rw [hrun, List.mem_map] at hc
        obtain ⟨j, hj, rfl⟩ := hc
        rw [List.mem_range] at hj
        rw [List.getElem?_eq_getElem (hidx j hj), Option.getD_some]
        exact List.getElem_mem _
    · intro j _ y hy
      cases hd : deck[(sm.off + i * sm.step + j) % deck.length]? with
      | none => rw [hd] at hy; cases hy
      | some c =>
        rw [hd] at hy
        simp only [Except.ok.injEq] at hy
        simp only [Option.getD_some]
        exact hy.symm

end CardVerif.Betting
