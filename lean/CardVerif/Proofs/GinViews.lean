import CardVerif.Proofs.GinInv
/-!
# Gin views: the public card map (C17)

* §1 dict assignment (`hudSet`, and the same operation in `playerHud`): membership characterisation;
* §2 `HudSound` through `Loc`; it is preserved by every accepted move (`HudSound.step`, `reach_hudSound`);
* §3 the map never names a stock card;
* §4 secrecy: the invariant `Secret` of `PReach`;
* §5 `playerHud`, `view`, `getAction`.
-/
namespace CardVerif.Gin
open CardVerif

/-! ## §1 dict assignment -/

/-- `d[c] = v` on an insertion-ordered dict, for any value type (this is `hudSet`, and the fold step of
`playerHud`) -/
def dictSet {β : Type} (h : List (Card × β)) (c : Card) (v : β) : List (Card × β) :=
  if h.any (·.1 == c) then h.map fun e => if e.1 == c then (c, v) else e else h ++ [(c, v)]

theorem hudSet_eq_dictSet (h : List (Card × Hud)) (c : Card) (v : Hud) : hudSet h c v = dictSet h c v := rfl

/-- after `d[c] = v` the dict holds `(c, v)` and exactly the old entries with another key -/
theorem mem_dictSet {β : Type} {h : List (Card × β)} {c : Card} {v : β} {e : Card × β} :
    e ∈ dictSet h c v ↔ e = (c, v) ∨ (e ∈ h ∧ e.1 ≠ c) := by
  unfold dictSet
  split
  · rename_i hany
    simp only [List.any_eq_true, beq_iff_eq] at hany
    obtain ⟨x, hx, hxc⟩ := hany
    simp only [List.mem_map]
    constructor
    · rintro ⟨y, hy, rfl⟩
      by_cases hyc : y.1 = c
      · left; simp [hyc]
      · right; simp [hyc, hy]
    · rintro (rfl | ⟨he, hne⟩)
      · exact ⟨x, hx, by simp [hxc]⟩
      · exact ⟨e, he, by simp [hne]⟩
  · rename_i hany
    simp only [List.any_eq_true, beq_iff_eq, not_exists, not_and] at hany
    simp only [List.mem_append, List.mem_singleton]
    constructor
    · rintro (he | rfl)
      · exact .inr ⟨he, hany e he⟩
      · exact .inl rfl
    · rintro (rfl | ⟨he, _⟩)
      · exact .inr rfl
      · exact .inl he

theorem mem_hudSet {h : List (Card × Hud)} {c : Card} {v : Hud} {e : Card × Hud} :
    e ∈ hudSet h c v ↔ e = (c, v) ∨ (e ∈ h ∧ e.1 ≠ c) := mem_dictSet

/-- assigning the same value to a list of keys: the result holds `(c, v)` for every listed key and the old entries
with an unlisted key -/
theorem mem_foldl_dictSet {β : Type} (v : β) (keys : List Card) (base : List (Card × β)) (e : Card × β) :
    e ∈ keys.foldl (fun h c => dictSet h c v) base ↔ (e.2 = v ∧ e.1 ∈ keys) ∨ (e ∈ base ∧ e.1 ∉ keys) := by
  induction keys generalizing base with
  | nil => simp
  | cons a t ih =>
    rw [List.foldl_cons, ih, mem_dictSet]
    obtain ⟨x, l⟩ := e
    simp only [Prod.mk.injEq, List.mem_cons, not_or]
    constructor
    · rintro (⟨h1, h2⟩ | ⟨⟨rfl, rfl⟩ | ⟨h1, h2⟩, h3⟩)
      · exact .inl ⟨h1, .inr h2⟩
      · exact .inl ⟨rfl, .inl rfl⟩
      · exact .inr ⟨h1, h2, h3⟩
    · rintro (⟨h1, rfl | h2⟩ | ⟨h1, h2, h3⟩)
      · by_cases h : x ∈ t
        · exact .inl ⟨h1, h⟩
        · exact .inr ⟨.inl ⟨rfl, h1⟩, h⟩
      · exact .inl ⟨h1, h2⟩
      · exact .inr ⟨.inr ⟨h1, h2⟩, h3⟩

/-- a fold of assignments only adds the assigned entries -/
theorem mem_foldl_hudSet {l : List (Card × Hud)} {h : List (Card × Hud)} {e : Card × Hud}
    (he : e ∈ l.foldl (fun h e => hudSet h e.1 e.2) h) : e ∈ h ∨ e ∈ l := by
  induction l generalizing h with
  | nil => exact .inl he
  | cons a t ih =>
    rw [List.foldl_cons] at he
    rcases ih he with h1 | h1
    · rcases mem_hudSet.1 h1 with rfl | ⟨h2, -⟩
      · exact .inr (List.mem_cons_self ..)
      · exact .inl h2
    · exact .inr (List.mem_cons_of_mem _ h1)

/-- the rebuilt map names hand cards only, each with a holder who has it -/
theorem mem_revealHud {p1 p2 : List Card} {e : Card × Hud} (he : e ∈ revealHud p1 p2) :
    (e.2 = .p1 ∧ e.1 ∈ p1) ∨ (e.2 = .p2 ∧ e.1 ∈ p2) := by
  unfold revealHud at he
  rcases mem_foldl_hudSet he with h | h
  · rcases mem_foldl_hudSet h with h | h
    · cases h
    · obtain ⟨x, hx, rfl⟩ := List.mem_map.1 h
      exact .inl ⟨rfl, hx⟩
  · obtain ⟨x, hx, rfl⟩ := List.mem_map.1 h
    exact .inr ⟨rfl, hx⟩

/-! ## §2 soundness of the map -/

/-- "card `x` is where `l` says", over explicit zones -/
def Loc (p1 p2 discard : List Card) (x : Card) : Hud → Prop
  | .p1 => x ∈ p1
  | .p2 => x ∈ p2
  | .top => discard.getLast? = some x
  | .disc => x ∈ discard

theorem hudSound_iff {g : GState} : HudSound g ↔ ∀ x l, (x, l) ∈ g.hud → Loc g.p1 g.p2 g.discard x l := by
  unfold HudSound
  constructor
  · intro h x l hm
    have := h _ hm
    cases l <;> exact this
  · rintro h ⟨x, l⟩ hm
    have := h x l hm
    cases l <;> exact this

/-- soundness only looks at the map, the hands and the pile -/
theorem HudSound.of_sub {g g' : GState} (h : HudSound g) (hh : ∀ e ∈ g'.hud, e ∈ g.hud) (h1 : g'.p1 = g.p1)
    (h2 : g'.p2 = g.p2) (hd : g'.discard = g.discard) : HudSound g' := by
  rw [hudSound_iff] at h ⊢
  intro x l hm
  rw [h1, h2, hd]
  exact h x l (hh _ hm)

/-- the transient turns are the only ones where `Turn.p1` and `Turn.owner` differ -/
theorem Turn.p1_eq_owner {t : Turn} (h : t.isDrawFromDeck = false) : t.p1 = t.owner := by
  cases t <;> first | rfl | cases h

/-- a card is taken from the pile by `o` -/
theorem Loc.draw_pile {p1 p2 rest : List Card} {c x : Card} {l : Hud} {o : Bool}
    (h : Loc p1 p2 (rest ++ [c]) x l) (hne : x ≠ c) :
    Loc (if o then p1 ++ [c] else p1) (if o then p2 else p2 ++ [c]) rest x l := by
  cases l <;> cases o <;> simp_all [Loc]

/-- a card is taken from the stock by `o` -/
theorem Loc.draw_stock {p1 p2 d : List Card} {c x : Card} {l : Hud} {o : Bool}
    (h : Loc p1 p2 d x l) :
    Loc (if o then p1 ++ [c] else p1) (if o then p2 else p2 ++ [c]) d x l := by
  cases l <;> cases o <;> simp_all [Loc]

theorem HudSound.revealHud {g : GState} (h : g.hud = revealHud g.p1 g.p2) : HudSound g := by
  rw [hudSound_iff]
  intro x l hm
  rw [h] at hm
  rcases mem_revealHud hm with ⟨rfl, h1⟩ | ⟨rfl, h1⟩ <;> exact h1

theorem HudSound.drawCard {g g' : GState} {d : Bool} (hl : Live g) (hs : HudSound g)
    (h : g.drawCard d = .ok g') : HudSound g' := by
  have hp := Turn.p1_eq_owner hl.no_draw_from_deck
  cases d
  · obtain ⟨c, rest, -, -, -, -, rfl⟩ := drawCard_false_ok.1 h
    by_cases hr : rest.isEmpty = true
    · apply HudSound.revealHud
      simp [hr]
    · rw [hudSound_iff] at hs ⊢
      intro x l hm
      simp only [hr, if_false, Bool.false_eq_true] at hm
      exact (hs x l hm).draw_stock
  · obtain ⟨c, rest, -, -, -, hdisc, rfl⟩ := drawCard_true_ok.1 h
    rw [hudSound_iff] at hs ⊢
    intro x l hm
    simp only [mem_hudSet, Prod.mk.injEq, hp] at hm
    rcases hm with ⟨rfl, rfl⟩ | ⟨hm, hne⟩
    · cases g.turn.owner <;> simp [Loc]
    · have := hs x l hm
      rw [hdisc] at this
      exact this.draw_pile hne

theorem HudSound.firstTurnPass {g g' : GState} (hs : HudSound g) (h : g.firstTurnPass = .ok g') :
    HudSound g' := by
  obtain ⟨-, ⟨-, rfl⟩ | ⟨-, c, rest, -, rfl⟩⟩ := firstTurnPass_ok.1 h
  · exact hs
  · by_cases hr : rest.isEmpty = true
    · apply HudSound.revealHud
      simp [hr]
    · rw [hudSound_iff] at hs ⊢
      intro x l hm
      simp only [hr, if_false, Bool.false_eq_true] at hm
      have := (hs x l hm).draw_stock (c := c) (o := !g.turn.owner)
      cases ho : g.turn.owner <;> simpa [ho] using this

/-! ### wall check, discard, knock -/

/-- the wall check keeps the map and the pile, or empties the pile and drops the pile entries -/
theorem checkWall_hud_cases (shuffle : List Card → List Card) (g : GState) :
    ((g.checkWall shuffle).2.hud = g.hud ∧ (g.checkWall shuffle).2.discard = g.discard) ∨
    ((g.checkWall shuffle).2.hud = g.hud.filter (fun e => e.2 != .top && e.2 != .disc) ∧
      (g.checkWall shuffle).2.discard = []) := by
  rcases checkWall_cases shuffle g with ⟨_, h⟩ | ⟨_, _, h⟩ | ⟨_, _, h⟩ <;> rw [h]
  · exact .inl ⟨rfl, rfl⟩
  · exact .inl ⟨rfl, rfl⟩
  · exact .inr ⟨rfl, rfl⟩

theorem checkWall_hud_sub (shuffle : List Card → List Card) (g : GState) :
    ∀ e ∈ (g.checkWall shuffle).2.hud, e ∈ g.hud := by
  rcases checkWall_hud_cases shuffle g with ⟨h, -⟩ | ⟨h, -⟩ <;> rw [h]
  · exact fun _ h => h
  · exact fun _ h => (List.mem_filter.1 h).1

theorem HudSound.checkWall (shuffle : List Card → List Card) {g : GState} (hs : HudSound g) :
    HudSound (g.checkWall shuffle).2 := by
  rcases checkWall_hud_cases shuffle g with ⟨h, hd⟩ | ⟨h, hd⟩
  · exact hs.of_sub (by rw [h]; exact fun _ h => h) (by simp) (by simp) hd
  · rw [hudSound_iff] at hs ⊢
    intro x l hm
    rw [h, List.mem_filter] at hm
    have := hs x l hm.1
    rw [hd, checkWall_p1, checkWall_p2]
    cases l <;> simp_all [Loc]

theorem discardPre_hud_sub (shuffle : List Card → List Card) (g : GState) :
    ∀ e ∈ (discardPre shuffle g).hud, e ∈ g.hud := by
  rw [discardPre_eq]
  split
  · exact fun _ h => h
  · exact checkWall_hud_sub shuffle g

theorem discardFinish_hud_sub (shuffle : List Card → List Card) (g : GState) :
    ∀ e ∈ (discardFinish shuffle g).hud, e ∈ g.hud := by
  rw [discardFinish_hud]
  exact discardPre_hud_sub shuffle g

theorem HudSound.discardPre (shuffle : List Card → List Card) {g : GState} (hs : HudSound g) :
    HudSound (discardPre shuffle g) := by
  rw [discardPre_eq]
  split
  · exact hs
  · exact hs.checkWall shuffle

theorem HudSound.discardFinish (shuffle : List Card → List Card) {g : GState} (hs : HudSound g) :
    HudSound (discardFinish shuffle g) :=
  (hs.discardPre shuffle).of_sub (by rw [discardFinish_hud]; exact fun _ h => h) (by simp) (by simp) (by simp)

/-- the map after the discard proper: the discarded card is the top, the old top is a pile card, every other entry
is an old one -/
theorem mem_discardCore_hud {g : GState} {c : Card} {t : Turn} {e : Card × Hud}
    (he : e ∈ (discardCore g c t).hud) :
    e = (c, .top) ∨ (e.2 = .disc ∧ g.discard.getLast? = some e.1) ∨
    (e ∈ g.hud ∧ e.1 ≠ c ∧ g.discard.getLast? ≠ some e.1) := by
  unfold discardCore at he
  simp only [mem_hudSet] at he
  rcases he with rfl | ⟨he, hne⟩
  · exact .inl rfl
  · cases hg : g.discard.getLast? with
    | none =>
      rw [hg] at he
      exact .inr (.inr ⟨he, hne, by simp⟩)
    | some top =>
      rw [hg] at he
      simp only [mem_hudSet] at he
      rcases he with rfl | ⟨he, hne'⟩
      · exact .inr (.inl ⟨rfl, rfl⟩)
      · exact .inr (.inr ⟨he, hne, by simpa using Ne.symm hne'⟩)

theorem HudSound.discardCore {g : GState} (c : Card) (t : Turn) (hs : HudSound g) :
    HudSound (discardCore g c t) := by
  rw [hudSound_iff] at hs ⊢
  rintro x l hm
  rw [discardCore_p1, discardCore_p2, discardCore_discard]
  rcases mem_discardCore_hud hm with heq | ⟨hl, htop⟩ | ⟨hm', hne, hnt⟩
  · cases heq
    simp [Loc]
  · simp only at hl htop
    subst hl
    simp only [Loc, List.mem_append, List.mem_singleton]
    exact .inl (List.mem_of_getLast? htop)
  · simp only at hne hnt
    have := hs x l hm'
    cases l <;> cases g.turn.owner <;> simp_all [Loc]

theorem HudSound.discardCard {shuffle : List Card → List Card} {g g' : GState} {c : Card} (hs : HudSound g)
    (h : g.discardCard shuffle c = .ok g') : HudSound g' := by
  obtain ⟨-, -, -, dw, -, ⟨-, rfl⟩ | ⟨-, oppDw, -, rfl⟩⟩ := discardCard_ok.1 h
  · exact (hs.discardCore c _).discardFinish shuffle
  · exact (HudSound.discardCore (g := g.endGame _ _ _) c _ hs).discardFinish shuffle

theorem HudSound.decideKnock {shuffle : List Card → List Card} {g g' : GState} {k : Bool}
    {ms : Option (List (List Card))} (hs : HudSound g) (h : g.decideKnock shuffle k ms = .ok g') :
    HudSound g' := by
  obtain ⟨-, ⟨-, ⟨-, rfl⟩ | ⟨-, -, rfl⟩⟩ | ⟨-, a, b, -, -, rfl⟩⟩ := decideKnock_ok.1 h
  · exact hs.checkWall shuffle
  · exact hs.checkWall shuffle
  · exact hs

/-- every accepted move of a game in progress keeps the map truthful -/
theorem HudSound.step {shuffle : List Card → List Card} {g g' : GState} {m : Move} (hl : Live g)
    (hs : HudSound g) (h : g.apply shuffle m = .ok g') : HudSound g' := by
  cases m with
  | pass => exact hs.firstTurnPass h
  | draw d => exact hs.drawCard hl h
  | discard c => exact hs.discardCard h
  | knock k ms => exact hs.decideKnock h

theorem Deal.hudSound {g0 : GState} (hd : Deal g0) : HudSound g0 := by
  obtain ⟨up, -, -, hdisc, -, -, hhud, -⟩ := hd.init
  rw [hudSound_iff]
  intro x l hm
  rw [hhud] at hm
  simp only [List.mem_singleton, Prod.mk.injEq] at hm
  obtain ⟨rfl, rfl⟩ := hm
  simp [Loc, hdisc]

/-- **the public card map is truthful in every reachable state** -/
theorem reach_hudSound {shuffle : List Card → List Card} (hs : ∀ l, (shuffle l).Perm l) {g0 g : GState}
    (hd : Deal g0) (h : Reach shuffle g0 g) : HudSound g := by
  induction h with
  | init => exact hd.hudSound
  | @step g g' m hr hc happ ih => exact ih.step ((reach_inv hs hd hr).live hc) happ

/-! ## §3 no stock card is named -/

theorem HudSound.not_mem_deck {g : GState} (hs : HudSound g) (hn : g.allCards.Nodup) :
    ∀ e ∈ g.hud, e.1 ∉ g.deck := by
  rw [hudSound_iff] at hs
  rintro ⟨x, l⟩ hm hdeck
  have := hs x l hm
  unfold GState.allCards at hn
  simp only [List.nodup_append, List.mem_append] at hn
  have hdisc : x ∈ g.discard → False := fun h => hn.1.1.2.2 x hdeck x h rfl
  cases l
  · exact hn.1.2.2 x (.inl hdeck) x this rfl
  · exact hn.2.2 x (.inl (.inl hdeck)) x this rfl
  · exact hdisc (List.mem_of_getLast? this)
  · exact hdisc this

/-- the hands are not in the stock either -/
theorem hand_not_mem_deck {g : GState} (hn : g.allCards.Nodup) (p : Bool) : ∀ c ∈ g.handOf p, c ∉ g.deck := by
  intro c hc hdeck
  unfold GState.allCards at hn
  simp only [List.nodup_append, List.mem_append] at hn
  cases p
  · exact hn.2.2 c (.inl (.inl hdeck)) c hc rfl
  · exact hn.1.2.2 c (.inl hdeck) c hc rfl

/-! ## §4 secrecy -/

/-- every hand entry of the map is public knowledge, and what is public about a hand is in the hand -/
def Secret (ps : PState) : Prop :=
  (∀ e ∈ ps.g.hud, (e.2 = .p1 → e.1 ∈ ps.pub1) ∧ (e.2 = .p2 → e.1 ∈ ps.pub2)) ∧
  (∀ c ∈ ps.pub1, c ∈ ps.g.p1) ∧ (∀ c ∈ ps.pub2, c ∈ ps.g.p2)

/-- the public sets after a move that does not exhaust the stock -/
def pubNext (ps : PState) (m : Move) : List Card × List Card :=
  match m with
  | .draw true => match ps.g.discard.getLast? with
    | some c => if ps.g.turn.owner then (ps.pub1 ++ [c], ps.pub2) else (ps.pub1, ps.pub2 ++ [c])
    | none => (ps.pub1, ps.pub2)
  | .discard c =>
    if ps.g.turn.owner then (ps.pub1.filter (· != c), ps.pub2) else (ps.pub1, ps.pub2.filter (· != c))
  | _ => (ps.pub1, ps.pub2)

theorem pubStep_eq (ps : PState) (m : Move) (g' : GState) :
    pubStep ps m g' =
      if (g'.deck.isEmpty && !ps.g.deck.isEmpty) = true then ⟨g', g'.p1, g'.p2⟩
      else ⟨g', (pubNext ps m).1, (pubNext ps m).2⟩ := by
  unfold pubStep pubNext
  rfl

@[simp] theorem pubStep_g (ps : PState) (m : Move) (g' : GState) : (pubStep ps m g').g = g' := by
  rw [pubStep_eq]; split <;> rfl

/-- forgetting the ghost state -/
theorem PReach.reach {shuffle : List Card → List Card} {g0 : GState} {ps : PState}
    (h : PReach shuffle g0 ps) : Reach shuffle g0 ps.g := by
  induction h with
  | init => exact .init
  | step m _ hc happ ih => rw [pubStep_g]; exact .step m ih hc happ

/-- once the hands are public, a truthful map is no secret -/
theorem Secret.of_hudSound {g : GState} (hs : HudSound g) : Secret ⟨g, g.p1, g.p2⟩ := by
  rw [hudSound_iff] at hs
  refine ⟨?_, fun _ h => h, fun _ h => h⟩
  rintro ⟨x, l⟩ hm
  have := hs x l hm
  constructor <;> intro h <;> simp only at h <;> subst h <;> exact this

theorem Secret.of_sub {g g' : GState} {a b : List Card} (h : Secret ⟨g, a, b⟩)
    (hh : ∀ e ∈ g'.hud, e ∈ g.hud) (h1 : g'.p1 = g.p1) (h2 : g'.p2 = g.p2) : Secret ⟨g', a, b⟩ := by
  obtain ⟨ha, hb, hc⟩ := h
  refine ⟨fun e he => ha e (hh e he), ?_, ?_⟩
  · show ∀ c ∈ a, c ∈ g'.p1
    rw [h1]; exact hb
  · show ∀ c ∈ b, c ∈ g'.p2
    rw [h2]; exact hc

theorem Secret.draw_stock {g g' : GState} {a b : List Card} {c : Card} {o : Bool} (h : Secret ⟨g, a, b⟩)
    (hh : g'.hud = g.hud) (h1 : g'.p1 = if o then g.p1 ++ [c] else g.p1)
    (h2 : g'.p2 = if o then g.p2 else g.p2 ++ [c]) : Secret ⟨g', a, b⟩ := by
  obtain ⟨ha, hb, hc⟩ := h
  refine ⟨fun e he => ha e (hh ▸ he), ?_, ?_⟩
  · show ∀ c ∈ a, c ∈ g'.p1
    intro x hx
    have := hb x hx
    rw [h1]; cases o <;> simp_all
  · show ∀ c ∈ b, c ∈ g'.p2
    intro x hx
    have := hc x hx
    rw [h2]; cases o <;> simp_all

theorem Secret.draw_pile {g g' : GState} {a b : List Card} {c : Card} {o : Bool} (h : Secret ⟨g, a, b⟩)
    (hh : g'.hud = hudSet g.hud c (if o then .p1 else .p2)) (h1 : g'.p1 = if o then g.p1 ++ [c] else g.p1)
    (h2 : g'.p2 = if o then g.p2 else g.p2 ++ [c]) :
    Secret ⟨g', if o then a ++ [c] else a, if o then b else b ++ [c]⟩ := by
  obtain ⟨ha, hb, hc⟩ := h
  refine ⟨?_, ?_, ?_⟩
  · show ∀ e ∈ g'.hud, (e.2 = .p1 → e.1 ∈ if o then a ++ [c] else a) ∧
      (e.2 = .p2 → e.1 ∈ if o then b else b ++ [c])
    intro e he
    rw [hh, mem_hudSet] at he
    rcases he with rfl | ⟨he, -⟩
    · cases o <;> simp
    · have := ha e he
      cases o <;> simp_all
  · show ∀ x ∈ (if o then a ++ [c] else a), x ∈ g'.p1
    intro x hx
    rw [h1]
    cases o <;> simp_all
    rcases hx with hx | hx
    · exact .inl (hb x hx)
    · exact .inr hx
  · show ∀ x ∈ (if o then b else b ++ [c]), x ∈ g'.p2
    intro x hx
    rw [h2]
    cases o <;> simp_all
    rcases hx with hx | hx
    · exact .inl (hc x hx)
    · exact .inr hx

theorem Secret.discardCore {g : GState} {a b : List Card} (c : Card) (t : Turn) (h : Secret ⟨g, a, b⟩) :
    Secret ⟨discardCore g c t, if g.turn.owner then a.filter (· != c) else a,
      if g.turn.owner then b else b.filter (· != c)⟩ := by
  obtain ⟨ha, hb, hc⟩ := h
  refine ⟨?_, ?_, ?_⟩
  · show ∀ e ∈ (Gin.discardCore g c t).hud, (e.2 = .p1 → e.1 ∈ if g.turn.owner then a.filter (· != c) else a) ∧
      (e.2 = .p2 → e.1 ∈ if g.turn.owner then b else b.filter (· != c))
    intro e he
    rcases mem_discardCore_hud he with rfl | ⟨hl, -⟩ | ⟨he', hne, -⟩
    · simp
    · simp [hl]
    · have := ha e he'
      cases g.turn.owner <;> simp_all
  · show ∀ x ∈ (if g.turn.owner then a.filter (· != c) else a), x ∈ (Gin.discardCore g c t).p1
    intro x hx
    rw [discardCore_p1]
    cases ho : g.turn.owner <;> simp only [ho, if_true, if_false, Bool.false_eq_true, List.mem_filter] at hx ⊢
    · exact hb x hx
    · exact ⟨hb x hx.1, hx.2⟩
  · show ∀ x ∈ (if g.turn.owner then b else b.filter (· != c)), x ∈ (Gin.discardCore g c t).p2
    intro x hx
    rw [discardCore_p2]
    cases ho : g.turn.owner <;> simp only [ho, if_true, if_false, Bool.false_eq_true, List.mem_filter] at hx ⊢
    · exact ⟨hc x hx.1, hx.2⟩
    · exact hc x hx

/-- one accepted move keeps the secrecy invariant (the map of the new state is truthful by `HudSound.step`) -/
theorem Secret.step {shuffle : List Card → List Card} {ps : PState} {g' : GState} {m : Move} (hl : Live ps.g)
    (hsec : Secret ps) (hs' : HudSound g') (h : ps.g.apply shuffle m = .ok g') : Secret (pubStep ps m g') := by
  rw [pubStep_eq]
  split
  · exact Secret.of_hudSound hs'
  · rename_i hreset
    obtain ⟨g, a, b⟩ := ps
    simp only at hl h hreset
    have hp := Turn.p1_eq_owner hl.no_draw_from_deck
    cases m with
    | pass =>
      obtain ⟨-, ⟨-, rfl⟩ | ⟨-, c, rest, hdeck, rfl⟩⟩ := firstTurnPass_ok.1 h
      · exact hsec
      · have hr : rest.isEmpty = false := by simpa [hdeck] using hreset
        refine Secret.draw_stock (c := c) (o := !g.turn.owner) hsec (by simp [hr]) ?_ ?_ <;>
          cases g.turn.owner <;> rfl
    | draw d =>
      cases d
      · obtain ⟨c, rest, -, -, -, hdeck, rfl⟩ := drawCard_false_ok.1 h
        have hr : rest.isEmpty = false := by simpa [hdeck] using hreset
        exact Secret.draw_stock (c := c) (o := g.turn.owner) hsec (by simp [hr]) rfl rfl
      · obtain ⟨c, rest, -, -, -, hdisc, hg'⟩ := drawCard_true_ok.1 h
        have := Secret.draw_pile (g' := g') (c := c) (o := g.turn.owner) hsec (by rw [hg', hp]) (by rw [hg'])
          (by rw [hg'])
        simp only [pubNext, hdisc, List.getLast?_concat]
        cases ho : g.turn.owner <;> simpa [ho] using this
    | discard c =>
      have key : ∀ g1 : GState, g1.hud = g.hud → g1.p1 = g.p1 → g1.p2 = g.p2 → g1.turn = g.turn →
          g1.discard = g.discard → ∀ t,
          Secret ⟨discardFinish shuffle (Gin.discardCore g1 c t), (pubNext ⟨g, a, b⟩ (.discard c)).1,
            (pubNext ⟨g, a, b⟩ (.discard c)).2⟩ := by
        intro g1 e1 e2 e3 e4 e5 t
        have h1 : Secret ⟨g1, a, b⟩ := hsec.of_sub (by rw [e1]; exact fun _ h => h) e2 e3
        have h2 := (h1.discardCore c t).of_sub (discardFinish_hud_sub shuffle _) (by simp) (by simp)
        rw [e4] at h2
        simp only [pubNext]
        cases ho : g.turn.owner <;> simpa [ho] using h2
      obtain ⟨-, -, -, dw, -, ⟨-, rfl⟩ | ⟨-, oppDw, -, rfl⟩⟩ := discardCard_ok.1 h
      · exact key g rfl rfl rfl rfl rfl _
      · exact key (g.endGame _ _ _) rfl rfl rfl rfl rfl _
    | knock k ms =>
      obtain ⟨-, ⟨-, ⟨-, rfl⟩ | ⟨-, -, rfl⟩⟩ | ⟨-, x, y, -, -, rfl⟩⟩ := decideKnock_ok.1 h
      · exact hsec.of_sub (checkWall_hud_sub shuffle g) (by simp) (by simp)
      · exact hsec.of_sub (checkWall_hud_sub shuffle g) (by simp) (by simp)
      · exact hsec

/-- **secrecy holds along every play** -/
theorem preach_secret {shuffle : List Card → List Card} (hs : ∀ l, (shuffle l).Perm l) {g0 : GState}
    {ps : PState} (hd : Deal g0) (h : PReach shuffle g0 ps) : Secret ps := by
  induction h with
  | init =>
    obtain ⟨up, -, -, -, -, -, hhud, -⟩ := hd.init
    refine ⟨?_, ?_, ?_⟩
    · intro e he
      change e ∈ g0.hud at he
      rw [hhud, List.mem_singleton] at he
      subst he
      simp
    · intro c hc; cases hc
    · intro c hc; cases hc
  | @step ps g' m hp hc happ ih =>
    have hr := hp.reach
    have hl := (reach_inv hs hd hr).live hc
    exact ih.step hl (reach_hudSound hs hd (.step m hr hc happ)) happ

/-! ## §5 views -/

/-- a map location as the viewer sees it -/
def trLoc (isP1 : Bool) : Hud → ViewLoc
  | .p1 => if isP1 then .user else .opponent
  | .p2 => if isP1 then .opponent else .user
  | .top => .top
  | .disc => .disc

theorem playerHud_eq (g : GState) (isP1 : Bool) :
    g.playerHud isP1 =
      (g.handOf isP1).foldl (fun h c => dictSet h c ViewLoc.user) (g.hud.map fun e => (e.1, trLoc isP1 e.2)) := by
  rfl

/-- the viewer's map: own hand cards as "user", and the translated public entries for all other cards -/
theorem mem_playerHud {g : GState} {isP1 : Bool} {e : Card × ViewLoc} :
    e ∈ g.playerHud isP1 ↔
      (e.2 = .user ∧ e.1 ∈ g.handOf isP1) ∨
      ((∃ l, (e.1, l) ∈ g.hud ∧ trLoc isP1 l = e.2) ∧ e.1 ∉ g.handOf isP1) := by
  rw [playerHud_eq, mem_foldl_dictSet]
  refine or_congr Iff.rfl (and_congr_left fun _ => ?_)
  rw [List.mem_map]
  constructor
  · rintro ⟨⟨x, l⟩, hm, rfl⟩
    exact ⟨l, hm, rfl⟩
  · rintro ⟨l, hm, hl⟩
    exact ⟨(e.1, l), hm, by rw [hl]⟩

theorem trLoc_opponent {isP1 : Bool} {l : Hud} (h : trLoc isP1 l = .opponent) :
    l = if isP1 then Hud.p2 else Hud.p1 := by
  cases l <;> cases isP1 <;> simp_all [trLoc]

/-- the three facts of `view_hud`, from a truthful map and distinct cards -/
theorem playerHud_spec {g : GState} (hs : HudSound g) (hn : g.allCards.Nodup) (isP1 : Bool) :
    (∀ e ∈ g.playerHud isP1, e.1 ∉ g.deck) ∧
    (∀ e ∈ g.playerHud isP1, e.2 = .opponent → (e.1, if isP1 then Hud.p2 else Hud.p1) ∈ g.hud) ∧
    (∀ c ∈ g.handOf isP1, (c, ViewLoc.user) ∈ g.playerHud isP1) := by
  refine ⟨?_, ?_, ?_⟩
  · intro e he
    rcases mem_playerHud.1 he with ⟨-, h⟩ | ⟨⟨l, hm, -⟩, -⟩
    · exact hand_not_mem_deck hn isP1 _ h
    · exact hs.not_mem_deck hn _ hm
  · intro e he ho
    rcases mem_playerHud.1 he with ⟨h, -⟩ | ⟨⟨l, hm, hl⟩, -⟩
    · rw [ho] at h; cases h
    · rw [ho] at hl
      rw [← trLoc_opponent hl]; exact hm
  · intro c hc
    exact mem_playerHud.2 (.inl ⟨rfl, hc⟩)

/-- an accepted view, explicitly (the sorted hand and its deadwood are whatever the meld search returns) -/
theorem view_ok {g : GState} {isP1 : Bool} {v : View} (hv : g.view isP1 = .ok v) :
    ∃ hand pts, v =
      { hand := hand, points := pts, topOfDiscard := g.discard.getLast?,
        lastFromDiscard := g.lastFromDiscard, deckLength := g.deck.length, hud := g.playerHud isP1,
        action := g.getAction isP1,
        drawnCard := if g.getAction isP1 == .discard then g.lastDraw else none } := by
  unfold GState.view at hv
  dsimp only at hv
  split at hv
  · simp only [bind_ok] at hv
    obtain ⟨c, -, hand, -, pts, -, hv⟩ := hv
    cases hv
    exact ⟨hand, pts, rfl⟩
  · simp only [bind_ok] at hv
    obtain ⟨hand, -, pts, -, hv⟩ := hv
    cases hv
    exact ⟨hand, pts, rfl⟩

/-- only the player who has to discard is told to -/
theorem getAction_eq_discard {g : GState} {isP1 : Bool} (h : g.getAction isP1 = .discard) :
    g.complete = false ∧ isP1 = g.turn.owner ∧ g.turn.isDiscard = true := by
  cases hc : g.complete <;> cases isP1 <;> cases hT : g.turn <;>
    simp_all [GState.getAction, Turn.p1, Turn.owner, Turn.isDraw, Turn.isDiscard, Turn.isKnock]

/-- the player on turn is never told to wait, the other one always is -/
theorem getAction_wait {g : GState} (hc : g.complete = false) (hl : Live g) :
    g.getAction g.turn.owner ≠ .wait ∧ g.getAction (!g.turn.owner) = .wait := by
  have hnd := hl.no_draw_from_deck
  cases hT : g.turn <;>
    simp_all [GState.getAction, Turn.p1, Turn.owner, Turn.isDraw, Turn.isDiscard, Turn.isKnock,
      Turn.isDrawFromDeck]

end CardVerif.Gin
