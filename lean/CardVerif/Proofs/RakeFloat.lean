import CardVerif.Proofs.Rake
import CardVerif.Proofs.Float53
/-!
# The rake loop under a rounding that behaves like IEEE doubles (`FlRake`), and `Float53.rnd` is one

Part 1 (namespace `CardVerif.Pot`): `FlRake B fl` lists exactly what the loop of `rakePerPlayer` needs from the
rounding `fl` on the values below `B`; `rf_exInv_rakePerPlayer` re-proves the invariant `ExInv` of the exact loop
(`Proofs/Rake.lean`) for every such rounding.

Part 2 (namespace `CardVerif.Float53`): `Float53.rnd` satisfies `FlRake (2^53)`:
* `rf_rnd_idem`     – rounding is idempotent;
* `rf_sub_exact`    – a double below `2^53` minus a smaller non-negative integer is a double (Sterbenz-like);
* `rf_floor_div`    – for a double `0 ≤ x < 2^53` and an integer `k ≥ 1`, `rnd (x / k)` does not reach the next
                      integer above `x / k`, hence `k * ⌊rnd (x / k)⌋ ≤ x`.
-/
namespace CardVerif.Pot
open CardVerif

/-- what the rake loop needs from the rounding function, on values below `B` -/
structure FlRake (B : Rat) (fl : Rat → Rat) : Prop where
  /-- rounding is monotone -/
  mono : ∀ a b : Rat, a ≤ b → fl a ≤ fl b
  zero : fl 0 = 0
  /-- a rounded value is representable -/
  idem : ∀ x : Rat, fl (fl x) = fl x
  /-- non-negative integers below `B` are representable -/
  fixInt : ∀ z : Int, 0 ≤ z → (z : Rat) < B → fl (z : Rat) = (z : Rat)
  /-- representable minus a smaller non-negative integer is representable -/
  subExact : ∀ (a : Rat) (n : Int), fl a = a → a < B → 0 ≤ n → (n : Rat) ≤ a →
    fl (a - (n : Rat)) = a - (n : Rat)
  /-- the rounded quotient of a representable number by a positive integer does not jump over an integer -/
  floorDiv : ∀ (x : Rat) (k : Nat), fl x = x → 0 ≤ x → x < B → 1 ≤ k →
    ((k : Nat) : Rat) * (((fl (x / ((k : Nat) : Rat))).floor : Int) : Rat) ≤ x

/-- exact arithmetic is such a rounding, for every bound -/
theorem rf_flRake_id (B : Rat) : FlRake B id := by
  refine ⟨fun _ _ h => h, rfl, fun _ => rfl, fun _ _ _ => rfl, fun _ _ _ _ _ _ => rfl, ?_⟩
  intro x k _ _ _ hk
  have hkpos : (0 : Rat) < ((k : Nat) : Rat) := by exact_mod_cast hk
  have := Rat.floor_le (x / ((k : Nat) : Rat))
  simp only [id]
  rw [le_div_iff₀ hkpos] at this
  linarith

theorem FlRake.nonneg {B : Rat} {fl : Rat → Rat} (h : FlRake B fl) {x : Rat} (hx : 0 ≤ x) : 0 ≤ fl x := by
  have := h.mono 0 x hx
  rwa [h.zero] at this

theorem rf_maxTotalRake_le_cap (fl : Rat → Rat) (cfg : RakeCfg) (bal : List Int) :
    maxTotalRake fl cfg bal ≤ (cfg.cap : Rat) := by
  unfold maxTotalRake
  simp only
  split
  · rename_i h; exact le_of_lt h
  · exact le_refl _

theorem rf_maxTotalRake_nonneg {B : Rat} {fl : Rat → Rat} (hfl : FlRake B fl) (cfg : RakeCfg) (bal : List Int)
    (hf0 : 0 ≤ cfg.f) (hcap : 0 ≤ cfg.cap) (hbal : ∀ b ∈ bal, 0 ≤ b) : 0 ≤ maxTotalRake fl cfg bal := by
  have hs : (0 : Rat) ≤ ((sumI bal : Int) : Rat) := by exact_mod_cast sumI_nonneg hbal
  have hc : (0 : Rat) ≤ (cfg.cap : Rat) := by exact_mod_cast hcap
  unfold maxTotalRake
  simp only
  split
  · exact hfl.nonneg (mul_nonneg hf0 hs)
  · exact hc

/-- the budget is representable: it is a rounded product or the (integer) cap -/
theorem rf_maxTotalRake_repr {B : Rat} {fl : Rat → Rat} (hfl : FlRake B fl) (cfg : RakeCfg) (bal : List Int)
    (hcap : 0 ≤ cfg.cap) (hcapB : (cfg.cap : Rat) < B) :
    fl (maxTotalRake fl cfg bal) = maxTotalRake fl cfg bal := by
  unfold maxTotalRake
  simp only
  split
  · exact hfl.idem _
  · exact hfl.fixInt _ hcap hcapB

/-- a charge is non-negative and the budget left covers it for all seats at the level -/
theorem rf_charge {B : Rat} {fl : Rat → Rat} (hfl : FlRake B fl) (cfg : RakeCfg) (hf0 : 0 ≤ cfg.f)
    (bal : List Int) (mtr : Rat) (level diff : Int) (rake : List Int) (hd : 0 ≤ diff)
    (hm : fl mtr = mtr) (hB : mtr < B) (hs0 : 0 ≤ sumI rake) (hs : ((sumI rake : Int) : Rat) ≤ mtr) :
    0 ≤ charge fl cfg bal mtr level diff rake ∧
      ((nAt bal level : Nat) : Rat) * ((charge fl cfg bal mtr level diff rake : Int) : Rat)
        ≤ mtr - ((sumI rake : Int) : Rat) := by
  have hsq : (0 : Rat) ≤ ((sumI rake : Int) : Rat) := by exact_mod_cast hs0
  have hleft : fl (mtr - ((sumI rake : Int) : Rat)) = mtr - ((sumI rake : Int) : Rat) :=
    hfl.subExact mtr (sumI rake) hm hB hs0 hs
  have hx0 : 0 ≤ mtr - ((sumI rake : Int) : Rat) := by linarith
  have hxB : mtr - ((sumI rake : Int) : Rat) < B := by linarith
  have hdq : (0 : Rat) ≤ (diff : Rat) := by exact_mod_cast hd
  have hk : (0 : Rat) ≤ ((nAt bal level : Nat) : Rat) := by positivity
  have hq : (0 : Rat) ≤ fl ((mtr - ((sumI rake : Int) : Rat)) / ((nAt bal level : Nat) : Rat)) :=
    hfl.nonneg (div_nonneg hx0 hk)
  have ha := pyInt_nonneg hq
  have hb := pyInt_nonneg (hfl.nonneg (mul_nonneg hdq hf0))
  unfold charge
  rw [hleft]
  refine ⟨le_min ha hb, ?_⟩
  rcases Nat.eq_zero_or_pos (nAt bal level) with h0 | hpos
  · rw [h0]; simpa using hx0
  · have hfd := hfl.floorDiv _ (nAt bal level) hleft hx0 hxB hpos
    have hmin : ((min (pyInt (fl ((mtr - ((sumI rake : Int) : Rat)) / ((nAt bal level : Nat) : Rat))))
        (pyInt (fl ((diff : Rat) * cfg.f))) : Int) : Rat)
        ≤ (((fl ((mtr - ((sumI rake : Int) : Rat)) / ((nAt bal level : Nat) : Rat))).floor : Int) : Rat) := by
      rw [← pyInt_of_nonneg hq]
      exact_mod_cast Int.min_le_left _ _
    exact le_trans (mul_le_mul_of_nonneg_left hmin hk) hfd

/-- **the invariant of the exact loop holds for every `FlRake` rounding** whose bound exceeds the cap -/
theorem rf_exInv_rakePerPlayer {B : Rat} {fl : Rat → Rat} (hfl : FlRake B fl) (cfg : RakeCfg) (bal : List Int)
    (rp : Bool) (hf0 : 0 ≤ cfg.f) (hcap : 0 ≤ cfg.cap) (hcapB : (cfg.cap : Rat) < B)
    (hbal : ∀ b ∈ bal, 0 ≤ b) :
    ExInv bal (maxTotalRake fl cfg bal) (rakePerPlayer fl cfg bal rp) := by
  have hm0 := rf_maxTotalRake_nonneg hfl cfg bal hf0 hcap hbal
  have hmr := rf_maxTotalRake_repr hfl cfg bal hcap hcapB
  have hmB : maxTotalRake fl cfg bal < B := lt_of_le_of_lt (rf_maxTotalRake_le_cap fl cfg bal) hcapB
  have h0 : ExInv bal (maxTotalRake fl cfg bal) (bal.map fun _ => (0 : Int)) := by
    refine ⟨by simp, ?_, ?_, ?_⟩
    · rw [sumI_map_zero]; simpa using hm0
    · intro p _; rw [getI_map_zero]
    · intro p q _ _ _; rw [getI_map_zero, getI_map_zero]
  cases rp
  · rw [rakePerPlayer_false]; exact h0
  rw [rakePerPlayer_true]
  refine rakeLoop_chain fl cfg bal (maxTotalRake fl cfg bal)
    (fun _ rake => ExInv bal (maxTotalRake fl cfg bal) rake ∧ 0 ≤ sumI rake)
    (ExInv bal (maxTotalRake fl cfg bal))
    (fun _ _ h => h.1) ?_ (levels bal) 0 _ (levels_chain hbal) (levels_cover bal)
    ⟨h0, by rw [sumI_map_zero]⟩
  intro prev level rake hpl _ _ ⟨⟨hl, hs, hn, hm⟩, hs0⟩
  obtain ⟨hc0, hck⟩ := rf_charge hfl cfg hf0 bal (maxTotalRake fl cfg bal) level (level - prev) rake
    (by omega) hmr hmB hs0 hs
  have hsum := sumI_stepRake level (charge fl cfg bal (maxTotalRake fl cfg bal) level (level - prev) rake)
    rake bal hl
  refine ⟨⟨length_stepRake _ _ rake bal hl, ?_, ?_, ?_⟩, ?_⟩
  · rw [hsum]
    push_cast
    linarith
  · intro p hp
    have := hn p hp
    rw [getI_stepRake _ _ rake bal p hl hp]
    split <;> omega
  · intro p q hp hq hpq
    have := hm p q hp hq hpq
    rw [getI_stepRake _ _ rake bal p hl hp, getI_stepRake _ _ rake bal q hl hq]
    split <;> split <;> omega
  · rw [hsum]
    have : (0 : Int) ≤ ((nAt bal level : Nat) : Int) * charge fl cfg bal (maxTotalRake fl cfg bal) level
        (level - prev) rake := Int.mul_nonneg (Int.natCast_nonneg _) hc0
    omega

end CardVerif.Pot

/-! ## `Float53.rnd` is an `FlRake` rounding -/
namespace CardVerif.Float53
open CardVerif

theorem rf_rnd_zero : rnd 0 = 0 := by simp [rnd]

theorem rf_rnd_of_pos {x : Rat} (hx : 0 < x) : rnd x = rndPos x := by
  unfold rnd; rw [if_neg (ne_of_gt hx), if_pos hx]

theorem rf_rnd_of_neg {x : Rat} (hx : x < 0) : rnd x = - rndPos (-x) := by
  unfold rnd; rw [if_neg (ne_of_lt hx), if_neg (not_lt.2 (le_of_lt hx))]

theorem rf_rnd_nonneg {x : Rat} (hx : 0 ≤ x) : 0 ≤ rnd x := by
  have := rnd_mono 0 x hx
  rwa [rf_rnd_zero] at this

/-- rounding to nearest moves up by at most one half -/
theorem rf_roundHalfEven_le (m : Rat) : (roundHalfEven m : Rat) ≤ m + 1 / 2 := by
  have h1 := Rat.floor_le m
  unfold roundHalfEven
  simp only
  split_ifs with a b c
  · linarith
  · push_cast; linarith
  · linarith
  · have : m - (m.floor : Rat) = 1 / 2 := le_antisymm (not_lt.1 b) (not_lt.1 a)
    push_cast; linarith

theorem rf_floor_zero : (0 : Rat).floor = 0 := by
  have := Rat.floor_intCast 0
  simpa using this

theorem rf_pow2_neg_mul (m : Nat) : ((2 ^ m : Nat) : Rat) * pow2 (-(m : Int)) = 1 := by
  rw [← pow2_natCast, ← pow2_add, add_neg_cancel, pow2_zero]

/-- `M * 2^j` with `0 < M < 2^53` is representable -/
theorem rf_rndPos_int_mul {M j : Int} (h0 : 0 < M) (hM : M < 2 ^ 53) :
    rndPos ((M : Rat) * pow2 j) = (M : Rat) * pow2 j := by
  have hj := pow2_pos j
  have hMq : (0 : Rat) < (M : Rat) := by exact_mod_cast h0
  have hq : 0 < (M : Rat) * pow2 j := mul_pos hMq hj
  obtain ⟨a, b⟩ := ilog2_spec hq
  have hlt : (M : Rat) * pow2 j < pow2 (53 + j) := by
    rw [pow2_add, pow2_53]
    exact mul_lt_mul_of_pos_right (by exact_mod_cast hM) hj
  have he : ilog2 ((M : Rat) * pow2 j) < 53 + j := pow2_lt_iff.1 (lt_of_le_of_lt a hlt)
  obtain ⟨n, hn⟩ := Int.eq_ofNat_of_zero_le
    (show 0 ≤ j - (ilog2 ((M : Rat) * pow2 j) - 52) by omega)
  refine rndPos_of_scaled_int (M * ((2 ^ n : Nat) : Int)) ?_
  rw [div_eq_iff (ne_of_gt (pow2_pos _))]
  have h := pow2_natCast n
  rw [Int.cast_mul, Int.cast_natCast, ← h, ← hn, mul_assoc, ← pow2_add]
  congr 2
  omega

theorem rf_rndPos_idem {x : Rat} (hx : 0 < x) : rndPos (rndPos x) = rndPos x := by
  obtain ⟨a, b⟩ := ilog2_spec hx
  obtain ⟨s1, s2⟩ := scaled_bounds a b
  have r1 : (2 ^ 52 : Int) ≤ roundHalfEven (x / pow2 (ilog2 x - 52)) := le_roundHalfEven s1
  have r2 : roundHalfEven (x / pow2 (ilog2 x - 52)) ≤ (2 ^ 53 : Int) := roundHalfEven_le (le_of_lt s2)
  rw [rndPos_eq x]
  generalize roundHalfEven (x / pow2 (ilog2 x - 52)) = R at r1 r2
  generalize ilog2 x - 52 = j
  rcases Int.lt_or_eq_of_le r2 with h | h
  · exact rf_rndPos_int_mul (by omega) h
  · subst h
    have : ((2 ^ 53 : Int) : Rat) * pow2 j = ((2 ^ 52 : Int) : Rat) * pow2 (j + 1) := by
      rw [← pow2_53, ← pow2_52, ← pow2_add, ← pow2_add]; congr 1; omega
    rw [this]; exact rf_rndPos_int_mul (by norm_num) (by norm_num)

/-- **rounding is idempotent**: a rounded value is a double -/
theorem rf_rnd_idem (x : Rat) : rnd (rnd x) = rnd x := by
  rcases lt_trichotomy x 0 with h | h | h
  · have p := rndPos_pos (q := -x) (by linarith)
    rw [rf_rnd_of_neg h, rf_rnd_of_neg (by linarith), neg_neg, rf_rndPos_idem (by linarith)]
  · subst h; rw [rf_rnd_zero, rf_rnd_zero]
  · have p := rndPos_pos h
    rw [rf_rnd_of_pos h, rf_rnd_of_pos p, rf_rndPos_idem h]

/-- a positive double below `2^53` is `M * 2^-m` with `0 < M < 2^53`, in the binade that ends at `2^(53-m)` -/
theorem rf_double_decomp {x : Rat} (hx : 0 < x) (hr : rnd x = x) (h53 : x < pow2 53) :
    ∃ (M : Int) (m : Nat), x = (M : Rat) * pow2 (-(m : Int)) ∧ 0 < M ∧ M < 2 ^ 53 ∧
      x < pow2 (53 - (m : Int)) := by
  obtain ⟨a, b⟩ := ilog2_spec hx
  have hE : ilog2 x < 53 := pow2_lt_iff.1 (lt_of_le_of_lt a h53)
  obtain ⟨m, hm⟩ := Int.eq_ofNat_of_zero_le (show 0 ≤ 52 - ilog2 x by omega)
  have hj : ilog2 x - 52 = -(m : Int) := by omega
  rw [rf_rnd_of_pos hx, rndPos_eq, hj] at hr
  have hb : x < pow2 (53 - (m : Int)) := by
    rw [show (53 : Int) - (m : Int) = ilog2 x + 1 by omega]; exact b
  have hp := pow2_pos (-(m : Int))
  refine ⟨roundHalfEven (x / pow2 (-(m : Int))), m, hr.symm, ?_, ?_, hb⟩
  · have : (0 : Rat) < (roundHalfEven (x / pow2 (-(m : Int))) : Rat) * pow2 (-(m : Int)) := by
      rw [hr]; exact hx
    have : (0 : Rat) < (roundHalfEven (x / pow2 (-(m : Int))) : Rat) := by
      by_contra hc
      have := mul_nonpos_of_nonpos_of_nonneg (not_lt.1 hc) (le_of_lt hp)
      linarith
    exact_mod_cast this
  · have h1 : (roundHalfEven (x / pow2 (-(m : Int))) : Rat) * pow2 (-(m : Int))
        < ((2 ^ 53 : Int) : Rat) * pow2 (-(m : Int)) := by
      rw [hr, ← pow2_53, ← pow2_add, show (53 : Int) + -(m : Int) = 53 - (m : Int) by omega]; exact hb
    have : (roundHalfEven (x / pow2 (-(m : Int))) : Rat) < ((2 ^ 53 : Int) : Rat) :=
      lt_of_mul_lt_mul_right h1 (le_of_lt hp)
    exact_mod_cast this

/-- **exact subtraction**: a double below `2^53` minus a smaller non-negative integer is a double -/
theorem rf_sub_exact (a : Rat) (n : Int) (hr : rnd a = a) (h53 : a < pow2 53) (hn : 0 ≤ n)
    (hna : (n : Rat) ≤ a) : rnd (a - (n : Rat)) = a - (n : Rat) := by
  rcases eq_or_lt_of_le hna with h | h
  · rw [h, sub_self, rf_rnd_zero]
  · have hnq : (0 : Rat) ≤ (n : Rat) := by exact_mod_cast hn
    have ha : 0 < a := lt_of_le_of_lt hnq h
    obtain ⟨M, m, hx, hM0, hM, _⟩ := rf_double_decomp ha hr h53
    have hd : 0 < a - (n : Rat) := by linarith
    have hp := pow2_pos (-(m : Int))
    rw [rf_rnd_of_pos hd]
    have e : a - (n : Rat) = ((M - n * ((2 ^ m : Nat) : Int) : Int) : Rat) * pow2 (-(m : Int)) := by
      rw [Int.cast_sub, Int.cast_mul, Int.cast_natCast, sub_mul, mul_assoc, rf_pow2_neg_mul, mul_one, ← hx]
    rw [e]
    apply rf_rndPos_int_mul
    · have h1 : (0 : Rat) < ((M - n * ((2 ^ m : Nat) : Int) : Int) : Rat) * pow2 (-(m : Int)) := by
        rw [← e]; exact hd
      have : (0 : Rat) < ((M - n * ((2 ^ m : Nat) : Int) : Int) : Rat) := by
        by_contra hc
        have := mul_nonpos_of_nonpos_of_nonneg (not_lt.1 hc) (le_of_lt hp)
        linarith
      exact_mod_cast this
    · have : 0 ≤ n * ((2 ^ m : Nat) : Int) := Int.mul_nonneg hn (Int.natCast_nonneg _)
      omega

/-- **a rounded quotient does not reach the next integer**: `x` a double below `2^53`, `k ≥ 1`, `x / k < n` -/
theorem rf_rnd_div_lt {x : Rat} {k : Nat} {n : Int} (hr : rnd x = x) (hx : 0 < x) (h53 : x < pow2 53)
    (hk : 1 ≤ k) (hn : x / ((k : Nat) : Rat) < (n : Rat)) : rnd (x / ((k : Nat) : Rat)) < (n : Rat) := by
  by_contra hcon
  have hcon := not_lt.1 hcon
  have hkq : (0 : Rat) < ((k : Nat) : Rat) := by exact_mod_cast hk
  have hz : 0 < x / ((k : Nat) : Rat) := div_pos hx hkq
  rw [rf_rnd_of_pos hz, rndPos_eq] at hcon
  obtain ⟨a, b⟩ := ilog2_spec hz
  generalize ilog2 (x / ((k : Nat) : Rat)) = e at a b hcon
  have hu := pow2_pos (e - 52)
  have hR := rf_roundHalfEven_le (x / ((k : Nat) : Rat) / pow2 (e - 52))
  -- `n ≤ z + ulp / 2`
  have h1 : (n : Rat) ≤ x / ((k : Nat) : Rat) + pow2 (e - 52) / 2 := by
    calc (n : Rat) ≤ _ := hcon
      _ ≤ (x / ((k : Nat) : Rat) / pow2 (e - 52) + 1 / 2) * pow2 (e - 52) :=
          mul_le_mul_of_nonneg_right hR (le_of_lt hu)
      _ = x / ((k : Nat) : Rat) + pow2 (e - 52) / 2 := by
          rw [add_mul, div_mul_cancel₀ _ (ne_of_gt hu)]; ring
  obtain ⟨M, m, hxM, hM0, hM, hxlt⟩ := rf_double_decomp hx hr h53
  have hp := pow2_pos (-(m : Int))
  -- `k * ulp(z) < 2 * ulp(x)`
  have h2 : ((k : Nat) : Rat) * pow2 (e - 52) < 2 * pow2 (-(m : Int)) := by
    have h' : pow2 e * ((k : Nat) : Rat) ≤ x := by rwa [le_div_iff₀ hkq] at a
    have h'' : pow2 e * ((k : Nat) : Rat) < pow2 (53 - (m : Int)) := lt_of_le_of_lt h' hxlt
    rw [show e = (e - 52) + 52 by omega, pow2_add, show (53 : Int) - (m : Int) = 53 + (-(m : Int)) by omega,
      pow2_add, pow2_52, pow2_53] at h''
    norm_num at h''
    linarith
  -- hence `n * k - x < ulp(x)`
  have h3 : (n : Rat) * ((k : Nat) : Rat) - x < pow2 (-(m : Int)) := by
    have := mul_le_mul_of_nonneg_right h1 (le_of_lt hkq)
    rw [add_mul, div_mul_cancel₀ _ (ne_of_gt hkq)] at this
    linarith
  have h4 : x < (n : Rat) * ((k : Nat) : Rat) := by rwa [div_lt_iff₀ hkq] at hn
  -- but `n * k - x` is a positive multiple of `ulp(x)`
  have e1 : (n : Rat) * ((k : Nat) : Rat) - x
      = ((n * ((k : Nat) : Int) * ((2 ^ m : Nat) : Int) - M : Int) : Rat) * pow2 (-(m : Int)) := by
    rw [Int.cast_sub, Int.cast_mul, Int.cast_mul, Int.cast_natCast, Int.cast_natCast, sub_mul, mul_assoc,
      rf_pow2_neg_mul, mul_one, ← hxM]
  have h5 : (0 : Rat) < ((n * ((k : Nat) : Int) * ((2 ^ m : Nat) : Int) - M : Int) : Rat) := by
    by_contra hc
    have := mul_nonpos_of_nonpos_of_nonneg (not_lt.1 hc) (le_of_lt hp)
    rw [← e1] at this
    linarith
  have h6 : (1 : Int) ≤ n * ((k : Nat) : Int) * ((2 ^ m : Nat) : Int) - M := by
    have : (0 : Int) < n * ((k : Nat) : Int) * ((2 ^ m : Nat) : Int) - M := by exact_mod_cast h5
    omega
  have h7 : pow2 (-(m : Int)) ≤ (n : Rat) * ((k : Nat) : Rat) - x := by
    rw [e1]
    have : ((1 : Int) : Rat) ≤ ((n * ((k : Nat) : Int) * ((2 ^ m : Nat) : Int) - M : Int) : Rat) := by
      exact_mod_cast h6
    calc pow2 (-(m : Int)) = ((1 : Int) : Rat) * pow2 (-(m : Int)) := by simp
      _ ≤ _ := mul_le_mul_of_nonneg_right this (le_of_lt hp)
  linarith

/-- **the floor of a rounded quotient is affordable**: `k * ⌊rnd (x / k)⌋ ≤ x` -/
theorem rf_floor_div (x : Rat) (k : Nat) (hr : rnd x = x) (hx : 0 ≤ x) (h53 : x < pow2 53) (hk : 1 ≤ k) :
    ((k : Nat) : Rat) * (((rnd (x / ((k : Nat) : Rat))).floor : Int) : Rat) ≤ x := by
  have hkq : (0 : Rat) < ((k : Nat) : Rat) := by exact_mod_cast hk
  rcases eq_or_lt_of_le hx with h | h
  · rw [← h]; simp [rf_rnd_zero, rf_floor_zero]
  · have hlt := Rat.lt_floor_add_one (x / ((k : Nat) : Rat))
    have h1 := rf_rnd_div_lt hr h h53 hk hlt
    have h2 : (rnd (x / ((k : Nat) : Rat))).floor < (x / ((k : Nat) : Rat)).floor + 1 :=
      Rat.floor_lt_iff.2 h1
    have h3 : (rnd (x / ((k : Nat) : Rat))).floor ≤ (x / ((k : Nat) : Rat)).floor := by omega
    have h4 : (((rnd (x / ((k : Nat) : Rat))).floor : Int) : Rat) ≤ x / ((k : Nat) : Rat) :=
      le_trans (by exact_mod_cast h3) (Rat.floor_le _)
    rw [le_div_iff₀ hkq] at h4
    linarith

/-- the floor of the rounded quotient is the floor of the exact quotient -/
theorem rf_floor_rnd_div (x : Rat) (k : Nat) (hr : rnd x = x) (hx : 0 ≤ x) (h53 : x < pow2 53) (hk : 1 ≤ k) :
    (rnd (x / ((k : Nat) : Rat))).floor = (x / ((k : Nat) : Rat)).floor := by
  have hkq : (0 : Rat) < ((k : Nat) : Rat) := by exact_mod_cast hk
  rcases eq_or_lt_of_le hx with h | h
  · rw [← h]; simp [rf_rnd_zero]
  · have hz : 0 < x / ((k : Nat) : Rat) := div_pos h hkq
    have hzx : x / ((k : Nat) : Rat) ≤ x := div_le_self hx (by exact_mod_cast hk)
    apply Int.le_antisymm
    · have h1 := rf_rnd_div_lt hr h h53 hk (Rat.lt_floor_add_one (x / ((k : Nat) : Rat)))
      have := Rat.floor_lt_iff.2 h1
      omega
    · have := rnd_mono _ _ (Rat.floor_le (x / ((k : Nat) : Rat)))
      rw [rnd_int] at this
      · exact Rat.le_floor_iff.2 this
      · have f0 : 0 ≤ (x / ((k : Nat) : Rat)).floor := Rat.le_floor_iff.2 (by simpa using le_of_lt hz)
        have f1 : (((x / ((k : Nat) : Rat)).floor : Int) : Rat) < ((2 ^ 53 : Int) : Rat) := by
          rw [← pow2_53]
          exact lt_of_le_of_lt (le_trans (Rat.floor_le _) hzx) h53
        have f2 : (x / ((k : Nat) : Rat)).floor < 2 ^ 53 := by exact_mod_cast f1
        rw [abs_of_nonneg f0]; omega

/-- **IEEE-754 binary64 rounding is an `FlRake` rounding below `2^53`** -/
theorem rf_flRake_f53 : Pot.FlRake ((2 ^ 53 : Int) : Rat) rnd := by
  refine ⟨rnd_mono, rf_rnd_zero, rf_rnd_idem, ?_, ?_, ?_⟩
  · intro z h0 hz
    have hz' : z < 2 ^ 53 := by exact_mod_cast hz
    exact rnd_int z (by rw [abs_of_nonneg h0]; omega)
  · intro a n hr hB hn hna
    exact rf_sub_exact a n hr (by rw [pow2_53]; exact hB) hn hna
  · intro x k hr hx hB hk
    exact rf_floor_div x k hr hx (by rw [pow2_53]; exact hB) hk

end CardVerif.Float53
