import CardVerif.Proofs.BettingInv
import CardVerif.Proofs.Closure
import CardVerif.Proofs.Accept
/-!
# C13 — termination: every sequence of accepted actions is bounded (`terminates_thm`)

Lexicographic measure `(Σ stacks, 4 − street, far)`, packed into one natural number `State.rank`:

* a wager (CALL / BET / RAISE moves `x > 0` chips) lowers `Σ stacks`;
* a CHECK / FOLD that closes the round moves the street forward;
* a CHECK / FOLD that leaves the round open only moves the seat to act, to the first seat clockwise that can act.
  `far s` is the clockwise distance (plus one) from the seat to act to the *farthest pending seat*, where a seat is
  pending when it is live (not folded, chips behind) and has not acted on this street or has not matched the highest
  contribution.  The actor leaves the pending set (FOLD: folded; CHECK: only accepted when nothing is owed), nobody
  enters it, an open round has a pending seat (read off `is_action_closed`), every pending seat is live and hence at
  or beyond the new seat to act: so every pending seat gets strictly closer and `far` drops.

No invariant beyond `Inv` (`reachable_inv`) and "in progress ⇒ street < 4" is needed.
-/
namespace CardVerif.Betting
open CardVerif

/-- `k` accepted actions lead from `s` to `s'` (same constructors as `C13.Run`) -/
inductive RunK (env : Env) : State → Nat → State → Prop
  | refl (s : State) : RunK env s 0 s
  | step {s s' s'' : State} {k : Nat} (p : Int) (ty : Option ActType) (amt : Option Int) :
      RunK env s k s' → s'.act env p ty amt = .ok s'' → RunK env s (k + 1) s''

/-! ## §1 a supremum over a list of seats -/

def supL (l : List Nat) (f : Nat → Nat) : Nat := l.foldr (fun p acc => max (f p) acc) 0

theorem le_supL {l : List Nat} {f : Nat → Nat} {p : Nat} (h : p ∈ l) : f p ≤ supL l f := by
  induction l with
  | nil => cases h
  | cons x xs ih =>
    simp only [supL, List.foldr_cons] at ih ⊢
    rcases List.mem_cons.1 h with rfl | h
    · omega
    · have := ih h; omega

theorem supL_lt {l : List Nat} {f : Nat → Nat} {b : Nat} (hb : 0 < b) (h : ∀ p ∈ l, f p < b) : supL l f < b := by
  induction l with
  | nil => exact hb
  | cons x xs ih =>
    simp only [supL, List.foldr_cons] at ih ⊢
    have h1 := h x (by simp)
    have h2 := ih (fun p hp => h p (List.mem_cons_of_mem _ hp))
    omega

theorem supL_le {l : List Nat} {f : Nat → Nat} {b : Nat} (h : ∀ p ∈ l, f p ≤ b) : supL l f ≤ b := by
  induction l with
  | nil => exact Nat.zero_le _
  | cons x xs ih =>
    simp only [supL, List.foldr_cons] at ih ⊢
    have h1 := h x (by simp)
    have h2 := ih (fun p hp => h p (List.mem_cons_of_mem _ hp))
    omega

/-! ## §2 clockwise distance, clockwise intervals -/

/-- number of steps clockwise from seat `a` to seat `p` at a table of `n` -/
def cwDist (n a p : Nat) : Nat := if a ≤ p then p - a else p + n - a

/-- `r` lies in the clockwise half-open interval `[p, q)` -/
def cwBetween (p r q : Nat) : Prop := (p ≤ q ∧ p ≤ r ∧ r < q) ∨ (q < p ∧ (p ≤ r ∨ r < q))

theorem cwDist_lt (n a p : Nat) (hp : p < n) : cwDist n a p < n := by
  unfold cwDist; split <;> omega

theorem succ_mod_eq (a n : Nat) (ha : a < n) : (a + 1) % n = if a + 1 < n then a + 1 else 0 := by
  split
  · rename_i h; exact Nat.mod_eq_of_lt h
  · have : a + 1 = n := by omega
    rw [this, Nat.mod_self]

/-- the seats skipped by `move_action` are not pending-capable, so every other seat that can act gets closer -/
theorem cwDist_decrease {n a a' p : Nat} (ha : a < n) (ha' : a' < n) (hp : p < n) (hpa : p ≠ a)
    (hnb : ¬ cwBetween ((a + 1) % n) p a') : cwDist n a' p < cwDist n a p := by
  rw [succ_mod_eq a n ha] at hnb
  unfold cwBetween at hnb
  unfold cwDist
  split at hnb <;> split <;> split <;> omega

/-! ## §3 pending seats, the measure -/

/-- seat `p` still owes an action: it is able to bet and has not acted on this street or is not matched -/
def State.pend (s : State) (p : Nat) : Bool :=
  s.live p && (!acted s.lastActions p || getI s.pot p != s.maxPot)

/-- clockwise distance (plus one) from the seat to act to the farthest pending seat; `0` if nobody is pending -/
def State.far (s : State) : Nat :=
  supL (List.range s.n) fun p => if s.pend p then cwDist s.n (s.action.getD 0) p + 1 else 0

/-- the lexicographic measure `(Σ stacks, 4 − street, far)` as one number -/
def State.rank (s : State) : Nat :=
  (sumI s.stacks).toNat * (5 * (s.n + 2)) + (4 - s.street) * (s.n + 2) + s.far

theorem far_le (s : State) : s.far ≤ s.n := by
  unfold State.far
  apply supL_le
  intro p hp
  have := cwDist_lt s.n (s.action.getD 0) p (List.mem_range.1 hp)
  split <;> omega

theorem cannotAct_eq_live (s : State) (p : Nat) : s.cannotAct p = !s.live p := by
  unfold State.cannotAct State.live liveSeat folded State.isAllIn
  cases h1 : (getI s.stacks p == 0) <;> cases h2 : ((s.lastActions[p]?).join == some ActType.fold) <;>
    simp [bne, h1]

theorem pend_live {s : State} {p : Nat} (h : s.pend p = true) : s.cannotAct p = false := by
  rw [cannotAct_eq_live]
  unfold State.pend at h
  simp only [Bool.and_eq_true] at h
  simp [h.1]

/-! ## §4 `move_action` stops at the *first* seat that can act -/

theorem moveAction_go_first (s : State) (fuel p q : Nat) (hp : p < s.n)
    (h : State.moveAction.go s fuel p = .ok q) :
    q < s.n ∧ s.cannotAct q = false ∧ ∀ r, r < s.n → cwBetween p r q → s.cannotAct r = true := by
  induction fuel generalizing p with
  | zero => simp [State.moveAction.go] at h
  | succ fuel ih =>
    unfold State.moveAction.go at h
    split at h
    · rename_i hc
      have hp' : (p + 1) % s.n < s.n := Nat.mod_lt _ (by omega)
      obtain ⟨h1, h2, h3⟩ := ih _ hp' h
      refine ⟨h1, h2, ?_⟩
      intro r hr hb
      by_cases hrp : r = p
      · rw [hrp]; exact hc
      · apply h3 r hr
        rw [succ_mod_eq p s.n hp]
        unfold cwBetween at hb ⊢
        split <;> omega
    · rename_i hc
      cases h
      refine ⟨hp, by simpa using hc, ?_⟩
      intro r _ hb
      unfold cwBetween at hb
      omega

theorem moveAction_first {s s' : State} (hn : 0 < s.n) (h : s.moveAction = .ok s') :
    ∃ a p, s.action = some a ∧ s' = { s with action := some p } ∧ p < s.n ∧ s.cannotAct p = false ∧
      ∀ r, r < s.n → cwBetween ((a + 1) % s.n) r p → s.cannotAct r = true := by
  unfold State.moveAction at h
  split at h
  · cases h
  · rename_i a ha
    rw [bind_ok] at h
    obtain ⟨p, hp, h⟩ := h
    cases h
    obtain ⟨h1, h2, h3⟩ := moveAction_go_first s _ _ p (Nat.mod_lt _ hn) hp
    exact ⟨a, p, ha, rfl, h1, h2, h3⟩

/-! ## §5 an open round has a pending seat -/

theorem open_has_pend {s : State} (h : s.isActionClosed = .ok false) : ∃ p, p < s.n ∧ s.pend p = true := by
  unfold State.isActionClosed isActionClosedFn at h
  cases hm : maxI? s.pot with
  | none => simp [maxI, hm, bind, Except.bind] at h
  | some mx =>
    have hmp : s.maxPot = mx := by simp [State.maxPot, hm]
    simp only [maxI, hm, bind, Except.bind, pure, Except.pure] at h
    split at h
    · rename_i hb
      obtain ⟨x, hx, hne⟩ := (dedup_length_gt_one_iff _ _).1 hb
      rw [List.mem_map] at hx
      obtain ⟨p, hp, rfl⟩ := hx
      rw [List.mem_filter] at hp
      refine ⟨p, List.mem_range.1 hp.1, ?_⟩
      have h2 := hp.2
      unfold State.pend State.live liveSeat folded
      rw [hmp]
      simp only [Bool.and_eq_true, bne_iff_ne, ne_eq, Bool.not_eq_true', beq_eq_false_iff_ne] at h2
      simp [h2.1, h2.2, hne]
    · repeat' split at h
      all_goals try (cases h)
      simp only [Except.ok.injEq, beq_eq_false_iff_ne, ne_eq] at h
      obtain ⟨p, hp⟩ := List.exists_mem_of_length_pos (Nat.pos_of_ne_zero h)
      rw [List.mem_filter] at hp
      refine ⟨p, List.mem_range.1 hp.1, ?_⟩
      have h2 := hp.2
      unfold State.pend State.live liveSeat folded acted
      simp only [Bool.and_eq_true, beq_iff_eq, Bool.not_eq_true', beq_eq_false_iff_ne, ne_eq] at h2
      simp [h2.1, h2.2]

/-! ## §6 arithmetic of the measure -/

theorem rank_lt_of_stacks {s s2 : State} (hn : s2.n = s.n) (h0 : 0 ≤ sumI s2.stacks)
    (h : sumI s2.stacks < sumI s.stacks) : s2.rank < s.rank := by
  unfold State.rank
  have f2 := far_le s2
  rw [hn] at f2 ⊢
  have hA : (sumI s2.stacks).toNat + 1 ≤ (sumI s.stacks).toNat := by omega
  have h1 := Nat.mul_le_mul_right (5 * (s.n + 2)) hA
  rw [Nat.add_mul] at h1
  have h2 : (4 - s2.street) * (s.n + 2) ≤ 4 * (s.n + 2) := Nat.mul_le_mul_right _ (by omega)
  generalize (sumI s2.stacks).toNat * (5 * (s.n + 2)) = X at *
  generalize (sumI s.stacks).toNat * (5 * (s.n + 2)) = Y at *
  generalize (4 - s2.street) * (s.n + 2) = Z at *
  omega

theorem rank_lt_of_street {s s2 : State} (hn : s2.n = s.n) (hs : s2.stacks = s.stacks)
    (h4 : s.street < 4) (h : s.street < s2.street) : s2.rank < s.rank := by
  unfold State.rank
  have f2 := far_le s2
  rw [hn] at f2 ⊢
  rw [hs]
  have hA : (4 - s2.street) + 1 ≤ 4 - s.street := by omega
  have h1 := Nat.mul_le_mul_right (s.n + 2) hA
  rw [Nat.add_mul] at h1
  generalize (sumI s.stacks).toNat * (5 * (s.n + 2)) = Y at *
  generalize (4 - s2.street) * (s.n + 2) = Z at *
  generalize (4 - s.street) * (s.n + 2) = W at *
  omega

theorem rank_lt_of_far {s s2 : State} (hn : s2.n = s.n) (hs : s2.stacks = s.stacks)
    (hst : s2.street = s.street) (h : s2.far < s.far) : s2.rank < s.rank := by
  unfold State.rank
  rw [hn, hs, hst]
  omega

/-! ## §7 a CHECK / FOLD that leaves the round open -/

theorem afterAction_zero (s : State) (a : Nat) (player : Int) (t : ActType) :
    afterAction s a player t 0 =
      { s with log := s.log ++ [⟨player, t, 0⟩], lastActions := s.lastActions.set a (some t) } := by
  unfold afterAction
  rw [modify_sub_zero, modify_add_zero]

/-- the actor leaves the pending set, nobody enters it -/
theorem pend_after_zero {s : State} {a : Nat} {t : ActType} {player : Int} (ha : a < s.lastActions.length)
    (ht : (t = .check ∧ s.owed a = 0) ∨ t = .fold) (p : Nat)
    (h : (afterAction s a player t 0).pend p = true) : s.pend p = true ∧ p ≠ a := by
  rw [afterAction_zero] at h
  by_cases hpa : p = a
  · subst hpa
    exfalso
    unfold State.pend State.live liveSeat folded acted State.maxPot at h
    simp only [List.getElem?_set_self ha] at h
    rcases ht with ⟨rfl, ho⟩ | rfl
    · unfold State.owed State.maxPot at ho
      simp at h
      omega
    · simp at h
  · refine ⟨?_, hpa⟩
    unfold State.pend State.live liveSeat folded acted State.maxPot at h ⊢
    simp only [List.getElem?_set_ne (Ne.symm hpa)] at h
    exact h

theorem far_lt_of_zero {s s2 : State} {a : Nat} {t : ActType} {player : Int} (hwf : s.WF)
    (hact : s.action = some a) (ht : (t = .check ∧ s.owed a = 0) ∨ t = .fold)
    (hcl : (afterAction s a player t 0).isActionClosed = .ok false)
    (hmv : (afterAction s a player t 0).moveAction = .ok s2) :
    s2.far < s.far ∧ s2.n = s.n ∧ s2.stacks = s.stacks ∧ s2.street = s.street := by
  have han : a < s.n := hwf.action_lt a hact
  have hn : 0 < s.n := by have := hwf.n_ge; omega
  obtain ⟨p0, hp0, hpp0⟩ := open_has_pend hcl
  obtain ⟨a0, a', ha0, rfl, ha'n, ha'c, hfirst⟩ := moveAction_first (s := afterAction s a player t 0) hn hmv
  have ha0' : a0 = a := by
    have : (afterAction s a player t 0).action = s.action := rfl
    rw [this, hact] at ha0
    exact (Option.some.inj ha0).symm
  subst ha0'
  have hpend := fun p => pend_after_zero (player := player) (t := t) (by rw [hwf.la_len]; exact han) ht p
  have hle : ∀ p, p < s.n → s.pend p = true → cwDist s.n a0 p + 1 ≤ s.far := by
    intro p hp hpp
    have := le_supL (l := List.range s.n)
      (f := fun p => if s.pend p then cwDist s.n (s.action.getD 0) p + 1 else 0) (List.mem_range.2 hp)
    simp only [hpp, if_true, hact, Option.getD_some] at this
    unfold State.far
    simp only [hact, Option.getD_some]
    exact this
  have hpos : 0 < s.far := by
    have := hle p0 hp0 (hpend p0 hpp0).1
    omega
  refine ⟨?_, rfl, ?_, rfl⟩
  · show supL (List.range s.n)
      (fun p => if (afterAction s a0 player t 0).pend p then cwDist s.n a' p + 1 else 0) < s.far
    apply supL_lt hpos
    intro p hp
    have hp' := List.mem_range.1 hp
    by_cases hpp : (afterAction s a0 player t 0).pend p = true
    · simp only [hpp, if_true]
      obtain ⟨h1, h2⟩ := hpend p hpp
      have h3 := hle p hp' h1
      have h4 : ¬ cwBetween ((a0 + 1) % s.n) p a' := by
        intro hb
        have := hfirst p hp' hb
        rw [pend_live hpp] at this
        cases this
      have := cwDist_decrease han ha'n hp' h2 h4
      omega
    · simp only [hpp]
      exact hpos
  · show s.stacks.modify a0 (· - 0) = s.stacks
    exact modify_sub_zero _ _

/-! ## §8 every accepted action lowers the measure -/

theorem streets_street_lt {fuel : Nat} {s s2 : State} (hs : s.street < showdownStreet)
    (h : State.advanceAction.streets fuel s = .ok s2) : s.street < s2.street := by
  cases fuel with
  | zero => simp [State.advanceAction.streets] at h
  | succ fuel =>
    unfold State.advanceAction.streets at h
    split at h
    · rw [bind_ok] at h
      obtain ⟨s1, h1, h⟩ := h
      rw [bind_ok] at h
      obtain ⟨c, _, h⟩ := h
      obtain ⟨_, _, _, f4, _⟩ := moveStreet_frame h1
      cases c with
      | true =>
        simp only [if_true] at h
        have := (streets_post fuel h).street_le
        omega
      | false =>
        simp only [Bool.false_eq_true, if_false, Except.ok.injEq] at h
        subst h
        omega
    · rename_i hn
      exact absurd hs hn

theorem act_rank_lt {env : Env} (hw : env.w = World.std) {cfg : Cfg} (hv : cfg.Valid) {s s' : State}
    {player : Int} {ty : Option ActType} {amount : Option Int} (hi : Inv cfg s) (hst : s.street < 4)
    (h : s.act env player ty amount = .ok s') :
    s'.rank < s.rank ∧ (s'.complete = false → s'.street < 4) := by
  obtain ⟨s1, h1, h2⟩ := act_ok.1 h
  rw [hw] at h1
  have hwf := hi.wf hv
  obtain ⟨hc, a, t, hact, rfl, rfl, hB, hV, rfl⟩ := (appendAction_ok_iff hwf _ _ _ _).1 h1
  have han : a < s.n := hwf.action_lt a hact
  rw [advanceAction_eq, bind_ok] at h2
  obtain ⟨closed, hcl, h2⟩ := h2
  rw [bind_ok] at h2
  obtain ⟨s2, h3, h4⟩ := h2
  have key : s2.rank < s.rank := by
    -- what the middle step keeps
    have hmid : s2.n = s.n ∧ s2.stacks = s.stacks.modify a (· - builtAmount s a t amount) := by
      cases closed with
      | false =>
        simp only [Bool.not_false, if_true] at h3
        obtain ⟨f1, f2, _⟩ := moveAction_frame h3
        exact ⟨f1.n, f2.stacks⟩
      | true =>
        simp only [Bool.not_true, Bool.false_eq_true, if_false] at h3
        have p := streets_post 6 h3
        exact ⟨p.cfg.n, p.money.stacks⟩
    -- a wager lowers the chips behind
    have hwager : 0 < builtAmount s a t amount → s2.rank < s.rank := by
      intro hpos
      apply rank_lt_of_stacks hmid.1
      · rw [hmid.2]
        exact sumI_nonneg _ (modify_sub_nonneg _ _ _ hwf.stacks_nonneg hV.1)
      · rw [hmid.2, sumI_modify_sub _ _ _ (by rw [hwf.stacks_len]; exact han)]
        omega
    -- CHECK / FOLD
    have hzero : ((t = .check ∧ s.owed a = 0) ∨ t = .fold) → builtAmount s a t amount = 0 → s2.rank < s.rank := by
      intro ht hm
      rw [hm] at h3 hcl hmid
      rw [modify_sub_zero] at hmid
      cases closed with
      | false =>
        simp only [Bool.not_false, if_true] at h3
        obtain ⟨g1, g2, g3, g4⟩ := far_lt_of_zero hwf hact ht hcl h3
        exact rank_lt_of_far g2 g3 g4 g1
      | true =>
        simp only [Bool.not_true, Bool.false_eq_true, if_false] at h3
        exact rank_lt_of_street hmid.1 hmid.2 hst (streets_street_lt (s := afterAction s a a t 0) hst h3)
    cases t with
    | check => exact hzero (Or.inl ⟨rfl, hV.2⟩) (builtAmount_zero hB (Or.inl rfl))
    | fold => exact hzero (Or.inr rfl) (builtAmount_zero hB (Or.inr (Or.inl rfl)))
    | draw => exact hV.2.elim
    | call =>
      apply hwager
      rcases hB with ⟨rfl, h0⟩ | ⟨x, rfl, hx⟩
      · simpa [builtAmount] using h0
      · simpa [builtAmount] using hx
    | bet =>
      apply hwager
      obtain ⟨x, rfl, hx⟩ := hB
      simpa [builtAmount] using hx
    | raise =>
      apply hwager
      obtain ⟨x, rfl, hx⟩ := hB
      simpa [builtAmount] using hx
  rcases settleIfShowdown_ok h4 with ⟨hlt, rfl⟩ | ⟨_, pay, rake, _, rfl⟩
  · exact ⟨key, fun _ => hlt⟩
  · exact ⟨key, fun hc => by cases hc⟩

/-! ## §9 the bound -/

theorem run_rank {env : Env} (hw : env.w = World.std) {cfg : Cfg} (hv : cfg.Valid) {s0 s : State} {k : Nat}
    (h0 : construct cfg = .ok s0) (hr : RunK env s0 k s) :
    Inv cfg s ∧ (s.complete = false → s.street < 4) ∧ k + s.rank ≤ s0.rank := by
  induction hr with
  | refl =>
    obtain ⟨_, _, _, _, _, _, _, _, _, _, _, hst, _⟩ := construct_frame h0
    exact ⟨construct_inv hv h0, fun _ => by rw [hst]; omega, by omega⟩
  | step p ty amt _ hact ih =>
    obtain ⟨i1, i2, i3⟩ := ih
    have hc := (act_result hact).1
    obtain ⟨r1, r2⟩ := act_rank_lt hw hv i1 (i2 hc) hact
    exact ⟨act_inv hw i1 hact, r2, by omega⟩

theorem terminates_thm (env : Env) (cfg : Cfg) (hw : env.w = World.std) (hv : cfg.Valid) {s0 s : State} {k : Nat}
    (h0 : construct cfg = .ok s0) (hr : RunK env s0 k s) :
    k ≤ ((sumI cfg.startingStacks).toNat + 1) * 5 * (cfg.n + 2) := by
  obtain ⟨_, _, hk⟩ := run_rank hw hv h0 hr
  have hi := construct_inv hv h0
  have hn : s0.n = cfg.n := hi.cfgOf.n
  have hpot := sumI_nonneg _ hi.chips.pot_nonneg
  have htot := hi.chips.total
  have hA : (sumI s0.stacks).toNat ≤ (sumI cfg.startingStacks).toNat := by omega
  have hf := far_le s0
  have h1 := Nat.mul_le_mul_right (5 * (cfg.n + 2)) hA
  have h2 : (4 - s0.street) * (cfg.n + 2) ≤ 4 * (cfg.n + 2) := Nat.mul_le_mul_right _ (by omega)
  have h3 : ((sumI cfg.startingStacks).toNat + 1) * 5 * (cfg.n + 2)
      = (sumI cfg.startingStacks).toNat * (5 * (cfg.n + 2)) + 5 * (cfg.n + 2) := by ring
  unfold State.rank at hk
  rw [hn] at hk hf
  rw [h3]
  generalize (sumI s0.stacks).toNat * (5 * (cfg.n + 2)) = X at *
  generalize (sumI cfg.startingStacks).toNat * (5 * (cfg.n + 2)) = Y at *
  generalize (4 - s0.street) * (cfg.n + 2) = Z at *
  omega

end CardVerif.Betting

#print axioms CardVerif.Betting.terminates_thm
